(** C12 — proofs. *)
From CG3 Require Import Lib.PyZ Lib.Val Model.GeneticCode Spec.GeneticCodeSpec.
From CG3gen Require Import GCTables.

(* ------------------------------------------------------------------ lists, three at a time *)

Lemma list_ind3 {A} (P : list A -> Prop) :
  P [] -> (forall a, P [a]) -> (forall a b, P [a; b]) ->
  (forall a b c r, P r -> P (a :: b :: c :: r)) -> forall l, P l.
Proof.
  intros H0 H1 H2 H3.
  fix IH 1. intros [|a [|b [|c r]]].
  - exact H0.
  - apply H1.
  - apply H2.
  - apply H3, IH.
Qed.

Lemma zlen_cons {A} (a : A) l : zlen (a :: l) = 1 + zlen l.
Proof. unfold zlen. simpl length. lia. Qed.
Lemma zlen_nil {A} : zlen (@nil A) = 0.
Proof. reflexivity. Qed.
Lemma zlen_nonneg {A} (l : list A) : 0 <= zlen l.
Proof. unfold zlen. lia. Qed.
Lemma zlen_app {A} (a b : list A) : zlen (a ++ b) = zlen a + zlen b.
Proof. unfold zlen. rewrite app_length. lia. Qed.
Lemma zlen_rev {A} (a : list A) : zlen (rev a) = zlen a.
Proof. unfold zlen. rewrite rev_length. lia. Qed.
Lemma zlen_map {A B} (f : A -> B) (a : list A) : zlen (map f a) = zlen a.
Proof. unfold zlen. rewrite map_length. lia. Qed.

Lemma codons_chunks3 s : codons s = chunks3 s.
Proof. induction s using list_ind3; simpl; congruence. Qed.

Lemma chunks3_map {A B} (f : A -> B) l : chunks3 (map f l) = map (map f) (chunks3 l).
Proof. induction l using list_ind3; simpl; congruence. Qed.

Lemma chunks3_app {A} (u v : list A) :
  zlen u mod 3 = 0 -> chunks3 (u ++ v) = chunks3 u ++ chunks3 v.
Proof.
  induction u using list_ind3; intros H.
  - reflexivity.
  - exfalso. rewrite zlen_cons, zlen_nil in H. discriminate H.
  - exfalso. rewrite !zlen_cons, zlen_nil in H. discriminate H.
  - simpl. f_equal. apply IHu. rewrite !zlen_cons in H. lia.
Qed.

Lemma chunks3_short {A} (v : list A) : zlen v < 3 -> chunks3 v = [].
Proof.
  destruct v as [|a [|b [|c r]]]; auto.
  rewrite !zlen_cons. pose proof (zlen_nonneg r). lia.
Qed.

Lemma chunks3_app_short {A} (u v : list A) :
  zlen u mod 3 = 0 -> zlen v < 3 -> chunks3 (u ++ v) = chunks3 u.
Proof. intros. rewrite chunks3_app, (chunks3_short v), app_nil_r; auto. Qed.

Lemma chunks3_In {A} (w : list A) s :
  In w (chunks3 s) -> exists a b c, w = [a; b; c] /\ In a s /\ In b s /\ In c s.
Proof.
  induction s using list_ind3; simpl; try tauto.
  intros [<-|H].
  - exists a, b, c. tauto.
  - destruct (IHs H) as (x & y & z & -> & ? & ? & ?). exists x, y, z. tauto.
Qed.

(** truncation to a multiple of three, as the code does it *)
Definition trunc3 {A} (l : list A) : list A :=
  let diff := zlen l mod 3 in if diff =? 0 then l else slice_to l (- diff).

Lemma trunc3_firstn {A} (l : list A) :
  trunc3 l = firstn (Z.to_nat (zlen l - zlen l mod 3)) l.
Proof.
  unfold trunc3, slice_to. pose proof (zlen_nonneg l).
  destruct (zlen l mod 3 =? 0) eqn:E.
  - replace (zlen l - zlen l mod 3) with (zlen l) by lia.
    unfold zlen. rewrite Nat2Z.id, firstn_all. reflexivity.
  - destruct (- (zlen l mod 3) <? 0) eqn:E2; [|lia].
    f_equal. lia.
Qed.

Lemma trunc3_split {A} (l : list A) :
  exists tl, l = trunc3 l ++ tl /\ zlen tl = zlen l mod 3 /\ zlen (trunc3 l) mod 3 = 0.
Proof.
  rewrite trunc3_firstn. set (k := Z.to_nat (zlen l - zlen l mod 3)).
  exists (skipn k l). pose proof (zlen_nonneg l).
  assert (Hk : (k <= length l)%nat) by (unfold k, zlen in *; lia).
  split; [symmetry; apply firstn_skipn|].
  assert (E1 : zlen (skipn k l) = zlen l - Z.of_nat k) by (unfold zlen; rewrite skipn_length; lia).
  assert (E2 : zlen (firstn k l) = Z.of_nat k) by (unfold zlen; rewrite firstn_length_le; auto).
  rewrite E1, E2. unfold k. rewrite Z2Nat.id by lia. split; lia.
Qed.

Lemma chunks3_trunc3 {A} (l : list A) : chunks3 (trunc3 l) = chunks3 l.
Proof.
  destruct (trunc3_split l) as (tl & Hl & Htl & Hm).
  rewrite Hl at 2. rewrite chunks3_app_short; auto. lia.
Qed.

Lemma slice_from_nonneg {A} (s : list A) start :
  0 <= start -> slice_from s start = skipn (Z.to_nat start) s.
Proof.
  intros H. unfold slice_from. destruct (start <? 0) eqn:E; [lia|].
  destruct (Z.min_spec start (zlen s)) as [[? ->]|[? ->]]; auto.
  unfold zlen in *. rewrite Nat2Z.id, !skipn_all2; auto; lia.
Qed.

Lemma start_slice {A} (s : list A) start :
  0 <= start -> (if start =? 0 then s else slice_from s start) = skipn (Z.to_nat start) s.
Proof.
  intros H. destruct (start =? 0) eqn:E.
  - replace start with 0 by lia. reflexivity.
  - apply slice_from_nonneg; auto.
Qed.

(* ------------------------------------------------------------------ the finite part: codes x 64 codons *)

Definition mono3 (w : str) : list Z := map (mono_index new_monomers) w.
(** what the plus / minus converter of a code answers for the k-mer index of codon [w] *)
Definition plus_aa (aa : str) (w : str) : Z :=
  let i := kmer_index3 (mono3 w) in trans_lookup plus_src (code_seq aa) i i.
Definition minus_aa (aa : str) (w : str) : Z :=
  let i := kmer_index3 (mono3 w) in trans_lookup minus_src (code_seq aa) i i.

Definition res_is (r : res Z) (t : Z) : bool := match r with Ok a => a =? t | Err _ => false end.

Definition codon_ok (id : Z) (aa : str) (w : str) : bool :=
  let t := spec_lookup (ncbi_tbl id) w in
  (plus_aa aa w =? t)
  && (minus_aa aa w =? spec_lookup (ncbi_tbl id) (rc_spec w))
  && res_is (getitem Old aa w) t
  && res_is (getitem New aa w) t
  && negb (t =? ch_gap) && negb (t =? ch_X).

Definition code_ok (e : Z * list Z * list Z) : bool :=
  forallb (codon_ok (fst (fst e)) (snd (fst e))) (product3 bases).

Lemma all_codes_ok : forallb code_ok new_codes = true.
Proof. vm_compute. reflexivity. Qed.

Lemma In_product3 (b0 : list Z) a b c :
  In a b0 -> In b b0 -> In c b0 -> In [a; b; c] (product3 b0).
Proof.
  intros Ha Hb Hc. unfold product3.
  apply in_flat_map. exists a. split; [assumption|].
  apply in_flat_map. exists b. split; [assumption|].
  apply (in_map (fun z => [a; b; z])). assumption.
Qed.

Lemma codon_facts id aa st a b c :
  In (id, aa, st) new_codes -> canonical a -> canonical b -> canonical c ->
  codon_ok id aa [a; b; c] = true.
Proof.
  intros Hin Ha Hb Hc.
  pose proof all_codes_ok as H. rewrite forallb_forall in H.
  specialize (H _ Hin). unfold code_ok in H. cbn [fst snd] in H.
  rewrite forallb_forall in H. apply H. apply In_product3; assumption.
Qed.

Definition canon_str (s : str) : Prop := Forall canonical s.

Lemma canon_chunk s w :
  canon_str s -> In w (chunks3 s) -> exists a b c, w = [a; b; c] /\ canonical a /\ canonical b /\ canonical c.
Proof.
  intros Hs Hw. destruct (chunks3_In w s Hw) as (a & b & c & -> & Ha & Hb & Hc).
  unfold canon_str in Hs. rewrite Forall_forall in Hs. exists a, b, c. auto.
Qed.

Lemma codon_ok_split id aa w :
  codon_ok id aa w = true ->
  plus_aa aa w = spec_lookup (ncbi_tbl id) w /\
  minus_aa aa w = spec_lookup (ncbi_tbl id) (rc_spec w) /\
  getitem Old aa w = Ok (spec_lookup (ncbi_tbl id) w) /\
  getitem New aa w = Ok (spec_lookup (ncbi_tbl id) w) /\
  spec_lookup (ncbi_tbl id) w <> ch_gap /\ spec_lookup (ncbi_tbl id) w <> ch_X.
Proof.
  unfold codon_ok. cbv zeta. intros H.
  repeat (apply andb_prop in H; destruct H as [H ?]).
  unfold res_is in *.
  destruct (getitem Old aa w) as [o|]; [|discriminate].
  destruct (getitem New aa w) as [n|]; [|discriminate].
  unfold ch_gap, ch_X in *.
  apply Z.eqb_eq in H, H2, H3, H4. subst o n.
  repeat split; try assumption; intros E; rewrite E in *; discriminate.
Qed.

Lemma canon_skipn s n : canon_str s -> canon_str (skipn n s).
Proof.
  unfold canon_str. rewrite !Forall_forall. intros H x Hx. apply H.
  rewrite <- (firstn_skipn n s). apply in_or_app. right. exact Hx.
Qed.

(* ------------------------------------------------------------------ plus strand *)

Lemma translate_false_eq aa s start :
  translate aa s start false = translate_pinned aa s start false.
Proof. reflexivity. Qed.

Lemma translate_pinned_unfold aa s start rc :
  0 <= start ->
  translate_pinned aa s start rc =
  let seq := to_kmer_indices (trunc3 (skipn (Z.to_nat start) s)) in
  if rc then rev (convert minus_src (code_seq aa) seq) else convert plus_src (code_seq aa) seq.
Proof.
  intros H. unfold translate_pinned, str in *. rewrite (start_slice s start H). reflexivity.
Qed.

Lemma convert_plus aa dna :
  convert plus_src (code_seq aa) (to_kmer_indices dna) = map (plus_aa aa) (chunks3 dna).
Proof.
  unfold convert, to_kmer_indices. rewrite chunks3_map, !map_map. reflexivity.
Qed.

Lemma convert_minus aa dna :
  convert minus_src (code_seq aa) (to_kmer_indices dna) = map (minus_aa aa) (chunks3 dna).
Proof.
  unfold convert, to_kmer_indices. rewrite chunks3_map, !map_map. reflexivity.
Qed.

Lemma plus_table_spec id aa st t :
  In (id, aa, st) new_codes -> canon_str t ->
  map (plus_aa aa) (chunks3 t) = translate_spec (ncbi_tbl id) t.
Proof.
  intros Hin Ht. unfold translate_spec. rewrite codons_chunks3.
  apply map_ext_in. intros w Hw.
  destruct (canon_chunk t w Ht Hw) as (a & b & c & -> & Ha & Hb & Hc).
  apply (codon_ok_split id aa), (codon_facts id aa st); assumption.
Qed.

Lemma translate_plus_spec_lemma id aa st s start :
  In (id, aa, st) new_codes -> canon_str s -> 0 <= start ->
  translate aa s start false = frame_plus (ncbi_tbl id) s (Z.to_nat start).
Proof.
  intros Hin Hs H0. rewrite translate_false_eq, translate_pinned_unfold by assumption. cbv zeta.
  rewrite convert_plus, chunks3_trunc3.
  apply (plus_table_spec id aa st); [assumption|]. apply canon_skipn; assumption.
Qed.

(* ------------------------------------------------------------------ minus strand *)

Lemma rc_spec_app u v : rc_spec (u ++ v) = rc_spec v ++ rc_spec u.
Proof. unfold rc_spec. rewrite map_app, rev_app_distr. reflexivity. Qed.

Lemma zlen_rc_spec u : zlen (rc_spec u) = zlen u.
Proof. unfold rc_spec. rewrite zlen_rev, zlen_map. reflexivity. Qed.

Lemma chunks3_rc u :
  zlen u mod 3 = 0 -> chunks3 (rc_spec u) = rev (map rc_spec (chunks3 u)).
Proof.
  induction u using list_ind3; intros H.
  - reflexivity.
  - exfalso. rewrite zlen_cons, zlen_nil in H. discriminate H.
  - exfalso. rewrite !zlen_cons, zlen_nil in H. discriminate H.
  - change (a :: b :: c :: u) with ([a; b; c] ++ u). rewrite rc_spec_app.
    assert (Hu : zlen u mod 3 = 0) by (rewrite !zlen_cons in H; lia).
    rewrite chunks3_app by (rewrite zlen_rc_spec; exact Hu).
    rewrite IHu by exact Hu. reflexivity.
Qed.

Lemma canon_comp c : canonical c -> canonical (comp_base_dna c).
Proof.
  unfold canonical, bases. simpl. intros [<-|[<-|[<-|[<-|[]]]]]; vm_compute; tauto.
Qed.

Lemma canon_rc s : canon_str s -> canon_str (rc_spec s).
Proof.
  unfold canon_str, rc_spec. intros H. apply Forall_rev.
  rewrite Forall_forall in *. intros x Hx. apply in_map_iff in Hx.
  destruct Hx as (y & <- & Hy). apply canon_comp, H, Hy.
Qed.

Lemma canon_firstn s n : canon_str s -> canon_str (firstn n s).
Proof.
  unfold canon_str. rewrite !Forall_forall. intros H x Hx. apply H.
  rewrite <- (firstn_skipn n s). apply in_or_app. left. exact Hx.
Qed.

Lemma canon_trunc3 s : canon_str s -> canon_str (trunc3 s).
Proof. rewrite trunc3_firstn. apply canon_firstn. Qed.

(** the minus converter, on a whole number of codons, translates the reverse complement *)
Lemma minus_table_spec id aa st t :
  In (id, aa, st) new_codes -> canon_str t -> zlen t mod 3 = 0 ->
  rev (map (minus_aa aa) (chunks3 t)) = translate_spec (ncbi_tbl id) (rc_spec t).
Proof.
  intros Hin Ht Hm. unfold translate_spec. rewrite codons_chunks3, chunks3_rc by exact Hm.
  rewrite <- !map_rev, map_map.
  apply map_ext_in. intros w Hw. apply in_rev in Hw.
  destruct (canon_chunk t w Ht Hw) as (a & b & c & -> & Ha & Hb & Hc).
  apply (codon_ok_split id aa), (codon_facts id aa st); assumption.
Qed.

Lemma skipn_app_exact {A} (u v : list A) k : length u = k -> skipn k (u ++ v) = v.
Proof.
  intros <-. rewrite skipn_app, skipn_all, Nat.sub_diag. reflexivity.
Qed.

Lemma slice_to_nonneg {A} (s : list A) stop :
  0 <= stop -> slice_to s stop = firstn (Z.to_nat stop) s.
Proof.
  intros H. unfold slice_to. destruct (stop <? 0) eqn:E; [lia|].
  destruct (Z.min_spec stop (zlen s)) as [[? ->]|[? ->]]; auto.
  unfold zlen in *. rewrite Nat2Z.id, !firstn_all2; auto; lia.
Qed.

(** truncation to a multiple of three from the left, as the repaired minus strand does it *)
Definition ltrunc3 {A} (l : list A) : list A :=
  let diff := zlen l mod 3 in if diff =? 0 then l else slice_from l diff.

Lemma translate_true aa s start :
  translate aa s start true =
  rev (convert minus_src (code_seq aa)
         (to_kmer_indices (ltrunc3 (if start =? 0 then s else slice_to s (Z.max (zlen s - start) 0))))).
Proof. reflexivity. Qed.

Lemma ltrunc3_skipn {A} (l : list A) : ltrunc3 l = skipn (Z.to_nat (zlen l mod 3)) l.
Proof.
  unfold ltrunc3. cbv zeta. destruct (zlen l mod 3 =? 0) eqn:E.
  - replace (zlen l mod 3) with 0 by lia. reflexivity.
  - apply slice_from_nonneg. lia.
Qed.

Lemma right_cut {A} (s : list A) start :
  0 <= start ->
  (if start =? 0 then s else slice_to s (Z.max (zlen s - start) 0))
  = firstn (length s - Z.to_nat start) s.
Proof.
  intros H0. destruct (start =? 0) eqn:E.
  - replace (Z.to_nat start) with 0%nat by lia. rewrite Nat.sub_0_r, firstn_all. reflexivity.
  - rewrite slice_to_nonneg by lia. f_equal. unfold zlen. lia.
Qed.

(** the repaired translate(rc=True): frame [start] of the reverse complement, EVERY length *)
Lemma translate_minus_spec_lemma id aa st s start :
  In (id, aa, st) new_codes -> canon_str s -> 0 <= start ->
  translate aa s start true = frame_minus (ncbi_tbl id) s (Z.to_nat start).
Proof.
  intros Hin Hs H0. rewrite translate_true, right_cut by exact H0.
  set (k := Z.to_nat start).
  set (dna1 := firstn (length s - k) s).
  rewrite ltrunc3_skipn.
  set (d := zlen dna1 mod 3).
  set (dna2 := skipn (Z.to_nat d) dna1).
  assert (Hd : 0 <= d < 3) by (unfold d; lia).
  assert (Hdle : (Z.to_nat d <= length dna1)%nat) by (unfold d, zlen in *; lia).
  assert (Hm2 : zlen dna2 mod 3 = 0).
  { unfold dna2, zlen. rewrite skipn_length. unfold d, zlen in *. lia. }
  rewrite convert_minus.
  rewrite (minus_table_spec id aa st); [|assumption| |exact Hm2].
  2:{ unfold dna2, dna1. apply canon_skipn, canon_firstn, Hs. }
  unfold frame_minus, translate_spec. f_equal. rewrite !codons_chunks3. fold k.
  assert (E3 : skipn k (rc_spec s) = rc_spec dna1).
  { assert (Es : rc_spec s = rc_spec (skipn (length s - k) s) ++ rc_spec dna1).
    { unfold dna1. rewrite <- rc_spec_app, firstn_skipn. reflexivity. }
    rewrite Es.
    destruct (le_lt_dec k (length s)) as [Hk|Hk].
    - apply skipn_app_exact. apply Nat2Z.inj. fold (zlen (rc_spec (skipn (length s - k) s))).
      rewrite zlen_rc_spec. unfold zlen. rewrite skipn_length. lia.
    - unfold dna1. replace (length s - k)%nat with 0%nat by lia. simpl firstn. simpl skipn.
      rewrite app_nil_r. apply skipn_all2.
      pose proof (zlen_rc_spec s) as E. unfold zlen in E. lia. }
  rewrite E3.
  assert (E4 : rc_spec dna1 = rc_spec dna2 ++ rc_spec (firstn (Z.to_nat d) dna1)).
  { unfold dna2. rewrite <- rc_spec_app, firstn_skipn. reflexivity. }
  rewrite E4.
  rewrite chunks3_app_short; [reflexivity|rewrite zlen_rc_spec; exact Hm2|].
  rewrite zlen_rc_spec. unfold zlen. rewrite firstn_length_le by exact Hdle. lia.
Qed.

(* ------------------------------------------------------------------ the pre-repair code *)

(** what translate(rc=True) computed before the repair, for every start: the translation of the
    reverse complement of the window cut on the PLUS strand *)
Lemma translate_pinned_minus_char_lemma id aa st s start :
  In (id, aa, st) new_codes -> canon_str s -> 0 <= start ->
  translate_pinned aa s start true =
  translate_spec (ncbi_tbl id) (rc_spec (trunc3 (skipn (Z.to_nat start) s))).
Proof.
  intros Hin Hs H0. rewrite translate_pinned_unfold by assumption. cbv zeta.
  rewrite convert_minus.
  destruct (trunc3_split (skipn (Z.to_nat start) s)) as (tl & _ & _ & Hm).
  apply (minus_table_spec id aa st); [assumption| |exact Hm].
  apply canon_trunc3, canon_skipn, Hs.
Qed.

(** ... which is the requested frame only when the length cooperates *)
Lemma translate_pinned_minus_guarded_lemma id aa st s start :
  In (id, aa, st) new_codes -> canon_str s -> 0 <= start ->
  (zlen s - start) mod 3 = start ->
  translate_pinned aa s start true = frame_minus (ncbi_tbl id) s (Z.to_nat start).
Proof.
  intros Hin Hs H0 Hg.
  rewrite (translate_pinned_minus_char_lemma id aa st) by assumption.
  unfold frame_minus, translate_spec. f_equal. rewrite !codons_chunks3.
  set (k := Z.to_nat start). set (t := skipn k s).
  destruct (trunc3_split t) as (tl & Ht & Htl & Hm).
  destruct (le_lt_dec k (length s)) as [Hk|Hk].
  - assert (Hlt : zlen t = zlen s - start).
    { unfold t, zlen. rewrite skipn_length. unfold k. lia. }
    assert (Es : rc_spec s = rc_spec t ++ rc_spec (firstn k s)).
    { unfold t. rewrite <- rc_spec_app, firstn_skipn. reflexivity. }
    assert (Et : rc_spec t = rc_spec tl ++ rc_spec (trunc3 t)).
    { rewrite <- rc_spec_app, <- Ht. reflexivity. }
    rewrite Es, Et, <- app_assoc.
    rewrite skipn_app_exact.
    + rewrite chunks3_app_short; [reflexivity|rewrite zlen_rc_spec; exact Hm|].
      rewrite zlen_rc_spec. unfold zlen. rewrite firstn_length_le by exact Hk. unfold k. lia.
    + apply Nat2Z.inj. fold (zlen (rc_spec tl)). rewrite zlen_rc_spec, Htl, Hlt, Hg. unfold k. lia.
  - assert (Et : t = []) by (unfold t; apply skipn_all2; lia).
    rewrite Et. rewrite skipn_all2.
    + reflexivity.
    + fold (rc_spec s). pose proof (zlen_rc_spec s) as E. unfold zlen in E. lia.
Qed.

(** exactly which frame the pre-repair code returns: the reverse-strand reading of the codons
    of PLUS frame [start], i.e. frame (len - start) mod 3 of the reverse complement *)
Lemma translate_pinned_minus_frame_lemma id aa st s start :
  In (id, aa, st) new_codes -> canon_str s -> 0 <= start < 3 -> start <= zlen s ->
  translate_pinned aa s start true
  = frame_minus (ncbi_tbl id) s (Z.to_nat ((zlen s - start) mod 3)).
Proof.
  intros Hin Hs H0 Hle.
  rewrite (translate_pinned_minus_char_lemma id aa st) by (assumption || lia).
  unfold frame_minus, translate_spec. f_equal. rewrite !codons_chunks3.
  set (k := Z.to_nat start). set (t := skipn k s).
  destruct (trunc3_split t) as (tl & Ht & Htl & Hm).
  assert (Hk : (k <= length s)%nat) by (unfold k, zlen in *; lia).
  assert (Hlt : zlen t = zlen s - start).
  { unfold t, zlen. rewrite skipn_length. unfold k, zlen in *. lia. }
  assert (Es : rc_spec s = rc_spec t ++ rc_spec (firstn k s)).
  { unfold t. rewrite <- rc_spec_app, firstn_skipn. reflexivity. }
  assert (Et : rc_spec t = rc_spec tl ++ rc_spec (trunc3 t)).
  { rewrite <- rc_spec_app, <- Ht. reflexivity. }
  rewrite Es, Et, <- app_assoc.
  rewrite skipn_app_exact.
  + rewrite chunks3_app_short; [reflexivity|rewrite zlen_rc_spec; exact Hm|].
    rewrite zlen_rc_spec. unfold zlen. rewrite firstn_length_le by exact Hk. unfold k. lia.
  + apply Nat2Z.inj. fold (zlen (rc_spec tl)). rewrite zlen_rc_spec, Htl, Hlt. lia.
Qed.

Fixpoint canon_strb (s : str) : bool :=
  match s with [] => true | c :: r => canonicalb c && canon_strb r end.

Lemma canonicalb_sound c : canonicalb c = true -> canonical c.
Proof.
  unfold canonicalb, canonical. intros H. apply existsb_exists in H.
  destruct H as (x & Hx & E). apply Z.eqb_eq in E. subst x. exact Hx.
Qed.

Lemma canon_strb_sound s : canon_strb s = true -> canon_str s.
Proof.
  induction s as [|c r IH]; intros H; [constructor|].
  cbn [canon_strb] in H. apply andb_prop in H. destruct H as [H1 H2].
  constructor; [apply canonicalb_sound, H1|apply IH, H2].
Qed.

Lemma str_eqb_eq a b : str_eqb a b = true <-> a = b.
Proof.
  revert b. induction a as [|x a IH]; intros [|y b]; cbn [str_eqb]; split; intros H; try discriminate; auto.
  - apply andb_prop in H. destruct H as [H1 H2]. apply Z.eqb_eq in H1. apply IH in H2. congruence.
  - injection H as -> ->. rewrite Z.eqb_refl. apply IH. reflexivity.
Qed.

Lemma str_eqb_neq a b : str_eqb a b = false -> a <> b.
Proof. intros H E. apply str_eqb_eq in E. congruence. Qed.

Lemma hd_In {A} (d : A) (l : list A) : is_nil l = false -> In (hd d l) l.
Proof. destruct l; [discriminate|left; reflexivity]. Qed.

(** the guard is needed: the unguarded statement is false of the pre-repair code
    (first code of the table, ATGAAACCCT, frame 0) *)
Definition refute_seq : str := [65; 84; 71; 65; 65; 65; 67; 67; 67; 84].
Definition refute_code : Z * list Z * list Z := hd (0, [], []) new_codes.
Lemma refute_checks :
  is_nil new_codes = false /\ canon_strb refute_seq = true /\
  str_eqb (translate_pinned (snd (fst refute_code)) refute_seq 0 true)
          (frame_minus (ncbi_tbl (fst (fst refute_code))) refute_seq 0) = false.
Proof. vm_compute. repeat split. Qed.

Lemma translate_pinned_minus_refuted_lemma :
  exists id aa st s start,
    In (id, aa, st) new_codes /\ canon_str s /\ 0 <= start < 3 /\
    translate_pinned aa s start true <> frame_minus (ncbi_tbl id) s (Z.to_nat start).
Proof.
  destruct refute_checks as (H1 & H2 & H3).
  exists (fst (fst refute_code)), (snd (fst refute_code)), (snd refute_code), refute_seq, 0.
  split.
  { replace (fst (fst refute_code), snd (fst refute_code), snd refute_code) with refute_code
      by (destruct refute_code as [[? ?] ?]; reflexivity).
    apply hd_In, H1. }
  split; [apply canon_strb_sound, H2|].
  split; [lia|]. apply str_eqb_neq, H3.
Qed.

(* ------------------------------------------------------------------ the tables *)

Lemma old_eq_new_lemma : old_codes = new_codes.
Proof. vm_compute. reflexivity. Qed.

Lemma new_eq_ncbi_lemma : new_codes = ncbi_codes.
Proof. vm_compute. reflexivity. Qed.

Lemma old_bases_lemma : old_bases = bases /\ canon_new = bases.
Proof. vm_compute. split; reflexivity. Qed.

(** the Base1/Base2/Base3 header lines of the NCBI file enumerate product(TCAG, repeat=3) *)
Definition ncbi_header_words : list (list Z) :=
  map (fun p => [fst p; fst (snd p); snd (snd p)]) (combine ncbi_base1 (combine ncbi_base2 ncbi_base3)).
Lemma ncbi_header_lemma : ncbi_header_words = product3 bases.
Proof. vm_compute. reflexivity. Qed.

Definition row_wf (e : Z * list Z * list Z) : bool :=
  (zlen (snd (fst e)) =? 64) && (zlen (snd e) =? 64)
  && forallb (fun c => negb (c =? ch_gap) && negb (c =? ch_X)) (snd (fst e))
  && forallb (fun c => (c =? 77) || (c =? ch_gap) || (c =? ch_star)) (snd e).
Fixpoint distinctb (l : list Z) : bool :=
  match l with [] => true | x :: r => negb (memZ x r) && distinctb r end.
Definition tables_wf (codes : list (Z * list Z * list Z)) : bool :=
  forallb row_wf codes && distinctb (map (fun e => fst (fst e)) codes) && negb (is_nil codes).
Lemma tables_wf_lemma : tables_wf ncbi_codes = true /\ tables_wf new_codes = true /\ tables_wf old_codes = true.
Proof. vm_compute. repeat split. Qed.

(** the 66-entry byte tables the GeneticCode objects really translate with (dumped from the
    objects by the translator) are the converter tables of the model *)
Definition conv_table (src : list Z) (aa : str) : list Z :=
  map (fun i => trans_lookup src (code_seq aa) i i) (zrange 0 66).
Definition tables_of (src : list Z) : list (Z * list Z) :=
  map (fun e : Z * list Z * list Z => (fst (fst e), conv_table src (snd (fst e)))) new_codes.
Lemma converter_tables_lemma :
  tables_of plus_src = new_plus_tables /\ tables_of minus_src = new_minus_tables.
Proof. vm_compute. split; reflexivity. Qed.

(** every codon of every code, any letter case, U for T: both __getitem__ = the NCBI column;
    stop codons = the columns holding "*" *)
Lemma getitem_spec_lemma v id aa st a b c :
  In (id, aa, st) new_codes -> canonical a -> canonical b -> canonical c ->
  getitem v aa [a; b; c] = Ok (spec_lookup (ncbi_tbl id) [a; b; c]).
Proof.
  intros Hin Ha Hb Hc.
  destruct (codon_ok_split id aa [a; b; c] (codon_facts id aa st a b c Hin Ha Hb Hc)) as (_ & _ & Ho & Hn & _).
  destruct v; assumption.
Qed.

Lemma is_stop_spec_lemma v id aa st a b c :
  In (id, aa, st) new_codes -> canonical a -> canonical b -> canonical c ->
  is_stop v aa [a; b; c] = Ok (spec_lookup (ncbi_tbl id) [a; b; c] =? star).
Proof.
  intros. unfold is_stop. rewrite (getitem_spec_lemma v id aa st) by assumption. reflexivity.
Qed.

(* ------------------------------------------------------------------ old GeneticCode.translate *)

Lemma mapM_ok {A B} (f : A -> res B) (g : A -> B) l :
  (forall x, In x l -> f x = Ok (g x)) -> mapM f l = Ok (map g l).
Proof.
  induction l as [|a r IH]; intros H; [reflexivity|].
  cbn [mapM map]. rewrite (H a) by (left; reflexivity). cbn [bind].
  rewrite IH by (intros x Hx; apply H; right; exact Hx). reflexivity.
Qed.

Lemma translate_old_spec_lemma id aa st s start :
  In (id, aa, st) old_codes -> canon_str s -> 0 <= start -> (s = [] \/ start < zlen s) ->
  translate_old aa s start = Ok (frame_plus (ncbi_tbl id) s (Z.to_nat start)).
Proof.
  intros Hin Hs H0 Hlen. rewrite old_eq_new_lemma in Hin.
  unfold translate_old, frame_plus. destruct (start <? 0) eqn:E; [lia|].
  destruct s as [|x r]; [rewrite skipn_nil; reflexivity|].
  destruct Hlen as [Hlen|Hlen]; [discriminate|].
  destruct (start + 1 >? zlen (x :: r)) eqn:E2; [lia|].
  unfold translate_spec. rewrite codons_chunks3.
  apply mapM_ok. intros w Hw.
  destruct (canon_chunk _ w (canon_skipn _ (Z.to_nat start) Hs) Hw) as (a & b & c & -> & Ha & Hb & Hc).
  apply (getitem_spec_lemma Old id aa st); assumption.
Qed.

(* ------------------------------------------------------------------ complement / reverse complement *)

Lemma assocZ_In {A} k (l : list (Z * A)) v : assocZ k l = Some v -> In (k, v) l.
Proof.
  induction l as [|[k' v'] r IH]; cbn [assocZ]; [discriminate|].
  destruct (k' =? k) eqn:E; intros H.
  - injection H as ->. apply Z.eqb_eq in E. subst k'. left. reflexivity.
  - right. apply IH, H.
Qed.

Definition comp_invol_check (tbl : list (Z * Z)) : bool :=
  forallb (fun kv => comp_char tbl (snd kv) =? fst kv) tbl.

Lemma comp_involutive_gen tbl :
  comp_invol_check tbl = true -> forall c, comp_char tbl (comp_char tbl c) = c.
Proof.
  intros H c. unfold comp_invol_check in H. rewrite forallb_forall in H.
  unfold comp_char at 2. destruct (assocZ c tbl) as [d|] eqn:E.
  - apply assocZ_In in E. specialize (H _ E). cbn [fst snd] in H. lia.
  - unfold comp_char. rewrite E. reflexivity.
Qed.

Definition all_impl_moltype : list (impl * moltype) := [(Old, DNA); (Old, RNA); (New, DNA); (New, RNA)].
Lemma In_all_impl_moltype v m : In (v, m) all_impl_moltype.
Proof. destruct v, m; cbn; tauto. Qed.

Lemma comp_tables_checked :
  forallb (fun vm => comp_invol_check (comp_table (fst vm) (snd vm))) all_impl_moltype = true.
Proof. vm_compute. reflexivity. Qed.

Lemma comp_char_involutive v m c :
  comp_char (comp_table v m) (comp_char (comp_table v m) c) = c.
Proof.
  apply comp_involutive_gen.
  pose proof comp_tables_checked as H. rewrite forallb_forall in H.
  apply (H (v, m)), In_all_impl_moltype.
Qed.

Lemma comp_char_involutive_new c : comp_char comp_dna (comp_char comp_dna c) = c.
Proof. exact (comp_char_involutive New DNA c). Qed.
Lemma comp_char_involutive_new_rna c : comp_char comp_rna (comp_char comp_rna c) = c.
Proof. exact (comp_char_involutive New RNA c). Qed.

Lemma complement_pure_involutive v m s :
  complement_pure (comp_table v m) (complement_pure (comp_table v m) s) = s.
Proof.
  unfold complement_pure. rewrite map_map. rewrite <- (map_id s) at 2.
  apply map_ext. intros c. apply comp_char_involutive.
Qed.

Lemma rc_pure_involutive v m s : rc_pure (comp_table v m) (rc_pure (comp_table v m) s) = s.
Proof.
  unfold rc_pure, complement_pure. rewrite map_rev, rev_involutive, map_map.
  rewrite <- (map_id s) at 2. apply map_ext. intros c. apply comp_char_involutive.
Qed.

(** the validating entry points: the complement of a valid sequence is valid *)
Definition comp_closed_check (m : moltype) : bool :=
  forallb (fun c => memZ (comp_char (comp_table New m) c) (dga m)) (dga m).
Lemma comp_closed_checked : comp_closed_check DNA = true /\ comp_closed_check RNA = true.
Proof. vm_compute. split; reflexivity. Qed.

Lemma memZ_In c l : memZ c l = true <-> In c l.
Proof.
  unfold memZ. rewrite existsb_exists. split.
  - intros (x & Hx & E). apply Z.eqb_eq in E. subst x. exact Hx.
  - intros H. exists c. split; [exact H|apply Z.eqb_refl].
Qed.

Lemma valid_complement m s :
  forallb (fun c => memZ c (dga m)) s = true ->
  forallb (fun c => memZ c (dga m)) (complement_pure (comp_table New m) s) = true.
Proof.
  intros H. rewrite forallb_forall in *. intros x Hx. unfold complement_pure in Hx.
  apply in_map_iff in Hx. destruct Hx as (c & <- & Hc).
  assert (Hm : comp_closed_check m = true) by (destruct m; apply comp_closed_checked).
  unfold comp_closed_check in Hm. rewrite forallb_forall in Hm.
  apply Hm. apply memZ_In. apply H. exact Hc.
Qed.

Lemma forallb_rev {A} (f : A -> bool) l : forallb f (rev l) = forallb f l.
Proof.
  induction l as [|a r IH]; [reflexivity|].
  cbn [rev forallb]. rewrite forallb_app, IH. cbn [forallb]. rewrite andb_true_r. apply andb_comm.
Qed.

Lemma Ok_inj {A} (a b : A) : @Ok A a = Ok b -> a = b.
Proof. intros H. injection H as H. exact H. Qed.

Lemma complement_involutive_lemma v m s r : complement v m s = Ok r -> complement v m r = Ok s.
Proof.
  destruct v; cbn [complement].
  - intros H. apply Ok_inj in H. subst r. rewrite complement_pure_involutive. reflexivity.
  - destruct (forallb (fun c => memZ c (dga m)) s) eqn:E; [|discriminate].
    intros H. apply Ok_inj in H. subst r. rewrite (valid_complement m s E), complement_pure_involutive. reflexivity.
Qed.

Lemma rc_involutive_lemma v m s r : rc v m s = Ok r -> rc v m r = Ok s.
Proof.
  unfold rc. destruct (complement v m s) as [c|e] eqn:E; cbn [bind]; [|discriminate].
  intros H. apply Ok_inj in H. subst r.
  assert (Hc : complement v m (rev c) = Ok (rev s)).
  { destruct v; cbn [complement] in *.
    - apply Ok_inj in E. subst c. unfold complement_pure. rewrite <- map_rev.
      change (map (comp_char (comp_table Old m)) (map (comp_char (comp_table Old m)) (rev s)))
        with (complement_pure (comp_table Old m) (complement_pure (comp_table Old m) (rev s))).
      rewrite complement_pure_involutive. reflexivity.
    - destruct (forallb (fun c => memZ c (dga m)) s) eqn:E1; [|discriminate].
      apply Ok_inj in E. subst c. rewrite forallb_rev, (valid_complement m s E1).
      unfold complement_pure. rewrite <- map_rev.
      change (map (comp_char (comp_table New m)) (map (comp_char (comp_table New m)) (rev s)))
        with (complement_pure (comp_table New m) (complement_pure (comp_table New m) (rev s))).
      rewrite complement_pure_involutive. reflexivity. }
  rewrite Hc. cbn [bind]. rewrite rev_involutive. reflexivity.
Qed.

(** on the bases the tables are Watson-Crick *)
Definition comp_base (m : moltype) : Z -> Z := match m with DNA => comp_base_dna | RNA => comp_base_rna end.
Definition alpha_spec (m : moltype) : list Z := match m with DNA => bases | RNA => map t2u bases end.
Lemma comp_on_bases_checked :
  forallb (fun vm => forallb (fun c => comp_char (comp_table (fst vm) (snd vm)) c =? comp_base (snd vm) c)
                             (alpha_spec (snd vm))) all_impl_moltype = true.
Proof. vm_compute. reflexivity. Qed.

Lemma comp_on_bases v m c : In c (alpha_spec m) -> comp_char (comp_table v m) c = comp_base m c.
Proof.
  intros Hc. pose proof comp_on_bases_checked as H. rewrite forallb_forall in H.
  specialize (H (v, m) (In_all_impl_moltype v m)). cbn [fst snd] in H.
  rewrite forallb_forall in H. specialize (H c Hc). lia.
Qed.

Lemma rc_pure_canon v s : canon_str s -> rc_pure (comp_table v DNA) s = rc_spec s.
Proof.
  intros Hs. unfold rc_pure, complement_pure, rc_spec. f_equal.
  apply map_ext_in. intros c Hc. unfold canon_str in Hs. rewrite Forall_forall in Hs.
  apply (comp_on_bases v DNA c). apply Hs, Hc.
Qed.

(* ------------------------------------------------------------------ entry points agree *)

(** translate(s, start, rc=True) is the translation of the reverse-complemented string *)
Lemma translate_rc_is_translate_of_rc_lemma id aa st s start :
  In (id, aa, st) new_codes -> canon_str s -> 0 <= start ->
  translate aa s start true = translate aa (rc_pure dna_comp_new s) start false.
Proof.
  intros Hin Hs H0.
  rewrite (translate_minus_spec_lemma id aa st) by assumption.
  change dna_comp_new with (comp_table New DNA). rewrite rc_pure_canon by exact Hs.
  rewrite (translate_plus_spec_lemma id aa st) by (auto using canon_rc). reflexivity.
Qed.

Lemma old_new_agree_plus_lemma id aa st s start :
  In (id, aa, st) new_codes -> canon_str s -> 0 <= start -> (s = [] \/ start < zlen s) ->
  translate_old aa s start = Ok (translate aa s start false).
Proof.
  intros Hin Hs H0 Hl.
  rewrite (translate_plus_spec_lemma id aa st) by assumption.
  assert (Hin' : In (id, aa, st) old_codes) by (rewrite old_eq_new_lemma; exact Hin).
  apply (translate_old_spec_lemma id aa st); assumption.
Qed.

Lemma old_new_agree_minus_lemma id aa st s start :
  In (id, aa, st) new_codes -> canon_str s -> 0 <= start -> (s = [] \/ start < zlen s) ->
  translate_old aa (rc_pure dna_comp_old s) start = Ok (translate aa s start true).
Proof.
  intros Hin Hs H0 Hl.
  rewrite (translate_minus_spec_lemma id aa st) by assumption.
  change dna_comp_old with (comp_table Old DNA). rewrite rc_pure_canon by exact Hs.
  assert (Hin' : In (id, aa, st) old_codes) by (rewrite old_eq_new_lemma; exact Hin).
  assert (Hl' : rc_spec s = [] \/ start < zlen (rc_spec s)).
  { destruct Hl as [->|Hl]; [left; reflexivity|right; rewrite zlen_rc_spec; exact Hl]. }
  apply (translate_old_spec_lemma id aa st); [exact Hin'|apply canon_rc, Hs|exact H0|exact Hl'].
Qed.

Lemma sixframes_spec_lemma id aa st s :
  In (id, aa, st) new_codes -> canon_str s ->
  map snd (sixframes aa s) = six_frames_spec (ncbi_tbl id) s /\
  map fst (sixframes aa s) = [(false, 0); (false, 1); (false, 2); (true, 0); (true, 1); (true, 2)].
Proof.
  intros Hin Hs. split; [|reflexivity].
  unfold sixframes, six_frames_spec. cbn [flat_map map app snd].
  rewrite !(translate_plus_spec_lemma id aa st), !(translate_minus_spec_lemma id aa st) by (assumption || lia).
  reflexivity.
Qed.

Lemma sixframes_old_spec_lemma id aa st s :
  In (id, aa, st) new_codes -> canon_str s -> 2 < zlen s ->
  sixframes_old aa DNA s = Ok (six_frames_spec (ncbi_tbl id) s).
Proof.
  intros Hin Hs Hl. unfold sixframes_old. rewrite rc_pure_canon by exact Hs.
  assert (Hin' : In (id, aa, st) old_codes) by (rewrite old_eq_new_lemma; exact Hin).
  cbn [mapM].
  rewrite !(translate_old_spec_lemma id aa st) by (auto using canon_rc; try lia; right; rewrite ?zlen_rc_spec; lia).
  reflexivity.
Qed.

(* ------------------------------------------------------------------ gaps and ambiguity symbols in a codon *)

(** symbols of the codon alphabet's monomers other than the bases: "-" and "?"; any other byte
    (an IUPAC ambiguity letter, N, ...) keeps its code point >= 6 under to_indices.  For every
    code: a codon of bases is looked up; otherwise, if its largest monomer index is the gap's
    (some "-", no "?" or other symbol) it translates to "-", otherwise to "X". *)
Definition aa_plus_any (aa : str) (w : str) : Z := plus_aa aa w.
Definition dga_words : list str := product3 dna_dga_new.
Definition expected_incomplete (w : str) : Z :=
  if forallb canonicalb w then 0
  else if forallb (fun c => canonicalb c || (c =? ch_gap)) w then ch_gap else ch_X.
Definition incomplete_ok_code (e : Z * list Z * list Z) : bool :=
  forallb (fun w => let x := expected_incomplete w in
                    (x =? 0) || ((plus_aa (snd (fst e)) w =? x) && (minus_aa (snd (fst e)) w =? x))) dga_words.
Lemma incomplete_checked : forallb incomplete_ok_code new_codes = true.
Proof. vm_compute. reflexivity. Qed.

Lemma incomplete_codon_lemma id aa st a b c :
  In (id, aa, st) new_codes -> In a dna_dga_new -> In b dna_dga_new -> In c dna_dga_new ->
  forallb canonicalb [a; b; c] = false ->
  plus_aa aa [a; b; c] = expected_incomplete [a; b; c] /\ minus_aa aa [a; b; c] = expected_incomplete [a; b; c].
Proof.
  intros Hin Ha Hb Hc Hn. pose proof incomplete_checked as H. rewrite forallb_forall in H.
  specialize (H _ Hin). unfold incomplete_ok_code in H. cbn [fst snd] in H. rewrite forallb_forall in H.
  specialize (H [a; b; c] (In_product3 _ a b c Ha Hb Hc)). cbv zeta in H.
  assert (E : expected_incomplete [a; b; c] <> 0).
  { unfold expected_incomplete. rewrite Hn.
    destruct (forallb (fun c0 => canonicalb c0 || (c0 =? ch_gap)) [a; b; c]); unfold ch_gap, ch_X; lia. }
  lia.
Qed.

(* ------------------------------------------------------------------ IUPAC symbols as sets *)

Definition iupac_of (m : moltype) : list (Z * list Z) := match m with DNA => iupac_dna | RNA => iupac_rna end.

(** complement maps each IUPAC symbol to the symbol of the complemented base set *)
Definition iupac_comp_check (vm : impl * moltype) : bool :=
  let '(v, m) := vm in
  forallb (fun kv : Z * list Z =>
             match assocZ (comp_char (comp_table v m) (fst kv)) (iupac_of m) with
             | Some set' => str_eqb set' (as_set (map (comp_base m) (snd kv)))
             | None => false
             end) (iupac_of m)
  && (comp_char (comp_table v m) ch_gap =? ch_gap) && (comp_char (comp_table v m) ch_miss =? ch_miss).
Lemma iupac_comp_checked : forallb iupac_comp_check all_impl_moltype = true.
Proof. vm_compute. reflexivity. Qed.

Lemma complement_is_set_complement_lemma v m x set :
  In (x, set) (iupac_of m) ->
  assocZ (comp_char (comp_table v m) x) (iupac_of m) = Some (as_set (map (comp_base m) set)).
Proof.
  intros Hin. pose proof iupac_comp_checked as H. rewrite forallb_forall in H.
  specialize (H (v, m) (In_all_impl_moltype v m)). cbn [iupac_comp_check] in H.
  apply andb_prop in H. destruct H as [H _]. apply andb_prop in H. destruct H as [H _].
  rewrite forallb_forall in H. specialize (H _ Hin). cbn [fst snd] in H.
  destruct (assocZ (comp_char (comp_table v m) x) (iupac_of m)) as [s'|]; [|discriminate].
  apply str_eqb_eq in H. congruence.
Qed.

Lemma complement_gap_missing_lemma v m :
  comp_char (comp_table v m) ch_gap = ch_gap /\ comp_char (comp_table v m) ch_miss = ch_miss.
Proof.
  pose proof iupac_comp_checked as H. rewrite forallb_forall in H.
  specialize (H (v, m) (In_all_impl_moltype v m)). cbn [iupac_comp_check] in H.
  apply andb_prop in H. destruct H as [H H2]. apply andb_prop in H. destruct H as [_ H1]. lia.
Qed.

(** the ambiguity dictionaries of the code ARE the IUPAC table (as sets), both directions *)
Definition ambig_src (v : impl) (m : moltype) : list (Z * list Z) :=
  match v, m with
  | Old, DNA => dna_ambig_old | Old, RNA => rna_ambig_old
  | New, DNA => dna_ambig_new | New, RNA => rna_ambig_new
  end.
Definition ambig_check (vm : impl * moltype) : bool :=
  let '(v, m) := vm in
  forallb (fun kv : Z * list Z =>
             (fst kv =? ch_gap) || (fst kv =? ch_miss) ||
             match assocZ (fst kv) (iupac_of m) with
             | Some set => str_eqb set (as_set (snd kv)) | None => false end) (ambig_src v m)
  && forallb (fun kv : Z * list Z =>
                (zlen (snd kv) =? 1) ||
                match assocZ (fst kv) (ambig_src v m) with
                | Some set => str_eqb (as_set set) (snd kv) | None => false end) (iupac_of m).
Lemma ambig_checked : forallb ambig_check all_impl_moltype = true.
Proof. vm_compute. reflexivity. Qed.

(** resolving and re-encoding are mutual inverses *)
Definition singletons (l : list Z) : list str := map (fun c => [c]) l.
Definition degenerate_from_seq (v : impl) (m : moltype) (symbols : list Z) : res Z :=
  match v with Old => degenerate_from_seq_old m symbols | New => degenerate_from_seq_new m symbols end.
Definition res_strs_eqb (r : res (list str)) (l : list str) : bool :=
  match r with
  | Ok l' => (Nat.eqb (length l') (length l)) && forallb (fun p => str_eqb (fst p) (snd p)) (combine l' l)
  | Err _ => false
  end.
Definition resolve_encode_check (vm : impl * moltype) : bool :=
  let '(v, m) := vm in
  forallb (fun kv : Z * list Z =>
             res_strs_eqb (resolve_ambiguity v m [fst kv]) (singletons (snd kv))
             && res_is (degenerate_from_seq v m (snd kv)) (fst kv)
             && res_is (degenerate_from_seq v m (rev (snd kv))) (fst kv)) (iupac_of m).
Lemma resolve_encode_checked : forallb resolve_encode_check all_impl_moltype = true.
Proof. vm_compute. reflexivity. Qed.

Lemma res_strs_eqb_sound r l : res_strs_eqb r l = true -> r = Ok l.
Proof.
  destruct r as [l'|]; cbn [res_strs_eqb]; [|discriminate].
  intros H. apply andb_prop in H. destruct H as [H1 H2]. apply Nat.eqb_eq in H1. f_equal.
  revert l H1 H2. induction l' as [|a r IH]; intros [|b l]; cbn; try discriminate; auto.
  intros H1 H2. injection H1 as H1. apply andb_prop in H2. destruct H2 as [Ha Hr].
  apply str_eqb_eq in Ha. subst b. f_equal. apply IH; assumption.
Qed.

Lemma res_is_sound r t : res_is r t = true -> r = Ok t.
Proof. destruct r; cbn; [|discriminate]. intros H. f_equal. lia. Qed.

Lemma resolve_encode_lemma v m x set :
  In (x, set) (iupac_of m) ->
  resolve_ambiguity v m [x] = Ok (singletons set) /\
  degenerate_from_seq v m set = Ok x /\ degenerate_from_seq v m (rev set) = Ok x.
Proof.
  intros Hin. pose proof resolve_encode_checked as H. rewrite forallb_forall in H.
  specialize (H (v, m) (In_all_impl_moltype v m)). cbn [resolve_encode_check] in H.
  rewrite forallb_forall in H. specialize (H _ Hin). cbn [fst snd] in H.
  apply andb_prop in H. destruct H as [H H3]. apply andb_prop in H. destruct H as [H1 H2].
  auto using res_strs_eqb_sound, res_is_sound.
Qed.

(** every non-empty set of bases has an IUPAC symbol: the table's sets are ALL 15 of them *)
Fixpoint sublists (l : list Z) : list (list Z) :=
  match l with [] => [[]] | x :: r => map (cons x) (sublists r) ++ sublists r end.
Definition base_sets (m : moltype) : list (list Z) :=
  filter (fun s => negb (is_nil s)) (sublists (as_set (alpha_spec m))).
Definition all_sets_check (m : moltype) : bool :=
  forallb (fun s => existsb (fun kv : Z * list Z => str_eqb (snd kv) s) (iupac_of m)) (base_sets m)
  && Nat.eqb (length (base_sets m)) 15 && Nat.eqb (length (iupac_of m)) 15.
Lemma all_sets_checked : all_sets_check DNA = true /\ all_sets_check RNA = true.
Proof. vm_compute. split; reflexivity. Qed.

Lemma every_base_set_has_symbol_lemma v m set :
  In set (base_sets m) ->
  exists x, degenerate_from_seq v m set = Ok x /\ resolve_ambiguity v m [x] = Ok (singletons set).
Proof.
  intros Hin.
  assert (H : all_sets_check m = true) by (destruct m; apply all_sets_checked).
  unfold all_sets_check in H. apply andb_prop in H. destruct H as [H _]. apply andb_prop in H. destruct H as [H _].
  rewrite forallb_forall in H. specialize (H _ Hin). apply existsb_exists in H.
  destruct H as ([x set'] & Hx & E). cbn [snd] in E. apply str_eqb_eq in E. subst set'.
  exists x. destruct (resolve_encode_lemma v m x set Hx) as (H1 & H2 & _). auto.
Qed.

(* ------------------------------------------------------------------ byte width of the index array (C12-4) *)

(** every symbol is in the most degenerate gapped DNA alphabet (bases, IUPAC ambiguity letters, "-", "?") *)
Definition valid_dna (s : str) : Prop := Forall (fun c => In c dna_dga_new) s.

Lemma canon_valid s : canon_str s -> valid_dna s.
Proof.
  unfold canon_str, valid_dna. apply Forall_impl. intros c Hc.
  unfold canonical, bases in Hc. apply memZ_In.
  cbn in Hc. destruct Hc as [<-|[<-|[<-|[<-|[]]]]]; reflexivity.
Qed.

Lemma translate_as_window aa s start rc :
  translate aa s start rc =
  (let seq := to_kmer_indices (window true s start rc) in
   if rc then rev (convert minus_src (code_seq aa) seq) else convert plus_src (code_seq aa) seq).
Proof. destruct rc; reflexivity. Qed.

Lemma translate_pinned_as_window aa s start rc :
  translate_pinned aa s start rc =
  (let seq := to_kmer_indices (window false s start rc) in
   if rc then rev (convert minus_src (code_seq aa) seq) else convert plus_src (code_seq aa) seq).
Proof. destruct rc; reflexivity. Qed.

Lemma In_skipn_In {A} (x : A) n l : In x (skipn n l) -> In x l.
Proof. intros H. rewrite <- (firstn_skipn n l). apply in_or_app. right. exact H. Qed.
Lemma In_firstn_In {A} (x : A) n l : In x (firstn n l) -> In x l.
Proof. intros H. rewrite <- (firstn_skipn n l). apply in_or_app. left. exact H. Qed.

Lemma In_slice_from {A} (x : A) l st : In x (slice_from l st) -> In x l.
Proof. unfold slice_from. apply In_skipn_In. Qed.
Lemma In_slice_to {A} (x : A) l st : In x (slice_to l st) -> In x l.
Proof. unfold slice_to. apply In_firstn_In. Qed.

Lemma zlen_slice_from {A} (l : list A) st : zlen (slice_from l st) <= zlen l.
Proof. unfold slice_from, zlen. cbv zeta. rewrite skipn_length. lia. Qed.
Lemma zlen_slice_to {A} (l : list A) st : zlen (slice_to l st) <= zlen l.
Proof. unfold slice_to, zlen. cbv zeta. rewrite firstn_length. lia. Qed.

Lemma In_window fm s start rc x : In x (window fm s start rc) -> In x s.
Proof.
  unfold window. cbv zeta.
  set (dna := if start =? 0 then s else if fm && rc then slice_to s (Z.max (zlen s - start) 0) else slice_from s start).
  assert (Hd : forall y, In y dna -> In y s).
  { unfold dna. intros y. destruct (start =? 0); [auto|]. destruct (fm && rc); [apply In_slice_to|apply In_slice_from]. }
  intros H. apply Hd.
  destruct (zlen dna mod 3 =? 0); [exact H|]. destruct (fm && rc); [eapply In_slice_from|eapply In_slice_to]; exact H.
Qed.

Lemma zlen_window fm s start rc : zlen (window fm s start rc) <= zlen s.
Proof.
  unfold window. cbv zeta.
  set (dna := if start =? 0 then s else if fm && rc then slice_to s (Z.max (zlen s - start) 0) else slice_from s start).
  assert (Hd : zlen dna <= zlen s).
  { unfold dna. destruct (start =? 0); [lia|]. destruct (fm && rc); [apply zlen_slice_to|apply zlen_slice_from]. }
  destruct (zlen dna mod 3 =? 0); [exact Hd|].
  destruct (fm && rc).
  - pose proof (zlen_slice_from dna (zlen dna mod 3)). lia.
  - pose proof (zlen_slice_to dna (- (zlen dna mod 3))). lia.
Qed.

Lemma zlen_chunks3 {A} (l : list A) : 3 * zlen (chunks3 l) <= zlen l.
Proof.
  induction l using list_ind3; simpl chunks3; unfold zlen in *; simpl length; lia.
Qed.

Lemma zlen_to_kmer_indices dna : 3 * zlen (to_kmer_indices dna) <= zlen dna.
Proof.
  unfold to_kmer_indices. rewrite zlen_map.
  pose proof (zlen_chunks3 (map (mono_index new_monomers) dna)) as H. rewrite zlen_map in H. exact H.
Qed.

Lemma alphabet_width : get_array_type_width (zlen codon_words) = 1.
Proof. vm_compute. reflexivity. Qed.

(** the code before repair C12-4 is right below 256 codons, whatever the symbols *)
Lemma translate_w_guarded_lemma fm aa s start rc :
  zlen s < 768 -> translate_w fm false aa s start rc = translate_w fm true aa s start rc.
Proof.
  intros Hl. unfold translate_w. cbv zeta. rewrite alphabet_width.
  pose proof (zlen_to_kmer_indices (window fm s start rc)) as H1.
  pose proof (zlen_window fm s start rc) as H2.
  replace (get_array_type_width (zlen (to_kmer_indices (window fm s start rc)))) with 1; [reflexivity|].
  unfold get_array_type_width.
  destruct (zlen (to_kmer_indices (window fm s start rc)) <? 2 ^ 8) eqn:E; [reflexivity|].
  change (2 ^ 8) with 256 in E. lia.
Qed.

(** one byte per index reproduces the index list when every index fits a byte *)
Definition index_range_check : bool :=
  forallb (fun w => let i := kmer_index3 (mono3 w) in (0 <=? i) && (i <? 256)) dga_words.
Lemma index_range_checked : index_range_check = true.
Proof. vm_compute. reflexivity. Qed.

Lemma tobytes_1 idx : Forall (fun i => 0 <= i < 256) idx -> tobytes 1 idx = idx.
Proof.
  assert (E : forall l, tobytes 1 l = flat_map (le_bytes 1) l) by reflexivity.
  induction 1 as [|i r Hi Hr IH]; [reflexivity|].
  rewrite E in *.
  change (flat_map (le_bytes 1) (i :: r)) with ([i mod 256] ++ flat_map (le_bytes 1) r).
  rewrite IH. cbn [app]. f_equal. apply Z.mod_small. exact Hi.
Qed.

Lemma indices_fit_byte dna : valid_dna dna -> Forall (fun i => 0 <= i < 256) (to_kmer_indices dna).
Proof.
  intros Hv. unfold to_kmer_indices. rewrite chunks3_map, map_map. apply Forall_forall.
  intros i Hi. apply in_map_iff in Hi. destruct Hi as (w & <- & Hw).
  destruct (chunks3_In w _ Hw) as (a & b & c & -> & Ha & Hb & Hc).
  unfold valid_dna in Hv. rewrite Forall_forall in Hv.
  pose proof index_range_checked as H. unfold index_range_check in H. rewrite forallb_forall in H.
  specialize (H [a; b; c] (In_product3 _ a b c (Hv _ Ha) (Hv _ Hb) (Hv _ Hc))). cbv zeta in H.
  fold (mono3 [a; b; c]). lia.
Qed.

(** with repair C12-4 the explicit-width code IS the width-free model, for every length *)
Lemma translate_w_fixed_lemma fm aa s start rc :
  valid_dna s ->
  translate_w fm true aa s start rc = (if fm then translate else translate_pinned) aa s start rc.
Proof.
  intros Hv. unfold translate_w. cbv zeta. rewrite alphabet_width.
  assert (Hw : valid_dna (window fm s start rc)).
  { unfold valid_dna in *. rewrite Forall_forall in *. intros x Hx. apply Hv. eapply In_window. exact Hx. }
  rewrite (tobytes_1 _ (indices_fit_byte _ Hw)).
  destruct fm; [rewrite translate_as_window|rewrite translate_pinned_as_window]; reflexivity.
Qed.

(** without it the answer is wrong from 256 codons on: ATG x 256, first code, plus strand *)
Definition refute_long : str := concat (repeat [65; 84; 71] 256).
Lemma dtype_refute_checks :
  canon_strb refute_long = true /\ zlen refute_long = 768 /\
  str_eqb (translate_w true false (snd (fst refute_code)) refute_long 0 false)
          (frame_plus (ncbi_tbl (fst (fst refute_code))) refute_long 0) = false /\
  str_eqb (translate_w false false (snd (fst refute_code)) refute_long 0 false)
          (frame_plus (ncbi_tbl (fst (fst refute_code))) refute_long 0) = false.
Proof. vm_compute. repeat split. Qed.

Lemma translate_w_unrepaired_refuted_lemma :
  exists id aa st s,
    In (id, aa, st) new_codes /\ canon_str s /\ zlen s = 768 /\
    (forall fm, translate_w fm false aa s 0 false <> frame_plus (ncbi_tbl id) s 0).
Proof.
  destruct refute_checks as (H1 & _ & _). destruct dtype_refute_checks as (D1 & D2 & D3 & D4).
  exists (fst (fst refute_code)), (snd (fst refute_code)), (snd refute_code), refute_long.
  split.
  { replace (fst (fst refute_code), snd (fst refute_code), snd refute_code) with refute_code
      by (destruct refute_code as [[? ?] ?]; reflexivity).
    apply hd_In, H1. }
  split; [apply canon_strb_sound, D1|]. split; [exact D2|].
  intros [|]; apply str_eqb_neq; assumption.
Qed.

(* ------------------------------------------------------------------ stop codons: trimmed, kept or rejected *)

Definition ropt {A} (r : res A) : option A := match r with Ok a => Some a | Err _ => None end.

Lemma canonical_not_gap c : canonical c -> (c =? ch_gap) = false.
Proof. unfold canonical, bases. simpl. intros [<-|[<-|[<-|[<-|[]]]]]; reflexivity. Qed.

Lemma degap_canon s : canon_str s -> degap s = s.
Proof.
  induction 1 as [|c r Hc Hr IH]; [reflexivity|].
  cbn [degap filter]. rewrite (canonical_not_gap c Hc). cbn [negb]. f_equal. exact IH.
Qed.

Lemma has_gap_canon s : canon_str s -> has_gap s = false.
Proof.
  induction 1 as [|c r Hc Hr IH]; [reflexivity|].
  unfold has_gap, memZ in *. cbn [existsb]. rewrite IH, orb_false_r.
  rewrite Z.eqb_sym. apply canonical_not_gap, Hc.
Qed.

Lemma split_last3 {A} (s : list A) :
  zlen s mod 3 = 0 -> s <> [] -> exists u a b c, s = u ++ [a; b; c] /\ zlen u mod 3 = 0.
Proof.
  induction s using list_ind3; intros Hm Hn.
  - congruence.
  - exfalso. rewrite zlen_cons, zlen_nil in Hm. discriminate Hm.
  - exfalso. rewrite !zlen_cons, zlen_nil in Hm. discriminate Hm.
  - destruct s as [|x r].
    + exists [], a, b, c. split; reflexivity.
    + assert (Hm' : zlen (x :: r) mod 3 = 0) by (rewrite !zlen_cons in *; lia).
      destruct (IHs Hm' ltac:(discriminate)) as (u & p & q & t & E & Hu).
      exists (a :: b :: c :: u), p, q, t. rewrite E. split; [reflexivity|].
      rewrite !zlen_cons. lia.
Qed.

Lemma last3_app (u : str) a b c : last3 (u ++ [a; b; c]) = [a; b; c].
Proof.
  unfold last3, slice_from. rewrite zlen_app. change (zlen [a; b; c]) with 3.
  pose proof (zlen_nonneg u). destruct (-3 <? 0) eqn:E; [|lia].
  replace (Z.to_nat (Z.max 0 (-3 + (zlen u + 3)))) with (length u) by (unfold zlen in *; lia).
  apply skipn_app_exact. reflexivity.
Qed.

Lemma slice_to_m3_app {A} (u : list A) a b c : slice_to (u ++ [a; b; c]) (-3) = u.
Proof.
  unfold slice_to. rewrite zlen_app. change (zlen [a; b; c]) with 3.
  pose proof (zlen_nonneg u). destruct (-3 <? 0) eqn:E; [|lia].
  replace (Z.to_nat (Z.max 0 (-3 + (zlen u + 3)))) with (length u + 0)%nat by (unfold zlen in *; lia).
  rewrite firstn_app_2. cbn [firstn]. apply app_nil_r.
Qed.

Lemma translate_spec_snoc tbl u a b c :
  zlen u mod 3 = 0 ->
  translate_spec tbl (u ++ [a; b; c]) = translate_spec tbl u ++ [spec_lookup tbl [a; b; c]].
Proof.
  intros H. unfold translate_spec. rewrite !codons_chunks3, chunks3_app by exact H.
  rewrite map_app. reflexivity.
Qed.

Lemma ends_with_stop_snoc p x : ends_with_stop (p ++ [x]) = (x =? star).
Proof. unfold ends_with_stop. rewrite rev_app_distr. reflexivity. Qed.

(** the translation of a canonical sequence never contains "-" or "X" *)
Lemma translate_spec_clean id aa st s :
  In (id, aa, st) new_codes -> canon_str s ->
  has_char ch_gap (translate_spec (ncbi_tbl id) s) = false /\
  has_char ch_X (translate_spec (ncbi_tbl id) s) = false.
Proof.
  intros Hin Hs.
  assert (H : forall x, In x (translate_spec (ncbi_tbl id) s) -> x <> ch_gap /\ x <> ch_X).
  { intros x Hx. unfold translate_spec in Hx. rewrite codons_chunks3 in Hx.
    apply in_map_iff in Hx. destruct Hx as (w & <- & Hw).
    destruct (canon_chunk s w Hs Hw) as (a & b & c & -> & Ha & Hb & Hc).
    destruct (codon_ok_split id aa _ (codon_facts id aa st a b c Hin Ha Hb Hc)) as (_ & _ & _ & _ & H5 & H6).
    split; assumption. }
  unfold has_char, memZ. split.
  - destruct (existsb (Z.eqb ch_gap) _) eqn:E; [|reflexivity].
    apply existsb_exists in E. destruct E as (x & Hx & E). apply Z.eqb_eq in E. subst x.
    destruct (H _ Hx) as [H1 _]. congruence.
  - destruct (existsb (Z.eqb ch_X) _) eqn:E; [|reflexivity].
    apply existsb_exists in E. destruct E as (x & Hx & E). apply Z.eqb_eq in E. subst x.
    destruct (H _ Hx) as [_ H2]. congruence.
Qed.

Lemma canon_app_inv u v : canon_str (u ++ v) -> canon_str u /\ canon_str v.
Proof. unfold canon_str. apply Forall_app. Qed.

(** what trim_stop_codon (repaired: an empty sequence has no terminal stop) does to a canonical
    sequence: the sequence itself, the sequence without its last codon, or a rejection *)
Definition trim_spec (tbl : list Z) (strict : bool) (s : list Z) : option (list Z) :=
  if zlen s mod 3 =? 0 then
    Some (if ends_with_stop (translate_spec tbl s) then firstn (length s - 3) s else s)
  else if strict then None else Some s.

Lemma trim_stop_codon_canon v id aa st s strict :
  In (id, aa, st) new_codes -> canon_str s ->
  ropt (trim_stop_codon true v aa s strict) = trim_spec (ncbi_tbl id) strict s
  /\ (forall e, trim_stop_codon true v aa s strict = Err e -> e = E_Alpha).
Proof.
  intros Hin Hs. unfold trim_stop_codon, has_terminal_stop, trim_spec. cbv zeta.
  rewrite (degap_canon s Hs), (has_gap_canon s Hs). cbn [negb andb].
  destruct s as [|x r] eqn:Es.
  { cbn. split; [reflexivity|discriminate]. }
  rewrite <- Es in *. assert (Hne : s <> []) by (rewrite Es; discriminate).
  replace (is_nil s) with false by (rewrite Es; reflexivity).
  destruct (zlen s mod 3 =? 0) eqn:Em.
  - destruct (split_last3 s ltac:(lia) Hne) as (u & a & b & c & E & Hu).
    rewrite E in Hs. destruct (canon_app_inv _ _ Hs) as [Hcu Hcw].
    inversion Hcw as [|? ? Ha Hcw1]; subst. inversion Hcw1 as [|? ? Hb Hcw2]; subst.
    inversion Hcw2 as [|? ? Hc _]; subst.
    rewrite E, last3_app, (is_stop_spec_lemma v id aa st a b c Hin Ha Hb Hc). cbn [bind].
    rewrite translate_spec_snoc by exact Hu. rewrite ends_with_stop_snoc.
    destruct (spec_lookup (ncbi_tbl id) [a; b; c] =? star); cbn [negb ropt].
    + rewrite slice_to_m3_app. rewrite app_length. cbn [length].
      replace (length u + 3 - 3)%nat with (length u + 0)%nat by lia.
      rewrite firstn_app_2. cbn [firstn]. rewrite app_nil_r. split; [reflexivity|discriminate].
    + split; [reflexivity|discriminate].
  - destruct strict; cbn [bind negb ropt].
    + split; [reflexivity|]. intros e H. injection H as <-. reflexivity.
    + split; [reflexivity|discriminate].
Qed.

Lemma trim_spec_canon tbl strict s seq :
  trim_spec tbl strict s = Some seq -> canon_str s -> canon_str seq.
Proof.
  unfold trim_spec. intros H Hs.
  destruct (zlen s mod 3 =? 0).
  - injection H as H. subst seq. destruct (ends_with_stop (translate_spec tbl s)); [apply canon_firstn|]; exact Hs.
  - destruct strict; [discriminate|]. injection H as H. subst seq. exact Hs.
Qed.

(** removing the last codon of an in-frame sequence removes the last residue of its translation *)
Lemma translate_spec_trimmed tbl s :
  zlen s mod 3 = 0 -> s <> [] ->
  translate_spec tbl (firstn (length s - 3) s) = removelast (translate_spec tbl s).
Proof.
  intros Hm Hn. destruct (split_last3 s Hm Hn) as (u & a & b & c & E & Hu).
  rewrite E at 2 3. rewrite translate_spec_snoc by exact Hu. rewrite removelast_last.
  rewrite E, app_length. cbn [length]. replace (length u + 3 - 3)%nat with (length u + 0)%nat by lia.
  rewrite firstn_app_2. cbn [firstn]. rewrite app_nil_r. reflexivity.
Qed.

Lemma stop_spec_unfold tbl trim inc ok s :
  stop_spec tbl trim inc ok s =
  match (if trim then trim_spec tbl (negb ok) s else Some s) with
  | None => None
  | Some seq => let p := translate_spec tbl seq in if negb inc && has_stop p then None else Some p
  end.
Proof.
  unfold stop_spec, stop_spec_gen, trim_spec. cbv zeta.
  destruct trim; cbn [andb]; [|reflexivity].
  destruct (zlen s mod 3 =? 0) eqn:Em; cbn [negb andb].
  - destruct (ends_with_stop (translate_spec tbl s)) eqn:Ee.
    + assert (Hn : s <> []) by (intros ->; discriminate Ee).
      rewrite translate_spec_trimmed by (assumption || lia). rewrite app_nil_r. reflexivity.
    + reflexivity.
  - destruct ok; reflexivity.
Qed.

(** new Sequence.get_translation *)
Lemma seq_get_translation_new_spec_lemma id aa st s ok inc trim :
  In (id, aa, st) new_codes -> canon_str s ->
  ropt (seq_get_translation_new true true aa s ok inc trim)
  = stop_spec (ncbi_tbl id) (eff_trim_new inc trim) inc ok s.
Proof.
  intros Hin Hs. rewrite stop_spec_unfold. unfold eff_trim_new, seq_get_translation_new.
  assert (Hfin : forall seq, canon_str seq ->
     ropt (let pep := translate_w true true aa seq 0 false in
           if negb inc && has_char ch_star pep then Err E_Alpha
           else if negb ok && (has_char ch_gap pep || has_char ch_X pep) then Err E_Alpha else Ok pep)
     = (let p := translate_spec (ncbi_tbl id) seq in if negb inc && has_stop p then None else Some p)).
  { intros seq Hseq. cbv zeta.
    rewrite (translate_w_fixed_lemma true aa seq 0 false (canon_valid seq Hseq)).
    rewrite (translate_plus_spec_lemma id aa st seq 0 Hin Hseq) by lia.
    unfold frame_plus. cbn [Z.to_nat skipn].
    destruct (translate_spec_clean id aa st seq Hin Hseq) as [-> ->].
    change (has_char ch_star (translate_spec (ncbi_tbl id) seq)) with (has_stop (translate_spec (ncbi_tbl id) seq)).
    rewrite andb_false_r. destruct (negb inc && has_stop (translate_spec (ncbi_tbl id) seq)); reflexivity. }
  destruct trim.
  - destruct (trim_stop_codon_canon New id aa st s (negb ok) Hin Hs) as [Ht _].
    destruct (trim_stop_codon true New aa s (negb ok)) as [seq|e] eqn:E; cbn [ropt] in Ht; rewrite <- Ht; cbn [bind].
    + apply Hfin. apply (trim_spec_canon (ncbi_tbl id) (negb ok) s seq); [symmetry; exact Ht|exact Hs].
    + reflexivity.
  - cbn [bind]. apply Hfin, Hs.
Qed.

(** the codon loop of old Sequence.get_translation on canonical codons *)
Definition res_Z_eqb (r1 r2 : res Z) : bool :=
  match r1, r2 with
  | Ok a, Ok b => a =? b
  | Err a, Err b => a =? b
  | _, _ => false
  end.
Lemma res_Z_eqb_sound r1 r2 : res_Z_eqb r1 r2 = true -> r1 = r2.
Proof. destruct r1, r2; cbn; try discriminate; intros H; f_equal; lia. Qed.

Definition bools2 : list (bool * bool) := [(false, false); (false, true); (true, false); (true, true)].
Lemma In_bools2 a b : In (a, b) bools2.
Proof. destruct a, b; cbn; tauto. Qed.

(** a codon of bases in the codon loop of old Sequence.get_translation: every code x 64 codons x
    (incomplete_ok, include_stop) *)
Definition old_codon_canon_check (e : Z * list Z * list Z) : bool :=
  forallb (fun w =>
    forallb (fun oi : bool * bool =>
      let x := spec_lookup (ncbi_tbl (fst (fst e))) w in
      res_Z_eqb (old_codon (snd (fst e)) (fst oi) (snd oi) w)
                (if (x =? star) && negb (snd oi) then Err E_Alpha else Ok x)) bools2) (product3 bases).
Lemma old_codon_canon_checked : forallb old_codon_canon_check new_codes = true.
Proof. vm_compute. reflexivity. Qed.

Lemma old_codon_canon id aa st ok inc a b c :
  In (id, aa, st) new_codes -> canonical a -> canonical b -> canonical c ->
  old_codon aa ok inc [a; b; c] =
  (let x := spec_lookup (ncbi_tbl id) [a; b; c] in if (x =? star) && negb inc then Err E_Alpha else Ok x).
Proof.
  intros Hin Ha Hb Hc. pose proof old_codon_canon_checked as H. rewrite forallb_forall in H.
  specialize (H _ Hin). unfold old_codon_canon_check in H. cbn [fst snd] in H. rewrite forallb_forall in H.
  specialize (H [a; b; c] (In_product3 _ a b c Ha Hb Hc)). rewrite forallb_forall in H.
  specialize (H (ok, inc) (In_bools2 ok inc)). cbn [fst snd] in H. cbv zeta in H |- *.
  apply res_Z_eqb_sound, H.
Qed.

Lemma old_loop_canon id aa st ok inc l :
  In (id, aa, st) new_codes ->
  (forall w, In w l -> exists a b c, w = [a; b; c] /\ canonical a /\ canonical b /\ canonical c) ->
  ropt (mapM (old_codon aa ok inc) l)
  = (let p := map (spec_lookup (ncbi_tbl id)) l in if negb inc && has_stop p then None else Some p).
Proof.
  intros Hin. induction l as [|w r IH]; intros Hl; cbv zeta.
  - cbn. rewrite andb_false_r. reflexivity.
  - destruct (Hl w (or_introl eq_refl)) as (a & b & c & -> & Ha & Hb & Hc).
    cbn [mapM map]. rewrite (old_codon_canon id aa st ok inc a b c Hin Ha Hb Hc). cbv zeta.
    specialize (IH (fun w Hw => Hl w (or_intror Hw))). cbv zeta in IH.
    unfold has_stop in *. cbn [existsb]. rewrite (Z.eqb_sym star).
    destruct (spec_lookup (ncbi_tbl id) [a; b; c] =? star) eqn:Ex; destruct inc; cbn [negb andb orb bind ropt] in *.
    + destruct (mapM (old_codon aa ok true) r); cbn [bind ropt] in *; [injection IH as ->; reflexivity|discriminate].
    + reflexivity.
    + destruct (mapM (old_codon aa ok true) r); cbn [bind ropt] in *; [injection IH as ->; reflexivity|discriminate].
    + destruct (existsb (Z.eqb star) (map (spec_lookup (ncbi_tbl id)) r));
        destruct (mapM (old_codon aa ok false) r); cbn [bind ropt] in *; try discriminate; try reflexivity.
      injection IH as ->. reflexivity.
Qed.

(** old Sequence.get_translation *)
Lemma seq_get_translation_old_spec_lemma id aa st s ok inc trim :
  In (id, aa, st) new_codes -> canon_str s ->
  ropt (seq_get_translation_old true aa s ok inc trim)
  = stop_spec (ncbi_tbl id) (eff_trim_old inc trim) inc ok s.
Proof.
  intros Hin Hs. rewrite stop_spec_unfold. unfold eff_trim_old, seq_get_translation_old.
  change (old_codon_d (codon_dict aa) ok inc) with (old_codon aa ok inc).
  assert (Hfin : forall seq, canon_str seq ->
     ropt (mapM (old_codon aa ok inc) (chunks3 seq))
     = (let p := translate_spec (ncbi_tbl id) seq in if negb inc && has_stop p then None else Some p)).
  { intros seq Hseq. unfold translate_spec. rewrite codons_chunks3.
    apply (old_loop_canon id aa st); [exact Hin|]. intros w Hw. apply (canon_chunk seq w Hseq Hw). }
  destruct inc, trim; cbn [orb negb andb bind]; try (apply Hfin, Hs).
  destruct (trim_stop_codon_canon Old id aa st s (negb ok) Hin Hs) as [Ht _].
  destruct (trim_stop_codon true Old aa s (negb ok)) as [seq|e] eqn:E; cbn [ropt] in Ht; rewrite <- Ht; cbn [bind].
  - apply Hfin. apply (trim_spec_canon (ncbi_tbl id) (negb ok) s seq); [symmetry; exact Ht|exact Hs].
  - reflexivity.
Qed.

(** before repair C12-2 the empty sequence made has_terminal_stop raise (KeyError) *)
Lemma empty_sequence_pinned_refuted_lemma :
  exists aa, trim_stop_codon false New aa [] false = Err E_Key /\ trim_stop_codon false Old aa [] false = Err E_Key
             /\ trim_stop_codon true New aa [] false = Ok [].
Proof. exists []. vm_compute. repeat split. Qed.

(** before repair C12-3 an alignment ignored trim_stop=False: it returned a trimmed translation
    where the sequence-level call on the same row rejects the stop codon *)
Definition refute_row : str := [65; 65; 65; 84; 65; 65].   (* AAATAA *)
Lemma alignment_trim_pinned_refuted_lemma :
  exists aa rows row,
    In row rows /\
    aln_get_translation_old true false aa rows false false false = Ok [[75]] /\
    seq_get_translation_old true aa row false false false = Err E_Alpha /\
    aln_get_translation_old true true aa rows false false false = Err E_Alpha.
Proof.
  exists (snd (fst refute_code)), [refute_row], refute_row.
  split; [left; reflexivity|]. vm_compute. repeat split.
Qed.

Lemma codon_order_lemma : old_bases = bases /\ canon_new = bases /\ ncbi_header_words = product3 bases.
Proof. exact (conj (proj1 old_bases_lemma) (conj (proj2 old_bases_lemma) ncbi_header_lemma)). Qed.

(* ------------------------------------------------------------------ any valid DNA string, plus strand *)

Definition general_lookup (tbl : list Z) (w : list Z) : Z :=
  if forallb canonicalb w then spec_lookup tbl w else expected_incomplete w.

Lemma canonicalb_complete c : canonicalb c = true <-> canonical c.
Proof.
  split; [apply canonicalb_sound|]. unfold canonical, canonicalb. intros H.
  apply existsb_exists. exists c. split; [exact H|apply Z.eqb_refl].
Qed.

Lemma translate_plus_general_lemma id aa st s start :
  In (id, aa, st) new_codes -> valid_dna s -> 0 <= start ->
  translate aa s start false
  = map (general_lookup (ncbi_tbl id)) (codons (skipn (Z.to_nat start) s)).
Proof.
  intros Hin Hs H0. rewrite translate_false_eq, translate_pinned_unfold by assumption. cbv zeta.
  rewrite convert_plus, chunks3_trunc3, codons_chunks3.
  apply map_ext_in. intros w Hw.
  destruct (chunks3_In w _ Hw) as (a & b & c & -> & Ha & Hb & Hc).
  assert (Hv : forall x, In x (skipn (Z.to_nat start) s) -> In x dna_dga_new).
  { intros x Hx. unfold valid_dna in Hs. rewrite Forall_forall in Hs. apply Hs.
    rewrite <- (firstn_skipn (Z.to_nat start) s). apply in_or_app. right. exact Hx. }
  unfold general_lookup. destruct (forallb canonicalb [a; b; c]) eqn:E.
  - cbn [forallb] in E. rewrite andb_true_r in E.
    apply andb_prop in E. destruct E as [Ea E]. apply andb_prop in E. destruct E as [Eb Ec].
    apply (codon_ok_split id aa), (codon_facts id aa st); auto using canonicalb_sound.
  - apply (incomplete_codon_lemma id aa st a b c); auto.
Qed.

(* ------------------------------------------------------------------ any valid DNA string, minus strand *)

Section RCF.
Variable f : Z -> Z.
Definition rcf (s : list Z) : list Z := rev (map f s).

Lemma rcf_app u v : rcf (u ++ v) = rcf v ++ rcf u.
Proof. unfold rcf. rewrite map_app, rev_app_distr. reflexivity. Qed.

Lemma zlen_rcf u : zlen (rcf u) = zlen u.
Proof. unfold rcf. rewrite zlen_rev, zlen_map. reflexivity. Qed.

Lemma chunks3_rcf u :
  zlen u mod 3 = 0 -> chunks3 (rcf u) = rev (map rcf (chunks3 u)).
Proof.
  induction u using list_ind3; intros H.
  - reflexivity.
  - exfalso. rewrite zlen_cons, zlen_nil in H. discriminate H.
  - exfalso. rewrite !zlen_cons, zlen_nil in H. discriminate H.
  - change (a :: b :: c :: u) with ([a; b; c] ++ u). rewrite rcf_app.
    assert (Hu : zlen u mod 3 = 0) by (rewrite !zlen_cons in H; lia).
    rewrite chunks3_app by (rewrite zlen_rcf; exact Hu).
    rewrite IHu by exact Hu. reflexivity.
Qed.

(** the window the repaired minus strand reads: drop [k] symbols of the reverse complement, keep
    whole codons = reverse complement of (s without its last k symbols, cut to whole codons from the left) *)
Lemma rcf_window s k :
  let dna1 := firstn (length s - k) s in
  let dna2 := skipn (Z.to_nat (zlen dna1 mod 3)) dna1 in
  zlen dna2 mod 3 = 0 /\ chunks3 (skipn k (rcf s)) = chunks3 (rcf dna2).
Proof.
  cbv zeta. set (dna1 := firstn (length s - k) s). set (d := zlen dna1 mod 3).
  set (dna2 := skipn (Z.to_nat d) dna1).
  assert (Hd : 0 <= d < 3) by (unfold d; lia).
  assert (Hdle : (Z.to_nat d <= length dna1)%nat) by (unfold d, zlen in *; lia).
  assert (Hm2 : zlen dna2 mod 3 = 0).
  { unfold dna2, zlen. rewrite skipn_length. unfold d, zlen in *. lia. }
  split; [exact Hm2|].
  assert (E3 : skipn k (rcf s) = rcf dna1).
  { assert (Es : rcf s = rcf (skipn (length s - k) s) ++ rcf dna1).
    { unfold dna1. rewrite <- rcf_app, firstn_skipn. reflexivity. }
    rewrite Es.
    destruct (le_lt_dec k (length s)) as [Hk|Hk].
    - apply skipn_app_exact. apply Nat2Z.inj. fold (zlen (rcf (skipn (length s - k) s))).
      rewrite zlen_rcf. unfold zlen. rewrite skipn_length. lia.
    - unfold dna1. replace (length s - k)%nat with 0%nat by lia. simpl firstn. simpl skipn.
      rewrite app_nil_r. apply skipn_all2.
      pose proof (zlen_rcf s) as E. unfold zlen in E. lia. }
  rewrite E3.
  assert (E4 : rcf dna1 = rcf dna2 ++ rcf (firstn (Z.to_nat d) dna1)).
  { unfold dna2. rewrite <- rcf_app, firstn_skipn. reflexivity. }
  rewrite E4.
  rewrite chunks3_app_short; [reflexivity|rewrite zlen_rcf; exact Hm2|].
  rewrite zlen_rcf. unfold zlen. rewrite firstn_length_le by exact Hdle. lia.
Qed.
End RCF.

Lemma rc_pure_rcf tbl s : rc_pure tbl s = rcf (comp_char tbl) s.
Proof. reflexivity. Qed.

(** the class of a codon (all bases / bases and gaps / anything else) is the class of its reverse complement *)
Definition rc_class_check : bool :=
  forallb (fun w => (expected_incomplete (rc_pure dna_comp_new w) =? expected_incomplete w)
                    && forallb (fun c => memZ c dna_dga_new) (rc_pure dna_comp_new w)) dga_words.
Lemma rc_class_checked : rc_class_check = true.
Proof. vm_compute. reflexivity. Qed.

Lemma minus_aa_general id aa st a b c :
  In (id, aa, st) new_codes -> In a dna_dga_new -> In b dna_dga_new -> In c dna_dga_new ->
  minus_aa aa [a; b; c] = general_lookup (ncbi_tbl id) (rc_pure dna_comp_new [a; b; c]).
Proof.
  intros Hin Ha Hb Hc.
  pose proof rc_class_checked as Hk. unfold rc_class_check in Hk. rewrite forallb_forall in Hk.
  specialize (Hk [a; b; c] (In_product3 _ a b c Ha Hb Hc)). apply andb_prop in Hk. destruct Hk as [Hk _].
  apply Z.eqb_eq in Hk.
  unfold general_lookup. destruct (forallb canonicalb [a; b; c]) eqn:E.
  - cbn [forallb] in E. rewrite andb_true_r in E.
    apply andb_prop in E. destruct E as [Ea E]. apply andb_prop in E. destruct E as [Eb Ec].
    apply canonicalb_sound in Ea, Eb, Ec.
    assert (Hw : canon_str [a; b; c]).
    { unfold canon_str. constructor; [exact Ea|]. constructor; [exact Eb|]. constructor; [exact Ec|]. constructor. }
    change dna_comp_new with (comp_table New DNA). rewrite (rc_pure_canon New [a; b; c] Hw).
    assert (Hrc : forallb canonicalb (rc_spec [a; b; c]) = true).
    { rewrite forallb_forall. intros x Hx. apply canonicalb_complete.
      pose proof (canon_rc _ Hw) as Hr. unfold canon_str in Hr. rewrite Forall_forall in Hr. apply Hr, Hx. }
    rewrite Hrc.
    apply (codon_ok_split id aa [a; b; c]), (codon_facts id aa st); assumption.
  - assert (E' : forallb canonicalb (rc_pure dna_comp_new [a; b; c]) = false).
    { destruct (forallb canonicalb (rc_pure dna_comp_new [a; b; c])) eqn:E2; [|reflexivity].
      unfold expected_incomplete in Hk. rewrite E, E2 in Hk.
      destruct (forallb (fun c0 => canonicalb c0 || (c0 =? ch_gap)) [a; b; c]); unfold ch_gap, ch_X in Hk; lia. }
    rewrite E', Hk. apply (incomplete_codon_lemma id aa st a b c); auto.
Qed.

Lemma translate_minus_general_lemma id aa st s start :
  In (id, aa, st) new_codes -> valid_dna s -> 0 <= start ->
  translate aa s start true
  = map (general_lookup (ncbi_tbl id)) (codons (skipn (Z.to_nat start) (rc_pure dna_comp_new s))).
Proof.
  intros Hin Hs H0. rewrite translate_true, right_cut by exact H0.
  rewrite ltrunc3_skipn, convert_minus, codons_chunks3, rc_pure_rcf.
  destruct (rcf_window (comp_char dna_comp_new) s (Z.to_nat start)) as [Hm2 Hw]. cbv zeta in Hm2, Hw.
  rewrite Hw, chunks3_rcf by exact Hm2.
  rewrite <- !map_rev, map_map. apply map_ext_in. intros w Hin_w. apply in_rev in Hin_w.
  destruct (chunks3_In w _ Hin_w) as (a & b & c & -> & Ha & Hb & Hc).
  assert (Hv : forall x, In x (skipn (Z.to_nat (zlen (firstn (length s - Z.to_nat start) s) mod 3))
                                   (firstn (length s - Z.to_nat start) s)) -> In x dna_dga_new).
  { intros x Hx. unfold valid_dna in Hs. rewrite Forall_forall in Hs. apply Hs.
    set (l1 := firstn (length s - Z.to_nat start) s) in *.
    assert (Hx1 : In x l1).
    { rewrite <- (firstn_skipn (Z.to_nat (zlen l1 mod 3)) l1). apply in_or_app. right. exact Hx. }
    unfold l1 in Hx1. rewrite <- (firstn_skipn (length s - Z.to_nat start) s). apply in_or_app. left. exact Hx1. }
  rewrite <- rc_pure_rcf. apply (minus_aa_general id aa st a b c); auto.
Qed.

(* ------------------------------------------------------------------ the hypotheses are satisfiable *)

Example hypotheses_instance :
  In refute_code new_codes /\ In refute_code old_codes /\
  canon_str refute_seq /\ valid_dna [65; 78; 45; 63; 82; 84] /\
  In (82, [65; 71]) (iupac_of DNA) /\ In (89, [67; 85]) (iupac_of RNA) /\ In [65; 71] (base_sets DNA).
Proof.
  destruct refute_checks as (H1 & H2 & _).
  assert (Hn : In refute_code new_codes) by (apply hd_In, H1).
  split; [exact Hn|]. split; [rewrite old_eq_new_lemma; exact Hn|].
  split; [apply canon_strb_sound, H2|].
  split; [unfold valid_dna; rewrite Forall_forall; intros x Hx; apply memZ_In;
          revert x Hx; apply Forall_forall; repeat (constructor; [reflexivity|]); constructor|].
  split; [apply memZ_In || (cbn; tauto)|]. split; cbn; tauto.
Qed.
