(** C12 — proofs. *)
From CG3 Require Import Lib.PyZ Lib.Val Model.GeneticCode Spec.GeneticCodeSpec.
From CG3gen Require Import GCTables.

(* ------------------------------------------------------------------ lists, three at a time *)

Lemma list_ind3 {A} (P : list A -> Prop) :
  P [] -> (forall a, P [a]) -> (forall a b, P [a; b]) ->
  (forall a b c r, P r -> P (a :: b :: c :: r)) -> forall l, P l.
Proof.
  intros H0 H1 H2 H3.
  fix IH 1. intros [|a [|b [|c r]]].
  - exact H0.
  - apply H1.
  - apply H2.
  - apply H3, IH.
Qed.

Lemma zlen_cons {A} (a : A) l : zlen (a :: l) = 1 + zlen l.
Proof. unfold zlen. simpl length. lia. Qed.
Lemma zlen_nil {A} : zlen (@nil A) = 0.
Proof. reflexivity. Qed.
Lemma zlen_nonneg {A} (l : list A) : 0 <= zlen l.
Proof. unfold zlen. lia. Qed.
Lemma zlen_app {A} (a b : list A) : zlen (a ++ b) = zlen a + zlen b.
Proof. unfold zlen. rewrite app_length. lia. Qed.
Lemma zlen_rev {A} (a : list A) : zlen (rev a) = zlen a.
Proof. unfold zlen. rewrite rev_length. lia. Qed.
Lemma zlen_map {A B} (f : A -> B) (a : list A) : zlen (map f a) = zlen a.
Proof. unfold zlen. rewrite map_length. lia. Qed.

Lemma codons_chunks3 s : codons s = chunks3 s.
Proof. induction s using list_ind3; simpl; congruence. Qed.

Lemma chunks3_map {A B} (f : A -> B) l : chunks3 (map f l) = map (map f) (chunks3 l).
Proof. induction l using list_ind3; simpl; congruence. Qed.

Lemma chunks3_app {A} (u v : list A) :
  zlen u mod 3 = 0 -> chunks3 (u ++ v) = chunks3 u ++ chunks3 v.
Proof.
  induction u using list_ind3; intros H.
  - reflexivity.
  - exfalso. rewrite zlen_cons, zlen_nil in H. discriminate H.
  - exfalso. rewrite !zlen_cons, zlen_nil in H. discriminate H.
  - simpl. f_equal. apply IHu. rewrite !zlen_cons in H. lia.
Qed.

Lemma chunks3_short {A} (v : list A) : zlen v < 3 -> chunks3 v = [].
Proof.
  destruct v as [|a [|b [|c r]]]; auto.
  rewrite !zlen_cons. pose proof (zlen_nonneg r). lia.
Qed.

Lemma chunks3_app_short {A} (u v : list A) :
  zlen u mod 3 = 0 -> zlen v < 3 -> chunks3 (u ++ v) = chunks3 u.
Proof. intros. rewrite chunks3_app, (chunks3_short v), app_nil_r; auto. Qed.

Lemma chunks3_In {A} (w : list A) s :
  In w (chunks3 s) -> exists a b c, w = [a; b; c] /\ In a s /\ In b s /\ In c s.
Proof.
  induction s using list_ind3; simpl; try tauto.
  intros [<-|H].
  - exists a, b, c. tauto.
  - destruct (IHs H) as (x & y & z & -> & ? & ? & ?). exists x, y, z. tauto.
Qed.

(** truncation to a multiple of three, as the code does it *)
Definition trunc3 {A} (l : list A) : list A :=
  let diff := zlen l mod 3 in if diff =? 0 then l else slice_to l (- diff).

Lemma trunc3_firstn {A} (l : list A) :
  trunc3 l = firstn (Z.to_nat (zlen l - zlen l mod 3)) l.
Proof.
  unfold trunc3, slice_to. pose proof (zlen_nonneg l).
  destruct (zlen l mod 3 =? 0) eqn:E.
  - replace (zlen l - zlen l mod 3) with (zlen l) by lia.
    unfold zlen. rewrite Nat2Z.id, firstn_all. reflexivity.
  - destruct (- (zlen l mod 3) <? 0) eqn:E2; [|lia].
    f_equal. lia.
Qed.

Lemma trunc3_split {A} (l : list A) :
  exists tl, l = trunc3 l ++ tl /\ zlen tl = zlen l mod 3 /\ zlen (trunc3 l) mod 3 = 0.
Proof.
  rewrite trunc3_firstn. set (k := Z.to_nat (zlen l - zlen l mod 3)).
  exists (skipn k l). pose proof (zlen_nonneg l).
  assert (Hk : (k <= length l)%nat) by (unfold k, zlen in *; lia).
  split; [symmetry; apply firstn_skipn|].
  assert (E1 : zlen (skipn k l) = zlen l - Z.of_nat k) by (unfold zlen; rewrite skipn_length; lia).
  assert (E2 : zlen (firstn k l) = Z.of_nat k) by (unfold zlen; rewrite firstn_length_le; auto).
  rewrite E1, E2. unfold k. rewrite Z2Nat.id by lia. split; lia.
Qed.

Lemma chunks3_trunc3 {A} (l : list A) : chunks3 (trunc3 l) = chunks3 l.
Proof.
  destruct (trunc3_split l) as (tl & Hl & Htl & Hm).
  rewrite Hl at 2. rewrite chunks3_app_short; auto. lia.
Qed.

Lemma slice_from_nonneg {A} (s : list A) start :
  0 <= start -> slice_from s start = skipn (Z.to_nat start) s.
Proof.
  intros H. unfold slice_from. destruct (start <? 0) eqn:E; [lia|].
  destruct (Z.min_spec start (zlen s)) as [[? ->]|[? ->]]; auto.
  unfold zlen in *. rewrite Nat2Z.id, !skipn_all2; auto; lia.
Qed.

Lemma start_slice {A} (s : list A) start :
  0 <= start -> (if start =? 0 then s else slice_from s start) = skipn (Z.to_nat start) s.
Proof.
  intros H. destruct (start =? 0) eqn:E.
  - replace start with 0 by lia. reflexivity.
  - apply slice_from_nonneg; auto.
Qed.

(* ------------------------------------------------------------------ the finite part: codes x 64 codons *)

Definition mono3 (w : str) : list Z := map (mono_index new_monomers) w.
(** what the plus / minus converter of a code answers for the k-mer index of codon [w] *)
Definition plus_aa (aa : str) (w : str) : Z :=
  let i := kmer_index3 (mono3 w) in trans_lookup plus_src (code_seq aa) i i.
Definition minus_aa (aa : str) (w : str) : Z :=
  let i := kmer_index3 (mono3 w) in trans_lookup minus_src (code_seq aa) i i.

Definition res_is (r : res Z) (t : Z) : bool := match r with Ok a => a =? t | Err _ => false end.

Definition codon_ok (id : Z) (aa : str) (w : str) : bool :=
  let t := spec_lookup (ncbi_tbl id) w in
  (plus_aa aa w =? t)
  && (minus_aa aa w =? spec_lookup (ncbi_tbl id) (rc_spec w))
  && res_is (getitem Old aa w) t
  && res_is (getitem New aa w) t
  && negb (t =? ch_gap) && negb (t =? ch_X).

Definition code_ok (e : Z * list Z * list Z) : bool :=
  forallb (codon_ok (fst (fst e)) (snd (fst e))) (product3 bases).

Lemma all_codes_ok : forallb code_ok new_codes = true.
Proof. vm_compute. reflexivity. Qed.

Lemma In_product3 (b0 : list Z) a b c :
  In a b0 -> In b b0 -> In c b0 -> In [a; b; c] (product3 b0).
Proof.
  intros Ha Hb Hc. unfold product3.
  apply in_flat_map. exists a. split; [assumption|].
  apply in_flat_map. exists b. split; [assumption|].
  apply (in_map (fun z => [a; b; z])). assumption.
Qed.

Lemma codon_facts id aa st a b c :
  In (id, aa, st) new_codes -> canonical a -> canonical b -> canonical c ->
  codon_ok id aa [a; b; c] = true.
Proof.
  intros Hin Ha Hb Hc.
  pose proof all_codes_ok as H. rewrite forallb_forall in H.
  specialize (H _ Hin). unfold code_ok in H. cbn [fst snd] in H.
  rewrite forallb_forall in H. apply H. apply In_product3; assumption.
Qed.

Definition canon_str (s : str) : Prop := Forall canonical s.

Lemma canon_chunk s w :
  canon_str s -> In w (chunks3 s) -> exists a b c, w = [a; b; c] /\ canonical a /\ canonical b /\ canonical c.
Proof.
  intros Hs Hw. destruct (chunks3_In w s Hw) as (a & b & c & -> & Ha & Hb & Hc).
  unfold canon_str in Hs. rewrite Forall_forall in Hs. exists a, b, c. auto.
Qed.

Lemma codon_ok_split id aa w :
  codon_ok id aa w = true ->
  plus_aa aa w = spec_lookup (ncbi_tbl id) w /\
  minus_aa aa w = spec_lookup (ncbi_tbl id) (rc_spec w) /\
  getitem Old aa w = Ok (spec_lookup (ncbi_tbl id) w) /\
  getitem New aa w = Ok (spec_lookup (ncbi_tbl id) w) /\
  spec_lookup (ncbi_tbl id) w <> ch_gap /\ spec_lookup (ncbi_tbl id) w <> ch_X.
Proof.
  unfold codon_ok. cbv zeta. intros H.
  repeat (apply andb_prop in H; destruct H as [H ?]).
  unfold res_is in *.
  destruct (getitem Old aa w) as [o|]; [|discriminate].
  destruct (getitem New aa w) as [n|]; [|discriminate].
  unfold ch_gap, ch_X in *.
  apply Z.eqb_eq in H, H2, H3, H4. subst o n.
  repeat split; try assumption; intros E; rewrite E in *; discriminate.
Qed.

Lemma canon_skipn s n : canon_str s -> canon_str (skipn n s).
Proof.
  unfold canon_str. rewrite !Forall_forall. intros H x Hx. apply H.
  rewrite <- (firstn_skipn n s). apply in_or_app. right. exact Hx.
Qed.

(* ------------------------------------------------------------------ plus strand *)

Lemma translate_unfold aa s start rc :
  0 <= start ->
  translate aa s start rc =
  let seq := to_kmer_indices (trunc3 (skipn (Z.to_nat start) s)) in
  if rc then rev (convert minus_src (code_seq aa) seq) else convert plus_src (code_seq aa) seq.
Proof.
  intros H. unfold translate, str in *. rewrite (start_slice s start H). reflexivity.
Qed.

Lemma convert_plus aa dna :
  convert plus_src (code_seq aa) (to_kmer_indices dna) = map (plus_aa aa) (chunks3 dna).
Proof.
  unfold convert, to_kmer_indices. rewrite chunks3_map, !map_map. reflexivity.
Qed.

Lemma convert_minus aa dna :
  convert minus_src (code_seq aa) (to_kmer_indices dna) = map (minus_aa aa) (chunks3 dna).
Proof.
  unfold convert, to_kmer_indices. rewrite chunks3_map, !map_map. reflexivity.
Qed.

Lemma plus_table_spec id aa st t :
  In (id, aa, st) new_codes -> canon_str t ->
  map (plus_aa aa) (chunks3 t) = translate_spec (ncbi_tbl id) t.
Proof.
  intros Hin Ht. unfold translate_spec. rewrite codons_chunks3.
  apply map_ext_in. intros w Hw.
  destruct (canon_chunk t w Ht Hw) as (a & b & c & -> & Ha & Hb & Hc).
  apply (codon_ok_split id aa), (codon_facts id aa st); assumption.
Qed.

Lemma translate_plus_spec_lemma id aa st s start :
  In (id, aa, st) new_codes -> canon_str s -> 0 <= start ->
  translate aa s start false = translate_spec (ncbi_tbl id) (skipn (Z.to_nat start) s).
Proof.
  intros Hin Hs H0. rewrite translate_unfold by assumption. cbv zeta.
  rewrite convert_plus, chunks3_trunc3.
  apply (plus_table_spec id aa st); [assumption|]. apply canon_skipn; assumption.
Qed.

(* ------------------------------------------------------------------ minus strand *)

Lemma rc_spec_app u v : rc_spec (u ++ v) = rc_spec v ++ rc_spec u.
Proof. unfold rc_spec. rewrite map_app, rev_app_distr. reflexivity. Qed.

Lemma zlen_rc_spec u : zlen (rc_spec u) = zlen u.
Proof. unfold rc_spec. rewrite zlen_rev, zlen_map. reflexivity. Qed.

Lemma chunks3_rc u :
  zlen u mod 3 = 0 -> chunks3 (rc_spec u) = rev (map rc_spec (chunks3 u)).
Proof.
  induction u using list_ind3; intros H.
  - reflexivity.
  - exfalso. rewrite zlen_cons, zlen_nil in H. discriminate H.
  - exfalso. rewrite !zlen_cons, zlen_nil in H. discriminate H.
  - change (a :: b :: c :: u) with ([a; b; c] ++ u). rewrite rc_spec_app.
    assert (Hu : zlen u mod 3 = 0) by (rewrite !zlen_cons in H; lia).
    rewrite chunks3_app by (rewrite zlen_rc_spec; exact Hu).
    rewrite IHu by exact Hu. reflexivity.
Qed.

Lemma canon_comp c : canonical c -> canonical (comp_base_dna c).
Proof.
  unfold canonical, bases. simpl. intros [<-|[<-|[<-|[<-|[]]]]]; vm_compute; tauto.
Qed.

Lemma canon_rc s : canon_str s -> canon_str (rc_spec s).
Proof.
  unfold canon_str, rc_spec. intros H. apply Forall_rev.
  rewrite Forall_forall in *. intros x Hx. apply in_map_iff in Hx.
  destruct Hx as (y & <- & Hy). apply canon_comp, H, Hy.
Qed.

Lemma canon_firstn s n : canon_str s -> canon_str (firstn n s).
Proof.
  unfold canon_str. rewrite !Forall_forall. intros H x Hx. apply H.
  rewrite <- (firstn_skipn n s). apply in_or_app. left. exact Hx.
Qed.

Lemma canon_trunc3 s : canon_str s -> canon_str (trunc3 s).
Proof. rewrite trunc3_firstn. apply canon_firstn. Qed.

(** the minus converter, on a whole number of codons, translates the reverse complement *)
Lemma minus_table_spec id aa st t :
  In (id, aa, st) new_codes -> canon_str t -> zlen t mod 3 = 0 ->
  rev (map (minus_aa aa) (chunks3 t)) = translate_spec (ncbi_tbl id) (rc_spec t).
Proof.
  intros Hin Ht Hm. unfold translate_spec. rewrite codons_chunks3, chunks3_rc by exact Hm.
  rewrite <- !map_rev, map_map.
  apply map_ext_in. intros w Hw. apply in_rev in Hw.
  destruct (canon_chunk t w Ht Hw) as (a & b & c & -> & Ha & Hb & Hc).
  apply (codon_ok_split id aa), (codon_facts id aa st); assumption.
Qed.

(** what the new translate(rc=True) computes, for every start: the translation of the reverse
    complement of the truncated plus-strand window *)
Lemma translate_minus_char_lemma id aa st s start :
  In (id, aa, st) new_codes -> canon_str s -> 0 <= start ->
  translate aa s start true =
  translate_spec (ncbi_tbl id) (rc_spec (trunc3 (skipn (Z.to_nat start) s))).
Proof.
  intros Hin Hs H0. rewrite translate_unfold by assumption. cbv zeta.
  rewrite convert_minus.
  destruct (trunc3_split (skipn (Z.to_nat start) s)) as (tl & _ & _ & Hm).
  apply (minus_table_spec id aa st); [assumption| |exact Hm].
  apply canon_trunc3, canon_skipn, Hs.
Qed.

Lemma skipn_app_exact {A} (u v : list A) k : length u = k -> skipn k (u ++ v) = v.
Proof.
  intros <-. rewrite skipn_app, skipn_all, Nat.sub_diag. reflexivity.
Qed.

Lemma translate_minus_spec_lemma id aa st s start :
  In (id, aa, st) new_codes -> canon_str s -> 0 <= start ->
  (zlen s - start) mod 3 = start ->
  translate aa s start true = frame_minus (ncbi_tbl id) s (Z.to_nat start).
Proof.
  intros Hin Hs H0 Hg.
  rewrite (translate_minus_char_lemma id aa st) by assumption.
  unfold frame_minus, translate_spec. f_equal. rewrite !codons_chunks3.
  set (k := Z.to_nat start). set (t := skipn k s).
  destruct (trunc3_split t) as (tl & Ht & Htl & Hm).
  destruct (le_lt_dec k (length s)) as [Hk|Hk].
  - assert (Hlt : zlen t = zlen s - start).
    { unfold t, zlen. rewrite skipn_length. unfold k. lia. }
    assert (Es : rc_spec s = rc_spec t ++ rc_spec (firstn k s)).
    { unfold t. rewrite <- rc_spec_app, firstn_skipn. reflexivity. }
    assert (Et : rc_spec t = rc_spec tl ++ rc_spec (trunc3 t)).
    { rewrite <- rc_spec_app, <- Ht. reflexivity. }
    rewrite Es, Et, <- app_assoc.
    rewrite skipn_app_exact.
    + rewrite chunks3_app_short; [reflexivity|rewrite zlen_rc_spec; exact Hm|].
      rewrite zlen_rc_spec. unfold zlen. rewrite firstn_length_le by exact Hk. unfold k. lia.
    + apply Nat2Z.inj. fold (zlen (rc_spec tl)). rewrite zlen_rc_spec, Htl, Hlt, Hg. unfold k. lia.
  - assert (Et : t = []) by (unfold t; apply skipn_all2; lia).
    rewrite Et. rewrite skipn_all2.
    + reflexivity.
    + fold (rc_spec s). pose proof (zlen_rc_spec s) as E. unfold zlen in E. lia.
Qed.

(** the guard is needed: the unguarded statement is false of the faithful model *)
Lemma translate_minus_refuted_lemma :
  exists id aa st s start,
    In (id, aa, st) new_codes /\ canon_str s /\ 0 <= start < 3 /\
    translate aa s start true <> frame_minus (ncbi_tbl id) s (Z.to_nat start).
Proof.
  (* standard code; ATGAAACCCT, frame 0 *)
  destruct new_codes as [|[[id aa] st] rest] eqn:E; [discriminate E|].
  exists id, aa, st, [65; 84; 71; 65; 65; 65; 67; 67; 67; 84], 0.
  split; [left; reflexivity|].
  split; [unfold canon_str, canonical, bases; repeat constructor; simpl; tauto|].
  split; [lia|].
  injection E as E1 E2 E3 _. subst id aa st. vm_compute. discriminate.
Qed.

(* ------------------------------------------------------------------ the proposed correction *)

Lemma slice_to_nonneg {A} (s : list A) stop :
  0 <= stop -> slice_to s stop = firstn (Z.to_nat stop) s.
Proof.
  intros H. unfold slice_to. destruct (stop <? 0) eqn:E; [lia|].
  destruct (Z.min_spec stop (zlen s)) as [[? ->]|[? ->]]; auto.
  unfold zlen in *. rewrite Nat2Z.id, !firstn_all2; auto; lia.
Qed.

Lemma translate_fixed_minus_lemma id aa st s start :
  In (id, aa, st) new_codes -> canon_str s -> 0 <= start ->
  translate_fixed aa s start true = frame_minus (ncbi_tbl id) s (Z.to_nat start).
Proof.
  intros Hin Hs H0. unfold translate_fixed, str in *.
  set (k := Z.to_nat start).
  set (dna1 := firstn (length s - k) s).
  assert (E1 : (if start =? 0 then s else slice_to s (Z.max (zlen s - start) 0)) = dna1).
  { unfold dna1. destruct (start =? 0) eqn:E.
    - replace k with 0%nat by (unfold k; lia). rewrite Nat.sub_0_r, firstn_all. reflexivity.
    - rewrite slice_to_nonneg by lia. f_equal. unfold k, zlen. lia. }
  rewrite E1. clear E1.
  set (d := zlen dna1 mod 3).
  set (dna2 := skipn (Z.to_nat d) dna1).
  assert (Hd : 0 <= d < 3) by (unfold d; lia).
  assert (E2 : (if d =? 0 then dna1 else slice_from dna1 d) = dna2).
  { unfold dna2. destruct (d =? 0) eqn:E.
    - replace d with 0 by lia. reflexivity.
    - apply slice_from_nonneg. lia. }
  rewrite E2. clear E2.
  assert (Hdle : (Z.to_nat d <= length dna1)%nat) by (unfold d, zlen in *; lia).
  assert (Hm2 : zlen dna2 mod 3 = 0).
  { unfold dna2, zlen. rewrite skipn_length. unfold d, zlen in *. lia. }
  rewrite convert_minus.
  rewrite (minus_table_spec id aa st); [|assumption| |exact Hm2].
  2:{ unfold dna2, dna1. apply canon_skipn, canon_firstn, Hs. }
  unfold frame_minus, translate_spec. f_equal. rewrite !codons_chunks3. fold k.
  assert (E3 : skipn k (rc_spec s) = rc_spec dna1).
  { assert (Es : rc_spec s = rc_spec (skipn (length s - k) s) ++ rc_spec dna1).
    { unfold dna1. rewrite <- rc_spec_app, firstn_skipn. reflexivity. }
    rewrite Es.
    destruct (le_lt_dec k (length s)) as [Hk|Hk].
    - apply skipn_app_exact. apply Nat2Z.inj. fold (zlen (rc_spec (skipn (length s - k) s))).
      rewrite zlen_rc_spec. unfold zlen. rewrite skipn_length. lia.
    - unfold dna1. replace (length s - k)%nat with 0%nat by lia. simpl firstn. simpl skipn.
      rewrite app_nil_r. apply skipn_all2.
      pose proof (zlen_rc_spec s) as E. unfold zlen in E. lia. }
  rewrite E3.
  assert (E4 : rc_spec dna1 = rc_spec dna2 ++ rc_spec (firstn (Z.to_nat d) dna1)).
  { unfold dna2. rewrite <- rc_spec_app, firstn_skipn. reflexivity. }
  rewrite E4.
  rewrite chunks3_app_short; [reflexivity|rewrite zlen_rc_spec; exact Hm2|].
  rewrite zlen_rc_spec. unfold zlen. rewrite firstn_length_le by exact Hdle. lia.
Qed.

Lemma translate_fixed_plus_lemma id aa st s start :
  In (id, aa, st) new_codes -> canon_str s -> 0 <= start ->
  translate_fixed aa s start false = frame_plus (ncbi_tbl id) s (Z.to_nat start).
Proof. intros. unfold translate_fixed. apply (translate_plus_spec_lemma id aa st); assumption. Qed.
