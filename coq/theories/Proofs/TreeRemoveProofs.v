(** C09 — proofs about the model of [TreeNode.remove_deleted] (Model/TreeRemove.v):
    the in-place pruning keeps exactly the tips that are not deleted and every
    tip-to-tip path length among them; so does its composition with [prune]. *)
From Coq Require Import Permutation.
From CG3 Require Import Lib.PyZ Lib.Val Lib.Rose Model.Tree Model.TreeRemove Model.TreeDist Spec.TreeSpec Spec.TreeTopoSpec
  Proofs.TreeProofs Proofs.TreeSubProofs Proofs.TreeDistProofs Proofs.TopoBase Proofs.TopoOps Proofs.TopoSub.

Definition kept (D : list name) : name -> bool := fun n => negb (memb n D).

(* ------------------------------------------------------------------ generalities *)

Lemma memb_filter_kept a D l :
  memb a D = false -> memb a (filter (kept D) l) = memb a l.
Proof.
  intros Ha. induction l as [|x l IH]; [reflexivity|].
  cbn [filter]. unfold kept at 1. destruct (memb x D) eqn:Ex; cbn [negb].
  - rewrite TreeSubProofs.memb_cons, IH.
    destruct (str_eqb_spec a x) as [->|Hn]; [congruence|reflexivity].
  - rewrite !TreeSubProofs.memb_cons, IH. reflexivity.
Qed.

Lemma filter_kept_nil_memb a D l :
  filter (kept D) l = [] -> memb a D = false -> memb a l = false.
Proof.
  intros Hf Ha. rewrite <- (memb_filter_kept a D l Ha), Hf. reflexivity.
Qed.

Lemma sep_filter_kept D x c a b :
  tips x = filter (kept D) (tips c) ->
  memb a D = false -> memb b D = false -> sep x a b = sep c a b.
Proof.
  intros Ht Ha Hb. unfold sep. rewrite Ht, !memb_filter_kept by assumption. reflexivity.
Qed.

Lemma rd_kids_cons D c cs :
  rd_kids D (c :: cs) = match rd D c with Some x => [x] | None => [] end ++ rd_kids D cs.
Proof. reflexivity. Qed.

Lemma rd_unfold D n l cs :
  rd D (Node n l cs) =
  if memb n D then None
  else match cs, rd_kids D cs with
       | _ :: _, [] => None
       | _, _ => Some (Node n l (rd_kids D cs))
       end.
Proof. destruct cs; reflexivity. Qed.

(** the side condition on a node below the root *)
Definition okc (D : list name) (c : tree) : bool :=
  (is_tip c || negb (memb (tname c) D)) && internal_free D c.

Lemma internal_free_node D n l cs : internal_free D (Node n l cs) = forallb (okc D) cs.
Proof. reflexivity. Qed.

Lemma internal_free_kids D t : internal_free D t = forallb (okc D) (kids t).
Proof. destruct t; reflexivity. Qed.

(* ------------------------------------------------------------------ (1) child-level invariant *)

Definition rd_inv (dflt : Z) (D : list name) (c : tree) : Prop :=
  okc D c = true ->
  match rd D c with
  | None => filter (kept D) (tips c) = []
  | Some x =>
      tips x = filter (kept D) (tips c) /\
      tname x = tname c /\ tlen x = tlen c /\
      forall a b, memb a D = false -> memb b D = false ->
                  contrib dflt a b x = contrib dflt a b c
  end.

Lemma rd_kids_inv dflt D cs :
  Forall (rd_inv dflt D) cs -> forallb (okc D) cs = true ->
  tips_of (rd_kids D cs) = filter (kept D) (tips_of cs) /\
  forall a b, memb a D = false -> memb b D = false ->
              contribs dflt a b (rd_kids D cs) = contribs dflt a b cs.
Proof.
  induction 1 as [|c cs Hc _ IH]; intros Hg.
  - split; reflexivity.
  - cbn [forallb] in Hg. apply andb_true_iff in Hg. destruct Hg as [Hgc Hgcs].
    destruct (IH Hgcs) as (IHt & IHc). clear IH.
    specialize (Hc Hgc). rewrite rd_kids_cons, tips_of_cons, filter_app.
    destruct (rd D c) as [x|] eqn:Eg.
    + destruct Hc as (Ht & _ & _ & Hcx). split.
      * cbn [app]. rewrite tips_of_cons, Ht, IHt. reflexivity.
      * intros a b Ha Hb. cbn [app]. rewrite !contribs_cons, Hcx, IHc by assumption. reflexivity.
    + rewrite Hc. cbn [app]. split; [exact IHt|].
      intros a b Ha Hb. rewrite contribs_cons, IHc by assumption.
      rewrite (contrib_zero dflt a b c); [reflexivity| |];
        eapply filter_kept_nil_memb; eassumption.
Qed.

Lemma rd_inv_all dflt D c : rd_inv dflt D c.
Proof.
  induction c as [n l cs IH] using tree_ind'. intros Hok.
  unfold okc in Hok. apply andb_true_iff in Hok. destruct Hok as [Hnm Hif].
  cbn [tname] in Hnm. rewrite internal_free_node in Hif.
  rewrite rd_unfold. destruct (memb n D) eqn:En.
  - cbn [negb] in Hnm. rewrite orb_false_r in Hnm.
    destruct cs as [|c0 cs]; [|discriminate].
    cbn [tips filter]. unfold kept. rewrite En. reflexivity.
  - destruct cs as [|c0 cs].
    + cbn [rd_kids flat_map tips filter]. unfold kept. rewrite En. cbn [negb].
      repeat split; reflexivity.
    + set (cs' := c0 :: cs) in *.
      assert (Hne : cs' <> []) by (subst cs'; congruence).
      destruct (rd_kids_inv dflt D cs' IH Hif) as (Ht & Hck).
      rewrite (tips_node n l cs' Hne).
      destruct (rd_kids D cs') as [|x sub] eqn:Ek.
      * subst cs'. rewrite <- Ht. reflexivity.
      * assert (Hne2 : x :: sub <> []) by congruence.
        subst cs'. cbn [tname tlen]. repeat split.
        -- rewrite (tips_node n l _ Hne2). exact Ht.
        -- intros a b Ha Hb. rewrite !contrib_node. rewrite (Hck a b Ha Hb).
           assert (Hs : sep (Node n l (x :: sub)) a b = sep (Node n l (c0 :: cs)) a b).
           { apply (sep_filter_kept D); assumption. }
           rewrite Hs. reflexivity.
Qed.

Lemma rd_inv_Forall dflt D cs : Forall (rd_inv dflt D) cs.
Proof. apply Forall_forall. intros c _. apply rd_inv_all. Qed.

(** the invariant without the auxiliary definitions *)
Theorem rd_child_none_iff : forall D c,
  internal_free D c = true -> (is_tip c || negb (memb (tname c) D)) = true ->
  (rd D c = None <-> filter (kept D) (tips c) = []).
Proof.
  intros D c Hif Hnm.
  assert (Hok : okc D c = true) by (unfold okc; rewrite Hnm, Hif; reflexivity).
  pose proof (rd_inv_all 0 D c Hok) as H. destruct (rd D c) as [x|].
  - destruct H as (Ht & _). split; [discriminate|]. intros E. rewrite E in Ht.
    exfalso. exact (tips_nonempty x Ht).
  - split; auto.
Qed.

Theorem rd_child_some : forall dflt D c x,
  internal_free D c = true -> (is_tip c || negb (memb (tname c) D)) = true ->
  rd D c = Some x ->
  tips x = filter (kept D) (tips c) /\
  tname x = tname c /\ tlen x = tlen c /\
  forall a b, memb a D = false -> memb b D = false ->
              contrib dflt a b x = contrib dflt a b c.
Proof.
  intros dflt D c x Hif Hnm E.
  assert (Hok : okc D c = true) by (unfold okc; rewrite Hnm, Hif; reflexivity).
  pose proof (rd_inv_all dflt D c Hok) as H. rewrite E in H. exact H.
Qed.

(* ------------------------------------------------------------------ lengths *)

Lemma rd_hl D c : hl c = true -> match rd D c with Some x => hl x = true | None => True end.
Proof.
  induction c as [n l cs IH] using tree_ind'. intros Hh.
  unfold hl in Hh. cbn [tlen] in Hh. apply andb_true_iff in Hh. destruct Hh as [Hl Hh].
  rewrite has_lens_node in Hh.
  assert (Hk : forallb hl (rd_kids D cs) = true).
  { clear Hl. induction IH as [|c cs Hc _ IHcs]; [reflexivity|].
    cbn [forallb] in Hh. apply andb_true_iff in Hh. destruct Hh as [Hhc Hhcs].
    rewrite rd_kids_cons. specialize (Hc Hhc). destruct (rd D c) as [x|].
    - cbn [app forallb]. rewrite Hc, (IHcs Hhcs). reflexivity.
    - cbn [app]. exact (IHcs Hhcs). }
  rewrite rd_unfold. destruct (memb n D); [exact I|].
  assert (Hsome : hl (Node n l (rd_kids D cs)) = true).
  { unfold hl. cbn [tlen]. rewrite Hl, has_lens_node, Hk. reflexivity. }
  destruct cs as [|c0 cs]; [exact Hsome|].
  destruct (rd_kids D (c0 :: cs)) as [|x sub] eqn:Ek; [exact I|exact Hsome].
Qed.

Lemma rd_kids_hl D cs : forallb hl cs = true -> forallb hl (rd_kids D cs) = true.
Proof.
  induction cs as [|c cs IH]; intros Hh; [reflexivity|].
  cbn [forallb] in Hh. apply andb_true_iff in Hh. destruct Hh as [Hhc Hhcs].
  rewrite rd_kids_cons. pose proof (rd_hl D c Hhc) as Hc. destruct (rd D c) as [x|].
  - cbn [app forallb]. rewrite Hc, (IH Hhcs). reflexivity.
  - cbn [app]. exact (IH Hhcs).
Qed.

Theorem remove_deleted_has_lens : forall D t,
  has_lens t = true -> has_lens (remove_deleted D t) = true.
Proof.
  intros D t Hh. destruct t as [n l cs]. unfold remove_deleted. cbn [tname tlen kids].
  rewrite has_lens_node in *. apply rd_kids_hl. exact Hh.
Qed.

(* ------------------------------------------------------------------ (2) the whole tree *)

Lemma remove_deleted_kids_tips D t :
  internal_free D t = true ->
  tips_of (kids (remove_deleted D t)) = filter (kept D) (tips_of (kids t)).
Proof.
  intros Hif. rewrite internal_free_kids in Hif. unfold remove_deleted. cbn [kids].
  apply (rd_kids_inv 0 D (kids t) (rd_inv_Forall 0 D (kids t)) Hif).
Qed.

Theorem remove_deleted_preserves : forall dflt D t a b,
  internal_free D t = true -> kids t <> [] ->
  (exists x, In x (tips t) /\ ~ In x D) ->
  ~ In a D -> ~ In b D ->
  tips (remove_deleted D t) = filter (fun n => negb (memb n D)) (tips t) /\
  pathlen dflt (remove_deleted D t) a b = pathlen dflt t a b.
Proof.
  intros dflt D t a b Hif Hk (x & Hx & HxD) Ha Hb.
  destruct t as [n l cs]. cbn [kids] in Hk.
  rewrite internal_free_node in Hif.
  destruct (rd_kids_inv dflt D cs (rd_inv_Forall dflt D cs) Hif) as (Ht & Hc).
  unfold remove_deleted. cbn [tname tlen kids].
  rewrite (tips_node n l cs Hk) in *. split.
  - assert (Hne : rd_kids D cs <> []).
    { intros E. rewrite E in Ht. cbn [tips_of flat_map] in Ht.
      assert (Hin : In x (filter (kept D) (tips_of cs))).
      { apply filter_In. split; [exact Hx|]. unfold kept.
        apply memb_false_In in HxD. rewrite HxD. reflexivity. }
      rewrite <- Ht in Hin. exact Hin. }
    rewrite (tips_node n l _ Hne). exact Ht.
  - rewrite !pathlen_node. apply Hc; apply memb_false_In; assumption.
Qed.

(** the path lengths alone need no side condition beyond [internal_free] *)
Theorem remove_deleted_pathlen : forall dflt D t a b,
  internal_free D t = true -> ~ In a D -> ~ In b D ->
  pathlen dflt (remove_deleted D t) a b = pathlen dflt t a b.
Proof.
  intros dflt D t a b Hif Ha Hb. destruct t as [n l cs].
  rewrite internal_free_node in Hif.
  destruct (rd_kids_inv dflt D cs (rd_inv_Forall dflt D cs) Hif) as (_ & Hc).
  unfold remove_deleted. cbn [tname tlen kids]. rewrite !pathlen_node.
  apply Hc; apply memb_false_In; assumption.
Qed.

(* ------------------------------------------------------------------ (3) then prune *)

Theorem remove_deleted_then_prune_preserves : forall dflt D t a b,
  has_lens t = true -> internal_free D t = true -> kids t <> [] ->
  (exists x, In x (tips t) /\ ~ In x D) -> ~ In a D -> ~ In b D ->
  Permutation (tips (prune (remove_deleted D t))) (filter (fun n => negb (memb n D)) (tips t)) /\
  pathlen dflt (prune (remove_deleted D t)) a b = pathlen dflt t a b.
Proof.
  intros dflt D t a b Hh Hif Hk Hex Ha Hb.
  destruct (remove_deleted_preserves dflt D t a b Hif Hk Hex Ha Hb) as (Ht & Hp).
  pose proof (remove_deleted_has_lens D t Hh) as Hh'.
  destruct (prune_preserves dflt (remove_deleted D t) a b Hh') as (Hpt & Hpp).
  split.
  - rewrite <- Ht. exact Hpt.
  - rewrite Hpp. exact Hp.
Qed.

(* ------------------------------------------------------------------ (4) no spurious tips *)

Theorem remove_deleted_no_new_tip : forall D t,
  internal_free D t = true ->
  forall x, In x (tips_of (kids (remove_deleted D t))) -> In x (tips t) /\ ~ In x D.
Proof.
  intros D t Hif x Hx. rewrite (remove_deleted_kids_tips D t Hif) in Hx.
  apply filter_In in Hx. destruct Hx as [Hx Hkx].
  unfold kept in Hkx. apply negb_true_iff in Hkx. apply memb_false_In in Hkx.
  split; [|exact Hkx].
  destruct t as [n l cs]. cbn [kids] in Hx. destruct cs as [|c0 cs]; [contradiction|].
  rewrite tips_node by congruence. exact Hx.
Qed.

(* ------------------------------------------------------------------ (5) topology *)

Definition rd_topo_inv (D : list name) (c : tree) : Prop :=
  okc D c = true ->
  sim (kidcuts (rd D c)) (map (filter (kept D)) (tips c :: cuts c)).

Lemma rd_kids_topo D cs :
  Forall (rd_topo_inv D) cs -> forallb (okc D) cs = true ->
  sim (cuts_of (rd_kids D cs)) (map (filter (kept D)) (cuts_of cs)).
Proof.
  induction 1 as [|c cs Hc _ IH]; intros Hg.
  - apply sim_nil_nil.
  - cbn [forallb] in Hg. apply andb_true_iff in Hg. destruct Hg as [Hgc Hgcs].
    rewrite rd_kids_cons, cuts_of_app, cuts_of_opt.
    change (cuts_of (c :: cs)) with ((tips c :: cuts c) ++ cuts_of cs).
    rewrite map_app. apply sim_app; [apply Hc; exact Hgc|apply IH; exact Hgcs].
Qed.

Lemma rd_topo_all D c : rd_topo_inv D c.
Proof.
  induction c as [n l cs IH] using tree_ind'. intros Hok.
  pose proof (rd_inv_all 0 D (Node n l cs) Hok) as Hinv.
  unfold okc in Hok. apply andb_true_iff in Hok. destruct Hok as [Hnm Hif].
  cbn [tname] in Hnm. rewrite internal_free_node in Hif.
  rewrite rd_unfold in *. destruct (memb n D) eqn:En.
  - cbn [negb] in Hnm. rewrite orb_false_r in Hnm.
    destruct cs as [|c0 cs]; [|discriminate].
    cbn [kidcuts tips cuts flat_map map filter]. unfold kept. rewrite En. cbn [negb].
    apply sim_cons_nil. apply sim_nil_nil.
  - destruct cs as [|c0 cs].
    + cbn [rd_kids flat_map kidcuts tips cuts map filter]. unfold kept. rewrite En. cbn [negb].
      apply sim_refl.
    + set (cs' := c0 :: cs) in *.
      pose proof (rd_kids_topo D cs' IH Hif) as Hk.
      rewrite cuts_node. cbn [map].
      destruct (rd_kids D cs') as [|x sub] eqn:Ek.
      * subst cs'. cbn [kidcuts]. rewrite Hinv. apply sim_cons_nil. exact Hk.
      * subst cs'. destruct Hinv as (Ht & _). cbn [kidcuts].
        rewrite <- Ht. rewrite cuts_node. apply sim_cons. exact Hk.
Qed.

Lemma rd_topo_Forall D cs : Forall (rd_topo_inv D) cs.
Proof. apply Forall_forall. intros c _. apply rd_topo_all. Qed.

(** every cut of the result is the filtered cut of an original node, and every
    filtered original cut is empty or a cut of the result *)
Theorem remove_deleted_cuts_sim : forall D t,
  internal_free D t = true ->
  sim (cuts (remove_deleted D t)) (map (filter (kept D)) (cuts t)).
Proof.
  intros D t Hif. rewrite internal_free_kids in Hif.
  unfold remove_deleted. rewrite cuts_node, (cuts_kids t).
  apply rd_kids_topo; [apply rd_topo_Forall|exact Hif].
Qed.

(** holds for every reference tip set [U], in particular the tips of the result *)
Theorem remove_deleted_topology_gen : forall U D t,
  internal_free D t = true ->
  splits_eq U (map (filter (kept D)) (cuts t)) (cuts (remove_deleted D t)).
Proof.
  intros U D t Hif. apply splits_eq_sym. apply sim_splits_eq.
  apply remove_deleted_cuts_sim. exact Hif.
Qed.

Theorem remove_deleted_topology : forall D t,
  internal_free D t = true -> kids t <> [] ->
  (exists x, In x (tips t) /\ ~ In x D) ->
  splits_eq (tips (remove_deleted D t)) (map (filter (kept D)) (cuts t)) (cuts (remove_deleted D t)).
Proof. intros D t Hif _ _. apply remove_deleted_topology_gen. exact Hif. Qed.

Lemma filtered_cuts_inU (p : name -> bool) t :
  inU (filter p (tips t)) (map (filter p) (cuts t)).
Proof.
  unfold inU. apply Forall_forall. intros c Hc. apply in_map_iff in Hc.
  destruct Hc as (c0 & <- & Hc0). intros x Hx. apply filter_In in Hx. destruct Hx as [Hx Hp].
  apply filter_In. split; [|exact Hp].
  exact (inU_In (tips t) (cuts t) c0 (cuts_inU t) Hc0 x Hx).
Qed.

Theorem remove_deleted_then_prune_topology : forall D t,
  has_lens t = true -> internal_free D t = true -> kids t <> [] ->
  (exists x, In x (tips t) /\ ~ In x D) ->
  splits_eq (tips (prune (remove_deleted D t)))
            (map (filter (kept D)) (cuts t)) (cuts (prune (remove_deleted D t))).
Proof.
  intros D t Hh Hif Hk Hex.
  destruct Hex as (x & Hx & HxD).
  destruct (remove_deleted_preserves 0 D t x x Hif Hk (ex_intro _ x (conj Hx HxD)) HxD HxD)
    as (Ht & _).
  pose proof (remove_deleted_has_lens D t Hh) as Hh'.
  destruct (prune_preserves 0 (remove_deleted D t) x x Hh') as (Hpt & _).
  set (r := remove_deleted D t) in *.
  apply splits_eq_seteq_U with (tips r).
  { apply perm_seteq. apply Permutation_sym. exact Hpt. }
  apply splits_eq_trans with (cuts r).
  - rewrite Ht. apply filtered_cuts_inU.
  - apply cuts_inU.
  - apply inU_seteq_U with (tips (prune r)); [apply perm_seteq; exact Hpt|apply cuts_inU].
  - apply remove_deleted_topology_gen. exact Hif.
  - apply prune_topology.
Qed.

(* ------------------------------------------------------------------ example *)

Definition rd_ex_t : tree :=
  Node [114] None
    [Node [97] (Some 1) [];
     Node [99; 100; 101; 102] (Some 2)
       [Node [99; 100] (Some 1) [Node [99] (Some 1) []; Node [100] (Some 1) []];
        Node [101; 102] (Some 1) [Node [101] (Some 1) []; Node [102] (Some 1) []]];
     Node [98] (Some 3) []].

Definition rd_ex_D : list name := [[99]; [100]; [101]; [102]].

Example remove_deleted_ex :
  remove_deleted rd_ex_D rd_ex_t =
    Node [114] None [Node [97] (Some 1) []; Node [98] (Some 3) []] /\
  tips (remove_deleted rd_ex_D rd_ex_t) = [[97]; [98]] /\
  internal_free rd_ex_D rd_ex_t = true /\
  has_lens rd_ex_t = true /\
  kids rd_ex_t <> [] /\
  (exists x, In x (tips rd_ex_t) /\ ~ In x rd_ex_D) /\
  pathlen 1 (remove_deleted rd_ex_D rd_ex_t) [97] [98] = 4 /\
  pathlen 1 rd_ex_t [97] [98] = 4.
Proof.
  repeat split; try (vm_compute; congruence).
  exists [97]. split; [vm_compute; auto|].
  apply memb_false_In. reflexivity.
Qed.
