(** C12 — definitions of the finite degenerate-codon check (kept apart so that the two expensive
    evaluations in GeneticCodeDegenA/B.v only depend on the model, the specification and this file). *)
From CG3 Require Import Lib.PyZ Lib.Val Model.GeneticCode Spec.GeneticCodeSpec Proofs.GeneticCodeProofs.
From CG3gen Require Import GCTables.

Definition iupac_syms : list Z := map fst iupac_dna.
Definition option_Z_eqb (a b : option Z) : bool :=
  match a, b with Some x, Some y => x =? y | None, None => true | _, _ => false end.
Lemma option_Z_eqb_sound a b : option_Z_eqb a b = true -> a = b.
Proof. destruct a, b; cbn; try discriminate; intros H; [f_equal; lia|reflexivity]. Qed.


(** every code x 15^3 codons of IUPAC symbols, for one value of include_stop (incomplete_ok = false;
    it is irrelevant by [old_codon_ok_irrelevant]); evaluated in Proofs/GeneticCodeDegenA/B.v *)
Definition degenerate_check (inc : bool) (e : Z * list Z * list Z) : bool :=
  forallb (fun w => option_Z_eqb (ropt (old_codon (snd (fst e)) false inc w))
                                 (degenerate_codon_spec (ncbi_tbl (fst (fst e))) inc w)) (product3 iupac_syms).

