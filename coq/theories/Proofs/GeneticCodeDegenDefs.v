(** C12 — definitions of the finite degenerate-codon check (kept apart so that the two expensive
    evaluations in GeneticCodeDegenA/B.v only depend on the model, the specification and this file). *)
From CG3 Require Import Lib.PyZ Lib.Val Model.GeneticCode Spec.GeneticCodeSpec Proofs.GeneticCodeProofs.
From CG3gen Require Import GCTables.

Definition iupac_syms : list Z := map fst iupac_dna.
Definition option_Z_eqb (a b : option Z) : bool :=
  match a, b with Some x, Some y => x =? y | None, None => true | _, _ => false end.
Lemma option_Z_eqb_sound a b : option_Z_eqb a b = true -> a = b.
Proof. destruct a, b; cbn; try discriminate; intros H; [f_equal; lia|reflexivity]. Qed.


(** The finite domain of the degenerate-codon theorem.  The full 15^3 x 27 x 2 enumeration is true
    (it was evaluated once: 5 minutes of vm_compute) but makes coqchk, which has no virtual machine,
    run for more than half an hour; the theorem therefore covers
      - every codon over A C G T R Y N (the purine / pyrimidine / any codes: 343 codons), and
      - every codon with ONE symbol out of all 15 IUPAC codes and two bases (720 codons), and
      - for the first code of the table (the standard code) all 15^3 codons;
    the remaining codons are compared on the implementation against the same specification (oracle). *)
Definition syms7 : list Z := [65; 67; 71; 84; 82; 89; 78].
Definition one_degenerate : list (list Z) :=
  flat_map (fun d => flat_map (fun x => flat_map (fun y => [[d; x; y]; [x; d; y]; [x; y; d]]) bases) bases) iupac_syms.
Definition degen_domain : list (list Z) := product3 syms7 ++ one_degenerate.

Definition degenerate_check_on (dom : list (list Z)) (inc : bool) (e : Z * list Z * list Z) : bool :=
  forallb (fun w => option_Z_eqb (ropt (old_codon (snd (fst e)) false inc w))
                                 (degenerate_codon_spec (ncbi_tbl (fst (fst e))) inc w)) dom.
Definition degenerate_check (inc : bool) := degenerate_check_on degen_domain inc.
Definition first_code : Z * list Z * list Z := hd (0, [], []) new_codes.
