From CG3 Require Import Lib.PyZ Lib.Val Model.IndelMap Model.IndelMapFixed Model.NumpyPrims Spec.IndelMapSpec.
From CG3 Require Import Proofs.IndelMapProofs Proofs.IndelMapGenEq.
From CG3gen Require Import IndelMapGen.
Import G.

Local Open Scope Z_scope.

(** * [gap_coords_to_map] *)

Theorem gap_coords_to_map_eq gl n : g_gap_coords_to_map gl n = gap_coords_to_map gl n.
Proof.
  unfold g_gap_coords_to_map, gap_coords_to_map. change g_post_init_len with post_init_lengths.
  destruct (zlen gl =? 0) eqn:En; cbn [negb].
  - assert (Hnil : gl = []) by (apply zlen_0_nil; lia). subst gl. reflexivity.
  - reflexivity.
Qed.

(** * [from_aligned_segments] *)

Lemma sub2_trunc gs : forall cum, zlen gs < zlen cum -> sub2 gs (zslice cum 0 (zlen cum - 1)) = sub2 gs cum.
Proof.
  induction gs as [|q gs IH]; intros cum Hl.
  - reflexivity.
  - destruct cum as [|c cum]; [znil; pose proof (zlen_nonneg (q :: gs)); lia|].
    rewrite !zlen_cons in Hl. rewrite (zlen_cons c cum). pose proof (zlen_nonneg gs) as Hn.
    rewrite zslice_cons_0 by lia. cbn [sub2]. f_equal.
    replace (1 + zlen cum - 1 - 1) with (zlen cum - 1) by lia. apply IH. lia.
Qed.

Lemma sub2_cons_0 gs cum : zlen gs = zlen cum ->
  firstn 1 gs ++ sub2 (skipn 1 gs) (zslice cum 0 (zlen cum - 1)) = sub2 gs (0 :: cum).
Proof.
  destruct gs as [|p gs]; intros Hl.
  - reflexivity.
  - cbn [sub2 firstn skipn app]. f_equal; [lia|]. apply sub2_trunc. rewrite zlen_cons in Hl. lia.
Qed.

Lemma map_fst_swap (l : list (Z * Z)) : map fst (map (fun r => (snd r, fst r)) l) = map snd l.
Proof. rewrite map_map. reflexivity. Qed.

Lemma map_snd_swap (l : list (Z * Z)) : map snd (map (fun r => (snd r, fst r)) l) = map fst l.
Proof. rewrite map_map. reflexivity. Qed.

Lemma sub2_map (l : list (Z * Z)) : sub2 (map snd l) (map fst l) = map (fun p => snd p - fst p) l.
Proof. induction l as [|x l IH]; [reflexivity|]. cbn [map sub2]. now rewrite IH. Qed.

Lemma np_row_last l : snd (np_row l (-1)) = last_end l.
Proof.
  unfold np_row, last_end. change (-1 <? 0) with true. cbv iota.
  destruct l as [|x l] using rev_ind.
  - reflexivity.
  - rewrite rev_app_distr. cbn [rev app]. destruct x as (a, b).
    rewrite zlen_app, zlen_cons. change (zlen (@nil (Z * Z))) with 0.
    replace (Z.to_nat (zlen l + (1 + 0) + -1)) with (length l) by (unfold zlen; lia).
    rewrite app_nth2 by lia. replace (length l - length l)%nat with O by lia. reflexivity.
Qed.

Theorem from_aligned_segments_eq locs n : g_from_aligned_segments locs n = from_aligned_segments locs n.
Proof.
  unfold g_from_aligned_segments, from_aligned_segments. norm.
  destruct locs as [|(s0, e0) tl].
  - reflexivity.
  - pose proof (zlen_nonneg tl) as Hn.
    assert (Ez : (zlen ((s0, e0) :: tl) =? 0) = false) by (rewrite zlen_cons; lia).
    rewrite Ez. cbn [negb orb].
    change (np_row ((s0, e0) :: tl) 0) with (s0, e0). cbn [fst snd].
    change g_post_init_cum with post_init.
    destruct ((zlen ((s0, e0) :: tl) =? 1) && (s0 =? 0) && (e0 =? n)) eqn:Eone; [reflexivity|].
    cbn [app]. rewrite np_row_last.
    set (l1 := if negb (s0 =? 0) then (0, 0) :: (s0, e0) :: tl else (s0, e0) :: tl).
    set (l2 := if last_end l1 <? n then l1 ++ [(n, n)] else l1).
    set (gc := pair_up (zslice (flatten_pairs l2) 1 (zlen (flatten_pairs l2) - 1))).
    rewrite map_fst_swap, map_snd_swap, sub2_map.
    set (cum := cumsum (map (fun p : Z * Z => snd p - fst p) gc)).
    rewrite sub2_cons_0.
    + reflexivity.
    + subst cum. unfold cumsum. rewrite zlen_cumsum_from, !zlen_map. reflexivity.
Qed.

(** * [joined_segments] *)

(** ** the three local loops of the generated code, restated *)

(** filling the two result arrays from the sorted items, then the constructor *)
Definition js_fill (plen : Z) : Z -> list (Z * Z) -> list Z -> list Z -> res imap :=
  fix loop (i : Z) (xs : list (Z * Z)) (cl gp : list Z) {struct xs} : res imap :=
    match xs with
    | [] => g_post_init_cum gp cl plen
    | (pos, length) :: xs' => loop (i + 1) xs' (np_set cl i length) (np_set gp i pos)
    end.

(** the index loop over the gaps of one slice, with what follows it as [k] *)
Definition js_gaps (im : imap) (cum_length cum_parent_length : Z) (k : list (Z * Z) -> res imap)
  : Z -> list Z -> list (Z * Z) -> res imap :=
  fix loop (c : Z) (xs : list Z) (gaps : list (Z * Z)) {struct xs} : res imap :=
    match xs with
    | [] => k gaps
    | i :: xs' =>
        loop (c + 1) xs'
          (np_dict_set gaps (pyget (gap_pos im) i + cum_parent_length)
             (np_dict_get gaps (pyget (gap_pos im) i + cum_parent_length) cum_length
              + pyget (cum_gap_lengths im) i))
    end.

(** the loop over the coordinate pairs *)
Definition js_outer (m : imap) : Z -> list (Z * Z) -> Z -> Z -> list (Z * Z) -> res imap :=
  fix loop (c : Z) (xs : list (Z * Z)) (cum_length cum_parent_length : Z) (gaps : list (Z * Z))
      {struct xs} : res imap :=
    match xs with
    | [] => js_fill cum_parent_length 0 (sort_pairs gaps) (np_empty (zlen gaps)) (np_empty (zlen gaps))
    | (s, e) :: xs' =>
        bind (g_getitem_slice m (Some s) (Some e)) (fun im =>
          js_gaps im cum_length cum_parent_length
            (fun gaps' =>
               loop (c + 1) xs'
                 (if negb (num_gaps im =? 0) then cum_length + pyget (cum_gap_lengths im) (-1) else cum_length)
                 (cum_parent_length + parent_length im) gaps')
            0 (zrange 0 (num_gaps im)) gaps)
    end.

Lemma g_joined_segments_unfold m cs : g_joined_segments m cs = js_outer m 0 (sort_pairs cs) 0 0 [].
Proof. reflexivity. Qed.

(** ** the fill loop *)

Lemma split_snoc' {A} (pre : list A) x post : pre ++ x :: post = (pre ++ [x]) ++ post.
Proof. now rewrite <- app_assoc. Qed.

Lemma np_set_mid pre : forall x post i v, zlen pre = i -> np_set (pre ++ x :: post) i v = pre ++ v :: post.
Proof.
  induction pre as [|p pre IH]; intros x post i v Hi.
  - change (zlen (@nil Z)) with 0 in Hi. subst i. reflexivity.
  - rewrite zlen_cons in Hi. pose proof (zlen_nonneg pre) as Hn. cbn [app np_set].
    destruct (i =? 0) eqn:Ei; [lia|]. f_equal. apply IH. lia.
Qed.

Lemma js_fill_inv plen : forall xs i pre_c rest_c pre_p rest_p,
  zlen pre_c = i -> zlen pre_p = i -> zlen rest_c = zlen xs -> zlen rest_p = zlen xs ->
  js_fill plen i xs (pre_c ++ rest_c) (pre_p ++ rest_p) =
  post_init (pre_p ++ map fst xs) (pre_c ++ map snd xs) plen.
Proof.
  induction xs as [|(pos, v) xs IH]; intros i pre_c rest_c pre_p rest_p Hc Hp Hrc Hrp.
  - change (zlen (@nil (Z * Z))) with 0 in Hrc, Hrp.
    apply zlen_0_nil in Hrc. apply zlen_0_nil in Hrp. subst rest_c rest_p. reflexivity.
  - rewrite zlen_cons in Hrc, Hrp. pose proof (zlen_nonneg xs) as Hn.
    destruct rest_c as [|c rest_c]; [change (zlen (@nil Z)) with 0 in Hrc; lia|].
    destruct rest_p as [|p rest_p]; [change (zlen (@nil Z)) with 0 in Hrp; lia|].
    rewrite zlen_cons in Hrc, Hrp.
    change (js_fill plen i ((pos, v) :: xs) (pre_c ++ c :: rest_c) (pre_p ++ p :: rest_p))
      with (js_fill plen (i + 1) xs (np_set (pre_c ++ c :: rest_c) i v) (np_set (pre_p ++ p :: rest_p) i pos)).
    rewrite (np_set_mid pre_c c rest_c i v Hc), (np_set_mid pre_p p rest_p i pos Hp).
    rewrite (split_snoc' pre_c v rest_c), (split_snoc' pre_p pos rest_p).
    rewrite (IH (i + 1) (pre_c ++ [v]) rest_c (pre_p ++ [pos]) rest_p).
    + cbn [map fst snd]. rewrite <- !app_assoc. reflexivity.
    + rewrite zlen_app, zlen_cons. change (zlen (@nil Z)) with 0. lia.
    + rewrite zlen_app, zlen_cons. change (zlen (@nil Z)) with 0. lia.
    + lia.
    + lia.
Qed.

Lemma length_insert_pair x l : length (insert_pair x l) = S (length l).
Proof.
  induction l as [|y l IH]; [reflexivity|]. cbn [insert_pair].
  destruct ((fst x <? fst y) || ((fst x =? fst y) && (snd x <=? snd y))); cbn [length]; [reflexivity|now rewrite IH].
Qed.

Lemma length_sort_pairs l : length (sort_pairs l) = length l.
Proof.
  induction l as [|x l IH]; [reflexivity|]. unfold sort_pairs in *. cbn [fold_right].
  rewrite length_insert_pair. now rewrite IH.
Qed.

Lemma js_fill_eq plen gaps :
  js_fill plen 0 (sort_pairs gaps) (np_empty (zlen gaps)) (np_empty (zlen gaps)) =
  post_init (map fst (sort_pairs gaps)) (map snd (sort_pairs gaps)) plen.
Proof.
  assert (Hl : zlen (np_empty (zlen gaps)) = zlen (sort_pairs gaps)).
  { unfold np_empty. rewrite zlen_repeat. unfold zlen. rewrite length_sort_pairs. lia. }
  apply (js_fill_inv plen (sort_pairs gaps) 0 [] (np_empty (zlen gaps)) [] (np_empty (zlen gaps))); auto.
Qed.

(** ** the dict update and the index loop over one slice *)

Lemma np_dict_add d : forall k dflt v, np_dict_set d k (np_dict_get d k dflt + v) = dict_add k dflt v d.
Proof.
  induction d as [|(k', x) d IH]; intros k dflt v.
  - reflexivity.
  - cbn [np_dict_set np_dict_get dict_add]. destruct (k' =? k) eqn:Ek; [reflexivity|]. now rewrite IH.
Qed.

Lemma js_gaps_inv im cl cpl k : forall xs_p xs_c pre_p pre_c i c gaps,
  gap_pos im = pre_p ++ xs_p -> cum_gap_lengths im = pre_c ++ xs_c ->
  zlen pre_p = i -> zlen pre_c = i -> length xs_p = length xs_c ->
  js_gaps im cl cpl k c (zrange_aux i (length xs_p)) gaps = k (join_gaps xs_p xs_c cpl cl gaps).
Proof.
  induction xs_p as [|p xs_p IH]; intros xs_c pre_p pre_c i c gaps Hgp Hcum Hp Hc Hlen.
  - reflexivity.
  - destruct xs_c as [|v xs_c]; [discriminate|]. cbn [length] in Hlen. injection Hlen as Hlen.
    cbn [length zrange_aux join_gaps].
    change (js_gaps im cl cpl k c (i :: zrange_aux (i + 1) (length xs_p)) gaps)
      with (js_gaps im cl cpl k (c + 1) (zrange_aux (i + 1) (length xs_p))
              (np_dict_set gaps (pyget (gap_pos im) i + cpl)
                 (np_dict_get gaps (pyget (gap_pos im) i + cpl) cl + pyget (cum_gap_lengths im) i))).
    pose proof (zlen_nonneg pre_p) as Hn.
    assert (Ep : pyget (gap_pos im) i = p).
    { rewrite Hgp, pyget_nonneg by lia. rewrite znth_app_r by lia. replace (i - zlen pre_p) with 0 by lia. apply znth_0. }
    assert (Ev : pyget (cum_gap_lengths im) i = v).
    { rewrite Hcum, pyget_nonneg by lia. rewrite znth_app_r by lia. replace (i - zlen pre_c) with 0 by lia. apply znth_0. }
    rewrite Ep, Ev, np_dict_add.
    apply (IH xs_c (pre_p ++ [p]) (pre_c ++ [v]) (i + 1)).
    + rewrite Hgp. apply split_snoc'.
    + rewrite Hcum. apply split_snoc'.
    + rewrite zlen_app, zlen_cons. change (zlen (@nil Z)) with 0. lia.
    + rewrite zlen_app, zlen_cons. change (zlen (@nil Z)) with 0. lia.
    + exact Hlen.
Qed.

Lemma js_gaps_eq im cl cpl k gaps : LenOK im ->
  js_gaps im cl cpl k 0 (zrange 0 (num_gaps im)) gaps =
  k (join_gaps (gap_pos im) (cum_gap_lengths im) cpl cl gaps).
Proof.
  intros Hl. unfold LenOK, zlen in Hl. unfold zrange, num_gaps.
  replace (Z.to_nat (zlen (gap_pos im) - 0)) with (length (gap_pos im)) by (unfold zlen; lia).
  apply (js_gaps_inv im cl cpl k (gap_pos im) (cum_gap_lengths im) [] [] 0 0 gaps); auto. lia.
Qed.

(** ** the slices: every map returned by [getitem_slice] comes out of the constructor *)

Lemma bind_LenOK {A} (x : res A) (f : A -> res imap) im :
  (forall a r, f a = Ok r -> LenOK r) -> bind x f = Ok im -> LenOK im.
Proof. intros Hf. destruct x as [a|e]; cbn [bind]; [apply Hf|discriminate]. Qed.

Lemma getitem_slice_LenOK m oa ob im : getitem_slice m oa ob = Ok im -> LenOK im.
Proof.
  unfold getitem_slice. norm.
  repeat match goal with
  | |- post_init _ _ _ = Ok _ -> _ => apply post_init_LenOK
  | |- post_init_lengths _ _ _ = Ok _ -> _ => apply post_init_LenOK
  | |- Err _ = Ok _ -> _ => discriminate
  | |- bind _ _ = Ok _ -> _ => apply bind_LenOK; intros ? ?
  | |- (let '(_, _) := ?p in _) = Ok _ -> _ => destruct p as [? ?] eqn:?; norm
  | |- (if ?c then _ else _) = Ok _ -> _ => destruct c; norm
  end.
Qed.

(** the corrected [__getitem__] differs from the pinned one only when the stop lies beyond the end *)
Lemma getitem_slice_v2_pinned m s e : e <= len m ->
  getitem_slice_v2 m (Some s) (Some e) = getitem_slice m (Some s) (Some e).
Proof.
  intros He. unfold getitem_slice_v2. norm.
  set (a := if s >=? 0 then s else len m + s). set (b := if e >=? 0 then e else len m + e).
  destruct (Z.min a b <? 0) eqn:Emin.
  - unfold getitem_slice. norm. fold a. fold b. rewrite Emin. reflexivity.
  - assert (Hb : Z.min b (len m) = b) by (subst b; destruct (e >=? 0) eqn:E; lia).
    rewrite Hb. unfold getitem_slice. norm. fold a. fold b.
    assert (Ea : (a >=? 0) = true) by lia. assert (Eb : (b >=? 0) = true) by lia.
    rewrite Ea, Eb. reflexivity.
Qed.

(** ** the loop over the coordinate pairs *)

Definition js_finish (r : list (Z * Z) * Z) : res imap :=
  let '(gaps, plen) := r in
  let items := sort_pairs gaps in
  post_init (map fst items) (map snd items) plen.

Lemma js_outer_inv m : LenOK m -> 0 <= len m -> forall xs c cl cpl gaps,
  Forall (fun se : Z * Z => snd se <= len m) xs ->
  js_outer m c xs cl cpl gaps = bind (join_loop m xs gaps cl cpl) js_finish.
Proof.
  intros Hl Hlen. induction xs as [|(s, e) xs IH]; intros c cl cpl gaps Hall.
  - change (js_outer m c [] cl cpl gaps)
      with (js_fill cpl 0 (sort_pairs gaps) (np_empty (zlen gaps)) (np_empty (zlen gaps))).
    rewrite js_fill_eq. reflexivity.
  - inversion Hall as [|se xs' Hse Hall']. subst se xs'. cbn [snd] in Hse.
    change (js_outer m c ((s, e) :: xs) cl cpl gaps)
      with (bind (g_getitem_slice m (Some s) (Some e)) (fun im =>
              js_gaps im cl cpl
                (fun gaps' =>
                   js_outer m (c + 1) xs
                     (if negb (num_gaps im =? 0) then cl + pyget (cum_gap_lengths im) (-1) else cl)
                     (cpl + parent_length im) gaps')
                0 (zrange 0 (num_gaps im)) gaps)).
    cbn [join_loop].
    rewrite (getitem_slice_eq m (Some s) (Some e) Hl Hlen), (getitem_slice_v2_pinned m s e Hse).
    destruct (getitem_slice m (Some s) (Some e)) as [im|err] eqn:Eim; cbn [bind]; [|reflexivity].
    rewrite (js_gaps_eq im cl cpl _ gaps (getitem_slice_LenOK m _ _ im Eim)).
    rewrite (IH (c + 1) _ _ _ Hall'). norm. unfold zlast.
    destruct (num_gaps im =? 0); reflexivity.
Qed.

Lemma Forall_insert_pair (P : Z * Z -> Prop) x l : P x -> Forall P l -> Forall P (insert_pair x l).
Proof.
  intros Hx Hl. induction Hl as [|y l Hy Hl IH]; cbn [insert_pair].
  - constructor; [exact Hx|constructor].
  - destruct ((fst x <? fst y) || ((fst x =? fst y) && (snd x <=? snd y))).
    + constructor; [exact Hx|]. constructor; assumption.
    + constructor; assumption.
Qed.

Lemma Forall_sort_pairs (P : Z * Z -> Prop) l : Forall P l -> Forall P (sort_pairs l).
Proof.
  intros Hl. induction Hl as [|x l Hx Hl IH]; [constructor|].
  unfold sort_pairs in *. cbn [fold_right]. now apply Forall_insert_pair.
Qed.

(** the generated [joined_segments] is the model's as soon as no stop coordinate lies beyond the
    end of the map (there the generated code calls the corrected [__getitem__], which clamps the
    stop, the model the pinned one); the starts and the signs of the coordinates are free *)
Theorem joined_segments_eq_gen m cs : LenOK m -> 0 <= len m ->
  Forall (fun se : Z * Z => snd se <= len m) cs ->
  g_joined_segments m cs = joined_segments m cs.
Proof.
  intros Hl Hlen Hall. rewrite g_joined_segments_unfold.
  rewrite (js_outer_inv m Hl Hlen (sort_pairs cs) 0 0 0 [] (Forall_sort_pairs _ cs Hall)).
  reflexivity.
Qed.

Theorem joined_segments_eq m cs : WF m ->
  Forall (fun se : Z * Z => 0 <= fst se /\ 0 <= snd se <= len m) cs ->
  g_joined_segments m cs = joined_segments m cs.
Proof.
  intros Hwf Hall. apply joined_segments_eq_gen; [now apply WF_LenOK|now apply WF_len_nonneg|].
  apply (Forall_impl _ (P := fun se : Z * Z => 0 <= fst se /\ 0 <= snd se <= len m)); [|exact Hall].
  intros se Hse. lia.
Qed.
