(** C08 — general (unbounded) proofs about the FeatureMap model against its
    meaning (Spec/FeatureMapSpec.v).  The statements are the ones checked by
    enumeration in Proofs/FeatureMapBounded.v. *)
From CG3 Require Import Lib.PyZ Lib.Val Model.IndelMap Model.FeatureMap Spec.FeatureMapSpec Proofs.IndelMapProofs Proofs.FeatureMapBounded.

Local Open Scope Z_scope.

(** * Part 0: ranges, denotation lengths *)

Lemma zrange_nil a b : b <= a -> zrange a b = [].
Proof. intros. unfold zrange. replace (Z.to_nat (b - a)) with O by lia. reflexivity. Qed.

Lemma zrange_cons a b : a < b -> zrange a b = a :: zrange (a + 1) b.
Proof.
  intros. unfold zrange. replace (Z.to_nat (b - a)) with (S (Z.to_nat (b - (a + 1)))) by lia. reflexivity.
Qed.

Lemma zrange_aux_app s n m : zrange_aux s (n + m) = zrange_aux s n ++ zrange_aux (s + Z.of_nat n) m.
Proof.
  revert s. induction n as [|n IH]; intros s.
  - cbn [plus zrange_aux app]. f_equal. lia.
  - cbn [plus zrange_aux app]. f_equal. rewrite IH. do 2 f_equal. lia.
Qed.

Lemma zrange_split a b c : a <= b -> b <= c -> zrange a c = zrange a b ++ zrange b c.
Proof.
  intros. unfold zrange. replace (Z.to_nat (c - a)) with (Z.to_nat (b - a) + Z.to_nat (c - b))%nat by lia.
  rewrite zrange_aux_app. do 2 f_equal. lia.
Qed.

Lemma zrange_snoc a b : a <= b -> zrange a (b + 1) = zrange a b ++ [b].
Proof.
  intros. rewrite (zrange_split a b (b + 1)) by lia. f_equal.
  rewrite zrange_cons by lia. rewrite zrange_nil by lia. reflexivity.
Qed.

Lemma zlen_zrange a b : a <= b -> zlen (zrange a b) = b - a.
Proof. intros. unfold zlen, zrange. rewrite zrange_aux_length. lia. Qed.

Lemma znth_zrange_aux d n : forall s i, 0 <= i < Z.of_nat n -> znth d (zrange_aux s n) i = s + i.
Proof.
  induction n as [|n IH]; intros s i Hi; [lia|]. cbn [zrange_aux].
  destruct (Z.eq_dec i 0) as [->|Hne]; [rewrite znth_0; lia|].
  rewrite znth_pos by lia. rewrite IH by lia. lia.
Qed.

Lemma znth_zrange d a b i : 0 <= i < b - a -> znth d (zrange a b) i = a + i.
Proof. intros. unfold zrange. apply znth_zrange_aux. lia. Qed.

Lemma zlen_den_span plen sp : span_in plen sp = true -> zlen (den_span sp) = slen sp.
Proof.
  destruct sp as [s e r|n]; cbn [span_in den_span slen]; intros H.
  - destruct r; [rewrite zlen_rev|]; rewrite zlen_map, zlen_zrange; lia.
  - rewrite zlen_repeat. lia.
Qed.

Lemma slen_nonneg plen sp : span_in plen sp = true -> 0 <= slen sp.
Proof. destruct sp; cbn [span_in slen]; lia. Qed.

Lemma mk_span_id s e r : s <= e -> mk_span s e r = FS s e r.
Proof. intros. unfold mk_span. destruct (s >? e) eqn:E; [lia|reflexivity]. Qed.

Lemma fold_slen l : forall a, fold_left (fun a sp => a + slen sp) l a = a + fold_right (fun sp a => slen sp + a) 0 l.
Proof.
  induction l as [|x l IH]; intros a; cbn [fold_left fold_right]; [lia|]. rewrite IH. lia.
Qed.

Definition dlen (l : list fspan) : Z := zlen (flat_map den_span l).

Lemma dlen_nil : dlen [] = 0.
Proof. reflexivity. Qed.

Lemma dlen_cons plen x l : span_in plen x = true -> dlen (x :: l) = slen x + dlen l.
Proof. intros. unfold dlen. cbn [flat_map]. rewrite zlen_app. now rewrite (zlen_den_span plen). Qed.

Lemma dlen_app a b : dlen (a ++ b) = dlen a + dlen b.
Proof. unfold dlen. rewrite flat_map_app, zlen_app. reflexivity. Qed.

Lemma dlen_nonneg l : 0 <= dlen l.
Proof. apply zlen_nonneg. Qed.

Lemma flen_dlen fm : in_parent fm = true -> flen fm = zlen (den fm).
Proof.
  unfold in_parent, flen, den. rewrite fold_slen. generalize (fplen fm) as plen. intros plen.
  induction (fspans fm) as [|x l IH]; cbn [forallb fold_right flat_map]; intros H; [reflexivity|].
  apply andb_prop in H. destruct H as (Hx & Hl). rewrite zlen_app, (zlen_den_span plen) by exact Hx.
  specialize (IH Hl). lia.
Qed.

(** * Part 1: structural operations *)

(** ** [__mul__] *)

Lemma span_mul_in plen sp k : span_in plen sp = true -> 1 <= k -> span_in (plen * k) (span_mul sp k) = true.
Proof.
  destruct sp as [s e r|n]; cbn [span_in span_mul]; intros H Hk.
  - assert (0 <= s /\ s <= e /\ e <= plen) as (H1 & H2 & H3) by lia.
    assert (0 <= s * k) by (apply Z.mul_nonneg_nonneg; lia).
    assert (s * k <= e * k) by (apply Z.mul_le_mono_nonneg_r; lia).
    assert (e * k <= plen * k) by (apply Z.mul_le_mono_nonneg_r; lia).
    rewrite mk_span_id by assumption. cbn [span_in]. lia.
  - assert (0 <= n) by lia. assert (0 <= n * k) by (apply Z.mul_nonneg_nonneg; lia). lia.
Qed.

Theorem fm_mul_in_parent fm k : in_parent fm = true -> 1 <= k -> in_parent (fm_mul fm k) = true.
Proof.
  unfold in_parent, fm_mul. cbn [fspans fplen]. intros H Hk.
  rewrite forallb_forall in *. intros x Hx. apply in_map_iff in Hx. destruct Hx as (sp & <- & Hin).
  apply span_mul_in; auto.
Qed.

(** each cell [p] becomes the block [p*k .. p*k+k-1]; a lost cell becomes [k] lost cells *)
Definition mul_cell (k : Z) (o : option Z) : list (option Z) :=
  match o with
  | Some p => map Some (zrange (p * k) (p * k + k))
  | None => repeat None (Z.to_nat k)
  end.

Lemma zrange_mul k : 1 <= k -> forall n s, flat_map (fun p => zrange (p * k) (p * k + k)) (zrange_aux s n)
                               = zrange (s * k) ((s + Z.of_nat n) * k).
Proof.
  intros Hk. induction n as [|n IH]; intros s.
  - cbn [zrange_aux flat_map]. rewrite zrange_nil by lia. reflexivity.
  - cbn [zrange_aux flat_map]. rewrite IH.
    assert (0 <= Z.of_nat n * k) by (apply Z.mul_nonneg_nonneg; lia).
    replace ((s + 1 + Z.of_nat n) * k) with (s * k + k + Z.of_nat n * k) by ring.
    replace ((s + Z.of_nat (S n)) * k) with (s * k + k + Z.of_nat n * k) by (rewrite Nat2Z.inj_succ; ring).
    replace ((s + 1) * k) with (s * k + k) by ring.
    rewrite (zrange_split (s * k) (s * k + k) (s * k + k + Z.of_nat n * k)) by lia. reflexivity.
Qed.

Lemma flat_map_map {A B C} (f : B -> list C) (g : A -> B) l : flat_map f (map g l) = flat_map (fun x => f (g x)) l.
Proof. induction l as [|x l IH]; [reflexivity|]. cbn [map flat_map]. now rewrite IH. Qed.

Lemma flat_map_map_inner {A B C} (f : B -> C) (g : A -> list B) l :
  flat_map (fun x => map f (g x)) l = map f (flat_map g l).
Proof. induction l as [|x l IH]; [reflexivity|]. cbn [flat_map]. now rewrite map_app, IH. Qed.

Lemma mul_cell_repeat k m : flat_map (mul_cell k) (repeat None m) = repeat None (m * Z.to_nat k).
Proof.
  induction m as [|m IH]; [reflexivity|]. cbn [repeat flat_map Nat.mul mul_cell]. rewrite IH. now rewrite repeat_app.
Qed.

Lemma den_span_mul plen sp k : span_in plen sp = true -> 1 <= k ->
  match sp with FS _ _ true => False | _ => True end ->
  den_span (span_mul sp k) = flat_map (mul_cell k) (den_span sp).
Proof.
  destruct sp as [s e r|n]; cbn [span_in span_mul]; intros H Hk Hf.
  - destruct r; [contradiction|]. rewrite mk_span_id by nia. cbn [den_span].
    rewrite flat_map_map. cbn [mul_cell].
    rewrite (flat_map_map_inner Some (fun p => zrange (p * k) (p * k + k))). f_equal.
    assert (s <= e) by lia. change (zrange s e) with (zrange_aux s (Z.to_nat (e - s))). rewrite (zrange_mul k Hk). rewrite Z2Nat.id by lia. f_equal. ring.
  - cbn [den_span]. rewrite mul_cell_repeat. f_equal. rewrite <- Z2Nat.inj_mul by lia. reflexivity.
Qed.

Theorem fm_mul_den fm k : in_parent fm = true -> all_forward fm = true -> 1 <= k ->
  den (fm_mul fm k) = flat_map (mul_cell k) (den fm).
Proof.
  unfold in_parent, all_forward, den, fm_mul. cbn [fspans fplen]. generalize (fplen fm) as plen. intros plen.
  induction (fspans fm) as [|x l IH]; cbn [forallb map flat_map]; intros H Hf Hk; [reflexivity|].
  apply andb_prop in H. destruct H as (Hx & Hl). apply andb_prop in Hf. destruct Hf as (Hfx & Hfl).
  rewrite flat_map_app. rewrite IH by assumption. f_equal.
  apply (den_span_mul plen); auto. destruct x as [? ? []|]; [discriminate|exact I|exact I].
Qed.

Example fm_mul_example :
  let fm := mk_fmap [FS 1 3 false; FL 1; FS 0 1 false] 4 in
  in_parent fm = true /\ all_forward fm = true /\
  den (fm_mul fm 3) = [Some 3; Some 4; Some 5; Some 6; Some 7; Some 8; None; None; None; Some 0; Some 1; Some 2].
Proof. vm_compute. auto. Qed.

(** ** [without_gaps] *)

Definition is_some (o : option Z) : bool := match o with Some _ => true | None => false end.

Lemma filter_repeat_none n : filter is_some (repeat None n) = [].
Proof. induction n; auto. Qed.

Lemma filter_map_some l : filter is_some (map Some l) = map Some l.
Proof. induction l as [|x l IH]; [reflexivity|]. cbn [map filter is_some]. now rewrite IH. Qed.

Lemma filter_rev {A} (f : A -> bool) l : filter f (rev l) = rev (filter f l).
Proof.
  induction l as [|x l IH]; [reflexivity|]. cbn [rev filter]. rewrite filter_app, IH. cbn [filter].
  destruct (f x); cbn [rev]; [reflexivity|now rewrite app_nil_r].
Qed.

Theorem fm_without_gaps_den fm :
  den (fm_without_gaps fm) = filter (fun o => match o with Some _ => true | None => false end) (den fm).
Proof.
  change (den (fm_without_gaps fm) = filter is_some (den fm)).
  unfold den, fm_without_gaps. cbn [fspans]. induction (fspans fm) as [|x l IH]; [reflexivity|].
  cbn [filter flat_map]. rewrite filter_app, <- IH. destruct x as [s e r|n]; cbn [is_lost negb flat_map].
  - f_equal. cbn [den_span]. destruct r; [rewrite filter_rev|]; now rewrite filter_map_some.
  - cbn [den_span]. now rewrite filter_repeat_none.
Qed.

Theorem fm_without_gaps_in_parent fm : in_parent fm = true -> in_parent (fm_without_gaps fm) = true.
Proof.
  unfold in_parent, fm_without_gaps. cbn [fspans fplen]. intros H. rewrite forallb_forall in *.
  intros x Hx. apply filter_In in Hx. apply H. tauto.
Qed.

Example fm_without_gaps_example :
  let fm := mk_fmap [FL 2; FS 1 3 true; FL 1; FS 0 1 false] 3 in
  in_parent fm = true /\ den (fm_without_gaps fm) = [Some 2; Some 1; Some 0].
Proof. vm_compute. auto. Qed.

(** ** [nucleic_reversed] *)

Lemma nrev_spans_ok plen l : forallb (span_in plen) l = true ->
  exists r, nrev_spans l plen = Ok r /\ forallb (span_in plen) r = true /\
            map slen r = map slen l /\
            (forallb (fun sp => match sp with FS _ _ true => false | _ => true end) l = true ->
             flat_map den_span (rev r) = rev (map (flip plen) (flat_map den_span l))).
Proof.
  induction l as [|x l IH]; cbn [forallb]; intros H.
  - exists []. repeat split; auto.
  - apply andb_prop in H. destruct H as (Hx & Hl). destruct (IH Hl) as (r & Hr & Hin & Hlen & Hden).
    destruct x as [s e rv|n]; cbn [nrev_spans span_in] in *.
    + destruct (plen - e <? 0) eqn:E; [lia|]. rewrite Hr. cbn [bind].
      rewrite mk_span_id by lia. eexists. split; [reflexivity|]. split; [|split].
      * cbn [forallb span_in]. rewrite Hin. lia.
      * cbn [map slen]. rewrite Hlen. f_equal. lia.
      * cbn [forallb]. intros Hf. apply andb_prop in Hf. destruct Hf as (Hfx & Hfl).
        destruct rv; [discriminate|]. cbn [rev flat_map]. rewrite flat_map_app, (Hden Hfl).
        rewrite map_app, rev_app_distr. f_equal. cbn [flat_map den_span]. rewrite app_nil_r.
        rewrite map_map. cbn [flip]. rewrite <- map_rev.
        apply (list_ext_znth None).
        { rewrite !zlen_map, zlen_rev, !zlen_zrange; lia. }
        intros i Hi. rewrite zlen_map, zlen_zrange in Hi by lia.
        rewrite (znth_map Some 0 None) by (rewrite zlen_zrange; lia).
        rewrite (znth_map (fun x => Some (plen - 1 - x)) 0 None) by (rewrite zlen_rev, zlen_zrange; lia).
        rewrite znth_rev by (rewrite zlen_zrange; lia). rewrite zlen_zrange by lia.
        rewrite !znth_zrange by lia. f_equal. lia.
    + rewrite Hr. cbn [bind]. eexists. split; [reflexivity|]. split; [|split].
      * cbn [forallb span_in]. rewrite Hin. lia.
      * cbn [map slen]. now rewrite Hlen.
      * cbn [forallb]. intros Hf. cbn [rev flat_map]. rewrite flat_map_app, (Hden Hf).
        rewrite map_app, rev_app_distr. f_equal. cbn [flat_map den_span]. rewrite app_nil_r.
        generalize (Z.to_nat n) as k. intros k. clear.
        induction k as [|k IHk]; [reflexivity|]. cbn [repeat map rev flip]. rewrite <- IHk.
        clear IHk. induction k as [|k IHk]; [reflexivity|]. cbn [repeat app]. now rewrite <- IHk.
Qed.

Lemma dlen_map_slen plen a b : forallb (span_in plen) a = true -> forallb (span_in plen) b = true ->
  map slen a = map slen b -> dlen a = dlen b.
Proof.
  revert b. induction a as [|x a IH]; intros [|y b] Ha Hb Hm; try discriminate; [reflexivity|].
  cbn [forallb map] in *. apply andb_prop in Ha. destruct Ha as (Hx & Ha). apply andb_prop in Hb. destruct Hb as (Hy & Hb).
  injection Hm as Hxy Hm. rewrite (dlen_cons plen), (dlen_cons plen) by assumption. rewrite (IH b) by assumption. lia.
Qed.

Lemma forallb_rev {A} (f : A -> bool) l : forallb f (rev l) = forallb f l.
Proof.
  induction l as [|x l IH]; [reflexivity|]. cbn [rev forallb]. rewrite forallb_app, IH. cbn [forallb].
  destruct (f x), (forallb f l); reflexivity.
Qed.

Lemma dlen_rev plen l : forallb (span_in plen) l = true -> dlen (rev l) = dlen l.
Proof.
  induction l as [|x l IH]; cbn [forallb rev]; intros H; [reflexivity|].
  apply andb_prop in H. destruct H as (Hx & Hl). rewrite dlen_app, (dlen_cons plen x l), (dlen_cons plen x []) by assumption.
  rewrite IH by assumption. rewrite dlen_nil. lia.
Qed.

Theorem fm_nucleic_reversed_spec fm : in_parent fm = true ->
  exists c, fm_nucleic_reversed fm = Ok c /\ in_parent c = true /\ fplen c = fplen fm /\
            zlen (den c) = zlen (den fm) /\
            (all_forward fm = true -> den c = rev (map (flip (fplen fm)) (den fm))).
Proof.
  unfold in_parent, fm_nucleic_reversed. intros H.
  destruct (nrev_spans_ok (fplen fm) (fspans fm) H) as (r & Hr & Hin & Hlen & Hden).
  rewrite Hr. cbn [bind]. eexists. split; [reflexivity|]. cbn [fspans fplen].
  split; [now rewrite forallb_rev|]. split; [reflexivity|]. split.
  - unfold den. cbn [fspans]. change (dlen (rev r) = dlen (fspans fm)).
    rewrite (dlen_rev (fplen fm)) by assumption. now apply (dlen_map_slen (fplen fm)).
  - intros Hf. unfold den. cbn [fspans]. now apply Hden.
Qed.

Example fm_nucleic_reversed_example :
  let fm := mk_fmap [FS 1 3 false; FL 2; FS 0 1 false] 5 in
  in_parent fm = true /\ all_forward fm = true /\
  exists c, fm_nucleic_reversed fm = Ok c /\ den c = [Some 4; None; None; Some 2; Some 3].
Proof. cbn zeta. split; [reflexivity|]. split; [reflexivity|]. eexists. split; vm_compute; reflexivity. Qed.

(** * Part 2: composition [fm[sub]] *)

(** ** list splitting helpers *)

Lemma firstn_app_exact {A} (a b : list A) k : k = length a -> firstn k (a ++ b) = a.
Proof. intros ->. rewrite firstn_app, Nat.sub_diag, firstn_all. cbn [firstn]. now rewrite app_nil_r. Qed.

Lemma skipn_app_exact {A} (a b : list A) k : k = length a -> skipn k (a ++ b) = b.
Proof. intros ->. rewrite skipn_app, Nat.sub_diag, skipn_all. reflexivity. Qed.

Lemma zlen_length {A} (l : list A) k : zlen l = k -> Z.to_nat k = length l.
Proof. unfold zlen. lia. Qed.

(** ** [Span.__getitem__] with one open end *)

Lemma norm_index_none_lo len : 0 <= len -> norm_index None len 0 = 0.
Proof. intros. unfold norm_index. lia. Qed.
Lemma norm_index_none_hi len : 0 <= len -> norm_index None len len = len.
Proof. intros. unfold norm_index. lia. Qed.
Lemma norm_index_some len d b : 0 <= b <= len -> norm_index (Some b) len d = b.
Proof. intros. unfold norm_index. destruct (b <? 0) eqn:E; lia. Qed.

Lemma getitem_to plen sp b : span_in plen sp = true -> 0 <= b <= slen sp ->
  exists x, span_getitem sp None (Some b) = Ok x /\ span_in plen x = true /\
            den_span x = firstn (Z.to_nat b) (den_span sp) /\ slen x = b.
Proof.
  intros Hin Hb. unfold span_getitem. rewrite norm_index_none_lo, norm_index_some by lia.
  destruct sp as [s e r|n]; cbn [span_in slen] in *.
  - destruct (0 >? b) eqn:E; [lia|]. destruct r.
    + rewrite mk_span_id by lia. eexists. split; [reflexivity|]. split; [cbn [span_in]; lia|]. split; [|cbn [slen]; lia].
      cbn [den_span]. rewrite (zrange_split s (e - b) e) by lia. rewrite map_app, rev_app_distr.
      rewrite firstn_app_exact; [f_equal; f_equal; f_equal; lia|].
      rewrite rev_length, map_length. apply zlen_length. rewrite zlen_zrange; lia.
    + rewrite mk_span_id by lia. eexists. split; [reflexivity|]. split; [cbn [span_in]; lia|]. split; [|cbn [slen]; lia].
      cbn [den_span]. rewrite (zrange_split s (s + b) e) by lia. rewrite map_app.
      rewrite firstn_app_exact; [f_equal; f_equal; lia|].
      rewrite map_length. apply zlen_length. rewrite zlen_zrange; lia.
  - eexists. split; [reflexivity|]. split; [cbn [span_in]; lia|]. split; [|cbn [slen]; lia].
    cbn [den_span]. replace (Z.to_nat n) with (Z.to_nat b + Z.to_nat (n - b))%nat by lia.
    rewrite repeat_app. rewrite firstn_app_exact by (now rewrite repeat_length). f_equal. lia.
Qed.

Lemma getitem_from plen sp a : span_in plen sp = true -> 0 <= a <= slen sp ->
  exists x, span_getitem sp (Some a) None = Ok x /\ span_in plen x = true /\
            den_span x = skipn (Z.to_nat a) (den_span sp) /\ slen x = slen sp - a.
Proof.
  intros Hin Ha. unfold span_getitem. rewrite norm_index_none_hi, norm_index_some by lia.
  destruct sp as [s e r|n]; cbn [span_in slen] in *.
  - destruct (a >? e - s) eqn:E; [lia|]. destruct r.
    + rewrite mk_span_id by lia. eexists. split; [reflexivity|]. split; [cbn [span_in]; lia|]. split; [|cbn [slen]; lia].
      cbn [den_span]. rewrite (zrange_split s (e - a) e) by lia. rewrite map_app, rev_app_distr.
      rewrite skipn_app_exact; [f_equal; f_equal; f_equal; lia|].
      rewrite rev_length, map_length. apply zlen_length. rewrite zlen_zrange; lia.
    + rewrite mk_span_id by lia. eexists. split; [reflexivity|]. split; [cbn [span_in]; lia|]. split; [|cbn [slen]; lia].
      cbn [den_span]. rewrite (zrange_split s (s + a) e) by lia. rewrite map_app.
      rewrite skipn_app_exact; [f_equal; f_equal; lia|].
      rewrite map_length. apply zlen_length. rewrite zlen_zrange; lia.
  - eexists. split; [reflexivity|]. split; [cbn [span_in]; lia|]. split; [|cbn [slen]; lia].
    cbn [den_span]. replace (Z.to_nat n) with (Z.to_nat a + Z.to_nat (n - a))%nat by lia.
    rewrite repeat_app. rewrite skipn_app_exact by (now rewrite repeat_length). f_equal. lia.
Qed.

(** ** reversing a list of spans *)

Lemma den_span_reversed plen sp : span_in plen sp = true ->
  den_span (span_reversed sp) = rev (den_span sp) /\ span_in plen (span_reversed sp) = true.
Proof.
  destruct sp as [s e r|n]; cbn [span_in span_reversed]; intros H.
  - rewrite mk_span_id by lia. cbn [span_in den_span]. split; [|exact H].
    destruct r; cbn [negb]; [now rewrite rev_involutive|reflexivity].
  - cbn [den_span span_in]. split; [|exact H]. generalize (Z.to_nat n) as k. intros k.
    induction k as [|k IHk]; [reflexivity|]. cbn [repeat rev]. rewrite <- IHk.
    clear IHk. induction k as [|k IHk]; [reflexivity|]. cbn [repeat app]. now rewrite <- IHk.
Qed.

Lemma den_rev_reversed plen l : forallb (span_in plen) l = true ->
  flat_map den_span (rev (map span_reversed l)) = rev (flat_map den_span l) /\
  forallb (span_in plen) (rev (map span_reversed l)) = true.
Proof.
  induction l as [|x l IH]; cbn [forallb]; intros H; [split; reflexivity|].
  apply andb_prop in H. destruct H as (Hx & Hl). destruct (IH Hl) as (IH1 & IH2).
  destruct (den_span_reversed plen x Hx) as (Hd & Hi).
  cbn [map rev flat_map]. rewrite flat_map_app, rev_app_distr, IH1. cbn [flat_map]. rewrite app_nil_r, Hd.
  split; [reflexivity|]. rewrite forallb_app, IH2. cbn [forallb]. now rewrite Hi.
Qed.

(** ** offsets are prefix sums of the span lengths *)

Definition pre (l : list fspan) (i : Z) : Z := dlen (firstn (Z.to_nat i) l).

Lemma zlen_offsets_from l : forall p, zlen (offsets_from p l) = zlen l.
Proof. induction l as [|x l IH]; intros p; [reflexivity|]. cbn [offsets_from]. now rewrite !zlen_cons, IH. Qed.

Lemma forallb_firstn {A} (f : A -> bool) l : forall n, forallb f l = true -> forallb f (firstn n l) = true.
Proof.
  induction l as [|x l IH]; intros [|n] H; try reflexivity. cbn [firstn forallb] in *.
  apply andb_prop in H. destruct H as (Hx & Hl). now rewrite Hx, IH.
Qed.

Lemma forallb_skipn {A} (f : A -> bool) l : forall n, forallb f l = true -> forallb f (skipn n l) = true.
Proof.
  induction l as [|x l IH]; intros [|n] H; try reflexivity; [exact H|]. cbn [skipn forallb] in *.
  apply andb_prop in H. destruct H as (Hx & Hl). now apply IH.
Qed.

Lemma offs_nth plen l : forallb (span_in plen) l = true -> forall p i, 0 <= i < zlen l ->
  znth 0 (offsets_from p l) i = p + pre l i.
Proof.
  unfold pre. induction l as [|x l IH]; cbn [forallb]; intros H p i Hi.
  - change (zlen (@nil fspan)) with 0 in Hi. lia.
  - apply andb_prop in H. destruct H as (Hx & Hl). rewrite zlen_cons in Hi. cbn [offsets_from].
    destruct (Z.eq_dec i 0) as [->|Hne].
    + rewrite znth_0. cbn [Z.to_nat firstn]. rewrite dlen_nil. lia.
    + rewrite znth_pos by lia. rewrite IH by (auto; lia).
      replace (Z.to_nat i) with (S (Z.to_nat (i - 1))) by lia. cbn [firstn].
      rewrite (dlen_cons plen) by assumption. lia.
Qed.

Lemma firstn_split {A} (l : list A) : forall i j, (i <= j)%nat -> firstn j l = firstn i l ++ firstn (j - i) (skipn i l).
Proof.
  induction l as [|x l IH]; intros i j H.
  - now rewrite skipn_nil, !firstn_nil.
  - destruct i as [|i]; [cbn [firstn skipn app]; now rewrite Nat.sub_0_r|].
    destruct j as [|j]; [lia|]. cbn [firstn skipn app Nat.sub]. f_equal. apply IH. lia.
Qed.

Lemma firstn_zslice_split {A} (l : list A) i j : 0 <= i <= j ->
  firstn (Z.to_nat j) l = firstn (Z.to_nat i) l ++ zslice l i j.
Proof.
  intros. unfold zslice. rewrite (firstn_split l (Z.to_nat i) (Z.to_nat j)) by lia. do 2 f_equal. lia.
Qed.

Lemma pre_split l i j : 0 <= i <= j -> pre l j = pre l i + dlen (zslice l i j).
Proof. intros. unfold pre. rewrite (firstn_zslice_split l i j) by lia. now rewrite dlen_app. Qed.

Lemma pre_full l : pre l (zlen l) = dlen l.
Proof. unfold pre, zlen. rewrite Nat2Z.id, firstn_all. reflexivity. Qed.

Lemma pre_0 l : pre l 0 = 0.
Proof. reflexivity. Qed.

Lemma nth_span_znth l i : 0 <= i -> nth_span l i = znth (FL 0) l i.
Proof. intros. unfold nth_span, znth. destruct (i <? 0) eqn:E; [lia|reflexivity]. Qed.

Lemma zslice_one {A} (d : A) l i : 0 <= i < zlen l -> zslice l i (i + 1) = [znth d l i].
Proof.
  intros. apply (list_ext_znth d).
  - rewrite zlen_zslice by lia. rewrite zlen_cons. change (zlen (@nil A)) with 0. lia.
  - intros k Hk. rewrite zlen_zslice in Hk by lia. assert (k = 0) as -> by lia.
    rewrite znth_zslice by lia. rewrite znth_0. f_equal. lia.
Qed.

Lemma forallb_znth {A} (f : A -> bool) d l i : forallb f l = true -> 0 <= i < zlen l -> f (znth d l i) = true.
Proof.
  intros H Hi. rewrite forallb_forall in H. apply H. unfold znth. destruct (i <? 0) eqn:E; [lia|].
  apply nth_In. unfold zlen in Hi. lia.
Qed.

Lemma pre_succ plen l i : forallb (span_in plen) l = true -> 0 <= i < zlen l ->
  pre l (i + 1) = pre l i + slen (nth_span l i).
Proof.
  intros H Hi. rewrite (pre_split l i (i + 1)) by lia. rewrite (zslice_one (FL 0)) by lia.
  rewrite nth_span_znth by lia. rewrite (dlen_cons plen), dlen_nil; [lia|]. now apply forallb_znth.
Qed.

Lemma pre_mono l i j : 0 <= i <= j -> pre l i <= pre l j.
Proof. intros. rewrite (pre_split l i j) by lia. pose proof (dlen_nonneg (zslice l i j)). lia. Qed.

(** ** slicing a concatenation *)

Lemma zslice_app_r {A} (a b : list A) s e : zlen a <= s -> zslice (a ++ b) s e = zslice b (s - zlen a) (e - zlen a).
Proof.
  intros H. unfold zslice. rewrite skipn_app. rewrite skipn_all2 by (unfold zlen in H; lia). cbn [app].
  f_equal; [lia|]. f_equal. unfold zlen in *. lia.
Qed.

Lemma zslice_app_l {A} (a b : list A) s e : 0 <= s -> e <= zlen a -> zslice (a ++ b) s e = zslice a s e.
Proof.
  intros Hs H. unfold zslice. rewrite skipn_app, firstn_app.
  replace (Z.to_nat (e - s) - length (skipn (Z.to_nat s) a))%nat with O.
  - cbn [firstn]. now rewrite app_nil_r.
  - rewrite skipn_length. unfold zlen in H. lia.
Qed.

Lemma zslice_skip_first {A} (l : list A) s e : 0 <= s -> e <= zlen l -> 
  zslice l s e = skipn (Z.to_nat s) (firstn (Z.to_nat e) l).
Proof.
  intros Hs He. unfold zslice. rewrite skipn_firstn_comm. f_equal. lia.
Qed.

(** ** the two trimming steps of [remap_with] *)

Definition trim_end (result : list fspan) (end_trim : Z) : res (list fspan) :=
  if end_trim >? 0
  then let lastsp := nth_span result (zlen result - 1) in
       bind (span_getitem lastsp None (Some (slen lastsp - end_trim)))
            (fun x => Ok (set_at result (zlen result - 1) x))
  else Ok result.

Definition trim_start (result : list fspan) (start_trim : Z) : res (list fspan) :=
  if start_trim >? 0
  then bind (span_getitem (nth_span result 0) (Some start_trim) None)
            (fun x => Ok (set_at result 0 x))
  else Ok result.

Lemma set_at_last {A} (m : list A) b x : set_at (m ++ [b]) (zlen m) x = m ++ [x].
Proof.
  induction m as [|y m IH]; [reflexivity|]. cbn [app set_at]. rewrite zlen_cons.
  pose proof (zlen_nonneg m). destruct (1 + zlen m =? 0) eqn:E; [lia|].
  replace (1 + zlen m - 1) with (zlen m) by lia. now rewrite IH.
Qed.

Lemma trim_end_spec plen m b et : span_in plen b = true -> 0 <= et <= slen b ->
  exists x, trim_end (m ++ [b]) et = Ok (m ++ [x]) /\ span_in plen x = true /\
            den_span x = firstn (Z.to_nat (slen b - et)) (den_span b) /\ slen x = slen b - et.
Proof.
  intros Hb Het. unfold trim_end. destruct (et >? 0) eqn:E.
  - rewrite zlen_app, zlen_cons. change (zlen (@nil fspan)) with 0.
    replace (zlen m + (1 + 0) - 1) with (zlen m) by lia. pose proof (zlen_nonneg m).
    rewrite nth_span_znth by lia. rewrite znth_app_r by lia. rewrite Z.sub_diag, znth_0.
    destruct (getitem_to plen b (slen b - et) Hb) as (x & Hx & Hi & Hd & Hl); [lia|].
    rewrite Hx. cbn [bind]. rewrite set_at_last. exists x. auto.
  - exists b. assert (et = 0) as -> by lia. rewrite Z.sub_0_r. split; [reflexivity|]. split; [assumption|].
    split; [|reflexivity]. rewrite firstn_all2; [reflexivity|].
    pose proof (zlen_den_span plen b Hb). unfold zlen in *. lia.
Qed.

Lemma trim_start_spec plen a m st : span_in plen a = true -> 0 <= st <= slen a ->
  exists y, trim_start (a :: m) st = Ok (y :: m) /\ span_in plen y = true /\
            den_span y = skipn (Z.to_nat st) (den_span a).
Proof.
  intros Ha Hst. unfold trim_start. destruct (st >? 0) eqn:E.
  - rewrite nth_span_znth by lia. rewrite znth_0.
    destruct (getitem_from plen a st Ha Hst) as (y & Hy & Hi & Hd & Hl).
    rewrite Hy. cbn [bind set_at]. cbn [Z.eqb]. exists y. auto.
  - exists a. assert (st = 0) as -> by lia. split; [reflexivity|]. split; [assumption|]. reflexivity.
Qed.

(** ** [remap_with] for one forward span inside the map *)

Definition remap_core (l : list fspan) (s e : Z) : res (list fspan) :=
  let offs := offsets_from 0 l in
  let first := ss_right offs s - 1 in
  let last := (first + ss_left (zslice offs first (zlen offs)) e) - 1 in
  let result := zslice l first (last + 1) in
  if zlen result =? 0 then Ok result
  else bind (trim_end result (pyget offs last + slen (nth_span l last) - e))
            (fun result => trim_start result (s - pyget offs first)).

Lemma remap_core_spec plen l s e : forallb (span_in plen) l = true -> l <> [] -> 0 <= s <= e -> e <= dlen l ->
  exists r, remap_core l s e = Ok r /\ forallb (span_in plen) r = true /\
            flat_map den_span r = zslice (flat_map den_span l) s e.
Proof.
  intros Hin Hne Hse HeL. unfold remap_core.
  set (offs := offsets_from 0 l). set (n := zlen l).
  assert (Hn : 0 < n).
  { destruct l; [contradiction|]. unfold n. rewrite zlen_cons. pose proof (zlen_nonneg l). lia. }
  assert (Hzo : zlen offs = n) by apply zlen_offsets_from.
  assert (Hoff : forall i, 0 <= i < n -> znth 0 offs i = pre l i).
  { intros i Hi. unfold offs. rewrite (offs_nth plen) by assumption. lia. }
  destruct (ss_right_spec offs s) as (R1 & R2 & R3).
  set (f := ss_right offs s - 1).
  assert (Hf0 : 0 <= f).
  { destruct (Z.eq_dec (ss_right offs s) 0) as [E0|E0]; [|unfold f; lia].
    rewrite E0 in R3. rewrite Hoff, pre_0 in R3 by lia. lia. }
  assert (Hfn : f < n) by (unfold f; lia).
  assert (HA : pre l f <= s).
  { rewrite <- Hoff by lia. apply R2. unfold f. lia. }
  assert (HA1 : f + 1 < n -> s < pre l (f + 1)).
  { intros H1. rewrite <- Hoff by lia. replace (f + 1) with (ss_right offs s) by (unfold f; lia). apply R3. lia. }
  rewrite Hzo.
  destruct (ss_left_spec (zslice offs f n) e) as (L1 & L2 & L3).
  rewrite zlen_zslice in L1, L3 by lia.
  set (k := ss_left (zslice offs f n) e) in *.
  replace (f + k - 1 + 1) with (f + k) by lia.
  assert (Hzr : zlen (zslice l f (f + k)) = k) by (rewrite zlen_zslice; unfold n in *; lia).
  rewrite Hzr.
  destruct (Z.eq_dec k 0) as [Ek|Ek].
  - rewrite Ek. cbn [Z.eqb]. eexists. split; [reflexivity|]. rewrite Z.add_0_r, (zslice_empty l f f) by lia.
    split; [reflexivity|]. cbn [flat_map].
    assert (e <= pre l f).
    { rewrite <- Hoff by lia. rewrite Ek in L3. rewrite znth_zslice in L3 by lia. rewrite Z.add_0_r in L3. apply L3. lia. }
    rewrite zslice_empty by lia. reflexivity.
  - destruct (k =? 0) eqn:Ek0; [lia|].
    set (A := pre l f) in *. set (B := pre l (f + k)).
    set (result := zslice l f (f + k)) in *.
    assert (HB : B = A + dlen result) by (unfold B, A, result; apply pre_split; lia).
    assert (HBe : e <= B).
    { destruct (Z.eq_dec (f + k) n) as [En|En].
      - unfold B. rewrite En. unfold n. rewrite pre_full. exact HeL.
      - unfold B. rewrite <- Hoff by lia. assert (L3' := L3). rewrite znth_zslice in L3' by lia. apply L3'. lia. }
    assert (Hlast : pre l (f + k - 1) < e).
    { rewrite <- Hoff by lia. specialize (L2 (k - 1)). rewrite znth_zslice in L2 by lia.
      replace (f + (k - 1)) with (f + k - 1) in L2 by lia. apply L2. lia. }
    assert (Hsucc : B = pre l (f + k - 1) + slen (nth_span l (f + k - 1))).
    { assert (Hi : 0 <= f + k - 1 < zlen l) by (unfold n in *; lia).
      pose proof (pre_succ plen l (f + k - 1) Hin Hi) as Hp.
      replace (f + k - 1 + 1) with (f + k) in Hp by lia. exact Hp. }
    rewrite !pyget_nonneg by lia. rewrite !Hoff by lia. fold A.
    replace (pre l (f + k - 1) + slen (nth_span l (f + k - 1)) - e) with (B - e) by lia.
    (* result = m ++ [b] *)
    assert (Hrne : result <> []).
    { intros E0. rewrite E0 in Hzr. change (zlen (@nil fspan)) with 0 in Hzr. lia. }
    destruct (exists_last Hrne) as (m & b & Hmb).
    assert (Hzm : zlen m = k - 1).
    { rewrite Hmb in Hzr. rewrite zlen_app, zlen_cons in Hzr. change (zlen (@nil fspan)) with 0 in Hzr. lia. }
    assert (Hb : b = nth_span l (f + k - 1)).
    { rewrite nth_span_znth by lia. replace (f + k - 1) with (f + (k - 1)) by lia.
      rewrite <- (znth_zslice (FL 0) l f (f + k)) by lia. fold result. rewrite Hmb.
      rewrite znth_app_r by lia. rewrite Hzm, Z.sub_diag, znth_0. reflexivity. }
    assert (Hinr : forallb (span_in plen) result = true).
    { unfold result, zslice. apply forallb_firstn, forallb_skipn. exact Hin. }
    assert (Hinm : forallb (span_in plen) m = true /\ span_in plen b = true).
    { rewrite Hmb, forallb_app in Hinr. cbn [forallb] in Hinr. apply andb_prop in Hinr. destruct Hinr as (H1 & H2).
      apply andb_prop in H2. tauto. }
    destruct Hinm as (Hinm & Hinb).
    assert (Hdr : dlen result = dlen m + slen b).
    { rewrite Hmb, dlen_app, (dlen_cons plen), dlen_nil by assumption. lia. }
    rewrite <- Hb in Hsucc.
    rewrite Hmb.
    destruct (trim_end_spec plen m b (B - e) Hinb) as (x & Hx & Hix & Hdx & Hlx); [lia|].
    rewrite Hx. cbn [bind].
    (* the first span of the end-trimmed result *)
    assert (Hhead : exists a' m2, m ++ [x] = a' :: m2 /\ span_in plen a' = true /\ s - A <= slen a').
    { destruct m as [|a m'].
      - exists x, []. split; [reflexivity|]. split; [assumption|].
        rewrite Hlx. rewrite dlen_nil in Hdr. lia.
      - exists a, (m' ++ [x]). split; [reflexivity|]. cbn [forallb] in Hinm. apply andb_prop in Hinm.
        split; [tauto|]. rewrite zlen_cons in Hzm. pose proof (zlen_nonneg m').
        assert (Ha : a = nth_span l f).
        { rewrite nth_span_znth by lia. replace (znth (FL 0) l f) with (znth (FL 0) l (f + 0)) by (f_equal; lia).
          rewrite <- (znth_zslice (FL 0) l f (f + k)) by lia. fold result. rewrite Hmb. cbn [app]. now rewrite znth_0. }
        specialize (HA1 ltac:(lia)). rewrite (pre_succ plen) in HA1 by (auto; unfold n in *; lia).
        rewrite <- Ha in HA1. fold A in HA1. lia. }
    destruct Hhead as (a' & m2 & Heq & Hia' & Hst).
    assert (Hinx : forallb (span_in plen) (a' :: m2) = true).
    { rewrite <- Heq, forallb_app. cbn [forallb]. now rewrite Hinm, Hix. }
    rewrite Heq.
    destruct (trim_start_spec plen a' m2 (s - A) Hia') as (y & Hy & Hiy & Hdy); [lia|].
    rewrite Hy. exists (y :: m2). split; [reflexivity|].
    cbn [forallb] in Hinx |- *. apply andb_prop in Hinx. destruct Hinx as (_ & Hin2).
    split; [now rewrite Hiy, Hin2|].
    (* denotation *)
    set (D := flat_map den_span l).
    assert (HD : D = flat_map den_span (firstn (Z.to_nat f) l) ++ flat_map den_span result
                     ++ flat_map den_span (skipn (Z.to_nat (f + k)) l)).
    { unfold D. rewrite <- (firstn_skipn (Z.to_nat (f + k)) l) at 1.
      rewrite (firstn_zslice_split l f (f + k)) by lia. fold result.
      now rewrite !flat_map_app, app_assoc. }
    rewrite HD. rewrite zslice_app_r by (change (pre l f <= s); exact HA).
    change (zlen (flat_map den_span (firstn (Z.to_nat f) l))) with A.
    rewrite zslice_app_l by (unfold dlen in *; lia).
    rewrite zslice_skip_first by (unfold dlen in *; lia).
    cbn [flat_map]. rewrite Hdy.
    assert (Hfx : flat_map den_span (a' :: m2) = firstn (Z.to_nat (e - A)) (flat_map den_span result)).
    { rewrite <- Heq, Hmb, !flat_map_app. cbn [flat_map]. rewrite !app_nil_r, Hdx.
      assert (Hlm : Z.of_nat (length (flat_map den_span m)) = dlen m) by reflexivity.
      rewrite firstn_app. rewrite (@firstn_all2 _ _ (flat_map den_span m)) by (clear - Hlm Hdr HB Hsucc Hlast HBe; lia).
      do 2 f_equal. clear - Hlm Hdr HB Hsucc Hlast HBe; lia. }
    rewrite <- Hfx. cbn [flat_map]. rewrite skipn_app.
    replace (Z.to_nat (s - A) - length (den_span a'))%nat with O; [reflexivity|].
    pose proof (zlen_den_span plen a' Hia'). unfold zlen in *. lia.
Qed.

Lemma remap_with_unfold s e rv fm :
  remap_with (FS s e rv) fm =
  let offs := offsets fm in
  let spans := fspans fm in
  if zlen spans =? 0 then Err E_Index
  else
    let map_length := zlast offs + slen (nth_span spans (zlen spans - 1)) in
    bind (remap_core spans (Z.max 0 s) (Z.min map_length e))
      (fun result =>
         let result := if s <? 0 then FL (- s) :: result else result in
         let result := if e >? map_length then result ++ [FL (e - map_length)] else result in
         Ok (if rv then rev (map span_reversed result) else result)).
Proof. reflexivity. Qed.

Lemma map_length_flen plen l : forallb (span_in plen) l = true -> l <> [] ->
  zlast (offsets_from 0 l) + slen (nth_span l (zlen l - 1)) = dlen l.
Proof.
  intros Hin Hne.
  assert (Hn : 0 < zlen l).
  { destruct l; [contradiction|]. rewrite zlen_cons. pose proof (zlen_nonneg l). lia. }
  rewrite zlast_znth by (rewrite zlen_offsets_from; lia). rewrite zlen_offsets_from.
  rewrite (offs_nth plen) by (auto; lia).
  pose proof (pre_succ plen l (zlen l - 1) Hin ltac:(lia)) as Hp.
  replace (zlen l - 1 + 1) with (zlen l) in Hp by lia. rewrite pre_full in Hp. lia.
Qed.

(** what [compose] gives on the cells of one span of the sub-map *)
Lemma compose_range D s e : 0 <= s <= e -> e <= zlen D -> compose D (map Some (zrange s e)) = zslice D s e.
Proof.
  intros Hse He. apply (list_ext_znth None).
  - unfold compose. rewrite !zlen_map, zlen_zrange, zlen_zslice; lia.
  - intros i Hi. unfold compose in *. rewrite !zlen_map, zlen_zrange in Hi by lia.
    rewrite znth_zslice by lia.
    rewrite (znth_map _ None None) by (rewrite zlen_map, zlen_zrange; lia).
    rewrite (znth_map Some 0 None) by (rewrite zlen_zrange; lia).
    rewrite znth_zrange by lia.
    destruct ((0 <=? s + i) && (s + i <? zlen D)) eqn:E; [reflexivity|lia].
Qed.

Lemma compose_app D a b : compose D (a ++ b) = compose D a ++ compose D b.
Proof. unfold compose. apply map_app. Qed.

Lemma compose_rev D a : compose D (rev a) = rev (compose D a).
Proof. unfold compose. apply map_rev. Qed.

Lemma compose_none D n : compose D (repeat None n) = repeat None n.
Proof. induction n as [|n IH]; [reflexivity|]. cbn [repeat]. unfold compose in *. cbn [map]. now rewrite IH. Qed.

Lemma remap_with_spec fm sp : in_parent fm = true -> fspans fm <> [] -> span_in (flen fm) sp = true ->
  exists r, remap_with sp fm = Ok r /\ forallb (span_in (fplen fm)) r = true /\
            flat_map den_span r = compose (den fm) (den_span sp).
Proof.
  intros Hin Hne Hsp. pose proof (flen_dlen fm Hin) as HL. unfold in_parent in Hin.
  destruct sp as [s e rv|n].
  - cbn [span_in] in Hsp. rewrite remap_with_unfold. cbn zeta.
    assert (Hn : 0 < zlen (fspans fm)).
    { destruct (fspans fm); [contradiction|]. rewrite zlen_cons. pose proof (zlen_nonneg l). lia. }
    destruct (zlen (fspans fm) =? 0) eqn:E0; [lia|].
    unfold offsets. rewrite (map_length_flen (fplen fm)) by assumption.
    change (dlen (fspans fm)) with (zlen (den fm)). rewrite <- HL.
    replace (Z.max 0 s) with s by lia. replace (Z.min (flen fm) e) with e by lia.
    destruct (remap_core_spec (fplen fm) (fspans fm) s e Hin Hne) as (r & Hr & Hir & Hdr);
      [lia|change (dlen (fspans fm)) with (zlen (den fm)); lia|].
    rewrite Hr. cbn [bind]. destruct (s <? 0) eqn:E1; [lia|]. destruct (e >? flen fm) eqn:E2; [lia|].
    eexists. split; [reflexivity|]. cbn [den_span]. destruct rv.
    + destruct (den_rev_reversed (fplen fm) r Hir) as (H1 & H2). split; [exact H2|].
      rewrite H1, Hdr, compose_rev. fold (den fm). f_equal. symmetry. apply compose_range; lia.
    + split; [exact Hir|]. rewrite Hdr. fold (den fm). symmetry. apply compose_range; lia.
  - cbn [remap_with]. eexists. split; [reflexivity|]. cbn [span_in] in Hsp. split; [cbn [forallb span_in]; lia|].
    cbn [flat_map den_span]. now rewrite app_nil_r, compose_none.
Qed.

Lemma remap_all_spec fm l : in_parent fm = true -> fspans fm <> [] -> forallb (span_in (flen fm)) l = true ->
  exists r, remap_all l fm = Ok r /\ forallb (span_in (fplen fm)) r = true /\
            flat_map den_span r = compose (den fm) (flat_map den_span l).
Proof.
  intros Hin Hne. induction l as [|sp l IH]; cbn [forallb]; intros Hl.
  - exists []. repeat split.
  - apply andb_prop in Hl. destruct Hl as (Hsp & Hl). destruct (IH Hl) as (tl & Htl & Hit & Hdt).
    destruct (remap_with_spec fm sp Hin Hne Hsp) as (hd & Hhd & Hih & Hdh).
    cbn [remap_all]. rewrite Hhd, Htl. cbn [bind]. eexists. split; [reflexivity|].
    split; [rewrite forallb_app; now rewrite Hih, Hit|].
    cbn [flat_map]. now rewrite flat_map_app, compose_app, Hdh, Hdt.
Qed.

(** the composition theorem: [fm[sub]] reads, at each cell of [sub], what [fm]
    reads at the cell [sub] points to — for EVERY in-parent map (reversed,
    zero-length and lost spans included) and every in-parent sub-map over it. *)
Theorem composition_spec fm sub :
  in_parent fm = true -> fspans fm <> [] -> in_parent sub = true -> fplen sub = flen fm ->
  exists c, fm_getitem_map fm sub = Ok c /\ den c = compose (den fm) (den sub) /\
            fplen c = fplen fm /\ in_parent c = true.
Proof.
  intros Hin Hne Hsub Hlen. unfold in_parent in Hsub. rewrite Hlen in Hsub.
  destruct (remap_all_spec fm (fspans sub) Hin Hne Hsub) as (r & Hr & Hir & Hdr).
  unfold fm_getitem_map. rewrite Hr. cbn [bind]. eexists. split; [reflexivity|].
  split; [exact Hdr|]. split; [reflexivity|]. exact Hir.
Qed.

Example composition_example :
  let fm := mk_fmap [FS 2 5 true; FS 1 1 false; FL 2; FS 0 2 false] 6 in
  let sub := mk_fmap [FS 1 6 true; FL 1; FS 3 3 false; FS 0 7 false] 7 in
  in_parent fm = true /\ fspans fm <> [] /\ in_parent sub = true /\ fplen sub = flen fm /\
  exists c, fm_getitem_map fm sub = Ok c /\
            den c = [Some 0; None; None; Some 2; Some 3; None;
                     Some 4; Some 3; Some 2; None; None; Some 0; Some 1].
Proof.
  cbn zeta. split; [reflexivity|]. split; [discriminate|]. split; [reflexivity|]. split; [reflexivity|].
  eexists. split; vm_compute; reflexivity.
Qed.

(** slicing is composition with the one-span map [lo, hi) *)
Corollary getitem_slice_spec fm a b :
  in_parent fm = true -> fspans fm <> [] ->
  exists c, fm_getitem_slice fm a b = Ok c /\ in_parent c = true /\ fplen c = fplen fm /\
            den c = zslice (den fm) (norm_index a (flen fm) 0)
                           (Z.max (norm_index a (flen fm) 0) (norm_index b (flen fm) (flen fm))).
Proof.
  intros Hin Hne. pose proof (flen_dlen fm Hin) as HL. pose proof (zlen_nonneg (den fm)) as H0.
  unfold fm_getitem_slice, as_map_slice.
  set (lo := norm_index a (flen fm) 0). set (hi := norm_index b (flen fm) (flen fm)).
  assert (Hlo : 0 <= lo <= flen fm) by (unfold lo, norm_index; destruct a as [a|]; [destruct (a <? 0)|]; lia).
  assert (Hhi : 0 <= hi <= flen fm) by (unfold hi, norm_index; destruct b as [b|]; [destruct (b <? 0)|]; lia).
  destruct (lo >? hi) eqn:E.
  - cbn [from_locations spans_from_locations bind].
    destruct (composition_spec fm (mk_fmap [] (flen fm)) Hin Hne) as (c & Hc & Hd & Hp & Hi); try reflexivity.
    exists c. split; [exact Hc|]. split; [exact Hi|]. split; [exact Hp|]. rewrite Hd.
    replace (Z.max lo hi) with lo by lia. rewrite zslice_empty by lia. reflexivity.
  - unfold from_locations, spans_from_locations, last_end. cbn [rev app].
    destruct (lo >? hi) eqn:E'; [discriminate|]. cbn [sfl_loop].
    destruct ((lo >? hi) || (Z.min lo hi <? 0)) eqn:E1; [lia|].
    destruct (lo >? flen fm) eqn:E2; [lia|]. cbn [bind]. destruct (hi >? flen fm) eqn:E3; [lia|].
    rewrite mk_span_id by lia. cbn [bind].
    destruct (composition_spec fm (mk_fmap [FS lo hi false] (flen fm)) Hin Hne) as (c & Hc & Hd & Hp & Hi).
    { unfold in_parent. cbn [fspans fplen forallb span_in]. lia. }
    { reflexivity. }
    exists c. split; [exact Hc|]. split; [exact Hi|]. split; [exact Hp|]. rewrite Hd.
    unfold den at 2. cbn [fspans flat_map den_span]. rewrite app_nil_r.
    replace (Z.max lo hi) with hi by lia. apply compose_range; lia.
Qed.

(** * Part 3: [gaps] — the lost cells of the map, as a forward map over [flen fm] *)

(** map positions (counted from [p]) whose cell is lost *)
Fixpoint lost_cells (p : Z) (d : list (option Z)) : list Z :=
  match d with
  | [] => []
  | None :: t => p :: lost_cells (p + 1) t
  | Some _ :: t => lost_cells (p + 1) t
  end.

Lemma lost_cells_app a : forall p b, lost_cells p (a ++ b) = lost_cells p a ++ lost_cells (p + zlen a) b.
Proof.
  induction a as [|x a IH]; intros p b.
  - cbn [app lost_cells]. change (zlen (@nil (option Z))) with 0. now rewrite Z.add_0_r.
  - cbn [app lost_cells]. rewrite zlen_cons. replace (p + (1 + zlen a)) with (p + 1 + zlen a) by lia. destruct x; rewrite IH; reflexivity.
Qed.

Lemma lost_cells_none n : forall p, lost_cells p (repeat None n) = zrange_aux p n.
Proof. induction n as [|n IH]; intros p; [reflexivity|]. cbn [repeat lost_cells zrange_aux]. now rewrite IH. Qed.

Lemma lost_cells_some a : (forall o, In o a -> o <> None) -> forall p, lost_cells p a = [].
Proof.
  induction a as [|x a IH]; intros H p; [reflexivity|]. cbn [lost_cells]. destruct x as [q|].
  - apply IH. intros o Ho. apply H. now right.
  - exfalso. apply (H None); [now left|reflexivity].
Qed.

Lemma span_locs_bounds plen w l : forallb (span_in plen) l = true ->
  forall p x, In x (span_locs w p l) -> p <= fst x <= snd x /\ snd x <= p + dlen l.
Proof.
  induction l as [|sp t IH]; cbn [forallb span_locs]; intros H p x Hx; [contradiction|].
  apply andb_prop in H. destruct H as (Hsp & Ht). rewrite (dlen_cons plen) by assumption.
  pose proof (slen_nonneg plen sp Hsp). pose proof (dlen_nonneg t).
  apply in_app_or in Hx. destruct Hx as [Hx|Hx].
  - destruct (Bool.eqb (is_lost sp) w); [|contradiction]. destruct Hx as [<-|[]]. cbn [fst snd]. lia.
  - specialize (IH Ht _ _ Hx). lia.
Qed.

Lemma last_end_in locs : locs <> [] -> exists s, In (s, last_end locs) locs.
Proof.
  intros Hne. unfold last_end. destruct (rev locs) as [|[s e] r] eqn:E.
  - apply (f_equal (@rev _)) in E. rewrite rev_involutive in E. contradiction.
  - exists s. apply in_rev. rewrite E. now left.
Qed.

Lemma span_locs_head plen w l : forallb (span_in plen) l = true ->
  forall p s0 e0 rest, span_locs w p l = (s0, e0) :: rest -> s0 <= last_end ((s0, e0) :: rest).
Proof.
  induction l as [|sp t IH]; cbn [forallb]; intros H p s0 e0 rest E; [discriminate|].
  assert (H' := H). apply andb_prop in H. destruct H as (Hsp & Ht). cbn [span_locs] in E.
  destruct (Bool.eqb (is_lost sp) w) eqn:Ew.
  - cbn [app] in E. assert (s0 = p) by congruence. subst s0.
    destruct (last_end_in ((p, e0) :: rest)) as (s & Hs); [discriminate|].
    rewrite <- E in Hs at 2.
    assert (Hs' : In (s, last_end ((p, e0) :: rest)) (span_locs w p (sp :: t))).
    { cbn [span_locs]. rewrite Ew. exact Hs. }
    pose proof (span_locs_bounds plen w (sp :: t) H' p _ Hs') as Hb. cbn [fst snd] in Hb. lia.
  - cbn [app] in E. now apply (IH Ht _ _ _ _ E).
Qed.

Lemma sfl_loop_ok plen locs : (forall x, In x locs -> 0 <= fst x <= snd x /\ snd x <= plen) ->
  sfl_loop locs plen = Ok (map (fun x => FS (fst x) (snd x) false) locs).
Proof.
  induction locs as [|[s e] t IH]; intros H; [reflexivity|].
  cbn [sfl_loop map fst snd]. pose proof (H (s, e) (or_introl eq_refl)) as Hx. cbn [fst snd] in Hx.
  destruct ((s >? e) || (Z.min s e <? 0)) eqn:E1; [lia|]. destruct (s >? plen) eqn:E2; [lia|].
  rewrite IH by (intros x Hin; apply H; now right). cbn [bind]. destruct (e >? plen) eqn:E3; [lia|].
  now rewrite mk_span_id by lia.
Qed.

Lemma den_forward_locs locs :
  flat_map den_span (map (fun x : Z * Z => FS (fst x) (snd x) false) locs)
  = map Some (flat_map (fun x => zrange (fst x) (snd x)) locs).
Proof.
  induction locs as [|x t IH]; [reflexivity|]. cbn [map flat_map den_span]. now rewrite map_app, IH.
Qed.

Lemma lost_locs plen l : forallb (span_in plen) l = true -> forall p,
  flat_map (fun x => zrange (fst x) (snd x)) (span_locs true p l) = lost_cells p (flat_map den_span l).
Proof.
  induction l as [|sp t IH]; cbn [forallb]; intros H p; [reflexivity|].
  apply andb_prop in H. destruct H as (Hsp & Ht). cbn [span_locs flat_map].
  rewrite flat_map_app, lost_cells_app, (zlen_den_span plen) by assumption. rewrite IH by assumption. f_equal.
  destruct sp as [s e r|n]; cbn [is_lost Bool.eqb flat_map den_span slen fst snd].
  - symmetry. apply lost_cells_some. intros o Ho.
    assert (Hin : In o (map Some (zrange s e))) by (destruct r; [now apply in_rev|exact Ho]).
    apply in_map_iff in Hin. destruct Hin as (q & <- & _). discriminate.
  - rewrite app_nil_r, lost_cells_none. unfold zrange. f_equal. lia.
Qed.

Theorem fm_gaps_spec fm : in_parent fm = true ->
  exists c, fm_gaps fm = Ok c /\ den c = map Some (lost_cells 0 (den fm)) /\
            fplen c = flen fm /\ in_parent c = true /\ all_forward c = true.
Proof.
  intros Hin. pose proof (flen_dlen fm Hin) as HL. unfold in_parent in Hin.
  unfold fm_gaps, from_locations. set (locs := span_locs true 0 (fspans fm)).
  assert (Hb : forall x, In x locs -> 0 <= fst x <= snd x /\ snd x <= flen fm).
  { intros x Hx. pose proof (span_locs_bounds (fplen fm) true (fspans fm) Hin 0 x Hx) as Hb.
    change (dlen (fspans fm)) with (zlen (den fm)) in Hb. lia. }
  assert (Hs : spans_from_locations locs (flen fm) = Ok (map (fun x => FS (fst x) (snd x) false) locs)).
  { unfold spans_from_locations. destruct locs as [|[s0 e0] rest] eqn:El; [reflexivity|].
    pose proof (span_locs_head (fplen fm) true (fspans fm) Hin 0 s0 e0 rest El) as Hh.
    destruct (s0 >? last_end ((s0, e0) :: rest)) eqn:E; [lia|]. now apply sfl_loop_ok. }
  rewrite Hs. cbn [bind]. eexists. split; [reflexivity|]. unfold den at 1. cbn [fspans fplen].
  split; [|split; [reflexivity|split]].
  - rewrite den_forward_locs. f_equal. unfold locs. now apply (lost_locs (fplen fm)).
  - unfold in_parent. cbn [fspans fplen]. apply forallb_forall. intros sp Hsp.
    apply in_map_iff in Hsp. destruct Hsp as (x & <- & Hx). specialize (Hb x Hx). cbn [span_in]. lia.
  - unfold all_forward. cbn [fspans]. apply forallb_forall. intros sp Hsp.
    apply in_map_iff in Hsp. destruct Hsp as (x & <- & Hx). reflexivity.
Qed.

Example fm_gaps_example :
  let fm := mk_fmap [FL 1; FS 2 4 true; FL 2; FS 0 0 false; FS 0 1 false] 4 in
  in_parent fm = true /\
  exists c, fm_gaps fm = Ok c /\ den c = [Some 0; Some 3; Some 4] /\ fplen c = 6.
Proof. cbn zeta. split; [reflexivity|]. eexists. split; [|split]; vm_compute; reflexivity. Qed.

(** * Part 4: [shadow] = the gaps of the inverse.  Whenever [inverse] meets its
    statement ([inverse_bounded]'s conclusion), [shadow] is the complement. *)

Lemma mem_ins x y l : mem x (ins y l) = (x =? y) || mem x l.
Proof.
  unfold mem. induction l as [|z t IH]; cbn [ins existsb]; [reflexivity|].
  destruct (y <? z) eqn:E1; [reflexivity|]. destruct (y =? z) eqn:E2.
  - cbn [existsb]. destruct (x =? z) eqn:E3; destruct (x =? y) eqn:E4; try reflexivity; lia.
  - cbn [existsb]. rewrite IH. destruct (x =? z), (x =? y); reflexivity.
Qed.

Definition pos_of (d : list (option Z)) : list Z :=
  fold_right (fun o acc => match o with Some p => ins p acc | None => acc end) [] d.

Lemma index_of_none q d : forall i,
  match index_of q i d with None => true | Some _ => false end = negb (mem q (pos_of d)).
Proof.
  induction d as [|o t IH]; intros i; [reflexivity|]. cbn [index_of pos_of fold_right]. destruct o as [r|].
  - fold (pos_of t). rewrite mem_ins. destruct (r =? q) eqn:E.
    + replace (q =? r) with true by lia. reflexivity.
    + replace (q =? r) with false by lia. cbn [orb]. apply IH.
  - apply IH.
Qed.

Lemma lost_cells_map_range (g : Z -> option Z) n : forall p,
  lost_cells p (map g (zrange_aux p n))
  = filter (fun q => match g q with None => true | Some _ => false end) (zrange_aux p n).
Proof.
  induction n as [|n IH]; intros p; [reflexivity|]. cbn [zrange_aux map lost_cells filter].
  destruct (g p); now rewrite IH.
Qed.

Lemma lost_cells_inverse plen d : lost_cells 0 (inverse_den plen d) = complement plen (pos_of d).
Proof.
  unfold inverse_den, complement, zrange. rewrite lost_cells_map_range. apply filter_ext.
  intros q. apply index_of_none.
Qed.

Theorem shadow_of_inverse fm c : 0 <= fplen fm ->
  fm_inverse fm = Ok c -> den c = inverse_den (fplen fm) (den fm) -> in_parent c = true ->
  exists g, fm_shadow fm = Ok g /\ den g = map Some (complement (fplen fm) (positions fm)) /\
            fplen g = fplen fm /\ in_parent g = true /\ all_forward g = true.
Proof.
  intros Hp Hc Hd Hin. destruct (fm_gaps_spec c Hin) as (g & Hg & Hdg & Hpg & Hig & Hfg).
  unfold fm_shadow. rewrite Hc. cbn [bind]. exists g. split; [exact Hg|].
  split; [|split; [|split; assumption]].
  - rewrite Hdg, Hd, lost_cells_inverse. reflexivity.
  - rewrite Hpg, (flen_dlen c Hin), Hd. unfold inverse_den. rewrite zlen_map, zlen_zrange; lia.
Qed.

Example shadow_of_inverse_example :
  let fm := mk_fmap [FS 4 6 true; FL 1; FS 1 2 false] 7 in
  exists c, fm_inverse fm = Ok c /\ den c = inverse_den (fplen fm) (den fm) /\ in_parent c = true /\
  exists g, fm_shadow fm = Ok g /\ den g = [Some 0; Some 2; Some 3; Some 6].
Proof.
  cbn zeta. eexists. split; [vm_compute; reflexivity|]. split; [vm_compute; reflexivity|].
  split; [reflexivity|]. eexists. split; vm_compute; reflexivity.
Qed.

Corollary composition_len fm sub c : fm_getitem_map fm sub = Ok c ->
  den c = compose (den fm) (den sub) -> zlen (den c) = zlen (den sub).
Proof. intros _ ->. unfold compose. apply zlen_map. Qed.

Example getitem_slice_example :
  let fm := mk_fmap [FS 2 5 true; FL 2; FS 0 2 false] 6 in
  in_parent fm = true /\ fspans fm <> [] /\
  exists c, fm_getitem_slice fm (Some 1) (Some (-1)) = Ok c /\ den c = [Some 3; Some 2; None; None; Some 0].
Proof. cbn zeta. split; [reflexivity|]. split; [discriminate|]. eexists. split; vm_compute; reflexivity. Qed.
