(** C08 — bounded-exhaustive facts about the IndelMap model, decided by
    [vm_compute] over EVERY gap mask up to a stated length (finite domains,
    fully enumerated).  They complement the unbounded theorems of
    IndelMapProofs.v / IndelMapSlice.v: same statements, also for the
    operations that have no general proof yet. *)
From CG3 Require Import Lib.PyZ Lib.Val Model.IndelMap Spec.IndelMapSpec.

Fixpoint masks_of_len (n : nat) : list (list bool) :=
  match n with
  | O => [[]]
  | S k => flat_map (fun m => [true :: m; false :: m]) (masks_of_len k)
  end.

Definition masks_upto (n : nat) : list (list bool) := flat_map masks_of_len (seq 0 (S n)).

Lemma masks_of_len_complete k : In k (masks_of_len (length k)).
Proof.
  induction k as [|b k IH]; simpl; [auto|].
  apply in_flat_map. exists k. split; [exact IH|]. destruct b; simpl; auto.
Qed.

Lemma masks_upto_complete n k : (length k <= n)%nat -> In k (masks_upto n).
Proof.
  intros H. unfold masks_upto. apply in_flat_map. exists (length k). split.
  - apply in_seq. lia.
  - apply masks_of_len_complete.
Qed.

Definition listZ_eqb (a b : list Z) : bool := if list_eq_dec Z.eq_dec a b then true else false.
Definition mask_eqb (a b : list bool) : bool := if list_eq_dec bool_dec a b then true else false.
Definition imap_eqb (a b : imap) : bool :=
  listZ_eqb (gap_pos a) (gap_pos b) && listZ_eqb (cum_gap_lengths a) (cum_gap_lengths b)
  && (parent_length a =? parent_length b).

Lemma listZ_eqb_eq a b : listZ_eqb a b = true -> a = b.
Proof. unfold listZ_eqb. destruct (list_eq_dec Z.eq_dec a b); congruence. Qed.
Lemma mask_eqb_eq a b : mask_eqb a b = true -> a = b.
Proof. unfold mask_eqb. destruct (list_eq_dec bool_dec a b); congruence. Qed.
Lemma imap_eqb_eq a b : imap_eqb a b = true -> a = b.
Proof.
  unfold imap_eqb. intros H. apply andb_prop in H. destruct H as (H & H3). apply andb_prop in H.
  destruct H as (H1 & H2). apply listZ_eqb_eq in H1. apply listZ_eqb_eq in H2.
  destruct a, b; simpl in *. f_equal; auto; lia.
Qed.

Definition intervals (n : Z) : list (Z * Z) :=
  flat_map (fun a => map (fun b => (a, b)) (zrange a (n + 1))) (zrange 0 (n + 1)).

Lemma intervals_complete n a b : 0 <= a -> a <= b -> b <= n -> In (a, b) (intervals n).
Proof.
  intros. unfold intervals. apply in_flat_map. exists a. split.
  - apply zrange_In. lia.
  - apply in_map. apply zrange_In. lia.
Qed.

(** ** slicing: the map of the sliced string, for every mask of length <= 10 *)

Definition slice_ok (k : list bool) (a b : Z) : bool :=
  match getitem_slice (from_mask k) (Some a) (Some b) with
  | Ok m' => imap_eqb m' (from_mask (msub k a b)) && mask_eqb (abs m') (msub k a b)
  | Err _ => false
  end.

Definition slices_ok (k : list bool) : bool :=
  forallb (fun ab => slice_ok k (fst ab) (snd ab)) (intervals (zlen k)).

Lemma slices_ok_upto_10 : forallb slices_ok (masks_upto 10) = true.
Proof. vm_compute. reflexivity. Qed.

Lemma slice_bounded (k : list bool) (a b : Z) :
  (length k <= 10)%nat -> 0 <= a -> a <= b -> b <= zlen k ->
  exists m', getitem_slice (from_mask k) (Some a) (Some b) = Ok m'
             /\ m' = from_mask (msub k a b) /\ abs m' = msub k a b.
Proof.
  intros Hk Ha Hab Hb.
  pose proof slices_ok_upto_10 as H. rewrite forallb_forall in H.
  specialize (H k (masks_upto_complete 10 k Hk)). unfold slices_ok in H.
  rewrite forallb_forall in H. specialize (H (a, b) (intervals_complete _ a b Ha Hab Hb)).
  cbn [fst snd] in H. unfold slice_ok in H.
  destruct (getitem_slice (from_mask k) (Some a) (Some b)) as [m'|e]; [|discriminate].
  apply andb_prop in H. destruct H as (H1 & H2). exists m'. split; [reflexivity|].
  split; [now apply imap_eqb_eq|now apply mask_eqb_eq].
Qed.

(** ** the listings and the remaining constructors, for every mask of length <= 10 *)
From CG3 Require Import Spec.IndelMapStringOps.

Definition pair_dec : forall x y : Z * Z, {x = y} + {x <> y}.
Proof. decide equality; apply Z.eq_dec. Defined.
Definition pairs_eqb (a b : list (Z * Z)) : bool := if list_eq_dec pair_dec a b then true else false.
Lemma pairs_eqb_eq a b : pairs_eqb a b = true -> a = b.
Proof. unfold pairs_eqb. destruct (list_eq_dec pair_dec a b); congruence. Qed.

(** zero-length entries of a coordinate listing carry no position *)
Definition nonempty (l : list (Z * Z)) : list (Z * Z) := filter (fun se => negb (fst se =? snd se)) l.

Definition has_gap (k : list bool) : bool := existsb negb k.
Definition has_residue (k : list bool) : bool := existsb (fun b => b) k.

Definition listings_ok (k : list bool) : bool :=
  let m := from_mask k in
  pairs_eqb (get_gap_align_coordinates m) (gap_runs k)
  && pairs_eqb (get_gap_coordinates m) (gap_insertions k)
  && (if has_gap k then pairs_eqb (nongap m) (seg_runs k) else true)
  && (if has_residue k
      then match from_aligned_segments (seg_runs k) (zlen k) with Ok m' => imap_eqb m' m | Err _ => false end
      else true)
  && match gap_coords_to_map (gap_insertions k) (count_res k) with Ok m' => imap_eqb m' m | Err _ => false end.

Lemma listings_ok_upto_10 : forallb listings_ok (masks_upto 10) = true.
Proof. vm_compute. reflexivity. Qed.

Lemma listings_bounded (k : list bool) : (length k <= 10)%nat ->
  let m := from_mask k in
  get_gap_align_coordinates m = gap_runs k /\
  get_gap_coordinates m = gap_insertions k /\
  (has_gap k = true -> nongap m = seg_runs k) /\
  (has_residue k = true -> from_aligned_segments (seg_runs k) (zlen k) = Ok m) /\
  gap_coords_to_map (gap_insertions k) (count_res k) = Ok m.
Proof.
  intros Hk m. pose proof listings_ok_upto_10 as H. rewrite forallb_forall in H.
  specialize (H k (masks_upto_complete 10 k Hk)). unfold listings_ok in H. fold m in H.
  repeat (apply andb_prop in H; destruct H as (H & ?)).
  split; [now apply pairs_eqb_eq|]. split; [now apply pairs_eqb_eq|]. split; [|split].
  - intros E. rewrite E in *. now apply pairs_eqb_eq.
  - intros E. rewrite E in *. destruct (from_aligned_segments (seg_runs k) (zlen k)) as [m'|]; [|discriminate].
    f_equal. now apply imap_eqb_eq.
  - destruct (gap_coords_to_map (gap_insertions k) (count_res k)) as [m'|]; [|discriminate].
    f_equal. now apply imap_eqb_eq.
Qed.

(** ** the binary operations, for every pair of masks of length <= 6 *)

Definition minus_ok (k1 k2 : list bool) : bool :=
  match minus_gaps (from_mask k1) (from_mask k2) with
  | Ok m => imap_eqb m (from_mask (mask_minus k1 k2)) | Err _ => false end.
Definition shared_ok (k1 k2 : list bool) : bool :=
  match shared_gaps (from_mask k1) (from_mask k2) with
  | Ok l => pairs_eqb l (mask_shared k1 k2) | Err _ => false end.
Definition merge_ok (k1 k2 : list bool) : bool :=
  match merge_maps (from_mask k1) (from_mask k2) None with
  | Ok m => imap_eqb m (from_mask (mask_merge k1 k2)) | Err _ => false end.

Definition binary_ok (p : list bool * list bool) : bool :=
  let (k1, k2) := p in
  (if Nat.eqb (length k1) (length k2) then minus_ok k1 k2 && shared_ok k1 k2 else true)
  && (if count_res k1 =? count_res k2 then merge_ok k1 k2 else true).

Lemma binary_ok_upto_6 : forallb binary_ok (list_prod (masks_upto 6) (masks_upto 6)) = true.
Proof. vm_compute. reflexivity. Qed.

Lemma binary_bounded (k1 k2 : list bool) : (length k1 <= 6)%nat -> (length k2 <= 6)%nat ->
  (length k1 = length k2 ->
     minus_gaps (from_mask k1) (from_mask k2) = Ok (from_mask (mask_minus k1 k2)) /\
     shared_gaps (from_mask k1) (from_mask k2) = Ok (mask_shared k1 k2)) /\
  (count_res k1 = count_res k2 ->
     merge_maps (from_mask k1) (from_mask k2) None = Ok (from_mask (mask_merge k1 k2))).
Proof.
  intros H1 H2. pose proof binary_ok_upto_6 as H. rewrite forallb_forall in H.
  specialize (H (k1, k2) (in_prod _ _ _ _ (masks_upto_complete 6 k1 H1) (masks_upto_complete 6 k2 H2))).
  unfold binary_ok in H. apply andb_prop in H. destruct H as (Ha & Hb). split.
  - intros E. rewrite E, Nat.eqb_refl in Ha. apply andb_prop in Ha. destruct Ha as (Hm & Hs).
    unfold minus_ok in Hm. unfold shared_ok in Hs. split.
    + destruct (minus_gaps (from_mask k1) (from_mask k2)) as [m|]; [|discriminate]. f_equal. now apply imap_eqb_eq.
    + destruct (shared_gaps (from_mask k1) (from_mask k2)) as [l|]; [|discriminate]. f_equal. now apply pairs_eqb_eq.
  - intros E. rewrite E, Z.eqb_refl in Hb. unfold merge_ok in Hb.
    destruct (merge_maps (from_mask k1) (from_mask k2) None) as [m|]; [|discriminate]. f_equal. now apply imap_eqb_eq.
Qed.

(** ** joining segments, for every mask of length <= 6 and every list of at
    most 3 sorted, non-empty, non-overlapping (possibly abutting) segments *)

Fixpoint seglists (fuel : nat) (n start : Z) : list (list (Z * Z)) :=
  match fuel with
  | O => [[]]
  | S f => [] :: flat_map (fun a => flat_map (fun b => map (cons (a, b)) (seglists f n b))
                                            (zrange (a + 1) (n + 1)))
                          (zrange start n)
  end.

Fixpoint segs_ok (start n : Z) (cs : list (Z * Z)) : Prop :=
  match cs with
  | [] => True
  | (a, b) :: t => start <= a /\ a < b /\ b <= n /\ segs_ok b n t
  end.

Lemma seglists_complete fuel : forall n start cs,
  (length cs <= fuel)%nat -> segs_ok start n cs -> In cs (seglists fuel n start).
Proof.
  induction fuel as [|f IH]; intros n start cs Hl Hok.
  - destruct cs; [left; reflexivity|cbn in Hl; lia].
  - destruct cs as [|(a, b) t]; [left; reflexivity|]. cbn [segs_ok] in Hok. destruct Hok as (A & B & D & E).
    right. apply in_flat_map. exists a. split; [apply zrange_In; lia|].
    apply in_flat_map. exists b. split; [apply zrange_In; lia|].
    apply in_map. apply IH; [cbn in Hl; lia|exact E].
Qed.

Definition join_ok (k : list bool) (cs : list (Z * Z)) : bool :=
  match joined_segments (from_mask k) cs with
  | Ok m => imap_eqb m (from_mask (mask_join k cs)) | Err _ => false end.

Lemma join_ok_upto_6 :
  forallb (fun k => forallb (join_ok k) (seglists 3 (zlen k) 0)) (masks_upto 6) = true.
Proof. vm_compute. reflexivity. Qed.

Lemma join_bounded (k : list bool) (cs : list (Z * Z)) :
  (length k <= 6)%nat -> (length cs <= 3)%nat -> segs_ok 0 (zlen k) cs ->
  joined_segments (from_mask k) cs = Ok (from_mask (mask_join k cs)).
Proof.
  intros Hk Hc Hok. pose proof join_ok_upto_6 as H. rewrite forallb_forall in H.
  specialize (H k (masks_upto_complete 6 k Hk)). rewrite forallb_forall in H.
  specialize (H cs (seglists_complete 3 _ _ cs Hc Hok)). unfold join_ok in H.
  destruct (joined_segments (from_mask k) cs) as [m|]; [|discriminate]. f_equal. now apply imap_eqb_eq.
Qed.

(** ** where the faithful model violates the unguarded statements *)

(** a stop beyond the end is not clamped (Python: [s[0:9] = s] for a 3-long [s]) *)
Lemma slice_beyond_len_witness :
  exists k b m', b > zlen k /\
    getitem_slice (from_mask k) (Some 0) (Some b) = Ok m' /\
    abs m' <> msub k 0 b /\ len m' > zlen k.
Proof.
  exists [true; false; true], 9, (mk_imap [1] [1] 8). vm_compute. repeat split; congruence.
Qed.

(** [nongap] reports no ungapped segment at all for a gap-free sequence *)
Lemma nongap_gapfree_witness :
  exists k, has_gap k = false /\ seg_runs k = [(0, 1)] /\ nongap (from_mask k) = [].
Proof. exists [true]. vm_compute. repeat split. Qed.

(** [get_coordinates] drops the last ungapped segment of ["-x-x"] *)
Lemma get_coordinates_witness :
  exists k, nonempty (seq_segments k) = [(0, 1); (1, 2)] /\
            nonempty (get_coordinates (from_mask k)) = [(0, 1)].
Proof. exists [false; true; false; true]. vm_compute. repeat split. Qed.

(** [get_coordinates] is right when the map has fewer than two gaps or the
    string ends in a gap (every mask of length <= 10) *)
Definition ends_gap (k : list bool) : bool := match rev k with false :: _ => true | _ => false end.

Definition coords_ok (k : list bool) : bool :=
  if (num_gaps (from_mask k) <? 2) || ends_gap k
  then pairs_eqb (nonempty (get_coordinates (from_mask k))) (nonempty (seq_segments k)) else true.

Lemma coords_ok_upto_10 : forallb coords_ok (masks_upto 10) = true.
Proof. vm_compute. reflexivity. Qed.

Lemma coords_bounded (k : list bool) : (length k <= 10)%nat ->
  num_gaps (from_mask k) < 2 \/ ends_gap k = true ->
  nonempty (get_coordinates (from_mask k)) = nonempty (seq_segments k).
Proof.
  intros Hk Hg. pose proof coords_ok_upto_10 as H. rewrite forallb_forall in H.
  specialize (H k (masks_upto_complete 10 k Hk)). unfold coords_ok in H.
  destruct ((num_gaps (from_mask k) <? 2) || ends_gap k) eqn:E.
  - now apply pairs_eqb_eq.
  - apply orb_false_elim in E. destruct E as (E1 & E2). destruct Hg as [Hg|Hg]; [lia|congruence].
Qed.
