(** C08 — bounded-exhaustive facts about the IndelMap model, decided by
    [vm_compute] over EVERY gap mask up to a stated length (finite domains,
    fully enumerated).  They complement the unbounded theorems of
    IndelMapProofs.v / IndelMapSlice.v: same statements, also for the
    operations that have no general proof yet. *)
From CG3 Require Import Lib.PyZ Lib.Val Model.IndelMap Spec.IndelMapSpec.

Fixpoint masks_of_len (n : nat) : list (list bool) :=
  match n with
  | O => [[]]
  | S k => flat_map (fun m => [true :: m; false :: m]) (masks_of_len k)
  end.

Definition masks_upto (n : nat) : list (list bool) := flat_map masks_of_len (seq 0 (S n)).

Lemma masks_of_len_complete k : In k (masks_of_len (length k)).
Proof.
  induction k as [|b k IH]; simpl; [auto|].
  apply in_flat_map. exists k. split; [exact IH|]. destruct b; simpl; auto.
Qed.

Lemma masks_upto_complete n k : (length k <= n)%nat -> In k (masks_upto n).
Proof.
  intros H. unfold masks_upto. apply in_flat_map. exists (length k). split.
  - apply in_seq. lia.
  - apply masks_of_len_complete.
Qed.

Definition listZ_eqb (a b : list Z) : bool := if list_eq_dec Z.eq_dec a b then true else false.
Definition mask_eqb (a b : list bool) : bool := if list_eq_dec bool_dec a b then true else false.
Definition imap_eqb (a b : imap) : bool :=
  listZ_eqb (gap_pos a) (gap_pos b) && listZ_eqb (cum_gap_lengths a) (cum_gap_lengths b)
  && (parent_length a =? parent_length b).

Lemma listZ_eqb_eq a b : listZ_eqb a b = true -> a = b.
Proof. unfold listZ_eqb. destruct (list_eq_dec Z.eq_dec a b); congruence. Qed.
Lemma mask_eqb_eq a b : mask_eqb a b = true -> a = b.
Proof. unfold mask_eqb. destruct (list_eq_dec bool_dec a b); congruence. Qed.
Lemma imap_eqb_eq a b : imap_eqb a b = true -> a = b.
Proof.
  unfold imap_eqb. intros H. apply andb_prop in H. destruct H as (H & H3). apply andb_prop in H.
  destruct H as (H1 & H2). apply listZ_eqb_eq in H1. apply listZ_eqb_eq in H2.
  destruct a, b; simpl in *. f_equal; auto; lia.
Qed.

Definition intervals (n : Z) : list (Z * Z) :=
  flat_map (fun a => map (fun b => (a, b)) (zrange a (n + 1))) (zrange 0 (n + 1)).

Lemma intervals_complete n a b : 0 <= a -> a <= b -> b <= n -> In (a, b) (intervals n).
Proof.
  intros. unfold intervals. apply in_flat_map. exists a. split.
  - apply zrange_In. lia.
  - apply in_map. apply zrange_In. lia.
Qed.

(** ** slicing: the map of the sliced string, for every mask of length <= 10 *)

Definition slice_ok (k : list bool) (a b : Z) : bool :=
  match getitem_slice (from_mask k) (Some a) (Some b) with
  | Ok m' => imap_eqb m' (from_mask (msub k a b)) && mask_eqb (abs m') (msub k a b)
  | Err _ => false
  end.

Definition slices_ok (k : list bool) : bool :=
  forallb (fun ab => slice_ok k (fst ab) (snd ab)) (intervals (zlen k)).

Lemma slices_ok_upto_10 : forallb slices_ok (masks_upto 10) = true.
Proof. vm_compute. reflexivity. Qed.

Lemma slice_bounded (k : list bool) (a b : Z) :
  (length k <= 10)%nat -> 0 <= a -> a <= b -> b <= zlen k ->
  exists m', getitem_slice (from_mask k) (Some a) (Some b) = Ok m'
             /\ m' = from_mask (msub k a b) /\ abs m' = msub k a b.
Proof.
  intros Hk Ha Hab Hb.
  pose proof slices_ok_upto_10 as H. rewrite forallb_forall in H.
  specialize (H k (masks_upto_complete 10 k Hk)). unfold slices_ok in H.
  rewrite forallb_forall in H. specialize (H (a, b) (intervals_complete _ a b Ha Hab Hb)).
  cbn [fst snd] in H. unfold slice_ok in H.
  destruct (getitem_slice (from_mask k) (Some a) (Some b)) as [m'|e]; [|discriminate].
  apply andb_prop in H. destruct H as (H1 & H2). exists m'. split; [reflexivity|].
  split; [now apply imap_eqb_eq|now apply mask_eqb_eq].
Qed.
