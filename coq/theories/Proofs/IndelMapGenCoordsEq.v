(** C08 — translator tie for the gap-coordinate set operations of [IndelMap]
    (coq/gen/IndelMapGen.v: [g_span_and_span], [g_coords_intersect],
    [g_coords_minus_coords], [g_shared_gaps_coords], [g_shared_gaps],
    [g_minus_gaps_coords], [g_minus_gaps]) with the hand-written functions of
    Model/IndelMap.v.

    The nested Python [for] loops became nested LOCAL [fix]es ([break] = a call
    of the outer loop, [continue] = a call of the same loop).  Method (as in
    Proofs/IndelMapGenLoopEq.v): the body of every generated loop is written
    once more below with a fixed choice of names, the OUTER loop entering the
    inner one through a continuation [k] ("what [break] / falling off the end
    does"); the generated function is that loop by CONVERSION (the [*_unfold]
    lemmas, proved by [reflexivity]: insensitive to the names of the generated
    local variables, but any change of behaviour breaks them).  The generated
    loops accumulate [acc ++ [x]] left to right, the model conses
    recursively; the invariants are generalised over the accumulator:
    [loop acc = bind (model rest) (fun l => k (acc ++ l))]. *)
From CG3 Require Import Lib.PyZ Lib.Val Model.IndelMap Model.IndelMapFixed Model.NumpyPrims Spec.IndelMapSpec.
From CG3 Require Import Proofs.IndelMapProofs Proofs.IndelMapGenEq.
From CG3gen Require Import IndelMapGen.
Import G.

Local Open Scope Z_scope.

(** * [_span_and_span] *)

Lemma span_and_span_eq a b : g_span_and_span a b = span_and_span a b.
Proof. destruct a as [a1 a2], b as [b1 b2]. reflexivity. Qed.

(** [bind r Ok = r] *)
Lemma bind_Ok_r {A} (r : res A) : bind r (fun x => Ok x) = r.
Proof. destruct r; reflexivity. Qed.

(** the code reads [total_intersect or 0] *)
Lemma or0_eq (tot : option Z) :
  match tot with Some v => if v =? 0 then 0 else v | None => 0 end =
  match tot with Some t => t | None => 0 end.
Proof. destruct tot as [v|]; [|reflexivity]. destruct (v =? 0) eqn:E; lia. Qed.

(** * [_coords_intersect] *)

(** the inner loop of the generated code; [k] is what leaving it does *)
Definition ci_loop2 (a1 a2 : Z) (k : list (Z * Z) -> res (list (Z * Z)))
  : Z -> list (Z * Z) -> list (Z * Z) -> res (list (Z * Z)) :=
  fix loop2 (i2 : Z) (xs2 : list (Z * Z)) (acc : list (Z * Z)) {struct xs2} : res (list (Z * Z)) :=
    match xs2 with
    | [] => k acc
    | (b1, b2) :: xs2' =>
        if (a1 <=? b2) && (b1 <=? a2)
        then bind (g_span_and_span (a1, a2) (b1, b2)) (fun r =>
               loop2 (i2 + 1) xs2' (match r with Some (p0, p1) => acc ++ [(p0, p1)] | None => acc end))
        else if a2 <? b1 then k acc
        else loop2 (i2 + 1) xs2' acc
    end.

(** the outer loop *)
Definition ci_loop1 (coords2 : list (Z * Z)) : Z -> list (Z * Z) -> list (Z * Z) -> res (list (Z * Z)) :=
  fix loop1 (i1 : Z) (xs1 : list (Z * Z)) (acc : list (Z * Z)) {struct xs1} : res (list (Z * Z)) :=
    match xs1 with
    | [] => Ok acc
    | (a1, a2) :: xs1' => ci_loop2 a1 a2 (fun acc' => loop1 (i1 + 1) xs1' acc') 0 coords2 acc
    end.

Lemma g_coords_intersect_unfold c1 c2 : g_coords_intersect c1 c2 = ci_loop1 c2 0 c1 [].
Proof. reflexivity. Qed.

Lemma ci_loop2_cons a1 a2 k i b1 b2 xs acc :
  ci_loop2 a1 a2 k i ((b1, b2) :: xs) acc =
  if (a1 <=? b2) && (b1 <=? a2)
  then bind (g_span_and_span (a1, a2) (b1, b2)) (fun r =>
         ci_loop2 a1 a2 k (i + 1) xs (match r with Some (p0, p1) => acc ++ [(p0, p1)] | None => acc end))
  else if a2 <? b1 then k acc
  else ci_loop2 a1 a2 k (i + 1) xs acc.
Proof. reflexivity. Qed.

Lemma ci_loop1_cons c2 i a1 a2 xs acc :
  ci_loop1 c2 i ((a1, a2) :: xs) acc =
  ci_loop2 a1 a2 (fun acc' => ci_loop1 c2 (i + 1) xs acc') 0 c2 acc.
Proof. reflexivity. Qed.

Lemma ci_loop2_inv a1 a2 k : forall xs i acc,
  ci_loop2 a1 a2 k i xs acc = bind (ci_inner a1 a2 xs) (fun l => k (acc ++ l)).
Proof.
  induction xs as [|[b1 b2] xs IH]; intros i acc.
  - cbn [ci_loop2 ci_inner bind]. now rewrite app_nil_r.
  - rewrite ci_loop2_cons. cbn [ci_inner]. rewrite span_and_span_eq.
    destruct ((a1 <=? b2) && (b1 <=? a2)) eqn:Eov.
    + destruct (span_and_span (a1, a2) (b1, b2)) as [[[p0 p1]|]|e]; cbn [bind]; [| |reflexivity].
      * rewrite IH. destruct (ci_inner a1 a2 xs) as [tl|e]; cbn [bind]; [|reflexivity].
        now rewrite <- app_assoc.
      * rewrite IH. destruct (ci_inner a1 a2 xs) as [tl|e]; reflexivity.
    + destruct (a2 <? b1) eqn:Elt.
      * cbn [bind]. now rewrite app_nil_r.
      * apply IH.
Qed.

Lemma ci_loop1_inv c2 : forall xs i acc,
  ci_loop1 c2 i xs acc = bind (coords_intersect xs c2) (fun l => Ok (acc ++ l)).
Proof.
  induction xs as [|[a1 a2] xs IH]; intros i acc.
  - cbn [ci_loop1 coords_intersect bind]. now rewrite app_nil_r.
  - rewrite ci_loop1_cons, ci_loop2_inv. cbn [coords_intersect].
    destruct (ci_inner a1 a2 c2) as [hd|e]; cbn [bind]; [|reflexivity].
    rewrite IH. destruct (coords_intersect xs c2) as [tl|e]; cbn [bind]; [|reflexivity].
    now rewrite app_assoc.
Qed.

Theorem coords_intersect_eq c1 c2 : g_coords_intersect c1 c2 = coords_intersect c1 c2.
Proof.
  rewrite g_coords_intersect_unfold, ci_loop1_inv. cbn [app]. apply bind_Ok_r.
Qed.

(** * [_coords_minus_coords] *)

(** what follows the inner loop ([break] and falling off the end alike): the
    segment of [coords1] is cut by the total intersect and kept unless covered *)
Definition cmc_fin (a1 a2 : Z) (k : list (Z * Z) -> res (list (Z * Z))) (acc : list (Z * Z)) (tot : option Z)
  : res (list (Z * Z)) :=
  let end_ := a2 - (match tot with Some v => if v =? 0 then 0 else v | None => 0 end) in
  if end_ <? 0 then Err E_Value
  else k (if negb (match tot with Some v => (a2 - a1) =? v | None => false end)
          then acc ++ [(a1, end_)] else acc).

Definition cmc_loop2 (a1 a2 : Z) (k : list (Z * Z) -> res (list (Z * Z))) (acc : list (Z * Z))
  : Z -> list (Z * Z) -> option Z -> res (list (Z * Z)) :=
  fix loop2 (i2 : Z) (xs2 : list (Z * Z)) (tot : option Z) {struct xs2} : res (list (Z * Z)) :=
    match xs2 with
    | [] => cmc_fin a1 a2 k acc tot
    | (b1, b2) :: xs2' =>
        if b2 <? a1 then loop2 (i2 + 1) xs2' tot
        else if a2 <=? b1 then cmc_fin a1 a2 k acc tot
        else bind (g_span_and_span (a1, a2) (b1, b2)) (fun r =>
               loop2 (i2 + 1) xs2'
                 (match r with
                  | Some (p0, p1) =>
                      Some ((p1 - p0) + (match tot with Some v => if v =? 0 then 0 else v | None => 0 end))
                  | None => tot
                  end))
    end.

Definition cmc_loop1 (coords2 : list (Z * Z)) : Z -> list (Z * Z) -> list (Z * Z) -> res (list (Z * Z)) :=
  fix loop1 (i1 : Z) (xs1 : list (Z * Z)) (acc : list (Z * Z)) {struct xs1} : res (list (Z * Z)) :=
    match xs1 with
    | [] => Ok acc
    | (a1, a2) :: xs1' => cmc_loop2 a1 a2 (fun acc' => loop1 (i1 + 1) xs1' acc') acc 0 coords2 None
    end.

Lemma g_coords_minus_coords_unfold c1 c2 : g_coords_minus_coords c1 c2 = cmc_loop1 c2 0 c1 [].
Proof. reflexivity. Qed.

Lemma cmc_loop2_cons a1 a2 k acc i b1 b2 xs tot :
  cmc_loop2 a1 a2 k acc i ((b1, b2) :: xs) tot =
  if b2 <? a1 then cmc_loop2 a1 a2 k acc (i + 1) xs tot
  else if a2 <=? b1 then cmc_fin a1 a2 k acc tot
  else bind (g_span_and_span (a1, a2) (b1, b2)) (fun r =>
         cmc_loop2 a1 a2 k acc (i + 1) xs
           (match r with
            | Some (p0, p1) =>
                Some ((p1 - p0) + (match tot with Some v => if v =? 0 then 0 else v | None => 0 end))
            | None => tot
            end)).
Proof. reflexivity. Qed.

Lemma cmc_loop1_cons c2 i a1 a2 xs acc :
  cmc_loop1 c2 i ((a1, a2) :: xs) acc =
  cmc_loop2 a1 a2 (fun acc' => cmc_loop1 c2 (i + 1) xs acc') acc 0 c2 None.
Proof. reflexivity. Qed.

Lemma cmc_loop2_inv a1 a2 k acc : forall xs i tot,
  cmc_loop2 a1 a2 k acc i xs tot = bind (cmc_inner a1 a2 xs tot) (fun t => cmc_fin a1 a2 k acc t).
Proof.
  induction xs as [|[b1 b2] xs IH]; intros i tot.
  - reflexivity.
  - rewrite cmc_loop2_cons. cbn [cmc_inner]. rewrite span_and_span_eq, or0_eq.
    destruct (b2 <? a1) eqn:Eleft; [apply IH|].
    destruct (a2 <=? b1) eqn:Eright; [reflexivity|].
    destruct (span_and_span (a1, a2) (b1, b2)) as [[[p0 p1]|]|e]; cbn [bind]; [| |reflexivity]; apply IH.
Qed.

Lemma cmc_loop1_inv c2 : forall xs i acc,
  cmc_loop1 c2 i xs acc = bind (coords_minus_coords xs c2) (fun l => Ok (acc ++ l)).
Proof.
  induction xs as [|[a1 a2] xs IH]; intros i acc.
  - cbn [cmc_loop1 coords_minus_coords bind]. now rewrite app_nil_r.
  - rewrite cmc_loop1_cons, cmc_loop2_inv. cbn [coords_minus_coords].
    destruct (cmc_inner a1 a2 c2 None) as [tot|e]; cbn [bind]; [|reflexivity].
    unfold cmc_fin. norm. rewrite or0_eq.
    destruct (a2 - match tot with Some t => t | None => 0 end <? 0) eqn:Eneg; [reflexivity|].
    rewrite IH. destruct (coords_minus_coords xs c2) as [tl|e]; cbn [bind]; [|reflexivity].
    destruct tot as [t|]; [destruct (a2 - a1 =? t) eqn:Ecov|]; cbn [negb bind];
      rewrite <- ?app_assoc; reflexivity.
Qed.

Theorem coords_minus_coords_eq c1 c2 : g_coords_minus_coords c1 c2 = coords_minus_coords c1 c2.
Proof.
  rewrite g_coords_minus_coords_unfold, cmc_loop1_inv. cbn [app]. apply bind_Ok_r.
Qed.

(** * [_gap_spans] without the equal-length hypothesis

    [Proofs/IndelMapGenEq.v] ties [get_seq_index] and [get_gap_align_coordinates] on maps
    whose two arrays are equally long.  The hypothesis is not needed: when
    [gap_pos] is the longer array the generated gap starts are a PREFIX of the
    model's, long enough for every gap end, and only the entries in front of a gap
    end are ever read. *)

Lemma add2_firstn : forall a b n, add2 a (firstn n b) = firstn n (add2 a b).
Proof.
  induction a as [|x a IH]; intros b n.
  - now rewrite firstn_nil.
  - destruct b as [|y b]; [now rewrite !firstn_nil|].
    destruct n as [|n]; [reflexivity|]. cbn [firstn add2]. now rewrite IH.
Qed.

Lemma combine_firstn {A B} : forall (s : list A) (e : list B) n, (length e <= n)%nat ->
  combine (firstn n s) e = combine s e.
Proof.
  induction s as [|x s IH]; intros e n Hn.
  - now rewrite firstn_nil.
  - destruct e as [|y e]; [now destruct n|].
    destruct n as [|n]; cbn [length] in Hn; [lia|].
    cbn [firstn combine]. rewrite IH by lia. reflexivity.
Qed.

Lemma gap_spans_gen gp cl : exists n : nat,
  fst (g_gap_spans gp cl) = firstn n (add2 gp (0 :: cl)) /\
  snd (g_gap_spans gp cl) = add2 gp cl /\
  zlen cl <= Z.of_nat n.
Proof.
  exists (S (Z.to_nat (zlen cl - 1))). split; [|split].
  - unfold g_gap_spans. destruct gp as [|p gp']; [reflexivity|].
    destruct (zlen (p :: gp') =? 0) eqn:Ez.
    { rewrite zlen_cons in Ez. pose proof (zlen_nonneg gp'). lia. }
    cbn [negb fst firstn skipn app add2]. rewrite Z.add_0_r. f_equal.
    unfold zslice. rewrite Z.sub_0_r. change (Z.to_nat 0) with O. cbn [skipn].
    apply add2_firstn.
  - unfold g_gap_spans. destruct gp as [|p gp']; [reflexivity|].
    destruct (zlen (p :: gp') =? 0) eqn:Ez.
    { rewrite zlen_cons in Ez. pose proof (zlen_nonneg gp'). lia. }
    reflexivity.
  - lia.
Qed.

Theorem get_gap_align_coordinates_eq_all m : g_get_gap_align_coordinates m = get_gap_align_coordinates m.
Proof.
  unfold g_get_gap_align_coordinates, get_gap_align_coordinates. norm.
  destruct (gap_spans_gen (gap_pos m) (cum_gap_lengths m)) as (n & Hs & He & Hn).
  rewrite Hs, He. fold (gap_starts m) (gap_ends m).
  rewrite combine_firstn.
  - destruct (combine (gap_starts m) (gap_ends m)) eqn:E; reflexivity.
  - assert (Hle : zlen (gap_ends m) <= zlen (cum_gap_lengths m)) by (unfold gap_ends; rewrite zlen_add2; lia).
    unfold zlen in Hle, Hn. lia.
Qed.

Theorem get_seq_index_eq_all m x : g_get_seq_index m x = get_seq_index m x.
Proof.
  unfold g_get_seq_index, get_seq_index, seq_index_nn. norm. rewrite len_eq.
  destruct (gap_spans_gen (gap_pos m) (cum_gap_lengths m)) as (n & Hs & He & Hn).
  rewrite Hs, He. fold (gap_starts m) (gap_ends m). unfold zlast. rewrite ?pyget_0.
  set (x' := if x <? 0 then len m + x else x).
  destruct (x' <? 0) eqn:Eneg; [reflexivity|].
  destruct (num_gaps m =? 0) eqn:Eng; cbn [negb orb]; [reflexivity|].
  destruct (x' <? znth 0 (gap_pos m) 0) eqn:Efirst; [reflexivity|].
  destruct (x' >=? pyget (gap_ends m) (-1)) eqn:Elast; [reflexivity|].
  assert (Hidx : pyget (firstn n (gap_starts m)) (ss_left (gap_ends m) x') =
                 pyget (gap_starts m) (ss_left (gap_ends m) x')).
  { pose proof (ss_left_spec (gap_ends m) x') as (S1 & S2 & S3).
    assert (Hle : zlen (gap_ends m) <= zlen (cum_gap_lengths m)) by (unfold gap_ends; rewrite zlen_add2; lia).
    assert (Hlt : ss_left (gap_ends m) x' < zlen (gap_ends m)).
    { destruct (Z.eq_dec (ss_left (gap_ends m) x') (zlen (gap_ends m))) as [E|]; [exfalso|lia].
      destruct (Z.eq_dec (zlen (gap_ends m)) 0) as [E0|E0].
      - apply zlen_0_nil in E0. rewrite E0 in Elast. change (pyget [] (-1)) with 0 in Elast. lia.
      - fold (zlast (gap_ends m)) in Elast. rewrite zlast_znth in Elast by lia.
        specialize (S2 (zlen (gap_ends m) - 1) ltac:(lia)). lia. }
    rewrite !pyget_nonneg by lia. apply znth_firstn. lia. }
  rewrite Hidx. reflexivity.
Qed.

(** * [shared_gaps] *)

Theorem shared_gaps_coords_eq_all m og : g_shared_gaps_coords m og = shared_gaps_coords m og.
Proof.
  unfold g_shared_gaps_coords, shared_gaps_coords. norm.
  rewrite len_eq, get_gap_align_coordinates_eq_all, coords_intersect_eq, bind_Ok_r.
  destruct (zlen og =? 0) eqn:Eog; cbn [negb]; reflexivity.
Qed.

Theorem shared_gaps_eq_all m o : g_shared_gaps m o = shared_gaps m o.
Proof.
  unfold g_shared_gaps, shared_gaps.
  rewrite !len_eq, get_gap_align_coordinates_eq_all, shared_gaps_coords_eq_all, bind_Ok_r.
  reflexivity.
Qed.

(** * [minus_gaps] *)

(** the loop of the generated code that fills [new_gaps] row by row *)
Definition mg_loop (m : imap) : Z -> list (Z * Z) -> list (Z * Z) -> res imap :=
  fix loop (i : Z) (xs : list (Z * Z)) (new_gaps : list (Z * Z)) {struct xs} : res imap :=
    match xs with
    | [] => g_post_init_len (map fst new_gaps) (map snd new_gaps) (parent_length m)
    | (s, e) :: xs' =>
        bind (g_get_seq_index m s) (fun p => loop (i + 1) xs' (np_set_pair new_gaps i (p, e - s)))
    end.

Lemma g_minus_gaps_coords_unfold m og :
  g_minus_gaps_coords m og =
  if negb (negb (zlen og =? 0)) then Ok m
  else if last_end og >? g_len m then Err E_Other
  else bind (g_coords_minus_coords (g_get_gap_align_coordinates m) og) (fun unique =>
         mg_loop m 0 unique (np_empty_pairs (zlen unique))).
Proof. reflexivity. Qed.

Lemma mg_loop_cons m i s e xs ng :
  mg_loop m i ((s, e) :: xs) ng =
  bind (g_get_seq_index m s) (fun p => mg_loop m (i + 1) xs (np_set_pair ng i (p, e - s))).
Proof. reflexivity. Qed.

(** assigning the row just behind the rows already filled *)
Lemma np_set_pair_mid v post : forall done i x, zlen done = i ->
  np_set_pair (done ++ x :: post) i v = done ++ v :: post.
Proof.
  induction done as [|d done IH]; intros i x Hi.
  - change (zlen (@nil (Z * Z))) with 0 in Hi. subst i. reflexivity.
  - rewrite zlen_cons in Hi. pose proof (zlen_nonneg done) as Hn.
    cbn [app np_set_pair]. destruct (i =? 0) eqn:Ei; [lia|].
    f_equal. apply IH. lia.
Qed.

(** after the rows [done] of a prefix of [unique]: they are followed by one unassigned row for
    every entry still to come; the first failing [get_seq_index] ends both computations *)
Lemma mg_loop_inv m : forall xs done i, zlen done = i ->
  mg_loop m i xs (done ++ repeat (0, 0) (length xs)) =
  bind (minus_new_gaps m xs) (fun '(ps, ls) =>
    post_init_lengths (map fst done ++ ps) (map snd done ++ ls) (parent_length m)).
Proof.
  induction xs as [|[s e] xs IH]; intros done i Hi.
  - cbn [mg_loop minus_new_gaps bind repeat length]. now rewrite !app_nil_r.
  - rewrite mg_loop_cons, get_seq_index_eq_all. cbn [minus_new_gaps length repeat].
    destruct (get_seq_index m s) as [p|err]; cbn [bind]; [|reflexivity].
    rewrite (np_set_pair_mid _ _ done i _ Hi).
    change (done ++ (p, e - s) :: repeat (0, 0) (length xs))
      with (done ++ [(p, e - s)] ++ repeat (0, 0) (length xs)).
    rewrite app_assoc, (IH (done ++ [(p, e - s)]) (i + 1)).
    2:{ rewrite zlen_app, zlen_cons. change (zlen (@nil (Z * Z))) with 0. lia. }
    destruct (minus_new_gaps m xs) as [[ps ls]|err]; cbn [bind]; [|reflexivity].
    rewrite !map_app, <- !app_assoc. reflexivity.
Qed.

Theorem minus_gaps_coords_eq_all m og : g_minus_gaps_coords m og = minus_gaps_coords m og.
Proof.
  rewrite g_minus_gaps_coords_unfold. unfold minus_gaps_coords.
  rewrite len_eq, get_gap_align_coordinates_eq_all, coords_minus_coords_eq.
  destruct (zlen og =? 0) eqn:Eog; cbn [negb]; [reflexivity|].
  destruct (last_end og >? len m) eqn:Elast; [reflexivity|].
  destruct (coords_minus_coords (get_gap_align_coordinates m) og) as [unique|err]; cbn [bind]; [|reflexivity].
  unfold np_empty_pairs, zlen. rewrite Nat2Z.id.
  apply (mg_loop_inv m unique [] 0). reflexivity.
Qed.

Theorem minus_gaps_eq_all m o : g_minus_gaps m o = minus_gaps m o.
Proof.
  unfold g_minus_gaps, minus_gaps.
  rewrite !len_eq, get_gap_align_coordinates_eq_all, minus_gaps_coords_eq_all, bind_Ok_r.
  reflexivity.
Qed.

(** * the statements on constructed maps ([LenOK], as in Proofs/IndelMapGenEq.v); the hypothesis is not used *)

Corollary shared_gaps_coords_eq m og : LenOK m -> g_shared_gaps_coords m og = shared_gaps_coords m og.
Proof. intros _. apply shared_gaps_coords_eq_all. Qed.

Corollary shared_gaps_eq m o : LenOK m -> LenOK o -> g_shared_gaps m o = shared_gaps m o.
Proof. intros _ _. apply shared_gaps_eq_all. Qed.

Corollary minus_gaps_coords_eq m og : LenOK m -> g_minus_gaps_coords m og = minus_gaps_coords m og.
Proof. intros _. apply minus_gaps_coords_eq_all. Qed.

Corollary minus_gaps_eq m o : LenOK m -> LenOK o -> g_minus_gaps m o = minus_gaps m o.
Proof. intros _ _. apply minus_gaps_eq_all. Qed.
