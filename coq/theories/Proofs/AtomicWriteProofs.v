(** C19 — proofs about the atomic-write programs and about resuming apply_to. *)
From CG3 Require Import Lib.PyZ Model.AtomicWrite.

(** operations that never touch the destination *)
Definition keeps_dest (o : op) : bool :=
  match o with
  | Mkdtemp | OpenTmp | Write _ | Close | Rmtree => true
  | _ => false
  end.

Lemma exec_keeps_dest s o : keeps_dest o = true -> dest (exec s o) = dest s.
Proof. destruct o; simpl; intros H; try reflexivity; discriminate. Qed.

Lemma run_keeps_dest l s : forallb keeps_dest l = true -> dest (run l s) = dest s.
Proof.
  revert s; induction l as [|o l IH]; intros s H; [reflexivity|].
  simpl in H. apply andb_prop in H. destruct H as [Ho Hl].
  unfold run in *. simpl. rewrite (IH (exec s o) Hl). apply exec_keeps_dest; exact Ho.
Qed.

Lemma forallb_firstn {A} (p : A -> bool) k l : forallb p l = true -> forallb p (firstn k l) = true.
Proof.
  revert k; induction l as [|a l IH]; intros k H; destruct k; simpl in *; auto.
  apply andb_prop in H. destruct H as [Ha Hl]. rewrite Ha. simpl. apply IH; exact Hl.
Qed.

Lemma run_app a b s : run (a ++ b) s = run b (run a s).
Proof. unfold run. apply fold_left_app. Qed.

Lemma run_writes chunks d t :
  run (map Write chunks) {| dest := d; tmpdir := true; tmpfile := Some t |}
  = {| dest := d; tmpdir := true; tmpfile := Some (t ++ concat chunks) |}.
Proof.
  revert t; induction chunks as [|c cs IH]; intros t; simpl.
  - rewrite app_nil_r. reflexivity.
  - unfold run in *. simpl. rewrite IH. rewrite <- app_assoc. reflexivity.
Qed.

(** the part of a successful program that precedes the commit *)
Definition pre_commit (chunks : list content) : list op :=
  [Mkdtemp; OpenTmp] ++ map Write chunks ++ [Close].

Lemma prog_ok_split commit chunks :
  prog_ok commit chunks = pre_commit chunks ++ commit ++ [Rmtree].
Proof. unfold prog_ok, pre_commit. rewrite <- !app_assoc. reflexivity. Qed.

Lemma pre_commit_keeps chunks : forallb keeps_dest (pre_commit chunks) = true.
Proof.
  unfold pre_commit. simpl. rewrite forallb_app. simpl.
  rewrite andb_true_r. induction chunks; simpl; auto.
Qed.

Lemma run_pre_commit chunks old :
  run (pre_commit chunks) (init old)
  = {| dest := old; tmpdir := true; tmpfile := Some (concat chunks) |}.
Proof.
  unfold pre_commit. rewrite !run_app. unfold init.
  change (run [Mkdtemp; OpenTmp] {| dest := old; tmpdir := false; tmpfile := None |})
    with {| dest := old; tmpdir := true; tmpfile := Some [] |}.
  rewrite run_writes. reflexivity.
Qed.

(** ---- kill at every operation boundary: os.replace commit ---- *)
Lemma atomic_prefix_replace old chunks k :
  let s := run_prefix k (prog_ok commit_replace chunks) (init old) in
  dest s = old \/ dest s = Some (concat chunks).
Proof.
  cbv zeta. unfold run_prefix. rewrite prog_ok_split, firstn_app, run_app.
  destruct (Nat.le_gt_cases k (length (pre_commit chunks))) as [Hle|Hgt].
  - left. rewrite (proj2 (Nat.sub_0_le _ _) Hle).
    simpl firstn. unfold run at 1. simpl fold_left.
    rewrite run_keeps_dest; [reflexivity|]. apply forallb_firstn, pre_commit_keeps.
  - rewrite (firstn_all2 (pre_commit chunks)) by (apply Nat.lt_le_incl; exact Hgt). rewrite run_pre_commit.
    remember (k - length (pre_commit chunks))%nat as m eqn:Em.
    destruct m as [|[|m]].
    + exfalso. symmetry in Em. apply Nat.sub_0_le in Em. apply (Nat.lt_irrefl k). eapply Nat.le_lt_trans; eauto.
    + right; reflexivity.
    + right; destruct m; reflexivity.
Qed.

Lemma complete_replace old chunks :
  run (prog_ok commit_replace chunks) (init old)
  = {| dest := Some (concat chunks); tmpdir := false; tmpfile := None |}.
Proof. rewrite prog_ok_split, run_app, run_pre_commit. reflexivity. Qed.

(** ---- the pre-fix commit (unlink, then rename) is NOT atomic ---- *)
Lemma unlink_rename_not_atomic :
  exists old chunks k,
    let s := run_prefix k (prog_ok commit_unlink_rename chunks) (init old) in
    dest s <> old /\ dest s <> Some (concat chunks).
Proof. exists (Some [79; 76; 68]), [[78; 69; 87]], 5%nat. vm_compute. split; discriminate. Qed.

(** ---- formatting failure inside the body ---- *)
Lemma fail_prog_keeps chunks j : forallb keeps_dest (prog_fail [] chunks j) = true.
Proof.
  unfold prog_fail. simpl. rewrite forallb_app. simpl. rewrite andb_true_r.
  induction (firstn j chunks); simpl; auto.
Qed.

Lemma fail_clean old chunks j :
  run (prog_fail [] chunks j) (init old) = init old.
Proof.
  unfold prog_fail. rewrite !run_app. unfold init.
  change (run [Mkdtemp; OpenTmp] {| dest := old; tmpdir := false; tmpfile := None |})
    with {| dest := old; tmpdir := true; tmpfile := Some [] |}.
  rewrite run_writes. reflexivity.
Qed.

Lemma fail_every_prefix_keeps_old old chunks j k :
  dest (run_prefix k (prog_fail [] chunks j) (init old)) = old.
Proof.
  unfold run_prefix. rewrite run_keeps_dest; [reflexivity|].
  apply forallb_firstn, fail_prog_keeps.
Qed.

(** save_to_filename's former except-branch destroyed the previous file *)
Lemma fail_with_unlink_destroys :
  exists old chunks j, old <> None /\
    dest (run (prog_fail [UnlinkDestOnError] chunks j) (init old)) = None.
Proof. exists (Some [79]), [[78]], 0%nat. split; [discriminate|reflexivity]. Qed.

(** ---- OSError raised by operation k ---- *)
Lemma handler_keeps o : forallb keeps_dest (handler_after o) = true.
Proof. destruct o; reflexivity. Qed.

Lemma fault_dest_safe old chunks k :
  let s := run_fault k (prog_ok commit_replace chunks) (init old) in
  dest s = old \/ dest s = Some (concat chunks).
Proof.
  cbv zeta. unfold run_fault.
  destruct (nth_error (prog_ok commit_replace chunks) k) as [o|] eqn:E.
  - rewrite run_keeps_dest by apply handler_keeps.
    apply (atomic_prefix_replace old chunks k).
  - rewrite complete_replace. right; reflexivity.
Qed.

(** every raised OSError is handled: nothing temporary remains *)
Lemma handler_shape o : o = Mkdtemp \/ exists h, handler_after o = h ++ [Rmtree].
Proof.
  destruct o; try (right; exists []; reflexivity); try (right; exists [Close]; reflexivity).
  left; reflexivity.
Qed.

Lemma no_tmp_after_rmtree h s : no_tmp (run (h ++ [Rmtree]) s) = true.
Proof. rewrite run_app. reflexivity. Qed.

Lemma mkdtemp_only_first commit chunks k :
  ~ In Mkdtemp commit ->
  nth_error (prog_ok commit chunks) k = Some Mkdtemp -> k = 0%nat.
Proof.
  intros Hc E. destruct k as [|[|k]]; [reflexivity|discriminate|].
  exfalso. unfold prog_ok in E. simpl in E.
  apply nth_error_In in E. apply in_app_or in E. destruct E as [E|E].
  - rewrite in_map_iff in E. destruct E as [c [E _]]. discriminate.
  - simpl in E. destruct E as [E|E]; [discriminate|].
    apply in_app_or in E. destruct E as [E|E]; [exact (Hc E)|].
    destruct E as [E|[]]. discriminate.
Qed.

Lemma fault_clean old chunks k o :
  nth_error (prog_ok commit_replace chunks) k = Some o ->
  no_tmp (run_fault k (prog_ok commit_replace chunks) (init old)) = true.
Proof.
  intros E. unfold run_fault. rewrite E.
  destruct (handler_shape o) as [->|[h Hh]].
  - apply mkdtemp_only_first in E.
    + subst k. reflexivity.
    + intros [H|[]]. discriminate.
  - rewrite Hh. apply no_tmp_after_rmtree.
Qed.

(** ---------- resume ---------- *)
Section ResumeProofs.
  Variable f : Z -> Z.

  Lemma has_app st i x : has (st ++ [x]) i = has st i || (fst x =? i).
  Proof. unfold has. rewrite existsb_app. simpl. rewrite orb_false_r. reflexivity. Qed.

  Lemma apply_to_app a b st : apply_to f (a ++ b) st = apply_to f b (apply_to f a st).
  Proof. unfold apply_to. apply fold_left_app. Qed.

  (** once an id is in the store it stays, and its record is never rewritten *)
  Lemma step_keeps_has st i j : has st j = true -> has (step_input f st i) j = true.
  Proof.
    unfold step_input. destruct (has st i); [auto|]. intros H. rewrite has_app, H. reflexivity.
  Qed.

  Lemma apply_to_keeps_has inputs st j : has st j = true -> has (apply_to f inputs st) j = true.
  Proof.
    revert st; induction inputs as [|i l IH]; intros st H; [exact H|].
    unfold apply_to in *. simpl. apply IH. apply step_keeps_has; exact H.
  Qed.

  (** inputs already completed are skipped: filtering the inputs by any store
      contained in the current one does not change the run *)
  Lemma apply_to_filter_sub inputs st st0 :
    (forall j, has st0 j = true -> has st j = true) ->
    apply_to f inputs st = apply_to f (filter (fun i => negb (has st0 i)) inputs) st.
  Proof.
    revert st; induction inputs as [|i l IH]; intros st Hsub; [reflexivity|].
    simpl filter. destruct (has st0 i) eqn:E0; simpl negb; cbv iota.
    - change (apply_to f (i :: l) st) with (apply_to f l (step_input f st i)).
      unfold step_input at 1. rewrite (Hsub i E0). apply IH; exact Hsub.
    - change (apply_to f (i :: l) st) with (apply_to f l (step_input f st i)).
      change (apply_to f (i :: filter (fun i0 => negb (has st0 i0)) l) st)
        with (apply_to f (filter (fun i0 => negb (has st0 i0)) l) (step_input f st i)).
      apply IH. intros j Hj. apply step_keeps_has, Hsub, Hj.
  Qed.

  Lemma apply_to_skips inputs st :
    apply_to f inputs st = apply_to f (processed inputs st) st.
  Proof. apply apply_to_filter_sub. auto. Qed.

  Lemma processed_nil_if_all_present inputs st :
    (forall i, In i inputs -> has st i = true) -> processed inputs st = [].
  Proof.
    intros H. unfold processed. induction inputs as [|i l IH]; [reflexivity|].
    simpl. rewrite (H i (or_introl eq_refl)). simpl. apply IH. intros j Hj. apply H. right; exact Hj.
  Qed.

  Lemma filter_filter_mono st st1 l :
    (forall j, has st j = true -> has st1 j = true) ->
    filter (fun i => negb (has st1 i)) l
    = filter (fun i => negb (has st1 i)) (filter (fun i => negb (has st i)) l).
  Proof.
    intros Hmono. induction l as [|x xs IH]; [reflexivity|]. simpl.
    destruct (has st x) eqn:Ex; simpl.
    - rewrite (Hmono x Ex). simpl. exact IH.
    - rewrite IH. reflexivity.
  Qed.

  Lemma all_present_after l st i : In i l -> has (apply_to f l st) i = true.
  Proof.
    revert st; induction l as [|x xs IH]; intros st Hi; [destruct Hi|].
    change (apply_to f (x :: xs) st) with (apply_to f xs (step_input f st x)).
    destruct Hi as [->|Hi].
    - apply apply_to_keeps_has. unfold step_input. destruct (has st i) eqn:E; [exact E|].
      rewrite has_app. simpl. rewrite Z.eqb_refl. apply orb_true_r.
    - apply IH; exact Hi.
  Qed.

  (** resuming after an interruption at ANY point ends in the store of the uninterrupted run *)
  Lemma resume_same k inputs st :
    apply_to f inputs (interrupted f k inputs st) = apply_to f inputs st.
  Proof.
    unfold interrupted.
    rewrite (apply_to_skips inputs st).
    set (P := processed inputs st).
    rewrite <- (firstn_skipn k P) at 2. rewrite apply_to_app.
    set (st1 := apply_to f (firstn k P) st).
    rewrite (apply_to_skips inputs st1).
    rewrite (apply_to_skips (skipn k P) st1).
    f_equal.
    unfold processed.
    assert (Hmono : forall j, has st j = true -> has st1 j = true)
      by (intros j Hj; apply apply_to_keeps_has; exact Hj).
    rewrite (filter_filter_mono st st1 inputs Hmono).
    fold (processed inputs st). fold P.
    rewrite <- (firstn_skipn k P) at 1. rewrite filter_app.
    assert (Hfirst : filter (fun i => negb (has st1 i)) (firstn k P) = []).
    { apply (processed_nil_if_all_present (firstn k P) st1).
      intros i Hi. apply all_present_after; exact Hi. }
    rewrite Hfirst. reflexivity.
  Qed.

  (** on resume exactly the missing inputs are processed *)
  Lemma resume_processes_missing k inputs st :
    processed inputs (interrupted f k inputs st)
    = filter (fun i => negb (has (interrupted f k inputs st) i)) (skipn k (processed inputs st)).
  Proof.
    unfold interrupted. set (P := processed inputs st).
    set (st1 := apply_to f (firstn k P) st).
    assert (Hmono : forall j, has st j = true -> has st1 j = true)
      by (intros j Hj; apply apply_to_keeps_has; exact Hj).
    unfold processed at 1. rewrite (filter_filter_mono st st1 inputs Hmono).
    fold (processed inputs st). fold P.
    rewrite <- (firstn_skipn k P) at 1. rewrite filter_app.
    assert (Hfirst : filter (fun i => negb (has st1 i)) (firstn k P) = []).
    { apply (processed_nil_if_all_present (firstn k P) st1).
      intros i Hi. apply all_present_after; exact Hi. }
    rewrite Hfirst. reflexivity.
  Qed.

  (** records present before a (re-)run are never modified by it *)
  Lemma apply_to_extends inputs st : exists added, apply_to f inputs st = st ++ added.
  Proof.
    revert st; induction inputs as [|i l IH]; intros st.
    - exists []. rewrite app_nil_r. reflexivity.
    - change (apply_to f (i :: l) st) with (apply_to f l (step_input f st i)).
      destruct (IH (step_input f st i)) as [a Ha]. rewrite Ha.
      unfold step_input. destruct (has st i).
      + exists a. reflexivity.
      + exists ((i, f i) :: a). rewrite <- app_assoc. reflexivity.
  Qed.
End ResumeProofs.

(** ---------- exception classes: which failures the handlers clean up ---------- *)
Lemma handler_cls_keeps H e o : forallb keeps_dest (handler_after_cls H e o) = true.
Proof.
  destruct o; simpl; try reflexivity;
    try (destruct (catches (h_enter H) e); reflexivity);
    try (destruct (catches (h_exit H) e); reflexivity).
Qed.

Lemma fault_cls_dest_safe H e old chunks k :
  let s := run_fault_cls H e k (prog_ok commit_replace chunks) (init old) in
  dest s = old \/ dest s = Some (concat chunks).
Proof.
  cbv zeta. unfold run_fault_cls.
  destruct (nth_error (prog_ok commit_replace chunks) k) as [o|] eqn:E.
  - rewrite run_keeps_dest by apply handler_cls_keeps.
    apply (atomic_prefix_replace old chunks k).
  - rewrite complete_replace. right; reflexivity.
Qed.

Lemma handler_cls_eq H e o :
  catches (h_enter H) e = true -> catches (h_exit H) e = true ->
  handler_after_cls H e o = handler_after o.
Proof. intros He Hx. destruct o; simpl; rewrite ?He, ?Hx; reflexivity. Qed.

Lemma fault_cls_clean H e old chunks k o :
  catches (h_enter H) e = true -> catches (h_exit H) e = true ->
  nth_error (prog_ok commit_replace chunks) k = Some o ->
  no_tmp (run_fault_cls H e k (prog_ok commit_replace chunks) (init old)) = true.
Proof.
  intros He Hx E.
  pose proof (fault_clean old chunks k o E) as F.
  unfold run_fault in F. unfold run_fault_cls. rewrite E in *.
  rewrite (handler_cls_eq H e o He Hx). exact F.
Qed.

Lemma covers_handled_spec H e :
  covers_handled H = true -> In e handled_classes ->
  catches (h_enter H) e = true /\ catches (h_exit H) e = true.
Proof.
  unfold covers_handled. intros C I. rewrite forallb_forall in C.
  specialize (C e I). apply andb_prop in C. exact C.
Qed.

Lemma fault_handled_clean H e old chunks k o :
  covers_handled H = true -> In e handled_classes ->
  nth_error (prog_ok commit_replace chunks) k = Some o ->
  no_tmp (run_fault_cls H e k (prog_ok commit_replace chunks) (init old)) = true.
Proof.
  intros C I E. destruct (covers_handled_spec H e C I) as [He Hx].
  exact (fault_cls_clean H e old chunks k o He Hx E).
Qed.

(** the clauses of the present source: `except Exception` twice *)
Definition handlers_exception : handlers := {| h_enter := [BException]; h_exit := [BException] |}.
Lemma handlers_exception_cover : covers_handled handlers_exception = true.
Proof. reflexivity. Qed.

(** narrowed to OSError they no longer clean up after a ValueError *)
Lemma oserror_only_leaks :
  exists e old chunks k,
    In e handled_classes /\
    no_tmp (run_fault_cls {| h_enter := [BOSError]; h_exit := [BOSError] |} e k
              (prog_ok commit_replace chunks) (init old)) = false.
Proof. exists EValue, (Some [79]), [[78]], 1%nat. split; [right; left; reflexivity|reflexivity]. Qed.

(** an exception that is not an Exception (KeyboardInterrupt) raised in the body is still cleaned up *)
Lemma body_failure_clean_any_class old chunks j :
  no_tmp (run (prog_fail [] chunks j) (init old)) = true.
Proof. rewrite fail_clean. reflexivity. Qed.

(** ---------- zip targets ---------- *)
Definition zkeeps (o : zop) : bool :=
  match o with
  | ZReplace | ZCreate Dest | ZAdd Dest => false
  | _ => true
  end.

Lemma zexec_keeps s o : zkeeps o = true -> zdest (zexec s o) = zdest s.
Proof.
  destruct o as [| | | c | | t | t | t | | |]; try destruct t; simpl; intros Hk;
    try reflexivity; try discriminate;
    try (destruct (zfile s); reflexivity); try (destruct (zinner s); reflexivity).
Qed.

Lemma zrun_keeps l s : forallb zkeeps l = true -> zdest (zrun l s) = zdest s.
Proof.
  revert s; induction l as [|o l IH]; intros s Hl; [reflexivity|].
  simpl in Hl. apply andb_prop in Hl. destruct Hl as [Ho Hl].
  unfold zrun in *. simpl. rewrite (IH (zexec s o) Hl). apply zexec_keeps; exact Ho.
Qed.

Lemma zrun_app a b s : zrun (a ++ b) s = zrun b (zrun a s).
Proof. unfold zrun. apply fold_left_app. Qed.

Lemma zrun_writes chunks d o st i t :
  zrun (map ZWrite chunks) {| zdest := d; zouter := o; zstaged := st; zinner := i; zfile := Some t |}
  = {| zdest := d; zouter := o; zstaged := st; zinner := i; zfile := Some (t ++ concat chunks) |}.
Proof.
  revert t; induction chunks as [|c cs IH]; intros t; simpl.
  - rewrite app_nil_r. reflexivity.
  - unfold zrun in *. simpl. rewrite IH. rewrite <- app_assoc. reflexivity.
Qed.

(** everything a `.zip` write does before the single replace *)
Definition zpre (chunks : list content) : list zop :=
  [ZMkOuter; ZMkInner; ZOpenFile] ++ map ZWrite chunks
  ++ [ZClose; ZTryOpen Staged; ZCreate Staged; ZAdd Staged; ZRmInner].

Lemma zprog_staged_split chunks : zprog_staged chunks = zpre chunks ++ [ZReplace; ZRmOuter].
Proof. unfold zprog_staged, zpre. rewrite <- !app_assoc. reflexivity. Qed.

Lemma zpre_keeps chunks : forallb zkeeps (zpre chunks) = true.
Proof.
  unfold zpre. simpl. rewrite forallb_app. simpl. rewrite andb_true_r.
  induction chunks; simpl; auto.
Qed.

Lemma zrun_zpre chunks old :
  zrun (zpre chunks) (zinit old)
  = {| zdest := old; zouter := true; zstaged := Some (Members [concat chunks]); zinner := false; zfile := None |}.
Proof.
  unfold zpre. rewrite !zrun_app. unfold zinit.
  change (zrun [ZMkOuter; ZMkInner; ZOpenFile] {| zdest := old; zouter := false; zstaged := None; zinner := false; zfile := None |})
    with {| zdest := old; zouter := true; zstaged := None; zinner := true; zfile := Some [] |}.
  rewrite zrun_writes. reflexivity.
Qed.

Lemma zip_staged_prefix old chunks k :
  let s := zrun (firstn k (zprog_staged chunks)) (zinit old) in
  zdest s = old \/ zdest s = Some (Members [concat chunks]).
Proof.
  cbv zeta. rewrite zprog_staged_split, firstn_app, zrun_app.
  destruct (Nat.le_gt_cases k (length (zpre chunks))) as [Hle|Hgt].
  - left. rewrite (proj2 (Nat.sub_0_le _ _) Hle).
    simpl firstn. unfold zrun at 1. simpl fold_left.
    rewrite zrun_keeps; [reflexivity|]. apply forallb_firstn, zpre_keeps.
  - rewrite (firstn_all2 (zpre chunks)) by (apply Nat.lt_le_incl; exact Hgt). rewrite zrun_zpre.
    remember (k - length (zpre chunks))%nat as m eqn:Em.
    destruct m as [|[|m]].
    + exfalso. symmetry in Em. apply Nat.sub_0_le in Em. apply (Nat.lt_irrefl k). eapply Nat.le_lt_trans; eauto.
    + right; reflexivity.
    + right; destruct m; reflexivity.
Qed.

Lemma zip_staged_complete old chunks :
  zrun (zprog_staged chunks) (zinit old)
  = {| zdest := Some (Members [concat chunks]); zouter := false; zstaged := None; zinner := false; zfile := None |}.
Proof. rewrite zprog_staged_split, zrun_app, zrun_zpre. reflexivity. Qed.

(** an archive appended to where it is: a death right after ZipFile created the
    (still empty) file leaves something that is neither absent nor an archive *)
Lemma zip_append_not_atomic :
  exists chunks k,
    let s := zrun (firstn k (zprog_append false chunks)) (zinit None) in
    zdest s <> None /\ zdest s <> Some (Members [concat chunks]).
Proof. exists [[78; 69; 87]], 6%nat. vm_compute. split; discriminate. Qed.

(** committing a `.zip` DESTINATION that way keeps the previous member: not "exactly the new content" *)
Lemma zip_append_keeps_old_member :
  exists o chunks,
    zdest (zrun (zprog_append true chunks) (zinit (Some (Members [o])))) = Some (Members [o; concat chunks])
    /\ Some (Members [o; concat chunks]) <> Some (Members [concat chunks]).
Proof. exists [79; 76; 68], [[78; 69; 87]]. split; [reflexivity|discriminate]. Qed.

(** ---------- resume with not-completed records ---------- *)
Section ResumeNCProofs.
  Variable g : Z -> Z * bool.

  Lemma has_c_set_other st i j v : (i =? j) = false -> has_c (set_rec st i v) j = has_c st j.
  Proof.
    intros Hij. induction st as [|p t IH]; simpl.
    - rewrite Hij. reflexivity.
    - destruct (fst p =? i) eqn:Ep.
      + apply Z.eqb_eq in Ep. simpl. rewrite Ep, Hij. reflexivity.
      + simpl. rewrite IH. reflexivity.
  Qed.

  Lemma set_rec_idem st i v : set_rec (set_rec st i v) i v = set_rec st i v.
  Proof.
    induction st as [|p t IH]; simpl.
    - rewrite Z.eqb_refl. reflexivity.
    - destruct (fst p =? i) eqn:Ep; simpl.
      + rewrite Z.eqb_refl. reflexivity.
      + rewrite Ep, IH. reflexivity.
  Qed.

  Lemma set_rec_fixed_other st i j v w :
    (i =? j) = false -> set_rec st i w = st -> set_rec (set_rec st j v) i w = set_rec st j v.
  Proof.
    intros Hij. induction st as [|p t IH]; simpl; intros Hfix.
    - discriminate.
    - destruct (fst p =? i) eqn:Epi.
      + assert (Epj : (fst p =? j) = false).
        { apply Z.eqb_eq in Epi. rewrite Epi. exact Hij. }
        rewrite Epj. simpl. rewrite Epi. injection Hfix as Hp. rewrite Hp. reflexivity.
      + injection Hfix as Ht. destruct (fst p =? j) eqn:Epj; simpl.
        * assert (Eji : (j =? i) = false) by (rewrite Z.eqb_sym; exact Hij).
          rewrite Eji, Ht. reflexivity.
        * rewrite Epi, (IH Ht). reflexivity.
  Qed.

  (** [i] is settled in [st]: processing it again changes nothing *)
  Definition okrec (st : list rec) (i : Z) : Prop := has_c st i = true \/ set_rec st i (g i) = st.

  Lemma okrec_step_same st i : okrec st i -> step_nc g st i = st.
  Proof. unfold step_nc. intros [H|H]; [rewrite H; reflexivity|]. destruct (has_c st i); [reflexivity|exact H]. Qed.

  Lemma okrec_after_step st i : okrec (step_nc g st i) i.
  Proof.
    unfold step_nc. destruct (has_c st i) eqn:E.
    - left; exact E.
    - right. apply set_rec_idem.
  Qed.

  Lemma okrec_step_other st i j : okrec st i -> okrec (step_nc g st j) i.
  Proof.
    intros Hok. destruct (j =? i) eqn:Eji.
    - apply Z.eqb_eq in Eji. subst j. rewrite (okrec_step_same st i Hok). exact Hok.
    - unfold step_nc. destruct (has_c st j); [exact Hok|].
      destruct Hok as [H|H].
      + left. rewrite has_c_set_other by exact Eji. exact H.
      + right. apply set_rec_fixed_other; [rewrite Z.eqb_sym; exact Eji|exact H].
  Qed.

  Lemma okrec_apply st l i : okrec st i -> okrec (apply_nc g l st) i.
  Proof.
    revert st; induction l as [|a l IH]; intros st H; [exact H|].
    unfold apply_nc in *. simpl. apply IH. apply okrec_step_other; exact H.
  Qed.

  Lemma okrec_all_after l st i : In i l -> okrec (apply_nc g l st) i.
  Proof.
    revert st; induction l as [|a l IH]; intros st Hi; [destruct Hi|].
    change (apply_nc g (a :: l) st) with (apply_nc g l (step_nc g st a)).
    destruct Hi as [->|Hi].
    - apply okrec_apply. apply okrec_after_step.
    - apply IH; exact Hi.
  Qed.

  Lemma apply_nc_settled l st : (forall i, In i l -> okrec st i) -> apply_nc g l st = st.
  Proof.
    induction l as [|a l IH]; intros H; [reflexivity|].
    change (apply_nc g (a :: l) st) with (apply_nc g l (step_nc g st a)).
    rewrite (okrec_step_same st a (H a (or_introl eq_refl))).
    apply IH. intros i Hi. apply H. right; exact Hi.
  Qed.

  (** running the same inputs a second time changes nothing *)
  Lemma apply_nc_idem l st : apply_nc g l (apply_nc g l st) = apply_nc g l st.
  Proof. apply apply_nc_settled. intros i Hi. apply okrec_all_after; exact Hi. Qed.

  Lemma apply_nc_app a b st : apply_nc g (a ++ b) st = apply_nc g b (apply_nc g a st).
  Proof. unfold apply_nc. apply fold_left_app. Qed.

  (** a completed record stays completed *)
  Lemma step_nc_keeps_has st i j : has_c st j = true -> has_c (step_nc g st i) j = true.
  Proof.
    intros H. unfold step_nc. destruct (has_c st i) eqn:Ei; [exact H|].
    destruct (i =? j) eqn:Eij.
    - apply Z.eqb_eq in Eij. subst j. rewrite H in Ei. discriminate.
    - rewrite has_c_set_other by exact Eij. exact H.
  Qed.

  Lemma apply_nc_keeps_has l st j : has_c st j = true -> has_c (apply_nc g l st) j = true.
  Proof.
    revert st; induction l as [|i l IH]; intros st H; [exact H|].
    unfold apply_nc in *. simpl. apply IH. apply step_nc_keeps_has; exact H.
  Qed.

  Lemma apply_nc_filter_sub inputs st st0 :
    (forall j, has_c st0 j = true -> has_c st j = true) ->
    apply_nc g inputs st = apply_nc g (filter (fun i => negb (has_c st0 i)) inputs) st.
  Proof.
    revert st; induction inputs as [|i l IH]; intros st Hsub; [reflexivity|].
    simpl filter. destruct (has_c st0 i) eqn:E0; simpl negb; cbv iota.
    - change (apply_nc g (i :: l) st) with (apply_nc g l (step_nc g st i)).
      unfold step_nc at 1. rewrite (Hsub i E0). apply IH; exact Hsub.
    - change (apply_nc g (i :: l) st) with (apply_nc g l (step_nc g st i)).
      change (apply_nc g (i :: filter (fun i0 => negb (has_c st0 i0)) l) st)
        with (apply_nc g (filter (fun i0 => negb (has_c st0 i0)) l) (step_nc g st i)).
      apply IH. intros j Hj. apply step_nc_keeps_has, Hsub, Hj.
  Qed.

  (** resuming after an interruption at ANY point, with ANY inputs failing, ends in the store of the uninterrupted run *)
  Lemma resume_nc_same k inputs st :
    apply_nc g inputs (interrupted_nc g k inputs st) = apply_nc g inputs st.
  Proof.
    unfold interrupted_nc.
    set (P := processed_nc inputs st).
    set (st1 := apply_nc g (firstn k P) st).
    assert (Hmono : forall j, has_c st j = true -> has_c st1 j = true)
      by (intros j Hj; apply apply_nc_keeps_has; exact Hj).
    rewrite (apply_nc_filter_sub inputs st1 st Hmono).
    rewrite (apply_nc_filter_sub inputs st st (fun j H => H)).
    fold (processed_nc inputs st). fold P.
    rewrite <- (firstn_skipn k P) at 1 2. rewrite !apply_nc_app.
    fold st1. unfold st1 at 1. rewrite apply_nc_idem. reflexivity.
  Qed.

  (** an input with a completed record is never processed again *)
  Lemma resume_nc_skips_completed k inputs st i :
    In i (processed_nc inputs (interrupted_nc g k inputs st)) ->
    has_c (interrupted_nc g k inputs st) i = false.
  Proof.
    unfold processed_nc. rewrite filter_In. intros [_ H]. apply negb_true_iff in H. exact H.
  Qed.

  (** ... and every input without one is *)
  Lemma resume_nc_processes_rest k inputs st i :
    In i inputs -> has_c (interrupted_nc g k inputs st) i = false ->
    In i (processed_nc inputs (interrupted_nc g k inputs st)).
  Proof.
    intros Hi H. unfold processed_nc. rewrite filter_In. split; [exact Hi|]. rewrite H. reflexivity.
  Qed.
End ResumeNCProofs.

Example ex_zip_prefix :
  zdest (zrun (firstn 8 (zprog_staged [[1]; [2]])) (zinit (Some (Members [[9]])))) = Some (Members [[9]]).
Proof. reflexivity. Qed.
Example ex_resume_nc :
  let g := fun i => (i * 10, negb (i =? 2)) in
  apply_nc g [1; 2; 3] (interrupted_nc g 2 [1; 2; 3] []) = [(1, (10, true)); (2, (20, false)); (3, (30, true))].
Proof. reflexivity. Qed.

(** non-vacuity *)
Example ex_prefix : dest (run_prefix 4 (prog_ok commit_replace [[1]; [2]]) (init (Some [9]))) = Some [9].
Proof. reflexivity. Qed.
Example ex_resume :
  apply_to (fun i => i * 10) [1; 2; 3; 4] (interrupted (fun i => i * 10) 2 [1; 2; 3; 4] [(2, 20)])
  = [(2, 20); (1, 10); (3, 30); (4, 40)].
Proof. reflexivity. Qed.
