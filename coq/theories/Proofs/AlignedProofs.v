(** C03 — lemmas: rows of the annotatable alignment class read as gapped strings. *)
From CG3 Require Import Lib.PyZ Lib.Val Lib.PySlice Model.View Model.IndelMap Model.IndelMapFixed Model.Aligned.
From CG3 Require Import Spec.ViewSpec Spec.IndelMapSpec Spec.AlignedSpec.

(** a gapped string is its mask filled with its residues *)
Lemma fill_mask_strip s : fill (mask s) (strip s) = s.
Proof.
  induction s as [|c s IH]; [reflexivity|].
  unfold mask, strip in *. cbn [map filter]. unfold is_res at 1 3.
  destruct (c =? GAPC) eqn:E; cbn [negb fill].
  - rewrite IH. f_equal. lia.
  - rewrite IH. reflexivity.
Qed.

(** * Part A — lists: [fill], [residues], sub-lists *)

Lemma residues_count_true k : residues k = count_true k.
Proof. induction k as [|[] k IH]; cbn [residues count_true]; lia. Qed.

Lemma residues_nonneg' k : 0 <= residues k.
Proof. induction k as [|[] k IH]; cbn [residues]; lia. Qed.

Lemma residues_app' a b : residues (a ++ b) = residues a + residues b.
Proof. induction a as [|[] a IH]; cbn [app residues]; lia. Qed.

Lemma residues_rev k : residues (rev k) = residues k.
Proof.
  induction k as [|x k IH]; [reflexivity|]. cbn [rev]. rewrite residues_app', IH.
  destruct x; cbn [residues]; lia.
Qed.

Lemma residues_le_len k : residues k <= zlen k.
Proof. induction k as [|[] k IH]; unfold zlen in *; cbn [residues length]; lia. Qed.

Lemma fill_app k1 : forall k2 d1 d2, residues k1 = zlen d1 ->
  fill (k1 ++ k2) (d1 ++ d2) = fill k1 d1 ++ fill k2 d2.
Proof.
  induction k1 as [|[] k1 IH]; intros k2 d1 d2 H; cbn [residues] in H.
  - symmetry in H. apply zlen_0_nil in H. subst. reflexivity.
  - destruct d1 as [|x d1]; unfold zlen in H; cbn [length] in H.
    + pose proof (residues_nonneg' k1). lia.
    + cbn [app fill]. f_equal. apply IH. unfold zlen. lia.
  - cbn [app fill]. f_equal. apply IH. exact H.
Qed.

Lemma fill_length k : forall d, residues k <= zlen d -> zlen (fill k d) = zlen k.
Proof.
  induction k as [|[] k IH]; intros d H; cbn [residues] in H.
  - reflexivity.
  - destruct d as [|x d]; unfold zlen in *; cbn [length] in *.
    + pose proof (residues_nonneg' k). lia.
    + cbn [fill length]. specialize (IH d). lia.
  - cbn [fill]. unfold zlen in *. cbn [length]. specialize (IH d H). lia.
Qed.

Lemma fill_map f k : forall d, f GAPC = GAPC -> map f (fill k d) = fill k (map f d).
Proof.
  induction k as [|[] k IH]; intros d Hf; [reflexivity| |].
  - destruct d as [|x d]; [reflexivity|]. cbn [fill map]. f_equal. apply IH, Hf.
  - cbn [fill map]. rewrite Hf. f_equal. apply IH, Hf.
Qed.

Lemma fill_firstn k : forall n d,
  fill (firstn n k) (firstn (Z.to_nat (residues (firstn n k))) d) = firstn n (fill k d).
Proof.
  induction k as [|[] k IH]; intros n d.
  - rewrite firstn_nil. cbn [fill]. now rewrite firstn_nil.
  - destruct n as [|n]; [reflexivity|]. cbn [firstn residues].
    pose proof (residues_nonneg' (firstn n k)) as Hn.
    replace (Z.to_nat (1 + residues (firstn n k))) with (S (Z.to_nat (residues (firstn n k)))) by lia.
    destruct d as [|x d]; [reflexivity|]. cbn [firstn fill]. f_equal. apply IH.
  - destruct n as [|n]; [reflexivity|]. cbn [firstn residues fill]. f_equal. apply IH.
Qed.

Lemma fill_skipn k : forall n d, residues k <= zlen d ->
  fill (skipn n k) (skipn (Z.to_nat (residues (firstn n k))) d) = skipn n (fill k d).
Proof.
  induction k as [|[] k IH]; intros n d H; cbn [residues] in H.
  - rewrite skipn_nil, firstn_nil. cbn [fill]. now rewrite skipn_nil.
  - destruct n as [|n]; [reflexivity|]. cbn [firstn residues skipn].
    pose proof (residues_nonneg' (firstn n k)) as Hn.
    replace (Z.to_nat (1 + residues (firstn n k))) with (S (Z.to_nat (residues (firstn n k)))) by lia.
    destruct d as [|x d]; unfold zlen in H; cbn [length] in H.
    + pose proof (residues_nonneg' k). lia.
    + cbn [skipn fill]. apply IH. unfold zlen. lia.
  - destruct n as [|n]; [reflexivity|]. cbn [firstn residues skipn fill]. apply IH. exact H.
Qed.

Lemma residues_firstn_split k : forall a b : nat, (a <= b)%nat ->
  residues (firstn b k) = residues (firstn a k) + residues (firstn (b - a) (skipn a k)).
Proof.
  induction k as [|x k IH]; intros a b Hab.
  - rewrite skipn_nil, !firstn_nil. reflexivity.
  - destruct a as [|a].
    + cbn [firstn skipn residues]. rewrite Nat.sub_0_r. lia.
    + destruct b as [|b]; [lia|]. cbn [firstn skipn]. replace (S b - S a)%nat with (b - a)%nat by lia.
      specialize (IH a b ltac:(lia)). destruct x; cbn [residues]; lia.
Qed.

(** the headline list fact: cutting columns [a, b) out of a row = cutting the
    mask and cutting the residues that lie in front of / inside the window *)
Lemma fill_msub k d a b : residues k <= zlen d -> 0 <= a -> a <= b ->
  fill (msub k a b) (msub d (residues (firstn (Z.to_nat a) k)) (residues (firstn (Z.to_nat b) k)))
  = msub (fill k d) a b.
Proof.
  intros H Ha Hab. unfold msub.
  rewrite <- (fill_skipn k (Z.to_nat a) d H).
  rewrite <- fill_firstn. f_equal. f_equal.
  pose proof (residues_firstn_split k (Z.to_nat a) (Z.to_nat b) ltac:(lia)) as Hs.
  replace (Z.to_nat (b - a)) with (Z.to_nat b - Z.to_nat a)%nat by lia.
  rewrite Hs. f_equal. lia.
Qed.

Lemma fill_rev k : forall d, residues k = zlen d -> fill (rev k) (rev d) = rev (fill k d).
Proof.
  induction k as [|[] k IH]; intros d H; cbn [residues] in H.
  - symmetry in H. apply zlen_0_nil in H. subst. reflexivity.
  - destruct d as [|x d]; unfold zlen in H; cbn [length] in H.
    + pose proof (residues_nonneg' k). lia.
    + cbn [rev fill]. rewrite fill_app.
      * rewrite IH by (unfold zlen; lia). reflexivity.
      * rewrite residues_rev, zlen_rev. unfold zlen. lia.
  - cbn [rev fill]. replace (rev d) with (rev d ++ []) by apply app_nil_r.
    rewrite fill_app.
    + rewrite IH by exact H. reflexivity.
    + rewrite residues_rev, zlen_rev. exact H.
Qed.

Lemma residues_mask s : residues (mask s) = zlen (strip s).
Proof.
  induction s as [|c s IH]; [reflexivity|]. unfold mask, strip in *. cbn [map filter].
  destruct (is_res c); cbn [residues]; unfold zlen in *; cbn [length]; lia.
Qed.

Lemma zlen_mask s : zlen (mask s) = zlen s.
Proof. unfold mask. apply zlen_map. Qed.

(** * Part B — one row *)
From CG3 Require Import Proofs.ViewProofs Proofs.ViewSeqProofs.
From CG3 Require Import Proofs.IndelMapProofs Proofs.IndelMapOps Proofs.IndelMapSlice Proofs.IndelMapIndex Proofs.IndelMapFixedProofs Proofs.IndelMapJoin Proofs.IndelMapShared.

Lemma zlen_cons' {A} (x : A) l : zlen (x :: l) = 1 + zlen l.
Proof. unfold zlen. cbn [length]. lia. Qed.

Lemma skipn_nth_cons {A} (l : list A) : forall n d, (n < length l)%nat ->
  skipn n l = nth n l d :: skipn (S n) l.
Proof.
  induction l as [|x l IH]; intros n d H; cbn [length] in H; [lia|].
  destruct n as [|n]; [reflexivity|]. cbn [skipn nth]. apply IH. lia.
Qed.

Lemma gather_prog_sub {A} (l : list A) : forall n lo, 0 <= lo -> lo + Z.of_nat n <= zlen l ->
  gather l (prog lo 1 n) = firstn n (skipn (Z.to_nat lo) l).
Proof.
  induction n as [|n IH]; intros lo Hlo Hle; [reflexivity|].
  cbn [prog]. rewrite gather_cons.
  destruct l as [|x0 l0] eqn:El; [unfold zlen in Hle; cbn [length] in Hle; lia|]. rewrite <- El in *.
  rewrite (zget_in l lo x0) by lia.
  rewrite IH by lia.
  rewrite (skipn_nth_cons l (Z.to_nat lo) x0) by (unfold zlen in Hle; lia).
  cbn [firstn app]. f_equal. f_equal. f_equal. lia.
Qed.

Lemma py_slice_msub {A} (l : list A) x y : 0 <= x -> x <= y -> y <= zlen l ->
  py_slice l (Some x) (Some y) 1 = msub l x y.
Proof.
  intros Hx Hxy Hy. destruct (seg_gather l x y ltac:(lia) Hy) as [E _]. unfold seg in E. rewrite E.
  unfold msub. apply gather_prog_sub; lia.
Qed.

Lemma zlen_firstn {A} (l : list A) n : zlen (firstn n l) = Z.min (Z.of_nat n) (zlen l).
Proof. unfold zlen. rewrite firstn_length. lia. Qed.

Lemma zlen_skipn {A} (l : list A) n : zlen (skipn n l) = Z.max 0 (zlen l - Z.of_nat n).
Proof. unfold zlen. rewrite skipn_length. lia. Qed.

Lemma zlen_msub {A} (l : list A) x y : 0 <= x -> x <= y -> y <= zlen l -> zlen (msub l x y) = y - x.
Proof. intros. unfold msub. rewrite zlen_firstn, zlen_skipn. lia. Qed.

Lemma msub_full {A} (l : list A) : msub l 0 (zlen l) = l.
Proof. unfold msub, zlen. cbn [Z.to_nat skipn]. rewrite Z.sub_0_r, Nat2Z.id. apply firstn_all. Qed.

Lemma msub_empty {A} (l : list A) x : msub l x x = [].
Proof. unfold msub. now rewrite Z.sub_diag. Qed.

Lemma parent_length_residues m : IndelMapSpec.WF m -> parent_length m = residues (abs m).
Proof.
  intros H. rewrite residues_count_true. rewrite <- (from_mask_abs m H) at 1. reflexivity.
Qed.

Lemma residues_firstn_all k : residues (firstn (Z.to_nat (zlen k)) k) = residues k.
Proof. unfold zlen. rewrite Nat2Z.id, firstn_all. reflexivity. Qed.

Lemma residues_firstn_le k n : residues (firstn n k) <= residues k.
Proof.
  rewrite <- (firstn_skipn n k) at 2. rewrite residues_app'. pose proof (residues_nonneg' (skipn n k)). lia.
Qed.

Lemma residues_msub k a b : 0 <= a -> a <= b ->
  residues (msub k a b) = residues (firstn (Z.to_nat b) k) - residues (firstn (Z.to_nat a) k).
Proof.
  intros Ha Hab. unfold msub.
  pose proof (residues_firstn_split k (Z.to_nat a) (Z.to_nat b) ltac:(lia)) as Hs.
  replace (Z.to_nat (b - a)) with (Z.to_nat b - Z.to_nat a)%nat by lia. lia.
Qed.

(** the map slice in range, whichever variant of [IndelMap.__getitem__] is live *)
Lemma imap_slice_in_range vr m a b : IndelMapSpec.WF m -> 0 <= a -> a <= b -> b <= len m ->
  exists m', imap_slice vr m (Some a) (Some b) = Ok m' /\ IndelMapSpec.WF m' /\ abs m' = msub (abs m) a b.
Proof.
  intros Hwf Ha Hab Hb. unfold imap_slice. destruct (v_clamp vr).
  - unfold getitem_slice_v2.
    replace (a >=? 0) with true by lia. replace (b >=? 0) with true by lia.
    replace (Z.min a b <? 0) with false by lia. replace (Z.min b (len m)) with b by lia.
    apply slice_spec; assumption.
  - apply slice_spec; assumption.
Qed.

(** [data[x:y]] displays the sub-list, and stays well formed *)
Lemma seq_slice_spec d x y : SWF d -> 0 <= x -> x <= y -> y <= zlen (realise d) ->
  exists d', seq_slice d (Some x) (Some y) = Ok d' /\ SWF d' /\ skind d' = skind d /\
             realise d' = msub (realise d) x y.
Proof.
  intros Hd Hx Hxy Hy. unfold seq_slice. cbn [View.apply_op].
  pose proof (slice_op_spec d (Some x) (Some y) None Hd ltac:(discriminate)) as H.
  destruct (with_view d (same_parent (sv d)) (View.getitem_slice FSeqView (sv d) (Some x) (Some y) None)) as [d'|e];
    [|contradiction].
  destruct H as (Hs & Hk & Hr). exists d'. cbn [of_view]. split; [reflexivity|]. split; [exact Hs|]. split; [exact Hk|].
  rewrite Hr. cbn [step_of]. replace (1 <? 0) with false by lia. apply py_slice_msub; assumption.
Qed.

(** [data[:0]] *)
Lemma seq_slice_empty d : SWF d ->
  exists d', seq_slice d None (Some 0) = Ok d' /\ SWF d' /\ skind d' = skind d /\ realise d' = [].
Proof.
  intros Hd. unfold seq_slice. cbn [View.apply_op].
  pose proof (slice_op_spec d None (Some 0) None Hd ltac:(discriminate)) as H.
  destruct (with_view d (same_parent (sv d)) (View.getitem_slice FSeqView (sv d) None (Some 0) None)) as [d'|e];
    [|contradiction].
  destruct H as (Hs & Hk & Hr). exists d'. cbn [of_view]. split; [reflexivity|]. split; [exact Hs|]. split; [exact Hk|].
  rewrite Hr. cbn [step_of]. replace (1 <? 0) with false by lia.
  apply zlen_0_nil. rewrite length_py_slice by lia.
  unfold adjust_bound.
  replace (1 <? 0) with false by lia. replace (0 <? 0) with false by lia.
  pose proof (zlen_nonneg (realise d)) as Hn.
  destruct (0 >=? zlen (realise d)) eqn:E.
  - assert (H0 : zlen (realise d) = 0) by lia. rewrite H0. reflexivity.
  - unfold range_len. reflexivity.
Qed.

Lemma zlen_abs_len m : IndelMapSpec.WF m -> zlen (abs m) = len m.
Proof. intros H. symmetry. apply len_spec. exact H. Qed.

Lemma row_slice_finish m d nm d' a b :
  IndelMapSpec.WF m -> parent_length m = zlen (realise d) ->
  IndelMapSpec.WF nm -> abs nm = msub (abs m) a b -> SWF d' ->
  realise d' = msub (realise d) (residues (firstn (Z.to_nat a) (abs m))) (residues (firstn (Z.to_nat b) (abs m))) ->
  0 <= a -> a <= b -> b <= len m ->
  RowWF (mkRow nm d') /\ row_str (mkRow nm d') = msub (row_str (mkRow m d)) a b.
Proof.
  intros Hm Hp Hnm Habs Hd' Hr Ha Hab Hb.
  pose proof (parent_length_residues m Hm) as Hpr.
  pose proof (residues_firstn_mono (abs m) a b Ha Hab) as Hmono.
  pose proof (residues_nonneg' (firstn (Z.to_nat a) (abs m))) as H0.
  pose proof (residues_firstn_le (abs m) (Z.to_nat b)) as Hle.
  split.
  - split; [exact Hnm|]. split; [exact Hd'|]. cbn [amap adata].
    rewrite (parent_length_residues nm Hnm), Habs, residues_msub by lia.
    rewrite Hr, zlen_msub by lia. reflexivity.
  - unfold row_str. cbn [amap adata]. rewrite Habs, Hr. apply fill_msub; lia.
Qed.

(** HEADLINE (row): slicing a row by alignment columns [a, b) *)
Lemma row_slice_in_range vr r a b : RowWF r -> 0 <= a -> a <= b -> b <= row_len r ->
  exists r', row_getitem_slice vr r (Some a) (Some b) = Ok r' /\ RowWF r' /\
             skind (adata r') = skind (adata r) /\ row_str r' = msub (row_str r) a b.
Proof.
  intros (Hm & Hd & Hp) Ha Hab Hb. unfold row_len in Hb. destruct r as [m d]. cbn [amap adata] in *.
  unfold row_getitem_slice. cbn [amap adata].
  destruct (imap_slice_in_range vr m a b Hm Ha Hab Hb) as (nm & E1 & Hnm & Habs). rewrite E1. cbn [bind or0].
  rewrite (get_seq_index_spec m Hm a) by lia. cbn [bind].
  pose proof (parent_length_residues m Hm) as Hpr.
  pose proof (parent_length_residues nm Hnm) as Hpn. rewrite Habs, residues_msub in Hpn by lia.
  pose proof (residues_firstn_mono (abs m) a b Ha Hab) as Hmono.
  pose proof (residues_nonneg' (firstn (Z.to_nat a) (abs m))) as H0.
  pose proof (residues_firstn_le (abs m) (Z.to_nat b)) as Hle.
  destruct (Z.eq_dec b 0) as [->|Hb0].
  - (* [span.stop or len(self)] takes the other branch; the map slice is empty *)
    assert (a = 0) by lia. subst a. cbn [or_len]. replace (0 =? 0) with true by reflexivity.
    rewrite (get_seq_index_spec m Hm (len m)) by (pose proof (zlen_nonneg (abs m)); rewrite (zlen_abs_len m Hm) in *; lia).
    cbn [bind]. cbn [Z.to_nat firstn residues] in Hpn. replace (parent_length nm =? 0) with true by lia. cbn [negb].
    destruct (seq_slice_empty d Hd) as (d' & E2 & Hd' & Hk & Hr). rewrite E2. cbn [bind andb].
    exists (mkRow nm d'). split; [reflexivity|].
    destruct (row_slice_finish m d nm d' 0 0 Hm Hp Hnm Habs Hd') as [W S]; try lia.
    { rewrite Hr. cbn [Z.to_nat firstn residues]. symmetry. apply msub_empty. }
    split; [exact W|]. split; [exact Hk|exact S].
  - cbn [or_len]. replace (b =? 0) with false by lia.
    rewrite (get_seq_index_spec m Hm b) by lia. cbn [bind].
    destruct (parent_length nm =? 0) eqn:Eu; cbn [negb].
    + destruct (seq_slice_empty d Hd) as (d' & E2 & Hd' & Hk & Hr). rewrite E2. cbn [bind andb].
      exists (mkRow nm d'). split; [reflexivity|].
      destruct (row_slice_finish m d nm d' a b Hm Hp Hnm Habs Hd') as [W S]; try lia.
      { rewrite Hr. replace (residues (firstn (Z.to_nat b) (abs m))) with (residues (firstn (Z.to_nat a) (abs m))) by lia.
        symmetry. apply msub_empty. }
      split; [exact W|]. split; [exact Hk|exact S].
    + destruct (seq_slice_spec d _ _ Hd H0 Hmono ltac:(lia)) as (d' & E2 & Hd' & Hk & Hr). rewrite E2. cbn [bind andb].
      replace (_ >? _) with false by lia.
      exists (mkRow nm d'). split; [reflexivity|].
      destruct (row_slice_finish m d nm d' a b Hm Hp Hnm Habs Hd' Hr) as [W S]; try lia.
      split; [exact W|]. split; [exact Hk|exact S].
Qed.

(** ** [get_gapped_seq]: the spans of the map applied to the displayed sequence
    spell exactly the row the abstraction function assigns *)

Fixpoint tiled (p : Z) (sp : list ispan) (q : Z) : Prop :=
  match sp with
  | [] => p = q
  | ISpan a b :: t => a = p /\ a <= b /\ tiled b t q
  | ILost n :: t => 0 <= n /\ tiled p t q
  end.

Lemma tiled_app sp1 : forall p x sp2 q, tiled p sp1 x -> tiled x sp2 q -> tiled p (sp1 ++ sp2) q.
Proof.
  induction sp1 as [|[a b|n] sp1 IH]; intros p x sp2 q H1 H2; cbn [tiled app] in *.
  - subst. exact H2.
  - destruct H1 as (E & L & H1). repeat split; try assumption. eapply IH; eauto.
  - destruct H1 as (L & H1). split; [assumption|]. eapply IH; eauto.
Qed.

Lemma tiled_le sp : forall p q, tiled p sp q -> p <= q.
Proof.
  induction sp as [|[a b|n] sp IH]; intros p q H; cbn [tiled] in H.
  - lia.
  - destruct H as (E & L & H). apply IH in H. lia.
  - destruct H as (L & H). apply IH in H. exact H.
Qed.

Lemma spans_loop_tiled gp : forall pp pc cl plen, wf_from pp pc gp cl plen -> 0 <= pp ->
  tiled pp (spans_loop pp pc gp cl) (lastd pp gp).
Proof.
  induction gp as [|p gp IH]; intros pp pc cl plen H Hpp; destruct cl as [|c cl]; cbn [wf_from] in H.
  - reflexivity.
  - tauto.
  - tauto.
  - destruct H as (A & B & H). cbn [spans_loop lastd].
    assert (E : p =? 0 = false) by lia. rewrite E. cbn [app tiled].
    split; [reflexivity|]. split; [lia|]. split; [lia|]. apply (IH p c cl plen H). lia.
Qed.

Lemma spans_tiled m : IndelMapSpec.WF m -> tiled 0 (spans m) (parent_length m).
Proof.
  intros H. apply WF_wf0 in H.
  pose proof (wf0_lastd _ _ _ _ _ H) as Hlast.
  unfold spans, num_gaps.
  destruct (wf0_inv _ _ _ _ _ H) as [(E1 & E2 & Hle)|(p & c & gp' & cl' & E1 & E2 & Hp & Hc & Hw)].
  - rewrite E1. change (zlen (@nil Z) =? 0) with true. cbv iota. cbn [tiled]. repeat split; lia.
  - rewrite E1, E2 in *. rewrite zlen_cons'. pose proof (zlen_nonneg gp') as Hn.
    assert (E : 1 + zlen gp' =? 0 = false) by lia. rewrite E.
    rewrite (zlast_lastd 0).
    apply (tiled_app _ 0 (lastd 0 (p :: gp'))).
    + destruct (Z.eq_dec p 0) as [->|Hp0].
      * cbn [spans_loop lastd]. change (0 =? 0) with true. cbv iota. cbn [app tiled].
        split; [lia|]. apply (spans_loop_tiled gp' 0 c cl' _ Hw). lia.
      * apply (spans_loop_tiled (p :: gp') 0 0 (c :: cl') (parent_length m)); [|lia].
        cbn [wf_from]. split; [lia|]. split; [lia|]. exact Hw.
    + destruct (lastd 0 (p :: gp') <? parent_length m) eqn:Elt; cbn [tiled].
      * repeat split; lia.
      * lia.
Qed.

Lemma fill_trues l : fill (repeat true (length l)) l = l.
Proof. induction l as [|x l IH]; [reflexivity|]. cbn [length repeat fill]. now rewrite IH. Qed.

Lemma fill_falses n : fill (repeat false n) [] = repeat GAPC n.
Proof. induction n as [|n IH]; [reflexivity|]. cbn [repeat fill]. now rewrite IH. Qed.

Lemma firstn_plus {A} (l : list A) : forall n1 n2, firstn (n1 + n2) l = firstn n1 l ++ firstn n2 (skipn n1 l).
Proof.
  induction l as [|x l IH]; intros n1 n2.
  - rewrite skipn_nil, !firstn_nil. reflexivity.
  - destruct n1 as [|n1]; [reflexivity|]. cbn [Nat.add firstn skipn app]. f_equal. apply IH.
Qed.

Lemma skipn_plus {A} (l : list A) : forall n1 n2, skipn n2 (skipn n1 l) = skipn (n1 + n2) l.
Proof.
  induction l as [|x l IH]; intros n1 n2.
  - now rewrite !skipn_nil.
  - destruct n1 as [|n1]; [reflexivity|]. cbn [Nat.add skipn]. apply IH.
Qed.

Lemma msub_split {A} (l : list A) p b q : 0 <= p -> p <= b -> b <= q ->
  msub l p q = msub l p b ++ msub l b q.
Proof.
  intros Hp Hb Hq. unfold msub.
  replace (Z.to_nat (q - p)) with (Z.to_nat (b - p) + Z.to_nat (q - b))%nat by lia.
  rewrite firstn_plus. f_equal. f_equal. rewrite skipn_plus. f_equal. lia.
Qed.

(** segments of the data read through the spans = the span masks filled with the data *)
Lemma tiled_fill (pc : Z -> Z -> list Z) (D : list Z) sp : forall p q,
  (forall a b, 0 <= a -> a <= b -> b <= zlen D -> pc a b = msub D a b) ->
  tiled p sp q -> 0 <= p -> q <= zlen D ->
  concat (map (fun s => match s with ISpan a b => pc a b | ILost n => repeat GAPC (Z.to_nat n) end) sp)
  = fill (concat (map span_mask sp)) (msub D p q).
Proof.
  induction sp as [|[a b|n] sp IH]; intros p q Hpc H Hp Hq; cbn [tiled] in H.
  - subst. rewrite msub_empty. reflexivity.
  - destruct H as (-> & L & H). pose proof (tiled_le _ _ _ H) as Hbq.
    cbn [map concat span_mask]. rewrite (msub_split D p b q) by lia.
    rewrite fill_app.
    + rewrite Hpc by lia. rewrite <- (IH b q Hpc H) by lia. f_equal.
      replace (Z.to_nat (b - p)) with (length (msub D p b)).
      * apply eq_sym, fill_trues.
      * pose proof (zlen_msub D p b Hp L ltac:(lia)) as Hl. unfold zlen in Hl. lia.
    + rewrite residues_trues, zlen_msub by lia. lia.
  - destruct H as (L & H). cbn [map concat span_mask].
    replace (msub D p q) with ([] ++ msub D p q) by reflexivity.
    rewrite fill_app by (rewrite residues_falses; reflexivity).
    rewrite fill_falses. f_equal. apply IH; assumption.
Qed.

Lemma seq_piece_spec d a b : SWF d -> 0 <= a -> a <= b -> b <= zlen (realise d) ->
  seq_piece d a b = msub (realise d) a b.
Proof.
  intros Hd Ha Hab Hb. unfold seq_piece.
  destruct (seq_slice_spec d a b Hd Ha Hab Hb) as (d' & E & _ & _ & Hr). rewrite E. exact Hr.
Qed.

(** HEADLINE (row): [get_gapped_seq] / [str(Aligned)] is the mask filled with the residues *)
Lemma row_gapped_spec r : RowWF r -> row_gapped r = row_str r.
Proof.
  intros (Hm & Hd & Hp). unfold row_gapped, row_str.
  pose proof (spans_tiled _ Hm) as Ht.
  rewrite <- (spans_mask_spec _ Hm). unfold spans_mask.
  assert (E : realise (adata r) = msub (realise (adata r)) 0 (parent_length (amap r))).
  { rewrite Hp. symmetry. apply msub_full. }
  rewrite E at 1.
  rewrite <- (tiled_fill (seq_piece (adata r)) (realise (adata r)) (spans (amap r)) 0 (parent_length (amap r))); try lia.
  - reflexivity.
  - intros a b Ha Hab Hb. apply seq_piece_spec; assumption.
  - exact Ht.
Qed.

(** ** a row built from a gapped string denotes that string *)
Lemma row_of_string_spec k s :
  exists r, row_of_string k s = Ok r /\ RowWF r /\ skind (adata r) = k /\ row_str r = s.
Proof.
  unfold row_of_string. destruct (fresh_spec k (strip s)) as (d & E & Hd & Hr & Hk). rewrite E. cbn [of_view bind].
  eexists. split; [reflexivity|]. split; [|split; [exact Hk|]].
  - split; [apply wf_from_mask|]. split; [exact Hd|]. cbn [amap adata]. rewrite Hr.
    change (parent_length (from_mask (mask s))) with (count_true (mask s)).
    rewrite <- residues_count_true. apply residues_mask.
  - unfold row_str. cbn [amap adata]. rewrite abs_from_mask, Hr. apply fill_mask_strip.
Qed.

Lemma comp_gap k : comp k GAPC = GAPC.
Proof. destruct k; reflexivity. Qed.

(** ** reverse complement of a row *)
Lemma row_rc_spec r : RowWF r -> skind (adata r) <> KOther ->
  exists r', row_rc r = Ok r' /\ RowWF r' /\ skind (adata r') = skind (adata r) /\
             row_str r' = rc_str (skind (adata r)) (row_str r).
Proof.
  intros (Hm & Hd & Hp) Hk. unfold row_rc.
  destruct (nrev_spec _ Hm) as (nm & E1 & Hnm & Habs). rewrite E1. cbn [bind].
  pose proof (apply_op_spec Fixed (adata r) Rc Hd I) as H.
  destruct (View.apply_op Fixed (adata r) Rc) as [d'|e]; cbn [of_view bind].
  - destruct H as [Hd' Hs]. unfold plain_of in Hs. cbn [spec_op] in Hs.
    destruct (ViewSpec.nucleic (skind (adata r))) eqn:En; [|discriminate].
    injection Hs as Hr Hk'.
    exists (mkRow nm d'). split; [reflexivity|].
    pose proof (parent_length_residues _ Hm) as Hpr.
    split; [|split; [symmetry; exact Hk'|]].
    + split; [exact Hnm|]. split; [exact Hd'|]. cbn [amap adata].
      rewrite (parent_length_residues nm Hnm), Habs, residues_rev, <- Hr, zlen_map, zlen_rev. lia.
    + unfold row_str, rc_str. cbn [amap adata]. rewrite Habs, <- Hr.
      rewrite <- fill_map by apply comp_gap. f_equal. apply fill_rev. lia.
  - exfalso. unfold plain_of in H. cbn [spec_op] in H. destruct (skind (adata r)); cbn in H; try discriminate. now apply Hk.
Qed.

(** ** concatenation of two rows (the branch that joins the gapped strings) *)
Lemma row_add_spec vr same r1 r2 : RowWF r1 -> RowWF r2 -> (same = false \/ v_noshortcut vr = true) ->
  exists r, row_add vr same r1 r2 = Ok r /\ RowWF r /\ skind (adata r) = skind (adata r1) /\
            row_str r = row_str r1 ++ row_str r2.
Proof.
  intros H1 H2 Hc. unfold row_add.
  assert (E : same && negb (v_noshortcut vr) = false) by (destruct Hc as [-> | ->]; [reflexivity|apply andb_false_r]).
  rewrite E. rewrite (row_gapped_spec r1 H1), (row_gapped_spec r2 H2). apply row_of_string_spec.
Qed.

(** ** DNA <-> RNA *)
Lemma row_to_kind_spec r target : RowWF r -> skind (adata r) <> KOther -> target <> KOther ->
  exists r', row_to_kind r target = Ok r' /\ RowWF r' /\ skind (adata r') = target /\
             row_str r' = (match skind (adata r), target with
                           | KDna, KRna => t2u_str (row_str r)
                           | KRna, KDna => u2t_str (row_str r)
                           | _, _ => row_str r end).
Proof.
  intros (Hm & Hd & Hp) Hk Ht. unfold row_to_kind, to_moltype.
  destruct (skind (adata r)) eqn:Ek; destruct target eqn:Et; try congruence; cbn [of_view bind].
  - exists r. split; [destruct r; reflexivity|]. split; [split; [exact Hm|split; assumption]|]. split; [exact Ek|reflexivity].
  - destruct (fresh_spec KRna (map t2u (realise (adata r)))) as (d' & E & Hd' & Hr & Hk'). rewrite E. cbn [of_view bind].
    eexists. split; [reflexivity|]. split; [|split; [exact Hk'|]].
    + split; [exact Hm|]. split; [exact Hd'|]. cbn [amap adata]. rewrite Hr, zlen_map. exact Hp.
    + unfold row_str, t2u_str. cbn [amap adata]. rewrite Hr. symmetry. apply fill_map. reflexivity.
  - destruct (fresh_spec KDna (map u2t (realise (adata r)))) as (d' & E & Hd' & Hr & Hk'). rewrite E. cbn [of_view bind].
    eexists. split; [reflexivity|]. split; [|split; [exact Hk'|]].
    + split; [exact Hm|]. split; [exact Hd'|]. cbn [amap adata]. rewrite Hr, zlen_map. exact Hp.
    + unfold row_str, u2t_str. cbn [amap adata]. rewrite Hr. symmetry. apply fill_map. reflexivity.
  - exists r. split; [destruct r; reflexivity|]. split; [split; [exact Hm|split; assumption]|]. split; [exact Ek|reflexivity].
Qed.

Lemma zlen_row_str r : RowWF r -> zlen (row_str r) = row_len r.
Proof.
  intros (Hm & Hd & Hp). unfold row_str, row_len. rewrite fill_length.
  - apply zlen_abs_len, Hm.
  - rewrite <- (parent_length_residues _ Hm). lia.
Qed.

(** ** integer index (non-negative, in range; negative too once repaired) *)
Lemma row_getitem_int_spec vr r i : RowWF r -> 0 <= i < row_len r ->
  exists r', row_getitem_int vr r i = Ok r' /\ RowWF r' /\ skind (adata r') = skind (adata r) /\
             row_str r' = ssub (row_str r) i (i + 1).
Proof.
  intros Hr Hi. unfold row_getitem_int.
  replace (i <? 0) with false by lia. replace (i <? 0) with false by lia.
  destruct (v_negidx vr); apply (row_slice_in_range vr r i (i + 1) Hr); lia.
Qed.

Lemma row_getitem_int_neg vr r i : RowWF r -> v_negidx vr = true -> - row_len r <= i < 0 ->
  exists r', row_getitem_int vr r i = Ok r' /\ RowWF r' /\ skind (adata r') = skind (adata r) /\
             row_str r' = ssub (row_str r) (i + row_len r) (i + row_len r + 1).
Proof.
  intros Hr Hv Hi. unfold row_getitem_int. rewrite Hv.
  replace (i <? 0) with true by lia. replace (i + row_len r <? 0) with false by lia.
  apply (row_slice_in_range vr r (i + row_len r) (i + row_len r + 1) Hr); lia.
Qed.

(** ** a row indexed by the feature map [filtered] builds: the pieces glued together *)
From CG3 Require Import Proofs.IndelMapBounded Spec.IndelMapStringOps.

Definition seqc (k : list bool) (cs : list (Z * Z)) : list (Z * Z) :=
  map (fun se => (residues (firstn (Z.to_nat (fst se)) k), residues (firstn (Z.to_nat (snd se)) k))) cs.

Lemma make_seq_coords_spec m cs : forall start, IndelMapSpec.WF m -> 0 <= start -> segs_ok start (len m) cs ->
  make_seq_coords m cs = Ok (seqc (abs m) cs).
Proof.
  induction cs as [|[a b] t IH]; intros start Hm Hs Hok; [reflexivity|].
  cbn [segs_ok] in Hok. destruct Hok as (A & B & D & Hok).
  cbn [make_seq_coords seqc map fst snd].
  rewrite (get_seq_index_spec m Hm a) by lia. cbn [bind].
  rewrite (get_seq_index_spec m Hm b) by lia. cbn [bind].
  rewrite (IH b Hm ltac:(lia) Hok). reflexivity.
Qed.

Lemma join_fill k D cs : forall start, residues k = zlen D -> 0 <= start -> segs_ok start (zlen k) cs ->
  residues (mask_join k cs) = zlen (flat_map (fun se => msub D (fst se) (snd se)) (seqc k cs)) /\
  fill (mask_join k cs) (flat_map (fun se => msub D (fst se) (snd se)) (seqc k cs))
  = flat_map (fun se => msub (fill k D) (fst se) (snd se)) cs.
Proof.
  induction cs as [|[a b] t IH]; intros start HD Hs Hok; [split; reflexivity|].
  cbn [segs_ok] in Hok. destruct Hok as (A & B & C & Hok).
  destruct (IH b HD ltac:(lia) Hok) as [IH1 IH2].
  unfold mask_join in *. cbn [flat_map seqc map fst snd].
  fold (msub k a b).
  pose proof (residues_firstn_mono k a b ltac:(lia) ltac:(lia)) as Hmono.
  pose proof (residues_nonneg' (firstn (Z.to_nat a) k)) as H0.
  pose proof (residues_firstn_le k (Z.to_nat b)) as Hle.
  assert (E : residues (msub k a b) = zlen (msub D (residues (firstn (Z.to_nat a) k)) (residues (firstn (Z.to_nat b) k)))).
  { rewrite residues_msub, zlen_msub by lia. reflexivity. }
  split.
  - rewrite residues_app', zlen_app. fold (seqc k t). lia.
  - fold (seqc k t). rewrite fill_app by exact E. rewrite IH2. f_equal. apply fill_msub; lia.
Qed.

Lemma pieces_spec d sc : SWF d -> Forall (fun se => 0 <= fst se /\ fst se <= snd se /\ snd se <= zlen (realise d)) sc ->
  flat_map (fun se => seq_piece d (fst se) (snd se)) sc = flat_map (fun se => msub (realise d) (fst se) (snd se)) sc.
Proof.
  intros Hd H. induction H as [|se t (A & B & C) _ IH]; [reflexivity|].
  cbn [flat_map]. rewrite IH. f_equal. apply seq_piece_spec; assumption.
Qed.

Lemma seqc_in_range k cs : forall start, 0 <= start -> segs_ok start (zlen k) cs ->
  Forall (fun se => 0 <= fst se /\ fst se <= snd se /\ snd se <= residues k) (seqc k cs).
Proof.
  induction cs as [|[a b] t IH]; intros start Hs Hok; [constructor|].
  cbn [segs_ok] in Hok. destruct Hok as (A & B & C & Hok).
  cbn [seqc map fst snd]. constructor.
  - cbn [fst snd]. split; [apply residues_nonneg'|]. split; [apply residues_firstn_mono; lia|apply residues_firstn_le].
  - apply (IH b); [lia|exact Hok].
Qed.

Lemma row_getitem_locs_spec vr r locs : RowWF r -> locs <> [] -> segs_ok 0 (row_len r) locs ->
  exists r', row_getitem_locs vr r locs = Ok r' /\ RowWF r' /\ skind (adata r') = skind (adata r) /\
             row_str r' = flat_map (fun se => ssub (row_str r) (fst se) (snd se)) locs.
Proof.
  intros Hr Hne Hok. pose proof Hr as (Hm & Hd & Hp). unfold row_len in Hok.
  pose proof (parent_length_residues _ Hm) as Hpr.
  destruct locs as [|[s e] [|se2 t]]; [congruence| |].
  - (* one span: a slice *)
    cbn [segs_ok] in Hok. destruct Hok as (A & B & C & _).
    destruct r as [m d]. cbn [amap adata] in *. unfold row_getitem_locs. cbn [amap adata].
    destruct (imap_slice_in_range vr m s e Hm A ltac:(lia) C) as (nm & E1 & Hnm & Habs). rewrite E1. cbn [bind].
    rewrite (get_seq_index_spec m Hm s) by lia. cbn [bind].
    rewrite (get_seq_index_spec m Hm e) by lia. cbn [bind].
    pose proof (residues_firstn_mono (abs m) s e A ltac:(lia)) as Hmono.
    pose proof (residues_nonneg' (firstn (Z.to_nat s) (abs m))) as H0.
    pose proof (residues_firstn_le (abs m) (Z.to_nat e)) as Hle.
    destruct (seq_slice_spec d _ _ Hd H0 Hmono ltac:(lia)) as (d' & E2 & Hd' & Hk & Hrr). rewrite E2. cbn [bind].
    exists (mkRow nm d'). split; [reflexivity|].
    destruct (row_slice_finish m d nm d' s e Hm Hp Hnm Habs Hd' Hrr) as [W S]; try lia.
    split; [exact W|]. split; [exact Hk|]. cbn [flat_map fst snd]. rewrite app_nil_r. exact S.
  - (* several spans *)
    set (locs := (s, e) :: se2 :: t) in *.
    unfold row_getitem_locs. fold locs.
    assert (Hj : joined_segments (amap r) locs = Ok (from_mask (mask_join (abs (amap r)) locs))).
    { rewrite <- (from_mask_abs _ Hm) at 1. apply joined_segments_spec. rewrite (zlen_abs_len _ Hm). exact Hok. }
    replace (match locs with [] => Err E_Other | [(s0, e0)] => _ | _ => _ end)
      with (bind (joined_segments (amap r) locs) (fun nm =>
            bind (make_seq_coords (amap r) locs) (fun sc =>
            bind (of_view (fresh (skind (adata r)) (flat_map (fun se => seq_piece (adata r) (fst se) (snd se)) sc))) (fun d =>
            Ok (mkRow nm d))))) by reflexivity.
    rewrite Hj. cbn [bind].
    rewrite (make_seq_coords_spec _ locs 0 Hm ltac:(lia) Hok). cbn [bind].
    assert (Hok' : segs_ok 0 (zlen (abs (amap r))) locs) by (rewrite (zlen_abs_len _ Hm); exact Hok).
    rewrite (pieces_spec (adata r) _ Hd).
    2:{ rewrite <- Hp, Hpr. apply (seqc_in_range _ _ 0); [lia|exact Hok']. }
    destruct (fresh_spec (skind (adata r)) (flat_map (fun se => msub (realise (adata r)) (fst se) (snd se)) (seqc (abs (amap r)) locs)))
      as (d' & E & Hd' & Hrr & Hk). rewrite E. cbn [of_view bind].
    destruct (join_fill (abs (amap r)) (realise (adata r)) locs 0 ltac:(lia) ltac:(lia) Hok') as [J1 J2].
    eexists. split; [reflexivity|]. split; [|split; [exact Hk|]].
    + split; [apply wf_from_mask|]. split; [exact Hd'|]. cbn [amap adata]. rewrite Hrr.
      change (parent_length (from_mask (mask_join (abs (amap r)) locs))) with (count_true (mask_join (abs (amap r)) locs)).
      rewrite <- residues_count_true. exact J1.
    + unfold row_str at 1. cbn [amap adata]. rewrite abs_from_mask, Hrr. exact J2.
Qed.

(** * Part C — alignments *)

Lemma name_eqb_eq a : forall b, name_eqb a b = true <-> a = b.
Proof.
  induction a as [|x a IH]; intros [|y b]; cbn [name_eqb]; split; intros H; try discriminate; try reflexivity.
  - apply andb_prop in H. destruct H as [H1 H2]. apply IH in H2. f_equal; [lia|exact H2].
  - injection H as -> ->. apply andb_true_intro. split; [lia|apply IH; reflexivity].
Qed.

Lemma name_eqb_refl a : name_eqb a a = true.
Proof. apply name_eqb_eq. reflexivity. Qed.


Lemma mapM_ok {A B} (f : A -> res B) (h : A -> B) l :
  (forall x, In x l -> f x = Ok (h x)) -> mapM f l = Ok (map h l).
Proof.
  induction l as [|x l IH]; intros H; [reflexivity|].
  cbn [mapM map]. rewrite (H x (or_introl eq_refl)). cbn [bind].
  rewrite IH by (intros y Hy; apply H; right; exact Hy). reflexivity.
Qed.

Lemma mapM_exists {A B} (f : A -> res B) (P : A -> B -> Prop) l :
  (forall x, In x l -> exists y, f x = Ok y /\ P x y) ->
  exists ys, mapM f l = Ok ys /\ Forall2 P l ys.
Proof.
  induction l as [|x l IH]; intros H.
  - exists []. split; [reflexivity|constructor].
  - destruct (H x (or_introl eq_refl)) as (y & Ey & Py).
    destruct IH as (ys & Eys & Pys); [intros z Hz; apply H; right; exact Hz|].
    exists (y :: ys). cbn [mapM]. rewrite Ey. cbn [bind]. rewrite Eys. cbn [bind].
    split; [reflexivity|constructor; assumption].
Qed.

Definition uniform (g : list Z -> list Z) : Prop := forall s1 s2, zlen s1 = zlen s2 -> zlen (g s1) = zlen (g s2).

Lemma rect_cons n s t : rect ((n, s) :: t) <-> Forall (fun nr => zlen (snd nr) = zlen s) t.
Proof.
  unfold rect, all_len. cbn [slen]. split.
  - intros H. inversion H; assumption.
  - intros H. constructor; [reflexivity|assumption].
Qed.

Lemma all_len_map_rows g n a : uniform g -> all_len n a -> forall s0, zlen s0 = n -> all_len (zlen (g s0)) (map_rows g a).
Proof.
  intros Hu H s0 Hs0. unfold all_len, map_rows in *. rewrite Forall_map. eapply Forall_impl; [|exact H].
  intros [nm s] Hs. cbn [fst snd] in *. apply Hu. lia.
Qed.

Lemma rect_map_rows g a : uniform g -> rect a -> rect (map_rows g a).
Proof.
  intros Hu H. destruct a as [|[n s] t]; [constructor|].
  unfold rect in *. cbn [map_rows map slen fst snd] in *.
  apply (all_len_map_rows g (zlen s) ((n, s) :: t) Hu H s eq_refl).
Qed.

Lemma one_length_rect a : a <> [] -> Forall (fun nr => RowWF (snd nr)) a -> rect (astr a) -> one_length a = true.
Proof.
  intros Hne Hwf Hr. destruct a as [|[n r] t]; [congruence|].
  cbn [one_length]. apply forallb_forall. intros [n' r'] Hin. cbn [snd].
  cbn [astr map fst snd] in Hr. apply rect_cons in Hr.
  rewrite Forall_forall in Hr. specialize (Hr (n', row_str r')).
  rewrite Forall_forall in Hwf.
  pose proof (Hwf (n, r) (or_introl eq_refl)) as W0. pose proof (Hwf (n', r') (or_intror Hin)) as W1. cbn [snd] in *.
  rewrite <- (zlen_row_str r W0), <- (zlen_row_str r' W1).
  apply Z.eqb_eq. apply Hr. apply (in_map (fun nr => (fst nr, row_str (snd nr))) t (n', r')). exact Hin.
Qed.

Lemma mk_align_ok a k : a <> [] -> Forall (fun nr => RowWF (snd nr) /\ skind (adata (snd nr)) = k) a -> rect (astr a) ->
  NoDup (map fst a) -> mk_align a = Ok a /\ AlnWF a /\ al_kind a = k.
Proof.
  intros Hne Hwf Hr Hnd.
  assert (Hk : al_kind a = k).
  { destruct a as [|[n r] t]; [congruence|]. cbn [al_kind]. apply Forall_inv in Hwf. cbn [snd] in Hwf. apply Hwf. }
  unfold mk_align. rewrite one_length_rect; try assumption.
  - split; [reflexivity|]. split; [|exact Hk]. split; [exact Hne|]. split; [rewrite Hk; exact Hwf|]. split; [exact Hr|exact Hnd].
  - eapply Forall_impl; [|exact Hwf]. intros x [H _]. exact H.
Qed.

(** every row-wise operation at once *)
Lemma map_rowsM_spec (f : arow -> res arow) (g : list Z -> list Z) k' a :
  AlnWF a -> uniform g ->
  (forall r, RowWF r -> skind (adata r) = al_kind a -> zlen (row_str r) = slen (astr a) ->
             exists r', f r = Ok r' /\ RowWF r' /\ skind (adata r') = k' /\ row_str r' = g (row_str r)) ->
  exists a', bind (map_rowsM f a) mk_align = Ok a' /\ AlnWF a' /\ al_kind a' = k' /\
             astr a' = map_rows g (astr a) /\ map fst a' = map fst a.
Proof.
  intros (Hne & Hwf & Hr & Hnd) Hu Hf.
  assert (Hlen : Forall (fun nr => zlen (row_str (snd nr)) = slen (astr a)) a).
  { unfold rect, all_len, astr in Hr. rewrite Forall_map in Hr. exact Hr. }
  unfold map_rowsM.
  destruct (mapM_exists (fun nr => bind (f (snd nr)) (fun r' => Ok (fst nr, r')))
              (fun nr nr' => fst nr' = fst nr /\ RowWF (snd nr') /\ skind (adata (snd nr')) = k' /\
                             row_str (snd nr') = g (row_str (snd nr))) a) as (a' & Ea & Ha).
  { intros [n r] Hin. rewrite Forall_forall in Hwf, Hlen.
    destruct (Hwf _ Hin) as [W K]. specialize (Hlen _ Hin). cbn [fst snd] in *.
    destruct (Hf r W K Hlen) as (r' & E & W' & K' & S). exists (n, r'). rewrite E. cbn [bind fst snd]. auto. }
  rewrite Ea. cbn [bind].
  assert (Hastr : astr a' = map_rows g (astr a)).
  { clear -Ha. unfold astr, map_rows.
    induction Ha as [|[n r] [n' r'] l l' (E1 & _ & _ & E2) _ IH]; [reflexivity|].
    cbn [map fst snd] in *. rewrite IH. subst. rewrite E2. reflexivity. }
  assert (Hnames : map fst a' = map fst a).
  { clear -Ha. induction Ha as [|x y l l' (E1 & _) _ IH]; [reflexivity|]. cbn [map]. now rewrite IH, E1. }
  assert (Hne' : a' <> []).
  { intros ->. inversion Ha; subst; congruence. }
  assert (Hwf' : Forall (fun nr => RowWF (snd nr) /\ skind (adata (snd nr)) = k') a').
  { clear -Ha. induction Ha as [|x y l l' (_ & W & K & _) _ IH]; constructor; auto. }
  destruct (mk_align_ok a' k' Hne' Hwf') as (E & W & K).
  { rewrite Hastr. apply rect_map_rows; assumption. }
  { rewrite Hnames. exact Hnd. }
  exists a'. auto.
Qed.

(** ** slices with optional bounds *)
Definition lo_of (x : option Z) : Z := match x with Some a => a | None => 0 end.
Definition hi_of (y : option Z) (n : Z) : Z := match y with Some b => b | None => n end.
Definition bounds_ok (n : Z) (x y : option Z) : Prop := 0 <= lo_of x /\ lo_of x <= hi_of y n /\ hi_of y n <= n.

Lemma py_slice_opt_msub {A} (l : list A) x y : bounds_ok (zlen l) x y ->
  py_slice l x y 1 = msub l (lo_of x) (hi_of y (zlen l)).
Proof.
  intros (H0 & H1 & H2). rewrite <- py_slice_msub by assumption.
  rewrite !py_slice_unfold. f_equal.
  pose proof (zlen_nonneg l) as Hn.
  assert (E1 : adjust_bound (zlen l) 1 false x = adjust_bound (zlen l) 1 false (Some (lo_of x))).
  { destruct x as [a|]; [reflexivity|]. cbn [lo_of]. unfold adjust_bound.
    replace (1 <? 0) with false by lia. replace (0 <? 0) with false by lia.
    destruct (0 >=? zlen l) eqn:E; lia. }
  assert (E2 : adjust_bound (zlen l) 1 true y = adjust_bound (zlen l) 1 true (Some (hi_of y (zlen l)))).
  { destruct y as [b|]; [reflexivity|]. cbn [hi_of]. unfold adjust_bound.
    replace (1 <? 0) with false by lia. replace (zlen l <? 0) with false by lia.
    replace (zlen l >=? zlen l) with true by lia. reflexivity. }
  rewrite E1, E2. reflexivity.
Qed.

Lemma row_getitem_slice_none_stop vr r x :
  row_getitem_slice vr r x None = row_getitem_slice vr r x (Some (len (amap r))).
Proof.
  unfold row_getitem_slice, imap_slice, or_len.
  destruct (v_clamp vr); destruct (len (amap r) =? 0); reflexivity.
Qed.

Lemma row_getitem_slice_none_start vr r y :
  row_getitem_slice vr r None y = row_getitem_slice vr r (Some 0) y.
Proof. unfold row_getitem_slice, imap_slice. destruct (v_clamp vr); reflexivity. Qed.

Lemma row_slice_opt vr r x y : RowWF r -> bounds_ok (row_len r) x y ->
  exists r', row_getitem_slice vr r x y = Ok r' /\ RowWF r' /\ skind (adata r') = skind (adata r) /\
             row_str r' = py_slice (row_str r) x y 1.
Proof.
  intros Hr Hb. pose proof (zlen_row_str r Hr) as Hl.
  rewrite py_slice_opt_msub by (rewrite Hl; exact Hb). rewrite Hl.
  destruct Hb as (H0 & H1 & H2).
  assert (E : row_getitem_slice vr r x y = row_getitem_slice vr r (Some (lo_of x)) (Some (hi_of y (row_len r)))).
  { destruct x as [a|]; destruct y as [b|]; cbn [lo_of hi_of]; unfold row_len.
    - reflexivity.
    - apply row_getitem_slice_none_stop.
    - apply row_getitem_slice_none_start.
    - rewrite row_getitem_slice_none_stop. apply row_getitem_slice_none_start. }
  rewrite E. apply row_slice_in_range; assumption.
Qed.

Lemma Forall2_len {A B} (P : A -> B -> Prop) l l' : Forall2 P l l' -> length l = length l'.
Proof. induction 1; cbn [length]; congruence. Qed.

(** ** rebuilding an alignment from strings ([take_positions], [sample], [to_type], ...) *)
Lemma rebuild_spec k names strs n :
  names <> [] -> length names = length strs -> Forall (fun s => zlen s = n) strs -> NoDup names ->
  exists a', rebuild k names strs = Ok a' /\ AlnWF a' /\ al_kind a' = k /\ astr a' = combine names strs /\
             map fst a' = names.
Proof.
  intros Hne Hlen Hn Hnd. unfold rebuild.
  destruct (mapM_exists (row_of_string k) (fun s r => RowWF r /\ skind (adata r) = k /\ row_str r = s) strs)
    as (rows & E & H2).
  { intros s _. destruct (row_of_string_spec k s) as (r & Er & W & K & S). exists r. auto. }
  rewrite E. cbn [bind].
  assert (Hl2 : length strs = length rows) by (eapply Forall2_len; eauto).
  assert (Hastr : astr (combine names rows) = combine names strs).
  { clear -H2 Hlen. revert names Hlen. induction H2 as [|s r l l' (_ & _ & S) _ IH]; intros names Hlen.
    - destruct names; reflexivity.
    - destruct names as [|nm names]; [reflexivity|]. cbn [combine astr map fst snd]. rewrite S. f_equal.
      apply IH. cbn [length] in Hlen. lia. }
  assert (Hwf : Forall (fun nr => RowWF (snd nr) /\ skind (adata (snd nr)) = k) (combine names rows)).
  { clear -H2. revert names. induction H2 as [|s r l l' (W & K & _) _ IH]; intros names.
    - destruct names; constructor.
    - destruct names as [|nm names]; [constructor|]. cbn [combine]. constructor; [cbn [snd]; auto|apply IH]. }
  assert (Hne' : combine names rows <> []).
  { destruct names as [|nm names]; [congruence|]. destruct rows as [|r rows]; [cbn [length] in *; lia|]. discriminate. }
  assert (Hrect : rect (astr (combine names rows))).
  { rewrite Hastr. clear -Hn Hlen Hne. destruct names as [|nm names]; [congruence|].
    destruct strs as [|s strs]; [cbn [length] in Hlen; lia|]. cbn [combine]. apply rect_cons.
    inversion Hn as [|? ? Hs Hn']; subst.
    clear -Hn'. revert names. induction Hn' as [|t l Ht _ IH]; intros names.
    - destruct names; constructor.
    - destruct names as [|x names]; [constructor|]. cbn [combine]. constructor; [cbn [snd]; lia|apply IH]. }
  assert (Hfst : map fst (combine names rows) = names).
  { clear -Hlen Hl2. revert strs rows Hlen Hl2. induction names as [|nm names IH]; intros strs rows Hlen Hl2; [reflexivity|].
    destruct rows as [|r rows]; [destruct strs; cbn [length] in *; lia|].
    destruct strs as [|s strs]; [cbn [length] in *; lia|].
    cbn [combine map fst]. f_equal. apply (IH strs rows); cbn [length] in *; lia. }
  destruct (mk_align_ok _ k Hne' Hwf Hrect) as (Em & W & K); [rewrite Hfst; exact Hnd|].
  exists (combine names rows). split; [exact Em|]. split; [exact W|]. split; [exact K|]. split; [exact Hastr|exact Hfst].
Qed.

Lemma combine_fst_map {N A B} (f : A -> B) (l : list (N * A)) :
  combine (map fst l) (map (fun nr => f (snd nr)) l) = map (fun nr => (fst nr, f (snd nr))) l.
Proof. induction l as [|[n x] l IH]; [reflexivity|]. cbn [map combine fst snd]. now rewrite IH. Qed.

Lemma rebuild_rows_spec k a (h : arow -> res (list Z)) (g : list Z -> list Z) :
  AlnWF a -> uniform g ->
  (forall r, RowWF r -> skind (adata r) = al_kind a -> zlen (row_str r) = slen (astr a) -> h r = Ok (g (row_str r))) ->
  exists a', bind (mapM (fun nr => h (snd nr)) a) (fun strs => rebuild k (map fst a) strs) = Ok a' /\
             AlnWF a' /\ al_kind a' = k /\ astr a' = map_rows g (astr a) /\ map fst a' = map fst a.
Proof.
  intros (Hne & Hwf & Hr & Hnd) Hu Hh.
  assert (Hlen : Forall (fun nr => zlen (row_str (snd nr)) = slen (astr a)) a).
  { unfold rect, all_len, astr in Hr. rewrite Forall_map in Hr. exact Hr. }
  rewrite (mapM_ok (fun nr => h (snd nr)) (fun nr => g (row_str (snd nr))) a).
  2:{ intros [n r] Hin. rewrite Forall_forall in Hwf, Hlen. destruct (Hwf _ Hin) as [W K]. apply Hh; [exact W|exact K|apply (Hlen _ Hin)]. }
  cbn [bind].
  destruct a as [|[n0 r0] t] eqn:Ea; [congruence|]. rewrite <- Ea in *.
  destruct (rebuild_spec k (map fst a) (map (fun nr => g (row_str (snd nr))) a) (zlen (g (row_str r0))))
    as (a' & E & W & K & S & N).
  - rewrite Ea. discriminate.
  - now rewrite !map_length.
  - rewrite Forall_map. eapply Forall_impl; [|exact Hlen]. intros [n r] Hl. cbn [snd] in *. apply Hu.
    rewrite Hl. rewrite Ea. reflexivity.
  - exact Hnd.
  - exists a'. split; [exact E|]. split; [exact W|]. split; [exact K|]. split; [|exact N].
    rewrite S. transitivity (map (fun nr => (fst nr, g (row_str (snd nr)))) a).
    + apply (combine_fst_map (fun r => g (row_str r))).
    + unfold map_rows, astr. rewrite map_map. reflexivity.
Qed.

(** ** slices with Python's conventions: negative bounds (in range), omitted bounds, start beyond stop *)

Definition in_py_range (n : Z) (o : option Z) : Prop := match o with None => True | Some v => - n <= v <= n end.

Lemma adjust_start_py n x : 0 <= n -> in_py_range n x -> adjust_bound n 1 false x = py_bound n 0 x.
Proof.
  intros Hn H. unfold adjust_bound, py_bound. replace (1 <? 0) with false by lia.
  destruct x as [v|]; [|reflexivity]. cbn [in_py_range] in H.
  destruct (v <? 0) eqn:E1.
  - replace (v + n <? 0) with false by lia. lia.
  - destruct (v >=? n) eqn:E2; lia.
Qed.

Lemma adjust_stop_py n y : 0 <= n -> in_py_range n y -> adjust_bound n 1 true y = py_bound n n y.
Proof.
  intros Hn H. unfold adjust_bound, py_bound. replace (1 <? 0) with false by lia.
  destruct y as [v|]; [|reflexivity]. cbn [in_py_range] in H.
  destruct (v <? 0) eqn:E1.
  - replace (v + n <? 0) with false by lia. lia.
  - destruct (v >=? n) eqn:E2; lia.
Qed.

Lemma py_bound_range n d o : 0 <= d <= n -> in_py_range n o -> 0 <= py_bound n d o <= n.
Proof. intros Hd H. unfold py_bound. destruct o as [v|]; [|lia]. cbn [in_py_range] in H. destruct (v <? 0) eqn:E; lia. Qed.

Lemma py_slice_python {A} (l : list A) x y : in_py_range (zlen l) x -> in_py_range (zlen l) y ->
  py_slice l x y 1 = msub l (py_bound (zlen l) 0 x) (Z.max (py_bound (zlen l) 0 x) (py_bound (zlen l) (zlen l) y)).
Proof.
  intros Hx Hy. pose proof (zlen_nonneg l) as Hn.
  pose proof (py_bound_range (zlen l) 0 x ltac:(lia) Hx) as Ha.
  pose proof (py_bound_range (zlen l) (zlen l) y ltac:(lia) Hy) as Hb.
  set (a := py_bound (zlen l) 0 x) in *. set (b := py_bound (zlen l) (zlen l) y) in *.
  assert (E : py_slice l x y 1 = py_slice l (Some a) (Some b) 1).
  { rewrite !py_slice_unfold. rewrite (adjust_start_py _ x Hn Hx), (adjust_stop_py _ y Hn Hy). fold a b.
    rewrite (adjust_start_py _ (Some a) Hn), (adjust_stop_py _ (Some b) Hn) by (cbn [in_py_range]; lia).
    unfold py_bound. replace (a <? 0) with false by lia. replace (b <? 0) with false by lia. reflexivity. }
  rewrite E. destruct (Z_le_dec a b) as [Le|Gt].
  - replace (Z.max a b) with b by lia. apply py_slice_msub; lia.
  - replace (Z.max a b) with a by lia. rewrite msub_empty. rewrite py_slice_unfold.
    rewrite (adjust_start_py _ (Some a) Hn), (adjust_stop_py _ (Some b) Hn) by (cbn [in_py_range]; lia).
    unfold py_bound. replace (a <? 0) with false by lia. replace (b <? 0) with false by lia.
    rewrite range_len_pos_empty by lia. reflexivity.
Qed.

Lemma imap_slice_python vr m x y : IndelMapSpec.WF m -> in_py_range (len m) x -> in_py_range (len m) y ->
  exists m', imap_slice vr m x y = Ok m' /\ IndelMapSpec.WF m' /\
             abs m' = msub (abs m) (py_bound (len m) 0 x) (Z.max (py_bound (len m) 0 x) (py_bound (len m) (len m) y)).
Proof.
  intros Hm Hx Hy.
  assert (Hl : 0 <= len m) by (rewrite <- (zlen_abs_len m Hm); apply zlen_nonneg).
  pose proof (py_bound_range (len m) 0 x ltac:(lia) Hx) as Ha.
  pose proof (py_bound_range (len m) (len m) y ltac:(lia) Hy) as Hb.
  unfold imap_slice. destruct (v_clamp vr).
  - apply (slice_v2_spec m x y Hm); lia.
  - apply (slice_spec_python m x y Hm); lia.
Qed.

Lemma row_slice_core vr r x y a B s1 nm :
  RowWF r -> 0 <= a -> a <= B -> B <= row_len r ->
  imap_slice vr (amap r) x y = Ok nm -> IndelMapSpec.WF nm -> abs nm = msub (abs (amap r)) a B ->
  get_seq_index (amap r) (or0 x) = Ok (residues (firstn (Z.to_nat a) (abs (amap r)))) ->
  get_seq_index (amap r) (or_len y (len (amap r))) = Ok s1 ->
  (a < B -> s1 = residues (firstn (Z.to_nat B) (abs (amap r)))) ->
  exists r', row_getitem_slice vr r x y = Ok r' /\ RowWF r' /\ skind (adata r') = skind (adata r) /\
             row_str r' = msub (row_str r) a B.
Proof.
  intros (Hm & Hd & Hp) Ha HaB HB E1 Hnm Habs E2 E3 Hs1. unfold row_len in HB. destruct r as [m d]. cbn [amap adata] in *.
  unfold row_getitem_slice. cbn [amap adata]. rewrite E1. cbn [bind]. rewrite E2. cbn [bind]. rewrite E3. cbn [bind].
  pose proof (parent_length_residues m Hm) as Hpr.
  pose proof (parent_length_residues nm Hnm) as Hpn. rewrite Habs, residues_msub in Hpn by lia.
  pose proof (residues_firstn_mono (abs m) a B Ha HaB) as Hmono.
  pose proof (residues_nonneg' (firstn (Z.to_nat a) (abs m))) as H0.
  pose proof (residues_firstn_le (abs m) (Z.to_nat B)) as Hle.
  destruct (parent_length nm =? 0) eqn:Eu; cbn [negb].
  - destruct (seq_slice_empty d Hd) as (d' & E4 & Hd' & Hk & Hr). rewrite E4. cbn [bind andb].
    exists (mkRow nm d'). split; [reflexivity|].
    destruct (row_slice_finish m d nm d' a B Hm Hp Hnm Habs Hd') as [W S]; try lia.
    { rewrite Hr. replace (residues (firstn (Z.to_nat B) (abs m))) with (residues (firstn (Z.to_nat a) (abs m))) by lia.
      symmetry. apply msub_empty. }
    split; [exact W|]. split; [exact Hk|exact S].
  - assert (HltB : a < B).
    { destruct (Z.eq_dec a B) as [->|]; [|lia]. lia. }
    rewrite (Hs1 HltB).
    destruct (seq_slice_spec d _ _ Hd H0 Hmono ltac:(lia)) as (d' & E4 & Hd' & Hk & Hr). rewrite E4. cbn [bind andb].
    replace (_ >? _) with false by lia.
    exists (mkRow nm d'). split; [reflexivity|].
    destruct (row_slice_finish m d nm d' a B Hm Hp Hnm Habs Hd' Hr) as [W S]; try lia.
    split; [exact W|]. split; [exact Hk|exact S].
Qed.

(** HEADLINE (row, Python conventions) *)
Lemma row_slice_python vr r x y : RowWF r -> in_py_range (row_len r) x -> in_py_range (row_len r) y ->
  exists r', row_getitem_slice vr r x y = Ok r' /\ RowWF r' /\ skind (adata r') = skind (adata r) /\
             row_str r' = py_slice (row_str r) x y 1.
Proof.
  intros Hr Hx Hy. pose proof Hr as (Hm & Hd & Hp). pose proof (zlen_row_str r Hr) as Hl.
  rewrite py_slice_python by (rewrite Hl; assumption). rewrite Hl. unfold row_len in *.
  set (n := len (amap r)) in *.
  assert (Hn : 0 <= n) by (unfold n; rewrite <- (zlen_abs_len _ Hm); apply zlen_nonneg).
  pose proof (py_bound_range n 0 x ltac:(lia) Hx) as Ha.
  pose proof (py_bound_range n n y ltac:(lia) Hy) as Hb.
  destruct (imap_slice_python vr (amap r) x y Hm Hx Hy) as (nm & E1 & Hnm & Habs). fold n in Habs.
  set (a := py_bound n 0 x) in *. set (b := py_bound n n y) in *.
  assert (E2 : get_seq_index (amap r) (or0 x) = Ok (residues (firstn (Z.to_nat a) (abs (amap r))))).
  { destruct x as [v|]; cbn [or0 in_py_range] in *.
    - assert (Ea : a = if v <? 0 then n + v else v) by reflexivity.
      destruct (v <? 0) eqn:Ev.
      + rewrite Ea. apply (get_seq_index_neg (amap r) Hm v). fold n. lia.
      + rewrite Ea. apply (get_seq_index_spec (amap r) Hm v). fold n. lia.
    - apply (get_seq_index_spec (amap r) Hm 0). fold n. lia. }
  assert (E3 : exists s1, get_seq_index (amap r) (or_len y n) = Ok s1 /\
                          (a < Z.max a b -> s1 = residues (firstn (Z.to_nat (Z.max a b)) (abs (amap r))))).
  { destruct y as [v|]; cbn [or_len in_py_range] in *.
    - assert (Eb : b = if v <? 0 then n + v else v) by reflexivity.
      destruct (v =? 0) eqn:E0.
      + eexists. split; [apply (get_seq_index_spec (amap r) Hm n); fold n; lia|].
        intros Hlt. exfalso. replace (v <? 0) with false in Eb by lia. lia.
      + destruct (v <? 0) eqn:Ev.
        * eexists. split; [apply (get_seq_index_neg (amap r) Hm v); fold n; lia|].
          intros Hlt. f_equal. f_equal. fold n. lia.
        * eexists. split; [apply (get_seq_index_spec (amap r) Hm v); fold n; lia|].
          intros Hlt. f_equal. f_equal. lia.
    - assert (Eb : b = n) by reflexivity.
      eexists. split; [apply (get_seq_index_spec (amap r) Hm n); fold n; lia|]. intros _. f_equal. f_equal. lia. }
  destruct E3 as (s1 & E3 & Hs1).
  apply (row_slice_core vr r x y a (Z.max a b) s1 nm Hr); try assumption; try lia.
  unfold row_len. fold n. lia.
Qed.

(** ** beyond the end: [get_seq_index] keeps counting, the sequence slice clamps *)

Lemma get_seq_index_beyond m x : IndelMapSpec.WF m -> len m <= x ->
  get_seq_index m x = Ok (parent_length m + (x - len m)).
Proof.
  intros Hm Hx. pose proof (proj1 (WF_WFi m) Hm) as Hwfi.
  assert (Hl : 0 <= len m) by (rewrite <- (zlen_abs_len m Hm); apply zlen_nonneg).
  unfold get_seq_index. replace (x <? 0) with false by lia. replace (x <? 0) with false by lia.
  destruct (seq_index_nn_rel m Hwfi x ltac:(lia)) as (s & E & _ & R2). rewrite E. f_equal.
  pose proof (n_nonneg m) as Hn.
  rewrite (R2 (num_gaps m)); [rewrite (len_eq m Hwfi); lia|lia| |lia].
  intros Hpos. pose proof (ge_le_len m Hwfi (num_gaps m - 1) ltac:(lia)). lia.
Qed.

Lemma py_slice_clamped {A} (l : list A) x y : 0 <= x -> x <= zlen l -> x <= y ->
  py_slice l (Some x) (Some y) 1 = msub l x (Z.min y (zlen l)).
Proof.
  intros Hx Hxl Hxy. pose proof (zlen_nonneg l) as Hn.
  rewrite <- py_slice_msub by lia. rewrite !py_slice_unfold. f_equal.
  assert (E : adjust_bound (zlen l) 1 true (Some y) = adjust_bound (zlen l) 1 true (Some (Z.min y (zlen l)))).
  { unfold adjust_bound. replace (1 <? 0) with false by lia.
    replace (y <? 0) with false by lia. replace (Z.min y (zlen l) <? 0) with false by lia.
    destruct (y >=? zlen l) eqn:E1; destruct (Z.min y (zlen l) >=? zlen l) eqn:E2; lia. }
  rewrite E. reflexivity.
Qed.

Lemma seq_slice_py d x y : SWF d ->
  exists d', seq_slice d x y = Ok d' /\ SWF d' /\ skind d' = skind d /\ realise d' = py_slice (realise d) x y 1.
Proof.
  intros Hd. unfold seq_slice. cbn [View.apply_op].
  pose proof (slice_op_spec d x y None Hd ltac:(discriminate)) as H.
  destruct (with_view d (same_parent (sv d)) (View.getitem_slice FSeqView (sv d) x y None)) as [d'|e]; [|contradiction].
  destruct H as (Hs & Hk & Hr). exists d'. cbn [of_view]. split; [reflexivity|]. split; [exact Hs|]. split; [exact Hk|].
  rewrite Hr. cbn [step_of]. replace (1 <? 0) with false by lia. reflexivity.
Qed.

(** the general core: [s0], [s1] are whatever [get_seq_index] answers; they only matter when the window holds a residue *)
Lemma row_slice_core2 vr r x y a B s0 s1 nm :
  RowWF r -> 0 <= a -> a <= B -> B <= row_len r ->
  imap_slice vr (amap r) x y = Ok nm -> IndelMapSpec.WF nm -> abs nm = msub (abs (amap r)) a B ->
  get_seq_index (amap r) (or0 x) = Ok s0 ->
  get_seq_index (amap r) (or_len y (len (amap r))) = Ok s1 ->
  (a < B -> s0 = residues (firstn (Z.to_nat a) (abs (amap r))) /\
            Z.min s1 (parent_length (amap r)) = residues (firstn (Z.to_nat B) (abs (amap r)))) ->
  exists r', row_getitem_slice vr r x y = Ok r' /\ RowWF r' /\ skind (adata r') = skind (adata r) /\
             row_str r' = msub (row_str r) a B.
Proof.
  intros (Hm & Hd & Hp) Ha HaB HB E1 Hnm Habs E2 E3 Hs. unfold row_len in HB. destruct r as [m d]. cbn [amap adata] in *.
  unfold row_getitem_slice. cbn [amap adata]. rewrite E1. cbn [bind]. rewrite E2. cbn [bind]. rewrite E3. cbn [bind].
  pose proof (parent_length_residues m Hm) as Hpr.
  pose proof (parent_length_residues nm Hnm) as Hpn. rewrite Habs, residues_msub in Hpn by lia.
  pose proof (residues_firstn_mono (abs m) a B Ha HaB) as Hmono.
  pose proof (residues_nonneg' (firstn (Z.to_nat a) (abs m))) as H0.
  pose proof (residues_firstn_le (abs m) (Z.to_nat B)) as Hle.
  destruct (parent_length nm =? 0) eqn:Eu; cbn [negb].
  - destruct (seq_slice_empty d Hd) as (d' & E4 & Hd' & Hk & Hr). rewrite E4. cbn [bind andb].
    exists (mkRow nm d'). split; [reflexivity|].
    destruct (row_slice_finish m d nm d' a B Hm Hp Hnm Habs Hd') as [W S]; try lia.
    { rewrite Hr. replace (residues (firstn (Z.to_nat B) (abs m))) with (residues (firstn (Z.to_nat a) (abs m))) by lia.
      symmetry. apply msub_empty. }
    split; [exact W|]. split; [exact Hk|exact S].
  - assert (HltB : a < B).
    { destruct (Z.eq_dec a B) as [->|]; [|lia]. lia. }
    destruct (Hs HltB) as [Es0 Es1].
    destruct (seq_slice_py d (Some s0) (Some s1) Hd) as (d' & E4 & Hd' & Hk & Hr). rewrite E4. cbn [bind andb].
    assert (Hle01 : s0 <= s1) by lia.
    replace (s0 >? s1) with false by lia.
    rewrite py_slice_clamped in Hr by lia. rewrite <- Hp, Es1, Es0 in Hr.
    exists (mkRow nm d'). split; [reflexivity|].
    destruct (row_slice_finish m d nm d' a B Hm Hp Hnm Habs Hd' Hr) as [W S]; try lia.
    split; [exact W|]. split; [exact Hk|exact S].
Qed.

(** bounds the class accepts: omitted, or not below [-n]; beyond [n] only once C08-1 is repaired *)
Definition slice_guard (vr : variant) (n : Z) (o : option Z) : Prop :=
  match o with None => True | Some v => - n <= v /\ (v <= n \/ v_clamp vr = true) end.

Lemma msub_clamp_both {A} (k : list A) a c : 0 <= a -> a <= c ->
  msub k a c = msub k (Z.min a (zlen k)) (Z.min c (zlen k)).
Proof.
  intros Ha Hac. pose proof (zlen_nonneg k) as Hn. unfold msub.
  destruct (Z_le_dec a (zlen k)) as [L|L].
  - replace (Z.min a (zlen k)) with a by lia.
    destruct (Z_le_dec c (zlen k)) as [L2|L2]; [replace (Z.min c (zlen k)) with c by lia; reflexivity|].
    replace (Z.min c (zlen k)) with (zlen k) by lia.
    rewrite !firstn_all2; [reflexivity| |]; rewrite skipn_length; unfold zlen in *; lia.
  - replace (Z.min a (zlen k)) with (zlen k) by lia. replace (Z.min c (zlen k)) with (zlen k) by lia.
    rewrite Z.sub_diag. cbn [Z.to_nat firstn].
    rewrite (skipn_all2 k) by (unfold zlen in *; lia). now rewrite firstn_nil.
Qed.

Lemma adjust_start_lb n x : 0 <= n -> (match x with None => True | Some v => - n <= v end) ->
  adjust_bound n 1 false x = Z.min (py_bound n 0 x) n.
Proof.
  intros Hn H. unfold adjust_bound, py_bound. replace (1 <? 0) with false by lia.
  destruct x as [v|]; [|lia].
  destruct (v <? 0) eqn:E1.
  - replace (v + n <? 0) with false by lia. lia.
  - destruct (v >=? n) eqn:E2; lia.
Qed.

Lemma adjust_stop_lb n y : 0 <= n -> (match y with None => True | Some v => - n <= v end) ->
  adjust_bound n 1 true y = Z.min (py_bound n n y) n.
Proof.
  intros Hn H. unfold adjust_bound, py_bound. replace (1 <? 0) with false by lia.
  destruct y as [v|]; [|lia].
  destruct (v <? 0) eqn:E1.
  - replace (v + n <? 0) with false by lia. lia.
  - destruct (v >=? n) eqn:E2; lia.
Qed.

Lemma py_slice_python_lb {A} (l : list A) x y :
  (match x with None => True | Some v => - zlen l <= v end) ->
  (match y with None => True | Some v => - zlen l <= v end) ->
  let a := Z.min (py_bound (zlen l) 0 x) (zlen l) in
  let b := Z.min (py_bound (zlen l) (zlen l) y) (zlen l) in
  py_slice l x y 1 = msub l a (Z.max a b).
Proof.
  intros Hx Hy a b. pose proof (zlen_nonneg l) as Hn.
  assert (Ha : 0 <= a <= zlen l).
  { unfold a, py_bound. destruct x as [v|]; [|lia]. destruct (v <? 0) eqn:E; lia. }
  assert (Hb : 0 <= b <= zlen l).
  { unfold b, py_bound. destruct y as [v|]; [|lia]. destruct (v <? 0) eqn:E; lia. }
  assert (E : py_slice l x y 1 = py_slice l (Some a) (Some b) 1).
  { rewrite !py_slice_unfold. rewrite (adjust_start_lb _ x Hn Hx), (adjust_stop_lb _ y Hn Hy). fold a b.
    rewrite (adjust_start_py _ (Some a) Hn), (adjust_stop_py _ (Some b) Hn) by (cbn [in_py_range]; lia).
    unfold py_bound. replace (a <? 0) with false by lia. replace (b <? 0) with false by lia. reflexivity. }
  rewrite E. destruct (Z_le_dec a b) as [Le|Gt].
  - replace (Z.max a b) with b by lia. apply py_slice_msub; lia.
  - replace (Z.max a b) with a by lia. rewrite msub_empty. rewrite py_slice_unfold.
    rewrite (adjust_start_py _ (Some a) Hn), (adjust_stop_py _ (Some b) Hn) by (cbn [in_py_range]; lia).
    unfold py_bound. replace (a <? 0) with false by lia. replace (b <? 0) with false by lia.
    rewrite range_len_pos_empty by lia. reflexivity.
Qed.

(** HEADLINE (row, repaired C08-1): every bound not below [-len], Python clamping of bounds beyond the end *)
Lemma row_slice_clamped vr r x y : RowWF r -> v_clamp vr = true ->
  (match x with None => True | Some v => - row_len r <= v end) ->
  (match y with None => True | Some v => - row_len r <= v end) ->
  exists r', row_getitem_slice vr r x y = Ok r' /\ RowWF r' /\ skind (adata r') = skind (adata r) /\
             row_str r' = py_slice (row_str r) x y 1.
Proof.
  intros Hr Hv Hx Hy. pose proof Hr as (Hm & Hd & Hp). pose proof (zlen_row_str r Hr) as Hl.
  rewrite py_slice_python_lb by (rewrite Hl; assumption). rewrite Hl. unfold row_len in *.
  set (n := len (amap r)) in *.
  assert (Hn : 0 <= n) by (unfold n; rewrite <- (zlen_abs_len _ Hm); apply zlen_nonneg).
  set (a := py_bound n 0 x). set (b := py_bound n n y).
  assert (Ha : 0 <= a) by (unfold a, py_bound; destruct x as [v|]; [destruct (v <? 0) eqn:E; lia|lia]).
  assert (Hb : 0 <= b) by (unfold b, py_bound; destruct y as [v|]; [destruct (v <? 0) eqn:E; lia|lia]).
  destruct (slice_v2_spec (amap r) x y Hm Ha Hb) as (nm & E1 & Hnm & Habs). fold n a b in Habs.
  assert (E1' : imap_slice vr (amap r) x y = Ok nm) by (unfold imap_slice; rewrite Hv; exact E1).
  rewrite (msub_clamp_both (abs (amap r)) a (Z.max a b)) in Habs by lia. rewrite (zlen_abs_len _ Hm) in Habs. fold n in Habs.
  replace (Z.min (Z.max a b) n) with (Z.max (Z.min a n) (Z.min b n)) in Habs by lia.
  pose proof (parent_length_residues _ Hm) as Hpr.
  assert (Hfull : residues (firstn (Z.to_nat n) (abs (amap r))) = parent_length (amap r)).
  { rewrite Hpr. unfold n. rewrite <- (zlen_abs_len _ Hm). apply residues_firstn_all. }
  (* what get_seq_index answers for the start *)
  assert (E2 : exists s0, get_seq_index (amap r) (or0 x) = Ok s0 /\
                          (a <= n -> s0 = residues (firstn (Z.to_nat a) (abs (amap r))))).
  { destruct x as [v|]; cbn [or0].
    - assert (Ea : a = if v <? 0 then n + v else v) by reflexivity.
      destruct (v <? 0) eqn:Ev.
      + eexists. split; [apply (get_seq_index_neg (amap r) Hm v); fold n; lia|]. intros _. rewrite Ea. reflexivity.
      + destruct (Z_le_dec v n) as [L|L].
        * eexists. split; [apply (get_seq_index_spec (amap r) Hm v); fold n; lia|]. intros _. rewrite Ea. reflexivity.
        * eexists. split; [apply (get_seq_index_beyond (amap r) v Hm); fold n; lia|]. intros. lia.
    - eexists. split; [apply (get_seq_index_spec (amap r) Hm 0); fold n; lia|]. intros _. reflexivity. }
  destruct E2 as (s0 & E2 & Hs0).
  assert (E3 : exists s1, get_seq_index (amap r) (or_len y n) = Ok s1 /\
                          (Z.min a n < Z.max (Z.min a n) (Z.min b n) ->
                           Z.min s1 (parent_length (amap r)) = residues (firstn (Z.to_nat (Z.max (Z.min a n) (Z.min b n))) (abs (amap r))))).
  { pose proof (residues_firstn_le (abs (amap r))) as Hle.
    destruct y as [v|]; cbn [or_len].
    - assert (Eb : b = if v <? 0 then n + v else v) by reflexivity.
      destruct (v =? 0) eqn:E0.
      + eexists. split; [apply (get_seq_index_spec (amap r) Hm n); fold n; lia|].
        intros Hlt. exfalso. replace (v <? 0) with false in Eb by lia. lia.
      + destruct (v <? 0) eqn:Ev.
        * eexists. split; [apply (get_seq_index_neg (amap r) Hm v); fold n; lia|].
          intros Hlt. replace (Z.max (Z.min a n) (Z.min b n)) with (n + v) by lia. fold n.
          specialize (Hle (Z.to_nat (n + v))). lia.
        * destruct (Z_le_dec v n) as [L|L].
          -- eexists. split; [apply (get_seq_index_spec (amap r) Hm v); fold n; lia|].
             intros Hlt. replace (Z.max (Z.min a n) (Z.min b n)) with v by lia.
             specialize (Hle (Z.to_nat v)). lia.
          -- eexists. split; [apply (get_seq_index_beyond (amap r) v Hm); fold n; lia|].
             intros Hlt. replace (Z.max (Z.min a n) (Z.min b n)) with n by lia. fold n. lia.
    - assert (Eb : b = n) by reflexivity.
      eexists. split; [apply (get_seq_index_spec (amap r) Hm n); fold n; lia|].
      intros Hlt. replace (Z.max (Z.min a n) (Z.min b n)) with n by lia. lia. }
  destruct E3 as (s1 & E3 & Hs1).
  apply (row_slice_core2 vr r x y (Z.min a n) (Z.max (Z.min a n) (Z.min b n)) s0 s1 nm Hr); try assumption; try lia.
  - unfold row_len. fold n. lia.
  - intros Hlt. split; [|apply Hs1, Hlt]. replace (Z.min a n) with a by lia. apply Hs0. lia.
Qed.

Lemma row_slice_any vr r x y : RowWF r -> slice_guard vr (row_len r) x -> slice_guard vr (row_len r) y ->
  exists r', row_getitem_slice vr r x y = Ok r' /\ RowWF r' /\ skind (adata r') = skind (adata r) /\
             row_str r' = py_slice (row_str r) x y 1.
Proof.
  intros Hr Hx Hy. destruct (v_clamp vr) eqn:Ev.
  - apply row_slice_clamped; try assumption.
    + destruct x as [v|]; [apply Hx|exact I].
    + destruct y as [v|]; [apply Hy|exact I].
  - apply row_slice_python; [exact Hr| |].
    + destruct x as [v|]; [|exact I]. cbn [slice_guard in_py_range] in *. destruct Hx as [H1 [H2|H2]]; [lia|congruence].
    + destruct y as [v|]; [|exact I]. cbn [slice_guard in_py_range] in *. destruct Hy as [H1 [H2|H2]]; [lia|congruence].
Qed.

(** ** uniform (length-determined) string functions *)
Lemma uniform_py_slice x y c : c <> 0 -> uniform (fun s => py_slice s x y c).
Proof. intros Hc s1 s2 H. rewrite !length_py_slice by exact Hc. now rewrite H. Qed.

Lemma zlen_ssub s x y : zlen (ssub s x y) = Z.min (Z.of_nat (Z.to_nat (y - x))) (Z.max 0 (zlen s - Z.of_nat (Z.to_nat x))).
Proof. unfold ssub. now rewrite zlen_firstn, zlen_skipn. Qed.

Lemma uniform_ssub x y : uniform (fun s => ssub s x y).
Proof. intros s1 s2 H. rewrite !zlen_ssub. now rewrite H. Qed.

Lemma uniform_flat_map {I} (f : I -> list Z -> list Z) l : (forall i, uniform (f i)) -> uniform (fun s => flat_map (fun i => f i s) l).
Proof.
  intros Hf s1 s2 H. induction l as [|i l IH]; [reflexivity|]. cbn [flat_map]. rewrite !zlen_app, IH.
  now rewrite (Hf i s1 s2 H).
Qed.

Lemma uniform_take_cols cols : uniform (take_cols cols).
Proof. apply (uniform_flat_map (fun i s => ssub s i (i + 1))). intros i. apply uniform_ssub. Qed.

Lemma uniform_take_motifs m js : uniform (take_motifs m js).
Proof. apply (uniform_flat_map (fun j s => ssub s (j * m) ((j + 1) * m))). intros i. apply uniform_ssub. Qed.

Lemma uniform_drop_cols cols : uniform (drop_cols cols).
Proof.
  intros s1 s2 H. unfold drop_cols. rewrite H.
  apply (uniform_flat_map (fun i s => if zmem i cols then [] else ssub s i (i + 1))); [|exact H].
  intros i. destruct (zmem i cols); [intros ? ? _; reflexivity|apply uniform_ssub].
Qed.

Lemma uniform_map f : uniform (map f).
Proof. intros s1 s2 H. now rewrite !zlen_map. Qed.

Lemma uniform_rc k : uniform (rc_str k).
Proof. intros s1 s2 H. unfold rc_str. now rewrite !zlen_map, !zlen_rev. Qed.

Lemma uniform_id : uniform (fun s => s).
Proof. intros s1 s2 H. exact H. Qed.

Lemma concatM_ok {I} (F : I -> res (list Z)) (f : I -> list Z) l :
  (forall i, In i l -> F i = Ok (f i)) -> concatM (map F l) = Ok (flat_map f l).
Proof.
  induction l as [|i l IH]; intros H; [reflexivity|].
  cbn [map concatM fold_right flat_map]. fold (concatM (map F l)).
  rewrite (H i (or_introl eq_refl)), IH by (intros j Hj; apply H; right; exact Hj). reflexivity.
Qed.

Lemma flat_map_filter {A B} (p : A -> bool) (f : A -> list B) l :
  flat_map f (filter p l) = flat_map (fun i => if p i then f i else []) l.
Proof.
  induction l as [|x l IH]; [reflexivity|]. cbn [filter flat_map].
  destruct (p x); cbn [flat_map]; now rewrite IH.
Qed.

Lemma AlnWF_row_len a r : AlnWF a -> RowWF r -> zlen (row_str r) = slen (astr a) -> row_len r = slen (astr a).
Proof. intros _ W H. now rewrite <- (zlen_row_str r W). Qed.

(** ** the operations, one by one *)

Lemma al_slice_spec vr a x y : AlnWF a -> slice_guard vr (slen (astr a)) x -> slice_guard vr (slen (astr a)) y ->
  exists a', al_slice vr a x y = Ok a' /\ AlnWF a' /\ al_kind a' = al_kind a /\
             astr a' = map_rows (fun s => py_slice s x y 1) (astr a) /\ map fst a' = map fst a.
Proof.
  intros Ha Hx Hy. unfold al_slice.
  apply (map_rowsM_spec _ (fun s => py_slice s x y 1) (al_kind a) a Ha); [apply uniform_py_slice; lia|].
  intros r W K L. destruct (row_slice_any vr r x y W) as (r' & E & W' & K' & S).
  - rewrite (AlnWF_row_len a r Ha W L). exact Hx.
  - rewrite (AlnWF_row_len a r Ha W L). exact Hy.
  - exists r'. split; [exact E|]. split; [exact W'|]. split; [congruence|exact S].
Qed.

Lemma al_index_spec vr a i : AlnWF a ->
  (if v_negidx vr then - slen (astr a) <= i else 0 <= i) -> i < slen (astr a) ->
  let j := if i <? 0 then i + slen (astr a) else i in
  exists a', bind (map_rowsM (fun r => row_getitem_int vr r i) a) mk_align = Ok a' /\ AlnWF a' /\
             al_kind a' = al_kind a /\ astr a' = map_rows (fun s => ssub s j (j + 1)) (astr a) /\ map fst a' = map fst a.
Proof.
  intros Ha Hlo Hhi j.
  apply (map_rowsM_spec _ (fun s => ssub s j (j + 1)) (al_kind a) a Ha); [apply uniform_ssub|].
  intros r W K L. pose proof (AlnWF_row_len a r Ha W L) as Hl. subst j.
  destruct (i <? 0) eqn:Ei.
  - destruct (v_negidx vr) eqn:Ev; [|lia].
    destruct (row_getitem_int_neg vr r i W Ev ltac:(lia)) as (r' & E & W' & K' & S).
    exists r'. rewrite Hl in S. split; [exact E|]. split; [exact W'|]. split; [congruence|exact S].
  - destruct (row_getitem_int_spec vr r i W ltac:(lia)) as (r' & E & W' & K' & S).
    exists r'. split; [exact E|]. split; [exact W'|]. split; [congruence|exact S].
Qed.

Lemma al_rc_spec a : AlnWF a -> al_kind a <> KOther ->
  exists a', bind (map_rowsM row_rc a) mk_align = Ok a' /\ AlnWF a' /\ al_kind a' = al_kind a /\
             astr a' = map_rows (rc_str (al_kind a)) (astr a) /\ map fst a' = map fst a.
Proof.
  intros Ha Hk.
  apply (map_rowsM_spec _ (rc_str (al_kind a)) (al_kind a) a Ha); [apply uniform_rc|].
  intros r W K L. destruct (row_rc_spec r W ltac:(congruence)) as (r' & E & W' & K' & S).
  exists r'. split; [exact E|]. split; [exact W'|]. split; [congruence|]. rewrite S, K. reflexivity.
Qed.

Lemma al_rc_err a : AlnWF a -> al_kind a = KOther -> bind (map_rowsM row_rc a) mk_align = Err E_Type.
Proof.
  intros Ha Hk. pose proof Ha as (Hne & Hwf & _). destruct a as [|[n r] t]; [congruence|].
  inversion Hwf as [|? ? [W K] _]; subst. cbn [snd al_kind] in *.
  unfold map_rowsM. cbn [mapM snd]. unfold row_rc.
  destruct (nrev_spec _ (proj1 W)) as (nm & E1 & _). rewrite E1. cbn [bind].
  cbn [View.apply_op]. rewrite Hk. reflexivity.
Qed.

Lemma al_to_kind_spec a target : AlnWF a -> al_kind a <> KOther -> target <> KOther ->
  exists a', bind (map_rowsM (fun r => row_to_kind r target) a) mk_align = Ok a' /\ AlnWF a' /\ al_kind a' = target /\
             astr a' = map_rows (match al_kind a, target with
                                 | KDna, KRna => t2u_str | KRna, KDna => u2t_str | _, _ => fun s => s end) (astr a) /\
             map fst a' = map fst a.
Proof.
  intros Ha Hk Ht.
  apply (map_rowsM_spec _ _ target a Ha).
  - destruct (al_kind a), target; try apply uniform_id; apply uniform_map.
  - intros r W K L. destruct (row_to_kind_spec r target W ltac:(congruence) Ht) as (r' & E & W' & K' & S).
    exists r'. split; [exact E|]. split; [exact W'|]. split; [exact K'|]. rewrite S, K.
    destruct (al_kind a), target; reflexivity.
Qed.

Lemma al_totype_spec a : AlnWF a ->
  exists a', rebuild (al_kind a) (map fst a) (map (fun nr => row_gapped (snd nr)) a) = Ok a' /\ AlnWF a' /\
             al_kind a' = al_kind a /\ astr a' = astr a /\ map fst a' = map fst a.
Proof.
  intros Ha.
  destruct (rebuild_rows_spec (al_kind a) a (fun r => Ok (row_gapped r)) (fun s => s) Ha uniform_id) as (a' & E & W & K & S & N).
  - intros r Wr _ _. now rewrite row_gapped_spec.
  - exists a'. rewrite (mapM_ok _ (fun nr => row_gapped (snd nr))) in E by reflexivity. cbn [bind] in E.
    split; [exact E|]. split; [exact W|]. split; [exact K|]. split; [|exact N].
    rewrite S. unfold map_rows. rewrite <- (map_id (astr a)) at 2. apply map_ext. intros [? ?]; reflexivity.
Qed.

Definition idx_ok (vr : variant) (n i : Z) : Prop := (if v_negidx vr then - n <= i else 0 <= i) /\ i < n.
Definition norm_idx (n i : Z) : Z := if i <? 0 then i + n else i.

Lemma pick_spec vr r cols : RowWF r -> Forall (idx_ok vr (row_len r)) cols ->
  concatM (map (fun i => bind (row_getitem_int vr r i) (fun r' => Ok (row_gapped r'))) cols)
  = Ok (take_cols (map (norm_idx (row_len r)) cols) (row_str r)).
Proof.
  intros W H. unfold take_cols. rewrite flat_map_concat_map, map_map, <- flat_map_concat_map.
  apply concatM_ok. intros i Hi. rewrite Forall_forall in H. destruct (H i Hi) as [Hlo Hhi]. unfold norm_idx.
  destruct (i <? 0) eqn:Ei.
  - destruct (v_negidx vr) eqn:Ev; [|lia].
    destruct (row_getitem_int_neg vr r i W Ev ltac:(lia)) as (r' & E & W' & _ & S). rewrite E. cbn [bind].
    now rewrite (row_gapped_spec r' W'), S.
  - destruct (row_getitem_int_spec vr r i W ltac:(lia)) as (r' & E & W' & _ & S). rewrite E. cbn [bind].
    now rewrite (row_gapped_spec r' W'), S.
Qed.

Lemma norm_idx_id n cols : Forall (fun i => 0 <= i < n) cols -> map (norm_idx n) cols = cols.
Proof.
  induction 1 as [|i l Hi _ IH]; [reflexivity|]. cbn [map]. rewrite IH. unfold norm_idx.
  replace (i <? 0) with false by lia. reflexivity.
Qed.

Lemma al_take_positions_spec vr a cols negate : AlnWF a ->
  (negate = false -> Forall (idx_ok vr (slen (astr a))) cols) ->
  (negate = true -> v_negate_ok vr = true \/ al_kind a = KOther) ->
  exists a', al_take_positions vr a cols negate = Ok a' /\ AlnWF a' /\ al_kind a' = al_kind a /\
             astr a' = map_rows (if negate then drop_cols cols else take_cols (map (norm_idx (slen (astr a))) cols)) (astr a) /\
             map fst a' = map fst a.
Proof.
  intros Ha Hc Hn. unfold al_take_positions.
  apply (rebuild_rows_spec (al_kind a) a
           (fun r => if negate then
                       bind (concatM (map (fun i => bind (row_getitem_int vr r i) (fun r' => Ok (row_gapped r')))
                                          (filter (fun i => negb (zmem i cols)) (zrange 0 (row_len r)))))
                            (fun s => if negb (v_negate_ok vr) && match al_kind a with KOther => false | _ => true end
                                      then Err E_Type else Ok s)
                     else concatM (map (fun i => bind (row_getitem_int vr r i) (fun r' => Ok (row_gapped r'))) cols))
           (if negate then drop_cols cols else take_cols (map (norm_idx (slen (astr a))) cols)) Ha).
  - destruct negate; [apply uniform_drop_cols|apply uniform_take_cols].
  - intros r W K L. pose proof (AlnWF_row_len a r Ha W L) as Hl. destruct negate.
    + rewrite (pick_spec vr r _ W).
      2:{ apply Forall_forall. intros i Hi. apply filter_In in Hi. destruct Hi as [Hi _]. apply zrange_In in Hi.
          unfold idx_ok. destruct (v_negidx vr); lia. }
      cbn [bind].
      assert (E : negb (v_negate_ok vr) && match al_kind a with KOther => false | _ => true end = false).
      { destruct (Hn eq_refl) as [-> | ->]; [reflexivity|apply andb_false_r]. }
      rewrite E. f_equal. rewrite norm_idx_id.
      2:{ apply Forall_forall. intros i Hi. apply filter_In in Hi. destruct Hi as [Hi _]. apply zrange_In in Hi. exact Hi. }
      unfold take_cols, drop_cols. rewrite flat_map_filter.
      rewrite <- (zlen_row_str r W). apply flat_map_ext. intros i. now destruct (zmem i cols).
    + rewrite <- Hl. apply pick_spec; [exact W|]. rewrite Hl. apply Hc. reflexivity.
Qed.

Lemma al_sample_spec vr a locs m : AlnWF a -> 0 < m ->
  Forall (fun l => 0 <= l /\ (l + 1) * m <= slen (astr a)) locs ->
  exists a', al_sample vr a locs m = Ok a' /\ AlnWF a' /\ al_kind a' = al_kind a /\
             astr a' = map_rows (take_motifs m locs) (astr a) /\ map fst a' = map fst a.
Proof.
  intros Ha Hm Hl. unfold al_sample.
  apply (rebuild_rows_spec (al_kind a) a
           (fun r => concatM (map (fun l => bind (row_getitem_slice vr r (Some (l * m)) (Some ((l + 1) * m)))
                                                 (fun r' => Ok (row_gapped r'))) locs))
           (take_motifs m locs) Ha (uniform_take_motifs m locs)).
  intros r W K L. pose proof (AlnWF_row_len a r Ha W L) as Hn.
  unfold take_motifs. apply concatM_ok. intros l Hin. rewrite Forall_forall in Hl. destruct (Hl l Hin) as [H0 H1].
  destruct (row_slice_in_range vr r (l * m) ((l + 1) * m) W ltac:(nia) ltac:(nia) ltac:(lia)) as (r' & E & W' & _ & S).
  rewrite E. cbn [bind]. now rewrite (row_gapped_spec r' W'), S.
Qed.

Lemma find_row_astr x a : find_row x (astr a) = option_map row_str (find_orow x a).
Proof.
  unfold find_row, find_orow, astr.
  induction a as [|[n r] t IH]; [reflexivity|]. cbn [map filter fst snd].
  destruct (name_eqb n x); [reflexivity|exact IH].
Qed.

Lemma find_orow_In x a r : find_orow x a = Some r -> In (x, r) a.
Proof.
  unfold find_orow. induction a as [|[n r0] t IH]; [discriminate|]. cbn [filter fst].
  destruct (name_eqb n x) eqn:E.
  - intros H. injection H as <-. left. f_equal. apply name_eqb_eq, E.
  - intros H. right. apply IH, H.
Qed.

Lemma AlnWF_In a n r : AlnWF a -> In (n, r) a ->
  RowWF r /\ skind (adata r) = al_kind a /\ zlen (row_str r) = slen (astr a).
Proof.
  intros (Hne & Hwf & Hr & _) Hin. rewrite Forall_forall in Hwf. destruct (Hwf _ Hin) as [W K]. cbn [snd] in *.
  split; [exact W|]. split; [exact K|].
  unfold rect, all_len, astr in Hr. rewrite Forall_map in Hr. rewrite Forall_forall in Hr. apply (Hr _ Hin).
Qed.

Lemma al_degaprel_spec vr a x ref : AlnWF a -> find_orow x a = Some ref ->
  let g := row_gapped ref in
  exists a', al_take_positions vr a (filter (fun i => negb (znth 0 g i =? GAPC)) (zrange 0 (zlen g))) false = Ok a' /\
             AlnWF a' /\ al_kind a' = al_kind a /\
             astr a' = map_rows (take_cols (nongap_cols (row_str ref))) (astr a) /\ map fst a' = map fst a.
Proof.
  intros Ha Hf g. destruct (AlnWF_In a x ref Ha (find_orow_In _ _ _ Hf)) as (W & K & L).
  subst g. rewrite (row_gapped_spec ref W).
  destruct (al_take_positions_spec vr a (nongap_cols (row_str ref)) false Ha) as (a' & E & W' & K' & S & N); [|discriminate|].
  - intros _. apply Forall_forall. intros i Hi. apply filter_In in Hi. destruct Hi as [Hi _]. apply zrange_In in Hi.
    unfold idx_ok. destruct (v_negidx vr); lia.
  - exists a'. split; [exact E|]. split; [exact W'|]. split; [exact K'|]. split; [|exact N].
    rewrite S. rewrite norm_idx_id; [reflexivity|].
    apply Forall_forall. intros i Hi. apply filter_In in Hi. destruct Hi as [Hi _]. apply zrange_In in Hi. lia.
Qed.

Lemma slen_nonneg a : 0 <= slen a.
Proof. destruct a as [|[n s] t]; cbn [slen]; [lia|apply zlen_nonneg]. Qed.

Lemma al_len_slen a : AlnWF a -> al_len a = slen (astr a).
Proof.
  intros Ha. pose proof (slen_nonneg (astr a)) as H0.
  assert (H : forall l : oalign, (forall n r, In (n, r) l -> row_len r = slen (astr a)) -> l <> [] ->
                        fold_right (fun nr acc => Z.max (row_len (snd nr)) acc) 0 l = slen (astr a)).
  { induction l as [|[n r] t IH]; intros Hall Hne; [congruence|]. cbn [fold_right snd].
    rewrite (Hall n r (or_introl eq_refl)). destruct t as [|x t']; [cbn [fold_right]; lia|].
    rewrite IH; [lia| |discriminate]. intros n' r' Hin. apply (Hall n' r'). right. exact Hin. }
  unfold al_len. apply H; [|apply Ha].
  intros n r Hin. destruct (AlnWF_In a n r Ha Hin) as (W & _ & L). now rewrite <- (zlen_row_str r W).
Qed.

Lemma map_rows_ext_len f g n a : all_len n a -> (forall s, zlen s = n -> f s = g s) -> map_rows f a = map_rows g a.
Proof.
  intros H Hfg. unfold map_rows, all_len in *. apply map_ext_in. intros [nm s] Hin. rewrite Forall_forall in H.
  cbn [fst snd]. f_equal. apply Hfg. apply (H _ Hin).
Qed.

Lemma window_in_range n w st i : 0 <= i -> i < n_windows n w st -> 0 < w -> 0 < st -> 0 <= i * st /\ i * st + w <= n.
Proof.
  intros Hi Hlt Hw Hst. unfold n_windows in Hlt. destruct (0 <? n - w + 1) eqn:E; [|lia].
  pose proof (cdiv_spec (n - w + 1) st Hst) as [H1 _]. split; nia.
Qed.

Lemma al_window_spec vr a w st i : AlnWF a ->
  (0 <=? i) && (i <? n_windows (slen (astr a)) w st) && (0 <? w) && (0 <? st) = true ->
  exists a', al_slice vr a (Some (i * st)) (Some (i * st + w)) = Ok a' /\ AlnWF a' /\ al_kind a' = al_kind a /\
             astr a' = map_rows (fun s => ssub s (i * st) (i * st + w)) (astr a) /\ map fst a' = map fst a.
Proof.
  intros Ha Hc. apply andb_prop in Hc. destruct Hc as [Hc H4]. apply andb_prop in Hc. destruct Hc as [Hc H3].
  apply andb_prop in Hc. destruct Hc as [H1 H2].
  destruct (window_in_range (slen (astr a)) w st i ltac:(lia) ltac:(lia) ltac:(lia) ltac:(lia)) as [B1 B2].
  destruct (al_slice_spec vr a (Some (i * st)) (Some (i * st + w)) Ha) as (a' & E & W & K & S & N).
  { cbn [slice_guard]. lia. }
  { cbn [slice_guard]. lia. }
  exists a'. split; [exact E|]. split; [exact W|]. split; [exact K|]. split; [|exact N].
  rewrite S. apply (map_rows_ext_len _ _ (slen (astr a))); [apply Ha|].
  intros s Hs. apply py_slice_msub; lia.
Qed.

(** ** selecting rows *)
Lemma all_len_rect n a : a <> [] -> all_len n a -> rect a.
Proof.
  intros Hne H. destruct a as [|[nm s] t]; [congruence|]. unfold rect. cbn [slen].
  pose proof (Forall_inv H) as H0. cbn [snd] in H0. rewrite H0. exact H.
Qed.

Lemma AlnWF_sub a b : AlnWF a -> b <> [] -> (forall x, In x b -> In x a) -> NoDup (map fst b) ->
  mk_align b = Ok b /\ AlnWF b /\ al_kind b = al_kind a.
Proof.
  intros Ha Hne Hsub Hnd. apply mk_align_ok; [exact Hne| | |exact Hnd].
  - apply Forall_forall. intros [n r] Hin. destruct (AlnWF_In a n r Ha (Hsub _ Hin)) as (W & K & _). cbn [snd]. auto.
  - apply (all_len_rect (slen (astr a))).
    + destruct b; [congruence|discriminate].
    + unfold all_len, astr. rewrite Forall_map. apply Forall_forall. intros [n r] Hin. cbn [snd].
      apply (AlnWF_In a n r Ha (Hsub _ Hin)).
Qed.

Lemma astr_filter (p : name -> bool) a :
  astr (filter (fun nr => p (fst nr)) a) = filter (fun nr => p (fst nr)) (astr a).
Proof.
  unfold astr. induction a as [|[n r] t IH]; [reflexivity|]. cbn [filter map fst snd].
  destruct (p n); cbn [map fst snd]; now rewrite IH.
Qed.

Lemma NoDup_map_filter {A} (p : name * A -> bool) (l : list (name * A)) : NoDup (map fst l) -> NoDup (map fst (filter p l)).
Proof.
  induction l as [|x l IH]; intros H; [constructor|]. cbn [map] in H. inversion H as [|? ? Hn Hd]; subst.
  cbn [filter]. destruct (p x); [|apply IH, Hd]. cbn [map]. constructor; [|apply IH, Hd].
  intros Hin. apply Hn. apply in_map_iff in Hin. destruct Hin as (y & E & Hy). apply filter_In in Hy.
  apply in_map_iff. exists y. tauto.
Qed.

Lemma al_takeseqs_negate_spec a names : AlnWF a ->
  match filter (fun nr => negb (nmem (fst nr) names)) (astr a) with
  | [] => filter (fun nr => negb (nmem (fst nr) names)) a = []
  | s' => exists a', mk_align (filter (fun nr => negb (nmem (fst nr) names)) a) = Ok a' /\ AlnWF a' /\
                     al_kind a' = al_kind a /\ astr a' = s'
  end.
Proof.
  intros Ha. rewrite <- (astr_filter (fun x => negb (nmem x names)) a).
  set (b := filter (fun nr => negb (nmem (fst nr) names)) a).
  destruct b as [|x b'] eqn:Eb; [reflexivity|]. cbn [astr map]. fold (astr b').
  destruct (AlnWF_sub a (x :: b') Ha ltac:(discriminate)) as (E & W & K).
  { intros y Hy. rewrite <- Eb in Hy. apply filter_In in Hy. apply Hy. }
  { rewrite <- Eb. apply NoDup_map_filter. apply Ha. }
  exists (x :: b'). auto.
Qed.

Lemma al_takeseqs_spec a names : AlnWF a -> names <> [] -> NoDup names ->
  forallb (fun x => match find_orow x a with Some _ => true | None => false end) names = true ->
  let b := flat_map (fun x => match find_orow x a with Some r => [(x, r)] | None => [] end) names in
  mk_align b = Ok b /\ AlnWF b /\ al_kind b = al_kind a /\
  astr b = flat_map (fun x => match find_row x (astr a) with Some s => [(x, s)] | None => [] end) names.
Proof.
  intros Ha Hne Hnd Hall b.
  assert (Hastr : astr b = flat_map (fun x => match find_row x (astr a) with Some s => [(x, s)] | None => [] end) names).
  { subst b. clear. induction names as [|x t IH]; [reflexivity|]. cbn [flat_map]. unfold astr in *.
    rewrite map_app, IH. f_equal. rewrite find_row_astr. destruct (find_orow x a); reflexivity. }
  assert (Hfst : map fst b = names).
  { subst b. clear -Hall. induction names as [|x t IH]; [reflexivity|]. cbn [forallb] in Hall. apply andb_prop in Hall.
    destruct Hall as [Hx Ht]. cbn [flat_map]. rewrite map_app, (IH Ht). destruct (find_orow x a); [reflexivity|discriminate]. }
  destruct (AlnWF_sub a b Ha) as (E & W & K).
  - intros Eb. rewrite Eb in Hfst. cbn [map] in Hfst. congruence.
  - intros [n r] Hin. subst b. apply in_flat_map in Hin. destruct Hin as (x & _ & Hx).
    destruct (find_orow x a) as [r0|] eqn:Ef; [|contradiction]. destruct Hx as [Hx|[]]. injection Hx as <- <-.
    apply find_orow_In, Ef.
  - rewrite Hfst. exact Hnd.
  - auto.
Qed.

(** ** concatenation: rows paired by name *)
Lemma find_row_map_rows g n (a : salign) : find_row n (map_rows g a) = option_map g (find_row n a).
Proof.
  unfold find_row, map_rows. induction a as [|[m s] t IH]; [reflexivity|]. cbn [map filter fst snd].
  destruct (name_eqb m n); [reflexivity|exact IH].
Qed.

Lemma find_row_NoDup n s (a : salign) : NoDup (map fst a) -> In (n, s) a -> find_row n a = Some s.
Proof.
  unfold find_row. induction a as [|[m t] a IH]; intros Hnd Hin; [contradiction|]. cbn [map] in Hnd.
  inversion Hnd as [|? ? Hn Hd]; subst. cbn [filter fst]. destruct Hin as [E|Hin].
  - injection E as -> ->. rewrite name_eqb_refl. reflexivity.
  - destruct (name_eqb m n) eqn:E.
    + apply name_eqb_eq in E. subst m. exfalso. apply Hn. apply in_map_iff. exists (n, s). auto.
    + apply IH; assumption.
Qed.

Lemma mapM_ok_in {A B} (f : A -> res B) (h : A -> B) l : (forall x, In x l -> f x = Ok (h x)) -> mapM f l = Ok (map h l).
Proof. apply mapM_ok. Qed.

Lemma s_add_named_map_rows g1 g2 (a : salign) : NoDup (map fst a) ->
  s_add_named (map_rows g1 a) (map_rows g2 a) = Ok (map_rows (fun s => g1 s ++ g2 s) a).
Proof.
  intros Hnd. unfold s_add_named. set (B := map_rows g2 a).
  rewrite (mapM_ok _ (fun nr => (fst nr, snd nr ++ match find_row (fst nr) B with Some t => t | None => [] end))).
  - f_equal. unfold map_rows. rewrite map_map. apply map_ext_in. intros [n s] Hin. cbn [fst snd].
    subst B. rewrite find_row_map_rows, (find_row_NoDup n s a Hnd Hin). reflexivity.
  - intros [n s] Hin. cbn [fst snd]. unfold map_rows in Hin. apply in_map_iff in Hin. destruct Hin as ([n0 s0] & E & Hin).
    cbn [fst snd] in E. injection E as <- <-. subst B. rewrite find_row_map_rows, (find_row_NoDup n0 s0 a Hnd Hin). reflexivity.
Qed.

Lemma map_rows_id (a : salign) : map_rows (fun s => s) a = a.
Proof. unfold map_rows. rewrite <- (map_id a) at 2. apply map_ext. intros [? ?]; reflexivity. Qed.

Lemma add_named_spec vr same k a : forall b,
  Forall (fun nr => RowWF (snd nr) /\ skind (adata (snd nr)) = k) a -> Forall (fun nr => RowWF (snd nr)) b ->
  (same = false \/ v_noshortcut vr = true) ->
  match s_add_named (astr a) (astr b) with
  | Ok s => exists c, add_named vr same a b = Ok c /\ Forall (fun nr => RowWF (snd nr) /\ skind (adata (snd nr)) = k) c /\
                      astr c = s /\ map fst c = map fst a
  | Err e => add_named vr same a b = Err e
  end.
Proof.
  unfold s_add_named, add_named.
  induction a as [|[n r1] a IH]; intros b Ha Hb Hc.
  - cbn [astr map mapM]. exists []. repeat split; constructor.
  - inversion Ha as [|? ? [W1 K1] Ha']; subst. cbn [snd] in *.
    cbn [astr map mapM fst snd]. fold (astr a). rewrite find_row_astr.
    destruct (find_orow n b) as [r2|] eqn:Ef; cbn [option_map bind]; [|reflexivity].
    assert (W2 : RowWF r2).
    { rewrite Forall_forall in Hb. apply (Hb (n, r2)). apply find_orow_In, Ef. }
    destruct (row_add_spec vr same r1 r2 W1 W2 Hc) as (r & E & W & K & S). rewrite E. cbn [bind].
    specialize (IH b Ha' Hb Hc).
    destruct (mapM _ (astr a)) as [s|e].
    + destruct IH as (c & Ec & Wc & Sc & Nc). rewrite Ec. cbn [bind].
      exists ((n, r) :: c). split; [reflexivity|]. split; [constructor; [cbn [snd]; split; [exact W|congruence]|exact Wc]|].
      split; [cbn [astr map fst snd]; fold (astr c); rewrite S, Sc; reflexivity|cbn [map fst]; now rewrite Nc].
    + rewrite IH. reflexivity.
Qed.

Lemma all_len_add_named n m (a : salign) : forall b s, all_len n a -> all_len m b -> s_add_named a b = Ok s -> all_len (n + m) s.
Proof.
  unfold s_add_named. induction a as [|[nm x] a IH]; intros b s Ha Hb E.
  - cbn [mapM] in E. injection E as <-. constructor.
  - cbn [mapM fst snd] in E. destruct (find_row nm b) as [t|] eqn:Ef; [|discriminate]. cbn [bind] in E.
    destruct (mapM _ a) as [s'|e] eqn:Em; [|discriminate]. cbn [bind] in E. injection E as <-.
    inversion Ha; subst. constructor.
    + cbn [snd] in *. rewrite zlen_app.
      assert (zlen t = m).
      { unfold all_len in Hb. rewrite Forall_forall in Hb. apply (Hb (nm, t)).
        unfold find_row in Ef. destruct (filter _ b) as [|[n0 t0] f] eqn:Efl; [discriminate|]. injection Ef as ->.
        assert (Hin : In (n0, t) (filter (fun nr => name_eqb (fst nr) nm) b)) by (rewrite Efl; left; reflexivity).
        apply filter_In in Hin. destruct Hin as [Hin Hq]. cbn [fst] in Hq. apply name_eqb_eq in Hq. subst. exact Hin. }
      lia.
    + apply (IH b s'); assumption.
Qed.

Lemma s_add_named_names (a : salign) : forall b s, s_add_named a b = Ok s -> map fst s = map fst a.
Proof.
  unfold s_add_named. induction a as [|[nm x] a IH]; intros b s E.
  - cbn [mapM] in E. injection E as <-. reflexivity.
  - cbn [mapM fst snd] in E. destruct (find_row nm b); [|discriminate]. cbn [bind] in E.
    destruct (mapM _ a) as [s'|e] eqn:Em; [|discriminate]. cbn [bind] in E. injection E as <-.
    cbn [map fst]. f_equal. apply (IH b s' Em).
Qed.

Lemma al_add_spec vr same a b : AlnWF a -> Forall (fun nr => RowWF (snd nr)) b -> rect (astr b) ->
  zlen a = zlen b -> (same = false \/ v_noshortcut vr = true) ->
  match s_add_named (astr a) (astr b) with
  | Ok s => exists c, al_add vr same a b = Ok c /\ AlnWF c /\ al_kind c = al_kind a /\ astr c = s /\ map fst c = map fst a
  | Err e => al_add vr same a b = Err e
  end.
Proof.
  intros Ha Hb Hrb Hl Hc. unfold al_add. replace (zlen a =? zlen b) with true by lia. cbn [negb].
  pose proof Ha as (Hne & Hwf & Hr & Hnd).
  pose proof (add_named_spec vr same (al_kind a) a b Hwf Hb Hc) as H.
  destruct (s_add_named (astr a) (astr b)) as [s|e] eqn:Es; [|rewrite H; reflexivity].
  destruct H as (c & E & Wc & Sc & Nc). rewrite E. cbn [bind].
  assert (Hnec : c <> []).
  { intros ->. destruct a; [congruence|discriminate]. }
  destruct (mk_align_ok c (al_kind a) Hnec Wc) as (Em & W & K).
  - rewrite Sc. apply (all_len_rect (slen (astr a) + slen (astr b))).
    + intros ->. apply (f_equal (@length _)) in Sc. unfold astr in Sc. rewrite map_length in Sc. destruct c; [congruence|discriminate].
    + apply (all_len_add_named _ _ (astr a) (astr b)); assumption.
  - rewrite Nc. exact Hnd.
  - exists c. auto.
Qed.

Lemma srows_combine names : forall rows, length names = length rows -> srows (combine names rows) = rows.
Proof.
  induction names as [|n names IH]; intros rows H; destruct rows as [|s rows]; cbn [length] in H; try lia; [reflexivity|].
  cbn [combine srows map snd]. f_equal. apply IH. lia.
Qed.

Lemma AlnWF_rows a : AlnWF a -> Forall (fun nr => RowWF (snd nr)) a.
Proof. intros (_ & H & _). eapply Forall_impl; [|exact H]. intros x [W _]. exact W. Qed.

(** ** [filtered]: the [gv] loop yields the runs of kept motif columns *)
Fixpoint trues (pos : Z) (fl : list bool) : list Z :=
  match fl with [] => [] | f :: t => (if f then [pos] else []) ++ trues (pos + 1) t end.

Fixpoint runs (m pos : Z) (opn : option Z) (fl : list bool) : list (Z * Z) :=
  match fl with
  | [] => match opn with Some s => [(s, pos * m)] | None => [] end
  | true :: t => runs m (pos + 1) (match opn with Some s => Some s | None => Some (pos * m) end) t
  | false :: t => (match opn with Some s => [(s, pos * m)] | None => [] end) ++ runs m (pos + 1) None t
  end.

Lemma trues_map (P : Z -> bool) : forall n pos, trues pos (map P (zrange_aux pos n)) = filter P (zrange_aux pos n).
Proof.
  induction n as [|n IH]; intros pos; [reflexivity|]. cbn [zrange_aux map trues filter]. rewrite IH.
  destruct (P pos); reflexivity.
Qed.

Lemma pair_up_gv m fl : forall pos,
  pair_up (gv_loop m pos false fl) = runs m pos None fl /\
  forall s, pair_up (s :: gv_loop m pos true fl) = runs m pos (Some s) fl.
Proof.
  induction fl as [|f t IH]; intros pos.
  - split; [reflexivity|]. intros s. reflexivity.
  - destruct (IH (pos + 1)) as [I1 I2]. destruct f; cbn [gv_loop runs Bool.eqb app].
    + split; [apply I2|]. intros s. apply I2.
    + split; [apply I1|]. intros s. cbn [pair_up]. now rewrite I1.
Qed.

Lemma gv_nil m fl : forall pos, trues pos fl = [] -> gv_loop m pos false fl = [].
Proof.
  induction fl as [|f t IH]; intros pos H; [reflexivity|]. cbn [trues] in H. destruct f; [discriminate|].
  cbn [gv_loop Bool.eqb app]. apply IH. exact H.
Qed.

Lemma runs_some_nonnil m fl : forall pos s, runs m pos (Some s) fl <> [].
Proof.
  induction fl as [|f t IH]; intros pos s; cbn [runs]; [discriminate|]. destruct f; [apply IH|discriminate].
Qed.

Lemma runs_nonnil m fl : forall pos, trues pos fl <> [] -> runs m pos None fl <> [].
Proof.
  induction fl as [|f t IH]; intros pos H; [contradiction|]. cbn [trues] in H. cbn [runs].
  destruct f; [apply runs_some_nonnil|]. cbn [app]. apply IH. exact H.
Qed.

Lemma runs_flat s m : 0 < m -> forall fl pos, 0 <= pos ->
  flat_map (fun se => ssub s (fst se) (snd se)) (runs m pos None fl) = take_motifs m (trues pos fl) s /\
  forall q, 0 <= q <= pos ->
    flat_map (fun se => ssub s (fst se) (snd se)) (runs m pos (Some (q * m)) fl)
    = ssub s (q * m) (pos * m) ++ take_motifs m (trues pos fl) s.
Proof.
  intros Hm. induction fl as [|f t IH]; intros pos Hpos.
  - split; [reflexivity|]. intros q Hq. cbn [runs trues flat_map fst snd take_motifs]. reflexivity.
  - destruct (IH (pos + 1) ltac:(lia)) as [I1 I2]. destruct f; cbn [runs trues app].
    + split.
      * rewrite (I2 pos ltac:(lia)). reflexivity.
      * intros q Hq. rewrite (I2 q ltac:(lia)). unfold take_motifs. cbn [flat_map]. rewrite app_assoc. f_equal.
        apply (msub_split s (q * m) (pos * m) ((pos + 1) * m)); nia.
    + split; [apply I1|]. intros q Hq. cbn [flat_map fst snd app]. now rewrite I1.
Qed.

Lemma segs_ok_weaken n cs : forall s s', s <= s' -> segs_ok s' n cs -> segs_ok s n cs.
Proof. destruct cs as [|[a b] t]; intros s s' H Hok; [exact I|]. cbn [segs_ok] in *. intuition lia. Qed.

Lemma runs_segs m N : 0 < m -> forall fl pos, 0 <= pos -> (pos + zlen fl) * m <= N ->
  segs_ok (pos * m) N (runs m pos None fl) /\
  forall q, 0 <= q < pos -> segs_ok (q * m) N (runs m pos (Some (q * m)) fl).
Proof.
  intros Hm. induction fl as [|f t IH]; intros pos Hpos Hle.
  - split; [exact I|]. intros q Hq. cbn [runs segs_ok]. unfold zlen in Hle. cbn [length] in Hle. repeat split; nia.
  - rewrite zlen_cons' in Hle. pose proof (zlen_nonneg t) as Ht.
    destruct (IH (pos + 1) ltac:(lia) ltac:(nia)) as [I1 I2]. destruct f; cbn [runs].
    + split; [apply (I2 pos); lia|]. intros q Hq. apply (I2 q). lia.
    + split.
      * cbn [app]. apply (segs_ok_weaken N _ (pos * m) ((pos + 1) * m)); [nia|exact I1].
      * intros q Hq. cbn [app segs_ok]. repeat split; try nia.
        apply (segs_ok_weaken N _ (pos * m) ((pos + 1) * m)); [nia|exact I1].
Qed.

Lemma zrange_aux_len s n : zlen (zrange_aux s n) = Z.of_nat n.
Proof. unfold zlen. now rewrite zrange_aux_length. Qed.

Lemma motif_count_rect m strs n : strs <> [] -> Forall (fun s => zlen s = n) strs -> motif_count m strs = n / m.
Proof.
  intros Hne H. destruct strs as [|s0 t]; [congruence|]. cbn [motif_count].
  inversion H as [|? ? H0 Ht]; subst. clear H Hne.
  induction Ht as [|u t Hu _ IH]; [reflexivity|]. cbn [fold_right]. rewrite IH, Hu. lia.
Qed.

Lemma al_filtered_spec vr a p m : AlnWF a -> 0 < m ->
  match kept_motifs p m (astr a) with
  | [] => al_filtered vr a p m = Err E_None
  | js => exists a', al_filtered vr a p m = Ok a' /\ AlnWF a' /\ al_kind a' = al_kind a /\
                     astr a' = map_rows (take_motifs m js) (astr a) /\ map fst a' = map fst a
  end.
Proof.
  intros Ha Hm. unfold al_filtered. replace (m <=? 0) with false by lia.
  pose proof Ha as (Hne & Hwf & Hr & Hnd).
  assert (Hs : map (fun nr => row_gapped (snd nr)) a = srows (astr a)).
  { unfold srows, astr. rewrite map_map. apply map_ext_in. intros [n r] Hin. cbn [snd].
    apply row_gapped_spec. apply (AlnWF_In a n r Ha Hin). }
  rewrite Hs.
  assert (Hc : motif_count m (srows (astr a)) = slen (astr a) / m).
  { apply motif_count_rect.
    - unfold srows, astr. destruct a; [congruence|discriminate].
    - unfold srows. rewrite Forall_map. exact Hr. }
  rewrite Hc.
  set (P := fun j => s_eval_pred p (motif_col m (astr a) j)).
  set (c := slen (astr a) / m).
  change (map (fun j => eval_pred p (motif_column m (srows (astr a)) j)) (zrange 0 c)) with (map P (zrange 0 c)).
  unfold kept_motifs. fold P c. unfold zrange. rewrite <- (trues_map P (Z.to_nat (c - 0)) 0).
  set (fl := map P (zrange_aux 0 (Z.to_nat (c - 0)))).
  pose proof (slen_nonneg (astr a)) as Hn0.
  assert (Hc0 : 0 <= c) by (apply Z.div_pos; lia).
  assert (Hfl : zlen fl = c) by (unfold fl; rewrite zlen_map, zrange_aux_len; lia).
  destruct (trues 0 fl) as [|j js] eqn:Et.
  - rewrite (gv_nil m fl 0 Et). reflexivity.
  - destruct (pair_up_gv m fl 0) as [Hp _].
    assert (Hrn : runs m 0 None fl <> []) by (apply runs_nonnil; rewrite Et; discriminate).
    destruct (gv_loop m 0 false fl) as [|g0 gv'] eqn:Eg; [cbn [pair_up] in Hp; congruence|].
    rewrite Hp.
    destruct (runs_segs m (slen (astr a)) Hm fl 0 ltac:(lia)) as [Hsegs _].
    { rewrite Hfl. unfold c. pose proof (Z.mul_div_le (slen (astr a)) m Hm). lia. }
    rewrite <- Et.
    apply (map_rowsM_spec _ (take_motifs m (trues 0 fl)) (al_kind a) a Ha (uniform_take_motifs m _)).
    intros r W K L. pose proof (AlnWF_row_len a r Ha W L) as Hl.
    destruct (row_getitem_locs_spec vr r (runs m 0 None fl) W Hrn) as (r' & E & W' & K' & S).
    { rewrite Hl. exact Hsegs. }
    exists r'. split; [exact E|]. split; [exact W'|]. split; [congruence|]. rewrite S.
    apply (runs_flat (row_str r) m Hm fl 0). lia.
Qed.

(** * Part D — every operation of the annotatable class is the string operation *)

(** the inputs the theorem covers (the rest is rejected by the class with an
    exception, answered outside Python's conventions, or - in the pinned
    variants - wrong: see the [_refuted] lemmas) *)
Definition op_ok (vr : variant) (k : kind) (s : salign) (o : aop) : Prop :=
  let n := slen s in
  match o with
  | OSlice x y => slice_guard vr n x /\ slice_guard vr n y
  | OSliceStep _ _ _ => False
  | OIndex i => (if v_negidx vr then - n <= i else 0 <= i) /\ i < n
  | ORc => True
  | OAddSelf => v_noshortcut vr = true
  | OAddRows other => NoDup (map fst other) /\ exists m, Forall (fun nr => zlen (snd nr) = m) other
  | OAddSlices x y x' y' => (slice_guard vr n (Some x) /\ slice_guard vr n (Some y)) /\
                            (slice_guard vr n (Some x') /\ slice_guard vr n (Some y'))
  | OTakePos cols negate => (negate = false -> Forall (idx_ok vr n) cols) /\
                            (negate = true -> v_negate_ok vr = true \/ k = KOther)
  | OTakeSeqs arg negate => negate = false -> NoDup (norm_names arg)
  | OFilter _ m => 0 < m
  | ODegapRel _ => True
  | OSample locs m => 0 < m /\ Forall (fun l => 0 <= l /\ (l + 1) * m <= n) locs
  | OToRna | OToDna => k <> KOther
  | OToType => True
  | OWindow _ _ _ => True
  | ORename mp => NoDup (map (rename_of mp) (map fst s))
  end.

Lemma zlen_astr a : zlen (astr a) = zlen a.
Proof. unfold astr. apply zlen_map. Qed.

Lemma existsb_in_range vr n cols : Forall (idx_ok vr n) cols ->
  existsb (fun i => (i <? - n) || (i >=? n)) cols = false /\ map (fun i => if i <? 0 then i + n else i) cols = map (norm_idx n) cols.
Proof.
  intros H. split; [|reflexivity]. induction H as [|i l [Hlo Hhi] _ IH]; [reflexivity|]. cbn [existsb]. rewrite IH.
  replace (i >=? n) with false by lia. destruct (v_negidx vr); replace (i <? - n) with false by lia; reflexivity.
Qed.

Lemma map_fst_len {N A B} (a : list (N * A)) (b : list (N * B)) : map fst a = map fst b -> zlen a = zlen b.
Proof. intros H. unfold zlen. rewrite <- (map_length fst a), <- (map_length fst b), H. reflexivity. Qed.

Lemma combine_split_id {A B} (l : list (A * B)) : combine (map fst l) (map snd l) = l.
Proof. induction l as [|[x y] l IH]; [reflexivity|]. cbn [map combine fst snd]. now rewrite IH. Qed.

Lemma astr_names a : map fst (astr a) = map fst a.
Proof. unfold astr. rewrite map_map. reflexivity. Qed.

Lemma s_add_named_self (a : salign) : NoDup (map fst a) -> s_add_named a a = Ok (map_rows (fun s => s ++ s) a).
Proof.
  intros H. pose proof (s_add_named_map_rows (fun s => s) (fun s => s) a H) as E. rewrite map_rows_id in E. exact E.
Qed.

Lemma al_rename_spec a mp : AlnWF a -> NoDup (map (rename_of mp) (map fst a)) ->
  exists a', bind (mapM (fun nr => bind (of_view (fresh (skind (adata (snd nr))) (realise (adata (snd nr))))) (fun d =>
                                    Ok (rename_of mp (fst nr), mkRow (amap (snd nr)) d))) a) mk_align = Ok a' /\
             AlnWF a' /\ al_kind a' = al_kind a /\ astr a' = map (fun nr => (rename_of mp (fst nr), snd nr)) (astr a).
Proof.
  intros Ha Hnd'. pose proof Ha as (Hne & Hwf & Hr & Hnd). remember (al_kind a) as k0 eqn:Ek0.
  destruct (mapM_exists (fun nr => bind (of_view (fresh (skind (adata (snd nr))) (realise (adata (snd nr))))) (fun d =>
                                     Ok (rename_of mp (fst nr), mkRow (amap (snd nr)) d)))
              (fun nr nr' => fst nr' = rename_of mp (fst nr) /\ RowWF (snd nr') /\ skind (adata (snd nr')) = k0 /\
                             row_str (snd nr') = row_str (snd nr)) a) as (a' & Ea & H2).
  { intros [n r] Hin. destruct (AlnWF_In a n r Ha Hin) as ((Hm & Hd & Hp) & K & _). cbn [fst snd].
    destruct (fresh_spec (skind (adata r)) (realise (adata r))) as (d' & E & Hd' & Hrl & Hk). rewrite E. cbn [of_view bind].
    eexists. split; [reflexivity|]. cbn [fst snd]. split; [reflexivity|]. split; [|split; [cbn [adata]; congruence|]].
    - split; [exact Hm|]. split; [exact Hd'|]. cbn [amap adata]. rewrite Hrl. exact Hp.
    - unfold row_str. cbn [amap adata]. rewrite Hrl. reflexivity. }
  rewrite Ea. cbn [bind].
  assert (Hastr : astr a' = map (fun nr => (rename_of mp (fst nr), snd nr)) (astr a)).
  { clear -H2. unfold astr. rewrite map_map.
    induction H2 as [|[n r] [n' r'] l l' (E1 & _ & _ & E2) _ IH]; [reflexivity|].
    cbn [map fst snd] in *. rewrite IH. subst. rewrite E2. reflexivity. }
  assert (Hnames : map fst a' = map (rename_of mp) (map fst a)).
  { clear -H2. induction H2 as [|x y l l' (E1 & _) _ IH]; [reflexivity|]. cbn [map]. now rewrite IH, E1. }
  assert (Hne' : a' <> []) by (intros ->; inversion H2; subst; congruence).
  assert (Hwf' : Forall (fun nr => RowWF (snd nr) /\ skind (adata (snd nr)) = k0) a').
  { clear -H2. induction H2 as [|x y l l' (_ & W & K & _) _ IH]; constructor; [split; assumption|exact IH]. }
  destruct (mk_align_ok a' k0 Hne' Hwf') as (E & W & K).
  - rewrite Hastr. apply (all_len_rect (slen (astr a))).
    + destruct (astr a) eqn:Es; [unfold astr in Es; destruct a; [congruence|discriminate]|discriminate].
    + unfold all_len in *. rewrite Forall_map. eapply Forall_impl; [|exact Hr]. intros x Hx. exact Hx.
  - rewrite Hnames. exact Hnd'.
  - exists a'. auto.
Qed.

Lemma forallb_find_eq a names :
  forallb (fun x => match find_row x (astr a) with Some _ => true | None => false end) names
  = forallb (fun x => match find_orow x a with Some _ => true | None => false end) names.
Proof.
  induction names as [|x t IHn]; [reflexivity|]. cbn [forallb]. rewrite IHn. f_equal.
  rewrite find_row_astr. destruct (find_orow x a); reflexivity.
Qed.

Theorem al_apply_spec vr a o : AlnWF a -> op_ok vr (al_kind a) (astr a) o ->
  match spec_apply (al_kind a) (astr a) o with
  | Ok ks => exists a', al_apply vr a o = Ok a' /\ AlnWF a' /\ al_kind a' = fst ks /\ astr a' = snd ks
  | Err e => al_apply vr a o = Err e
  end.
Proof.
  intros Ha Hok. pose proof Ha as (Hne & Hwf & Hr & Hnd).
  destruct o as [x y|x y c|i| | |other|x y x' y'|cols negate|arg negate|p m|x|locs m| | | |w st i|mp];
    cbn [op_ok] in Hok; cbn [spec_apply al_apply fst snd].
  - (* slice *)
    destruct Hok as [Hx Hy]. destruct (al_slice_spec vr a x y Ha Hx Hy) as (a' & E & W & K & S & _). exists a'. auto.
  - contradiction.
  - (* index *)
    destruct Hok as [Hlo Hhi].
    assert (E0 : (i <? - slen (astr a)) || (i >=? slen (astr a)) = false).
    { destruct (v_negidx vr); lia. }
    rewrite E0.
    destruct (al_index_spec vr a i Ha Hlo Hhi) as (a' & E & W & K & S & _). exists a'. auto.
  - (* rc *)
    destruct (al_kind a) eqn:Ek; cbn [nucleic_kind];
      try (destruct (al_rc_spec a Ha ltac:(congruence)) as (a' & E & W & K & S & _); exists a'; rewrite Ek in *; auto; fail).
    apply (al_rc_err a Ha Ek).
  - (* aln + aln *)
    pose proof (al_add_spec vr true a a Ha (AlnWF_rows a Ha) Hr eq_refl (or_intror Hok)) as H.
    rewrite (s_add_named_self (astr a)) in H by (rewrite astr_names; exact Hnd).
    destruct H as (c & E & W & K & S & _). exists c. auto.
  - (* aln + other, rows paired by name *)
    destruct Hok as (Hndo & mm & Hrows). rewrite zlen_astr.
    destruct other as [|o0 ot] eqn:Eo.
    { cbn [map]. unfold rebuild. cbn [mapM bind combine]. unfold mk_align. cbn [one_length].
      destruct a as [|x a0]; [congruence|]. reflexivity. }
    rewrite <- Eo in *.
    destruct (rebuild_spec (al_kind a) (map fst other) (map snd other) mm) as (b & Eb & Wb & Kb & Sb & Nb).
    { rewrite Eo. discriminate. }
    { now rewrite !map_length. }
    { rewrite Forall_map. exact Hrows. }
    { exact Hndo. }
    rewrite Eb. cbn [bind]. rewrite combine_split_id in Sb.
    assert (Hzb : zlen b = zlen other) by (rewrite <- (zlen_astr b), Sb; reflexivity).
    destruct (zlen a =? zlen other) eqn:El; cbn [negb].
    + pose proof (al_add_spec vr false a b Ha (AlnWF_rows b Wb) ltac:(apply Wb) ltac:(lia) (or_introl eq_refl)) as H.
      rewrite Sb in H. destruct (s_add_named (astr a) other) as [s0|e]; cbn [bind].
      * destruct H as (c & E & W & K & S & _). exists c. auto.
      * exact H.
    + unfold al_add. replace (zlen a =? zlen b) with false by lia. reflexivity.
  - (* aln[x:y] + aln[x':y'] *)
    destruct Hok as [(A1 & A2) (B1 & B2)].
    destruct (al_slice_spec vr a (Some x) (Some y) Ha A1 A2) as (a1 & E1 & W1 & K1 & S1 & N1).
    destruct (al_slice_spec vr a (Some x') (Some y') Ha B1 B2) as (a2 & E2 & W2 & K2 & S2 & N2).
    rewrite E1. cbn [bind]. rewrite E2. cbn [bind].
    pose proof (al_add_spec vr false a1 a2 W1 (AlnWF_rows a2 W2) ltac:(apply W2)) as H.
    rewrite S1, S2, s_add_named_map_rows in H by (rewrite astr_names; exact Hnd).
    destruct H as (c & E & W & K & S & _).
    { apply map_fst_len. now rewrite N1, N2. }
    { left. reflexivity. }
    exists c. split; [exact E|]. split; [exact W|]. split; [congruence|exact S].
  - (* take_positions *)
    destruct Hok as [Hc Hn].
    destruct (al_take_positions_spec vr a cols negate Ha Hc Hn) as (a' & E & W & K & S & _).
    destruct negate.
    + exists a'. auto.
    + destruct (existsb_in_range vr _ _ (Hc eq_refl)) as [E1 E2]. rewrite E1, E2. exists a'. auto.
  - (* take_seqs *)
    cbv zeta. set (names := norm_names arg) in *. destruct negate.
    + pose proof (al_takeseqs_negate_spec a names Ha) as H.
      destruct (filter (fun nr => negb (nmem (fst nr) names)) (astr a)) as [|s0 s'] eqn:Ef.
      * rewrite H. reflexivity.
      * destruct H as (a' & E & W & K & S).
        destruct (filter (fun nr => negb (nmem (fst nr) names)) a) as [|r0 r'] eqn:Efa.
        { unfold mk_align in E. cbn [one_length] in E. discriminate. }
        exists a'. auto.
    + rewrite (forallb_find_eq a names). destruct (forallb _ names) eqn:Ef; [|reflexivity].
      destruct names as [|x0 t] eqn:En; [reflexivity|].
      destruct (al_takeseqs_spec a (x0 :: t) Ha ltac:(discriminate) (Hok eq_refl) Ef) as (E & W & K & S).
      eexists. split; [exact E|]. split; [exact W|]. split; [exact K|exact S].
  - (* filtered *)
    destruct (m <=? 0) eqn:Em.
    + lia.
    + pose proof (al_filtered_spec vr a p m Ha ltac:(lia)) as H.
      destruct (kept_motifs p m (astr a)) as [|j js]; [exact H|].
      destruct H as (a' & E & W & K & S & _). exists a'. auto.
  - (* get_degapped_relative_to *)
    rewrite find_row_astr. destruct (find_orow x a) as [ref|] eqn:Ef; cbn [option_map]; [|reflexivity].
    destruct (al_degaprel_spec vr a x ref Ha Ef) as (a' & E & W & K & S & _). exists a'. auto.
  - (* sample *)
    destruct Hok as [Hm Hl].
    destruct (al_sample_spec vr a locs m Ha Hm Hl) as (a' & E & W & K & S & _). exists a'. auto.
  - (* to_rna *)
    destruct (al_kind a) eqn:Ek; try congruence.
    + destruct (al_to_kind_spec a KRna Ha ltac:(congruence) ltac:(discriminate)) as (a' & E & W & K & S & _).
      rewrite Ek in S. exists a'. auto.
    + exists a. rewrite <- Ek. auto.
  - (* to_dna *)
    destruct (al_kind a) eqn:Ek; try congruence.
    + exists a. rewrite <- Ek. auto.
    + destruct (al_to_kind_spec a KDna Ha ltac:(congruence) ltac:(discriminate)) as (a' & E & W & K & S & _).
      rewrite Ek in S. exists a'. auto.
  - (* to_type *)
    destruct (al_totype_spec a Ha) as (a' & E & W & K & S & _). exists a'. auto.
  - (* sliding_windows *)
    rewrite (al_len_slen a Ha).
    change (s_n_windows (slen (astr a)) w st) with (n_windows (slen (astr a)) w st).
    destruct ((0 <=? i) && (i <? n_windows (slen (astr a)) w st) && (0 <? w) && (0 <? st)) eqn:Ec; [|reflexivity].
    destruct (al_window_spec vr a w st i Ha Ec) as (a' & E & W & K & S & _). exists a'. auto.
  - (* rename_seqs *)
    rewrite astr_names in Hok.
    destruct (al_rename_spec a mp Ha Hok) as (a' & E & W & K & S). exists a'. auto.
Qed.

(** ** chains of operations *)
Fixpoint chain_ok (vr : variant) (st : kind * salign) (ops : list aop) : Prop :=
  match ops with
  | [] => True
  | o :: t => op_ok vr (fst st) (snd st) o /\ chain_ok vr (spec_keep st o) t
  end.

Theorem al_run_spec vr ops : forall a, AlnWF a -> chain_ok vr (al_kind a, astr a) ops ->
  AlnWF (al_run vr a ops) /\
  (al_kind (al_run vr a ops), astr (al_run vr a ops)) = spec_run ops (al_kind a, astr a).
Proof.
  induction ops as [|o t IH]; intros a Ha Hc.
  - split; [exact Ha|reflexivity].
  - cbn [chain_ok fst snd] in Hc. destruct Hc as [Hok Hc].
    unfold al_run, spec_run. cbn [fold_left]. fold (al_run vr (al_keep vr a o) t). fold (spec_run t (spec_keep (al_kind a, astr a) o)).
    pose proof (al_apply_spec vr a o Ha Hok) as H.
    unfold al_keep, spec_keep in *. cbn [fst snd] in *.
    destruct (spec_apply (al_kind a) (astr a) o) as [[k' s']|e].
    + destruct H as (a' & E & W & K & S). rewrite E. cbn [fst snd] in K, S. subst k' s'. apply IH; assumption.
    + rewrite H. apply IH; assumption.
Qed.

(** the initial alignment built from named strings *)
Theorem al_init_spec k rows n : rows <> [] -> Forall (fun nr => zlen (snd nr) = n) rows -> NoDup (map fst rows) ->
  exists a, al_init k rows = Ok a /\ AlnWF a /\ al_kind a = k /\ astr a = rows.
Proof.
  intros Hne Hn Hnd. unfold al_init.
  destruct (rebuild_spec k (map fst rows) (map snd rows) n) as (a & E & W & K & S & _).
  - destruct rows; [congruence|discriminate].
  - now rewrite !map_length.
  - rewrite Forall_map. exact Hn.
  - exact Hnd.
  - exists a. rewrite combine_split_id in S. auto.
Qed.

(** [to_dict()] as the code computes it ([get_gapped_seq] of every row) *)
Lemma al_strings_spec a : AlnWF a -> al_strings a = astr a.
Proof.
  intros Ha. unfold al_strings, astr. apply map_ext_in. intros [n r] Hin. cbn [fst snd]. f_equal.
  apply row_gapped_spec. apply (AlnWF_In a n r Ha Hin).
Qed.

(** rows of a reachable alignment are equally long, and [len(aln)] is that length *)
Lemma al_rows_equal_length a : AlnWF a ->
  Forall (fun nr => zlen (row_gapped (snd nr)) = al_len a /\ row_len (snd nr) = al_len a) a.
Proof.
  intros Ha. apply Forall_forall. intros [n r] Hin. cbn [snd].
  destruct (AlnWF_In a n r Ha Hin) as (W & _ & L). rewrite (al_len_slen a Ha), (row_gapped_spec r W).
  split; [exact L|]. now rewrite <- (zlen_row_str r W).
Qed.

(** ** the pinned variants violate the unguarded statements: witnesses *)

Definition witness_rows : list (name * list Z) := [([97], [84; 65; 67; 45; 84]); ([98], [84; 45; 67; 71; 84])].  (* TAC-T / T-CGT *)

Definition strings_after (vr : variant) (o : aop) : res (list (name * list Z)) :=
  bind (al_init KDna witness_rows) (fun a => bind (al_apply vr a o) (fun a' => Ok (al_strings a'))).

(** C03-1: [aln + aln] through the [self.data is other.data] shortcut gives ragged, wrong rows *)
Lemma add_self_witness :
  strings_after pinned OAddSelf = Ok [([97], [84; 65; 67; 45; 84; 45]); ([98], [84; 45; 67; 71; 84; 45])] /\
  spec_apply KDna witness_rows OAddSelf
  = Ok (KDna, [([97], [84; 65; 67; 45; 84; 84; 65; 67; 45; 84]); ([98], [84; 45; 67; 71; 84; 84; 45; 67; 71; 84])]).
Proof. split; vm_compute; reflexivity. Qed.

(** C03-2: [take_positions(negate=True)] raises for a DNA alignment *)
Lemma take_positions_negate_witness :
  strings_after pinned (OTakePos [0] true) = Err E_Type /\
  spec_apply KDna witness_rows (OTakePos [0] true) = Ok (KDna, [([97], [65; 67; 45; 84]); ([98], [45; 67; 71; 84])]).
Proof. split; vm_compute; reflexivity. Qed.

(** C03-3: [aln[-1]] is empty instead of the last column *)
Lemma index_negative_witness :
  strings_after pinned (OIndex (-1)) = Ok [([97], []); ([98], [])] /\
  spec_apply KDna witness_rows (OIndex (-1)) = Ok (KDna, [([97], [84]); ([98], [84])]).
Proof. split; vm_compute; reflexivity. Qed.

(** C08-1 seen through the alignment: [aln[:9]] reports 9 columns *)
Lemma slice_beyond_len_witness :
  bind (al_init KDna witness_rows) (fun a => bind (al_apply pinned a (OSlice None (Some 9))) (fun a' => Ok (al_len a'))) = Ok 9 /\
  spec_apply KDna witness_rows (OSlice None (Some 9)) = Ok (KDna, witness_rows).
Proof. split; vm_compute; reflexivity. Qed.

(** the repaired variants answer these four as the strings do *)
Lemma repaired_witnesses :
  Forall (fun o => bind (strings_after repaired o) (fun s => Ok (KDna, s)) = spec_apply KDna witness_rows o)
         [OAddSelf; OTakePos [0] true; OIndex (-1); OSlice None (Some 9)].
Proof. repeat constructor; vm_compute; reflexivity. Qed.

(** the hypotheses are satisfiable: a non-trivial chain within the guard *)
Ltac nodup_tac := repeat (constructor; [cbn; intuition discriminate|]); constructor.

Example chain_example :
  exists a, al_init KDna witness_rows = Ok a /\ AlnWF a /\
    chain_ok pinned (al_kind a, astr a)
      [OSlice (Some 1) (Some 4); ORc; OAddRows [([98], [65; 45]); ([97], [45; 67])]; OTakePos [2; 0] false;
       OFilter (PGapFrac [45; 63] 0 1) 1; OAddSlices 0 1 0 1; ORename [([97], [98; 50])]; OTakeSeqs (NStr [98]) true].
Proof.
  destruct (al_init_spec KDna witness_rows 5) as (a & E & W & K & S).
  - discriminate.
  - repeat constructor.
  - cbn. nodup_tac.
  - exists a. split; [exact E|]. split; [exact W|]. rewrite K, S.
    cbn [chain_ok].
    repeat match goal with |- context [spec_keep (?k, ?r) ?o] =>
      let v := eval vm_compute in (spec_keep (k, r) o) in change (spec_keep (k, r) o) with v end.
    cbn [op_ok fst snd slice_guard]. unfold idx_ok. cbn.
    repeat split; try lia; try discriminate; try (intros; discriminate); try nodup_tac;
      try (exists 2; repeat constructor); repeat constructor; try lia.
Qed.

(** * Part E — no character is altered other than by complementing or the T/U exchange *)

Definition chars (a : salign) : list Z := concat (srows a).
Definition added (o : aop) : list Z := match o with OAddRows other => concat (map snd other) | _ => [] end.

Lemma In_firstn {A} (l : list A) : forall n y, In y (firstn n l) -> In y l.
Proof. induction l as [|x l IH]; intros [|n] y H; cbn [firstn] in H; try contradiction. destruct H as [->|H]; [left; reflexivity|right; eapply IH; eauto]. Qed.

Lemma In_skipn {A} (l : list A) : forall n y, In y (skipn n l) -> In y l.
Proof. induction l as [|x l IH]; intros [|n] y H; cbn [skipn] in H; try contradiction; try exact H. right. eapply IH; eauto. Qed.

Lemma In_ssub s x y c : In c (ssub s x y) -> In c s.
Proof. unfold ssub. intros H. eapply In_skipn, In_firstn, H. Qed.

Lemma In_zget {A} (l : list A) i y : In y (zget l i) -> In y l.
Proof.
  unfold zget. destruct (i <? 0); [contradiction|]. destruct (nth_error l (Z.to_nat i)) as [x|] eqn:E; [|contradiction].
  intros [<-|[]]. eapply nth_error_In; eauto.
Qed.

Lemma In_py_slice {A} (l : list A) a b c y : In y (py_slice l a b c) -> In y l.
Proof.
  rewrite py_slice_unfold. unfold gather. intros H. apply in_flat_map in H. destruct H as (i & _ & H). eapply In_zget; eauto.
Qed.

Definition sub_chars (g : list Z -> list Z) : Prop := forall s y, In y (g s) -> In y s.

Lemma sub_chars_flat_map {I} (f : I -> list Z -> list Z) l : (forall i, sub_chars (f i)) -> sub_chars (fun s => flat_map (fun i => f i s) l).
Proof. intros Hf s y H. apply in_flat_map in H. destruct H as (i & _ & H). eapply Hf; eauto. Qed.

Lemma chars_map_rows (R : Z -> Z -> Prop) g a :
  (forall s y, In y (g s) -> exists x, In x s /\ R x y) ->
  forall y, In y (chars (map_rows g a)) -> exists x, In x (chars a) /\ R x y.
Proof.
  intros Hg y H. unfold chars, srows, map_rows in *. rewrite map_map in H. cbn [snd] in H.
  apply in_concat in H. destruct H as (t & Ht & Hy). apply in_map_iff in Ht. destruct Ht as ([n s] & <- & Hin).
  cbn [snd] in Hy. destruct (Hg s y Hy) as (x & Hx & HR). exists x. split; [|exact HR].
  apply in_concat. exists s. split; [|exact Hx]. apply in_map_iff. exists (n, s). auto.
Qed.

Lemma chars_sub g a : sub_chars g -> forall y, In y (chars (map_rows g a)) -> In y (chars a).
Proof.
  intros Hg y H. destruct (chars_map_rows eq g a) with (y := y) as (x & Hx & <-); [|exact H|exact Hx].
  intros s z Hz. exists z. split; [apply Hg, Hz|reflexivity].
Qed.

Lemma chars_subset (a b : salign) : (forall x, In x b -> In x a) -> forall y, In y (chars b) -> In y (chars a).
Proof.
  intros Hs y H. unfold chars, srows in *. apply in_concat in H. destruct H as (t & Ht & Hy).
  apply in_map_iff in Ht. destruct Ht as (nr & <- & Hin). apply in_concat. exists (snd nr). split; [|exact Hy].
  apply in_map, Hs, Hin.
Qed.

Lemma chars_zip_app a : forall rows y, In y (chars (zip_app a rows)) -> In y (chars a ++ concat rows).
Proof.
  induction a as [|[n s] a IH]; intros rows y H; [contradiction|]. destruct rows as [|t rows]; [contradiction|].
  unfold chars, srows in *. cbn [zip_app map snd concat] in *. rewrite in_app_iff in H. rewrite !in_app_iff.
  destruct H as [H|H].
  - rewrite in_app_iff in H. destruct H as [H|H]; [left; left; exact H|right; left; exact H].
  - specialize (IH rows y H). rewrite in_app_iff in IH. destruct IH as [IH|IH]; [left; right; exact IH|right; right; exact IH].
Qed.

Lemma find_row_In x a s : find_row x a = Some s -> In (x, s) a.
Proof.
  unfold find_row. induction a as [|[n s0] t IH]; [discriminate|]. cbn [filter fst].
  destruct (name_eqb n x) eqn:E.
  - intros H. injection H as <-. left. f_equal. apply name_eqb_eq, E.
  - intros H. right. apply IH, H.
Qed.

Lemma chars_add_named (a : salign) : forall b s y, s_add_named a b = Ok s -> In y (chars s) -> In y (chars a ++ chars b).
Proof.
  unfold s_add_named. induction a as [|[nm x] a IH]; intros b s y E Hy.
  - cbn [mapM] in E. injection E as <-. contradiction.
  - cbn [mapM fst snd] in E. destruct (find_row nm b) as [t|] eqn:Ef; [|discriminate]. cbn [bind] in E.
    destruct (mapM _ a) as [s'|e] eqn:Em; [|discriminate]. cbn [bind] in E. injection E as <-.
    unfold chars, srows in *. cbn [map snd concat] in *. rewrite !in_app_iff in *. destruct Hy as [[Hy|Hy]|Hy].
    + left. left. exact Hy.
    + right. apply in_concat. exists t. split; [|exact Hy]. apply in_map_iff. exists (nm, t). split; [reflexivity|].
      apply find_row_In, Ef.
    + specialize (IH b s' y Em Hy). rewrite in_app_iff in IH. destruct IH as [IH|IH]; [left; right; exact IH|right; exact IH].
Qed.

Theorem chars_preserved_lemma k a o k' a' : spec_apply k a o = Ok (k', a') ->
  forall y, In y (chars a') -> exists x, In x (chars a ++ added o) /\ derived k x y.
Proof.
  intros H y Hy.
  assert (Hid : forall z, In z (chars a) -> exists x, In x (chars a ++ added o) /\ derived k x z).
  { intros z Hz. exists z. split; [apply in_or_app; left; exact Hz|left; reflexivity]. }
  destruct o as [x y0|x y0 c|i| | |other|x y0 x' y'|cols negate|arg negate|p m|x|locs m| | | |w st i|mp]; cbn [spec_apply] in H.
  - injection H as <- <-. apply Hid. revert Hy. apply chars_sub. intros s z. apply In_py_slice.
  - destruct (c =? 0); [discriminate|]. injection H as <- <-. apply Hid. revert Hy. apply chars_sub. intros s z. apply In_py_slice.
  - destruct ((i <? - slen a) || (i >=? slen a)); [discriminate|]. injection H as <- <-. apply Hid. revert Hy.
    apply chars_sub. intros s z. apply In_ssub.
  - destruct (nucleic_kind k); [|discriminate]. injection H as <- <-.
    destruct (chars_map_rows (fun x z => z = comp k x) (rc_str k) a) with (y := y) as (x & Hx & ->); [|exact Hy|].
    + intros s z Hz. unfold rc_str in Hz. apply in_map_iff in Hz. destruct Hz as (x & <- & Hx). exists x.
      split; [apply in_rev, Hx|reflexivity].
    + exists x. split; [apply in_or_app; left; exact Hx|right; left; reflexivity].
  - injection H as <- <-. apply Hid. revert Hy. apply chars_sub. intros s z Hz. apply in_app_or in Hz. tauto.
  - destruct (negb (zlen a =? zlen other)); [discriminate|].
    destruct (s_add_named a other) as [r|e] eqn:Es; [|discriminate]. cbn [bind] in H. injection H as <- <-.
    exists y. split; [apply (chars_add_named a other r y Es Hy)|left; reflexivity].
  - injection H as <- <-. apply Hid. revert Hy. apply chars_sub. intros s z Hz. apply in_app_or in Hz.
    destruct Hz as [Hz|Hz]; eapply In_py_slice; eauto.
  - destruct negate.
    + injection H as <- <-. apply Hid. revert Hy. apply chars_sub. unfold drop_cols.
      intros s z Hz. apply in_flat_map in Hz. destruct Hz as (i & _ & Hz).
      destruct (zmem i cols); [contradiction|eapply In_ssub; eauto].
    + destruct (existsb _ cols); [discriminate|]. injection H as <- <-. apply Hid. revert Hy. apply chars_sub.
      unfold take_cols. apply (sub_chars_flat_map (fun i s => ssub s i (i + 1))). intros i s z. apply In_ssub.
  - cbv zeta in H. set (names := norm_names arg) in *. destruct negate.
    + destruct (filter _ a) as [|r0 r] eqn:Ef; [discriminate|]. injection H as <- <-. apply Hid. revert Hy.
      apply chars_subset. intros z Hz. rewrite <- Ef in Hz. apply filter_In in Hz. apply Hz.
    + destruct (forallb _ names); [|discriminate]. destruct names as [|n0 t]; [discriminate|]. injection H as <- <-.
      apply Hid. revert Hy. apply chars_subset. intros [n s] Hz.
      change (In (n, s) (flat_map (fun x => match find_row x a with Some s => [(x, s)] | None => [] end) (n0 :: t))) in Hz.
      apply in_flat_map in Hz. destruct Hz as (x & _ & Hx).
      destruct (find_row x a) as [s0|] eqn:Ef; [|contradiction]. destruct Hx as [Hx|[]]. injection Hx as <- <-.
      apply find_row_In, Ef.
  - destruct (m <=? 0); [discriminate|]. destruct (kept_motifs p m a) as [|j js]; [discriminate|]. injection H as <- <-.
    apply Hid. revert Hy. apply chars_sub. unfold take_motifs.
    apply (sub_chars_flat_map (fun j s => ssub s (j * m) ((j + 1) * m))). intros i s z. apply In_ssub.
  - destruct (find_row x a); [|discriminate]. injection H as <- <-. apply Hid. revert Hy. apply chars_sub.
    unfold take_cols. apply (sub_chars_flat_map (fun i s => ssub s i (i + 1))). intros i s z. apply In_ssub.
  - injection H as <- <-. apply Hid. revert Hy. apply chars_sub. unfold take_motifs.
    apply (sub_chars_flat_map (fun j s => ssub s (j * m) ((j + 1) * m))). intros i s z. apply In_ssub.
  - destruct k; try discriminate; injection H as <- <-.
    + destruct (chars_map_rows (fun x z => z = t2u x) t2u_str a) with (y := y) as (x & Hx & ->); [|exact Hy|].
      * intros s z Hz. apply in_map_iff in Hz. destruct Hz as (x & <- & Hx). exists x. auto.
      * exists x. split; [apply in_or_app; left; exact Hx|right; right; left; reflexivity].
    + apply Hid, Hy.
  - destruct k; try discriminate; injection H as <- <-.
    + apply Hid, Hy.
    + destruct (chars_map_rows (fun x z => z = u2t x) u2t_str a) with (y := y) as (x & Hx & ->); [|exact Hy|].
      * intros s z Hz. apply in_map_iff in Hz. destruct Hz as (x & <- & Hx). exists x. auto.
      * exists x. split; [apply in_or_app; left; exact Hx|right; right; right; reflexivity].
  - injection H as <- <-. apply Hid, Hy.
  - destruct (_ && _); [|discriminate]. injection H as <- <-. apply Hid. revert Hy. apply chars_sub. intros s z. apply In_ssub.
  - injection H as <- <-. apply Hid. unfold chars, srows in *. rewrite map_map in Hy. exact Hy.
Qed.


(** the same for the model: what an operation of the annotatable class returns
    is made of the characters it was given *)
Theorem model_chars_preserved vr a o a' : AlnWF a -> op_ok vr (al_kind a) (astr a) o -> al_apply vr a o = Ok a' ->
  forall y, In y (chars (al_strings a')) ->
  exists x, In x (chars (al_strings a) ++ added o) /\ derived (al_kind a) x y.
Proof.
  intros Ha Hok E y Hy. pose proof (al_apply_spec vr a o Ha Hok) as H.
  destruct (spec_apply (al_kind a) (astr a) o) as [[k' s']|e] eqn:Es.
  - destruct H as (a'' & E' & W & K & S). rewrite E in E'. injection E' as <-. cbn [snd] in S.
    rewrite (al_strings_spec a' W), S in Hy. rewrite (al_strings_spec a Ha).
    apply (chars_preserved_lemma _ _ _ _ _ Es y Hy).
  - rewrite E in H. discriminate.
Qed.
