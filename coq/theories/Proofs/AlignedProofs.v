(** C03 — lemmas: rows of the annotatable alignment class read as gapped strings. *)
From CG3 Require Import Lib.PyZ Lib.Val Lib.PySlice Model.View Model.IndelMap Model.IndelMapFixed Model.Aligned.
From CG3 Require Import Spec.ViewSpec Spec.IndelMapSpec Spec.AlignedSpec.

(** a gapped string is its mask filled with its residues *)
Lemma fill_mask_strip s : fill (mask s) (strip s) = s.
Proof.
  induction s as [|c s IH]; [reflexivity|].
  unfold mask, strip in *. cbn [map filter]. unfold is_res at 1 3.
  destruct (c =? GAPC) eqn:E; cbn [negb fill].
  - rewrite IH. f_equal. lia.
  - rewrite IH. reflexivity.
Qed.
