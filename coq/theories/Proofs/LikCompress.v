(** C02 / C11 — column compression ([_indexed]) is sound: the count-weighted
    sum over the unique columns equals the plain sum over all columns.
    Generic facts about [indexed] (any type with a correct boolean equality),
    then the model's [total_log_lik], its invariances, and the bin mixture. *)
From Coq Require Import Permutation.
From CG3 Require Import Lib.PyZ Lib.Semiring Lib.LikTree Model.Lik.
Local Open Scope nat_scope.

Set Implicit Arguments.

(* ------------------------------------------------------------------ list helpers *)

Lemma combine_app_eqlen (X Y : Type) (a b : list X) (c d : list Y) :
  length a = length c -> combine (a ++ b) (c ++ d) = combine a c ++ combine b d.
Proof.
  revert c; induction a as [|x a IH]; intros [|y c] Hlen; cbn [length] in Hlen; try discriminate.
  - reflexivity.
  - cbn [app combine]. f_equal. apply IH. lia.
Qed.

Lemma combine_map_r (X Y Z' : Type) (h : Y -> Z') (a : list X) (b : list Y) :
  combine a (map h b) = map (fun p => (fst p, h (snd p))) (combine a b).
Proof.
  revert b; induction a as [|x a IH]; intros [|y b]; cbn [combine map fst snd]; try reflexivity.
  f_equal. apply IH.
Qed.

(* ------------------------------------------------------------------ PART 1: [indexed] *)

Section IndexedFacts.
  Variable A : Type.
  Variable eqb : A -> A -> bool.
  Hypothesis eqb_spec : forall a b, eqb a b = true <-> a = b.

  Lemma find_idx_some x l s i :
    find_idx eqb x l s = Some i ->
    s <= i /\ i - s < length l /\ nth_error l (i - s) = Some x.
  Proof.
    revert s; induction l as [|y l IH]; intros s H; cbn [find_idx] in H; [discriminate|].
    destruct (eqb y x) eqn:E.
    - injection H as <-. apply eqb_spec in E. subst y. rewrite Nat.sub_diag.
      cbn [length nth_error]. repeat split; lia.
    - apply IH in H. destruct H as (H1 & H2 & H3).
      replace (i - s) with (S (i - S s)) by lia. cbn [length nth_error].
      repeat split; try lia. exact H3.
  Qed.

  Lemma find_idx_none x l s : find_idx eqb x l s = None -> ~ In x l.
  Proof.
    revert s; induction l as [|y l IH]; intros s H; cbn [find_idx] in H; [intros []|].
    destruct (eqb y x) eqn:E; [discriminate|].
    intros [Hy|Hin].
    - subst y. assert (Hxx : eqb x x = true) by (apply eqb_spec; reflexivity). congruence.
    - exact (IH _ H Hin).
  Qed.

  Lemma incr_nth_length c i : length (incr_nth c i) = length c.
  Proof. revert i; induction c as [|n c IH]; intros [|i]; cbn [incr_nth length]; auto. Qed.

  (** the two possible outcomes of one loop iteration *)
  Lemma step_cases u c ix x :
    (exists i, indexed_step eqb (u, c, ix) x = (u, incr_nth c i, ix ++ [i])
               /\ nth_error u i = Some x)
    \/ (indexed_step eqb (u, c, ix) x = (u ++ [x], c ++ [1], ix ++ [length u]) /\ ~ In x u).
  Proof.
    cbn [indexed_step]. destruct (find_idx eqb x u 0) as [i|] eqn:E.
    - left. exists i. split; [reflexivity|].
      apply find_idx_some in E. destruct E as (_ & _ & Hnth).
      now rewrite Nat.sub_0_r in Hnth.
    - right. split; [reflexivity|]. eapply find_idx_none; eassumption.
  Qed.

  Lemma step_struct u c ix x :
    length c = length u -> NoDup u ->
    exists u' c' i,
      indexed_step eqb (u, c, ix) x = (u', c', ix ++ [i]) /\
      length c' = length u' /\ NoDup u' /\
      (exists ext, u' = u ++ ext) /\
      (forall y, In y u' <-> In y u \/ y = x) /\
      nth_error u' i = Some x.
  Proof.
    intros Hlen Hnd. destruct (step_cases u c ix x) as [(i & Hstep & Hnth)|(Hstep & Hnin)].
    - exists u, (incr_nth c i), i. repeat split; auto.
      + rewrite incr_nth_length. exact Hlen.
      + exists []. now rewrite app_nil_r.
      + intros [H| ->]; auto. eapply nth_error_In; eauto.
    - exists (u ++ [x]), (c ++ [1]), (length u). repeat split.
      + exact Hstep.
      + rewrite !app_length. cbn [length]. lia.
      + eapply Permutation_NoDup; [apply Permutation_cons_append|].
        constructor; assumption.
      + exists [x]. reflexivity.
      + rewrite in_app_iff. cbn [In]. intuition.
      + rewrite in_app_iff. cbn [In]. intuition.
      + rewrite nth_error_app2 by lia. rewrite Nat.sub_diag. reflexivity.
  Qed.

  (** the loop invariant, from an arbitrary well-formed state *)
  Lemma fold_struct values : forall u c ix,
    length c = length u -> NoDup u ->
    exists u' c' ixn,
      fold_left (indexed_step eqb) values (u, c, ix) = (u', c', ix ++ ixn) /\
      length c' = length u' /\ NoDup u' /\
      (exists ext, u' = u ++ ext) /\
      (forall y, In y u' <-> In y u \/ In y values) /\
      map (fun i => nth_error u' i) ixn = map Some values.
  Proof.
    induction values as [|x vs IH]; intros u c ix Hlen Hnd.
    - exists u, c, []. cbn [fold_left map In]. rewrite !app_nil_r.
      repeat split; auto; try tauto. exists []. now rewrite app_nil_r.
    - destruct (@step_struct u c ix x Hlen Hnd)
        as (u1 & c1 & i & Hstep & Hlen1 & Hnd1 & (ext1 & Hext1) & Hin1 & Hnth1).
      destruct (IH u1 c1 (ix ++ [i]) Hlen1 Hnd1)
        as (u' & c' & ixn & Hfold & Hlen' & Hnd' & (ext2 & Hext2) & Hin' & Hmap').
      exists u', c', (i :: ixn). cbn [fold_left]. rewrite Hstep, Hfold.
      split; [now rewrite <- app_assoc|].
      split; [exact Hlen'|]. split; [exact Hnd'|].
      split; [exists (ext1 ++ ext2); now rewrite Hext2, Hext1, app_assoc|].
      split.
      + intros y. rewrite Hin', Hin1. cbn [In]. intuition.
      + cbn [map]. f_equal; [|exact Hmap'].
        rewrite Hext2. rewrite nth_error_app1; [exact Hnth1|].
        apply nth_error_Some. congruence.
  Qed.

  Theorem indexed_counts_length values :
    let '(u, c, ix) := indexed eqb values in
    length c = length u /\ length ix = length values.
  Proof.
    unfold indexed.
    destruct (@fold_struct values [] [] [] eq_refl (NoDup_nil A))
      as (u' & c' & ixn & Hfold & Hlen' & _ & _ & _ & Hmap').
    rewrite Hfold. cbn [app]. split; [exact Hlen'|].
    apply (f_equal (@length _)) in Hmap'. now rewrite !map_length in Hmap'.
  Qed.

  Theorem indexed_nodup values :
    let '(u, _, _) := indexed eqb values in
    NoDup u /\ forall x, In x u <-> In x values.
  Proof.
    unfold indexed.
    destruct (@fold_struct values [] [] [] eq_refl (NoDup_nil A))
      as (u' & c' & ixn & Hfold & _ & Hnd' & _ & Hin' & _).
    rewrite Hfold. split; [exact Hnd'|]. intros x. rewrite Hin'. cbn [In]. tauto.
  Qed.

  Theorem indexed_index values :
    let '(u, _, ix) := indexed eqb values in
    map (fun i => nth_error u i) ix = map Some values.
  Proof.
    unfold indexed.
    destruct (@fold_struct values [] [] [] eq_refl (NoDup_nil A))
      as (u' & c' & ixn & Hfold & _ & _ & _ & _ & Hmap').
    rewrite Hfold. exact Hmap'.
  Qed.


  (* ---------------------------------------------------------------- first-occurrence order *)

  (** first-occurrence deduplication: keep an element, drop its later copies *)
  Fixpoint first_occ (l : list A) : list A :=
    match l with
    | [] => []
    | x :: l' => x :: filter (fun y => negb (eqb x y)) (first_occ l')
    end.

  Definition notin (u : list A) (y : A) : bool := negb (existsb (fun z => eqb z y) u).

  Lemma notin_false u y : In y u -> notin u y = false.
  Proof.
    intros Hin. unfold notin. apply negb_false_iff, existsb_exists.
    exists y. split; [exact Hin|]. now apply eqb_spec.
  Qed.

  Lemma filter_filter_ext (p q r : A -> bool) l :
    (forall y, r y = p y && q y) -> filter p (filter q l) = filter r l.
  Proof.
    intros Hr. induction l as [|y l IH]; cbn [filter]; [reflexivity|].
    rewrite (Hr y). destruct (q y); cbn [filter]; destruct (p y); cbn [andb];
      now rewrite IH.
  Qed.

  Lemma fold_first values : forall u c ix,
    fst (fst (fold_left (indexed_step eqb) values (u, c, ix)))
    = u ++ filter (notin u) (first_occ values).
  Proof.
    induction values as [|x vs IH]; intros u c ix.
    - cbn [fold_left first_occ filter fst]. now rewrite app_nil_r.
    - cbn [fold_left first_occ filter].
      destruct (step_cases u c ix x) as [(i & Hstep & Hnth)|(Hstep & Hnin)];
        rewrite Hstep, IH.
      + rewrite (notin_false u x) by (eapply nth_error_In; eassumption).
        f_equal. symmetry. apply filter_filter_ext. intros y.
        destruct (notin u y) eqn:Ey; cbn [andb]; [|reflexivity].
        destruct (eqb x y) eqn:Exy; cbn [negb]; [|reflexivity].
        apply eqb_spec in Exy. subst y.
        rewrite notin_false in Ey; [discriminate|].
        eapply nth_error_In; eassumption.
      + assert (Hx : notin u x = true).
        { unfold notin. apply negb_true_iff. destruct (existsb _ u) eqn:E; [|reflexivity].
          apply existsb_exists in E. destruct E as (z & Hz & Ezx).
          apply eqb_spec in Ezx. subst z. contradiction. }
        rewrite Hx, <- app_assoc. cbn [app]. do 2 f_equal. symmetry.
        apply filter_filter_ext. intros y. unfold notin.
        rewrite existsb_app. cbn [existsb]. rewrite orb_false_r. apply negb_orb.
  Qed.

  Theorem indexed_first values :
    let '(u, _, _) := indexed eqb values in u = first_occ values.
  Proof.
    pose proof (fold_first values [] [] []) as H. unfold indexed.
    destruct (fold_left (indexed_step eqb) values ([], [], [])) as [[u c] ix].
    cbn [fst app] in H. rewrite H. clear H.
    induction (first_occ values) as [|y l IH]; cbn [filter]; [reflexivity|].
    cbn [notin existsb negb]. now rewrite IH.
  Qed.

  (* ---------------------------------------------------------------- weighted sums *)

  Variable Lg : Type.
  Variable lm : cm_ops Lg.
  Hypothesis LM : cm_laws lm.

  Definition wsum (f : A -> Lg) (c : list nat) (u : list A) : Lg :=
    big_op lm (fun cu => nscale lm (fst cu) (f (snd cu))) (combine c u).

  Lemma wsum_incr_nth f c : forall u i x,
    length c = length u -> nth_error u i = Some x ->
    wsum f (incr_nth c i) u = cm_op lm (f x) (wsum f c u).
  Proof.
    induction c as [|n c IH]; intros [|y u] i x Hlen Hnth; cbn [length] in Hlen;
      try discriminate.
    - destruct i; discriminate.
    - destruct i as [|i]; cbn [nth_error] in Hnth.
      + injection Hnth as ->. unfold wsum. cbn [incr_nth combine].
        rewrite !big_op_cons. cbn [fst snd nscale]. now rewrite (cm_assoc LM).
      + assert (Hlen' : length c = length u) by lia.
        specialize (IH u i x Hlen' Hnth). unfold wsum in *. cbn [incr_nth combine].
        rewrite !big_op_cons, IH. cbn [fst snd]. rewrite !(cm_assoc LM). f_equal.
        apply (cm_comm LM).
  Qed.

  Lemma wsum_snoc f c u x :
    length c = length u ->
    wsum f (c ++ [1]) (u ++ [x]) = cm_op lm (wsum f c u) (f x).
  Proof.
    intros Hlen. unfold wsum. rewrite (combine_app_eqlen _ [1] _ [x] Hlen), (big_op_app LM).
    cbn [combine]. rewrite big_op_cons, big_op_nil. cbn [fst snd nscale].
    now rewrite !(cm_unit_r LM).
  Qed.

  Lemma step_wsum f u c ix x :
    length c = length u ->
    let '(u', c', _) := indexed_step eqb (u, c, ix) x in
    wsum f c' u' = cm_op lm (wsum f c u) (f x).
  Proof.
    intros Hlen. destruct (step_cases u c ix x) as [(i & Hstep & Hnth)|(Hstep & _)];
      rewrite Hstep.
    - rewrite (@wsum_incr_nth f c u i x Hlen Hnth). apply (cm_comm LM).
    - apply wsum_snoc; exact Hlen.
  Qed.

  Lemma fold_wsum f values : forall u c ix,
    length c = length u -> NoDup u ->
    let '(u', c', _) := fold_left (indexed_step eqb) values (u, c, ix) in
    wsum f c' u' = cm_op lm (wsum f c u) (big_op lm f values).
  Proof.
    induction values as [|x vs IH]; intros u c ix Hlen Hnd.
    - cbn [fold_left]. rewrite big_op_nil. now rewrite (cm_unit_r LM).
    - destruct (@step_struct u c ix x Hlen Hnd) as (u1 & c1 & i & Hstep & Hlen1 & Hnd1 & _).
      pose proof (step_wsum f u c ix x Hlen) as Hw.
      cbn [fold_left]. rewrite Hstep in Hw |- *.
      specialize (IH u1 c1 (ix ++ [i]) Hlen1 Hnd1).
      destruct (fold_left (indexed_step eqb) vs (u1, c1, ix ++ [i])) as [[u' c'] ix'].
      rewrite IH, Hw, big_op_cons. now rewrite (cm_assoc LM).
  Qed.

  Theorem indexed_weighted_sum values (f : A -> Lg) :
    let '(u, c, _) := indexed eqb values in
    big_op lm (fun cu => nscale lm (fst cu) (f (snd cu))) (combine c u) = big_op lm f values.
  Proof.
    pose proof (@fold_wsum f values [] [] [] eq_refl (NoDup_nil A)) as H.
    unfold indexed. destruct (fold_left (indexed_step eqb) values ([], [], [])) as [[u c] ix].
    unfold wsum in H. cbn [combine] in H. rewrite big_op_nil in H.
    now rewrite (cm_unit_l LM) in H.
  Qed.
End IndexedFacts.


(* ------------------------------------------------------------------ PART 2: the model *)

Lemma motif_eqb_spec (a b : motif) : motif_eqb a b = true <-> a = b.
Proof.
  revert b; induction a as [|x a IH]; intros [|y b]; cbn [motif_eqb];
    try (split; [discriminate|congruence]).
  - split; reflexivity.
  - rewrite andb_true_iff, Z.eqb_eq, IH. split.
    + intros [-> ->]. reflexivity.
    + intros H. injection H as -> ->. split; reflexivity.
Qed.

Lemma column_eqb_spec (a b : column) : column_eqb a b = true <-> a = b.
Proof.
  revert b; induction a as [|[k m] a IH]; intros [|[k' m'] b]; cbn [column_eqb];
    try (split; [discriminate|congruence]).
  - split; reflexivity.
  - rewrite !andb_true_iff, Z.eqb_eq, motif_eqb_spec, IH. split.
    + intros [[-> ->] ->]. reflexivity.
    + intros H. injection H as -> -> ->. repeat split; reflexivity.
Qed.

Section Compress.
  Variables R Lg : Type.
  Variable lm : cm_ops Lg.
  Hypothesis LM : cm_laws lm.
  Variable lg : R -> Lg.
  Variable lik : column -> R.

  (** the compressed calculation equals the plain sum of the per-column log
      likelihoods over all alignment positions *)
  Theorem compress_sum (gapcol : column) (cols : list column) :
    total_log_lik lm lg lik gapcol cols = big_op lm (fun c => lg (lik c)) cols.
  Proof.
    unfold total_log_lik.
    pose proof (@indexed_counts_length _ column_eqb column_eqb_spec cols) as H1.
    pose proof (@indexed_weighted_sum _ column_eqb column_eqb_spec _ lm LM cols (fun c => lg (lik c))) as H2.
    destruct (indexed column_eqb cols) as [[u c] ix]. destruct H1 as [Hlen _].
    unfold log_sum. rewrite map_app.
    rewrite combine_app_eqlen by (now rewrite map_length).
    rewrite (big_op_app LM). cbn [map combine]. rewrite big_op_cons, big_op_nil.
    cbn [fst snd nscale]. rewrite !(cm_unit_r LM).
    rewrite combine_map_r, big_op_map. exact H2.
  Qed.

  Theorem perm_columns gapcol cols cols' :
    Permutation cols cols' ->
    total_log_lik lm lg lik gapcol cols = total_log_lik lm lg lik gapcol cols'.
  Proof. intros HP. rewrite !compress_sum. apply (big_op_perm LM). exact HP. Qed.

  Theorem repeat_alignment gapcol cols k :
    total_log_lik lm lg lik gapcol (concat (repeat cols k))
    = nscale lm k (total_log_lik lm lg lik gapcol cols).
  Proof.
    rewrite !compress_sum. induction k as [|k IH]; cbn [repeat concat nscale].
    - reflexivity.
    - now rewrite (big_op_app LM), IH.
  Qed.

  Theorem repeat_each_column gapcol cols k :
    total_log_lik lm lg lik gapcol (flat_map (fun c => repeat c k) cols)
    = nscale lm k (total_log_lik lm lg lik gapcol cols).
  Proof.
    rewrite !compress_sum, (big_op_flat_map LM), (nscale_big_op LM).
    apply big_op_ext. intros c _. apply big_op_repeat.
  Qed.

  Theorem merge_identical gapcol (wc : list (nat * column)) :
    total_log_lik lm lg lik gapcol (flat_map (fun p => repeat (snd p) (fst p)) wc)
    = big_op lm (fun p => nscale lm (fst p) (lg (lik (snd p)))) wc.
  Proof.
    rewrite compress_sum, (big_op_flat_map LM).
    apply big_op_ext. intros p _. apply big_op_repeat.
  Qed.

  Theorem gapcol_irrelevant g g' cols :
    total_log_lik lm lg lik g cols = total_log_lik lm lg lik g' cols.
  Proof. now rewrite !compress_sum. Qed.
End Compress.

(* ------------------------------------------------------------------ mixture *)

Theorem mixture_linear (R : Type) (o : sr_ops R) (L : sr_laws o) (bprobs lhs : list R) :
  mixture o bprobs lhs
  = big_sum o (fun bl => sr_mul o (snd bl) (fst bl)) (combine bprobs lhs).
Proof.
  unfold mixture, big_sum.
  etransitivity;
    [apply (fold_left_big_op (sr_addm_laws L) (fun bl => sr_mul o (snd bl) (fst bl)))|].
  apply (sr_add_0_l L).
Qed.

(* ------------------------------------------------------------------ non-vacuity *)

Definition ex_colA : column := [(1%Z, [65%Z]); (2%Z, [67%Z])].
Definition ex_colB : column := [(1%Z, [65%Z]); (2%Z, [71%Z])].
Definition ex_colC : column := [(1%Z, [84%Z]); (2%Z, [67%Z])].
Definition ex_cols : list column := [ex_colA; ex_colB; ex_colA; ex_colC].
Definition ex_gap : column := [(1%Z, [63%Z]); (2%Z, [63%Z])].

(** a "likelihood": sum of the code points of the column *)
Definition ex_lik (c : column) : Z :=
  fold_right (fun km acc => (fold_right Z.add 0 (snd km) + acc)%Z) 0%Z c.
Definition ex_lg (z : Z) : Z := (2 * z)%Z.

Example indexed_example :
  indexed column_eqb ex_cols = ([ex_colA; ex_colB; ex_colC], [2; 1; 1], [0; 1; 0; 2]).
Proof. vm_compute. reflexivity. Qed.

Example first_occ_example : first_occ column_eqb ex_cols = [ex_colA; ex_colB; ex_colC].
Proof. vm_compute. reflexivity. Qed.

Example total_log_lik_example :
  total_log_lik Zadd_cm ex_lg ex_lik ex_gap ex_cols = 1102%Z
  /\ big_op Zadd_cm (fun c => ex_lg (ex_lik c)) ex_cols = 1102%Z.
Proof. vm_compute. split; reflexivity. Qed.

Print Assumptions indexed_counts_length.
Print Assumptions indexed_nodup.
Print Assumptions indexed_index.
Print Assumptions indexed_first.
Print Assumptions indexed_weighted_sum.
Print Assumptions compress_sum.
Print Assumptions perm_columns.
Print Assumptions repeat_alignment.
Print Assumptions repeat_each_column.
Print Assumptions merge_identical.
Print Assumptions gapcol_irrelevant.
Print Assumptions mixture_linear.
