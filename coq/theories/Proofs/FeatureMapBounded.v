(** C08 — the FeatureMap algebra against its set-theoretic meaning
    (Spec/FeatureMapSpec.v), decided by [vm_compute] over EVERY map with at
    most two spans (forward, reversed, zero-length, or lost of length 1 / 2)
    on a parent of length <= 4 (composition: parent <= 3, against every such
    sub-map over the map's own length). *)
From CG3 Require Import Lib.PyZ Lib.Val Model.IndelMap Model.FeatureMap Spec.FeatureMapSpec.

Local Open Scope Z_scope.

Definition segs (n : Z) : list fspan :=
  flat_map (fun a => flat_map (fun b => [FS a b false; FS a b true]) (zrange a (n + 1))) (zrange 0 (n + 1))
  ++ [FL 1; FL 2].

Definition span_lists (n : Z) : list (list fspan) :=
  let sg := segs n in
  [] :: map (fun s => [s]) sg ++ flat_map (fun s => map (fun t => [s; t]) sg) sg.

Definition maps_upto2 (n : Z) : list fmap := map (fun l => mk_fmap l n) (span_lists n).

Definition small_span (n : Z) (sp : fspan) : Prop :=
  match sp with FS a b _ => 0 <= a /\ a <= b /\ b <= n | FL k => k = 1 \/ k = 2 end.

Definition small_map (fm : fmap) : Prop :=
  (length (fspans fm) <= 2)%nat /\ Forall (small_span (fplen fm)) (fspans fm).

Lemma segs_complete n sp : small_span n sp -> In sp (segs n).
Proof.
  unfold segs. destruct sp as [a b r|k]; cbn [small_span]; intros H; apply in_or_app.
  - left. apply in_flat_map. exists a. split; [apply zrange_In; lia|].
    apply in_flat_map. exists b. split; [apply zrange_In; lia|]. destruct r; cbn; auto.
  - right. destruct H as [->| ->]; cbn; auto.
Qed.

Lemma maps_upto2_complete fm : small_map fm -> In fm (maps_upto2 (fplen fm)).
Proof.
  destruct fm as [l n]. unfold small_map. cbn [fspans fplen]. intros (Hl & Hf).
  unfold maps_upto2. apply (in_map (fun l => mk_fmap l n)). unfold span_lists.
  destruct l as [|s [|t [|u l]]].
  - left; reflexivity.
  - right. apply in_or_app. left. apply (in_map (fun s => [s])). apply segs_complete. now inversion Hf.
  - right. apply in_or_app. right. inversion Hf as [|? ? H1 H2]; subst. inversion H2 as [|? ? H3 H4]; subst.
    apply in_flat_map. exists s. split; [now apply segs_complete|]. apply (in_map (fun t => [s; t])). now apply segs_complete.
  - cbn in Hl. lia.
Qed.

Definition oZ_dec : forall x y : option Z, {x = y} + {x <> y}.
Proof. decide equality; apply Z.eq_dec. Defined.
Definition oden_eqb (a b : list (option Z)) : bool := if list_eq_dec oZ_dec a b then true else false.
Lemma oden_eqb_eq a b : oden_eqb a b = true -> a = b.
Proof. unfold oden_eqb. destruct (list_eq_dec oZ_dec a b); congruence. Qed.
Definition lZ_eqb (a b : list Z) : bool := if list_eq_dec Z.eq_dec a b then true else false.
Lemma lZ_eqb_eq a b : lZ_eqb a b = true -> a = b.
Proof. unfold lZ_eqb. destruct (list_eq_dec Z.eq_dec a b); congruence. Qed.

Definition all_forward (fm : fmap) : bool :=
  forallb (fun sp => match sp with FS _ _ true => false | _ => true end) (fspans fm).
Definition flip (plen : Z) (o : option Z) : option Z :=
  match o with Some p => Some (plen - 1 - p) | None => None end.

(** ** covered / nucleic_reversed / inverse / shadow *)

Definition chk_cov (fm : fmap) : bool :=
  match fm_covered fm with
  | Ok c => oden_eqb (den c) (map Some (positions fm)) && separated (-1) (fspans c)
            && (fplen c =? fplen fm) && in_parent c
  | Err _ => false end.

Definition chk_nrev (fm : fmap) : bool :=
  match fm_nucleic_reversed fm with
  | Ok c => (if all_forward fm then oden_eqb (den c) (rev (map (flip (fplen fm)) (den fm))) else true)
            && lZ_eqb (positions c) (fold_right ins [] (map (fun p => fplen fm - 1 - p) (positions fm)))
            && (zlen (den c) =? zlen (den fm)) && (fplen c =? fplen fm) && in_parent c
  | Err _ => false end.

Definition chk_inv (fm : fmap) : bool :=
  if disjoint_spans fm then
    match fm_inverse fm with
    | Ok c => oden_eqb (den c) (inverse_den (fplen fm) (den fm)) && (fplen c =? zlen (den fm)) && in_parent c
    | Err _ => false end
  else true.

Definition chk_shadow (fm : fmap) : bool :=
  if disjoint_spans fm then
    match fm_shadow fm with
    | Ok c => oden_eqb (den c) (map Some (complement (fplen fm) (positions fm)))
              && (fplen c =? fplen fm) && in_parent c && all_forward c
    | Err _ => false end
  else true.

Definition chk_unary (fm : fmap) : bool := chk_cov fm && chk_nrev fm && chk_inv fm && chk_shadow fm.

Lemma chk_unary_upto_4 : forallb chk_unary (flat_map maps_upto2 [0; 1; 2; 3; 4]) = true.
Proof. vm_compute. reflexivity. Qed.

Lemma chk_unary_small fm : small_map fm -> 0 <= fplen fm <= 4 -> chk_unary fm = true.
Proof.
  intros Hs Hn. pose proof chk_unary_upto_4 as H. rewrite forallb_forall in H. apply H.
  apply in_flat_map. exists (fplen fm). split; [|now apply maps_upto2_complete].
  assert (fplen fm = 0 \/ fplen fm = 1 \/ fplen fm = 2 \/ fplen fm = 3 \/ fplen fm = 4) as D by lia.
  destruct D as [->|[->|[->|[->| ->]]]]; cbn; auto 6.
Qed.

Lemma covered_bounded fm : small_map fm -> 0 <= fplen fm <= 4 ->
  exists c, fm_covered fm = Ok c /\ den c = map Some (positions fm) /\
            separated (-1) (fspans c) = true /\ fplen c = fplen fm /\ in_parent c = true.
Proof.
  intros Hs Hn. pose proof (chk_unary_small fm Hs Hn) as H. unfold chk_unary in H.
  repeat (apply andb_prop in H; destruct H as (H & ?)). unfold chk_cov in H.
  destruct (fm_covered fm) as [c|]; [|discriminate]. exists c.
  repeat (apply andb_prop in H; destruct H as (H & ?)).
  split; [reflexivity|]. split; [now apply oden_eqb_eq|]. split; [assumption|]. split; [lia|assumption].
Qed.

Lemma nucleic_reversed_bounded fm : small_map fm -> 0 <= fplen fm <= 4 ->
  exists c, fm_nucleic_reversed fm = Ok c /\
            (all_forward fm = true -> den c = rev (map (flip (fplen fm)) (den fm))) /\
            positions c = fold_right ins [] (map (fun p => fplen fm - 1 - p) (positions fm)) /\
            zlen (den c) = zlen (den fm) /\ fplen c = fplen fm /\ in_parent c = true.
Proof.
  intros Hs Hn. pose proof (chk_unary_small fm Hs Hn) as H. unfold chk_unary in H.
  repeat (apply andb_prop in H; destruct H as (H & ?)). unfold chk_nrev in *.
  destruct (fm_nucleic_reversed fm) as [c|]; [|discriminate]. exists c.
  match goal with H0 : _ && _ && _ && _ && _ = true |- _ =>
    repeat (apply andb_prop in H0; destruct H0 as (H0 & ?)); rename H0 into Hd end.
  split; [reflexivity|]. split.
  - intros E. rewrite E in Hd. now apply oden_eqb_eq.
  - split; [now apply lZ_eqb_eq|]. split; [lia|]. split; [lia|assumption].
Qed.

Lemma inverse_bounded fm : small_map fm -> 0 <= fplen fm <= 4 -> disjoint_spans fm = true ->
  exists c, fm_inverse fm = Ok c /\ den c = inverse_den (fplen fm) (den fm) /\
            fplen c = zlen (den fm) /\ in_parent c = true.
Proof.
  intros Hs Hn Hd. pose proof (chk_unary_small fm Hs Hn) as H. unfold chk_unary in H.
  repeat (apply andb_prop in H; destruct H as (H & ?)). unfold chk_inv in *. rewrite Hd in *.
  destruct (fm_inverse fm) as [c|]; [|discriminate]. exists c.
  match goal with H0 : _ && _ && _ = true |- _ =>
    repeat (apply andb_prop in H0; destruct H0 as (H0 & ?)); rename H0 into He end.
  split; [reflexivity|]. split; [now apply oden_eqb_eq|]. split; [lia|assumption].
Qed.

Lemma shadow_bounded fm : small_map fm -> 0 <= fplen fm <= 4 -> disjoint_spans fm = true ->
  exists c, fm_shadow fm = Ok c /\ den c = map Some (complement (fplen fm) (positions fm)) /\
            fplen c = fplen fm /\ in_parent c = true /\ all_forward c = true.
Proof.
  intros Hs Hn Hd. pose proof (chk_unary_small fm Hs Hn) as H. unfold chk_unary in H.
  repeat (apply andb_prop in H; destruct H as (H & ?)). unfold chk_shadow in *. rewrite Hd in *.
  destruct (fm_shadow fm) as [c|]; [|discriminate]. exists c.
  match goal with H0 : _ && _ && _ && _ = true |- _ =>
    repeat (apply andb_prop in H0; destruct H0 as (H0 & ?)); rename H0 into He end.
  split; [reflexivity|]. split; [now apply oden_eqb_eq|]. split; [lia|]. split; assumption.
Qed.

(** ** composition [fm[sub]] *)

Definition chk_comp (fm sub : fmap) : bool :=
  match fm_getitem_map fm sub with
  | Ok c => oden_eqb (den c) (compose (den fm) (den sub)) && (fplen c =? fplen fm)
            && (if in_parent fm then in_parent c else true)
  | Err _ => match fspans fm with [] => true | _ => false end
  end.

Lemma chk_comp_upto_3 :
  forallb (fun fm => forallb (chk_comp fm) (maps_upto2 (flen fm))) (flat_map maps_upto2 [0; 1; 2; 3]) = true.
Proof. vm_compute. reflexivity. Qed.

Lemma composition_bounded fm sub :
  small_map fm -> 0 <= fplen fm <= 3 -> fspans fm <> [] -> small_map sub -> fplen sub = flen fm ->
  exists c, fm_getitem_map fm sub = Ok c /\ den c = compose (den fm) (den sub) /\ fplen c = fplen fm /\
            (in_parent fm = true -> in_parent c = true).
Proof.
  intros Hs Hn Hne Hsub Hl. pose proof chk_comp_upto_3 as H. rewrite forallb_forall in H.
  assert (Hin : In fm (flat_map maps_upto2 [0; 1; 2; 3])).
  { apply in_flat_map. exists (fplen fm). split; [|now apply maps_upto2_complete].
    assert (fplen fm = 0 \/ fplen fm = 1 \/ fplen fm = 2 \/ fplen fm = 3) as D by lia.
    destruct D as [->|[->|[->| ->]]]; cbn; auto 6. }
  specialize (H fm Hin). rewrite forallb_forall in H.
  specialize (H sub). rewrite <- Hl in H. specialize (H (maps_upto2_complete sub Hsub)).
  unfold chk_comp in H. destruct (fm_getitem_map fm sub) as [c|].
  - exists c. repeat (apply andb_prop in H; destruct H as (H & ?)).
    split; [reflexivity|]. split; [now apply oden_eqb_eq|]. split; [lia|].
    intros E. match goal with H0 : (if in_parent fm then _ else _) = true |- _ => rewrite E in H0; exact H0 end.
  - destruct (fspans fm); [contradiction|discriminate].
Qed.

Lemma small_map_example : small_map (mk_fmap [FS 0 2 false; FS 1 3 true] 3).
Proof. split; [cbn; lia|]. repeat constructor; cbn; lia. Qed.
