(** C03 — the array-backed class: every method of Model/AlignedArr.v IS the
    string operation of Spec/AlignedSpec.v on rectangular, non-empty alignments. *)
From CG3 Require Import Lib.PyZ Lib.Val Lib.PySlice Model.View Model.IndelMap Model.IndelMapFixed Model.Aligned Model.AlignedArr.
From CG3 Require Import Spec.ViewSpec Spec.IndelMapSpec Spec.AlignedSpec Proofs.ViewSeqProofs Proofs.AlignedProofs.

Definition good (a : salign) : Prop := a <> [] /\ rect a /\ NoDup (map fst a).

Lemma d_make_ok a : good a -> d_make a = Ok a.
Proof.
  intros (Hne & Hr & _). destruct a as [|[n s] t]; [congruence|]. cbn [d_make].
  apply rect_cons in Hr. replace (forallb _ t) with true; [reflexivity|].
  symmetry. apply forallb_forall. intros nr Hin. rewrite Forall_forall in Hr. apply Z.eqb_eq. cbn [snd]. apply (Hr _ Hin).
Qed.

Lemma names_map_rows g (a : salign) : map fst (map_rows g a) = map fst a.
Proof. unfold map_rows. rewrite map_map. reflexivity. Qed.

Lemma good_map_rows g a : uniform g -> good a -> good (map_rows g a).
Proof.
  intros Hu (Hne & Hr & Hnd). split; [|split; [apply rect_map_rows; assumption|rewrite names_map_rows; exact Hnd]].
  destruct a; [congruence|discriminate].
Qed.

Lemma good_len a nr : good a -> In nr a -> zlen (snd nr) = slen a.
Proof. intros (_ & Hr & _) Hin. unfold rect, all_len in Hr. rewrite Forall_forall in Hr. apply (Hr _ Hin). Qed.

Lemma good_all_len a : good a -> all_len (slen a) a.
Proof. intros (_ & Hr & _). exact Hr. Qed.

(** ** list facts *)
Lemma zrange_aux_prog s n : zrange_aux s n = prog s 1 n.
Proof. revert s; induction n as [|n IH]; intros s; [reflexivity|]. cbn [zrange_aux prog]. now rewrite IH. Qed.

Lemma gather_zrange {A} (l : list A) lo hi : 0 <= lo -> lo <= hi -> hi <= zlen l -> gather l (zrange lo hi) = msub l lo hi.
Proof.
  intros H0 H1 H2. unfold zrange, msub. rewrite zrange_aux_prog. apply gather_prog_sub; lia.
Qed.

Lemma gather_flat_map {A I} (l : list A) (f : I -> list Z) js : gather l (flat_map f js) = flat_map (fun j => gather l (f j)) js.
Proof. induction js as [|j js IH]; [reflexivity|]. cbn [flat_map]. now rewrite gather_app, IH. Qed.

Lemma zget_ssub s j : 0 <= j < zlen s -> zget s j = ssub s j (j + 1).
Proof.
  intros Hj. change (ssub s j (j + 1)) with (msub s j (j + 1)). rewrite <- (gather_zrange s j (j + 1)) by lia.
  unfold zrange. replace (Z.to_nat (j + 1 - j)) with 1%nat by lia. cbn [zrange_aux]. rewrite gather_cons, gather_nil, app_nil_r. reflexivity.
Qed.

Lemma mapMr_ok {A B} (f : A -> res B) (h : A -> B) l : (forall x, In x l -> f x = Ok (h x)) -> mapMr f l = Ok (map h l).
Proof.
  induction l as [|x l IH]; intros H; [reflexivity|]. cbn [mapMr map]. rewrite (H x (or_introl eq_refl)). cbn [bind].
  rewrite IH by (intros y Hy; apply H; right; exact Hy). reflexivity.
Qed.

Lemma np_take_ok n idx a : Forall (fun i => 0 <= i < n) idx -> np_take n idx a = Ok (map_rows (fun s => gather s idx) a).
Proof.
  intros H. unfold np_take. rewrite (mapMr_ok (np_index n) (fun i => i)).
  - rewrite map_id. reflexivity.
  - intros i Hi. rewrite Forall_forall in H. specialize (H i Hi). unfold np_index.
    replace (i <? - n) with false by lia. replace (i >=? n) with false by lia. replace (i <? 0) with false by lia. reflexivity.
Qed.

Lemma concatR_ok {I} (F : I -> res (list Z)) (f : I -> list Z) l :
  (forall i, In i l -> F i = Ok (f i)) -> concatR (map F l) = Ok (flat_map f l).
Proof.
  induction l as [|i l IH]; intros H; [reflexivity|].
  cbn [map concatR fold_right flat_map]. fold (concatR (map F l)).
  rewrite (H i (or_introl eq_refl)), IH by (intros j Hj; apply H; right; exact Hj). reflexivity.
Qed.

Lemma concatR_err {I} (F : I -> res (list Z)) e l :
  (forall i, In i l -> (exists s, F i = Ok s) \/ F i = Err e) -> (exists i, In i l /\ F i = Err e) ->
  concatR (map F l) = Err e.
Proof.
  induction l as [|i l IH]; intros Hall (j & Hj & Ej); [contradiction|].
  cbn [map concatR fold_right]. fold (concatR (map F l)).
  destruct (Hall i (or_introl eq_refl)) as [(s & Es)|Ee].
  - rewrite Es. cbn [bind]. destruct Hj as [<-|Hj]; [congruence|].
    rewrite IH; [reflexivity|intros x Hx; apply Hall; right; exact Hx|exists j; auto].
  - rewrite Ee. reflexivity.
Qed.

Lemma seq_char_spec s i : seq_char s i =
  if (i <? - zlen s) || (i >=? zlen s) then Err E_Index else Ok (ssub s (norm_idx (zlen s) i) (norm_idx (zlen s) i + 1)).
Proof.
  unfold seq_char, norm_idx. pose proof (zlen_nonneg s) as Hn.
  destruct ((i <? - zlen s) || (i >=? zlen s)) eqn:E.
  - replace (py_getitem s i) with (@None Z); [reflexivity|]. symmetry. apply py_getitem_none. lia.
  - unfold py_getitem. set (j := if i <? 0 then i + zlen s else i).
    assert (Hj : 0 <= j < zlen s) by (unfold j; destruct (i <? 0) eqn:E0; lia).
    replace ((j <? 0) || (j >=? zlen s)) with false by lia.
    rewrite <- (zget_ssub s j Hj). unfold zget. replace (j <? 0) with false by lia.
    destruct (nth_error s (Z.to_nat j)) eqn:En; [reflexivity|].
    apply nth_error_None in En. unfold zlen in Hj. lia.
Qed.

Lemma mapMr_mapM {A B} (f : A -> res B) l : mapMr f l = mapM f l.
Proof. induction l as [|x l IH]; [reflexivity|]. cbn [mapMr mapM]. now rewrite IH. Qed.

Lemma d_add_eq a b : d_add a b = if negb (zlen a =? zlen b) then Err E_Value else bind (s_add_named a b) d_make.
Proof. unfold d_add, s_add_named. rewrite mapMr_mapM. reflexivity. Qed.

Lemma good_sub a b : good a -> b <> [] -> (forall x, In x b -> In x a) -> NoDup (map fst b) -> good b.
Proof.
  intros Ha Hne Hsub Hnd. split; [exact Hne|]. split; [|exact Hnd]. apply (all_len_rect (slen a)); [exact Hne|].
  apply Forall_forall. intros nr Hin. apply (good_len a nr Ha (Hsub _ Hin)).
Qed.

Lemma find_row_In' x a s : find_row x a = Some s -> In (x, s) a.
Proof.
  unfold find_row. induction a as [|[n s0] t IH]; [discriminate|]. cbn [filter fst].
  destruct (name_eqb n x) eqn:E.
  - intros H. injection H as <-. left. f_equal. apply name_eqb_eq, E.
  - intros H. right. apply IH, H.
Qed.

Lemma uniform_app g1 g2 : uniform g1 -> uniform g2 -> uniform (fun s => g1 s ++ g2 s).
Proof. intros H1 H2 s1 s2 H. rewrite !zlen_app. now rewrite (H1 s1 s2 H), (H2 s1 s2 H). Qed.

(** the boolean-mask selection of [get_degapped_relative_to] *)
Lemma ssub_single s p d : (p < length s)%nat -> ssub s (Z.of_nat p) (Z.of_nat p + 1) = [nth p s d].
Proof.
  intros H. unfold ssub. replace (Z.to_nat (Z.of_nat p + 1 - Z.of_nat p)) with 1%nat by lia. rewrite Nat2Z.id.
  rewrite (skipn_nth_cons s p d H). reflexivity.
Qed.

Lemma mask_keep_cols (g : Z -> bool) (L : list Z) : forall n p, (p + n <= length L)%nat ->
  flat_map (fun i => ssub L i (i + 1)) (filter g (zrange_aux (Z.of_nat p) n))
  = mask_keep (firstn n (skipn p L)) (map g (zrange_aux (Z.of_nat p) n)).
Proof.
  induction n as [|n IH]; intros p H; [reflexivity|].
  cbn [zrange_aux filter map]. destruct L as [|x0 L0] eqn:ES; [cbn [length] in H; lia|]. rewrite <- ES in *.
  rewrite (skipn_nth_cons L p x0) by lia. cbn [firstn mask_keep].
  replace (Z.of_nat p + 1) with (Z.of_nat (S p)) by lia.
  specialize (IH (S p) ltac:(lia)).
  destruct (g (Z.of_nat p)); cbn [flat_map app].
  - rewrite IH. replace (Z.of_nat (S p)) with (Z.of_nat p + 1) by lia. rewrite (ssub_single L p x0) by lia. reflexivity.
  - exact IH.
Qed.

Lemma map_znth_zrange (f : Z -> bool) ref : forall pre,
  map (fun i => f (znth 0 (pre ++ ref) i)) (zrange_aux (Z.of_nat (length pre)) (length ref)) = map f ref.
Proof.
  induction ref as [|c ref IH]; intros pre; [reflexivity|]. cbn [length zrange_aux map]. f_equal.
  - unfold znth. replace (Z.of_nat (length pre) <? 0) with false by lia. rewrite Nat2Z.id. rewrite app_nth2 by lia. now rewrite Nat.sub_diag.
  - specialize (IH (pre ++ [c])). rewrite <- app_assoc in IH. cbn [app] in IH. rewrite app_length in IH. cbn [length] in IH.
    replace (Z.of_nat (length pre) + 1) with (Z.of_nat (length pre + 1)) by lia. exact IH.
Qed.

Lemma degap_mask_spec s ref : zlen s = zlen ref ->
  mask_keep s (map (fun c => negb (c =? GAPC)) ref) = take_cols (nongap_cols ref) s.
Proof.
  intros Hl. unfold take_cols, nongap_cols, zrange. rewrite Z.sub_0_r. unfold zlen. rewrite Nat2Z.id.
  pose proof (mask_keep_cols (fun i => negb (znth 0 ref i =? GAPC)) s (length ref) 0 ltac:(unfold zlen in Hl; lia)) as Hk.
  change (Z.of_nat 0) with 0 in Hk. rewrite Hk.
  cbn [skipn]. rewrite firstn_all2 by (unfold zlen in Hl; lia).
  f_equal. symmetry. apply (map_znth_zrange (fun c => negb (c =? GAPC)) ref []).
Qed.

(** * every method of the array-backed class is the string operation *)

Definition arr_ok (vr : variant) (k : kind) (a : salign) (o : aop) : Prop :=
  let n := slen a in
  match o with
  | OAddRows other => NoDup (map fst other) /\ exists m, Forall (fun nr => zlen (snd nr) = m) other
  | OTakePos cols negate => negate = true -> v_negate_ok vr = true \/ k = KOther
  | OTakeSeqs arg negate => negate = false -> NoDup (norm_names arg)
  | ORename mp => NoDup (map (rename_of mp) (map fst a))
  | OFilter _ m => 0 < m
  | OSample locs m => 0 < m /\ Forall (fun l => 0 <= l /\ (l + 1) * m <= n) locs
  | OToRna | OToDna => k <> KOther
  | _ => True
  end.

Lemma d_map_eq f a : d_map f a = map_rows f a.
Proof. reflexivity. Qed.

Lemma flat_map_map' {A B C} (f : B -> list C) (g : A -> B) l : flat_map f (map g l) = flat_map (fun x => f (g x)) l.
Proof. induction l as [|x l IH]; [reflexivity|]. cbn [map flat_map]. now rewrite IH. Qed.

Lemma flat_map_ext_in {A B} (f g : A -> list B) l : (forall x, In x l -> f x = g x) -> flat_map f l = flat_map g l.
Proof.
  induction l as [|x l IH]; intros H; [reflexivity|]. cbn [flat_map]. rewrite (H x (or_introl eq_refl)), IH; [reflexivity|].
  intros y Hy. apply H. right. exact Hy.
Qed.

Lemma keep_make k X : good X -> keep_kind k (d_make X) = Ok (k, X).
Proof. intros H. unfold keep_kind. rewrite (d_make_ok X H). reflexivity. Qed.

Lemma flat_map_srows {B} (f : list Z -> list B) (a : salign) : flat_map f (srows a) = flat_map (fun nr => f (snd nr)) a.
Proof. unfold srows. induction a as [|x a IH]; [reflexivity|]. cbn [map flat_map]. now rewrite IH. Qed.

Lemma all_len_combine m names : forall rows, Forall (fun t => zlen t = m) rows -> all_len m (combine names rows).
Proof.
  induction names as [|n names IH]; intros rows H; [constructor|]. destruct rows as [|t rows]; [constructor|].
  pose proof (Forall_inv H) as Ht. pose proof (Forall_inv_tail H) as Hrest. cbn [combine]. constructor; [exact Ht|]. apply IH. exact Hrest.
Qed.

Lemma zlen_map_rows g (a : salign) : zlen (map_rows g a) = zlen a.
Proof. unfold map_rows. apply zlen_map. Qed.

Lemma zrange_nonempty lo hi : lo < hi -> zrange lo hi <> [].
Proof. intros H. unfold zrange. destruct (Z.to_nat (hi - lo)) eqn:E; [lia|discriminate]. Qed.

Lemma d_slice_ok k a x y : good a ->
  keep_kind k (d_getitem_slice a x y 1) = Ok (k, map_rows (fun s => py_slice s x y 1) a) /\
  good (map_rows (fun s => py_slice s x y 1) a).
Proof.
  intros Ha. assert (G : good (map_rows (fun s => py_slice s x y 1) a)) by (apply good_map_rows; [apply uniform_py_slice; lia|exact Ha]).
  split; [|exact G]. unfold d_getitem_slice. change (1 =? 0) with false. cbv iota. apply (keep_make k _ G).
Qed.

Lemma d_getitem_slice_ok a x y : good a -> d_getitem_slice a x y 1 = Ok (map_rows (fun s => py_slice s x y 1) a).
Proof.
  intros Ha. unfold d_getitem_slice. change (1 =? 0) with false. cbv iota. apply d_make_ok.
  apply good_map_rows; [apply uniform_py_slice; lia|exact Ha].
Qed.

Theorem d_apply_spec vr k a o : good a -> arr_ok vr k a o ->
  d_apply vr k a o = spec_apply k a o /\
  match spec_apply k a o with Ok ka => good (snd ka) | Err _ => True end.
Proof.
  intros Ha Hok. pose proof Ha as (Hne & Hr & Hnd). pose proof (good_all_len a Ha) as Hal.
  pose proof (slen_nonneg a) as Hn0.
  destruct o as [x y|x y c|i| | |other|x y x' y'|cols negate|arg negate|p m|x|locs m| | | |w st i|mp];
    cbn [arr_ok] in Hok; cbn [d_apply spec_apply].
  - (* slice *)
    destruct (d_slice_ok k a x y Ha) as [E G]. rewrite E. split; [reflexivity|exact G].
  - (* stride *)
    unfold d_getitem_slice. destruct (c =? 0) eqn:Ec; [split; [reflexivity|exact I]|].
    assert (G : good (map_rows (fun s => py_slice s x y c) a)) by (apply good_map_rows; [apply uniform_py_slice; lia|exact Ha]).
    rewrite d_map_eq, (keep_make k _ G). split; [reflexivity|exact G].
  - (* index *)
    unfold d_getitem_int, np_index. change (d_len a) with (slen a).
    destruct ((i <? - slen a) || (i >=? slen a)) eqn:Ei; [split; [reflexivity|exact I]|]. cbn [bind].
    set (j := if i <? 0 then i + slen a else i).
    assert (Hj : 0 <= j < slen a) by (unfold j; destruct (i <? 0) eqn:E0; lia).
    assert (E : d_map (fun s => zget s j) a = map_rows (fun s => ssub s j (j + 1)) a).
    { apply (map_rows_ext_len _ _ (slen a) a Hal). intros s Hs. apply zget_ssub. lia. }
    rewrite E.
    assert (G : good (map_rows (fun s => ssub s j (j + 1)) a)) by (apply good_map_rows; [apply uniform_ssub|exact Ha]).
    rewrite (keep_make k _ G). split; [reflexivity|exact G].
  - (* rc *)
    unfold d_rc. destruct k; cbn [nucleic_kind]; try (split; [reflexivity|exact I]).
    + assert (G : good (map_rows (rc_str KDna) a)) by (apply good_map_rows; [apply uniform_rc|exact Ha]).
      change (d_map (fun s => map (comp KDna) (rev s)) a) with (map_rows (rc_str KDna) a).
      rewrite (keep_make _ _ G). split; [reflexivity|exact G].
    + assert (G : good (map_rows (rc_str KRna) a)) by (apply good_map_rows; [apply uniform_rc|exact Ha]).
      change (d_map (fun s => map (comp KRna) (rev s)) a) with (map_rows (rc_str KRna) a).
      rewrite (keep_make _ _ G). split; [reflexivity|exact G].
  - (* aln + aln *)
    rewrite d_add_eq. replace (zlen a =? zlen a) with true by lia. cbn [negb].
    rewrite (s_add_named_self a Hnd). cbn [bind].
    assert (G : good (map_rows (fun s => s ++ s) a)) by (apply good_map_rows; [apply uniform_app; apply uniform_id|exact Ha]).
    rewrite (keep_make k _ G). split; [reflexivity|exact G].
  - (* aln + other, rows paired by name *)
    destruct Hok as (Hndo & mm & Hrows).
    destruct other as [|o0 ot] eqn:Eo.
    { cbn [d_make keep_kind bind]. destruct a as [|x a0]; [congruence|]. split; [reflexivity|exact I]. }
    rewrite <- Eo in *.
    assert (Go : good other).
    { split; [rewrite Eo; discriminate|]. split; [|exact Hndo]. apply (all_len_rect mm); [rewrite Eo; discriminate|exact Hrows]. }
    rewrite (d_make_ok _ Go). cbn [bind]. rewrite d_add_eq.
    destruct (zlen a =? zlen other) eqn:El; cbn [negb]; [|split; [reflexivity|exact I]].
    destruct (s_add_named a other) as [r|e] eqn:Es; cbn [bind keep_kind]; [|split; [reflexivity|exact I]].
    assert (G : good r).
    { pose proof (s_add_named_names a other r Es) as Hn.
      split; [intros ->; destruct a; [congruence|discriminate]|]. split; [|rewrite Hn; exact Hnd].
      apply (all_len_rect (slen a + mm)).
      - intros ->. destruct a; [congruence|discriminate].
      - apply (all_len_add_named _ _ a other r Hal Hrows Es). }
    rewrite (d_make_ok _ G). cbn [bind]. split; [reflexivity|exact G].
  - (* aln[x:y] + aln[x':y'] *)
    rewrite (d_getitem_slice_ok a (Some x) (Some y) Ha). cbn [bind].
    rewrite (d_getitem_slice_ok a (Some x') (Some y') Ha). cbn [bind]. rewrite d_add_eq.
    rewrite !zlen_map_rows. replace (zlen a =? zlen a) with true by lia. cbn [negb].
    rewrite (s_add_named_map_rows _ _ a Hnd). cbn [bind].
    assert (G : good (map_rows (fun s => py_slice s (Some x) (Some y) 1 ++ py_slice s (Some x') (Some y') 1) a)).
    { apply good_map_rows; [|exact Ha]. apply uniform_app; apply uniform_py_slice; lia. }
    rewrite (keep_make k _ G). split; [reflexivity|exact G].
  - (* take_positions *)
    unfold d_take_positions. destruct negate.
    + assert (E : negb (v_negate_ok vr) && match k with KOther => false | _ => true end = false).
      { destruct (Hok eq_refl) as [-> | ->]; [reflexivity|apply andb_false_r]. }
      rewrite E.
      rewrite (mapMr_ok _ (fun nr => (fst nr, drop_cols cols (snd nr)))).
      * assert (G : good (map_rows (drop_cols cols) a)) by (apply good_map_rows; [apply uniform_drop_cols|exact Ha]).
        cbn [bind]. change (map (fun nr => (fst nr, drop_cols cols (snd nr))) a) with (map_rows (drop_cols cols) a).
        rewrite (keep_make k _ G). split; [reflexivity|exact G].
      * intros [n s] Hin. cbn [fst snd].
        rewrite (concatR_ok _ (fun i => ssub s i (i + 1))).
        -- cbn [bind]. f_equal. f_equal. unfold drop_cols. rewrite flat_map_filter. apply flat_map_ext.
           intros i. now destruct (zmem i cols).
        -- intros i Hi. apply filter_In in Hi. destruct Hi as [Hi _]. apply zrange_In in Hi.
           rewrite seq_char_spec. replace (i <? - zlen s) with false by lia. replace (i >=? zlen s) with false by lia.
           cbn [orb]. unfold norm_idx. replace (i <? 0) with false by lia. reflexivity.
    + destruct (existsb (fun i => (i <? - slen a) || (i >=? slen a)) cols) eqn:Ex.
      * (* some index out of range: the first row already raises *)
        destruct a as [|[n0 s0] t]; [congruence|].
        pose proof (good_len _ (n0, s0) Ha (or_introl eq_refl)) as H0. cbn [snd] in H0.
        cbn [mapMr fst snd].
        rewrite (concatR_err _ E_Index).
        -- split; [reflexivity|exact I].
        -- intros i _. rewrite seq_char_spec. destruct ((i <? - zlen s0) || (i >=? zlen s0)); [right; reflexivity|left; eexists; reflexivity].
        -- apply existsb_exists in Ex. destruct Ex as (i & Hi & Hb). exists i. split; [exact Hi|].
           rewrite seq_char_spec, H0. rewrite Hb. reflexivity.
      * set (cols' := map (fun i => if i <? 0 then i + slen a else i) cols).
        rewrite (mapMr_ok _ (fun nr => (fst nr, take_cols cols' (snd nr)))).
        -- assert (G : good (map_rows (take_cols cols') a)) by (apply good_map_rows; [apply uniform_take_cols|exact Ha]).
           cbn [bind]. change (map (fun nr => (fst nr, take_cols cols' (snd nr))) a) with (map_rows (take_cols cols') a).
           rewrite (keep_make k _ G). split; [reflexivity|exact G].
        -- intros [n s] Hin. cbn [fst snd]. pose proof (good_len a _ Ha Hin) as Hs. cbn [snd] in Hs.
           rewrite (concatR_ok _ (fun i => ssub s (norm_idx (slen a) i) (norm_idx (slen a) i + 1))).
           ++ cbn [bind]. f_equal. f_equal. unfold take_cols, cols'. rewrite flat_map_map'. reflexivity.
           ++ intros i Hi. rewrite seq_char_spec, Hs.
              assert (Hb : (i <? - slen a) || (i >=? slen a) = false).
              { destruct ((i <? - slen a) || (i >=? slen a)) eqn:Eb; [|reflexivity].
                assert (existsb (fun i => (i <? - slen a) || (i >=? slen a)) cols = true) by (apply existsb_exists; exists i; auto).
                congruence. }
              rewrite Hb. reflexivity.
  - (* take_seqs *)
    unfold d_take_seqs. cbv zeta. set (names := norm_names arg) in *. destruct negate.
    + destruct (filter (fun nr => negb (nmem (fst nr) names)) a) as [|r0 r] eqn:Ef; [split; [reflexivity|exact I]|].
      assert (G : good (r0 :: r)).
      { apply (good_sub a); [exact Ha|discriminate| |].
        - intros z Hz. rewrite <- Ef in Hz. apply filter_In in Hz. apply Hz.
        - rewrite <- Ef. apply NoDup_map_filter. exact Hnd. }
      rewrite (keep_make k _ G). split; [reflexivity|exact G].
    + change d_find with find_row.
      destruct (forallb (fun x => match find_row x a with Some _ => true | None => false end) names) eqn:Ef; [|split; [reflexivity|exact I]].
      destruct names as [|x0 t] eqn:En; [split; [reflexivity|exact I]|]. rewrite <- En in *.
      set (b := flat_map (fun x => match find_row x a with Some s => [(x, s)] | None => [] end) names).
      assert (Hfst : map fst b = names).
      { subst b. clear -Ef. induction names as [|x l IH]; [reflexivity|]. cbn [forallb] in Ef. apply andb_prop in Ef.
        destruct Ef as [Hx Ht]. cbn [flat_map]. rewrite map_app, (IH Ht). destruct (find_row x a); [reflexivity|discriminate]. }
      assert (G : good b).
      { apply (good_sub a); [exact Ha| | |].
        - intros Eb. rewrite Eb in Hfst. rewrite En in Hfst. discriminate.
        - intros [n s] Hin. subst b. apply in_flat_map in Hin. destruct Hin as (x & _ & Hx).
          destruct (find_row x a) as [s0|] eqn:E0; [|contradiction]. destruct Hx as [Hx|[]]. injection Hx as <- <-.
          apply find_row_In', E0.
        - rewrite Hfst. apply Hok. reflexivity. }
      rewrite (keep_make k _ G). split; [reflexivity|exact G].
  - (* filtered *)
    unfold d_filtered. replace (m <=? 0) with false by lia. change (d_len a) with (slen a).
    set (c := slen a / m).
    assert (Hc : 0 <= c /\ c * m <= slen a).
    { split; [apply Z.div_pos; lia|]. unfold c. pose proof (Z.mul_div_le (slen a) m Hok). lia. }
    set (P := fun j => s_eval_pred p (motif_col m a j)).
    assert (Hblock : forall j, In j (zrange 0 c) -> eval_pred p (d_block m a j) = P j).
    { intros j Hj. apply zrange_In in Hj. unfold P, d_block, motif_col. rewrite flat_map_srows.
      change (eval_pred p) with (s_eval_pred p). f_equal. apply flat_map_ext_in.
      intros nr Hin. pose proof (good_len a nr Ha Hin) as Hs.
      replace (j * m + m) with ((j + 1) * m) by lia. apply gather_zrange; nia. }
    assert (Eidx : flat_map (fun j => if eval_pred p (d_block m a j) then zrange (m * j) (m * j + m) else []) (zrange 0 c)
                   = flat_map (fun j => zrange (m * j) (m * j + m)) (kept_motifs p m a)).
    { unfold kept_motifs. fold c. fold P. rewrite flat_map_filter. apply flat_map_ext_in.
      intros j Hj. rewrite (Hblock j Hj). reflexivity. }
    rewrite Eidx. fold c.
    destruct (kept_motifs p m a) as [|j0 js] eqn:Ek; [split; [reflexivity|exact I]|].
    assert (Hkept : forall j, In j (j0 :: js) -> 0 <= j < c).
    { intros j Hj. rewrite <- Ek in Hj. unfold kept_motifs in Hj. apply filter_In in Hj. destruct Hj as [Hj _].
      apply zrange_In in Hj. fold c in Hj. lia. }
    set (idx := flat_map (fun j => zrange (m * j) (m * j + m)) (j0 :: js)).
    assert (Hnz : idx <> []).
    { unfold idx. cbn [flat_map]. intros E0. apply app_eq_nil in E0. destruct E0 as [E0 _].
      revert E0. apply zrange_nonempty. lia. }
    destruct idx as [|i0 idx'] eqn:Eidx'; [congruence|]. rewrite <- Eidx'.
    rewrite np_take_ok.
    2:{ apply Forall_forall. intros i Hi. unfold idx in Hi. apply in_flat_map in Hi. destruct Hi as (j & Hj & Hi).
        apply zrange_In in Hi. specialize (Hkept j Hj). nia. }
    cbn [bind].
    assert (E : map_rows (fun s => gather s idx) a = map_rows (take_motifs m (j0 :: js)) a).
    { apply (map_rows_ext_len _ _ (slen a) a Hal). intros s Hs. unfold idx, take_motifs. rewrite gather_flat_map.
      apply flat_map_ext_in. intros j Hj. specialize (Hkept j Hj).
      replace (m * j) with (j * m) by lia. replace (j * m + m) with ((j + 1) * m) by lia. apply gather_zrange; nia. }
    rewrite E.
    assert (G : good (map_rows (take_motifs m (j0 :: js)) a)) by (apply good_map_rows; [apply uniform_take_motifs|exact Ha]).
    rewrite (keep_make k _ G). split; [reflexivity|exact G].
  - (* get_degapped_relative_to *)
    unfold d_degap_rel. change d_find with find_row.
    destruct (find_row x a) as [ref|] eqn:Ef; [|split; [reflexivity|exact I]].
    pose proof (good_len a _ Ha (find_row_In' _ _ _ Ef)) as Href. cbn [snd] in Href.
    assert (E : d_map (fun s => mask_keep s (map (fun c => negb (c =? GAPC)) ref)) a = map_rows (take_cols (nongap_cols ref)) a).
    { apply (map_rows_ext_len _ _ (slen a) a Hal). intros s Hs. apply degap_mask_spec. lia. }
    rewrite E.
    assert (G : good (map_rows (take_cols (nongap_cols ref)) a)) by (apply good_map_rows; [apply uniform_take_cols|exact Ha]).
    rewrite (keep_make k _ G). split; [reflexivity|exact G].
  - (* sample *)
    destruct Hok as [Hm Hl]. unfold d_sample. change (d_len a) with (slen a).
    set (locations := if 1 <? m then flat_map (fun l => zrange (l * m) (l * m + m)) locs else locs).
    assert (Hloc : Forall (fun i => 0 <= i < slen a) locations).
    { apply Forall_forall. intros i Hi. rewrite Forall_forall in Hl. unfold locations in Hi. destruct (1 <? m) eqn:E1.
      - apply in_flat_map in Hi. destruct Hi as (l & Hlin & Hi). apply zrange_In in Hi. specialize (Hl l Hlin). nia.
      - specialize (Hl i Hi). nia. }
    rewrite (np_take_ok _ _ a Hloc). cbn [bind].
    assert (E : map_rows (fun s => gather s locations) a = map_rows (take_motifs m locs) a).
    { apply (map_rows_ext_len _ _ (slen a) a Hal). intros s Hs. unfold locations, take_motifs. rewrite Forall_forall in Hl.
      destruct (1 <? m) eqn:E1.
      - rewrite gather_flat_map. apply flat_map_ext_in. intros l Hlin. specialize (Hl l Hlin).
        replace (l * m + m) with ((l + 1) * m) by lia. apply gather_zrange; nia.
      - assert (m = 1) by lia. subst m. unfold gather. apply flat_map_ext_in. intros l Hlin. specialize (Hl l Hlin).
        replace (l * 1) with l by lia. replace ((l + 1) * 1) with (l + 1) by lia. apply zget_ssub. lia. }
    rewrite E.
    assert (G : good (map_rows (take_motifs m locs) a)) by (apply good_map_rows; [apply uniform_take_motifs|exact Ha]).
    rewrite (keep_make k _ G). split; [reflexivity|exact G].
  - (* to_rna *)
    unfold d_to_kind. destruct k; try congruence.
    + assert (G : good (map_rows t2u_str a)) by (apply good_map_rows; [apply uniform_map|exact Ha]).
      change (d_map (map t2u) a) with (map_rows t2u_str a). rewrite (d_make_ok _ G). cbn [bind]. split; [reflexivity|exact G].
    + split; [reflexivity|exact Ha].
  - (* to_dna *)
    unfold d_to_kind. destruct k; try congruence.
    + split; [reflexivity|exact Ha].
    + assert (G : good (map_rows u2t_str a)) by (apply good_map_rows; [apply uniform_map|exact Ha]).
      change (d_map (map u2t) a) with (map_rows u2t_str a). rewrite (d_make_ok _ G). cbn [bind]. split; [reflexivity|exact G].
  - (* to_type *)
    split; [reflexivity|exact Ha].
  - (* sliding_windows *)
    change (d_len a) with (slen a). change (s_n_windows (slen a) w st) with (n_windows (slen a) w st).
    destruct ((0 <=? i) && (i <? n_windows (slen a) w st) && (0 <? w) && (0 <? st)) eqn:Ec; [|split; [reflexivity|exact I]].
    apply andb_prop in Ec. destruct Ec as [Ec H4]. apply andb_prop in Ec. destruct Ec as [Ec H3]. apply andb_prop in Ec. destruct Ec as [H1 H2].
    destruct (window_in_range (slen a) w st i ltac:(lia) ltac:(lia) ltac:(lia) ltac:(lia)) as [B1 B2].
    destruct (d_slice_ok k a (Some (i * st)) (Some (i * st + w)) Ha) as [E G]. rewrite E.
    assert (E2 : map_rows (fun s => py_slice s (Some (i * st)) (Some (i * st + w)) 1) a = map_rows (fun s => ssub s (i * st) (i * st + w)) a).
    { apply (map_rows_ext_len _ _ (slen a) a Hal). intros s Hs. apply py_slice_msub; lia. }
    rewrite E2 in *. split; [reflexivity|exact G].
  - (* rename_seqs *)
    assert (G : good (map (fun nr => (rename_of mp (fst nr), snd nr)) a)).
    { split; [destruct a; [congruence|discriminate]|]. split; [|rewrite map_map; cbn [fst]; rewrite <- map_map; exact Hok].
      apply (all_len_rect (slen a)); [destruct a; [congruence|discriminate]|].
      unfold all_len in *. rewrite Forall_map. exact Hal. }
    rewrite (keep_make k _ G). split; [reflexivity|exact G].
Qed.

(** ** chains, and the two classes against each other *)
Fixpoint arr_chain_ok (vr : variant) (st : kind * salign) (ops : list aop) : Prop :=
  match ops with
  | [] => True
  | o :: t => arr_ok vr (fst st) (snd st) o /\ arr_chain_ok vr (spec_keep st o) t
  end.

Lemma good_spec_keep (st : kind * salign) o : good (snd st) ->
  match spec_apply (fst st) (snd st) o with Ok ka => good (snd ka) | Err _ => True end -> good (snd (spec_keep st o)).
Proof. intros Hg G. unfold spec_keep. destruct (spec_apply (fst st) (snd st) o); [exact G|exact Hg]. Qed.

Theorem d_run_spec vr ops : forall st : kind * dalign, good (snd st) -> arr_chain_ok vr st ops ->
  d_run vr st ops = spec_run ops st /\ good (snd (spec_run ops st)).
Proof.
  induction ops as [|o t IH]; intros st Hg Hc.
  - split; [reflexivity|exact Hg].
  - cbn [arr_chain_ok] in Hc. destruct Hc as [Hok Hc].
    unfold d_run, spec_run. cbn [fold_left]. fold (d_run vr (d_keep vr st o) t). fold (spec_run t (spec_keep st o)).
    destruct (d_apply_spec vr (fst st) (snd st) o Hg Hok) as [E G].
    assert (Ek : d_keep vr st o = spec_keep st o).
    { unfold d_keep. rewrite E. reflexivity. }
    rewrite Ek. apply IH; [|exact Hc].
    exact (good_spec_keep st o Hg G).
Qed.

Lemma good_astr a : AlnWF a -> good (astr a).
Proof.
  intros (Hne & _ & Hr & Hnd). split; [|split; [exact Hr|rewrite astr_names; exact Hnd]]. unfold astr. destruct a; [congruence|discriminate].
Qed.

(** the array-backed and the annotatable class give identical results: same
    rows, same moltype, or the same exception class *)
Theorem classes_agree_lemma vr a o : AlnWF a ->
  op_ok vr (al_kind a) (astr a) o -> arr_ok vr (al_kind a) (astr a) o ->
  match al_apply vr a o, d_apply vr (al_kind a) (astr a) o with
  | Ok a', Ok kd => al_kind a' = fst kd /\ astr a' = snd kd
  | Err e, Err e' => e = e'
  | _, _ => False
  end.
Proof.
  intros Ha H1 H2. pose proof (al_apply_spec vr a o Ha H1) as S1.
  destruct (d_apply_spec vr (al_kind a) (astr a) o (good_astr a Ha) H2) as [S2 _]. rewrite S2.
  destruct (spec_apply (al_kind a) (astr a) o) as [ks|e].
  - destruct S1 as (a' & E & _ & K & S). rewrite E. auto.
  - rewrite S1. reflexivity.
Qed.

Example arr_chain_example :
  good witness_rows /\
  arr_chain_ok repaired (KDna, witness_rows)
    [OSliceStep None None (-2); ORc; OTakePos [-1; 0] false; OFilter (PGapFrac [45; 63] 1 2) 1; OAddSelf; OSample [1; 0] 2;
     OAddRows [([98], [65]); ([97], [45])]; ORename [([98], [97; 50])]; OTakeSeqs (NStr [97]) true].
Proof.
  split.
  - split; [discriminate|]. split; [repeat constructor|cbn; nodup_tac].
  - cbn [arr_chain_ok].
    repeat match goal with |- context [spec_keep (?k, ?r) ?o] =>
      let v := eval vm_compute in (spec_keep (k, r) o) in change (spec_keep (k, r) o) with v end.
    cbn [arr_ok fst snd]. cbn.
    repeat split; try lia; try discriminate; try (intros; discriminate); try nodup_tac;
      try (exists 1; repeat constructor); repeat constructor; try lia.
Qed.

(** * read-only methods of the annotatable class are functions of the strings *)

Lemma strs_srows a : AlnWF a -> map (fun nr => row_gapped (snd nr)) a = srows (astr a).
Proof.
  intros Ha. unfold srows, astr. rewrite map_map. apply map_ext_in. intros [n r] Hin. cbn [snd].
  apply row_gapped_spec. apply (AlnWF_In a n r Ha Hin).
Qed.

Lemma ro_names a : al_names a = s_names (astr a).
Proof. unfold al_names, s_names, astr. rewrite map_map. reflexivity. Qed.

Lemma ro_num_seqs a : al_num_seqs a = zlen (astr a).
Proof. unfold al_num_seqs. now rewrite zlen_astr. Qed.

Lemma ro_get_gapped_seq a n : AlnWF a -> al_get_gapped_seq a n = s_get_gapped_seq (astr a) n.
Proof.
  intros Ha. unfold al_get_gapped_seq, s_get_gapped_seq. rewrite find_row_astr.
  destruct (find_orow n a) as [r|] eqn:Ef; [|reflexivity]. cbn [option_map]. f_equal.
  apply row_gapped_spec. apply (AlnWF_In a n r Ha (find_orow_In _ _ _ Ef)).
Qed.

Lemma ro_positions a : AlnWF a -> al_positions a = s_positions (astr a).
Proof.
  intros Ha. unfold al_positions, s_positions. rewrite (strs_srows a Ha), (al_len_slen a Ha).
  apply map_ext_in. intros j Hj. apply zrange_In in Hj. rewrite !flat_map_srows. apply flat_map_ext_in.
  intros nr Hin. apply zget_ssub. rewrite (good_len _ nr (good_astr a Ha) Hin). lia.
Qed.

Lemma ro_gap_array a : AlnWF a -> al_gap_array a = s_gap_array (astr a).
Proof.
  intros Ha. unfold al_gap_array, s_gap_array, astr. rewrite map_map. apply map_ext_in. intros [n r] Hin. cbn [snd].
  f_equal. apply row_gapped_spec. apply (AlnWF_In a n r Ha Hin).
Qed.

Lemma znth_map_bool (f : Z -> bool) s j : 0 <= j < zlen s -> znth false (map f s) j = f (znth 0 s j).
Proof.
  intros Hj. unfold znth. replace (j <? 0) with false by lia.
  rewrite (nth_indep (map f s) false (f 0)) by (rewrite map_length; unfold zlen in Hj; lia). apply map_nth.
Qed.

Lemma ro_count_gaps_per_pos a : AlnWF a -> al_count_gaps_per_pos a = s_count_gaps_per_pos (astr a).
Proof.
  intros Ha. unfold al_count_gaps_per_pos, s_count_gaps_per_pos. rewrite (ro_gap_array a Ha), (al_len_slen a Ha).
  apply map_ext_in. intros j Hj. apply zrange_In in Hj.
  pose proof (good_astr a Ha) as Hg. unfold s_gap_array, srows.
  assert (H : forall l : salign, (forall nr, In nr l -> zlen (snd nr) = slen (astr a)) ->
                zlen (filter (fun row => znth false row j) (map (fun nr => map is_gapch (snd nr)) l))
                = zlen (filter (fun s => is_gapch (znth 0 s j)) (map snd l))).
  { induction l as [|nr l IH]; intros Hl; [reflexivity|]. cbn [map filter].
    rewrite znth_map_bool by (rewrite (Hl nr (or_introl eq_refl)); lia).
    destruct (is_gapch (znth 0 (snd nr) j)); rewrite ?zlen_cons'; rewrite IH; auto; intros x Hx; apply Hl; right; exact Hx. }
  apply H. intros nr Hin. apply (good_len _ nr Hg Hin).
Qed.

Lemma ro_is_ragged a : AlnWF a -> al_is_ragged a = false.
Proof.
  intros Ha. pose proof Ha as (Hne & _ & _). destruct a as [|[n r] t] eqn:Ea; [congruence|]. rewrite <- Ea in *.
  unfold al_is_ragged. rewrite Ea. rewrite <- Ea. apply negb_false_iff. apply forallb_forall. intros [n' r'] Hin. cbn [snd].
  destruct (AlnWF_In a n' r' Ha Hin) as (W & _ & L).
  destruct (AlnWF_In a n r Ha ltac:(rewrite Ea; left; reflexivity)) as (W0 & _ & L0).
  rewrite <- (zlen_row_str r' W), <- (zlen_row_str r W0). lia.
Qed.

Lemma filter_fill k : forall d, residues k = zlen d ->
  filter (fun c => negb (is_gapch c)) (fill k d) = filter (fun c => negb (is_gapch c)) d.
Proof.
  induction k as [|[] k IH]; intros d H; cbn [residues] in H.
  - symmetry in H. apply zlen_0_nil in H. subst. reflexivity.
  - destruct d as [|x d]; unfold zlen in H; cbn [length] in H.
    + pose proof (residues_nonneg' k). lia.
    + cbn [fill filter]. rewrite IH by (unfold zlen; lia). reflexivity.
  - cbn [fill filter]. change (negb (is_gapch GAPC)) with false. cbv iota. apply IH. exact H.
Qed.

Lemma ro_degap a : AlnWF a -> al_degap a = s_degap (astr a).
Proof.
  intros Ha. unfold al_degap, s_degap, map_rows, astr. rewrite map_map. apply map_ext_in. intros [n r] Hin. cbn [fst snd].
  f_equal. destruct (AlnWF_In a n r Ha Hin) as ((Hm & Hd & Hp) & _ & _). unfold row_str. symmetry. apply filter_fill.
  rewrite <- (parent_length_residues _ Hm). exact Hp.
Qed.

(** all of them at once, for the result of any chain *)
Theorem readonly_refine_strings_lemma a : AlnWF a ->
  al_names a = s_names (astr a) /\ al_num_seqs a = zlen (astr a) /\ al_len a = slen (astr a) /\
  al_strings a = astr a /\ (forall n, al_get_gapped_seq a n = s_get_gapped_seq (astr a) n) /\
  al_positions a = s_positions (astr a) /\ al_gap_array a = s_gap_array (astr a) /\
  al_count_gaps_per_pos a = s_count_gaps_per_pos (astr a) /\ al_is_ragged a = false /\
  al_degap a = s_degap (astr a).
Proof.
  intros Ha. repeat split.
  - apply ro_names. - apply ro_num_seqs. - apply al_len_slen, Ha. - apply al_strings_spec, Ha.
  - intros n. apply ro_get_gapped_seq, Ha. - apply ro_positions, Ha. - apply ro_gap_array, Ha.
  - apply ro_count_gaps_per_pos, Ha. - apply ro_is_ragged, Ha. - apply ro_degap, Ha.
Qed.

(** ** count_gaps_per_seq, variable_positions, get_lengths *)

Lemma ro_variable_positions a : AlnWF a -> al_variable_positions a = s_variable_positions (astr a).
Proof. intros Ha. unfold al_variable_positions, s_variable_positions. now rewrite (ro_positions a Ha), (al_len_slen a Ha). Qed.

Lemma ro_get_lengths canon a : AlnWF a -> al_get_lengths canon a = s_get_lengths canon (astr a).
Proof.
  intros Ha. unfold al_get_lengths, s_get_lengths, astr. rewrite map_map. apply map_ext_in. intros [n r] Hin. cbn [fst snd].
  rewrite (row_gapped_spec r); [reflexivity|]. apply (AlnWF_In a n r Ha Hin).
Qed.

Lemma filter_filter_imp {A} (p q : A -> bool) l : (forall x, In x l -> p x = true -> q x = true) ->
  filter p (filter q l) = filter p l.
Proof.
  induction l as [|x l IH]; intros H; [reflexivity|]. cbn [filter].
  destruct (q x) eqn:Eq; cbn [filter].
  - destruct (p x); rewrite IH; auto; intros y Hy; apply H; right; exact Hy.
  - destruct (p x) eqn:Ep.
    + rewrite (H x (or_introl eq_refl) Ep) in Eq. discriminate.
    + apply IH. intros y Hy. apply H. right. exact Hy.
Qed.

Lemma map_znth_zrange_gen {A} (d : A) (l : list A) : forall pre,
  map (fun i => znth d (pre ++ l) i) (zrange_aux (Z.of_nat (length pre)) (length l)) = l.
Proof.
  induction l as [|c l IH]; intros pre; [reflexivity|]. cbn [length zrange_aux map]. f_equal.
  - unfold znth. replace (Z.of_nat (length pre) <? 0) with false by lia. rewrite Nat2Z.id. rewrite app_nth2 by lia.
    now rewrite Nat.sub_diag.
  - specialize (IH (pre ++ [c])). rewrite <- app_assoc in IH. cbn [app] in IH. rewrite app_length in IH. cbn [length] in IH.
    replace (Z.of_nat (length pre) + 1) with (Z.of_nat (length pre + 1)) by lia. exact IH.
Qed.

Lemma zlen_filter_map {A B} (f : B -> bool) (g : A -> B) l : zlen (filter f (map g l)) = zlen (filter (fun x => f (g x)) l).
Proof.
  induction l as [|x l IH]; [reflexivity|]. cbn [map filter]. destruct (f (g x)); rewrite ?zlen_cons'; rewrite IH; reflexivity.
Qed.

Lemma count_true_zrange (row : list bool) :
  zlen (filter (fun j => znth false row j) (zrange 0 (zlen row))) = zlen (filter (fun b => b) row).
Proof.
  unfold zrange. rewrite Z.sub_0_r. replace (Z.to_nat (zlen row)) with (length row) by (unfold zlen; lia).
  rewrite <- (zlen_filter_map (fun b => b) (fun j => znth false row j)).
  pose proof (map_znth_zrange_gen false row []) as H. cbn [app length] in H. change (Z.of_nat 0) with 0 in H. now rewrite H.
Qed.

Lemma ro_count_gaps_per_seq a : AlnWF a -> al_count_gaps_per_seq a = s_count_gaps_per_seq (astr a).
Proof.
  intros Ha. unfold al_count_gaps_per_seq, s_count_gaps_per_seq. rewrite (ro_gap_array a Ha), (al_len_slen a Ha).
  unfold s_gap_array. rewrite map_map. apply map_ext_in. intros nr Hin.
  pose proof (good_len _ nr (good_astr a Ha) Hin) as Hl.
  rewrite filter_filter_imp.
  - rewrite <- Hl, <- (zlen_map is_gapch (snd nr)). rewrite count_true_zrange. apply (zlen_filter_map (fun b : bool => b) is_gapch).
  - intros j _ Hj. apply Z.ltb_lt.
    assert (Hin' : In (map is_gapch (snd nr)) (filter (fun row => znth false row j) (map (fun nr0 => map is_gapch (snd nr0)) (astr a)))).
    { apply filter_In. split; [|exact Hj]. apply in_map_iff. exists nr. auto. }
    destruct (filter _ _) as [|x l]; [contradiction|]. rewrite zlen_cons'. pose proof (zlen_nonneg l). lia.
Qed.

Theorem readonly_more_lemma a canon : AlnWF a ->
  al_count_gaps_per_seq a = s_count_gaps_per_seq (astr a) /\
  al_variable_positions a = s_variable_positions (astr a) /\
  al_get_lengths canon a = s_get_lengths canon (astr a).
Proof.
  intros Ha. split; [apply ro_count_gaps_per_seq, Ha|]. split; [apply ro_variable_positions, Ha|apply ro_get_lengths, Ha].
Qed.

(** ** [get_seq(name)]: the ungapped sequence of a row is the gapped string without '-',
    for rows whose sequence holds no gap character (what [parse_out_gaps] builds) *)
Definition NoGapData (r : arow) : Prop := Forall (fun c => c <> GAPC) (realise (adata r)).

Lemma strip_fill k : forall d, Forall (fun c => c <> GAPC) d -> residues k = zlen d -> strip (fill k d) = d.
Proof.
  unfold strip. induction k as [|[] k IH]; intros d Hd H; cbn [residues] in H.
  - symmetry in H. apply zlen_0_nil in H. subst. reflexivity.
  - destruct d as [|x d]; unfold zlen in H; cbn [length] in H.
    + pose proof (residues_nonneg' k). lia.
    + inversion Hd as [|? ? Hx Hd']; subst. cbn [fill filter]. unfold is_res at 1.
      replace (x =? GAPC) with false by lia. cbn [negb]. f_equal. apply IH; [exact Hd'|unfold zlen; lia].
  - cbn [fill filter]. unfold is_res at 1. replace (GAPC =? GAPC) with true by reflexivity. cbn [negb]. apply IH; assumption.
Qed.

Lemma ro_get_seq a n : AlnWF a -> Forall (fun nr => NoGapData (snd nr)) a ->
  al_get_seq a n = option_map strip (find_row n (astr a)).
Proof.
  intros Ha Hng. unfold al_get_seq. rewrite find_row_astr.
  destruct (find_orow n a) as [r|] eqn:Ef; [|reflexivity]. cbn [option_map]. f_equal.
  pose proof (find_orow_In _ _ _ Ef) as Hin. destruct (AlnWF_In a n r Ha Hin) as ((Hm & Hd & Hp) & _ & _).
  rewrite Forall_forall in Hng. specialize (Hng _ Hin). cbn [snd] in Hng.
  unfold row_str. symmetry. apply strip_fill; [exact Hng|]. rewrite <- (parent_length_residues _ Hm). exact Hp.
Qed.

Lemma no_gap_of_string k s r : row_of_string k s = Ok r -> NoGapData r.
Proof.
  unfold row_of_string. destruct (fresh_spec k (strip s)) as (d & E & _ & Hr & _). rewrite E. cbn [of_view bind].
  intros H. injection H as <-. unfold NoGapData. cbn [adata]. rewrite Hr. unfold strip. apply Forall_forall.
  intros c Hc. apply filter_In in Hc. destruct Hc as [_ Hc]. unfold is_res in Hc. intros ->. discriminate.
Qed.
