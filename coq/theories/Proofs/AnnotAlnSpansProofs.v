(** C04 phase 3 (2b) - the per-row strings of Feature.get_slice() on an
    alignment, from the C03 statement for Aligned[FeatureMap], under the
    explicit hypothesis that the coordinate ranges of the map are non-empty,
    ascending and inside the alignment ([segs_ok]); the correspondence check
    monitors that hypothesis on every alignment feature it sees. *)
From CG3 Require Import Lib.PyZ Lib.Val Lib.PySlice Model.View Spec.ViewSpec.
From CG3 Require Import Model.Annot Spec.AnnotSpec Proofs.AnnotProofs.
From CG3 Require Import Model.IndelMap Model.IndelMapFixed Model.FeatureMap Model.Aligned Model.AnnotAln.
From CG3 Require Import Spec.IndelMapSpec Spec.FeatureMapSpec Spec.AlignedSpec.
From CG3 Require Import Proofs.IndelMapProofs Proofs.IndelMapBounded Proofs.FeatureMapProofs Proofs.AlignedProofs Proofs.AnnotAlnProofs.

Lemma nth_error_skipn' {A} n : forall (l : list A) i, nth_error (skipn n l) i = nth_error l (n + i).
Proof. induction n as [|n IH]; intros [|x l] i; cbn; try reflexivity; [destruct i; reflexivity|apply IH]. Qed.

Lemma zget_skipn {A} (l : list A) a i : 0 <= a -> 0 <= i -> zget (skipn (Z.to_nat a) l) i = zget l (a + i).
Proof.
  intros Ha Hi. unfold zget. replace (i <? 0) with false by lia. replace (a + i <? 0) with false by lia.
  rewrite nth_error_skipn'. replace (Z.to_nat a + Z.to_nat i)%nat with (Z.to_nat (a + i)) by lia. reflexivity.
Qed.

Lemma skipn_S_tail {A} n : forall (l : list A) x t, skipn n l = x :: t -> skipn (S n) l = t.
Proof. induction n as [|n IH]; intros [|y l] x t H; cbn in *; try discriminate; [injection H as _ <-; reflexivity|exact (IH l x t H)]. Qed.

(** [s[a:b]] as the characters at the columns [a, b) *)
Lemma ssub_gather s a b : 0 <= a <= b -> b <= zlen s -> ssub s a b = gather s (zrange a b).
Proof.
  intros Hab Hb. unfold ssub, zrange. remember (Z.to_nat (b - a)) as k eqn:Hk.
  assert (Hka : a + Z.of_nat k <= zlen s) by lia. assert (Ha : 0 <= a) by lia. clear Hk Hb Hab. revert a Ha Hka.
  induction k as [|k IH]; intros a Ha Hka; [reflexivity|].
  cbn [zrange_aux]. rewrite gather_cons, <- (IH (a + 1)) by lia.
  assert (Hlt : (Z.to_nat a < length s)%nat) by (unfold zlen in Hka; lia).
  destruct (skipn (Z.to_nat a) s) as [|x t] eqn:E.
  { apply (f_equal (@length Z)) in E. rewrite skipn_length in E. cbn in E. lia. }
  cbn [firstn]. replace (Z.to_nat (a + 1)) with (S (Z.to_nat a)) by lia.
  assert (Et : skipn (S (Z.to_nat a)) s = t).
  { exact (skipn_S_tail _ _ _ _ E). }
  rewrite Et. assert (Ex : zget s a = [x]).
  { rewrite <- (Z.add_0_r a), <- zget_skipn by lia. rewrite E. reflexivity. }
  rewrite Ex. reflexivity.
Qed.

Lemma segs_in_range start n cs : segs_ok start n cs -> 0 <= start ->
  Forall (fun se => 0 <= fst se <= snd se /\ snd se <= n) cs.
Proof.
  revert start. induction cs as [|[a b] t IH]; intros start H Hs; [constructor|].
  cbn [segs_ok] in H. destruct H as (A & B & C & H). constructor; [cbn; lia|]. apply (IH b H). lia.
Qed.

(** HEADLINE (row strings): every row of [feature.get_slice()] on the alignment
    is that row's gapped string read at the columns the alignment-level map
    denotes (reverse complemented for a reversed feature) *)
Lemma aln_feature_slice_rows fx r spans minus fv am t :
  IndelMapSpec.WF (amap r) ->
  Annot.make_feature fx (vlen (sv (adata r))) (is_reversed (sv (adata r))) spans minus = View.Ok fv ->
  aligned_make_feature fx r spans minus = Ok (fv_minus fv, am) ->
  RowWF t -> skind (adata t) = KDna ->
  fm_get_coordinates (fm_without_gaps am) <> [] ->
  segs_ok 0 (row_len t) (fm_get_coordinates (fm_without_gaps am)) ->
  row_feature_slice t (fv_minus fv) am =
    Ok (let s := gather (row_str t) (somes (den am)) in if fv_minus fv then rc_str KDna s else s).
Proof.
  intros Hwf Hmf Ham Ht Hk Hne Hseg.
  destruct (aln_map_spans_read_cells fx r spans minus fv am Hwf Hmf Ham) as (_ & Hcells).
  unfold row_feature_slice, row_by_map.
  destruct (fm_get_coordinates (fm_without_gaps am)) as [|l0 ls] eqn:El; [congruence|]. rewrite <- El in *.
  destruct (row_getitem_locs_spec repaired t _ Ht Hne Hseg) as (t' & -> & Ht' & Hk' & Hstr). cbn [bind].
  assert (Hs : row_str t' = gather (row_str t) (somes (den am))).
  { rewrite Hstr, <- Hcells. pose proof (segs_in_range _ _ _ Hseg (Z.le_refl 0)) as Hr.
    rewrite <- (zlen_row_str t Ht) in Hr.
    clear - Hr. induction Hr as [|[a b] l (H1 & H2) _ IH]; [reflexivity|].
    cbn [flat_map fst snd] in *. rewrite gather_app, IH, ssub_gather by lia. reflexivity. }
  destruct (fv_minus fv).
  - destruct (row_rc_spec t' Ht' ltac:(rewrite Hk', Hk; discriminate)) as (t2 & -> & Ht2 & _ & Hstr2). cbn [bind].
    rewrite (row_gapped_spec t2 Ht2), Hstr2, Hk', Hk, Hs. reflexivity.
  - rewrite (row_gapped_spec t' Ht'), Hs. reflexivity.
Qed.
