(** C08 — the headline theorems restated on the GENERATED kernel
    (coq/gen/IndelMapGen.v, regenerated from the current source text on every
    run), transported through the equalities of Proofs/IndelMapGenEq.v. *)
From CG3 Require Import Lib.PyZ Lib.Val Model.IndelMap Model.IndelMapFixed Spec.IndelMapSpec Spec.IndelMapStringOps.
From CG3 Require Import Proofs.IndelMapProofs Proofs.IndelMapOps Proofs.IndelMapSlice Proofs.IndelMapIndex
                        Proofs.IndelMapMain Proofs.IndelMapBounded Proofs.IndelMapFixedProofs Proofs.IndelMapShared
                        Proofs.IndelMapJoin Proofs.IndelMapMerge Proofs.IndelMapGenEq Proofs.IndelMapGenMergeEq
                        Proofs.IndelMapGenLoopEq Proofs.IndelMapGenCoordsEq Proofs.IndelMapGenJoinEq Proofs.IndelMapGenSeqMapEq.
From CG3 Require Import Model.FeatureMap Model.FeatureMapPrims.
From CG3gen Require Import IndelMapGen.
Import G.

Local Open Scope Z_scope.

Lemma gen_constructor gp cl l plen :
  g_post_init_cum gp cl plen = post_init gp cl plen /\ g_post_init_len gp l plen = post_init_lengths gp l plen.
Proof. split; reflexivity. Qed.

Lemma gen_len_spec m : WF m -> g_len m = zlen (abs m).
Proof. intros H. rewrite len_eq. now apply len_spec. Qed.

Lemma gen_seq_index_spec m : WF m -> forall x, 0 <= x <= g_len m ->
  g_get_seq_index m x = Ok (residues (firstn (Z.to_nat x) (abs m))).
Proof.
  intros H x Hx. rewrite len_eq in Hx. rewrite get_seq_index_eq by now apply WF_LenOK.
  now apply get_seq_index_spec.
Qed.

Lemma gen_align_index_spec m s : WF m -> 0 <= s < parent_length m ->
  exists a, g_get_align_index m s false = Ok a /\ is_align_index (abs m) s a.
Proof. intros H Hs. rewrite get_align_index_eq. now apply align_index_spec. Qed.

Lemma gen_align_stop_spec m s : WF m -> 0 <= s <= parent_length m ->
  exists a, g_get_align_index m s true = Ok a /\ is_align_stop (abs m) s a.
Proof. intros H Hs. rewrite get_align_index_eq. now apply align_stop_spec. Qed.

Lemma gen_slice_spec m oa ob : WF m ->
  let a := py_bound (g_len m) 0 oa in
  let b := py_bound (g_len m) (g_len m) ob in
  0 <= a -> 0 <= b ->
  exists m', g_getitem_slice m oa ob = Ok m' /\ WF m' /\ abs m' = msub (abs m) a (Z.max a b).
Proof.
  intros H. rewrite len_eq. rewrite getitem_slice_eq by (auto using WF_LenOK, WF_len_nonneg).
  now apply slice_v2_spec.
Qed.

Lemma gen_slice_from_mask k a b : 0 <= a -> 0 <= b ->
  g_getitem_slice (from_mask k) (Some a) (Some b) = Ok (from_mask (msub k a (Z.max a b))).
Proof.
  intros Ha Hb. pose proof (wf_from_mask k) as H.
  rewrite getitem_slice_eq by (auto using WF_LenOK, WF_len_nonneg). now apply slice_v2_from_mask.
Qed.

Lemma gen_getitem_int m i : WF m -> g_getitem_int m i = g_getitem_slice m (Some i) (Some (i + 1)).
Proof. reflexivity. Qed.

Lemma gen_add_spec m1 m2 : WF m1 -> WF m2 ->
  exists m', g_add m1 m2 = Ok m' /\ WF m' /\ abs m' = abs m1 ++ abs m2.
Proof. intros H1 H2. rewrite add_eq. now apply add_v2_spec. Qed.

Lemma gen_add_from_mask k1 k2 : g_add (from_mask k1) (from_mask k2) = Ok (from_mask (k1 ++ k2)).
Proof. rewrite add_eq. apply add_v2_from_mask. Qed.

Lemma gen_mul_spec m s : WF m -> 1 <= s ->
  exists m', g_mul m s = Ok m' /\ WF m' /\ abs m' = stretch s (abs m).
Proof. intros H Hs. rewrite mul_eq. now apply mul_spec. Qed.

Lemma gen_nucleic_reversed_spec m : WF m ->
  exists m', g_nucleic_reversed m = Ok m' /\ WF m' /\ abs m' = rev (abs m).
Proof. intros H. rewrite nucleic_reversed_eq. now apply nrev_spec. Qed.

Lemma gen_gap_align_coordinates_spec m : WF m -> g_get_gap_align_coordinates m = gap_runs (abs m).
Proof.
  intros H. rewrite get_gap_align_coordinates_eq by now apply WF_LenOK. now apply gap_align_coordinates_spec.
Qed.

Lemma gen_gap_coordinates_spec k : g_get_gap_coordinates (from_mask k) = gap_insertions k.
Proof. rewrite get_gap_coordinates_eq. apply gap_coordinates_spec. Qed.

Lemma gen_get_coordinates_bounded k : (length k <= 10)%nat ->
  nonempty (g_get_coordinates (from_mask k)) = nonempty (seq_segments k).
Proof. intros Hk. rewrite get_coordinates_eq. now apply listings_v2_bounded. Qed.

(** ** [merge_maps] / [_update_lengths], the generators [spans] / [nongap] *)

Lemma gen_merge_maps_spec m1 m2 : WF m1 -> WF m2 -> parent_length m1 = parent_length m2 ->
  exists m', g_merge_maps m1 m2 None = Ok m' /\ WF m' /\ abs m' = mask_merge (abs m1) (abs m2).
Proof. intros H1 H2 Hp. rewrite merge_maps_eq_all. now apply merge_maps_spec. Qed.

Lemma gen_merge_from_mask k1 k2 : count_res k1 = count_res k2 ->
  g_merge_maps (from_mask k1) (from_mask k2) None = Ok (from_mask (mask_merge k1 k2)).
Proof. intros H. rewrite merge_maps_eq_all. now apply merge_from_mask. Qed.

Lemma gen_spans_spec m : WF m -> concat (map span_mask (g_spans m)) = abs m.
Proof. intros H. rewrite spans_eq by now apply WF_LenOK. now apply spans_mask_spec. Qed.

Lemma gen_nongap_bounded k : (length k <= 10)%nat -> nonempty (g_nongap (from_mask k)) = seg_runs k.
Proof.
  intros Hk. rewrite nongap_eq by (apply WF_LenOK, wf_from_mask). now apply listings_v2_bounded.
Qed.

(** ** [shared_gaps] / [minus_gaps] with [coords_intersect], [coords_minus_coords], [span_and_span] *)

Lemma gen_shared_gaps_spec m1 m2 : WF m1 -> WF m2 -> g_len m1 = g_len m2 ->
  g_shared_gaps m1 m2 = Ok (mask_shared (abs m1) (abs m2)).
Proof. intros H1 H2 Hl. rewrite !len_eq in Hl. rewrite shared_gaps_eq_all. now apply shared_gaps_spec. Qed.

Lemma gen_minus_gaps_spec m1 m2 : WF m1 -> WF m2 -> g_len m1 = g_len m2 ->
  exists m', g_minus_gaps m1 m2 = Ok m' /\ WF m' /\ abs m' = mask_minus (abs m1) (abs m2).
Proof. intros H1 H2 Hl. rewrite !len_eq in Hl. rewrite minus_gaps_eq_all. now apply minus_gaps_spec. Qed.

Lemma gen_minus_gaps_from_mask k1 k2 : zlen k1 = zlen k2 ->
  g_minus_gaps (from_mask k1) (from_mask k2) = Ok (from_mask (mask_minus k1 k2)).
Proof. intros H. rewrite minus_gaps_eq_all. now apply minus_gaps_from_mask. Qed.

(** ** [joined_segments], [from_aligned_segments], [gap_coords_to_map] *)

Lemma segs_ok_snd_le cs : forall start n, segs_ok start n cs -> Forall (fun se : Z * Z => snd se <= n) cs.
Proof.
  induction cs as [|(a, b) t IH]; intros start n H; [constructor|].
  cbn [segs_ok] in H. destruct H as (_ & _ & Hb & Ht). constructor; [exact Hb|]. exact (IH b n Ht).
Qed.

Lemma gen_joined_segments_spec k cs : segs_ok 0 (zlen k) cs ->
  g_joined_segments (from_mask k) cs = Ok (from_mask (mask_join k cs)).
Proof.
  intros H. pose proof (wf_from_mask k) as Hwf.
  rewrite joined_segments_eq_gen; [now apply joined_segments_spec|now apply WF_LenOK|now apply WF_len_nonneg|].
  rewrite len_from_mask. now apply (segs_ok_snd_le cs 0).
Qed.

Lemma gen_from_aligned_segments_spec k : has_residue k = true ->
  g_from_aligned_segments (seg_runs k) (zlen k) = Ok (from_mask k).
Proof. intros H. rewrite from_aligned_segments_eq. now apply from_aligned_segments_spec. Qed.

Lemma gen_gap_coords_to_map_spec k : g_gap_coords_to_map (gap_insertions k) (count_res k) = Ok (from_mask k).
Proof. rewrite gap_coords_to_map_eq. apply gap_coords_to_map_spec. Qed.

(** ** [make_seq_feature_map] *)

Definition seq_image (m : imap) (se : Z * Z) : fspan :=
  mk_span (residues (firstn (Z.to_nat (fst se)) (abs m))) (residues (firstn (Z.to_nat (snd se)) (abs m))) false.

Lemma make_seq_feature_map_spec m afm : WF m ->
  Forall (fun se : Z * Z => 0 <= fst se <= len m /\ 0 <= snd se <= len m) (real_spans afm) ->
  make_seq_feature_map m afm = Ok (mk_fmap (map (seq_image m) (real_spans afm)) (parent_length m)).
Proof.
  intros Hwf HF. unfold make_seq_feature_map. rewrite (make_seq_coords_spec m _ Hwf HF). cbn [bind].
  rewrite map_map. reflexivity.
Qed.

Lemma gen_make_seq_feature_map_spec m afm : WF m ->
  Forall (fun se : Z * Z => 0 <= fst se <= len m /\ 0 <= snd se <= len m) (real_spans afm) ->
  g_make_seq_feature_map m afm = Ok (mk_fmap (map (seq_image m) (real_spans afm)) (parent_length m)).
Proof. intros Hwf HF. rewrite make_seq_feature_map_eq. now apply make_seq_feature_map_spec. Qed.
