(** C15 — _PairwiseDistance.run with the fixed duplicate rule ([strict = true]) on an alignment
    without exact duplicates: every reported cell is the calculator's verdict on that pair's own
    count matrix. *)
From CG3 Require Import Lib.PyZ Model.Dist Spec.DistSpec Proofs.DistProofs.
From Coq Require Import QArith.
Open Scope Z_scope.

Lemma key_eqb_spec a b : reflect (a = b) (key_eqb a b).
Proof.
  destruct a as [a1 a2], b as [b1 b2]. unfold key_eqb. cbn [fst snd].
  destruct (Z.eqb_spec a1 b1); destruct (Z.eqb_spec a2 b2); cbn; constructor; congruence.
Qed.

Lemma aget_aset {V} (l : list (pairkey * V)) k v k' :
  aget (aset l k v) k' = if key_eqb k' k then Some v else aget l k'.
Proof.
  induction l as [|[k0 v0] l IH]; cbn [aset aget].
  - destruct (key_eqb k' k); reflexivity.
  - destruct (key_eqb_spec k k0) as [->|Hn]; cbn [aget].
    + destruct (key_eqb k' k0); reflexivity.
    + rewrite IH. destruct (key_eqb_spec k' k0) as [->|Hn'].
      * destruct (key_eqb_spec k0 k); [congruence|reflexivity].
      * reflexivity.
Qed.

Section NoDupes.
  Variables (f : zmat -> dist_result) (dim : Z) (seqs : list (list Z)).
  Let n := zlen seqs.
  Hypothesis Hdistinct : forall i j, 0 <= i -> i < j -> j < n -> list_eqb (znth [] seqs i) (znth [] seqs j) = false.

  Let rule (a b : Z) : dist_result := cell_rule f dim (znth [] seqs a) (znth [] seqs b).

  (** pairs (a, b), a < b, already handled when the loops stand at (i, j) *)
  Definition done (i j a b : Z) : bool :=
    (0 <=? a) && (a <? b) && (b <? n) && ((a <? i) || ((a =? i) && (b <? j))).

  Definition inv (st : run_state) (i j : Z) : Prop :=
    rs_dupes st = [] /\ rs_duped st = [] /\
    forall a b, aget (rs_dists st) (a, b) =
                if done i j a b then Some (rule a b) else if done i j b a then Some (rule b a) else None.

  Lemma run_pair_inv st i j : 0 <= i -> i < j -> j < n -> inv st i j -> inv (run_pair true f dim seqs st i j) i (j + 1).
  Proof.
    intros Hi Hij Hj (Hd & Hdd & Hget). unfold run_pair.
    destruct (zmem j (rs_dupes st)) eqn:Zm; [rewrite Hd in Zm; discriminate|].
    rewrite (Hdistinct i j Hi Hij Hj). cbn [negb orb].
    assert (E : forall st', st' = RS (rs_dupes st) (rs_duped st) (aset (aset (rs_dists st) (i, j) (rule i j)) (j, i) (rule i j)) -> inv st' i (j + 1)).
    { intros st' ->. split; [exact Hd|]. split; [exact Hdd|]. intros a b. cbn [rs_dists].
      rewrite !aget_aset, Hget. unfold done.
      destruct (key_eqb_spec (a, b) (j, i)) as [E|N1].
      - injection E as -> ->.
        replace ((0 <=? j) && (j <? i) && (i <? n) && ((j <? i) || (j =? i) && (i <? j + 1))) with false by lia.
        replace ((0 <=? i) && (i <? j) && (j <? n) && ((i <? i) || (i =? i) && (j <? j + 1))) with true by lia. reflexivity.
      - destruct (key_eqb_spec (a, b) (i, j)) as [E|N2].
        + injection E as -> ->.
          replace ((0 <=? i) && (i <? j) && (j <? n) && ((i <? i) || (i =? i) && (j <? j + 1))) with true by lia. reflexivity.
        + assert (H1 : (0 <=? a) && (a <? b) && (b <? n) && ((a <? i) || (a =? i) && (b <? j + 1))
                       = (0 <=? a) && (a <? b) && (b <? n) && ((a <? i) || (a =? i) && (b <? j))).
          { assert (~ (a = i /\ b = j)) by (intros [-> ->]; apply N2; reflexivity). lia. }
          assert (H2 : (0 <=? b) && (b <? a) && (a <? n) && ((b <? i) || (b =? i) && (a <? j + 1))
                       = (0 <=? b) && (b <? a) && (a <? n) && ((b <? i) || (b =? i) && (a <? j))).
          { assert (~ (b = i /\ a = j)) by (intros [-> ->]; apply N1; reflexivity). lia. }
          rewrite H1, H2. reflexivity. }
    unfold rule, cell_rule in E. cbv zeta in E.
    destruct (negb (any_offdiag dim (diversity (znth [] seqs i) (znth [] seqs j)))) eqn:A.
    - destruct (0 <? msum dim (diversity (znth [] seqs i) (znth [] seqs j))) eqn:T; apply E; reflexivity.
    - apply E. reflexivity.
  Qed.

  Lemma inv_ext st i j i' j' :
    (forall a b, done i j a b = done i' j' a b) -> inv st i j -> inv st i' j'.
  Proof.
    intros E (Hd & Hdd & Hget). split; [exact Hd|]. split; [exact Hdd|]. intros a b. rewrite Hget, !E. reflexivity.
  Qed.

  Lemma inner_inv i : 0 <= i -> forall k j st, i < j -> j + Z.of_nat k = n -> inv st i j ->
    inv (fold_left (fun s j => run_pair true f dim seqs s i j) (zrange_aux j k) st) i n.
  Proof.
    intros Hi. induction k as [|k IH]; intros j st Hij Hk Hinv; cbn [zrange_aux fold_left].
    - replace n with j by lia. exact Hinv.
    - apply IH; [lia|lia|]. apply run_pair_inv; try lia. exact Hinv.
  Qed.

  Lemma run_row_inv st i : 0 <= i -> i < n - 1 -> inv st i (i + 1) -> inv (run_row true f dim seqs n st i) (i + 1) (i + 2).
  Proof.
    intros Hi Hin Hinv. unfold run_row.
    destruct (zmem i (rs_dupes st)) eqn:Zm; [destruct Hinv as (Hd & _); rewrite Hd in Zm; discriminate|].
    apply (inv_ext _ i n).
    - intros a b. unfold done. lia.
    - unfold zrange. apply inner_inv; try lia. exact Hinv.
  Qed.

  Lemma outer_inv : forall k i st, 0 <= i -> i + Z.of_nat k = n - 1 -> inv st i (i + 1) ->
    inv (fold_left (run_row true f dim seqs n) (zrange_aux i k) st) (n - 1) n.
  Proof.
    induction k as [|k IH]; intros i st Hi Hk Hinv; cbn [zrange_aux fold_left].
    - apply (inv_ext _ i (i + 1)); [|exact Hinv]. intros a b. unfold done. lia.
    - replace (n - 1) with (n - 1) by reflexivity. apply IH; [lia|lia|].
      replace (i + 1 + 1) with (i + 2) by lia. apply run_row_inv; try lia. exact Hinv.
  Qed.

  Definition all_done (a b : Z) : bool := (0 <=? a) && (a <? b) && (b <? n).

  Lemma run_dists : 
    rs_dupes (run true f dim seqs) = [] /\ rs_duped (run true f dim seqs) = [] /\
    forall a b, aget (rs_dists (run true f dim seqs)) (a, b) =
                if all_done a b then Some (rule a b) else if all_done b a then Some (rule b a) else None.
  Proof.
    unfold run. fold n.
    set (st := fold_left (run_row true f dim seqs n) (zrange 0 (n - 1)) (RS [] [] [])).
    assert (Hst : rs_dupes st = [] /\ rs_duped st = [] /\
                  forall a b, aget (rs_dists st) (a, b) =
                    if all_done a b then Some (rule a b) else if all_done b a then Some (rule b a) else None).
    { destruct (Z_lt_le_dec 1 n) as [Hn|Hn].
      - assert (I : inv st (n - 1) n).
        { unfold st, zrange. apply outer_inv; [lia|lia|].
          split; [reflexivity|]. split; [reflexivity|]. intros a b. cbn [rs_dists aget]. unfold done.
          replace ((0 <=? a) && (a <? b) && (b <? n) && ((a <? 0) || (a =? 0) && (b <? 0 + 1))) with false by lia.
          replace ((0 <=? b) && (b <? a) && (a <? n) && ((b <? 0) || (b =? 0) && (a <? 0 + 1))) with false by lia. reflexivity. }
        destruct I as (Hd & Hdd & Hget). split; [exact Hd|]. split; [exact Hdd|]. intros a b. rewrite Hget.
        unfold done, all_done.
        replace ((0 <=? a) && (a <? b) && (b <? n) && ((a <? n - 1) || (a =? n - 1) && (b <? n))) with ((0 <=? a) && (a <? b) && (b <? n)) by lia.
        replace ((0 <=? b) && (b <? a) && (a <? n) && ((b <? n - 1) || (b =? n - 1) && (a <? n))) with ((0 <=? b) && (b <? a) && (a <? n)) by lia.
        reflexivity.
      - assert (E : st = RS [] [] []).
        { unfold st, zrange. replace (Z.to_nat (n - 1 - 0)) with 0%nat by lia. reflexivity. }
        rewrite E. split; [reflexivity|]. split; [reflexivity|]. intros a b. cbn [rs_dists aget]. unfold all_done.
        replace ((0 <=? a) && (a <? b) && (b <? n)) with false by lia.
        replace ((0 <=? b) && (b <? a) && (a <? n)) with false by lia. reflexivity. }
    destruct Hst as (Hd & Hdd & Hget). cbn [rs_dupes rs_duped rs_dists]. split; [exact Hd|]. split; [exact Hdd|].
    intros a b. rewrite Hd. cbn [zmem existsb orb negb].
    rewrite <- Hget. f_equal. clear. induction (rs_dists st) as [|kv l IH]; [reflexivity|]. cbn [filter]. rewrite IH. reflexivity.
  Qed.

  Lemma aget_map_cres (l : list (pairkey * dist_result)) k :
    aget (map (fun kv => (fst kv, CRes (snd kv))) l) k = option_map CRes (aget l k).
  Proof.
    induction l as [|[k0 v0] l IH]; [reflexivity|]. cbn [map aget fst snd].
    destruct (key_eqb k k0); [reflexivity|exact IH].
  Qed.

  (** every ordered pair of an alignment without exact duplicates is reported with the calculator's
      verdict on that pair's own count matrix (the matrix is filled with the earlier sequence first) *)
  Theorem strict_run_exact : forall i j, 0 <= i < n -> 0 <= j < n -> i <> j ->
    In ((i, j), CRes (rule (Z.min i j) (Z.max i j))) (pairwise true f dim seqs).
  Proof.
    intros i j Hi Hj Hij. unfold pairwise. fold n.
    apply in_flat_map. exists i. split; [apply zrange_In; lia|].
    apply in_flat_map. exists j. split; [apply zrange_In; lia|].
    destruct (Z.eqb_spec i j); [contradiction|]. left. f_equal.
    destruct run_dists as (Hd & Hdd & Hget).
    unfold expand. rewrite Hdd. cbn [redundants flat_map fold_left].
    rewrite aget_map_cres, Hget. unfold all_done.
    destruct (Z.lt_total i j) as [Hlt|[He|Hgt]]; [|contradiction|].
    - replace ((0 <=? i) && (i <? j) && (j <? n)) with true by lia. cbn [option_map].
      rewrite Z.min_l, Z.max_r by lia. reflexivity.
    - replace ((0 <=? i) && (i <? j) && (j <? n)) with false by lia.
      replace ((0 <=? j) && (j <? i) && (i <? n)) with true by lia. cbn [option_map].
      rewrite Z.min_r, Z.max_l by lia. reflexivity.
  Qed.
End NoDupes.

(** the witness of the pinned defect is handled correctly by the fixed rule: d(b, c) = 0 *)
Example strict_fixes_witness :
  aget (pairwise true (hamming 4) 4 wit_seqs) (1, 2) = Some (CRes (DVal 3 0%Q (RQ 0%Q))) /\
  (forall i j, 0 <= i -> i < j -> j < zlen wit_seqs -> list_eqb (znth [] wit_seqs i) (znth [] wit_seqs j) = false).
Proof.
  split; [vm_compute; reflexivity|].
  intros i j Hi Hij Hj. change (zlen wit_seqs) with 3 in Hj.
  assert (i = 0 /\ j = 1 \/ i = 0 /\ j = 2 \/ i = 1 /\ j = 2) as [[-> ->]|[[-> ->]|[-> ->]]] by lia; reflexivity.
Qed.
