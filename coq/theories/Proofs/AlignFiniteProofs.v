(** C18 — the global aligner always returns a finite score and hence (by
    [global_alignment_valid]) a valid alignment, as soon as the score table
    allows the gap-only / one-match paths that every classic (gap open / gap
    extend) table allows: X..X M Y..Y. *)
From CG3 Require Import Lib.PyZ Lib.Val Lib.MaxPlus Model.PairAlign Spec.AlignSpec Proofs.AlignProofs Proofs.AlignLocalProofs.

Definition fin (v : ez) : Prop := v <> None.

(** finite: BEGIN->X, BEGIN->Y, BEGIN->M, X->X, X->M, M->Y, Y->Y, every ->END,
    every emission.  (X->Y and Y->X may be forbidden, as in [classic_gap_scores].) *)
Definition has_gap_path (P : params) : Prop :=
  fin (tr P SB SX) /\ fin (tr P SB SY) /\ fin (tr P SB SM) /\ fin (tr P SX SX) /\ fin (tr P SX SM) /\
  fin (tr P SM SY) /\ fin (tr P SY SY) /\
  (forall p, fin (te P p)) /\ (forall a b, fin (em P a b)) /\ (forall a, fin (gx P a)) /\ (forall b, fin (gy P b)).

Lemma fin_plus a b : fin a -> fin b -> fin (eplus a b).
Proof. unfold fin. destruct a, b; cbn; congruence. Qed.

Lemma fin_some a : fin a -> exists z, a = Some z.
Proof. unfold fin. destruct a; [eauto | congruence]. Qed.

Section Canon.
Variable P : params.
Hypothesis HP : has_gap_path P.

Lemma xs_only : forall rx, fin (rscore P false (repeat SX (length rx)) rx []) /\
                           (prev_of (repeat SX (length rx)) = SB \/ prev_of (repeat SX (length rx)) = SX).
Proof.
  destruct HP as (BX & BY & BM & XX & XM & MY & YY & TE & EM & GX & GY).
  induction rx as [|a rx (IH & Hp)].
  - cbn. split; [unfold fin; discriminate | auto].
  - cbn [length repeat rscore]. split; [|right; reflexivity].
    apply fin_plus; [apply GX|]. apply fin_plus; [|exact IH].
    unfold ttr. cbn [andb]. destruct Hp as [-> | ->]; assumption.
Qed.

(** the canonical path (last state first): Y..Y M X..X *)
Fixpoint canon (rx ry : list Z) : list st :=
  match ry with
  | [] => repeat SX (length rx)
  | b :: ry' =>
      match ry' with
      | [] => match rx with [] => [SY] | _ :: rx' => SM :: repeat SX (length rx') end
      | _ :: _ => SY :: canon rx ry'
      end
  end.

Lemma canon_fin : forall ry rx,
  fin (rscore P false (canon rx ry) rx ry) /\
  (ry <> [] -> prev_of (canon rx ry) = SY \/ prev_of (canon rx ry) = SM).
Proof.
  pose proof HP as (BX & BY & BM & XX & XM & MY & YY & TE & EM & GX & GY).
  induction ry as [|b ry IH]; intros rx.
  - cbn [canon]. split; [apply xs_only | congruence].
  - destruct ry as [|b' ry].
    + cbn [canon]. destruct rx as [|a rx].
      * split; [|intros _; left; reflexivity].
        cbn [rscore prev_of]. apply fin_plus; [apply GY|]. apply fin_plus; [exact BY | unfold fin; discriminate].
      * split; [|intros _; right; reflexivity].
        cbn [rscore]. destruct (xs_only rx) as (Hx & Hp).
        apply fin_plus; [apply EM|]. apply fin_plus; [|exact Hx].
        unfold ttr. cbn [andb]. destruct Hp as [-> | ->]; assumption.
    + destruct (IH rx) as (Hf & Hp). specialize (Hp ltac:(discriminate)).
      change (canon rx (b :: b' :: ry)) with (SY :: canon rx (b' :: ry)).
      split; [|intros _; left; reflexivity].
      cbn [rscore]. apply fin_plus; [apply GY|]. apply fin_plus; [|exact Hf].
      unfold ttr. cbn [andb]. destruct Hp as [-> | ->]; assumption.
Qed.

Lemma some_path_is_finite rx ry : exists q z, gscore P q rx ry = Some z.
Proof.
  pose proof HP as (_ & _ & _ & _ & _ & _ & _ & TE & _).
  exists (canon rx ry). apply fin_some. unfold gscore. apply fin_plus; [apply TE | apply canon_fin].
Qed.

Lemma global_always_finite xs ys : exists z p, align_global P xs ys = (Some z, p).
Proof.
  destruct (align_global P xs ys) as [v p] eqn:E.
  destruct v as [z|]; [eauto|].
  exfalso. destruct (some_path_is_finite (rev xs) (rev ys)) as (q & z & Hq).
  pose proof (align_global_none P xs ys) as Hn. rewrite E in Hn. specialize (Hn eq_refl q). congruence.
Qed.

End Canon.

Lemma ex_params_has_gap_path : has_gap_path ex_params.
Proof.
  unfold has_gap_path, fin, ex_params. cbn. repeat split; try discriminate.
  intros a b. destruct (a =? b); discriminate.
Qed.

(** every pair of residue sequences gets a valid alignment *)
Lemma global_always_valid P xs ys :
  has_gap_path P -> residues xs -> residues ys ->
  exists z p, align_global P xs ys = (Some z, p) /\
              valid_rows (fst (rows_of p xs ys)) (snd (rows_of p xs ys)) xs ys.
Proof.
  intros HP Fx Fy. destruct (global_always_finite P HP xs ys) as (z & p & E).
  exists z, p. split; [exact E|]. eapply global_alignment_valid; eauto.
Qed.

(** local alignment of two non-empty sequences always reports a finite score
    (a single match column is a local path) when BEGIN->M and the match
    emissions are finite *)
Lemma local_always_finite P a xs b ys :
  fin (tr P SB SM) -> (forall x y, fin (em P x y)) ->
  exists z p i j, align_local P (a :: xs) (b :: ys) = (Some z, p, i, j).
Proof.
  intros BM EM.
  destruct (align_local P (a :: xs) (b :: ys)) as [[[v p] i] j] eqn:E.
  destruct (align_local_sound _ _ _ _ _ _ _ E) as (_ & Hopt & _).
  specialize (Hopt 1%nat 1%nat []). cbn in Hopt.
  destruct v as [z|]; [eauto 6|].
  exfalso.
  assert (F : fin (eplus (em P a b) (eplus (tr P SB SM) (Some 0)))).
  { apply fin_plus; [apply EM|]. apply fin_plus; [exact BM | unfold fin; discriminate]. }
  destruct (eplus (em P a b) (eplus (tr P SB SM) (Some 0))); [exact Hopt | apply F; reflexivity].
Qed.
