(** C09 — unrooted topology along compositions of transformations, the whole
    get_sub_tree with the repaired final unrooting, and the link between the
    relation [same_topology] and the executable split list [splits]. *)
From Coq Require Import Permutation.
From CG3 Require Import Lib.PyZ Lib.Val Lib.Rose Model.Tree Model.TreeDist Spec.TreeSpec Spec.TreeTopoSpec
  Proofs.TreeProofs Proofs.TreeSubProofs Proofs.TreeChain Proofs.TreeDistProofs Proofs.TopoBase
  Proofs.TopoReroot Proofs.TopoOps Proofs.TopoSub.

(** one step of [tstep] (Proofs/TreeChain.v) keeps the tip set and the topology *)
Lemma tstep_tips t u : tstep t u -> NoDup (tips t) -> Permutation (tips u) (tips t).
Proof.
  intros Hs Hnd.
  destruct (tips t) as [|a l] eqn:Et; [exfalso; exact (tips_nonempty t Et)|].
  assert (Ha : In a (tips t)) by (rewrite Et; left; reflexivity).
  rewrite <- Et. rewrite <- Et in Hnd.
  exact (proj1 (tstep_preserves 1 t u a a Hs Hnd Ha Ha)).
Qed.

Lemma tstep_topology t u : tstep t u -> NoDup (tips t) -> same_topology t u.
Proof.
  intros Hs Hnd. destruct Hs as [t path x r Hx Hk Har Hr|t nm r Har Hr|t nm r Har Hr|t order|t HL|t HL].
  - eapply reroot_topology; eauto.
  - eapply rooted_at_topology; eauto.
  - eapply rooted_with_tip_topology; eauto.
  - apply sorted_topology.
  - apply unrooted_fixed_topology; exact Hnd.
  - apply prune_topology.
Qed.

Theorem chain_topology : forall t v, tsteps t v -> NoDup (tips t) ->
  Permutation (tips v) (tips t) /\ same_topology t v.
Proof.
  intros t v Hs. induction Hs as [t|t u v Hst Hs IH]; intros Hnd.
  - split; [reflexivity|apply same_topology_refl].
  - pose proof (tstep_tips t u Hst Hnd) as HP.
    pose proof (tstep_topology t u Hst Hnd) as HT.
    assert (Hndu : NoDup (tips u)) by (eapply Permutation_NoDup; [apply Permutation_sym; exact HP|exact Hnd]).
    destruct (IH Hndu) as (HP2 & HT2).
    split; [etransitivity; eauto|].
    eapply same_topology_trans; [| |exact HT|exact HT2].
    + apply perm_seteq. apply Permutation_sym. exact HP.
    + apply perm_seteq. apply Permutation_sym. exact HP2.
Qed.

(** the whole get_sub_tree (tipsonly) of the repaired code *)
Theorem sub_tree_topology : forall t S im kr r,
  pos_lens t = true -> NoDup (tips t) ->
  get_sub_tree_v true t S im kr true = Ok r -> restricted_topology S t r.
Proof.
  intros t S im kr r Hp Hnd Hg.
  eapply sub_tree_fixed_topology; [exact unrooted_fixed_topology|exact Hp|exact Hnd|exact Hg].
Qed.

(** [same_topology] in terms of the executable list of non-trivial splits *)
Theorem same_topology_iff_splits : forall t1 t2,
  same_topology t1 t2 <->
  (forall c, In c (splits t1) -> cut_mem (tips t1) (cuts t2) c = true) /\
  (forall c, In c (filter (nontrivial (tips t1)) (cuts t2)) -> cut_mem (tips t1) (cuts t1) c = true).
Proof.
  intros t1 t2. unfold same_topology, splits_eq, splits_incl, splits. split.
  - intros [H1 H2]. split; intros c Hc; apply filter_In in Hc; destruct Hc as [Hc Hn]; auto.
  - intros [H1 H2]. split; intros c Hc Hn; [apply H1|apply H2]; apply filter_In; auto.
Qed.
