(** Proofs for C14. *)
From CG3 Require Import Lib.PyZ Lib.Val Model.Apps Spec.AppsSpec.
From Coq Require Import Permutation.

(* ------------------------------------------------------------------ strings *)

Lemma str_eqb_refl a : str_eqb a a = true.
Proof. induction a as [|x a IH]; simpl; [reflexivity|]. rewrite Z.eqb_refl, IH. reflexivity. Qed.

Lemma str_eqb_eq a b : str_eqb a b = true <-> a = b.
Proof.
  split.
  - revert b. induction a as [|x a IH]; destruct b as [|y b]; simpl; intros H; try discriminate; [reflexivity|].
    apply andb_true_iff in H. destruct H as [H1 H2]. apply Z.eqb_eq in H1. subst. f_equal. apply IH, H2.
  - intros ->. apply str_eqb_refl.
Qed.

Lemma str_eqb_neq a b : str_eqb a b = false <-> a <> b.
Proof.
  split.
  - intros H E. apply str_eqb_eq in E. congruence.
  - intros H. destruct (str_eqb a b) eqn:E; [|reflexivity]. apply str_eqb_eq in E. contradiction.
Qed.

Lemma mem_str_In x l : mem_str x l = true <-> In x l.
Proof.
  unfold mem_str. rewrite existsb_exists. split.
  - intros [y [Hy E]]. apply str_eqb_eq in E. subst. exact Hy.
  - intros H. exists x. split; [exact H|apply str_eqb_refl].
Qed.

Lemma mem_str_notIn x l : mem_str x l = false <-> ~ In x l.
Proof.
  split.
  - intros H Hin. apply mem_str_In in Hin. congruence.
  - intros H. destruct (mem_str x l) eqn:E; [|reflexivity]. apply mem_str_In in E. contradiction.
Qed.

(* ------------------------------------------------------------------ _call *)

Lemma call_nc_skip self ups v :
  s_skip self = true -> is_nc v = true -> call (self :: ups) v = v.
Proof.
  intros Hs Hv. destruct v; try discriminate. simpl. rewrite Hs. reflexivity.
Qed.

Lemma call_none self ups :
  s_skip self = true -> call (self :: ups) VNone = mk_nc s_ERROR (s_name self) m_none_in None.
Proof. intros Hs. simpl. rewrite Hs. reflexivity. Qed.

Lemma forward_app l1 l2 v : forward (l1 ++ l2) v = forward l2 (forward l1 v).
Proof. revert v. induction l1 as [|s l1 IH]; intros v; simpl; [reflexivity|]. apply IH. Qed.

Lemma forward_nc stages v : all_skip stages -> is_nc v = true -> forward stages v = v.
Proof.
  revert v. induction stages as [|s r IH]; intros v Hall Hv; simpl; [reflexivity|].
  rewrite Hv, (Hall s (or_introl eq_refl)). simpl. apply IH; [|exact Hv].
  intros s' Hs'. apply Hall. right. exact Hs'.
Qed.

Lemma call_one_step self ups v :
  is_nc v = false -> v <> VNone ->
  call (self :: ups) v =
    match ups with
    | [] => stage_apply self v
    | _ :: _ => if is_loader (s_kind self) then stage_apply self v
                else let w := call ups v in if is_nc w && s_skip self then w else stage_apply self w
    end.
Proof.
  intros Hnc Hnone. unfold stage_apply.
  destruct v; try discriminate; try congruence; simpl;
    (destruct ups as [|u ups']; [reflexivity|]);
    (destruct (is_loader (s_kind self)); [reflexivity|]); cbv zeta;
    match goal with |- context [call (u :: ups') ?x] => destruct (is_nc (call (u :: ups') x) && s_skip self); reflexivity end.
Qed.

Lemma call_forward stages v :
  stages <> [] ->
  (forall s, In s (tl stages) -> s_kind s <> LOADER) ->
  is_nc v = false -> v <> VNone ->
  call (rev stages) v = forward stages v.
Proof.
  intros Hne Hld Hnc Hnone. induction stages as [|s l IH] using rev_ind; [congruence|].
  rewrite rev_unit, forward_app. rewrite (call_one_step _ _ _ Hnc Hnone).
  destruct l as [|a l'].
  - simpl. rewrite Hnc. reflexivity.
  - assert (Hs : is_loader (s_kind s) = false).
    { destruct (s_kind s) eqn:E; try reflexivity. exfalso. apply (Hld s); [|exact E].
      simpl. apply in_or_app. right. left. reflexivity. }
    assert (IH' : call (rev (a :: l')) v = forward (a :: l') v).
    { apply IH; [discriminate|]. intros s' Hs'. apply Hld. simpl in *. apply in_or_app. left. exact Hs'. }
    destruct (rev (a :: l')) as [|u ups'] eqn:Er.
    { apply (f_equal (@length step)) in Er. rewrite rev_length in Er. discriminate. }
    rewrite Hs. cbv zeta. rewrite IH'. simpl forward at 3. reflexivity.
Qed.

(** the recorded invocations: same value as [call], and no main ever sees a NotCompleted *)
Lemma call_log_fst chain : forall v, fst (call_log chain v) = call chain v.
Proof.
  induction chain as [|self ups IH]; intros v; [reflexivity|].
  cbn [call_log call].
  set (val := match v with VNone => mk_nc s_ERROR (s_name self) m_none_in None | _ => v end).
  destruct (is_nc val && s_skip self); [reflexivity|].
  destruct ups as [|u ups'].
  - cbn. destruct (validate self val); reflexivity.
  - destruct (is_loader (s_kind self)).
    + cbn. destruct (validate self val); reflexivity.
    + specialize (IH val). destruct (call_log (u :: ups') val) as [w lg] eqn:El. cbn [fst] in IH. subst w.
      cbn [fst snd]. destruct (is_nc (call (u :: ups') val) && s_skip self); [reflexivity|].
      destruct (validate self (call (u :: ups') val)); reflexivity.
Qed.

Lemma call_log_args_not_nc chain :
  (forall s, In s chain -> s_skip s = true) ->
  forall v e, In e (snd (call_log chain v)) -> is_nc (snd e) = false.
Proof.
  induction chain as [|self ups IH]; intros Hall v e Hin; [destruct Hin|].
  assert (Hself : s_skip self = true) by (apply Hall; left; reflexivity).
  assert (Hups : forall s, In s ups -> s_skip s = true) by (intros s Hs; apply Hall; right; exact Hs).
  cbn [call_log] in Hin.
  set (val := match v with VNone => mk_nc s_ERROR (s_name self) m_none_in None | _ => v end) in *.
  rewrite Hself in Hin. rewrite andb_true_r in Hin.
  destruct (is_nc val) eqn:Hv; [destruct Hin|].
  destruct ups as [|u ups'].
  - cbn in Hin. destruct (validate self val); cbn in Hin; [destruct Hin|].
    destruct Hin as [<-|[]]. exact Hv.
  - destruct (is_loader (s_kind self)).
    + cbn in Hin. destruct (validate self val); cbn in Hin; [destruct Hin|].
      destruct Hin as [<-|[]]. exact Hv.
    + specialize (IH Hups val). destruct (call_log (u :: ups') val) as [w lg] eqn:El. cbn [snd] in IH.
      rewrite andb_true_r in Hin.
      destruct (is_nc w) eqn:Hw; cbn [snd] in Hin; [apply IH; exact Hin|].
      destruct (validate self w); cbn [snd] in Hin; [apply IH; exact Hin|].
      apply in_app_or in Hin. destruct Hin as [Hin|[<-|[]]]; [apply IH; exact Hin|exact Hw].
Qed.

(** naming the failing step, message and source *)
Lemma run_main_raise s v m :
  s_main s v = Raise m -> run_main s v = VNC s_ERROR (s_name s) m (source_of v).
Proof. intros H. unfold run_main. rewrite H. reflexivity. Qed.

Lemma run_main_none s v :
  s_main s v = Ret VNone -> run_main s v = VNC s_BUG (s_name s) m_none_out (source_of v).
Proof. intros H. unfold run_main. rewrite H. reflexivity. Qed.

Lemma run_main_value s v r :
  s_main s v = Ret r -> r <> VNone -> run_main s v = r.
Proof. intros H Hr. unfold run_main. rewrite H. destruct r; congruence. Qed.

Lemma validate_reject_origin s v f :
  is_nc v = false -> validate s v = Some f ->
  exists m src, f = VNC s_ERROR (s_name s) m src.
Proof.
  intros Hv H. unfold validate in H. rewrite Hv in H. simpl in H.
  destruct (s_types s) as [tys|]; [|discriminate].
  destruct v; try discriminate; simpl in H;
    try (match type of H with (if ?c then _ else _) = _ => destruct c end; [discriminate|]; inversion H; eexists; eexists; reflexivity).
  destruct items as [|[[[c k] t] sr] items'].
  - inversion H. eexists; eexists; reflexivity.
  - match type of H with (if ?c then _ else _) = _ => destruct c end; [discriminate|]. inversion H. eexists; eexists; reflexivity.
Qed.

(** a failure at one stage is the result of the whole pipeline *)
Lemma forward_first_failure l1 s l2 v :
  all_skip l2 ->
  is_nc (forward l1 v) = false ->
  is_nc (stage_apply s (forward l1 v)) = true ->
  forward (l1 ++ s :: l2) v = stage_apply s (forward l1 v).
Proof.
  intros Hall Hok Hfail. rewrite forward_app. simpl. rewrite Hok. simpl.
  apply forward_nc; assumption.
Qed.

(* ------------------------------------------------------------------ list helpers *)

Lemma filter_true {A} (l : list A) : filter (fun _ => true) l = l.
Proof. induction l as [|x l IH]; simpl; [reflexivity|]. rewrite IH. reflexivity. Qed.

Lemma filter_filter {A} (f g : A -> bool) l :
  filter f (filter g l) = filter (fun x => g x && f x) l.
Proof.
  induction l as [|x l IH]; simpl; [reflexivity|].
  destruct (g x); simpl; [destruct (f x); simpl; rewrite IH; reflexivity|exact IH].
Qed.

Lemma existsb_false {A} (f : A -> bool) l : (forall x, In x l -> f x = false) -> existsb f l = false.
Proof.
  induction l as [|x l IH]; intros H; simpl; [reflexivity|].
  rewrite (H x (or_introl eq_refl)). simpl. apply IH. intros y Hy. apply H. right. exact Hy.
Qed.

Lemma Permutation_filter' {A} (f : A -> bool) l l' : Permutation l l' -> Permutation (filter f l) (filter f l').
Proof.
  induction 1 as [|x l l' _ IH|x y l|l l' l'' _ IH1 _ IH2]; simpl.
  - constructor.
  - destruct (f x); [constructor|]; exact IH.
  - destruct (f x), (f y); try reflexivity. apply perm_swap.
  - eapply perm_trans; eassumption.
Qed.

Lemma existsb_perm {A} (f : A -> bool) l l' : Permutation l l' -> existsb f l = existsb f l'.
Proof.
  intros P. destruct (existsb f l) eqn:E.
  - symmetry. apply existsb_exists in E. destruct E as [x [Hx Hf]]. apply existsb_exists. exists x. split; [|exact Hf].
    eapply Permutation_in; eassumption.
  - symmetry. destruct (existsb f l') eqn:E'; [|reflexivity].
    apply existsb_exists in E'. destruct E' as [x [Hx Hf]].
    assert (existsb f l = true); [|congruence]. apply existsb_exists. exists x. split; [|exact Hf].
    eapply Permutation_in; [apply Permutation_sym|]; eassumption.
Qed.

(* ------------------------------------------------------------------ one record *)

Section Store.
Variable K : skind.
Variable U : list str.
Hypothesis G : good_kind K U.

Lemma put_completed st a d :
  In a U -> st_mode st <> 0 -> ~ In (k_fname K a) (done_names st) -> is_nc d = false ->
  put K st (a, d) =
    Ok (mkstore (st_done st ++ [(k_fname K a, (a, d))])
                (filter (fun e => negb (k_retire K (fst e) a)) (st_nc st)) (st_logs st) (st_mode st)).
Proof.
  intros Ha Hm Hn Hd. unfold put, writer_main. cbn [fst snd].
  assert (Hid : match a with [] => unique_id_of (source_of d) | c :: s => Some (c :: s) end = Some a).
  { destruct a; [exfalso; eapply (g_nonempty K U G); [exact Ha|reflexivity]|reflexivity]. }
  rewrite Hid, Hd. unfold write, check_writable, contains.
  apply Z.eqb_neq in Hm. rewrite Hm.
  rewrite (g_item_fname K U G a Ha). rewrite (g_item_idem K U G a Ha).
  apply mem_str_notIn in Hn. rewrite Hn. simpl. reflexivity.
Qed.

Lemma put_failed st a d :
  In a U -> st_mode st <> 0 -> ~ In (k_fname K a) (done_names st) -> is_nc d = true ->
  put K st (a, d) =
    Ok (mkstore (st_done st) (st_nc st ++ [(k_ncname K a, d)]) (st_logs st) (st_mode st)).
Proof.
  intros Ha Hm Hn Hd. unfold put, writer_main. cbn [fst snd].
  assert (Hid : match a with [] => unique_id_of (source_of d) | c :: s => Some (c :: s) end = Some a).
  { destruct a; [exfalso; eapply (g_nonempty K U G); [exact Ha|reflexivity]|reflexivity]. }
  rewrite Hid, Hd. unfold write_nc, check_writable, contains.
  apply Z.eqb_neq in Hm. rewrite Hm.
  rewrite (g_item_nc K U G a Ha).
  apply mem_str_notIn in Hn. rewrite Hn. simpl. reflexivity.
Qed.

(** the store after writing the records in ANY given order is the dictionary of the specification *)
Lemma puts_final : forall rs st,
  ready K U st rs ->
  puts K st rs = Ok (mkstore (final_done K st rs) (final_nc K st rs) (st_logs st) (st_mode st)).
Proof.
  induction rs as [|[a d] rs IH]; intros st [Hm [Hnd [Hincl Hfresh]]].
  - simpl. unfold final_done, final_nc, retired_by. simpl. rewrite !app_nil_r, filter_true. destruct st; reflexivity.
  - cbn [map fst] in Hnd, Hincl, Hfresh. inversion Hnd as [|x l Hna Hnd']; subst.
    assert (Ha : In a U) by (apply Hincl; left; reflexivity).
    assert (Hfa : ~ In (k_fname K a) (done_names st)) by (apply Hfresh; left; reflexivity).
    cbn [puts]. destruct (is_nc d) eqn:Hd.
    + rewrite (put_failed st a d Ha Hm Hfa Hd).
      rewrite IH.
      2:{ split; [exact Hm|]. split; [exact Hnd'|]. split; [intros x Hx; apply Hincl; right; exact Hx|].
          intros b Hb. cbn. apply Hfresh. right. exact Hb. }
      f_equal. unfold final_done, final_nc. cbn [st_done st_nc st_logs st_mode].
      unfold completed_rec, failed_rec. cbn [filter snd]. rewrite Hd. cbn [negb map fst snd].
      f_equal. rewrite filter_app. cbn [filter].
      assert (Hkeep : retired_by K rs (k_ncname K a, d) = false).
      { unfold retired_by. apply existsb_false. intros [b db] Hb. cbn [fst snd].
        assert (Hbin : In b (map fst rs)) by (apply in_map_iff; exists (b, db); split; [reflexivity|exact Hb]).
        rewrite (g_retire K U G a b Ha (Hincl b (or_intror Hbin))).
        assert (a <> b) by (intros ->; contradiction).
        apply str_eqb_neq in H. rewrite H. apply andb_false_r. }
      rewrite Hkeep. cbn [negb]. rewrite <- app_assoc. cbn [app]. f_equal.
      apply filter_ext. intros e. unfold retired_by. cbn [existsb]. change (completed_rec (a, d)) with (negb (is_nc d)). rewrite Hd. reflexivity.
    + rewrite (put_completed st a d Ha Hm Hfa Hd).
      rewrite IH.
      2:{ split; [exact Hm|]. split; [exact Hnd'|]. split; [intros x Hx; apply Hincl; right; exact Hx|].
          intros b Hb. unfold done_names. cbn [st_done]. rewrite map_app. cbn [map fst]. intros Hin.
          apply in_app_or in Hin. destruct Hin as [Hin|[E|[]]].
          - apply (Hfresh b (or_intror Hb)). exact Hin.
          - apply (g_fname_inj K U G) in E; [subst; contradiction|exact Ha|apply Hincl; right; exact Hb]. }
      f_equal. unfold final_done, final_nc. cbn [st_done st_nc st_logs st_mode].
      unfold completed_rec, failed_rec. cbn [filter snd]. rewrite Hd. cbn [negb map fst snd].
      f_equal; [rewrite <- app_assoc; reflexivity|].
      f_equal. rewrite filter_filter. apply filter_ext. intros e.
      unfold retired_by. cbn [existsb]. change (completed_rec (a, d)) with (negb (is_nc d)). rewrite Hd. cbn [negb andb fst].
      rewrite negb_orb. reflexivity.
Qed.
End Store.

(* ------------------------------------------------------------------ any order, exactly one *)

Lemma NoDup_app_intro {A} (l1 l2 : list A) :
  NoDup l1 -> NoDup l2 -> (forall x, In x l1 -> ~ In x l2) -> NoDup (l1 ++ l2).
Proof.
  induction l1 as [|x l1 IH]; intros H1 H2 Hd; simpl; [exact H2|].
  inversion H1 as [|y l Hx H1']; subst. constructor.
  - intros Hin. apply in_app_or in Hin. destruct Hin as [Hin|Hin]; [contradiction|].
    apply (Hd x (or_introl eq_refl)). exact Hin.
  - apply IH; [exact H1'|exact H2|]. intros y Hy. apply Hd. right. exact Hy.
Qed.

Lemma NoDup_map_inj_in {A B} (f : A -> B) l :
  (forall x y, In x l -> In y l -> f x = f y -> x = y) -> NoDup l -> NoDup (map f l).
Proof.
  induction l as [|x l IH]; intros Hinj Hnd; simpl; [constructor|].
  inversion Hnd as [|y l' Hx Hnd']; subst. constructor.
  - intros Hin. apply in_map_iff in Hin. destruct Hin as [y [E Hy]].
    apply Hinj in E; [subst; contradiction|right; exact Hy|left; reflexivity].
  - apply IH; [|exact Hnd']. intros a b Ha Hb. apply Hinj; right; assumption.
Qed.

Lemma NoDup_map_filter {A B} (f : A -> B) (p : A -> bool) l : NoDup (map f l) -> NoDup (map f (filter p l)).
Proof.
  induction l as [|x l IH]; intros H; simpl; [constructor|].
  inversion H as [|y l' Hx H']; subst. destruct (p x); [|apply IH; exact H'].
  simpl. constructor; [|apply IH; exact H'].
  intros Hin. apply Hx. apply in_map_iff in Hin. destruct Hin as [y [E Hy]].
  apply filter_In in Hy. apply in_map_iff. exists y. split; [exact E|apply Hy].
Qed.

Lemma NoDup_fst_unique {A B} (l : list (A * B)) a d d' :
  NoDup (map fst l) -> In (a, d) l -> In (a, d') l -> d = d'.
Proof.
  induction l as [|[x y] l IH]; intros Hnd H1 H2; [destruct H1|].
  simpl in Hnd. inversion Hnd as [|z l' Hx Hnd']; subst.
  destruct H1 as [E1|H1], H2 as [E2|H2].
  - congruence.
  - inversion E1; subst. exfalso. apply Hx. apply in_map_iff. exists (a, d'). split; [reflexivity|exact H2].
  - inversion E2; subst. exfalso. apply Hx. apply in_map_iff. exists (a, d). split; [reflexivity|exact H1].
  - apply IH; assumption.
Qed.

Section Order.
Variable K : skind.
Variable U : list str.
Hypothesis G : good_kind K U.

Lemma ready_perm st rs rs' : Permutation rs rs' -> ready K U st rs -> ready K U st rs'.
Proof.
  intros P [Hm [Hnd [Hincl Hfresh]]].
  assert (P' : Permutation (map fst rs) (map fst rs')) by (apply Permutation_map; exact P).
  split; [exact Hm|]. split; [eapply Permutation_NoDup; eassumption|].
  split.
  - intros x Hx. apply Hincl. eapply Permutation_in; [apply Permutation_sym; exact P'|exact Hx].
  - intros a Ha. apply Hfresh. eapply Permutation_in; [apply Permutation_sym; exact P'|exact Ha].
Qed.

Lemma final_done_perm st rs rs' :
  Permutation rs rs' -> Permutation (final_done K st rs) (final_done K st rs').
Proof.
  intros P. unfold final_done. apply Permutation_app_head. apply Permutation_map. apply Permutation_filter'. exact P.
Qed.

Lemma final_nc_perm st rs rs' :
  Permutation rs rs' -> Permutation (final_nc K st rs) (final_nc K st rs').
Proof.
  intros P. unfold final_nc.
  replace (filter (fun e => negb (retired_by K rs e)) (st_nc st))
    with (filter (fun e => negb (retired_by K rs' e)) (st_nc st)).
  - apply Permutation_app_head. apply Permutation_map. apply Permutation_filter'. exact P.
  - apply filter_ext. intros e. unfold retired_by. f_equal. symmetry. apply existsb_perm. exact P.
Qed.

(** every order of writing the same records gives the same dictionary *)
Lemma puts_any_order st rs rs' :
  ready K U st rs -> Permutation rs rs' ->
  exists st1 st2, puts K st rs = Ok st1 /\ puts K st rs' = Ok st2 /\
    Permutation (st_done st1) (st_done st2) /\ Permutation (st_nc st1) (st_nc st2) /\
    st_logs st1 = st_logs st2 /\ st_mode st1 = st_mode st2.
Proof.
  intros R P. pose proof (ready_perm st rs rs' P R) as R'.
  eexists. eexists. split; [apply (puts_final K U G); exact R|]. split; [apply (puts_final K U G); exact R'|].
  cbn [st_done st_nc st_logs st_mode]. split; [apply final_done_perm; exact P|]. split; [apply final_nc_perm; exact P|].
  split; reflexivity.
Qed.

(** ... and that dictionary holds exactly one record per input *)
Lemma final_completed_once st rs a d :
  ready K U st rs -> In (a, d) rs -> is_nc d = false ->
  In (k_fname K a, (a, d)) (final_done K st rs) /\ ~ In (k_ncname K a) (map fst (final_nc K st rs)).
Proof.
  intros [Hm [Hnd [Hincl Hfresh]]] Hin Hd.
  assert (Ha : In a U) by (apply Hincl; apply in_map_iff; exists (a, d); split; [reflexivity|exact Hin]).
  split.
  - unfold final_done. apply in_or_app. right. apply in_map_iff. exists (a, d). split; [reflexivity|].
    apply filter_In. split; [exact Hin|]. unfold completed_rec. cbn. rewrite Hd. reflexivity.
  - unfold final_nc. rewrite map_app. intros H. apply in_app_or in H. destruct H as [H|H].
    + apply in_map_iff in H. destruct H as [e [E He]]. apply filter_In in He. destruct He as [_ He].
      assert (Hr : retired_by K rs e = true); [|rewrite Hr in He; discriminate].
      unfold retired_by. apply existsb_exists. exists (a, d). split; [exact Hin|].
      unfold completed_rec. cbn [fst snd]. rewrite Hd, E. rewrite (g_retire K U G a a Ha Ha), str_eqb_refl. reflexivity.
    + rewrite map_map in H. cbn [fst] in H. apply in_map_iff in H. destruct H as [[b d'] [E Hb]]. cbn [fst] in E.
      apply filter_In in Hb. destruct Hb as [Hb Hf]. unfold failed_rec in Hf. cbn [snd] in Hf.
      assert (Hbu : In b U) by (apply Hincl; apply in_map_iff; exists (b, d'); split; [reflexivity|exact Hb]).
      apply (g_ncname_inj K U G b a Hbu Ha) in E. subst b.
      assert (d = d') by (eapply NoDup_fst_unique; eassumption). subst d'. congruence.
Qed.

Lemma final_failed_once st rs a d :
  ready K U st rs -> In (a, d) rs -> is_nc d = true ->
  In (k_ncname K a, d) (final_nc K st rs) /\ ~ In (k_fname K a) (map fst (final_done K st rs)).
Proof.
  intros [Hm [Hnd [Hincl Hfresh]]] Hin Hd.
  assert (Ha : In a U) by (apply Hincl; apply in_map_iff; exists (a, d); split; [reflexivity|exact Hin]).
  split.
  - unfold final_nc. apply in_or_app. right. apply in_map_iff. exists (a, d). split; [reflexivity|].
    apply filter_In. split; [exact Hin|exact Hd].
  - unfold final_done. rewrite map_app. intros H. apply in_app_or in H. destruct H as [H|H].
    + apply (Hfresh a); [apply in_map_iff; exists (a, d); split; [reflexivity|exact Hin]|exact H].
    + rewrite map_map in H. cbn [fst] in H. apply in_map_iff in H. destruct H as [[b d'] [E Hb]]. cbn [fst] in E.
      apply filter_In in Hb. destruct Hb as [Hb Hf]. unfold completed_rec in Hf. cbn [snd] in Hf.
      assert (Hbu : In b U) by (apply Hincl; apply in_map_iff; exists (b, d'); split; [reflexivity|exact Hb]).
      apply (g_fname_inj K U G b a Hbu Ha) in E. subst b.
      assert (d = d') by (eapply NoDup_fst_unique; eassumption). subst d'. rewrite Hd in Hf. discriminate.
Qed.

Lemma final_done_nodup st rs :
  ready K U st rs -> NoDup (done_names st) -> NoDup (map fst (final_done K st rs)).
Proof.
  intros [Hm [Hnd [Hincl Hfresh]]] Hold. unfold final_done. rewrite map_app, map_map. cbn [fst].
  apply NoDup_app_intro; [exact Hold| |].
  - rewrite <- map_map. apply NoDup_map_inj_in.
    + intros x y Hx Hy. apply (g_fname_inj K U G).
      * apply Hincl. apply in_map_iff in Hx. destruct Hx as [r [E Hr]]. apply filter_In in Hr. apply in_map_iff. exists r. split; [exact E|apply Hr].
      * apply Hincl. apply in_map_iff in Hy. destruct Hy as [r [E Hr]]. apply filter_In in Hr. apply in_map_iff. exists r. split; [exact E|apply Hr].
    + apply NoDup_map_filter. exact Hnd.
  - intros x Hx Hin. apply in_map_iff in Hin. destruct Hin as [r [E Hr]]. apply filter_In in Hr. destruct Hr as [Hr _].
    subst x. apply (Hfresh (fst r)); [apply in_map; exact Hr|exact Hx].
Qed.

(** no second not-completed entry either, when none of the failing inputs had one before *)
Lemma final_nc_nodup st rs :
  ready K U st rs -> NoDup (map fst (st_nc st)) ->
  (forall r, In r rs -> failed_rec r = true -> ~ In (k_ncname K (fst r)) (map fst (st_nc st))) ->
  NoDup (map fst (final_nc K st rs)).
Proof.
  intros [Hm [Hnd [Hincl Hfresh]]] Hold Hnew. unfold final_nc. rewrite map_app, map_map. cbn [fst].
  apply NoDup_app_intro.
  - apply NoDup_map_filter. exact Hold.
  - rewrite <- map_map. apply NoDup_map_inj_in.
    + intros x y Hx Hy. apply (g_ncname_inj K U G).
      * apply Hincl. apply in_map_iff in Hx. destruct Hx as [r [E Hr]]. apply filter_In in Hr. apply in_map_iff. exists r. split; [exact E|apply Hr].
      * apply Hincl. apply in_map_iff in Hy. destruct Hy as [r [E Hr]]. apply filter_In in Hr. apply in_map_iff. exists r. split; [exact E|apply Hr].
    + apply NoDup_map_filter. exact Hnd.
  - intros x Hx Hin. apply in_map_iff in Hin. destruct Hin as [r [E Hr]]. apply filter_In in Hr. destruct Hr as [Hr Hf].
    subst x. apply (Hnew r Hr Hf). apply in_map_iff in Hx. destruct Hx as [e [E He]]. apply filter_In in He.
    apply in_map_iff. exists e. split; [exact E|apply He].
Qed.
End Order.

(* ------------------------------------------------------------------ apply_to *)

Definition item_rec (it : item) : option rec :=
  option_map (fun id => (id, result_data it)) (result_id it).

Definition rec_or (it : item) : rec :=
  match item_rec it with Some r => r | None => ([], VNone) end.

Lemma write_results_exc K l e : fold_left (write_result K) l (Exc e) = Exc e.
Proof. induction l as [|x l IH]; simpl; [reflexivity|exact IH]. Qed.

Lemma write_results_puts K : forall its st,
  Forall (fun it => item_rec it <> None) its ->
  write_results K st its = puts K st (map rec_or its).
Proof.
  induction its as [|it its IH]; intros st HF; [reflexivity|].
  inversion HF as [|x l Hit HF']; subst.
  unfold write_results. cbn [fold_left map puts].
  unfold rec_or at 1. unfold item_rec in *. unfold write_result at 2.
  destruct (result_id it) as [id|]; [|exfalso; apply Hit; reflexivity]. cbn [option_map]. unfold put. cbn [fst snd].
  destruct (writer_main K st (result_data it) (Some id)) as [st'|e].
  - apply IH. exact HF'.
  - apply write_results_exc.
Qed.

Lemma collect_spec K st : forall ms ids seen,
  map (fun m => unique_id_of (source_of m)) ms = map Some ids ->
  NoDup (map fst seen ++ ids) ->
  collect K st seen ms = Ok (seen ++ filter (fun p => negb (contains K st (fst p))) (combine ids ms)).
Proof.
  induction ms as [|m ms IH]; intros ids seen Hids Hnd.
  - destruct ids; [|discriminate]. simpl. rewrite app_nil_r. reflexivity.
  - destruct ids as [|id ids]; [discriminate|]. cbn [map] in Hids. inversion Hids as [[Hid Hrest]].
    cbn [collect]. rewrite Hid.
    assert (Hnot : mem_str id (map fst seen) = false).
    { apply mem_str_notIn. intros Hin. apply NoDup_remove_2 in Hnd. apply Hnd. apply in_or_app. left. exact Hin. }
    rewrite Hnot. cbn [combine filter fst].
    destruct (contains K st id) eqn:Hc; cbn [negb].
    + apply IH; [exact Hrest|]. apply NoDup_remove_1 in Hnd. exact Hnd.
    + rewrite (IH ids (seen ++ [(id, m)])); [|exact Hrest|].
      * rewrite <- app_assoc. reflexivity.
      * rewrite map_app. cbn [map fst]. rewrite <- app_assoc. exact Hnd.
Qed.

Lemma proxy_input_plain l : (forall m, In m l -> truthy m = true) -> proxy_input l = map item_of l.
Proof.
  induction l as [|m l IH]; intros H; [reflexivity|].
  unfold proxy_input in *. cbn [flat_map map]. rewrite (H m (or_introl eq_refl)). cbn [app].
  f_equal. apply IH. intros x Hx. apply H. right. exact Hx.
Qed.

Lemma result_data_wrapped chain m : result_data (source_wrapped chain (item_of m)) = call chain m.
Proof. unfold item_of. destruct (has_source_attr m); reflexivity. Qed.

Lemma nth_seq_flat {A} : forall (rs pre : list A),
  flat_map (fun i => match nth_error (pre ++ rs) i with Some r => [r] | None => [] end) (seq (length pre) (length rs)) = rs.
Proof.
  induction rs as [|x rs IH]; intros pre; [reflexivity|].
  cbn [length seq flat_map]. rewrite nth_error_app2 by apply Nat.le_refl. rewrite Nat.sub_diag. cbn [nth_error app].
  f_equal. specialize (IH (pre ++ [x])). rewrite <- app_assoc in IH. cbn [app] in IH.
  rewrite app_length in IH. cbn [length] in IH. rewrite Nat.add_1_r in IH. exact IH.
Qed.

Lemma reorder_perm {A} (sched : list nat) (rs : list A) :
  Permutation sched (seq 0 (length rs)) -> Permutation (reorder sched rs) rs.
Proof.
  intros P. unfold reorder.
  pose proof (nth_seq_flat rs []) as H. cbn [app length] in H.
  eapply perm_trans; [apply Permutation_flat_map; exact P|]. rewrite H. apply Permutation_refl.
Qed.

Lemma combine_fst_map {A B} : forall (l1 : list A) (l2 : list B), length l1 = length l2 -> map fst (combine l1 l2) = l1.
Proof.
  induction l1 as [|x l1 IH]; intros [|y l2] H; simpl in *; try discriminate; [reflexivity|].
  f_equal. apply IH. congruence.
Qed.

Section ApplyTo.
Variable K : skind.
Variable U : list str.
Hypothesis G : good_kind K U.
Variable chain : list step.
Variable st : store.
Variable inputs : list value.
Variable ids : list str.
Hypothesis Hchain : chain <> [].
Hypothesis Hinputs : inputs <> [].
Hypothesis Hmode : st_mode st <> 0.
Hypothesis Hids : map (fun m => unique_id_of (source_of m)) inputs = map Some ids.
Hypothesis Hnodup : NoDup ids.
Hypothesis Hincl : incl ids U.
Hypothesis Hplain : forall m, In m inputs -> plain_input chain m.

Let todo := todo_of K st ids inputs.
Let rs := records_of chain todo.

Lemma ids_length : length ids = length inputs.
Proof. apply (f_equal (@length _)) in Hids. rewrite !map_length in Hids. symmetry. exact Hids. Qed.

Lemma todo_in p : In p todo -> In (fst p) ids /\ In (snd p) inputs /\ contains K st (fst p) = false
                                /\ unique_id_of (source_of (snd p)) = Some (fst p).
Proof.
  intros H. unfold todo, todo_of in H. apply filter_In in H. destruct H as [Hc Hn].
  destruct p as [id m]. cbn [fst snd] in *.
  split; [eapply in_combine_l; exact Hc|]. split; [eapply in_combine_r; exact Hc|].
  split; [destruct (contains K st id); [discriminate|reflexivity]|].
  clear Hn. revert Hc. generalize Hids. clear. revert ids.
  induction inputs as [|x l IH]; intros [|i ids] Hids Hc; simpl in *; try contradiction.
  inversion Hids as [[H1 H2]]. destruct Hc as [E|Hc]; [inversion E; subst; exact H1|]. eapply IH; eassumption.
Qed.

Lemma ready_todo : ready K U st rs.
Proof.
  assert (Hfst : map fst rs = map fst todo).
  { unfold rs, records_of. rewrite map_map. reflexivity. }
  split; [exact Hmode|]. rewrite Hfst. split.
  - unfold todo, todo_of. apply NoDup_map_filter. rewrite combine_fst_map; [exact Hnodup|apply ids_length].
  - split.
    + intros a Ha. apply in_map_iff in Ha. destruct Ha as [p [E Hp]]. subst a. apply Hincl. apply (todo_in p Hp).
    + intros a Ha Hin. apply in_map_iff in Ha. destruct Ha as [p [E Hp]]. subst a.
      destruct (todo_in p Hp) as [Hi [_ [Hc _]]]. unfold contains in Hc.
      rewrite (g_item_fname K U G _ (Hincl _ Hi)) in Hc. apply mem_str_notIn in Hc. contradiction.
Qed.

Lemma serial_items :
  let its := map (source_wrapped chain) (proxy_input (map snd todo)) in
  Forall (fun it => item_rec it <> None) its /\ map rec_or its = rs.
Proof.
  cbv zeta. rewrite proxy_input_plain.
  2:{ intros m Hm. apply in_map_iff in Hm. destruct Hm as [p [E Hp]]. subst m. apply (Hplain _ (proj1 (proj2 (todo_in p Hp)))). }
  assert (Hrec : forall p, In p todo -> item_rec (source_wrapped chain (item_of (snd p))) = Some (fst p, call chain (snd p))).
  { intros p Hp. destruct (todo_in p Hp) as [_ [Hm [_ Hid]]]. unfold item_rec.
    rewrite (proj2 (Hplain _ Hm)), Hid. cbn [option_map]. rewrite result_data_wrapped. reflexivity. }
  split.
  - apply Forall_forall. intros it Hit. rewrite !map_map in Hit. apply in_map_iff in Hit. destruct Hit as [p [E Hp]]. subst it.
    rewrite (Hrec p Hp). discriminate.
  - unfold rs, records_of. rewrite !map_map. apply map_ext_in. intros p Hp. unfold rec_or. rewrite (Hrec p Hp). reflexivity.
Qed.

Lemma apply_to_unfold sched :
  apply_to K chain st inputs sched false =
    write_results K st (match sched with
                        | None => map (source_wrapped chain) (proxy_input (map snd todo))
                        | Some p => reorder p (map (source_wrapped chain) (proxy_input (map snd todo)))
                        end).
Proof.
  unfold apply_to. destruct chain as [|c0 ch]; [congruence|].
  rewrite (collect_spec K st inputs ids []); [|exact Hids|exact Hnodup]. cbn [app].
  destruct inputs as [|i0 ins]; [congruence|]. cbn [is_empty]. fold todo.
  change (filter (fun p => negb (contains K st (fst p))) (combine ids (i0 :: ins))) with todo.
  destruct (write_results K st _) as [s|e]; reflexivity.
Qed.

(** serial execution leaves exactly the dictionary of the specification *)
Lemma apply_to_serial :
  apply_to K chain st inputs None false =
    Ok (mkstore (final_done K st rs) (final_nc K st rs) (st_logs st) (st_mode st)).
Proof.
  rewrite apply_to_unfold. destruct serial_items as [HF Hrs].
  rewrite write_results_puts by exact HF. rewrite Hrs. apply (puts_final K U G). apply ready_todo.
Qed.

(** the results written in ANY order (any permutation of the serial result list) leave the same dictionary *)
Lemma results_any_permutation its' :
  Permutation its' (map (source_wrapped chain) (proxy_input (map snd todo))) ->
  exists st', write_results K st its' = Ok st' /\
    Permutation (st_done st') (final_done K st rs) /\ Permutation (st_nc st') (final_nc K st rs) /\
    st_logs st' = st_logs st /\ st_mode st' = st_mode st.
Proof.
  intros Pits. destruct serial_items as [HF Hrs].
  set (its := map (source_wrapped chain) (proxy_input (map snd todo))) in *.
  assert (HF' : Forall (fun it => item_rec it <> None) its').
  { eapply Permutation_Forall; [apply Permutation_sym; exact Pits|exact HF]. }
  rewrite write_results_puts by exact HF'.
  assert (Prs : Permutation rs (map rec_or its')).
  { rewrite <- Hrs. apply Permutation_map. apply Permutation_sym. exact Pits. }
  destruct (puts_any_order K U G st rs _ ready_todo Prs) as [st1 [st2 [H1 [H2 [Pd [Pn [Hl Hmo]]]]]]].
  rewrite (puts_final K U G rs st ready_todo) in H1. inversion H1; subst st1. cbn [st_done st_nc st_logs st_mode] in *.
  exists st2. split; [exact H2|]. split; [apply Permutation_sym; exact Pd|]. split; [apply Permutation_sym; exact Pn|].
  split; symmetry; assumption.
Qed.

(** every completion order leaves the same dictionary *)
Lemma apply_to_any_schedule sched :
  Permutation sched (seq 0 (length todo)) ->
  exists st', apply_to K chain st inputs (Some sched) false = Ok st' /\
    Permutation (st_done st') (final_done K st rs) /\ Permutation (st_nc st') (final_nc K st rs) /\
    st_logs st' = st_logs st /\ st_mode st' = st_mode st.
Proof.
  intros P. rewrite apply_to_unfold. apply results_any_permutation.
  apply reorder_perm.
  rewrite proxy_input_plain.
  - rewrite !map_length. exact P.
  - intros m Hm. apply in_map_iff in Hm. destruct Hm as [p [E Hp]]. subst m. apply (Hplain _ (proj1 (proj2 (todo_in p Hp)))).
Qed.

(** any partition of the task list into worker chunks, processed chunk by chunk and delivered in
    any interleaving, leaves the same dictionary *)
Lemma chunking_irrelevant_lemma (chunks : list (list item)) its' :
  Permutation (concat chunks) (proxy_input (map snd todo)) ->
  Permutation its' (concat (map (map (source_wrapped chain)) chunks)) ->
  exists st', write_results K st its' = Ok st' /\
    Permutation (st_done st') (final_done K st rs) /\ Permutation (st_nc st') (final_nc K st rs) /\
    st_logs st' = st_logs st /\ st_mode st' = st_mode st.
Proof.
  intros Pc Pi. apply results_any_permutation.
  eapply perm_trans; [exact Pi|]. rewrite <- concat_map. apply Permutation_map. exact Pc.
Qed.
End ApplyTo.

(* ------------------------------------------------------------------ instances, non-vacuity, refutations *)

Lemma dict_good U : (forall a, In a U -> a <> []) -> good_kind dict_kind U.
Proof. intros H. constructor; simpl; try reflexivity; auto. Qed.

Lemma good_kind_b_sound K U : good_kind_b K U = true -> good_kind K U.
Proof.
  unfold good_kind_b. intros H. rewrite forallb_forall in H.
  assert (H1 : forall a, In a U ->
     k_item K a = k_fname K a /\ k_item K (k_fname K a) = k_fname K a /\ k_item K (k_ncname K a) = k_fname K a /\ a <> [] /\
     forall b, In b U -> (k_fname K a = k_fname K b -> a = b) /\ (k_ncname K a = k_ncname K b -> a = b)
                         /\ k_retire K (k_ncname K a) b = str_eqb a b).
  { intros a Ha. specialize (H a Ha). repeat (apply andb_true_iff in H; destruct H as [H ?]).
    repeat match goal with X : str_eqb _ _ = true |- _ => apply str_eqb_eq in X end.
    split; [assumption|]. split; [assumption|]. split; [assumption|].
    split; [intros ->; discriminate|].
    intros b Hb. rewrite forallb_forall in H0. specialize (H0 b Hb).
    repeat (apply andb_true_iff in H0; destruct H0 as [H0 ?]).
    split; [|split].
    - intros E. apply orb_true_iff in H0. destruct H0 as [H0|H0]; [|apply str_eqb_eq; exact H0].
      rewrite E, str_eqb_refl in H0. discriminate.
    - intros E. apply orb_true_iff in H5. destruct H5 as [H5|H5]; [|apply str_eqb_eq; exact H5].
      rewrite E, str_eqb_refl in H5. discriminate.
    - apply Bool.eqb_prop. assumption. }
  constructor.
  - intros a Ha. apply (H1 a Ha).
  - intros a Ha. apply (H1 a Ha).
  - intros a Ha. apply (H1 a Ha).
  - intros a b Ha Hb E. destruct (H1 a Ha) as [_ [_ [_ [_ Q]]]]. destruct (Q b Hb) as [A _]. exact (A E).
  - intros a b Ha Hb E. destruct (H1 a Ha) as [_ [_ [_ [_ Q]]]]. destruct (Q b Hb) as [_ [B _]]. exact (B E).
  - intros a b Ha Hb. destruct (H1 a Ha) as [_ [_ [_ [_ Q]]]]. destruct (Q b Hb) as [_ [_ C]]. exact C.
  - intros a Ha. apply (H1 a Ha).
Qed.

Lemma plain_str chain s : s <> [] -> plain_input chain (VStr s).
Proof. intros H. split; [destruct s; [congruence|reflexivity]|reflexivity]. Qed.

(** identifiers a, bb, c3, x_1, dd4: the directory store behaves like a dictionary on them *)
Definition sample_ids : list str := [[97]; [98;98]; [99;51]; [120;95;49]; [100;100;52]].

Lemma dir_good_sample : good_kind dir_kind sample_ids.
Proof. apply good_kind_b_sound. vm_compute. reflexivity. Qed.

Definition st0 : store := mkstore [] [] 0 1.
Definition an_nc : value := VNC s_ERROR [108] [98;111;111;109] None.
Definition an_obj : value := VObj [84;65] [107] [108;59] None true.

(** the hypotheses of [apply_to_any_schedule] are satisfiable by a real run: three inputs, one failing *)
Definition sample_chain : list step :=
  [mkstep [108] LOADER None true (fun v => match v with VStr [98;98;46;102;97] => Raise [98;111;111;109]
                                                 | VStr s => Ret (VObj [84;65] s [108;59] (Some s) true) | _ => Ret VNone end)].
Definition sample_inputs : list value := [VStr [97;46;102;97]; VStr [98;98;46;102;97]; VStr [99;51;46;102;97]].

Lemma sample_run_meets_hypotheses :
  sample_chain <> [] /\ sample_inputs <> [] /\ st_mode st0 <> 0 /\
  map (fun m => unique_id_of (source_of m)) sample_inputs = map Some (firstn 3 sample_ids) /\
  NoDup (firstn 3 sample_ids) /\ incl (firstn 3 sample_ids) sample_ids /\
  (forall m, In m sample_inputs -> plain_input sample_chain m) /\
  exists st', apply_to dir_kind sample_chain st0 sample_inputs (Some [2;0;1]%nat) false = Ok st'
              /\ length (st_done st') = 2%nat /\ length (st_nc st') = 1%nat.
Proof.
  split; [discriminate|]. split; [discriminate|]. split; [discriminate|]. split; [vm_compute; reflexivity|].
  split.
  { cbn. repeat constructor; cbn; intuition discriminate. }
  split; [intros x Hx; cbn in *; intuition|].
  split.
  { intros m Hm. cbn in Hm. destruct Hm as [<-|[<-|[<-|[]]]]; apply plain_str; discriminate. }
  eexists. split; [vm_compute; reflexivity|]. split; reflexivity.
Qed.

(** DataStoreDirectory retires not-completed records by `endswith`: with identifiers "ba" (fails)
    and "a" (completes) the final store depends on the completion order and one input is lost *)
Lemma dir_suffix_ids_witness :
  exists rs rs' s1 s2, Permutation rs rs' /\ NoDup (map fst rs) /\
    puts dir_kind st0 rs = Ok s1 /\ puts dir_kind st0 rs' = Ok s2 /\
    length (st_nc s1) = 0%nat /\ length (st_nc s2) = 1%nat.
Proof.
  exists [([98;97], an_nc); ([97], an_obj)], [([97], an_obj); ([98;97], an_nc)].
  eexists. eexists. split; [apply perm_swap|]. split.
  { cbn. repeat constructor; cbn; intuition discriminate. }
  split; [vm_compute; reflexivity|]. split; [vm_compute; reflexivity|]. split; reflexivity.
Qed.

(** DataStoreDirectory files a completed record under Path(id).stem: "g.v1" and "g.v2" collide
    and the second record is silently not written *)
Lemma dir_dotted_ids_witness :
  exists rs s1, NoDup (map fst rs) /\ puts dir_kind st0 rs = Ok s1 /\ length rs = 2%nat /\
    length (st_done s1) = 1%nat /\ length (st_nc s1) = 0%nat.
Proof.
  exists [([103;46;118;49], an_obj); ([103;46;118;50], an_obj)]. eexists. split.
  { cbn. repeat constructor; cbn; intuition discriminate. }
  split; [vm_compute; reflexivity|]. repeat split.
Qed.

(** a failing input that already has a not-completed record gets a second live member (any store kind) *)
Lemma rerun_live_duplicate_witness :
  exists st rs s1, ready dict_kind [[97]] st rs /\ puts dict_kind st rs = Ok s1 /\ ~ NoDup (map fst (st_nc s1)).
Proof.
  exists (mkstore [] [([97], an_nc)] 0 2), [([97], an_nc)]. eexists.
  split.
  { split; [discriminate|]. split; [repeat constructor; intros []|]. split; [intros x Hx; exact Hx|]. intros a _ []. }
  split; [vm_compute; reflexivity|]. intros H. inversion H as [|x l Hx _]; subst. apply Hx. left. reflexivity.
Qed.

(** _proxy_input drops falsy inputs: the empty str leaves no record and no error *)
Lemma falsy_input_dropped_witness :
  exists chain inputs st', NoDup (map (fun m => unique_id_of (source_of m)) inputs) /\
    apply_to dict_kind chain st0 inputs None false = Ok st' /\
    length inputs = 2%nat /\ (length (st_done st') + length (st_nc st') = 1)%nat.
Proof.
  exists sample_chain, [VStr []; VStr [97;46;102;97]]. eexists. split.
  { vm_compute. repeat constructor; cbn; intuition discriminate. }
  split; [vm_compute; reflexivity|]. split; reflexivity.
Qed.

(** an input carrying its own .source is not proxied: a NotCompleted without source makes apply_to raise *)
Lemma bare_input_raises_witness :
  exists chain inputs, apply_to dict_kind chain st0 inputs None false = Exc E_Type.
Proof.
  exists [mkstep [103] GENERIC None true (fun _ => Ret (VNC s_FALSE [103] [109] None))],
         [VObj [84;65] [107] [] (Some [111;46;102;97]) true].
  vm_compute. reflexivity.
Qed.

Lemma chunking_irrelevant_full : forall K U, good_kind K U -> forall chain st inputs ids,
  chain <> [] -> inputs <> [] -> st_mode st <> 0 ->
  map (fun m => unique_id_of (source_of m)) inputs = map Some ids ->
  NoDup ids -> incl ids U ->
  (forall m, In m inputs -> plain_input chain m) ->
  forall (chunks : list (list item)) its',
  Permutation (concat chunks) (proxy_input (map snd (todo_of K st ids inputs))) ->
  Permutation its' (concat (map (map (source_wrapped chain)) chunks)) ->
  exists st', write_results K st its' = Ok st' /\
    Permutation (st_done st') (final_done K st (records_of chain (todo_of K st ids inputs))) /\
    Permutation (st_nc st') (final_nc K st (records_of chain (todo_of K st ids inputs))) /\
    st_logs st' = st_logs st /\ st_mode st' = st_mode st.
Proof. intros. eapply chunking_irrelevant_lemma; eassumption. Qed.

(* ------------------------------------------------------------------ invocations: each stage at most once, in order *)

Definition stage_log (self : step) (w : value) (lg : list (str * value)) : value * list (str * value) :=
  match validate self w with
  | Some f => (f, lg)
  | None => (run_main self w, lg ++ [(s_name self, w)])
  end.

Lemma call_log_one_step self ups v :
  is_nc v = false -> v <> VNone ->
  call_log (self :: ups) v =
    match ups with
    | [] => stage_log self v []
    | _ :: _ => if is_loader (s_kind self) then stage_log self v []
                else let '(w, lg) := call_log ups v in
                     if is_nc w && s_skip self then (w, lg) else stage_log self w lg
    end.
Proof.
  intros Hnc Hnone. unfold stage_log. cbn [call_log].
  assert (Hval : match v with VNone => mk_nc s_ERROR (s_name self) m_none_in None | _ => v end = v)
    by (destruct v; congruence || reflexivity).
  rewrite Hval, Hnc. cbn [andb].
  destruct ups as [|u ups'].
  - destruct (validate self v); reflexivity.
  - destruct (is_loader (s_kind self)).
    + destruct (validate self v); reflexivity.
    + destruct (call_log (u :: ups') v) as [w lg]. destruct (is_nc w && s_skip self); [reflexivity|].
      destruct (validate self w); reflexivity.
Qed.

Lemma validate_some_is_nc s v f : validate s v = Some f -> is_nc f = true.
Proof.
  intros H. destruct (is_nc v) eqn:Hv.
  - unfold validate in H. rewrite Hv in H. simpl in H. destruct (s_skip s).
    + inversion H; subst. exact Hv.
    + destruct (s_types s) as [tys|]; [|discriminate]. destruct v; try discriminate. simpl in H.
      match type of H with (if ?c then _ else _) = _ => destruct c end; [discriminate|]. inversion H. reflexivity.
  - destruct (validate_reject_origin s v f Hv H) as [m [src ->]]. reflexivity.
Qed.

Lemma call_log_prefix stages v :
  stages <> [] -> all_skip stages ->
  (forall s, In s (tl stages) -> s_kind s <> LOADER) ->
  is_nc v = false -> v <> VNone ->
  exists k, (k <= length stages)%nat /\
    map fst (snd (call_log (rev stages) v)) = map s_name (firstn k stages) /\
    (is_nc (fst (call_log (rev stages) v)) = false -> k = length stages).
Proof.
  intros Hne Hall Hld Hnc Hnone. induction stages as [|s l IH] using rev_ind; [congruence|].
  rewrite rev_unit. rewrite (call_log_one_step _ _ _ Hnc Hnone).
  assert (Hs_skip : s_skip s = true) by (apply Hall; apply in_or_app; right; left; reflexivity).
  assert (Hstage : forall w lg kk, (kk = length l) -> map fst lg = map s_name (firstn kk l) ->
            exists k, (k <= length (l ++ [s]))%nat /\
              map fst (snd (stage_log s w lg)) = map s_name (firstn k (l ++ [s])) /\
              (is_nc (fst (stage_log s w lg)) = false -> k = length (l ++ [s]))).
  { intros w lg kk -> Hlg. unfold stage_log. destruct (validate s w) eqn:Hval.
    - exists (length l). rewrite app_length. split; [apply Nat.le_add_r|]. cbn [fst snd].
      split; [rewrite Hlg, firstn_app, Nat.sub_diag, firstn_all; cbn [firstn]; rewrite app_nil_r; reflexivity|].
      intros Hf. rewrite (validate_some_is_nc _ _ _ Hval) in Hf. discriminate.
    - exists (length (l ++ [s])). split; [apply Nat.le_refl|]. cbn [fst snd]. split; [|reflexivity].
      rewrite firstn_all, map_app, Hlg, firstn_all, map_app. reflexivity. }
  destruct l as [|a l'].
  - apply (Hstage v [] 0%nat); reflexivity.
  - assert (Hs : is_loader (s_kind s) = false).
    { destruct (s_kind s) eqn:E; try reflexivity. exfalso. apply (Hld s); [|exact E].
      simpl. apply in_or_app. right. left. reflexivity. }
    destruct (IH) as [k [Hk [Hnames Hfull]]].
    { discriminate. }
    { intros x Hx. apply Hall. apply in_or_app. left. exact Hx. }
    { intros s' Hs'. apply Hld. simpl in *. apply in_or_app. left. exact Hs'. }
    destruct (rev (a :: l')) as [|u ups'] eqn:Er.
    { apply (f_equal (@length step)) in Er. rewrite rev_length in Er. discriminate. }
    rewrite Hs. destruct (call_log (u :: ups') v) as [w lg] eqn:El. cbn [fst snd] in *.
    rewrite Hs_skip, andb_true_r. destruct (is_nc w) eqn:Hw.
    + exists k. rewrite app_length. split; [apply Nat.le_trans with (length (a :: l')); [exact Hk|apply Nat.le_add_r]|].
      cbn [fst snd]. split; [|intros; congruence].
      rewrite Hnames. rewrite firstn_app. replace (k - length (a :: l'))%nat with 0%nat by (symmetry; apply Nat.sub_0_le; exact Hk).
      cbn [firstn]. rewrite app_nil_r. reflexivity.
    + apply (Hstage w lg k); [apply Hfull; reflexivity|exact Hnames].
Qed.

(** the duplicate check of apply_to *)
Lemma collect_rejects_duplicate K st seen m r id :
  unique_id_of (source_of m) = Some id -> In id (map fst seen) -> collect K st seen (m :: r) = Exc E_Value.
Proof. intros H Hin. cbn [collect]. rewrite H. apply mem_str_In in Hin. rewrite Hin. reflexivity. Qed.

(** logging only adds the log record *)
Lemma apply_to_logging K chain st inputs sched :
  apply_to K chain st inputs sched true =
    match apply_to K chain st inputs sched false with
    | Exc e => Exc e
    | Ok st' =>
        match check_writable K st' s_dotlog with
        | Some e => Exc e
        | None => Ok (mkstore (st_done st') (st_nc st') (st_logs st' + 1) (st_mode st'))
        end
    end.
Proof.
  unfold apply_to. destruct chain as [|c ch]; [reflexivity|].
  destruct (collect K st [] inputs) as [todo|e]; [|reflexivity].
  destruct (is_empty inputs); [reflexivity|].
  destruct (write_results K st _) as [st'|e]; reflexivity.
Qed.

(* ------------------------------------------------------------------ the repaired directory store *)

(** identifiers a, ba, cba, bb: each a suffix of the next ones *)
Definition suffix_ids : list str := [[97]; [98;97]; [99;98;97]; [98;98]].

(** with exact-name retirement the directory store is a dictionary on suffix-related identifiers ... *)
Lemma dir_fixed_good_suffix_ids : good_kind dir_kind_fixed suffix_ids.
Proof. apply good_kind_b_sound. vm_compute. reflexivity. Qed.

Lemma dir_fixed_good_sample : good_kind dir_kind_fixed sample_ids.
Proof. apply good_kind_b_sound. vm_compute. reflexivity. Qed.

(** ... which the pinned `endswith` rule is not *)
Lemma dir_pinned_not_good_suffix_ids : good_kind_b dir_kind suffix_ids = false.
Proof. vm_compute. reflexivity. Qed.

(** the witness of [dir_suffix_ids_witness] under the repaired store: both orders keep both records *)
Lemma dir_fixed_suffix_ids_both_orders :
  exists s1 s2,
    puts dir_kind_fixed st0 [([98;97], an_nc); ([97], an_obj)] = Ok s1 /\
    puts dir_kind_fixed st0 [([97], an_obj); ([98;97], an_nc)] = Ok s2 /\
    length (st_nc s1) = 1%nat /\ length (st_nc s2) = 1%nat /\ length (st_done s1) = 1%nat /\ length (st_done s2) = 1%nat.
Proof. eexists. eexists. split; [vm_compute; reflexivity|]. split; [vm_compute; reflexivity|]. repeat split. Qed.

(* ================================================================== the repaired code *)

(* ------------------------------------------------------------------ the repaired code: store *)

Lemma upsert_absent {A} n (x : A) l : mem_str n (map fst l) = false -> upsert n x l = l ++ [(n, x)].
Proof. intros H. unfold upsert. rewrite H. reflexivity. Qed.

Lemma upsert_present {A} n (x : A) l : mem_str n (map fst l) = true ->
  upsert n x l = map (fun e => if str_eqb (fst e) n then (n, x) else e) l.
Proof. intros H. unfold upsert. rewrite H. reflexivity. Qed.

Lemma replace_names {A} n (x : A) l :
  map fst (map (fun e : str * A => if str_eqb (fst e) n then (n, x) else e) l) = map fst l.
Proof.
  rewrite map_map. apply map_ext. intros e. destruct (str_eqb (fst e) n) eqn:E; [|reflexivity].
  apply str_eqb_eq in E. symmetry. exact E.
Qed.

Lemma find_none_intro {A} (p : A -> bool) l : (forall x, In x l -> p x = false) -> find p l = None.
Proof.
  induction l as [|x l IH]; intros H; simpl; [reflexivity|].
  rewrite (H x (or_introl eq_refl)). apply IH. intros y Hy. apply H. right. exact Hy.
Qed.

Lemma filter_map_comm {A} (p : A -> bool) (f : A -> A) l :
  (forall x, p (f x) = p x) -> filter p (map f l) = map f (filter p l).
Proof.
  intros H. induction l as [|x l IH]; simpl; [reflexivity|]. rewrite H. destruct (p x); simpl; rewrite IH; reflexivity.
Qed.

Lemma str_eqb_sym a b : str_eqb a b = str_eqb b a.
Proof.
  destruct (str_eqb a b) eqn:E.
  - apply str_eqb_eq in E. subst. symmetry. apply str_eqb_refl.
  - symmetry. apply str_eqb_neq. apply str_eqb_neq in E. congruence.
Qed.

Lemma mem_str_app x l1 l2 : mem_str x (l1 ++ l2) = mem_str x l1 || mem_str x l2.
Proof. unfold mem_str. apply existsb_app. Qed.

Lemma mem_filter_names {A} (g : str * A -> bool) m l :
  (forall e, fst e = m -> g e = true) ->
  mem_str m (map fst (filter g l)) = mem_str m (map fst l).
Proof.
  intros H. destruct (mem_str m (map fst l)) eqn:E.
  - apply mem_str_In. apply mem_str_In in E. apply in_map_iff in E. destruct E as [e [E He]].
    apply in_map_iff. exists e. split; [exact E|]. apply filter_In. split; [exact He|apply H; exact E].
  - apply mem_str_notIn. apply mem_str_notIn in E. intros Hin. apply E. apply in_map_iff in Hin.
    destruct Hin as [e [E' He]]. apply filter_In in He. apply in_map_iff. exists e. split; [exact E'|apply He].
Qed.

Section StoreR.
Variable K : skind.
Variable U : list str.
Hypothesis G : good_kind K U.

Lemma put_completed_r st a d :
  In a U -> st_mode st <> 0 -> ~ In (k_fname K a) (done_names st) -> is_nc d = false ->
  put_r K st (a, d) =
    Ok (mkstore (st_done st ++ [(k_fname K a, (a, d))])
                (filter (fun e => negb (k_retire K (fst e) a)) (st_nc st)) (st_logs st) (st_mode st)).
Proof.
  intros Ha Hm Hn Hd. unfold put_r, writer_main_v. cbn [fst snd].
  assert (Hid : match a with [] => unique_id_of (source_of d) | c :: s => Some (c :: s) end = Some a).
  { destruct a; [exfalso; eapply (g_nonempty K U G); [exact Ha|reflexivity]|reflexivity]. }
  rewrite Hid, Hd. unfold write_v, check_writable, contains.
  apply Z.eqb_neq in Hm. rewrite Hm.
  rewrite (g_item_fname K U G a Ha).
  apply mem_str_notIn in Hn. rewrite Hn. cbn [andb repaired v_upsert].
  rewrite upsert_absent by exact Hn. reflexivity.
Qed.

Lemma put_failed_r st a d :
  In a U -> st_mode st <> 0 -> ~ In (k_fname K a) (done_names st) -> is_nc d = true ->
  put_r K st (a, d) =
    Ok (mkstore (st_done st) (upsert (k_ncname K a) d (st_nc st)) (st_logs st) (st_mode st)).
Proof.
  intros Ha Hm Hn Hd. unfold put_r, writer_main_v. cbn [fst snd].
  assert (Hid : match a with [] => unique_id_of (source_of d) | c :: s => Some (c :: s) end = Some a).
  { destruct a; [exfalso; eapply (g_nonempty K U G); [exact Ha|reflexivity]|reflexivity]. }
  rewrite Hid, Hd. unfold write_nc_v, check_writable, contains.
  apply Z.eqb_neq in Hm. rewrite Hm.
  rewrite (g_item_nc K U G a Ha).
  apply mem_str_notIn in Hn. rewrite Hn. reflexivity.
Qed.

(** no later record of a run touches the not-completed name of an earlier failed one *)
Lemma later_do_not_retire a d rs :
  In a U -> incl (map fst rs) U -> ~ In a (map fst rs) ->
  retired_by K rs (k_ncname K a, d) = false.
Proof.
  intros Ha Hincl Hna. unfold retired_by. apply existsb_false. intros [b db] Hb. cbn [fst snd].
  assert (Hbin : In b (map fst rs)) by (apply in_map_iff; exists (b, db); split; [reflexivity|exact Hb]).
  rewrite (g_retire K U G a b Ha (Hincl b Hbin)).
  assert (H : a <> b) by (intros ->; contradiction).
  apply str_eqb_neq in H. rewrite H. apply andb_false_r.
Qed.

Lemma later_do_not_refresh a rs :
  In a U -> incl (map fst rs) U -> ~ In a (map fst rs) ->
  find (failed_named K (k_ncname K a)) rs = None.
Proof.
  intros Ha Hincl Hna. apply find_none_intro. intros [b db] Hb. unfold failed_named. cbn [fst snd].
  assert (Hbin : In b (map fst rs)) by (apply in_map_iff; exists (b, db); split; [reflexivity|exact Hb]).
  destruct (str_eqb (k_ncname K b) (k_ncname K a)) eqn:E; [|apply andb_false_r].
  apply str_eqb_eq in E. apply (g_ncname_inj K U G b a (Hincl b Hbin) Ha) in E. subst b. contradiction.
Qed.

Lemma puts_r_final : forall rs st,
  ready K U st rs ->
  puts_r K st rs = Ok (mkstore (final_done K st rs) (final_nc_r K st rs) (st_logs st) (st_mode st)).
Proof.
  induction rs as [|[a d] rs IH]; intros st [Hm [Hnd [Hincl Hfresh]]].
  - simpl. unfold final_done, final_nc_r, retired_by, refreshed. simpl. rewrite !app_nil_r, filter_true.
    rewrite map_id. destruct st; reflexivity.
  - cbn [map fst] in Hnd, Hincl, Hfresh. inversion Hnd as [|x l Hna Hnd']; subst.
    assert (Ha : In a U) by (apply Hincl; left; reflexivity).
    assert (Hincl' : incl (map fst rs) U) by (intros x Hx; apply Hincl; right; exact Hx).
    assert (Hfa : ~ In (k_fname K a) (done_names st)) by (apply Hfresh; left; reflexivity).
    cbn [puts_r]. destruct (is_nc d) eqn:Hd.
    + rewrite (put_failed_r st a d Ha Hm Hfa Hd).
      rewrite IH.
      2:{ split; [exact Hm|]. split; [exact Hnd'|]. split; [exact Hincl'|].
          intros b Hb. cbn. apply Hfresh. right. exact Hb. }
      f_equal. unfold final_done. cbn [st_done st_nc st_logs st_mode].
      unfold completed_rec at 2. cbn [filter snd]. rewrite Hd. cbn [negb].
      f_equal. unfold final_nc_r. cbn [st_nc].
      set (n := k_ncname K a).
      assert (Hkeep_ext : forall e, negb (retired_by K ((a, d) :: rs) e) = negb (retired_by K rs e)).
      { intros e. unfold retired_by. cbn [existsb]. change (completed_rec (a, d)) with (negb (is_nc d)). rewrite Hd. reflexivity. }
      destruct (mem_str n (map fst (st_nc st))) eqn:Hmem.
      * (* the input already had a not-completed record: replaced in place *)
        rewrite (upsert_present n d (st_nc st) Hmem).
        set (repl := fun e : str * value => if str_eqb (fst e) n then (n, d) else e).
        assert (Hfst : forall e, fst (repl e) = fst e).
        { intros e. unfold repl. destruct (str_eqb (fst e) n) eqn:E; [|reflexivity]. apply str_eqb_eq in E. symmetry. exact E. }
        rewrite filter_map_comm.
        2:{ intros e. unfold retired_by. rewrite Hfst. reflexivity. }
        rewrite map_map. f_equal.
        -- rewrite (filter_ext _ _ Hkeep_ext). apply map_ext. intros e. unfold refreshed. rewrite Hfst.
           cbn [find]. unfold failed_named at 2. cbn [fst snd]. unfold failed_rec. cbn [snd]. rewrite Hd. cbn [andb].
           fold n. unfold repl. rewrite (str_eqb_sym n (fst e)).
           destruct (str_eqb (fst e) n) eqn:E.
           ++ apply str_eqb_eq in E. rewrite E. unfold n. rewrite (later_do_not_refresh a rs Ha Hincl' Hna). reflexivity.
           ++ reflexivity.
        -- apply f_equal. cbn [filter].
           assert (Hhead : newly_failed K st (a, d) = false).
           { unfold newly_failed. cbn [fst snd]. fold n. rewrite Hmem. apply andb_false_r. }
           rewrite Hhead. apply filter_ext. intros r. unfold newly_failed. cbn [st_nc]. unfold repl.
           rewrite replace_names. reflexivity.
      * (* a new not-completed record *)
        subst n. rewrite (upsert_absent _ d (st_nc st) Hmem).
        rewrite filter_app. cbn [filter]. rewrite (later_do_not_retire a d rs Ha Hincl' Hna). cbn [negb].
        rewrite map_app. cbn [map].
        assert (Hself : refreshed K rs (k_ncname K a, d) = (k_ncname K a, d)).
        { unfold refreshed. cbn [fst]. rewrite (later_do_not_refresh a rs Ha Hincl' Hna). reflexivity. }
        rewrite Hself.
        assert (Hhead : newly_failed K st (a, d) = true).
        { unfold newly_failed, failed_rec. cbn [fst snd]. rewrite Hd, Hmem. reflexivity. }
        rewrite Hhead. cbn [map fst snd].
        rewrite <- app_assoc. cbn [app]. f_equal.
        -- rewrite (filter_ext _ _ Hkeep_ext). apply map_ext_in. intros e He. apply filter_In in He. destruct He as [He _].
           unfold refreshed. cbn [find]. unfold failed_named at 2. cbn [fst snd].
           destruct (str_eqb (k_ncname K a) (fst e)) eqn:E; [|rewrite andb_false_r; reflexivity].
           apply str_eqb_eq in E. apply mem_str_notIn in Hmem. exfalso. apply Hmem. rewrite E. apply in_map. exact He.
        -- f_equal. apply f_equal. apply filter_ext_in. intros [b db] Hb. unfold newly_failed. cbn [st_nc fst snd].
           rewrite map_app, mem_str_app. cbn [map fst mem_str existsb]. 
           assert (Hbin : In b (map fst rs)) by (apply in_map_iff; exists (b, db); split; [reflexivity|exact Hb]).
           destruct (str_eqb (k_ncname K b) (k_ncname K a)) eqn:E.
           ++ apply str_eqb_eq in E. apply (g_ncname_inj K U G b a (Hincl' b Hbin) Ha) in E. subst b. contradiction.
           ++ rewrite !orb_false_r. reflexivity.
    + rewrite (put_completed_r st a d Ha Hm Hfa Hd).
      rewrite IH.
      2:{ split; [exact Hm|]. split; [exact Hnd'|]. split; [exact Hincl'|].
          intros b Hb. unfold done_names. cbn [st_done]. rewrite map_app. cbn [map fst]. intros Hin.
          apply in_app_or in Hin. destruct Hin as [Hin|[E|[]]].
          - apply (Hfresh b (or_intror Hb)). exact Hin.
          - apply (g_fname_inj K U G) in E; [subst; contradiction|exact Ha|apply Hincl; right; exact Hb]. }
      f_equal. unfold final_done. cbn [st_done st_nc st_logs st_mode].
      unfold completed_rec at 2. cbn [filter snd]. rewrite Hd. cbn [negb map fst snd].
      f_equal; [rewrite <- app_assoc; reflexivity|].
      unfold final_nc_r. cbn [st_nc]. f_equal.
      * rewrite filter_filter.
        assert (Hf : forall e, negb (k_retire K (fst e) a) && negb (retired_by K rs e) = negb (retired_by K ((a, d) :: rs) e)).
        { intros e. unfold retired_by. cbn [existsb]. change (completed_rec (a, d)) with (negb (is_nc d)). rewrite Hd. cbn [negb andb fst].
          rewrite negb_orb. reflexivity. }
        rewrite (filter_ext _ _ Hf). apply map_ext. intros e. unfold refreshed. cbn [find].
        unfold failed_named at 2. unfold failed_rec. cbn [snd]. rewrite Hd. reflexivity.
      * cbn [filter]. unfold newly_failed at 2. unfold failed_rec at 1. cbn [snd]. rewrite Hd. cbn [andb].
        apply f_equal. apply filter_ext_in. intros [b db] Hb. unfold newly_failed. cbn [st_nc fst snd].
        destruct (failed_rec (b, db)); [|reflexivity]. cbn [andb]. f_equal.
        apply mem_filter_names. intros e He. rewrite He.
        assert (Hbin : In b (map fst rs)) by (apply in_map_iff; exists (b, db); split; [reflexivity|exact Hb]).
        rewrite (g_retire K U G b a (Hincl' b Hbin) Ha).
        assert (H : b <> a) by (intros ->; contradiction). apply str_eqb_neq in H. rewrite H. reflexivity.
Qed.
End StoreR.


Lemma find_none_iff_local {A} (p : A -> bool) l : find p l = None -> forall x, In x l -> p x = false.
Proof. intros H x Hx. apply (List.find_none _ _ H x Hx). Qed.

Lemma find_perm_unique {A} (p : A -> bool) l l' :
  Permutation l l' ->
  (forall x y, In x l -> In y l -> p x = true -> p y = true -> x = y) ->
  find p l = find p l'.
Proof.
  induction 1 as [|x l l' P IH|x y l|l l' l'' P1 IH1 P2 IH2]; intros Hu.
  - reflexivity.
  - simpl. destruct (p x); [reflexivity|]. apply IH. intros a b Ha Hb. apply Hu; right; assumption.
  - simpl. destruct (p y) eqn:Ey, (p x) eqn:Ex; try reflexivity.
    f_equal. apply Hu; [left; reflexivity|right; left; reflexivity|exact Ey|exact Ex].
  - rewrite IH1 by exact Hu. apply IH2. intros a b Ha Hb. apply Hu; eapply Permutation_in; try (apply Permutation_sym; exact P1); assumption.
Qed.

Section OrderR.
Variable K : skind.
Variable U : list str.
Hypothesis G : good_kind K U.

Lemma failed_named_unique st rs n :
  ready K U st rs ->
  forall x y, In x rs -> In y rs -> failed_named K n x = true -> failed_named K n y = true -> x = y.
Proof.
  intros [Hm [Hnd [Hincl Hfresh]]] [a d] [b d'] Hx Hy Px Py. unfold failed_named in *. cbn [fst snd] in *.
  apply andb_true_iff in Px. apply andb_true_iff in Py. destruct Px as [_ Px], Py as [_ Py].
  apply str_eqb_eq in Px. apply str_eqb_eq in Py.
  assert (Ha : In a U) by (apply Hincl; apply in_map_iff; exists (a, d); split; [reflexivity|exact Hx]).
  assert (Hb : In b U) by (apply Hincl; apply in_map_iff; exists (b, d'); split; [reflexivity|exact Hy]).
  assert (a = b) by (apply (g_ncname_inj K U G a b Ha Hb); congruence). subst b.
  f_equal. eapply NoDup_fst_unique; eassumption.
Qed.

Lemma final_nc_r_perm st rs rs' :
  ready K U st rs -> Permutation rs rs' -> Permutation (final_nc_r K st rs) (final_nc_r K st rs').
Proof.
  intros R P. unfold final_nc_r.
  replace (map (refreshed K rs) (filter (fun e => negb (retired_by K rs e)) (st_nc st)))
    with (map (refreshed K rs') (filter (fun e => negb (retired_by K rs' e)) (st_nc st))).
  - apply Permutation_app_head. apply Permutation_map. apply Permutation_filter'. exact P.
  - replace (filter (fun e => negb (retired_by K rs' e)) (st_nc st)) with (filter (fun e => negb (retired_by K rs e)) (st_nc st)).
    + apply map_ext. intros e. unfold refreshed. rewrite (find_perm_unique _ rs rs' P); [reflexivity|].
      apply (failed_named_unique st rs (fst e) R).
    + apply filter_ext. intros e. unfold retired_by. f_equal. apply existsb_perm. exact P.
Qed.

Lemma puts_r_any_order st rs rs' :
  ready K U st rs -> Permutation rs rs' ->
  exists st1 st2, puts_r K st rs = Ok st1 /\ puts_r K st rs' = Ok st2 /\
    Permutation (st_done st1) (st_done st2) /\ Permutation (st_nc st1) (st_nc st2) /\
    st_logs st1 = st_logs st2 /\ st_mode st1 = st_mode st2.
Proof.
  intros R P. pose proof (ready_perm K U st rs rs' P R) as R'.
  eexists. eexists. split; [apply (puts_r_final K U G); exact R|]. split; [apply (puts_r_final K U G); exact R'|].
  cbn [st_done st_nc st_logs st_mode]. split; [apply final_done_perm; exact P|]. split; [apply final_nc_r_perm; assumption|].
  split; reflexivity.
Qed.

Lemma refreshed_fst rs e : fst (refreshed K rs e) = fst e.
Proof. unfold refreshed. destruct (find _ rs); reflexivity. Qed.

Lemma final_r_completed_once st rs a d :
  ready K U st rs -> In (a, d) rs -> is_nc d = false ->
  In (k_fname K a, (a, d)) (final_done K st rs) /\ ~ In (k_ncname K a) (map fst (final_nc_r K st rs)).
Proof.
  intros R Hin Hd. pose proof R as [Hm [Hnd [Hincl Hfresh]]].
  assert (Ha : In a U) by (apply Hincl; apply in_map_iff; exists (a, d); split; [reflexivity|exact Hin]).
  split; [apply (final_completed_once K U G st rs a d R Hin Hd)|].
  unfold final_nc_r. rewrite map_app. intros H. apply in_app_or in H. destruct H as [H|H].
  - rewrite map_map in H. apply in_map_iff in H. destruct H as [e [E He]]. rewrite refreshed_fst in E.
    apply filter_In in He. destruct He as [_ He].
    assert (Hr : retired_by K rs e = true); [|rewrite Hr in He; discriminate].
    unfold retired_by. apply existsb_exists. exists (a, d). split; [exact Hin|].
    unfold completed_rec. cbn [fst snd]. rewrite Hd, E. rewrite (g_retire K U G a a Ha Ha), str_eqb_refl. reflexivity.
  - rewrite map_map in H. cbn [fst] in H. apply in_map_iff in H. destruct H as [[b d'] [E Hb]]. cbn [fst] in E.
    apply filter_In in Hb. destruct Hb as [Hb Hf]. unfold newly_failed, failed_rec in Hf. cbn [snd] in Hf.
    apply andb_true_iff in Hf. destruct Hf as [Hf _].
    assert (Hbu : In b U) by (apply Hincl; apply in_map_iff; exists (b, d'); split; [reflexivity|exact Hb]).
    apply (g_ncname_inj K U G b a Hbu Ha) in E. subst b.
    assert (d = d') by (eapply NoDup_fst_unique; eassumption). subst d'. congruence.
Qed.

Lemma final_r_failed_once st rs a d :
  ready K U st rs -> In (a, d) rs -> is_nc d = true ->
  In (k_ncname K a, d) (final_nc_r K st rs) /\ ~ In (k_fname K a) (map fst (final_done K st rs)).
Proof.
  intros R Hin Hd. pose proof R as [Hm [Hnd [Hincl Hfresh]]].
  assert (Ha : In a U) by (apply Hincl; apply in_map_iff; exists (a, d); split; [reflexivity|exact Hin]).
  split; [|apply (final_failed_once K U G st rs a d R Hin Hd)].
  unfold final_nc_r. apply in_or_app.
  destruct (mem_str (k_ncname K a) (map fst (st_nc st))) eqn:Hmem.
  - left. apply mem_str_In in Hmem. apply in_map_iff in Hmem. destruct Hmem as [e [E He]].
    apply in_map_iff. exists e. split.
    + unfold refreshed.
      assert (Hf : exists r, find (failed_named K (fst e)) rs = Some r /\ r = (a, d)).
      { destruct (find (failed_named K (fst e)) rs) as [r|] eqn:F.
        - exists r. split; [reflexivity|]. apply find_some in F. destruct F as [Hr Pr].
          apply (failed_named_unique st rs (fst e) R r (a, d) Hr Hin Pr).
          unfold failed_named, failed_rec. cbn [fst snd]. rewrite Hd, E. apply str_eqb_refl.
        - exfalso. pose proof (find_none_iff_local _ _ F (a, d) Hin) as Hn.
          unfold failed_named, failed_rec in Hn. cbn [fst snd] in Hn. rewrite Hd, E, str_eqb_refl in Hn. discriminate. }
      destruct Hf as [r [F ->]]. rewrite F. cbn [snd]. rewrite E. reflexivity.
    + apply filter_In. split; [exact He|].
      assert (Hr : retired_by K rs e = false); [|rewrite Hr; reflexivity].
      unfold retired_by. apply existsb_false. intros [b db] Hb. cbn [fst snd]. rewrite E.
      assert (Hbu : In b U) by (apply Hincl; apply in_map_iff; exists (b, db); split; [reflexivity|exact Hb]).
      rewrite (g_retire K U G a b Ha Hbu).
      destruct (str_eqb a b) eqn:Eab; [|apply andb_false_r].
      apply str_eqb_eq in Eab. subst b. assert (d = db) by (eapply NoDup_fst_unique; eassumption). subst db.
      unfold completed_rec. cbn [snd]. rewrite Hd. reflexivity.
  - right. apply in_map_iff. exists (a, d). split; [reflexivity|]. apply filter_In. split; [exact Hin|].
    unfold newly_failed, failed_rec. cbn [fst snd]. rewrite Hd, Hmem. reflexivity.
Qed.

(** no name is listed twice — also when a failing input already had a not-completed record *)
Lemma final_nc_r_nodup st rs :
  ready K U st rs -> NoDup (map fst (st_nc st)) -> NoDup (map fst (final_nc_r K st rs)).
Proof.
  intros [Hm [Hnd [Hincl Hfresh]]] Hold. unfold final_nc_r. rewrite map_app, !map_map. cbn [fst].
  apply NoDup_app_intro.
  - rewrite (map_ext _ fst (refreshed_fst rs)). apply NoDup_map_filter. exact Hold.
  - rewrite <- map_map. apply NoDup_map_inj_in.
    + intros x y Hx Hy. apply (g_ncname_inj K U G).
      * apply Hincl. apply in_map_iff in Hx. destruct Hx as [r [E Hr]]. apply filter_In in Hr. apply in_map_iff. exists r. split; [exact E|apply Hr].
      * apply Hincl. apply in_map_iff in Hy. destruct Hy as [r [E Hr]]. apply filter_In in Hr. apply in_map_iff. exists r. split; [exact E|apply Hr].
    + apply NoDup_map_filter. exact Hnd.
  - intros x Hx Hin. apply in_map_iff in Hin. destruct Hin as [r [E Hr]]. apply filter_In in Hr. destruct Hr as [Hr Hf].
    unfold newly_failed in Hf. apply andb_true_iff in Hf. destruct Hf as [_ Hf].
    apply negb_true_iff in Hf. apply mem_str_notIn in Hf. apply Hf. subst x.
    apply in_map_iff in Hx. destruct Hx as [e [E He]]. rewrite refreshed_fst in E. apply filter_In in He.
    apply in_map_iff. exists e. split; [exact E|apply He].
Qed.
End OrderR.


(* ------------------------------------------------------------------ the repaired code: apply_to *)

Lemma write_results_v_exc V K l e : fold_left (write_result_v V K) l (Exc e) = Exc e.
Proof. induction l as [|x l IH]; simpl; [reflexivity|exact IH]. Qed.

Lemma write_results_v_puts K : forall its st,
  Forall (fun it => item_rec it <> None) its ->
  write_results_v repaired K st its = puts_r K st (map rec_or its).
Proof.
  induction its as [|it its IH]; intros st HF; [reflexivity|].
  inversion HF as [|x l Hit HF']; subst.
  unfold write_results_v. cbn [fold_left map puts_r].
  unfold rec_or at 1. unfold item_rec in *. unfold write_result_v at 2.
  destruct (result_id it) as [id|]; [|exfalso; apply Hit; reflexivity]. cbn [option_map]. unfold put_r. cbn [fst snd].
  destruct (writer_main_v repaired K st (result_data it) (Some id)) as [st'|e].
  - apply IH. exact HF'.
  - apply write_results_v_exc.
Qed.

(** after the repair every input of apply_to travels in a source_proxy and none is dropped *)
Lemma proxy_input_repaired l : proxy_input_v repaired true l = map (fun e => Wrapped e e) l.
Proof.
  unfold proxy_input_v, dropped. cbn [repaired v_keepfalsy].
  induction l as [|m l IH]; [reflexivity|]. cbn [flat_map map app]. rewrite IH. reflexivity.
Qed.

Section ApplyToR.
Variable K : skind.
Variable U : list str.
Hypothesis G : good_kind K U.
Variable chain : list step.
Variable st : store.
Variable inputs : list value.
Variable ids : list str.
Hypothesis Hchain : chain <> [].
Hypothesis Hinputs : inputs <> [].
Hypothesis Hmode : st_mode st <> 0.
Hypothesis Hids : map (fun m => unique_id_of (source_of m)) inputs = map Some ids.
Hypothesis Hnodup : NoDup ids.
Hypothesis Hincl : incl ids U.

Let todo := todo_of K st ids inputs.
Let rs := records_of chain todo.
Let its := map (source_wrapped chain) (proxy_input_v repaired true (map snd todo)).

Lemma ready_todo_r : ready K U st rs.
Proof. apply (ready_todo K U G chain st inputs ids Hmode Hids Hnodup Hincl). Qed.

Lemma serial_items_r : Forall (fun it => item_rec it <> None) its /\ map rec_or its = rs.
Proof.
  unfold its. rewrite proxy_input_repaired.
  assert (Hrec : forall p, In p todo -> item_rec (source_wrapped chain (Wrapped (snd p) (snd p))) = Some (fst p, call chain (snd p))).
  { intros p Hp. destruct (todo_in K st inputs ids Hids p Hp) as [_ [_ [_ Hid]]]. unfold item_rec. cbn [source_wrapped result_id result_data].
    rewrite Hid. reflexivity. }
  split.
  - apply Forall_forall. intros it Hit. rewrite !map_map in Hit. apply in_map_iff in Hit. destruct Hit as [p [E Hp]]. subst it.
    rewrite (Hrec p Hp). discriminate.
  - unfold rs, records_of. rewrite !map_map. apply map_ext_in. intros p Hp. unfold rec_or. rewrite (Hrec p Hp). reflexivity.
Qed.

Lemma apply_to_r_unfold sched :
  apply_to_v repaired K chain st inputs sched false =
    write_results_v repaired K st (match sched with None => its | Some p => reorder p its end).
Proof.
  unfold apply_to_v. unfold its, todo, todo_of.
  destruct chain as [|c0 ch]; [congruence|].
  rewrite (collect_spec K st inputs ids []); [|exact Hids|exact Hnodup]. cbn [app].
  destruct inputs as [|i0 ins]; [congruence|]. cbn [is_empty repaired v_wrapall].
  destruct sched; (destruct (write_results_v _ _ _ _) as [s|e]; reflexivity).
Qed.

Lemma apply_to_r_serial :
  apply_to_v repaired K chain st inputs None false =
    Ok (mkstore (final_done K st rs) (final_nc_r K st rs) (st_logs st) (st_mode st)).
Proof.
  rewrite apply_to_r_unfold. destruct serial_items_r as [HF Hrs].
  rewrite write_results_v_puts by exact HF. rewrite Hrs. apply (puts_r_final K U G). apply ready_todo_r.
Qed.

Lemma results_r_any_permutation its' :
  Permutation its' its ->
  exists st', write_results_v repaired K st its' = Ok st' /\
    Permutation (st_done st') (final_done K st rs) /\ Permutation (st_nc st') (final_nc_r K st rs) /\
    st_logs st' = st_logs st /\ st_mode st' = st_mode st.
Proof.
  intros Pits. destruct serial_items_r as [HF Hrs].
  assert (HF' : Forall (fun it => item_rec it <> None) its').
  { eapply Permutation_Forall; [apply Permutation_sym; exact Pits|exact HF]. }
  rewrite write_results_v_puts by exact HF'.
  assert (Prs : Permutation rs (map rec_or its')).
  { rewrite <- Hrs. apply Permutation_map. apply Permutation_sym. exact Pits. }
  destruct (puts_r_any_order K U G st rs _ ready_todo_r Prs) as [st1 [st2 [H1 [H2 [Pd [Pn [Hl Hmo]]]]]]].
  rewrite (puts_r_final K U G rs st ready_todo_r) in H1. inversion H1; subst st1. cbn [st_done st_nc st_logs st_mode] in *.
  exists st2. split; [exact H2|]. split; [apply Permutation_sym; exact Pd|]. split; [apply Permutation_sym; exact Pn|].
  split; symmetry; assumption.
Qed.

Lemma apply_to_r_any_schedule sched :
  Permutation sched (seq 0 (length todo)) ->
  exists st', apply_to_v repaired K chain st inputs (Some sched) false = Ok st' /\
    Permutation (st_done st') (final_done K st rs) /\ Permutation (st_nc st') (final_nc_r K st rs) /\
    st_logs st' = st_logs st /\ st_mode st' = st_mode st.
Proof.
  intros P. rewrite apply_to_r_unfold. apply results_r_any_permutation.
  apply reorder_perm. unfold its. rewrite proxy_input_repaired, !map_length. exact P.
Qed.

Lemma chunking_r_irrelevant_lemma (chunks : list (list item)) its' :
  Permutation (concat chunks) (proxy_input_v repaired true (map snd todo)) ->
  Permutation its' (concat (map (map (source_wrapped chain)) chunks)) ->
  exists st', write_results_v repaired K st its' = Ok st' /\
    Permutation (st_done st') (final_done K st rs) /\ Permutation (st_nc st') (final_nc_r K st rs) /\
    st_logs st' = st_logs st /\ st_mode st' = st_mode st.
Proof.
  intros Pc Pi. apply results_r_any_permutation.
  eapply perm_trans; [exact Pi|]. rewrite <- concat_map. unfold its. apply Permutation_map. exact Pc.
Qed.
End ApplyToR.


Lemma chunking_r_irrelevant_full : forall K U, good_kind K U -> forall chain st inputs ids,
  chain <> [] -> inputs <> [] -> st_mode st <> 0 ->
  map (fun m => unique_id_of (source_of m)) inputs = map Some ids ->
  NoDup ids -> incl ids U ->
  forall (chunks : list (list item)) its',
  Permutation (concat chunks) (proxy_input_v repaired true (map snd (todo_of K st ids inputs))) ->
  Permutation its' (concat (map (map (source_wrapped chain)) chunks)) ->
  exists st', write_results_v repaired K st its' = Ok st' /\
    Permutation (st_done st') (final_done K st (records_of chain (todo_of K st ids inputs))) /\
    Permutation (st_nc st') (final_nc_r K st (records_of chain (todo_of K st ids inputs))) /\
    st_logs st' = st_logs st /\ st_mode st' = st_mode st.
Proof. intros. eapply chunking_r_irrelevant_lemma; eassumption. Qed.

Lemma apply_to_v_logging V K chain st inputs sched :
  apply_to_v V K chain st inputs sched true =
    match apply_to_v V K chain st inputs sched false with
    | Exc e => Exc e
    | Ok st' =>
        match check_writable K st' s_dotlog with
        | Some e => Exc e
        | None => Ok (mkstore (st_done st') (st_nc st') (st_logs st' + 1) (st_mode st'))
        end
    end.
Proof.
  unfold apply_to_v. destruct chain as [|c ch]; [reflexivity|].
  destruct (collect K st [] inputs) as [todo|e]; [|reflexivity].
  destruct (is_empty inputs); [reflexivity|].
  destruct (write_results_v V K st _) as [st'|e]; reflexivity.
Qed.

(** the inputs that made the pinned code drop a record or raise are accounted for by the repaired code:
    a falsy object, and an object carrying its own .source whose stage returns a NotCompleted without source *)
Definition nosrc_chain : list step :=
  [mkstep [103] GENERIC None true
     (fun v => match v with
               | VObj _ [107;50] _ _ _ => Ret (VNC s_FALSE [103] [109] None)
               | VObj c k t s b => Ret (VObj c k (t ++ [103;59]) s b)
               | _ => Ret VNone end)].
Definition awkward_inputs : list value :=
  [VObj [84;65] [107;49] [] (Some [111;49;46;102;97]) false; VObj [84;65] [107;50] [] (Some [111;50;46;102;97]) true].

Lemma repaired_accounts_for_awkward_inputs :
  map (fun m => unique_id_of (source_of m)) awkward_inputs = map Some [[111;49]; [111;50]] /\
  (exists st', apply_to_v repaired dict_kind nosrc_chain st0 awkward_inputs (Some [1;0]%nat) false = Ok st'
               /\ length (st_done st') = 1%nat /\ length (st_nc st') = 1%nat) /\
  (exists st', apply_to dict_kind nosrc_chain st0 (firstn 1 awkward_inputs) None false = Ok st'
               /\ length (st_done st') = 0%nat /\ length (st_nc st') = 0%nat) /\
  apply_to dict_kind nosrc_chain st0 (tl awkward_inputs) None false = Exc E_Type.
Proof.
  split; [vm_compute; reflexivity|]. split; [eexists; split; [vm_compute; reflexivity|split; reflexivity]|].
  split; [eexists; split; [vm_compute; reflexivity|split; reflexivity]|]. vm_compute. reflexivity.
Qed.

(** a failing input that already has a not-completed record: replaced, not listed twice *)
Lemma repaired_rerun_no_duplicate :
  exists s1, puts_r dict_kind (mkstore [] [([97], an_nc)] 0 2) [([97], VNC s_ERROR [108] [110;101;119] None)] = Ok s1 /\
    st_nc s1 = [([97], VNC s_ERROR [108] [110;101;119] None)].
Proof. eexists. split; vm_compute; reflexivity. Qed.
