(** C02 / C13 support — "the per-column likelihoods, summed over all possible
    columns, equal one", and the first-principles specification in the
    property's own words (leaf sets).

    Everything is proved for an arbitrary commutative semiring [R]/[o] with the
    laws [sr_laws o] as a section hypothesis (hence a premise of every exported
    theorem), every rose tree, every number of states [n].  No axioms; in
    particular no functional extensionality: only values of
    [fpartial]/[brute]/[col_lik] are ever compared, never trees of functions. *)
From Coq Require Import Permutation.
From CG3 Require Import Lib.PyZ Lib.Semiring Lib.LikTree Model.Lik Spec.SumProduct Proofs.LikProofs.
Local Open Scope nat_scope.

(* ------------------------------------------------------------------ tree helpers (no algebra) *)

Lemma tmap_tmap X E X' E' X'' E'' (f : X -> X') (g : E -> E') (f' : X' -> X'') (g' : E' -> E'')
      (t : tree X E) :
  tmap f' g' (tmap f g t) = tmap (fun x => f' (f x)) (fun e => g' (g e)) t.
Proof.
  induction t as [x|ch IH] using tree_ind'.
  - reflexivity.
  - cbn [tmap]. f_equal. rewrite map_map. apply map_ext_in.
    intros [e c] Hin. cbn [fst snd]. f_equal.
    rewrite Forall_forall in IH. apply (IH (e, c) Hin).
Qed.

Lemma edges_node_cons X E (e : E) (c : tree X E) ch :
  edges (Node ((e, c) :: ch)) = e :: edges c ++ edges (Node ch).
Proof. reflexivity. Qed.

Lemma tree_all_edges X E (PL : X -> Prop) (PE : E -> Prop) (t : tree X E) :
  tree_all PL PE t -> forall e, In e (edges t) -> PE e.
Proof.
  induction t as [x|ch IH] using tree_ind'; intros Hall e Hin.
  - destruct Hin.
  - induction ch as [|[e0 c] ch IHch].
    + destruct Hin.
    + pose proof (Forall_inv IH) as Hc. pose proof (Forall_inv_tail IH) as Hrest. cbn [snd] in Hc.
      apply ok_node_cons in Hall. destruct Hall as [[He0 Hallc] Hallch].
      rewrite edges_node_cons in Hin. destruct Hin as [Heq|Hin].
      * subst e. exact He0.
      * apply in_app_or in Hin. destruct Hin as [Hin|Hin].
        -- apply Hc; assumption.
        -- apply IHch; assumption.
Qed.

(** the payloads at the leaves do not influence the enumeration of assignments *)
Lemma assignments_tmap n X E X' E' (f : X -> X') (g : E -> E') (t : tree X E) :
  assignments n (tmap f g t) = assignments n t.
Proof.
  induction t as [x|ch IH] using tree_ind'.
  - reflexivity.
  - cbn [tmap assignments]. f_equal.
    induction ch as [|[e c] ch IHch].
    + reflexivity.
    + pose proof (Forall_inv IH) as Hc. pose proof (Forall_inv_tail IH) as Hrest. cbn [snd] in Hc.
      specialize (IHch Hrest).
      cbn [map fst snd]. rewrite Hc, IHch. reflexivity.
Qed.

Section SumOne.
  Variable R : Type.
  Variable o : sr_ops R.
  Hypothesis L : sr_laws o.
  Variable n : nat.
  Local Infix "+" := (sr_add o).
  Local Infix "*" := (sr_mul o).
  Local Notation "0" := (sr_zero o).
  Local Notation "1" := (sr_one o).
  Local Notation Σ := (big_sum o).
  Local Notation Π := (big_prod o).
  Local Notation states := (seq 0 n).
  Local Notation fp := (fpartial R o n).
  Local Notation obs := (tmap (point o) (fun e : nat -> nat -> R => e)).

  (* ================================================================ A: columns sum to one *)

  Lemma point_sum i : i < n -> Σ (fun s => point o s i) states = 1.
  Proof.
    intros Hi. unfold point.
    rewrite (big_sum_ext o _ (fun s => if Nat.eqb s i then (fun _ => 1) s else 0))
      by (intros s _; now rewrite Nat.eqb_sym).
    apply (big_sum_seq_indicator L (fun _ => 1) Hi).
  Qed.

  (** general form: any interpretation [g] of the edge payloads as row-stochastic
      matrices, any interpretation [f] of an observed state as a leaf weight
      whose weights, summed over the observable states, give one *)
  Lemma fpartial_labelings_sum_gen X E (f : nat -> nat -> R) (g : E -> nat -> nat -> R)
        (t : tree X E) i :
    (forall a, a < n -> Σ (fun s => f s a) states = 1) ->
    (forall e, In e (edges t) -> forall a, a < n -> Σ (fun j => g e a j) states = 1) ->
    i < n ->
    Σ (fun lab => fp (tmap f g lab) i) (labelings n t) = 1.
  Proof.
    intros Hf. revert i. induction t as [x|ch IH] using tree_ind'; intros i He Hi.
    - cbn [labelings]. rewrite big_sum_map. cbn [tmap fpartial]. apply Hf, Hi.
    - cbn [labelings]. rewrite big_sum_map. cbn [tmap fpartial].
      erewrite big_sum_ext; [|intros l _; rewrite big_prod_map; cbn [fst snd]; reflexivity].
      induction ch as [|[P c] ch IHch].
      + cbn. apply (sr_add_0_r L).
      + pose proof (Forall_inv IH) as Hc. pose proof (Forall_inv_tail IH) as Hrest. cbn [snd] in Hc.
        rewrite edges_node_cons in He.
        assert (HeP : forall a, a < n -> Σ (fun j => g P a j) states = 1).
        { apply He. left. reflexivity. }
        assert (Hec : forall e, In e (edges c) -> forall a, a < n -> Σ (fun j => g e a j) states = 1).
        { intros e Hin. apply He. right. apply in_or_app. left. exact Hin. }
        assert (Hech : forall e, In e (edges (Node ch)) -> forall a, a < n -> Σ (fun j => g e a j) states = 1).
        { intros e Hin. apply He. right. apply in_or_app. right. exact Hin. }
        specialize (IHch Hrest Hech).
        assert (Hc' : forall j, j < n -> Σ (fun lab => fp (tmap f g lab) j) (labelings n c) = 1).
        { intros j Hj. apply Hc; assumption. }
        clear Hc.
        cbn [fst snd].
        rewrite (big_sum_flat_map L).
        erewrite big_sum_ext.
        2:{ intros c' _. rewrite big_sum_map.
            erewrite big_sum_ext; [|intros rest _; rewrite big_prod_cons; cbn [fst snd]; reflexivity].
            rewrite <- (big_sum_mul_l L). rewrite IHch. rewrite (sr_mul_1_r L). reflexivity. }
        rewrite (big_sum_swap L).
        erewrite big_sum_ext.
        2:{ intros j Hj. apply in_seq in Hj. rewrite <- (big_sum_mul_l L).
            rewrite Hc' by lia. rewrite (sr_mul_1_r L). reflexivity. }
        apply HeP, Hi.
  Qed.

  (** A1 *)
  Lemma fpartial_labelings_sum X (t : tree X (nat -> nat -> R)) i :
    (forall e, In e (edges t) -> forall a, a < n -> Σ (fun j => e a j) states = 1) ->
    i < n ->
    Σ (fun lab => fp (obs lab) i) (labelings n t) = 1.
  Proof.
    intros He Hi.
    apply (fpartial_labelings_sum_gen X (nat -> nat -> R) (point o) (fun e => e) t);
      [intros a Ha; apply point_sum, Ha | exact He | exact Hi].
  Qed.

  Lemma brute_lik_labelings_sum_gen X E (f : nat -> nat -> R) (g : E -> nat -> nat -> R)
        (t : tree X E) (pi : nat -> R) :
    (forall a, a < n -> Σ (fun s => f s a) states = 1) ->
    (forall e, In e (edges t) -> forall a, a < n -> Σ (fun j => g e a j) states = 1) ->
    Σ pi states = 1 ->
    Σ (fun lab => brute_lik o n (tmap f g lab) pi) (labelings n t) = 1.
  Proof.
    intros Hf He Hpi. unfold brute_lik.
    rewrite (big_sum_swap L).
    rewrite <- Hpi. apply big_sum_ext. intros i Hi. apply in_seq in Hi.
    rewrite <- (big_sum_mul_l L).
    erewrite big_sum_ext; [|intros lab _; rewrite <- (fpartial_brute R o L n); reflexivity].
    rewrite fpartial_labelings_sum_gen by (assumption || lia).
    apply (sr_mul_1_r L).
  Qed.

  (** A2: the first-principles likelihoods of all possible columns sum to one *)
  Theorem columns_sum_to_one X (t : tree X (nat -> nat -> R)) (pi : nat -> R) :
    (forall e, In e (edges t) -> forall a, a < n -> Σ (fun j => e a j) states = 1) ->
    Σ pi states = 1 ->
    Σ (fun lab => brute_lik o n (obs lab) pi) (labelings n t) = 1.
  Proof.
    intros He Hpi.
    apply (brute_lik_labelings_sum_gen X (nat -> nat -> R) (point o) (fun e => e) t);
      [intros a Ha; apply point_sum, Ha | exact He | exact Hpi].
  Qed.

  (* ---------------------------------------------------------------- A3: the list-level model *)

  (** the model's leaf profile of an unambiguous observed state [s] *)
  Local Notation mobs :=
    (tmap (fun s : nat => indicator_row o (map (Nat.eqb s) states)) (fun e : list (list R) => e)).

  Lemma big_sum_nth_gen (row : list R) :
    Σ (fun j => nth j row 0) (seq 0 (length row)) = Σ (fun x => x) row.
  Proof.
    induction row as [|a row IH].
    - reflexivity.
    - cbn [length]. rewrite seq_S_map, !big_sum_cons, big_sum_map. cbn [nth]. now rewrite IH.
  Qed.

  Lemma big_sum_vfun (v : list R) : length v = n -> Σ (vfun o v) states = Σ (fun x => x) v.
  Proof. intros Hl. rewrite <- Hl. apply big_sum_nth_gen. Qed.

  Lemma vfun_indicator_row s i :
    i < n -> vfun o (indicator_row o (map (Nat.eqb s) states)) i = if Nat.eqb s i then 1 else 0.
  Proof.
    intros Hi. unfold vfun, indicator_row. rewrite map_map.
    rewrite nth_indep with (d' := (fun k => if Nat.eqb s k then 1 else 0) O)
      by (rewrite map_length, seq_length; exact Hi).
    rewrite (map_nth (fun k => if Nat.eqb s k then 1 else 0) states O i).
    rewrite seq_nth by exact Hi. reflexivity.
  Qed.

  Lemma mobs_wf (t : ptree R) :
    wf n t -> forall lab, In lab (labelings n t) -> wf n (mobs lab).
  Proof.
    induction t as [p|ch IH] using tree_ind'; intros Hwf lab Hin.
    - cbn [labelings] in Hin. apply in_map_iff in Hin. destruct Hin as [s [Hs _]]. subst lab.
      cbn [tmap]. unfold wf. cbn [tree_all]. unfold indicator_row.
      now rewrite !map_length, seq_length.
    - cbn [labelings] in Hin. apply in_map_iff in Hin. destruct Hin as [l [Hl Hin]]. subst lab.
      cbn [tmap]. revert l Hin. induction ch as [|[P c] ch IHch]; intros l Hin.
      + destruct Hin as [Hl|[]]. subst l. exact I.
      + pose proof (Forall_inv IH) as Hc. pose proof (Forall_inv_tail IH) as Hrest. cbn [snd] in Hc.
        apply ok_node_cons in Hwf. destruct Hwf as [[HP Hwfc] Hwfch].
        specialize (IHch Hrest Hwfch).
        apply in_flat_map in Hin. destruct Hin as [c' [Hc' Hin]].
        apply in_map_iff in Hin. destruct Hin as [rest [Hl Hin]]. subst l.
        cbn [map fst snd]. apply ok_node_cons. split; [split|].
        * exact HP.
        * apply Hc; assumption.
        * apply IHch, Hin.
  Qed.

  (** A3: the model's per-column likelihoods ([col_lik], i.e. pruning on
      lists) of all possible columns of unambiguous symbols sum to one *)
  Theorem model_columns_sum_to_one (t : ptree R) (pi : vec R) :
    wf n t -> length pi = n ->
    (forall P, In P (edges t) -> Forall (fun row => Σ (fun x => x) row = 1) P) ->
    Σ (fun x => x) pi = 1 ->
    Σ (fun lab => col_lik o n (mobs lab) pi) (labelings n t) = 1.
  Proof.
    intros Hwf Hpi Hrows Hsum.
    erewrite big_sum_ext.
    2:{ intros lab Hin.
        rewrite (pruning_eq_bruteforce_lemma R o L n) by (solve [apply (mobs_wf t Hwf lab Hin) | exact Hpi]).
        unfold fview. rewrite tmap_tmap. reflexivity. }
    apply (brute_lik_labelings_sum_gen (list R) (list (list R))
             (fun s => vfun o (indicator_row o (map (Nat.eqb s) states))) (mfun o) t).
    - intros a Ha.
      erewrite big_sum_ext; [|intros s _; rewrite vfun_indicator_row by exact Ha; reflexivity].
      apply (big_sum_seq_indicator L (fun _ => 1) Ha).
    - intros P HinP a Ha.
      pose proof (tree_all_edges _ _ _ _ t Hwf P HinP) as HwfP. cbn beta in HwfP.
      change (Σ (vfun o (nth a P [])) states = 1).
      rewrite big_sum_vfun by (apply wfmat_row; assumption).
      specialize (Hrows P HinP). rewrite Forall_forall in Hrows. apply Hrows.
      apply nth_In. destruct HwfP as [HlP _]. lia.
    - rewrite big_sum_vfun by exact Hpi. exact Hsum.
  Qed.

  (* ================================================================ B: the specification with leaf sets *)

  Local Notation sets := (tmap (indicator o) (fun e : nat -> nat -> R => e)).

  (** B1: with indicator leaf weights, the weight of an assignment is the edge
      product if the assignment is compatible with the leaf sets, else zero *)
  Lemma weight_indicator (t : tree (nat -> bool) (nat -> nat -> R)) i s :
    weight o (sets t) i s = if compatible t i s then edge_product o t i s else 0.
  Proof.
    revert i s. induction t as [set|ch IH] using tree_ind'; intros i s.
    - destruct s as [|sch]; cbn [tmap weight compatible edge_product]; [|reflexivity].
      reflexivity.
    - destruct s as [|sch]; cbn [tmap weight compatible edge_product]; [reflexivity|].
      revert sch. induction ch as [|[P c] ch IHch]; intros sch.
      + destruct sch as [|[j s'] sch]; reflexivity.
      + pose proof (Forall_inv IH) as Hc. pose proof (Forall_inv_tail IH) as Hrest. cbn [snd] in Hc.
        specialize (IHch Hrest).
        destruct sch as [|[j s'] sch]; [reflexivity|].
        cbn [map fst snd]. rewrite Hc, IHch.
        destruct (compatible c j s'); cbn [andb].
        * match goal with |- context [if ?b then _ else _] => destruct b end.
          -- reflexivity.
          -- apply (sr_mul_0_r L).
        * rewrite (sr_mul_0_r L). apply (sr_mul_0_l L).
  Qed.

  (** B2: the brute-force likelihood with indicator weights is the
      specification in the property's words: the sum, over the assignments
      compatible with the leaf sets, of π(root state) · Π_edges P *)
  Theorem brute_lik_sum_product (t : tree (nat -> bool) (nat -> nat -> R)) (pi : nat -> R) :
    brute_lik o n (sets t) pi = sum_product o n t pi.
  Proof.
    unfold brute_lik, sum_product, brute, full_assignments.
    rewrite (big_sum_filter L), (big_sum_flat_map L).
    apply big_sum_ext. intros i _.
    rewrite big_sum_map, assignments_tmap, (big_sum_mul_l L).
    apply big_sum_ext. intros s _. cbn [fst snd].
    rewrite weight_indicator.
    destruct (compatible t i s); [reflexivity| apply (sr_mul_0_r L)].
  Qed.
End SumOne.

(* ------------------------------------------------------------------ C: non-vacuity *)

Section Example.
  Local Open Scope Z_scope.

  (** two states, identity transition matrices, root distribution concentrated on state 0 *)
  Definition ex_P (i j : nat) : Z := if Nat.eqb i j then 1 else 0.
  Definition ex_pi (i : nat) : Z := if Nat.eqb i 0 then 1 else 0.
  Definition ex_tree : tree unit (nat -> nat -> Z) :=
    Node [(ex_P, Leaf tt); (ex_P, Node [(ex_P, Leaf tt); (ex_P, Leaf tt)])].

  Lemma ex_rows : forall e, In e (edges ex_tree) ->
    forall a, (a < 2)%nat -> big_sum Z_ops (fun j => e a j) (seq 0 2) = sr_one Z_ops.
  Proof.
    intros e Hin a Ha. cbn [ex_tree edges flat_map fst snd app] in Hin.
    assert (He : e = ex_P) by (repeat (destruct Hin as [Hin|Hin]; [now symmetry|]); destruct Hin).
    subst e. destruct a as [|[|a]]; [reflexivity|reflexivity|lia].
  Qed.

  Lemma ex_pi_sum : big_sum Z_ops ex_pi (seq 0 2) = sr_one Z_ops.
  Proof. reflexivity. Qed.

  (** the hypotheses of [columns_sum_to_one] are satisfiable, and its conclusion holds *)
  Example ex_columns_sum_to_one :
    big_sum Z_ops
      (fun lab => brute_lik Z_ops 2 (tmap (point Z_ops) (fun e => e) lab) ex_pi)
      (labelings 2 ex_tree) = sr_one Z_ops.
  Proof. exact (columns_sum_to_one Z Z_ops Z_laws 2 unit ex_tree ex_pi ex_rows ex_pi_sum). Qed.

  (** three leaves, two states: eight possible columns *)
  Example ex_labelings_count : length (labelings 2 ex_tree) = 8%nat.
  Proof. vm_compute. reflexivity. Qed.

  (** cross-check by computation: the same sum, evaluated *)
  Example ex_columns_sum_computed :
    big_sum Z_ops
      (fun lab => brute_lik Z_ops 2 (tmap (point Z_ops) (fun e => e) lab) ex_pi)
      (labelings 2 ex_tree) = 1.
  Proof. vm_compute. reflexivity. Qed.
End Example.

