(** C20 - the "JSON or pickle" round-trip clause of the Table property, by a BRIDGE to the serialisation
    model of C10 (Model/Serial.v, Spec/SerialSpec.v, Proofs/SerialProofs.v).

    A C20 table (Model/Table.v: header, typed cell columns) is mapped to the table of the C10 model
    ([to_serial]: what [Table.__getstate__] / [Columns.__getstate__] hand to json / pickle: per column the numpy
    dtype string and [tolist()]), the C10 theorem [SerialProofs.table_roundtrip_lemma] is applied to it, and the decoded
    C10 table is read back as a header, typed cell columns and index name ([of_serial]).

    json:   [Table.to_json] = [json.dumps(to_rich_dict())], [deserialise_object] -> [deserialise_tabular] -> [__setstate__];
    pickle: [pickle.dumps] calls the same [__getstate__] and [pickle.loads] the same [__setstate__] on the same dictionary
            (pickle keeps python objects as they are, so the cells are at least as faithful as through JSON): the theorem
            below is the theorem for both.  The gzip / bz2 wrappers of the writers are assumed to be the identity on the text.

    Floats: the C10 model carries a float as its shortest repr ([JFloat repr]); a C20 float cell is the decimal [CF m e]
    that repr shows, so [cell_json (CF m e) = JFloat (float_str m e)], and the way back READS the repr with the number
    scanner of Model/TableLoad.v ([float_of_repr]).  That this gives (m, e) again is proved for every normal decimal
    ([dec_normal], Spec/TableSpec.v: m without trailing zero, 0.0 = CF 0 0 -- the representation invariant of [CF]), with
    no bound on digits or exponent, from [TableLoadProofs.float_body_scan]. *)
From Coq Require Import List ZArith Lia Bool.
From CG3 Require Import Lib.PyZ Lib.Chars Lib.Val Model.Table Model.TableLoad Spec.TableSpec Proofs.TableBase.
From CG3 Require Proofs.TableLoadProofs.
From CG3 Require Model.View Model.Serial Spec.SerialSpec Proofs.SerialProofs.
Import ListNotations.
Open Scope Z_scope.

(* ------------------------------------------------------------------ cells <-> JSON scalars *)

(** [ndarray.tolist()] then JSON: python int / str / bool / None / float *)
Definition cell_json (c : cell) : Serial.json :=
  match c with
  | CI z => Serial.JInt z
  | CS s => Serial.JStr s
  | CB b => Serial.JBool b
  | CN => Serial.JNull
  | CF m e => Serial.JFloat (float_str m e)
  end.

(** [float(repr)] as the normal decimal (m, e) (m without trailing zeros, 0.0 = (0, 0)): sign, digits, fraction and
    exponent as [TableLoad.scan_number] finds them; digits alone are the repr of an int, not of a float *)
Definition float_of_repr (s : list Z) : option (Z * Z) :=
  match scan_number s with
  | Some (neg, ip, frac, ex) =>
      match frac, ex with
      | None, None => None
      | _, _ =>
          let f := match frac with Some f => f | None => [] end in
          let x := match ex with Some x => x | None => 0 end in
          let me := norm_dec (digits_val 0 (ip ++ f)) (x - zlen f) in
          Some (if neg then - fst me else fst me, snd me)
      end
  | None => None
  end.

(** the partial inverse of [cell_json] *)
Definition cell_of_json (j : Serial.json) : option cell :=
  match j with
  | Serial.JInt z => Some (CI z)
  | Serial.JStr s => Some (CS s)
  | Serial.JBool b => Some (CB b)
  | Serial.JNull => Some CN
  | Serial.JFloat r => match float_of_repr r with Some (m, e) => Some (CF m e) | None => None end
  | Serial.JArr _ | Serial.JObj _ => None
  end.

(** every float cell is a normal decimal (the invariant of [CF], Model/Table.v) *)
Definition floats_normal (t : table) : Prop := Forall dec_normal_col (cols t).

Definition dec_normalb (c : cell) : bool :=
  match c with
  | CF m e => ((m =? 0) && (e =? 0)) || (negb (m =? 0) && negb (m mod 10 =? 0))
  | _ => true
  end.

Definition floats_normalb (t : table) : bool := forallb (forallb dec_normalb) (cols t).

(* ------------------------------------------------------------------ dtype strings *)

Definition s_int64 : str := [105; 110; 116; 54; 52].
Definition s_float64 : str := [102; 108; 111; 97; 116; 54; 52].
Definition s_bool : str := [98; 111; 111; 108].
Definition s_object : str := [111; 98; 106; 101; 99; 116].

Definition cell_len (c : cell) : Z := match c with CS s => zlen s | _ => 0 end.

(** itemsize of a unicode column in characters: the longest string, at least 1 *)
Definition max_text_len (col : list cell) : Z := fold_right (fun c a => Z.max (cell_len c) a) 1 col.

(** the string [Columns.__getstate__] writes for the column's dtype (table.py l.308-317, as committed in fb3e9412f):
    [dtype.name] ("int64", "float64", "bool", "object"), and for a unicode column [dtype.str] = "<U" + the number of
    CHARACTERS (little endian).  [Serial.redtype], the dtype a decoded column reports, leaves every one of these strings
    alone ([col_dtype_stable]).  An empty column is numpy's default float64 ([cast_to_array] on []). *)
Definition col_dtype_name (col : list cell) : list Z :=
  match col with
  | [] => s_float64
  | _ =>
      match dtype_of col with
      | DInt => s_int64
      | DFloat => s_float64
      | DBool => s_bool
      | DObj => s_object
      | DStr => 60 :: 85 :: nat_str (max_text_len col)
      end
  end.

(* ------------------------------------------------------------------ C20 table <-> C10 table *)

(** one C10 column per header name: name, dtype string, [tolist()] *)
Fixpoint mk_cols (names : list str) (cs : list (list cell)) : list Serial.column :=
  match names, cs with
  | n :: names', c :: cs' => Serial.mkCol n (col_dtype_name c) (map cell_json c) :: mk_cols names' cs'
  | _, _ => []
  end.

(** the state [Table.__getstate__] captures: [index_name], the other persistent attributes, the columns *)
Definition to_serial (t : table) (index : option (list Z)) (attrs : Serial.dict) : Serial.table :=
  Serial.mkTab index attrs (mk_cols (hdr t) (cols t)).

Fixpoint opt_all {A} (l : list (option A)) : option (list A) :=
  match l with
  | [] => Some []
  | Some a :: r => match opt_all r with Some r' => Some (a :: r') | None => None end
  | None :: _ => None
  end.

(** reading [(name, values)] pairs as a header and typed cell columns *)
Definition of_obs (ix : option (list Z)) (nvs : list (list Z * list Serial.json))
  : option (list (list Z) * list (list cell) * option (list Z)) :=
  match opt_all (map (fun nv => opt_all (map cell_of_json (snd nv))) nvs) with
  | Some cs => Some (map fst nvs, cs, ix)
  | None => None
  end.

(** a C10 table read as (header, typed cell columns, index_name) *)
Definition of_serial (s : Serial.table) : option (list (list Z) * list (list cell) * option (list Z)) :=
  of_obs (Serial.t_index s) (map (fun c => (Serial.c_name c, Serial.c_values c)) (Serial.t_cols s)).

(** the [index_name] setter accepts: no index, or an existing column whose values are pairwise different
    (C10 models python [==] on the scalars of one column as structural equality, [Serial.json_scalar_eqb]) *)
Definition index_okb (t : table) (index : option (list Z)) : bool :=
  match index with
  | None => true
  | Some n => match assoc_get (hdr t) (cols t) n with
              | Some col => Serial.all_distinct (map cell_json col)
              | None => false
              end
  end.

(* ------------------------------------------------------------------ lemmas *)

Lemma zeqb_str_eqb a b : Serial.zeqb a b = str_eqb a b.
Proof. reflexivity. Qed.   (* the two fixpoints are the same term *)

(** reading the repr of a normal decimal gives the decimal back *)
Lemma float_of_repr_scan s neg ip frac ex a e :
  scan_number s = Some (neg, ip, frac, ex) -> frac <> None \/ ex <> None ->
  norm_dec (digits_val 0 (ip ++ TableLoadProofs.frac_of frac))
           (TableLoadProofs.exp_of ex - zlen (TableLoadProofs.frac_of frac)) = (a, e) ->
  float_of_repr s = Some (if neg then - a else a, e).
Proof.
  intros Hs Hfe Hnorm. unfold float_of_repr. rewrite Hs.
  destruct frac as [f|], ex as [x|]; cbn [TableLoadProofs.frac_of TableLoadProofs.exp_of] in Hnorm;
    cbv beta iota zeta; try (rewrite Hnorm; reflexivity).
  destruct Hfe as [Hfe|Hfe]; congruence.
Qed.

Lemma float_of_repr_body (neg : bool) body a e :
  TableLoadProofs.float_scan body a e ->
  float_of_repr (if neg then 45 :: body else body) = Some (if neg then - a else a, e).
Proof.
  intros [[c [t [Hb Hc]]] [ip [frac [ex [Hscan [Hfe Hnorm]]]]]].
  apply (float_of_repr_scan _ neg ip frac ex a e); [|exact Hfe|exact Hnorm].
  destruct neg.
  - rewrite TableLoadProofs.scan_number_neg. apply Hscan.
  - rewrite Hb, (TableLoadProofs.scan_number_pos c t Hc), <- Hb. apply Hscan.
Qed.

Lemma float_of_repr_str m e : dec_normal (CF m e) -> float_of_repr (float_str m e) = Some (m, e).
Proof.
  intros [H0 Hn]. destruct (Z.eq_dec m 0) as [Hz|Hnz].
  - subst m. rewrite (H0 eq_refl). vm_compute. reflexivity.
  - specialize (Hn Hnz). rewrite TableLoadProofs.float_str_body.
    assert (Ha : 0 < Z.abs m) by lia.
    assert (Hm : Z.abs m mod 10 <> 0) by lia.
    pose proof (float_of_repr_body (m <? 0) _ (Z.abs m) e (TableLoadProofs.float_body_scan _ e Ha Hm)) as H.
    etransitivity; [exact H|]. f_equal. f_equal. destruct (m <? 0) eqn:E; lia.
Qed.

Lemma cell_of_json_json c : dec_normal c -> cell_of_json (cell_json c) = Some c.
Proof.
  intros Hf. destruct c as [z|s|b| |m e]; cbn [cell_json cell_of_json]; try reflexivity.
  rewrite (float_of_repr_str m e Hf). reflexivity.
Qed.

Lemma col_of_json_json col : dec_normal_col col ->
  opt_all (map cell_of_json (map cell_json col)) = Some col.
Proof.
  induction col as [|c col IH]; intros Hf; [reflexivity|].
  inversion Hf as [|c0 col0 Hc Hr]; subst c0 col0.
  cbn [map opt_all]. rewrite (cell_of_json_json c Hc), (IH Hr). reflexivity.
Qed.

Lemma dec_normalb_ok c : dec_normalb c = true -> dec_normal c.
Proof.
  destruct c as [z|s|b| |m e]; cbn [dec_normalb dec_normal]; try (intros _; exact I).
  intros H. split; intros Hm; lia.
Qed.

Lemma floats_normalb_ok t : floats_normalb t = true -> floats_normal t.
Proof.
  unfold floats_normalb, floats_normal, dec_normal_col. intros H.
  rewrite forallb_forall in H. apply Forall_forall. intros col Hcol. specialize (H col Hcol).
  rewrite forallb_forall in H. apply Forall_forall. intros c Hc. apply dec_normalb_ok. exact (H c Hc).
Qed.

Lemma mk_cols_names : forall h cs, length h = length cs -> map Serial.c_name (mk_cols h cs) = h.
Proof.
  induction h as [|x h IH]; intros [|c cs] Hl; try discriminate; [reflexivity|].
  cbn [mk_cols map Serial.c_name]. rewrite IH; [reflexivity|]. cbn [length] in Hl. lia.
Qed.

Lemma mk_cols_cells : forall h cs, length h = length cs -> Forall dec_normal_col cs ->
  opt_all (map (fun nv : list Z * list Serial.json => opt_all (map cell_of_json (snd nv)))
               (map (fun c => (Serial.c_name c, Serial.c_values c)) (mk_cols h cs))) = Some cs.
Proof.
  induction h as [|x h IH]; intros [|c cs] Hl Hf; try discriminate; [reflexivity|].
  inversion Hf as [|c0 cs0 Hc Hr]; subst c0 cs0.
  cbn [mk_cols map opt_all snd Serial.c_values]. rewrite (col_of_json_json c Hc).
  rewrite IH; [reflexivity| |exact Hr]. cbn [length] in Hl. lia.
Qed.

(** what [to_serial] writes reads back as the table *)
Lemma of_to_serial t index attrs : length (hdr t) = length (cols t) -> floats_normal t ->
  of_serial (to_serial t index attrs) = Some (hdr t, cols t, index).
Proof.
  intros Hl Hf. unfold of_serial, to_serial, of_obs. cbn [Serial.t_index Serial.t_cols].
  rewrite (mk_cols_cells _ _ Hl Hf). rewrite map_map. cbn [fst].
  change (map (fun x : Serial.column => Serial.c_name x) (mk_cols (hdr t) (cols t)))
    with (map Serial.c_name (mk_cols (hdr t) (cols t))).
  rewrite (mk_cols_names _ _ Hl). reflexivity.
Qed.

(** [of_serial] looks at nothing but the observation of C10 *)
Lemma of_serial_obs s s' : SerialSpec.observe_table s' = SerialSpec.observe_table s -> of_serial s' = of_serial s.
Proof.
  unfold SerialSpec.observe_table, of_serial. intros H. injection H as Hix _ Hcols. rewrite Hix, Hcols. reflexivity.
Qed.

Lemma is_scalar_cell_json col : forallb Serial.is_scalar (map cell_json col) = true.
Proof. induction col as [|c col IH]; [reflexivity|]. cbn [map forallb]. rewrite IH. destruct c; reflexivity. Qed.

Lemma zlen_map_cell_json (col : list cell) : zlen (map cell_json col) = Z.of_nat (length col).
Proof. unfold zlen. rewrite map_length. reflexivity. Qed.

Lemma cols_okb_mk_cols n : forall h cs seen,
  length h = length cs -> Forall (fun c : list cell => length c = n) cs ->
  forallb Serial.stripped h = true -> NoDup h -> (forall x, In x h -> ~ In x seen) ->
  SerialSpec.cols_okb (mk_cols h cs) (Z.of_nat n) seen = true.
Proof.
  induction h as [|x h IH]; intros [|c cs] seen Hl Hlen Hst Hnd Hseen; try discriminate; [reflexivity|].
  cbn [forallb] in Hst. apply andb_true_iff in Hst. destruct Hst as [Hx Hst].
  inversion Hlen as [|c0 cs0 Hc Hcs]; subst c0 cs0. inversion Hnd as [|x0 h0 Hnx Hnd']; subst x0 h0.
  cbn [mk_cols SerialSpec.cols_okb Serial.c_name Serial.c_values].
  rewrite Hx, is_scalar_cell_json, zlen_map_cell_json, Hc, Z.eqb_refl.
  assert (Hm : Serial.mem_str x seen = false).
  { destruct (Serial.mem_str x seen) eqn:E; [|reflexivity]. apply SerialProofs.mem_str_In in E.
    exfalso. apply (Hseen x); [left; reflexivity|exact E]. }
  rewrite Hm. cbn [negb andb]. apply IH.
  - cbn [length] in Hl. lia.
  - exact Hcs.
  - exact Hst.
  - exact Hnd'.
  - intros y Hy [Hyx|Hys].
    + subst y. exact (Hnx Hy).
    + apply (Hseen y); [right; exact Hy|exact Hys].
Qed.

Lemma find_col_mk_cols n : forall h cs col, assoc_get h cs n = Some col ->
  exists c, Serial.find_col n (mk_cols h cs) = Some c /\ Serial.c_values c = map cell_json col.
Proof.
  induction h as [|x h IH]; intros [|c cs] col Hg; try discriminate.
  cbn [assoc_get] in Hg. cbn [mk_cols Serial.find_col Serial.c_name]. rewrite zeqb_str_eqb.
  destruct (str_eqb n x) eqn:E.
  - injection Hg as <-. eexists. split; [reflexivity|reflexivity].
  - exact (IH cs col Hg).
Qed.

Lemma check_index_mk_cols t index : index_okb t index = true ->
  Serial.check_index index (mk_cols (hdr t) (cols t)) = View.Ok tt.
Proof.
  destruct index as [n|]; [|reflexivity]. cbn [index_okb Serial.check_index].
  destruct (assoc_get (hdr t) (cols t) n) as [col|] eqn:Eg; [|discriminate]. intros Hd.
  destruct (find_col_mk_cols n _ _ _ Eg) as (c & Hc & Hv). rewrite Hc, Hv, Hd. reflexivity.
Qed.

(** the guard of the C10 theorem holds for the image of a well-formed C20 table *)
Lemma to_serial_okb t index attrs :
  wf t -> forallb Serial.stripped (hdr t) = true -> index_okb t index = true ->
  SerialSpec.table_okb (to_serial t index attrs) = true.
Proof.
  intros (Hl & Hlen & Hnd) Hst Hix. unfold SerialSpec.table_okb, to_serial. cbn [Serial.t_cols Serial.t_index].
  rewrite (check_index_mk_cols t index Hix). rewrite andb_true_r.
  assert (Hn : SerialSpec.nrows_of (mk_cols (hdr t) (cols t)) = Z.of_nat (nrows t) \/ mk_cols (hdr t) (cols t) = []).
  { destruct (hdr t) as [|x h]; [right; reflexivity|]. destruct (cols t) as [|c cs]; [right; reflexivity|]. left.
    cbn [mk_cols SerialSpec.nrows_of Serial.c_values]. rewrite zlen_map_cell_json.
    inversion Hlen as [|c0 cs0 Hc Hcs]. rewrite Hc. reflexivity. }
  destruct Hn as [Hn|Hn].
  - rewrite Hn. apply cols_okb_mk_cols; [exact Hl|exact Hlen|exact Hst|exact Hnd|intros x _ []].
  - rewrite Hn. reflexivity.
Qed.

(** every dtype string [col_dtype_name] writes is read back as itself *)
Lemma col_dtype_stable col : Serial.redtype (col_dtype_name col) = col_dtype_name col.
Proof.
  unfold col_dtype_name. destruct col as [|c col]; [reflexivity|].
  destruct (dtype_of (c :: col)); reflexivity.
Qed.

Lemma to_serial_dtypes_stable t index attrs : SerialSpec.dtypes_stable (to_serial t index attrs) = true.
Proof.
  unfold SerialSpec.dtypes_stable, to_serial. cbn [Serial.t_cols].
  generalize (cols t). induction (hdr t) as [|x h IH]; intros [|c cs]; try reflexivity.
  cbn [mk_cols forallb Serial.c_dtype]. rewrite col_dtype_stable, SerialProofs.zeqb_refl. exact (IH cs).
Qed.

(* ------------------------------------------------------------------ the round trip *)

(** JSON (and pickle) round trip of a table: what [to_rich_dict] / [__getstate__] writes is a dictionary, the decoder
    accepts it, and the table it builds has the same header (column order included), the same typed cells, the same
    [index_name] and the same attributes.  Derived from the C10 theorem through its observation. *)
Theorem table_json_roundtrip t index attrs :
  wf t ->
  forallb Serial.stripped (hdr t) = true ->
  index_okb t index = true ->
  floats_normal t ->
  exists d t',
    Serial.table_to_dict (to_serial t index attrs) = Serial.JObj d /\
    Serial.table_of_dict d = View.Ok t' /\
    of_serial t' = Some (hdr t, cols t, index) /\
    Serial.t_attrs t' = attrs.
Proof.
  intros Hwf Hst Hix Hf.
  pose proof (to_serial_okb t index attrs Hwf Hst Hix) as Hok.
  eexists. destruct (SerialProofs.table_roundtrip_lemma (to_serial t index attrs) _ Hok eq_refl) as (t' & Hdec & Hobs & _).
  exists t'. split; [reflexivity|]. split; [exact Hdec|]. split.
  - rewrite (of_serial_obs _ _ Hobs). apply of_to_serial; [exact (proj1 Hwf)|exact Hf].
  - unfold SerialSpec.observe_table in Hobs. injection Hobs as _ Ha _. exact Ha.
Qed.

(** the dtype strings are stable too, so the decoded C10 table is the very table that was written *)
Theorem table_json_roundtrip_exact t index attrs :
  wf t ->
  forallb Serial.stripped (hdr t) = true ->
  index_okb t index = true ->
  exists d,
    Serial.table_to_dict (to_serial t index attrs) = Serial.JObj d /\
    Serial.table_of_dict d = View.Ok (to_serial t index attrs).
Proof.
  intros Hwf Hst Hix. eexists. split; [reflexivity|].
  apply SerialProofs.table_roundtrip_exact_lemma;
    [exact (to_serial_okb t index attrs Hwf Hst Hix)|apply to_serial_dtypes_stable|reflexivity].
Qed.

(* ------------------------------------------------------------------ examples *)

(** columns  n : int,  name : text,  ok : bool,  opt : None / int (object),  x : float;   index_name = "name" *)
Definition ex_hdr : list str :=
  [ [110]; [110; 97; 109; 101]; [111; 107]; [111; 112; 116]; [120] ].

Definition ex_tab : table :=
  mkT ex_hdr
      [ [CI 1; CI (-2); CI 30];
        [CS [97]; CS [98; 99]; CS []];
        [CB true; CB false; CB true];
        [CN; CI 5; CN];
        [CF 30000000000000004 (-17); CF (-1) 22; CF 12345 (-9)] ]
      3.

Definition ex_index : option (list Z) := Some [110; 97; 109; 101].

Definition ex_attrs : Serial.dict := [ (Serial.k_title, Serial.JStr [116]); (Serial.k_legend, Serial.JStr []) ].

Example ex_tab_wf : wf ex_tab.
Proof.
  unfold wf, ex_tab, ex_hdr. cbn [hdr cols nrows]. split; [reflexivity|]. split.
  - repeat constructor.
  - repeat (constructor; [cbn [In]; intros H; repeat (destruct H as [H|H]; [discriminate|]); exact H|]). constructor.
Qed.

Example ex_tab_hyps :
  forallb Serial.stripped (hdr ex_tab) = true /\ index_okb ex_tab ex_index = true /\ floats_normalb ex_tab = true.
Proof. vm_compute. repeat split; reflexivity. Qed.

Example ex_tab_dtypes :
  SerialSpec.table_dtypes (to_serial ex_tab ex_index ex_attrs)
  = [ s_int64; [60; 85; 50]; s_bool; s_object; s_float64 ].
Proof. vm_compute. reflexivity. Qed.

(** the float cells are written as "0.30000000000000004", "-1e+22", "1.2345e-05" *)
Example ex_tab_floats :
  map cell_json [CF 30000000000000004 (-17); CF (-1) 22; CF 12345 (-9)]
  = [ Serial.JFloat [48; 46; 51; 48; 48; 48; 48; 48; 48; 48; 48; 48; 48; 48; 48; 48; 48; 48; 52];
      Serial.JFloat [45; 49; 101; 43; 50; 50];
      Serial.JFloat [49; 46; 50; 51; 52; 53; 101; 45; 48; 53] ].
Proof. vm_compute. reflexivity. Qed.

(** the whole trip, computed *)
Example ex_tab_roundtrip_computed :
  match Serial.table_to_dict (to_serial ex_tab ex_index ex_attrs) with
  | Serial.JObj d =>
      match Serial.table_of_dict d with
      | View.Ok t' => of_serial t' = Some (hdr ex_tab, cols ex_tab, ex_index) /\ Serial.t_attrs t' = ex_attrs
      | View.Err _ => False
      end
  | _ => False
  end.
Proof. vm_compute. split; reflexivity. Qed.

(** the same, as an instance of the theorem *)
Example ex_tab_roundtrip :
  exists d t',
    Serial.table_to_dict (to_serial ex_tab ex_index ex_attrs) = Serial.JObj d /\
    Serial.table_of_dict d = View.Ok t' /\
    of_serial t' = Some (hdr ex_tab, cols ex_tab, ex_index) /\
    Serial.t_attrs t' = ex_attrs.
Proof.
  destruct ex_tab_hyps as (H1 & H2 & H3). exact (table_json_roundtrip ex_tab ex_index ex_attrs ex_tab_wf H1 H2 (floats_normalb_ok _ H3)).
Qed.

(** a repeated value in the index column is refused by the guard (and by the [index_name] setter) *)
Example ex_index_refused : index_okb ex_tab (Some [111; 107]) = false.
Proof. vm_compute. reflexivity. Qed.
