(** C17 — proofs.  The window lemmas are about the *generated* clauses. *)
From Coq Require Import Permutation Sorting.Sorted.
From CG3 Require Import Lib.PyZ Model.AnnotDb Spec.AnnotDbSpec.
From CG3gen Require Import OverlapGen.

Lemma gen_partial_overlap fs fe qs qe :
  fs < fe -> qs < qe -> gen_partial fs fe qs qe = overlap fs fe qs qe.
Proof. unfold gen_partial, overlap; intros; lia. Qed.

Lemma gen_partial_overlap_iff fs fe qs qe :
  fs < fe -> qs < qe -> (gen_partial fs fe qs qe = true <-> fs < qe /\ qs < fe).
Proof. unfold gen_partial; intros; lia. Qed.

(** what the clause does on every input, degenerate ones included *)
Lemma gen_partial_total fs fe qs qe :
  gen_partial fs fe qs qe =
  within fs fe qs qe || covers fs fe qs || ((fs <? qe) && (qe <=? fe)) || ((fs <=? qs) && (qe <=? fe)).
Proof. unfold gen_partial, within, covers; lia. Qed.

Lemma gen_within_spec fs fe qs qe : gen_within fs fe qs qe = within fs fe qs qe.
Proof. unfold gen_within, within; lia. Qed.

Lemma gen_start_only_spec fs fe qs : gen_start_only fs fe qs = covers fs fe qs.
Proof. unfold gen_start_only, covers; lia. Qed.

Lemma gen_stop_only_spec fs fe qe : gen_stop_only fs fe qe = covers fs fe qe.
Proof. unfold gen_stop_only, covers; lia. Qed.

Definition gwindow := window gen_partial gen_within gen_start_only gen_stop_only.
Definition grow_match := row_match gen_partial gen_within gen_start_only gen_stop_only.
Definition gquery := query_db gen_partial gen_within gen_start_only gen_stop_only.
Definition gcount := count_db gen_partial gen_within gen_start_only gen_stop_only.

Lemma window_spec q r : row_wf r -> query_wf q -> gwindow q r = spec_window q r.
Proof.
  unfold gwindow, window, spec_window, row_wf, query_wf.
  destruct (q_start q) as [qs|], (q_stop q) as [qe|]; intros Hr Hq.
  - destruct (q_partial q).
    + apply gen_partial_overlap; assumption.
    + apply gen_within_spec.
  - apply gen_start_only_spec.
  - apply gen_stop_only_spec.
  - reflexivity.
Qed.

Lemma row_match_spec q r : row_wf r -> query_wf q -> grow_match q r = spec_match q r.
Proof.
  intros Hr Hq. unfold grow_match, row_match, spec_match.
  fold gwindow. rewrite (window_spec q r Hr Hq). reflexivity.
Qed.

Lemma filter_ext_in' {A} (f g : A -> bool) l :
  (forall x, In x l -> f x = g x) -> filter f l = filter g l.
Proof.
  induction l as [|a l IH]; simpl; intros H; [reflexivity|].
  rewrite (H a (or_introl eq_refl)), IH; auto.
Qed.

Lemma filter_flat_map {A B} (p : B -> bool) (f : A -> list B) l :
  filter p (flat_map f l) = flat_map (fun a => filter p (f a)) l.
Proof.
  induction l as [|a l IH]; simpl; [reflexivity|].
  rewrite filter_app, IH. reflexivity.
Qed.

Lemma rows_of_In t db r : In r (rows_of t db) -> In r db.
Proof. unfold rows_of. rewrite filter_In. tauto. Qed.

(** the query is exactly the linear scan *)
Lemma query_is_scan tables db q :
  Forall row_wf db -> query_wf q -> gquery tables db q = scan tables db q.
Proof.
  intros Hdb Hq. unfold gquery, query_db, scan, records_in_tables.
  rewrite filter_flat_map.
  apply flat_map_ext. intros t.
  apply filter_ext_in'. intros r Hin.
  apply row_match_spec; [|assumption].
  rewrite Forall_forall in Hdb. apply Hdb. eapply rows_of_In; eauto.
Qed.

Lemma count_is_length tables db q :
  Forall row_wf db -> query_wf q -> q_on_aln q <> Some true ->
  gcount tables db q = zlen (scan tables db q).
Proof.
  intros Hdb Hq Hon. rewrite <- (query_is_scan tables db q Hdb Hq).
  unfold gcount, count_db, gquery, query_db, tables_for.
  destruct (q_on_aln q) as [[|]|]; try reflexivity. congruence.
Qed.

(** every returned row is a stored row (spans and strand intact) and matches *)
Lemma query_sound tables db q r :
  In r (gquery tables db q) -> In r db /\ grow_match q r = true.
Proof.
  unfold gquery, query_db. rewrite in_flat_map. intros [t [_ Hin]].
  rewrite filter_In in Hin. destruct Hin as [Hin Hm]. split; [eapply rows_of_In; eauto|exact Hm].
Qed.

Lemma query_complete tables db q r :
  In r db -> In (r_table r) (tables_for q tables) ->
  grow_match q r = true -> In r (gquery tables db q).
Proof.
  intros Hin Ht Hm. unfold gquery, query_db. rewrite in_flat_map.
  exists (r_table r). split; [exact Ht|].
  rewrite filter_In. split; [|exact Hm].
  unfold rows_of. rewrite filter_In. split; [exact Hin|]. lia.
Qed.

(** ---------- span normalisation ---------- *)

Lemma insert_span_perm x l : Permutation (insert_span x l) (x :: l).
Proof.
  induction l as [|y t IH]; simpl; [reflexivity|].
  destruct (span_leb x y); [reflexivity|].
  rewrite IH. apply perm_swap.
Qed.

Lemma sort_spans_perm l : Permutation (sort_spans l) l.
Proof.
  induction l as [|x l IH]; simpl; [reflexivity|].
  rewrite insert_span_perm. constructor. exact IH.
Qed.

Lemma norm_spans_perm l : Permutation (norm_spans l) (map norm_span l).
Proof. apply sort_spans_perm. Qed.

Definition span_le (a b : Z * Z) : Prop := span_leb a b = true.

Lemma span_leb_total a b : span_leb a b = false -> span_leb b a = true.
Proof. unfold span_leb; destruct a, b; simpl; lia. Qed.

Lemma insert_span_sorted x l : Sorted span_le l -> Sorted span_le (insert_span x l).
Proof.
  induction l as [|y t IH]; simpl; intros Hs.
  - repeat constructor.
  - destruct (span_leb x y) eqn:E.
    + constructor; [exact Hs|constructor; exact E].
    + inversion Hs as [|? ? Hst Hhd]; subst.
      constructor; [apply IH; exact Hst|].
      destruct t as [|z t']; simpl.
      * constructor. apply span_leb_total; exact E.
      * destruct (span_leb x z); constructor.
        -- apply span_leb_total; exact E.
        -- inversion Hhd; subst; assumption.
Qed.

Lemma sort_spans_sorted l : Sorted span_le (sort_spans l).
Proof. induction l as [|x l IH]; simpl; [constructor|apply insert_span_sorted; exact IH]. Qed.

Lemma zmin_list_le d l x : In x (d :: l) -> zmin_list d l <= x.
Proof.
  induction l as [|y l IH]; simpl; intros H.
  - destruct H as [->|[]]; lia.
  - destruct H as [->|[->|H]]; try lia.
    + assert (zmin_list x l <= x) by (apply IH; left; reflexivity). lia.
    + assert (zmin_list d l <= x) by (apply IH; right; exact H). lia.
Qed.

Lemma zmin_list_in d l : In (zmin_list d l) (d :: l).
Proof.
  induction l as [|y l IH]; simpl; [left; reflexivity|].
  destruct (Z.min_spec y (zmin_list d l)) as [[_ ->]|[_ ->]].
  - right; left; reflexivity.
  - simpl in IH. destruct IH as [IH|IH]; [left; exact IH|right; right; exact IH].
Qed.

Lemma zmax_list_ge d l x : In x (d :: l) -> x <= zmax_list d l.
Proof.
  induction l as [|y l IH]; simpl; intros H.
  - destruct H as [->|[]]; lia.
  - destruct H as [->|[->|H]]; try lia.
    + assert (x <= zmax_list x l) by (apply IH; left; reflexivity). lia.
    + assert (x <= zmax_list d l) by (apply IH; right; exact H). lia.
Qed.

Lemma zmax_list_in d l : In (zmax_list d l) (d :: l).
Proof.
  induction l as [|y l IH]; simpl; [left; reflexivity|].
  destruct (Z.max_spec y (zmax_list d l)) as [[_ ->]|[_ ->]].
  - simpl in IH. destruct IH as [IH|IH]; [left; exact IH|right; right; exact IH].
  - right; left; reflexivity.
Qed.

Lemma coords_perm l l' : Permutation l l' -> Permutation (coords l) (coords l').
Proof.
  unfold coords. induction 1; simpl.
  - constructor.
  - repeat constructor. assumption.
  - apply perm_trans with (fst y :: snd y :: fst x :: snd x :: flat_map (fun p => [fst p; snd p]) l).
    + repeat constructor. apply Permutation_refl.
    + change (fst y :: snd y :: fst x :: snd x :: flat_map (fun p => [fst p; snd p]) l)
        with ([fst y; snd y] ++ [fst x; snd x] ++ flat_map (fun p => [fst p; snd p]) l).
      change (fst x :: snd x :: fst y :: snd y :: flat_map (fun p => [fst p; snd p]) l)
        with ([fst x; snd x] ++ [fst y; snd y] ++ flat_map (fun p => [fst p; snd p]) l).
      rewrite !app_assoc. apply Permutation_app_tail. apply Permutation_app_comm.
  - eapply perm_trans; eauto.
Qed.

Lemma coords_norm_in l x : In x (coords (map norm_span l)) <-> In x (coords l).
Proof.
  unfold coords. rewrite !in_flat_map. split.
  - intros [p [Hp Hx]]. rewrite in_map_iff in Hp. destruct Hp as [p0 [<- Hp0]].
    exists p0. split; [exact Hp0|]. unfold norm_span in Hx; simpl in Hx.
    destruct Hx as [<-|[<-|[]]]; simpl; lia.
  - intros [p [Hp Hx]]. exists (norm_span p). split; [apply in_map; exact Hp|].
    unfold norm_span; simpl. simpl in Hx. destruct Hx as [<-|[<-|[]]]; lia.
Qed.

(** start/stop stored by add_feature are the extreme coordinates of what the user gave *)
Lemma add_feature_bounds seqid bt nm strand attrs on spans :
  spans <> [] ->
  let r := add_feature seqid bt nm strand attrs on spans in
  In (r_start r) (coords spans) /\ In (r_stop r) (coords spans) /\
  (forall x, In x (coords spans) -> r_start r <= x <= r_stop r).
Proof.
  intros Hne r. subst r. unfold add_feature; cbn [r_start r_stop].
  set (s := norm_spans spans).
  assert (Hperm : Permutation (coords s) (coords (map norm_span spans)))
    by (apply coords_perm, norm_spans_perm).
  assert (Hin : forall x, In x (coords s) <-> In x (coords spans)).
  { intros x. rewrite <- (coords_norm_in spans x). split; intros H.
    - apply (Permutation_in x Hperm H).
    - apply (Permutation_in x (Permutation_sym Hperm) H). }
  unfold spans_min, spans_max.
  destruct (coords s) as [|c cs] eqn:Ec.
  - exfalso. destruct spans as [|p ps]; [congruence|].
    assert (In (fst p) (coords (p :: ps))) by (simpl; left; reflexivity).
    apply Hin in H. exact H.
  - split; [apply Hin, zmin_list_in|]. split; [apply Hin, zmax_list_in|].
    intros x Hx. apply Hin in Hx. split; [apply zmin_list_le|apply zmax_list_ge]; exact Hx.
Qed.

Lemma add_feature_spans seqid bt nm strand attrs on spans :
  let r := add_feature seqid bt nm strand attrs on spans in
  Permutation (r_spans r) (map norm_span spans) /\ Sorted span_le (r_spans r).
Proof. simpl. split; [apply norm_spans_perm|apply sort_spans_sorted]. Qed.

(** ---------- GFF coordinates ---------- *)
Lemma gff_coord_spec s e :
  1 <= s <= e -> gff_coord s e = (s - 1, e) /\ e - (s - 1) = e - s + 1.
Proof. intros H. unfold gff_coord. split; [|lia].
  destruct ((s - 1 <? 0) || (e <? 0)) eqn:E1; [lia|].
  destruct (s - 1 >? e) eqn:E2; [lia|reflexivity]. Qed.

(** ---------- union / update keep the multiset of records ---------- *)
Lemma union_multiset a b : Permutation (db_union a b) (a ++ b).
Proof. unfold db_union, db_update. simpl. apply Permutation_refl. Qed.

Lemma update_multiset a b : Permutation (db_update a b) (a ++ b).
Proof. apply Permutation_refl. Qed.

(** subset = the scan, so it is a sub-multiset chosen by the query alone *)
Lemma subset_spec tables db q :
  Forall row_wf db -> query_wf q ->
  gquery tables db q = filter (spec_match q) (records_in_tables (tables_for q tables) db).
Proof. intros. apply query_is_scan; assumption. Qed.

(** non-vacuity: a concrete multi-span record on the minus strand is well-formed
    and is found by an overlapping window but not by a within query *)
Definition ex_row := add_feature [115] [103] [110] (Some [45]) None (Some false) [(9, 4); (1, 3)].
Example ex_row_wf : row_wf ex_row /\ r_spans ex_row = [(1, 3); (4, 9)].
Proof. unfold row_wf. vm_compute. split; reflexivity. Qed.
Definition ex_q := {| q_biotype := QAny; q_seqid := QOne [115]; q_name := QIn [[110]; [120]]; q_strand := Some [45];
  q_attrs := None; q_attrs_lit := false; q_on_aln := None; q_start := Some 8; q_stop := Some 20; q_partial := true |}.
Example ex_q_hits : query_wf ex_q /\ gquery [1] [ex_row] ex_q = [ex_row].
Proof. split; [vm_compute; reflexivity|vm_compute; reflexivity]. Qed.

(** ---------- start/stop of every stored row are the extremes of its spans ---------- *)
Lemma spans_extent s :
  s <> [] ->
  In (spans_min s) (coords s) /\ In (spans_max s) (coords s) /\
  (forall x, In x (coords s) -> spans_min s <= x <= spans_max s).
Proof.
  intros Hne. unfold spans_min, spans_max.
  destruct (coords s) as [|c cs] eqn:Ec.
  - exfalso. destruct s as [|p ps]; [congruence|]. unfold coords in Ec. simpl in Ec. discriminate.
  - split; [apply zmin_list_in|]. split; [apply zmax_list_in|].
    intros x Hx. split; [apply zmin_list_le|apply zmax_list_ge]; exact Hx.
Qed.

Lemma sort_spans_nonempty l : l <> [] -> sort_spans l <> [].
Proof.
  intros H E. assert (P := sort_spans_perm l). rewrite E in P.
  apply Permutation_nil in P. contradiction.
Qed.

Lemma gff_row_extent seqid bt nm strand attrs lines :
  lines <> [] ->
  let r := gff_row seqid bt nm strand attrs lines in
  Permutation (r_spans r) (map norm_span (map (fun p => gff_coord (fst p) (snd p)) lines)) /\
  In (r_start r) (coords (r_spans r)) /\ In (r_stop r) (coords (r_spans r)) /\
  (forall x, In x (coords (r_spans r)) -> r_start r <= x <= r_stop r).
Proof.
  intros Hne r. subst r. unfold gff_row; cbn [r_spans r_start r_stop].
  split; [apply norm_spans_perm|]. apply spans_extent.
  unfold norm_spans. apply sort_spans_nonempty. destruct lines; [congruence|discriminate].
Qed.

(** ---------- GenBank locations ---------- *)
Lemma gb_segment a b :
  1 <= a <= b ->
  loc_spans (LSeg a b) = [(a - 1, b)] /\ loc_strand (LSeg a b) = Some [43] /\ b - (a - 1) = b - a + 1.
Proof. intros H. unfold loc_spans, loc_strand; simpl. repeat split; try lia. repeat f_equal; lia. Qed.

Lemma gb_point a : loc_spans (LPoint a) = [(a - 1, a)] /\ loc_strand (LPoint a) = Some [43].
Proof. unfold loc_spans, loc_strand; simpl. split; [repeat f_equal; lia|reflexivity]. Qed.

Lemma gb_complement_segment a b :
  loc_spans (LCompl [LSeg a b]) = loc_spans (LSeg a b) /\ loc_strand (LCompl [LSeg a b]) = Some [45].
Proof. unfold loc_spans, loc_strand; simpl. split; reflexivity. Qed.

Definition seg_of (p : Z * Z) : loc := LSeg (fst p) (snd p).
Definition seg_span (p : Z * Z) : Z * Z := (fst p - 1, snd p).

Lemma loc_flat_join_segs ps :
  loc_flat (LJoin (map seg_of ps)) = map (fun p => (fst p - 1, snd p - 1, 1)) ps.
Proof. induction ps as [|p ps IH]; simpl; [reflexivity|]. simpl in IH. rewrite IH. reflexivity. Qed.

(** join(a1..b1, ..., an..bn): the spans are the converted segments, sorted; strand + *)
Lemma gb_join_segments ps :
  ps <> [] ->
  loc_spans (LJoin (map seg_of ps)) = sort_spans (map seg_span ps) /\
  loc_strand (LJoin (map seg_of ps)) = Some [43].
Proof.
  intros Hne. unfold loc_spans, loc_strand. rewrite loc_flat_join_segs. rewrite !map_map. split.
  - f_equal. apply map_ext. intros p. unfold seg_span; simpl. f_equal. lia.
  - destruct ps as [|p ps]; [congruence|]. simpl.
    replace (forallb (fun y => y =? 1) (map (fun _ : Z * Z => 1) ps)) with true; [reflexivity|].
    clear. induction ps as [|q ps IH]; simpl; [reflexivity|exact IH].
Qed.

(** complement(join(...)): the same positions (as a multiset, and sorted), strand - *)
Lemma gb_complement_join_segments ps :
  ps <> [] ->
  Permutation (loc_spans (LCompl [LJoin (map seg_of ps)])) (map seg_span ps) /\
  Sorted span_le (loc_spans (LCompl [LJoin (map seg_of ps)])) /\
  loc_strand (LCompl [LJoin (map seg_of ps)]) = Some [45].
Proof.
  intros Hne.
  assert (Hflat : loc_flat (LCompl [LJoin (map seg_of ps)]) = map (fun p => (fst p - 1, snd p - 1, -1)) (rev ps)).
  { change (loc_flat (LCompl [LJoin (map seg_of ps)]))
      with (map (fun p => (fst (fst p), snd (fst p), - snd p)) (rev (loc_flat (LJoin (map seg_of ps)) ++ []))).
    rewrite app_nil_r, loc_flat_join_segs, <- map_rev, map_map. apply map_ext. intros p. reflexivity. }
  unfold loc_spans, loc_strand. rewrite Hflat. rewrite !map_map. split; [|split].
  - eapply perm_trans; [apply sort_spans_perm|].
    eapply perm_trans; [|apply Permutation_map; apply Permutation_sym; apply Permutation_rev].
    apply Permutation_refl'. apply map_ext. intros p. unfold seg_span; simpl. f_equal. lia.
  - apply sort_spans_sorted.
  - destruct (rev ps) as [|p qs] eqn:E.
    + exfalso. apply Hne. rewrite <- (rev_involutive ps), E. reflexivity.
    + simpl. replace (forallb (fun y => y =? -1) (map (fun _ : Z * Z => -1) qs)) with true; [reflexivity|].
      clear. induction qs as [|q qs IH]; simpl; [reflexivity|exact IH].
Qed.

Lemma gb_row_extent seqid bt nm x :
  loc_flat x <> [] ->
  let r := gb_row seqid bt nm x in
  In (r_start r) (coords (r_spans r)) /\ In (r_stop r) (coords (r_spans r)) /\
  (forall y, In y (coords (r_spans r)) -> r_start r <= y <= r_stop r).
Proof.
  intros Hne r. subst r. unfold gb_row; cbn [r_spans r_start r_stop].
  apply spans_extent. unfold loc_spans. apply sort_spans_nonempty.
  destruct (loc_flat x); [congruence|discriminate].
Qed.

(** ---------- tables partition the record list ---------- *)
Definition tables_ok (tables : list Z) (db : list row) : Prop :=
  NoDup tables /\ forall r, In r db -> In (r_table r) tables.

Lemma partition_perm {A} (f : A -> bool) l : Permutation l (filter f l ++ filter (fun x => negb (f x)) l).
Proof.
  induction l as [|a l IH]; simpl; [constructor|].
  destruct (f a); simpl.
  - constructor. exact IH.
  - apply Permutation_cons_app. exact IH.
Qed.

Lemma rows_of_other t t' db : t <> t' -> rows_of t (rows_of t' db) = [].
Proof.
  intros H. unfold rows_of. induction db as [|r db IH]; simpl; [reflexivity|].
  destruct (r_table r =? t') eqn:E; simpl; [|exact IH].
  destruct (r_table r =? t) eqn:E2; [lia|exact IH].
Qed.

Lemma rows_of_same t db : rows_of t (rows_of t db) = rows_of t db.
Proof.
  unfold rows_of. induction db as [|r db IH]; simpl; [reflexivity|].
  destruct (r_table r =? t) eqn:E; simpl; [rewrite E, IH; reflexivity|exact IH].
Qed.

Lemma rows_of_app t a b : rows_of t (a ++ b) = rows_of t a ++ rows_of t b.
Proof. unfold rows_of. apply filter_app. Qed.

(** the rows of table [t] in the table-by-table listing are the rows of table [t] *)
Lemma rows_of_records tables : forall t db,
  NoDup tables ->
  rows_of t (records_in_tables tables db) = if existsb (fun t' => t' =? t) tables then rows_of t db else [].
Proof.
  induction tables as [|t' ts IH]; intros t db Hnd; simpl; [reflexivity|].
  inversion Hnd as [|? ? Hn Hts]; subst.
  unfold records_in_tables in *. simpl. rewrite rows_of_app, IH by exact Hts.
  destruct (t' =? t) eqn:E; simpl.
  - assert (t' = t) by lia. subst t'. rewrite rows_of_same.
    replace (existsb (fun t' => t' =? t) ts) with false; [apply app_nil_r|].
    symmetry. apply not_true_is_false. intros Hex. apply existsb_exists in Hex.
    destruct Hex as [u [Hu Eu]]. assert (u = t) by lia. subst u. contradiction.
  - rewrite rows_of_other by lia. reflexivity.
Qed.

Lemma flat_map_ext_in' {A B} (f g : A -> list B) l :
  (forall x, In x l -> f x = g x) -> flat_map f l = flat_map g l.
Proof.
  induction l as [|a l IH]; simpl; intros H; [reflexivity|].
  rewrite (H a (or_introl eq_refl)), IH; [reflexivity|]. intros x Hx. apply H. right. exact Hx.
Qed.

Lemma filter_filter_and {A} (f g : A -> bool) l :
  filter f (filter g l) = filter (fun x => f x && g x) l.
Proof.
  induction l as [|a l IH]; simpl; [reflexivity|].
  destruct (g a); simpl; [destruct (f a); simpl; rewrite IH; reflexivity|].
  rewrite andb_false_r. exact IH.
Qed.

Lemma records_in_tables_perm tables : forall db,
  tables_ok tables db -> Permutation (records_in_tables tables db) db.
Proof.
  induction tables as [|t ts IH]; intros db [Hnd Hin].
  - destruct db as [|r db]; [constructor|]. exfalso. exact (Hin r (or_introl eq_refl)).
  - inversion Hnd as [|? ? Hn Hts]; subst.
    unfold records_in_tables in *. simpl.
    set (rest := filter (fun r => negb (r_table r =? t)) db).
    assert (Hrest : flat_map (fun t0 => rows_of t0 db) ts = flat_map (fun t0 => rows_of t0 rest) ts).
    { apply flat_map_ext_in'. intros u Hu. unfold rows_of, rest. rewrite filter_filter_and.
      apply filter_ext_in'. intros r _. destruct (r_table r =? u) eqn:E1; simpl; [|reflexivity].
      destruct (r_table r =? t) eqn:E2; simpl; [|reflexivity].
      exfalso. assert (u = t) by lia. subst u. contradiction. }
    rewrite Hrest.
    eapply perm_trans; [|apply Permutation_sym; apply (partition_perm (fun r => r_table r =? t) db)].
    apply Permutation_app_head. apply IH. split; [exact Hts|].
    intros r Hr. unfold rest in Hr. apply filter_In in Hr. destruct Hr as [Hr Ht].
    destruct (Hin r Hr) as [E|E]; [|exact E]. exfalso. subst t. rewrite Z.eqb_refl in Ht. discriminate.
Qed.

(** ---------- to_rich_dict / from_dict ---------- *)
Lemma from_to_rich tables db : from_rich (to_rich tables db) = records_in_tables tables db.
Proof.
  unfold from_rich, to_rich, records_in_tables.
  induction tables as [|t ts IH]; simpl; [reflexivity|]. rewrite IH. reflexivity.
Qed.

Lemma rich_roundtrip_multiset tables db :
  tables_ok tables db -> Permutation (from_rich (to_rich tables db)) db.
Proof. intros H. rewrite from_to_rich. apply records_in_tables_perm. exact H. Qed.

Lemma rows_of_records_ok tables db t :
  tables_ok tables db -> rows_of t (records_in_tables tables db) = rows_of t db.
Proof.
  intros [Hnd Hin]. rewrite rows_of_records by exact Hnd.
  destruct (existsb (fun t' => t' =? t) tables) eqn:E; [reflexivity|].
  symmetry. unfold rows_of. induction db as [|r db IH]; simpl; [reflexivity|].
  destruct (r_table r =? t) eqn:E2.
  - exfalso. assert (In (r_table r) tables) by (apply Hin; left; reflexivity).
    assert (existsb (fun t' => t' =? t) tables = true); [|congruence].
    apply existsb_exists. exists (r_table r). split; assumption.
  - apply IH. intros r' Hr'. apply Hin. right. exact Hr'.
Qed.

(** every query gives the same answer (same order even) on the round-tripped db *)
Lemma rich_roundtrip_query tables db q :
  tables_ok tables db ->
  gquery tables (from_rich (to_rich tables db)) q = gquery tables db q /\
  gcount tables (from_rich (to_rich tables db)) q = gcount tables db q.
Proof.
  intros H. rewrite from_to_rich. unfold gquery, gcount, query_db, count_db. split.
  - apply flat_map_ext. intros t. rewrite rows_of_records_ok by exact H. reflexivity.
  - f_equal. apply flat_map_ext. intros t. rewrite rows_of_records_ok by exact H. reflexivity.
Qed.

(** ---------- update / union table by table ---------- *)
Lemma update_tw_multiset otables self other :
  tables_ok otables other -> Permutation (db_update_tw otables self other) (self ++ other).
Proof.
  intros H. unfold db_update_tw. apply Permutation_app_head.
  apply (records_in_tables_perm otables other H).
Qed.

Lemma union_tw_multiset stables otables a b :
  tables_ok stables a -> tables_ok otables b ->
  Permutation (db_union_tw stables otables a b) (a ++ b).
Proof.
  intros Ha Hb. unfold db_union_tw.
  eapply perm_trans; [apply update_tw_multiset; exact Hb|].
  apply Permutation_app_tail. apply (update_tw_multiset stables [] a Ha).
Qed.

(** ---------- subset ---------- *)
Lemma Permutation_filter' {A} (f : A -> bool) l l' :
  Permutation l l' -> Permutation (filter f l) (filter f l').
Proof.
  induction 1; simpl.
  - constructor.
  - destruct (f x); [constructor|]; assumption.
  - destruct (f x), (f y); try apply Permutation_refl. apply perm_swap.
  - eapply perm_trans; eassumption.
Qed.

(** subset(...) holds exactly the records of the whole db (all tables) that a scan selects *)
Lemma subset_multiset tables db q :
  tables_ok tables db -> Forall row_wf db -> query_wf q -> q_on_aln q <> Some true ->
  Permutation (gquery tables db q) (filter (spec_match q) db).
Proof.
  intros Hok Hwf Hq Hon. rewrite query_is_scan by assumption. unfold scan.
  replace (tables_for q tables) with tables.
  - apply Permutation_filter'. apply records_in_tables_perm. exact Hok.
  - unfold tables_for. destruct (q_on_aln q) as [[|]|]; try reflexivity. congruence.
Qed.

Example ex_tables_ok : tables_ok [0; 1] [ex_row; gb_row [115] [103] [110] (LCompl [LJoin [LSeg 3 10; LSeg 20 25]])].
Proof.
  split; [repeat constructor; simpl; intuition lia|].
  intros r [<-|[<-|[]]]; vm_compute; tauto.
Qed.
