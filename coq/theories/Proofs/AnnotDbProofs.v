(** C17 — proofs.  The window lemmas are about the *generated* clauses. *)
From Coq Require Import Permutation Sorting.Sorted.
From CG3 Require Import Lib.PyZ Model.AnnotDb Spec.AnnotDbSpec.
From CG3gen Require Import OverlapGen.

Lemma gen_partial_overlap fs fe qs qe :
  fs < fe -> qs < qe -> gen_partial fs fe qs qe = overlap fs fe qs qe.
Proof. unfold gen_partial, overlap; intros; lia. Qed.

Lemma gen_partial_overlap_iff fs fe qs qe :
  fs < fe -> qs < qe -> (gen_partial fs fe qs qe = true <-> fs < qe /\ qs < fe).
Proof. unfold gen_partial; intros; lia. Qed.

(** what the clause does on every input, degenerate ones included *)
Lemma gen_partial_total fs fe qs qe :
  gen_partial fs fe qs qe =
  within fs fe qs qe || covers fs fe qs || ((fs <? qe) && (qe <=? fe)) || ((fs <=? qs) && (qe <=? fe)).
Proof. unfold gen_partial, within, covers; lia. Qed.

Lemma gen_within_spec fs fe qs qe : gen_within fs fe qs qe = within fs fe qs qe.
Proof. unfold gen_within, within; lia. Qed.

Lemma gen_start_only_spec fs fe qs : gen_start_only fs fe qs = covers fs fe qs.
Proof. unfold gen_start_only, covers; lia. Qed.

Lemma gen_stop_only_spec fs fe qe : gen_stop_only fs fe qe = covers fs fe qe.
Proof. unfold gen_stop_only, covers; lia. Qed.

Definition gwindow := window gen_partial gen_within gen_start_only gen_stop_only.
Definition grow_match := row_match gen_partial gen_within gen_start_only gen_stop_only.
Definition gquery := query_db gen_partial gen_within gen_start_only gen_stop_only.
Definition gcount := count_db gen_partial gen_within gen_start_only gen_stop_only.

Lemma window_spec q r : row_wf r -> query_wf q -> gwindow q r = spec_window q r.
Proof.
  unfold gwindow, window, spec_window, row_wf, query_wf.
  destruct (q_start q) as [qs|], (q_stop q) as [qe|]; intros Hr Hq.
  - destruct (q_partial q).
    + apply gen_partial_overlap; assumption.
    + apply gen_within_spec.
  - apply gen_start_only_spec.
  - apply gen_stop_only_spec.
  - reflexivity.
Qed.

Lemma row_match_spec q r : row_wf r -> query_wf q -> grow_match q r = spec_match q r.
Proof.
  intros Hr Hq. unfold grow_match, row_match, spec_match.
  fold gwindow. rewrite (window_spec q r Hr Hq). reflexivity.
Qed.

Lemma filter_ext_in' {A} (f g : A -> bool) l :
  (forall x, In x l -> f x = g x) -> filter f l = filter g l.
Proof.
  induction l as [|a l IH]; simpl; intros H; [reflexivity|].
  rewrite (H a (or_introl eq_refl)), IH; auto.
Qed.

Lemma filter_flat_map {A B} (p : B -> bool) (f : A -> list B) l :
  filter p (flat_map f l) = flat_map (fun a => filter p (f a)) l.
Proof.
  induction l as [|a l IH]; simpl; [reflexivity|].
  rewrite filter_app, IH. reflexivity.
Qed.

Lemma rows_of_In t db r : In r (rows_of t db) -> In r db.
Proof. unfold rows_of. rewrite filter_In. tauto. Qed.

(** the query is exactly the linear scan *)
Lemma query_is_scan tables db q :
  Forall row_wf db -> query_wf q -> gquery tables db q = scan tables db q.
Proof.
  intros Hdb Hq. unfold gquery, query_db, scan, records_in_tables.
  rewrite filter_flat_map.
  apply flat_map_ext. intros t.
  apply filter_ext_in'. intros r Hin.
  apply row_match_spec; [|assumption].
  rewrite Forall_forall in Hdb. apply Hdb. eapply rows_of_In; eauto.
Qed.

Lemma count_is_length tables db q :
  Forall row_wf db -> query_wf q -> q_on_aln q <> Some true ->
  gcount tables db q = zlen (scan tables db q).
Proof.
  intros Hdb Hq Hon. rewrite <- (query_is_scan tables db q Hdb Hq).
  unfold gcount, count_db, gquery, query_db, tables_for.
  destruct (q_on_aln q) as [[|]|]; try reflexivity. congruence.
Qed.

(** every returned row is a stored row (spans and strand intact) and matches *)
Lemma query_sound tables db q r :
  In r (gquery tables db q) -> In r db /\ grow_match q r = true.
Proof.
  unfold gquery, query_db. rewrite in_flat_map. intros [t [_ Hin]].
  rewrite filter_In in Hin. destruct Hin as [Hin Hm]. split; [eapply rows_of_In; eauto|exact Hm].
Qed.

Lemma query_complete tables db q r :
  In r db -> In (r_table r) (tables_for q tables) ->
  grow_match q r = true -> In r (gquery tables db q).
Proof.
  intros Hin Ht Hm. unfold gquery, query_db. rewrite in_flat_map.
  exists (r_table r). split; [exact Ht|].
  rewrite filter_In. split; [|exact Hm].
  unfold rows_of. rewrite filter_In. split; [exact Hin|]. lia.
Qed.

(** ---------- span normalisation ---------- *)

Lemma insert_span_perm x l : Permutation (insert_span x l) (x :: l).
Proof.
  induction l as [|y t IH]; simpl; [reflexivity|].
  destruct (span_leb x y); [reflexivity|].
  rewrite IH. apply perm_swap.
Qed.

Lemma sort_spans_perm l : Permutation (sort_spans l) l.
Proof.
  induction l as [|x l IH]; simpl; [reflexivity|].
  rewrite insert_span_perm. constructor. exact IH.
Qed.

Lemma norm_spans_perm l : Permutation (norm_spans l) (map norm_span l).
Proof. apply sort_spans_perm. Qed.

Definition span_le (a b : Z * Z) : Prop := span_leb a b = true.

Lemma span_leb_total a b : span_leb a b = false -> span_leb b a = true.
Proof. unfold span_leb; destruct a, b; simpl; lia. Qed.

Lemma insert_span_sorted x l : Sorted span_le l -> Sorted span_le (insert_span x l).
Proof.
  induction l as [|y t IH]; simpl; intros Hs.
  - repeat constructor.
  - destruct (span_leb x y) eqn:E.
    + constructor; [exact Hs|constructor; exact E].
    + inversion Hs as [|? ? Hst Hhd]; subst.
      constructor; [apply IH; exact Hst|].
      destruct t as [|z t']; simpl.
      * constructor. apply span_leb_total; exact E.
      * destruct (span_leb x z); constructor.
        -- apply span_leb_total; exact E.
        -- inversion Hhd; subst; assumption.
Qed.

Lemma sort_spans_sorted l : Sorted span_le (sort_spans l).
Proof. induction l as [|x l IH]; simpl; [constructor|apply insert_span_sorted; exact IH]. Qed.

Lemma zmin_list_le d l x : In x (d :: l) -> zmin_list d l <= x.
Proof.
  induction l as [|y l IH]; simpl; intros H.
  - destruct H as [->|[]]; lia.
  - destruct H as [->|[->|H]]; try lia.
    + assert (zmin_list x l <= x) by (apply IH; left; reflexivity). lia.
    + assert (zmin_list d l <= x) by (apply IH; right; exact H). lia.
Qed.

Lemma zmin_list_in d l : In (zmin_list d l) (d :: l).
Proof.
  induction l as [|y l IH]; simpl; [left; reflexivity|].
  destruct (Z.min_spec y (zmin_list d l)) as [[_ ->]|[_ ->]].
  - right; left; reflexivity.
  - simpl in IH. destruct IH as [IH|IH]; [left; exact IH|right; right; exact IH].
Qed.

Lemma zmax_list_ge d l x : In x (d :: l) -> x <= zmax_list d l.
Proof.
  induction l as [|y l IH]; simpl; intros H.
  - destruct H as [->|[]]; lia.
  - destruct H as [->|[->|H]]; try lia.
    + assert (x <= zmax_list x l) by (apply IH; left; reflexivity). lia.
    + assert (x <= zmax_list d l) by (apply IH; right; exact H). lia.
Qed.

Lemma zmax_list_in d l : In (zmax_list d l) (d :: l).
Proof.
  induction l as [|y l IH]; simpl; [left; reflexivity|].
  destruct (Z.max_spec y (zmax_list d l)) as [[_ ->]|[_ ->]].
  - simpl in IH. destruct IH as [IH|IH]; [left; exact IH|right; right; exact IH].
  - right; left; reflexivity.
Qed.

Lemma coords_perm l l' : Permutation l l' -> Permutation (coords l) (coords l').
Proof.
  unfold coords. induction 1; simpl.
  - constructor.
  - repeat constructor. assumption.
  - apply perm_trans with (fst y :: snd y :: fst x :: snd x :: flat_map (fun p => [fst p; snd p]) l).
    + repeat constructor. apply Permutation_refl.
    + change (fst y :: snd y :: fst x :: snd x :: flat_map (fun p => [fst p; snd p]) l)
        with ([fst y; snd y] ++ [fst x; snd x] ++ flat_map (fun p => [fst p; snd p]) l).
      change (fst x :: snd x :: fst y :: snd y :: flat_map (fun p => [fst p; snd p]) l)
        with ([fst x; snd x] ++ [fst y; snd y] ++ flat_map (fun p => [fst p; snd p]) l).
      rewrite !app_assoc. apply Permutation_app_tail. apply Permutation_app_comm.
  - eapply perm_trans; eauto.
Qed.

Lemma coords_norm_in l x : In x (coords (map norm_span l)) <-> In x (coords l).
Proof.
  unfold coords. rewrite !in_flat_map. split.
  - intros [p [Hp Hx]]. rewrite in_map_iff in Hp. destruct Hp as [p0 [<- Hp0]].
    exists p0. split; [exact Hp0|]. unfold norm_span in Hx; simpl in Hx.
    destruct Hx as [<-|[<-|[]]]; simpl; lia.
  - intros [p [Hp Hx]]. exists (norm_span p). split; [apply in_map; exact Hp|].
    unfold norm_span; simpl. simpl in Hx. destruct Hx as [<-|[<-|[]]]; lia.
Qed.

(** start/stop stored by add_feature are the extreme coordinates of what the user gave *)
Lemma add_feature_bounds seqid bt nm strand attrs on spans :
  spans <> [] ->
  let r := add_feature seqid bt nm strand attrs on spans in
  In (r_start r) (coords spans) /\ In (r_stop r) (coords spans) /\
  (forall x, In x (coords spans) -> r_start r <= x <= r_stop r).
Proof.
  intros Hne r. subst r. unfold add_feature; cbn [r_start r_stop].
  set (s := norm_spans spans).
  assert (Hperm : Permutation (coords s) (coords (map norm_span spans)))
    by (apply coords_perm, norm_spans_perm).
  assert (Hin : forall x, In x (coords s) <-> In x (coords spans)).
  { intros x. rewrite <- (coords_norm_in spans x). split; intros H.
    - apply (Permutation_in x Hperm H).
    - apply (Permutation_in x (Permutation_sym Hperm) H). }
  unfold spans_min, spans_max.
  destruct (coords s) as [|c cs] eqn:Ec.
  - exfalso. destruct spans as [|p ps]; [congruence|].
    assert (In (fst p) (coords (p :: ps))) by (simpl; left; reflexivity).
    apply Hin in H. exact H.
  - split; [apply Hin, zmin_list_in|]. split; [apply Hin, zmax_list_in|].
    intros x Hx. apply Hin in Hx. split; [apply zmin_list_le|apply zmax_list_ge]; exact Hx.
Qed.

Lemma add_feature_spans seqid bt nm strand attrs on spans :
  let r := add_feature seqid bt nm strand attrs on spans in
  Permutation (r_spans r) (map norm_span spans) /\ Sorted span_le (r_spans r).
Proof. simpl. split; [apply norm_spans_perm|apply sort_spans_sorted]. Qed.

(** ---------- GFF coordinates ---------- *)
Lemma gff_coord_spec s e :
  1 <= s <= e -> gff_coord s e = (s - 1, e) /\ e - (s - 1) = e - s + 1.
Proof. intros H. unfold gff_coord. split; [|lia].
  destruct ((s - 1 <? 0) || (e <? 0)) eqn:E1; [lia|].
  destruct (s - 1 >? e) eqn:E2; [lia|reflexivity]. Qed.

(** ---------- union / update keep the multiset of records ---------- *)
Lemma union_multiset a b : Permutation (db_union a b) (a ++ b).
Proof. unfold db_union, db_update. simpl. apply Permutation_refl. Qed.

Lemma update_multiset a b : Permutation (db_update a b) (a ++ b).
Proof. apply Permutation_refl. Qed.

(** subset = the scan, so it is a sub-multiset chosen by the query alone *)
Lemma subset_spec tables db q :
  Forall row_wf db -> query_wf q ->
  gquery tables db q = filter (spec_match q) (records_in_tables (tables_for q tables) db).
Proof. intros. apply query_is_scan; assumption. Qed.

(** non-vacuity: a concrete multi-span record on the minus strand is well-formed
    and is found by an overlapping window but not by a within query *)
Definition ex_row := add_feature [115] [103] [110] (Some [45]) None (Some false) [(9, 4); (1, 3)].
Example ex_row_wf : row_wf ex_row /\ r_spans ex_row = [(1, 3); (4, 9)].
Proof. unfold row_wf. vm_compute. split; reflexivity. Qed.
Definition ex_q := {| q_biotype := None; q_seqid := Some [115]; q_name := None; q_strand := Some [45];
  q_attrs := None; q_on_aln := None; q_start := Some 8; q_stop := Some 20; q_partial := true |}.
Example ex_q_hits : query_wf ex_q /\ gquery [1] [ex_row] ex_q = [ex_row].
Proof. split; [vm_compute; reflexivity|vm_compute; reflexivity]. Qed.
