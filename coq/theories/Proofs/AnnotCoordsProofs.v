(** C04 - parent coordinates of slices of contiguous views, and of feature
    slices in the repaired variant.  Separate from AnnotProofs.v: these proofs
    unfold the four slice branches of the C01 kernel for |step| = 1. *)
From CG3 Require Import Lib.PyZ Lib.Val Lib.PySlice Model.View Spec.ViewSpec Proofs.ViewProofs Proofs.ViewSeqProofs.
From CG3 Require Import Model.Annot Spec.AnnotSpec Proofs.AnnotProofs.

(** [v[a:b]] for 0 <= a < b <= len(v) on a contiguous view, explicitly *)
Lemma unit_slice_contig v a b : contig v -> 0 <= a < b -> b <= vlen v ->
  getitem_slice FSeqView v (Some a) (Some b) None =
  Ok (if is_reversed v then mkV (start v - a) (start v - b) (-1) (seq_len v) (offset v)
      else mkV (start v + a) (start v + b) 1 (seq_len v) (offset v)).
Proof.
  intros Hc Hab Hb. unfold getitem_slice.
  replace (vlen v =? 0) with false by lia. unfold opt_eqb. replace (a =? b) with false by lia.
  cbv zeta. cbn [Z.gtb Z.compare]. unfold View.get_slice.
  destruct (contig_cases v Hc) as [(Es & Er & H1 & H2 & H3 & H4 & H5)|(Es & Er & H1 & H2 & H3 & H4 & H5)];
    rewrite Er, Es; cbn [Z.gtb Z.ltb Z.compare].
  - unfold get_forward_slice_from_forward. rewrite Es, H3.
    replace (a >=? 0) with true by lia.
    replace (b >? stop v) with (b >? stop v) by reflexivity.
    destruct (b >? stop v) eqn:Eb.
    + (* only when start = 0 and b = stop *)
      replace ((start v + a * 1 <? 0) || (stop v <? 0)) with false by lia.
      replace (stop v <? start v + a * 1) with false by lia.
      replace (start v + a * 1 >? seq_len v) with false by lia.
      unfold rebuild. rewrite mk_view_pos_spec by lia.
      replace (start v + a * 1 <? Z.min (stop v) (stop v)) with true by lia.
      f_equal. f_equal; lia.
    + replace (b >=? 0) with true by lia.
      replace ((start v + a * 1 <? 0) || (start v + b * 1 <? 0)) with false by lia.
      replace (start v + b * 1 <? start v + a * 1) with false by lia.
      replace (start v + a * 1 >? seq_len v) with false by lia.
      unfold rebuild. rewrite mk_view_pos_spec by lia.
      replace (start v + a * 1 <? Z.min (stop v) (start v + b * 1)) with true by lia.
      f_equal. f_equal; lia.
  - unfold get_forward_slice_from_reverse. rewrite Es, H3.
    replace (a >=? 0) with true by lia. replace (b >=? 0) with true by lia.
    replace ((start v + a * -1 >=? 0) || (start v + b * -1 >=? 0)) with false by lia.
    unfold rebuild. rewrite mk_view_neg_spec by lia.
    replace (start v + a * -1 <? Z.max (stop v) (start v + b * -1)) with false by lia.
    f_equal. f_equal; lia.
Qed.

(** the slice displays the absolute segment of the displayed indices a..b-1 *)
Lemma unit_slice_coords v a b v' : contig v -> 0 <= a < b -> b <= vlen v ->
  getitem_slice FSeqView v (Some a) (Some b) None = Ok v' ->
  contig v' /\ vlen v' = b - a /\ is_reversed v' = is_reversed v /\
  parent_start v' = (if is_reversed v then parent_stop v - b else parent_start v + a) /\
  parent_stop v' = (if is_reversed v then parent_stop v - a else parent_start v + b).
Proof.
  intros Hc Hab Hb. rewrite (unit_slice_contig v a b Hc Hab Hb). intros [= <-].
  destruct (contig_cases v Hc) as [(Es & Er & H1 & H2 & H3 & H4 & H5)|(Es & Er & H1 & H2 & H3 & H4 & H5)];
    rewrite Er; destruct Hc as (Hwf & _ & Hoff); pose proof (proj1 Hwf) as Hn.
  - split; [split; [unfold WF; cbn; lia|split; [reflexivity|exact Hoff]]|]. rewrite H4, ?H5.
    unfold vlen, is_reversed, parent_start, parent_stop, is_reversed. cbn [start stop step seq_len offset Z.ltb Z.compare].
    repeat split; lia.
  - split; [split; [unfold WF; cbn; lia|split; [reflexivity|exact Hoff]]|]. rewrite ?H4, H5.
    unfold vlen, is_reversed, parent_start, parent_stop, is_reversed. cbn [start stop step seq_len offset Z.ltb Z.compare].
    repeat split; lia.
Qed.

Ltac resolve_ifs :=
  repeat match goal with
  | |- context [if ?c then _ else _] => let E := fresh "C" in destruct c eqn:E; try lia
  end.

(** rc() of a non-empty contiguous view: same absolute segment, other strand *)
Lemma rc_contig v : contig v -> 0 < vlen v ->
  exists w, getitem_slice FSeqView v None None (Some (-1)) = Ok w /\ contig w /\ vlen w = vlen v /\
    parent_start w = parent_start v /\ parent_stop w = parent_stop v /\ is_reversed w = negb (is_reversed v).
Proof.
  intros Hc Hlen. unfold getitem_slice.
  replace (vlen v =? 0) with false by lia. cbn [opt_eqb]. cbv zeta. cbn [Z.gtb Z.ltb Z.compare].
  unfold get_reverse_slice.
  destruct (contig_cases v Hc) as [(Es & Er & H1 & H2 & H3 & H4 & H5)|(Es & Er & H1 & H2 & H3 & H4 & H5)];
    destruct Hc as (Hwf & _ & Hoff); pose proof (proj1 Hwf) as Hn; rewrite Es; cbn [Z.gtb Z.ltb Z.compare].
  - unfold get_reverse_slice_from_forward. rewrite Es. cbv zeta. rewrite H4, H5, Er. rewrite H3 in *.
    replace (-1 >=? stop v - start v) with false by lia.
    replace (- (stop v - start v) - 1 >=? 0) with false by lia.
    replace (-1 >=? 0) with false by reflexivity.
    resolve_ifs. unfold rebuild. rewrite mk_view_neg_spec by lia. resolve_ifs.
    eexists. split; [reflexivity|].
    split; [split; [unfold WF; cbn; lia|split; [reflexivity|exact Hoff]]|].
    change (1 * -1) with (-1).
    unfold vlen, parent_start, parent_stop, is_reversed. cbn [start stop step seq_len offset Z.ltb Z.compare negb].
    repeat split; lia.
  - unfold get_reverse_slice_from_reverse. rewrite Es. cbv zeta. rewrite H4, H5, Er. rewrite H3 in *.
    replace (-1 >=? start v - stop v) with false by lia.
    replace (- (start v - stop v) - 1 >=? 0) with false by lia.
    replace (- (start v - stop v) - 1 <? 0) with true by lia.
    replace (-1 >=? 0) with false by reflexivity. cbn [andb].
    replace (seq_len v + (start v + (start v - stop v) * -1 + (- (start v - stop v) - 1) * -1) >? seq_len v + start v)
      with true by lia.
    resolve_ifs. unfold rebuild. rewrite mk_view_pos_spec by lia. resolve_ifs.
    eexists. split; [reflexivity|].
    split; [split; [unfold WF; cbn; lia|split; [reflexivity|exact Hoff]]|].
    change (-1 * -1) with 1.
    unfold vlen, parent_start, parent_stop, is_reversed. cbn [start stop step seq_len offset Z.ltb Z.compare negb].
    repeat split; lia.
Qed.

(** the Feature a db record lying inside the view is turned into: one span, no lost parts *)
Lemma feature_inside_view fx v f a b : contig v -> 0 < vlen v ->
  f_spans f = [(a, b)] -> 0 <= a -> parent_start v <= a -> a < b -> b <= parent_stop v ->
  feature_on_view fx v f =
    Ok (mkFV (negb (Bool.eqb (f_minus f) (is_reversed v)))
             (if is_reversed v
              then [SSpan (vlen v - (b - parent_start v)) (vlen v - (b - parent_start v) + (b - parent_start v - (a - parent_start v)))]
              else [SSpan (a - parent_start v) (b - parent_start v)])).
Proof.
  intros Hc Hlen Hsp Ha HBa Hab HbP. unfold feature_on_view. rewrite Hsp. cbn [rel_spans].
  rewrite !rel_coord_contig by (try assumption; lia). cbn [bind].
  pose proof (vlen_contig v Hc) as Hn.
  set (B := parent_start v) in *. set (n := vlen v) in *. set (s := a - B). set (e := b - B).
  assert (Hs : 0 <= s < e) by (subst s e; lia). assert (He : e <= n) by (subst e; lia).
  unfold make_feature. cbn [all_coords flat_map fst snd app fold_right].
  replace (Z.min e s <? 0) with false by lia. replace (Z.max e s >? n) with false by lia.
  assert (Hcl : clamp_span fx n (s, e) = Some (s, e)).
  { unfold clamp_span. replace (Z.min s e) with s by lia. replace (Z.max s e) with e by lia.
    replace ((s <? 0) && (0 <? e)) with false by lia. replace ((s <? n) && (n <? e)) with false by lia.
    destruct (fx_bound fx).
    - replace ((s =? e) || (s >=? n) || (e <=? 0)) with false by lia. reflexivity.
    - replace ((s =? e) || (s >? n) || (e <? 0)) with false by lia. reflexivity. }
  cbn [clamp_spans]. rewrite Hcl. cbn [spans_from_locations last snd sfl_loop].
  replace (s >? e) with false by lia. replace (Z.min s e <? 0) with false by lia.
  replace (s >? n) with false by lia. replace (e >? n) with false by lia. cbn [orb bind Z.eqb negb app].
  destruct (is_reversed v); reflexivity.
Qed.

(** repaired variant: the slice of a feature lying inside the view reports the
    feature's own absolute coordinates and strand *)
Lemma slice_coords_repaired_lemma fx i v p f fv a b : fx_mapped fx = true ->
  contig v -> 0 < vlen v -> zlen p = seq_len v ->
  f_spans f = [(a, b)] -> 0 <= a -> parent_start v <= a -> a < b -> b <= parent_stop v ->
  feature_on_view fx v f = Ok fv ->
  slice_coords fx i v p fv = Ok (Some (a, b, if f_minus f then -1 else 1)).
Proof.
  intros Hfx Hc Hlen Hp Hsp Ha HBa Hab HbP Hfv.
  rewrite (feature_inside_view fx v f a b Hc Hlen Hsp Ha HBa Hab HbP) in Hfv. injection Hfv as <-.
  pose proof (vlen_contig v Hc) as Hn.
  unfold slice_coords. cbn [fv_map fv_minus]. rewrite Hfx.
  assert (Hsub : forall a' b', 0 <= a' < b' -> b' <= vlen v ->
     exists v', view_substr v p a' b' = Ok (v', orient v (gather (value v p) (zr a' b'))) /\
       getitem_slice FSeqView v (Some a') (Some b') None = Ok v').
  { intros a' b' H1 H2. destruct Hc as (Hwf & _).
    destruct (view_substr_spec v p a' b' Hwf Hp ltac:(lia) H2) as (v' & Hv').
    exists v'. split; [exact Hv'|]. unfold view_substr in Hv'.
    destruct (getitem_slice FSeqView v (Some a') (Some b') None) as [w|c]; cbn [bind] in Hv'; [|discriminate].
    injection Hv' as <- _. reflexivity. }
  destruct (is_reversed v) eqn:Er.
  - set (a' := vlen v - (b - parent_start v)). set (b' := a' + (b - parent_start v - (a - parent_start v))).
    destruct (Hsub a' b' ltac:(subst a' b'; lia) ltac:(subst a' b'; lia)) as (v' & -> & Hg). cbn [bind].
    destruct (unit_slice_coords v a' b' v' Hc ltac:(subst a' b'; lia) ltac:(subst a' b'; lia) Hg)
      as (Hc' & Hl' & Hr' & Hps & Hpe).
    rewrite Er in *. unfold rc_if.
    destruct (f_minus f); cbn [Bool.eqb negb].
    + (* minus feature on a reversed view: bound strand "+", the slice stays on the minus strand *)
      cbn [bind]. unfold pcoords. rewrite Hps, Hpe, Hr'. f_equal; f_equal; repeat (apply f_equal2); try reflexivity; subst a' b'; lia.
    + destruct (rc_contig v' Hc' ltac:(lia)) as (w & -> & _ & _ & Hws & Hwe & Hwr). cbn [bind].
      unfold pcoords. rewrite Hws, Hwe, Hwr, Hps, Hpe, Hr'. cbn [negb]. f_equal; f_equal; repeat (apply f_equal2); try reflexivity; subst a' b'; lia.
  - set (a' := a - parent_start v). set (b' := b - parent_start v).
    destruct (Hsub a' b' ltac:(subst a' b'; lia) ltac:(subst a' b'; lia)) as (v' & -> & Hg). cbn [bind].
    destruct (unit_slice_coords v a' b' v' Hc ltac:(subst a' b'; lia) ltac:(subst a' b'; lia) Hg)
      as (Hc' & Hl' & Hr' & Hps & Hpe).
    rewrite Er in *. unfold rc_if.
    destruct (f_minus f); cbn [Bool.eqb negb].
    + destruct (rc_contig v' Hc' ltac:(lia)) as (w & -> & _ & _ & Hws & Hwe & Hwr). cbn [bind].
      unfold pcoords. rewrite Hws, Hwe, Hwr, Hps, Hpe, Hr'. cbn [negb]. f_equal; f_equal; repeat (apply f_equal2); try reflexivity; subst a' b'; lia.
    + cbn [bind]. unfold pcoords. rewrite Hps, Hpe, Hr'. f_equal; f_equal; repeat (apply f_equal2); try reflexivity; subst a' b'; lia.
Qed.

(** * add_feature through a view, end to end (repaired variant) *)

(** end of the last span (or the lower bound of an empty list) *)
Fixpoint spans_hi (lo : Z) (l : list (Z * Z)) : Z :=
  match l with [] => lo | (_, b) :: r => spans_hi b r end.

Lemma spans_ok_app lo l1 l2 : spans_ok lo (l1 ++ l2) <-> spans_ok lo l1 /\ spans_ok (spans_hi lo l1) l2.
Proof.
  revert lo. induction l1 as [|[a b] r IH]; intros lo; cbn [app spans_ok spans_hi]; [tauto|].
  rewrite IH. tauto.
Qed.

Lemma spans_hi_ge lo l : spans_ok lo l -> lo <= spans_hi lo l.
Proof.
  revert lo. induction l as [|[a b] r IH]; intros lo H; cbn in *; [lia|].
  destruct H as (H1 & H2 & H3). specialize (IH b H3). lia.
Qed.

Lemma spans_hi_snoc z l x y : spans_hi z (l ++ [(x, y)]) = y.
Proof. revert z. induction l as [|[a b] r IH]; intros z; cbn; [reflexivity|apply IH]. Qed.

(** mirror image of a sorted span list: [x -> P - x] and reversed order *)
Lemma spans_ok_mirror P l : forall lo, spans_ok lo l ->
  spans_ok (P - spans_hi lo l) (rev (map (fun q => (P - snd q, P - fst q)) l)) /\
  spans_hi (P - spans_hi lo l) (rev (map (fun q => (P - snd q, P - fst q)) l)) <= P - lo.
Proof.
  induction l as [|[a b] r IH]; intros lo H; cbn [map rev spans_hi spans_ok].
  - split; [exact I|lia].
  - cbn in H. destruct H as (H1 & H2 & H3). destruct (IH b H3) as (IH1 & IH2).
    cbn [fst snd]. split.
    + apply spans_ok_app. split; [exact IH1|]. cbn. repeat split; lia.
    + rewrite spans_hi_snoc. lia.
Qed.

Lemma spans_ok_abs_of_view v spans : contig v -> 0 < vlen v -> spans_ok 0 spans -> view_spans (vlen v) spans ->
  spans_ok 0 (abs_of_view v spans).
Proof.
  intros Hc Hlen Hok Hvs. pose proof (vlen_contig v Hc) as Hn.
  pose proof Hc as (Hwf & _ & Hoff). pose proof (seg_bounds v Hwf) as Hb. unfold seg_lo, seg_hi in Hb.
  unfold abs_of_view. destruct (is_reversed v).
  - destruct (spans_ok_mirror (parent_stop v) spans 0 Hok) as (H1 & _).
    apply (spans_ok_weaken (parent_stop v - spans_hi 0 spans)); [|exact H1].
    assert (G : forall l z, z <= vlen v -> view_spans (vlen v) l -> spans_hi z l <= vlen v).
    { induction l as [|[a b] r IHr]; intros z Hz HF; cbn; [lia|].
      inversion HF as [|x y Hq Hr]; subst. cbn in Hq. apply IHr; [lia|exact Hr]. }
    pose proof (G spans 0 ltac:(lia) Hvs) as Hhi.
    lia.
  - assert (G : forall l lo, spans_ok lo l -> spans_ok (parent_start v + lo) (map (fun q => (parent_start v + fst q, parent_start v + snd q)) l)).
    { induction l as [|[a b] r IHr]; intros lo H; [exact I|]. cbn in H. destruct H as (A1 & A2 & A3).
      cbn. repeat split; try lia. exact (IHr b A3). }
    apply (spans_ok_weaken (parent_start v + 0)); [lia|]. exact (G spans 0 Hok).
Qed.

(** HEADLINE for add_feature (repaired): the Feature handed back by
    [view.add_feature(spans, strand)] is the one a later query of the same view
    builds from the stored record; its strand relative to the view is the one
    given, and its slice is the parent's residues at the absolute coordinates of
    the displayed positions the spans point at *)
Lemma add_feature_end_to_end_lemma fx v p spans minus rec msp mm fv :
  fx_add fx = true -> contig v -> 0 < vlen v -> zlen p = seq_len v ->
  spans_ok 0 spans -> view_spans (vlen v) spans ->
  add_feature fx v spans minus = Ok (rec, msp, mm) ->
  make_feature fx (vlen v) (is_reversed v) msp mm = Ok fv ->
  f_spans rec = abs_of_view v spans /\
  feature_on_view fx v rec = Ok fv /\
  fv_minus fv = minus /\
  get_slice_str v p fv = Ok (denoted p (offset v) (parent_start v) (parent_stop v) rec).
Proof.
  intros Hfx Hc Hlen Hp Hok Hvs Hadd Hmf.
  rewrite (add_feature_coords_lemma fx v spans minus Hfx Hc Hlen Hvs) in Hadd. injection Hadd as <- <- <-.
  cbn [f_spans f_minus].
  pose proof (spans_ok_abs_of_view v spans Hc Hlen Hok Hvs) as Hsorted.
  assert (Hfov : feature_on_view fx v (mkF (abs_of_view v spans) (xorb minus (is_reversed v))) = Ok fv).
  { unfold feature_on_view. cbn [f_spans f_minus].
    rewrite (rel_spans_contig v _ 0 Hc Hlen (Z.le_refl 0) Hsorted). cbn [bind]. exact Hmf. }
  split; [reflexivity|]. split; [exact Hfov|].
  destruct (feature_slice_lemma fx v p (mkF (abs_of_view v spans) (xorb minus (is_reversed v))) fv Hc Hlen Hp Hsorted Hfov) as (H1 & H2).
  cbn [f_minus] in H1.
  split; [rewrite H1; destruct minus, (is_reversed v); reflexivity|exact H2].
Qed.
