(** C08 — translator tie for [FeatureMap]: every function of coq/gen/FeatureMapGen.v
    (generated from the CURRENT text of src/cogent3/core/location.py by
    harness/translators/featuremap.py) equals the hand-written function of
    Model/FeatureMap.v, for ALL arguments (no hypothesis is needed: the generated code
    reads [sp_start] / [sp_end] / [sp_rev] only behind a [negb (is_lost _)] test, and
    every loop raises at the first bad element exactly as the model's recursion does).

    Method (as in Proofs/IndelMapGenLoopEq.v): the body of every generated local [fix] is
    written once more below with a fixed choice of names ([sfl_gloop], [gaps_gloop], ...);
    the generated function unfolds to it by CONVERSION (the [_unfold] lemmas, proved by
    [reflexivity]: insensitive to the names of the generated local variables, but any
    change of behaviour such as [start' >? last_start'] -> [>=?] or
    [offset' + slen s'] -> [offset'] breaks them).  Python builds its lists by
    [acc ++ [x]]; each loop invariant is generalised over the accumulator:
    [loop acc xs = bind (model xs) (fun l => k (acc ++ l))]. *)
From CG3 Require Import Lib.PyZ Lib.Val Model.IndelMap Model.NumpyPrims Model.FeatureMap Model.FeatureMapPrims Spec.FeatureMapSpec.
From CG3 Require Import Proofs.IndelMapProofs.
From CG3gen Require Import FeatureMapGen.
Import GF.

Local Open Scope Z_scope.

(** * generalities *)

Lemma bind_ret {A} (r : res A) : bind r (fun x => Ok x) = r.
Proof. destruct r; reflexivity. Qed.

Lemma np_row_0 (x : Z * Z) l : np_row (x :: l) 0 = x.
Proof. reflexivity. Qed.

Lemma np_row_last l : snd (np_row l (-1)) = last_end l.
Proof.
  unfold np_row, last_end. change (-1 <? 0) with true. cbv iota.
  destruct l as [|x l] using rev_ind.
  - reflexivity.
  - rewrite rev_app_distr. cbn [rev app]. destruct x as (a, b).
    rewrite zlen_app, zlen_cons. change (zlen (@nil (Z * Z))) with 0.
    replace (Z.to_nat (zlen l + (1 + 0) + -1)) with (length l) by (unfold zlen; lia).
    rewrite app_nth2 by lia. replace (length l - length l)%nat with O by lia. reflexivity.
Qed.

(** * [_spans_from_locations] *)

(** the loop of the generated code *)
Definition sfl_gloop (plen : Z) : Z -> list (Z * Z) -> list fspan -> res (list fspan) :=
  fix loop (i : Z) (xs : list (Z * Z)) (spans : list fspan) {struct xs} : res (list fspan) :=
    match xs with
    | [] => Ok spans
    | (s, e) :: xs' =>
        if (s >? e) || (Z.min s e <? 0) then Err E_Value
        else if s >? plen then Err E_Other
        else
          let '(_, spans2) :=
            if e >? plen
            then (Z.min e plen, spans ++ [mk_span s (Z.min e plen) false; FL (Z.abs (e - plen))])
            else (e, spans ++ [mk_span s e false]) in
          loop (i + 1) xs' spans2
    end.

Lemma g_spans_from_locations_unfold locs n :
  g_spans_from_locations locs n =
  if negb (negb (zlen locs =? 0)) then Ok []
  else if fst (np_row locs 0) >? snd (np_row locs (-1)) then Err E_Value
  else sfl_gloop n 0 locs [].
Proof. reflexivity. Qed.

Lemma sfl_gloop_nil n i acc : sfl_gloop n i [] acc = Ok acc.
Proof. reflexivity. Qed.

Lemma sfl_gloop_cons n i s e xs acc :
  sfl_gloop n i ((s, e) :: xs) acc =
  if (s >? e) || (Z.min s e <? 0) then Err E_Value
  else if s >? n then Err E_Other
  else if e >? n
       then sfl_gloop n (i + 1) xs (acc ++ [mk_span s (Z.min e n) false; FL (Z.abs (e - n))])
       else sfl_gloop n (i + 1) xs (acc ++ [mk_span s e false]).
Proof.
  unfold sfl_gloop.
  destruct ((s >? e) || (Z.min s e <? 0)); [reflexivity|].
  destruct (s >? n); [reflexivity|].
  destruct (e >? n); reflexivity.
Qed.

(** [Err] of the first bad row, in list order, on both sides *)
Lemma sfl_gloop_inv n : forall xs i acc,
  sfl_gloop n i xs acc = bind (sfl_loop xs n) (fun l => Ok (acc ++ l)).
Proof.
  induction xs as [|(s, e) xs IH]; intros i acc.
  - rewrite sfl_gloop_nil. cbn [sfl_loop bind]. now rewrite app_nil_r.
  - rewrite sfl_gloop_cons. cbn [sfl_loop].
    destruct ((s >? e) || (Z.min s e <? 0)); [reflexivity|].
    destruct (s >? n); [reflexivity|].
    destruct (e >? n); rewrite IH; destruct (sfl_loop xs n) as [tl|err]; cbn [bind];
      try reflexivity; now rewrite <- app_assoc.
Qed.

Theorem spans_from_locations_eq locs n : g_spans_from_locations locs n = spans_from_locations locs n.
Proof.
  rewrite g_spans_from_locations_unfold. unfold spans_from_locations.
  destruct locs as [|(s0, e0) tl].
  - reflexivity.
  - pose proof (zlen_nonneg tl) as Hn.
    assert (Ez : (zlen ((s0, e0) :: tl) =? 0) = false) by (rewrite zlen_cons; lia).
    rewrite Ez. cbn [negb]. rewrite np_row_0, np_row_last. cbn [fst].
    destruct (s0 >? last_end ((s0, e0) :: tl)); [reflexivity|].
    rewrite sfl_gloop_inv. cbn [app]. apply bind_ret.
Qed.

(** * [from_locations] *)

Theorem from_locations_eq locs n : g_from_locations locs n = from_locations locs n.
Proof.
  unfold g_from_locations, from_locations. rewrite spans_from_locations_eq.
  destruct locs as [|x tl].
  - reflexivity.
  - pose proof (zlen_nonneg tl) as Hn.
    assert (Ez : (zlen (x :: tl) =? 0) = false) by (rewrite zlen_cons; lia).
    rewrite Ez. reflexivity.
Qed.

(** * [gaps] / [nongap] *)

(** the loops of the generated code *)
Definition gaps_gloop (self : fmap) : Z -> list fspan -> list (Z * Z) -> Z -> res fmap :=
  fix loop (i : Z) (xs : list fspan) (locs : list (Z * Z)) (offset : Z) {struct xs} : res fmap :=
    match xs with
    | [] => bind (g_from_locations locs (flen self)) (fun r => Ok r)
    | sp :: xs' =>
        let locs2 := if is_lost sp then locs ++ [(offset, offset + slen sp)] else locs in
        loop (i + 1) xs' locs2 (offset + slen sp)
    end.

Definition nongap_gloop (self : fmap) : Z -> list fspan -> list (Z * Z) -> Z -> res (list fspan) :=
  fix loop (i : Z) (xs : list fspan) (locs : list (Z * Z)) (offset : Z) {struct xs} : res (list fspan) :=
    match xs with
    | [] => bind (g_spans_from_locations locs (flen self)) (fun r => Ok r)
    | sp :: xs' =>
        let locs2 := if negb (is_lost sp) then locs ++ [(offset, offset + slen sp)] else locs in
        loop (i + 1) xs' locs2 (offset + slen sp)
    end.

Lemma g_fm_gaps_unfold fm : g_fm_gaps fm = gaps_gloop fm 0 (fspans fm) [] 0.
Proof. reflexivity. Qed.

Lemma g_fm_nongap_unfold fm : g_fm_nongap fm = nongap_gloop fm 0 (fspans fm) [] 0.
Proof. reflexivity. Qed.

Lemma gaps_gloop_cons self i sp xs locs off :
  gaps_gloop self i (sp :: xs) locs off =
  gaps_gloop self (i + 1) xs (if is_lost sp then locs ++ [(off, off + slen sp)] else locs) (off + slen sp).
Proof. reflexivity. Qed.

Lemma nongap_gloop_cons self i sp xs locs off :
  nongap_gloop self i (sp :: xs) locs off =
  nongap_gloop self (i + 1) xs (if negb (is_lost sp) then locs ++ [(off, off + slen sp)] else locs) (off + slen sp).
Proof. reflexivity. Qed.

Lemma gaps_gloop_inv self : forall xs i locs off,
  gaps_gloop self i xs locs off = from_locations (locs ++ span_locs true off xs) (flen self).
Proof.
  induction xs as [|sp xs IH]; intros i locs off.
  - cbn [gaps_gloop span_locs]. rewrite bind_ret, app_nil_r. apply from_locations_eq.
  - rewrite gaps_gloop_cons, IH. cbn [span_locs].
    destruct (is_lost sp); cbn [Bool.eqb app]; [now rewrite <- app_assoc | reflexivity].
Qed.

Lemma nongap_gloop_inv self : forall xs i locs off,
  nongap_gloop self i xs locs off = spans_from_locations (locs ++ span_locs false off xs) (flen self).
Proof.
  induction xs as [|sp xs IH]; intros i locs off.
  - cbn [nongap_gloop span_locs]. rewrite bind_ret, app_nil_r. apply spans_from_locations_eq.
  - rewrite nongap_gloop_cons, IH. cbn [span_locs].
    destruct (is_lost sp); cbn [negb Bool.eqb app]; [reflexivity | now rewrite <- app_assoc].
Qed.

Theorem fm_gaps_eq fm : g_fm_gaps fm = fm_gaps fm.
Proof. rewrite g_fm_gaps_unfold, gaps_gloop_inv. reflexivity. Qed.

Theorem fm_nongap_eq fm : g_fm_nongap fm = fm_nongap fm.
Proof. rewrite g_fm_nongap_unfold, nongap_gloop_inv. reflexivity. Qed.

(** * [nucleic_reversed] : the code appends and reverses at the end, the model conses and reverses *)

Definition nrev_gloop (self : fmap) : Z -> list fspan -> list fspan -> res fmap :=
  fix loop (i : Z) (xs : list fspan) (spans : list fspan) {struct xs} : res fmap :=
    match xs with
    | [] => Ok (mk_fmap (rev spans) (fplen self))
    | sp :: xs' =>
        if negb (is_lost sp)
        then
          let start := fplen self - sp_end sp in
          if start >=? 0
          then loop (i + 1) xs' (spans ++ [mk_span start (start + slen sp) false])
          else Err E_Other
        else loop (i + 1) xs' (spans ++ [sp])
    end.

Lemma g_fm_nucleic_reversed_unfold fm : g_fm_nucleic_reversed fm = nrev_gloop fm 0 (fspans fm) [].
Proof. reflexivity. Qed.

Lemma nrev_gloop_cons self i sp xs acc :
  nrev_gloop self i (sp :: xs) acc =
  if negb (is_lost sp)
  then if fplen self - sp_end sp >=? 0
       then nrev_gloop self (i + 1) xs
              (acc ++ [mk_span (fplen self - sp_end sp) (fplen self - sp_end sp + slen sp) false])
       else Err E_Other
  else nrev_gloop self (i + 1) xs (acc ++ [sp]).
Proof. reflexivity. Qed.

Lemma nrev_gloop_inv self : forall xs i acc,
  nrev_gloop self i xs acc =
  bind (nrev_spans xs (fplen self)) (fun l => Ok (mk_fmap (rev (acc ++ l)) (fplen self))).
Proof.
  induction xs as [|sp xs IH]; intros i acc.
  - cbn [nrev_gloop nrev_spans bind]. now rewrite app_nil_r.
  - rewrite nrev_gloop_cons. destruct sp as [s e r|n]; cbn [is_lost negb sp_end slen nrev_spans].
    + destruct (fplen self - e >=? 0) eqn:Ege.
      * assert (Elt : (fplen self - e <? 0) = false) by lia. rewrite Elt, IH.
        destruct (nrev_spans xs (fplen self)) as [tl|err]; cbn [bind]; [|reflexivity].
        now rewrite <- app_assoc.
      * assert (Elt : (fplen self - e <? 0) = true) by lia. rewrite Elt. reflexivity.
    + rewrite IH. destruct (nrev_spans xs (fplen self)) as [tl|err]; cbn [bind]; [|reflexivity].
      now rewrite <- app_assoc.
Qed.

Theorem fm_nucleic_reversed_eq fm : g_fm_nucleic_reversed fm = fm_nucleic_reversed fm.
Proof. rewrite g_fm_nucleic_reversed_unfold, nrev_gloop_inv. reflexivity. Qed.

(** * [inverse] : two loops, the second (over the sorted quadruples) in the exit branch of the first *)

Definition inv_gloop2 (self : fmap) : Z -> list quad -> Z -> list fspan -> res fmap :=
  fix loop (i : Z) (xs : list quad) (last_start : Z) (new_spans : list fspan) {struct xs} : res fmap :=
    match xs with
    | [] =>
        Ok (mk_fmap (if fplen self >? last_start
                     then new_spans ++ [FL (fplen self - last_start)] else new_spans) (flen self))
    | (s, e, cs, ce) :: xs' =>
        if s >? last_start
        then loop (i + 1) xs' e ((new_spans ++ [FL (s - last_start)]) ++ [mk_span cs ce (cs >? ce)])
        else if s <? last_start then Err E_Value
        else loop (i + 1) xs' e (new_spans ++ [mk_span cs ce (cs >? ce)])
    end.

Definition inv_gloop1 (self : fmap) : Z -> list fspan -> Z -> list quad -> res fmap :=
  fix loop (i : Z) (xs : list fspan) (cum : Z) (temp : list quad) {struct xs} : res fmap :=
    match xs with
    | [] => inv_gloop2 self 0 (sort_quads temp) 0 []
    | sp :: xs' =>
        let temp2 :=
          if negb (is_lost sp)
          then if sp_rev sp
               then temp ++ [(sp_start sp, sp_end sp, cum + slen sp, cum)]
               else temp ++ [(sp_start sp, sp_end sp, cum, cum + slen sp)]
          else temp in
        loop (i + 1) xs' (cum + slen sp) temp2
    end.

Lemma g_fm_inverse_unfold fm : g_fm_inverse fm = inv_gloop1 fm 0 (fspans fm) 0 [].
Proof. reflexivity. Qed.

Lemma inv_gloop1_cons self i sp xs cum temp :
  inv_gloop1 self i (sp :: xs) cum temp =
  inv_gloop1 self (i + 1) xs (cum + slen sp)
    (if negb (is_lost sp)
     then if sp_rev sp
          then temp ++ [(sp_start sp, sp_end sp, cum + slen sp, cum)]
          else temp ++ [(sp_start sp, sp_end sp, cum, cum + slen sp)]
     else temp).
Proof. reflexivity. Qed.

Lemma inv_gloop2_cons self i s e cs ce xs last acc :
  inv_gloop2 self i ((s, e, cs, ce) :: xs) last acc =
  if s >? last
  then inv_gloop2 self (i + 1) xs e ((acc ++ [FL (s - last)]) ++ [mk_span cs ce (cs >? ce)])
  else if s <? last then Err E_Value
  else inv_gloop2 self (i + 1) xs e (acc ++ [mk_span cs ce (cs >? ce)]).
Proof. reflexivity. Qed.

(** the first loop collects [inv_temp] *)
Lemma inv_gloop1_inv self : forall xs i cum temp,
  inv_gloop1 self i xs cum temp = inv_gloop2 self 0 (sort_quads (temp ++ inv_temp cum xs)) 0 [].
Proof.
  induction xs as [|sp xs IH]; intros i cum temp.
  - cbn [inv_gloop1 inv_temp]. now rewrite app_nil_r.
  - rewrite inv_gloop1_cons, IH.
    destruct sp as [s e r|n]; cbn [is_lost negb sp_rev sp_start sp_end slen inv_temp]; [|reflexivity].
    destruct r; now rewrite <- app_assoc.
Qed.

(** the second loop is [inv_loop] followed by the trailing lost span; the code tests [>?] then [<?],
    the model [<?] then [>?] *)
Lemma inv_gloop2_inv self : forall xs i last acc,
  inv_gloop2 self i xs last acc =
  bind (inv_loop xs last) (fun '(tl, ls) =>
    Ok (mk_fmap ((acc ++ tl) ++ (if fplen self >? ls then [FL (fplen self - ls)] else [])) (flen self))).
Proof.
  induction xs as [|(((s, e), cs), ce) xs IH]; intros i last acc.
  - cbn [inv_gloop2 inv_loop bind]. rewrite app_nil_r.
    destruct (fplen self >? last); [reflexivity | now rewrite app_nil_r].
  - rewrite inv_gloop2_cons. cbn [inv_loop].
    destruct (s >? last) eqn:Egt.
    + assert (Elt : (s <? last) = false) by lia. rewrite Elt, IH.
      destruct (inv_loop xs e) as [(tl, ls)|err]; cbn [bind]; [|reflexivity].
      do 2 f_equal. f_equal. rewrite <- !app_assoc. reflexivity.
    + destruct (s <? last) eqn:Elt; [reflexivity|]. rewrite IH.
      destruct (inv_loop xs e) as [(tl, ls)|err]; cbn [bind]; [|reflexivity].
      do 2 f_equal. f_equal. rewrite <- !app_assoc. reflexivity.
Qed.

Theorem fm_inverse_eq fm : g_fm_inverse fm = fm_inverse fm.
Proof.
  rewrite g_fm_inverse_unfold, inv_gloop1_inv, inv_gloop2_inv. unfold fm_inverse. cbn [app].
  destruct (inv_loop (sort_quads (inv_temp 0 (fspans fm))) 0) as [(tl, ls)|err]; reflexivity.
Qed.

(** * [shadow] *)

Theorem fm_shadow_eq fm : g_fm_shadow fm = fm_shadow fm.
Proof.
  unfold g_fm_shadow, fm_shadow. rewrite fm_inverse_eq.
  destruct (fm_inverse fm) as [inv|err]; cbn [bind]; [|reflexivity].
  rewrite bind_ret. apply fm_gaps_eq.
Qed.
