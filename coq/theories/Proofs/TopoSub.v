(** C09 — get_sub_tree(names, tipsonly=True) and the unrooted topology: the
    non-trivial splits of the sub-tree are exactly the restrictions of the
    splits of the original tree to the kept tips ([restricted_topology]). *)
From Coq Require Import Permutation.
From CG3 Require Import Lib.PyZ Lib.Val Lib.Rose Model.Tree Model.TreeDist Spec.TreeSpec Spec.TreeTopoSpec
  Proofs.TreeProofs Proofs.TreeSubProofs Proofs.TreeDistProofs Proofs.TopoBase.

(* ------------------------------------------------------------------ *)
(** * (0) "equal as sets of sets up to empty sets" *)

Definition sim (A B : list (list name)) : Prop :=
  incl A B /\ forall b, In b B -> b = [] \/ In b A.

Lemma sim_refl A : sim A A.
Proof. split; [apply incl_refl|]. intros b Hb. right. exact Hb. Qed.

Lemma sim_nil_nil : sim [] [].
Proof. apply sim_refl. Qed.

Lemma sim_app A A' B B' : sim A B -> sim A' B' -> sim (A ++ A') (B ++ B').
Proof.
  intros [H1 H2] [H1' H2']. split.
  - apply incl_app; [apply incl_appl|apply incl_appr]; assumption.
  - intros b Hb. apply in_app_or in Hb. destruct Hb as [Hb|Hb].
    + destruct (H2 b Hb) as [E|Hi]; [left; exact E|right; apply in_or_app; left; exact Hi].
    + destruct (H2' b Hb) as [E|Hi]; [left; exact E|right; apply in_or_app; right; exact Hi].
Qed.

Lemma sim_cons a A B : sim A B -> sim (a :: A) (a :: B).
Proof. intros H. apply (sim_app [a] A [a] B); [apply sim_refl|exact H]. Qed.

Lemma sim_cons_r a A B : In a A -> sim A B -> sim A (a :: B).
Proof.
  intros Ha [H1 H2]. split.
  - apply incl_tl. exact H1.
  - intros b [<-|Hb]; [right; exact Ha|apply H2; exact Hb].
Qed.

Lemma sim_cons_nil A B : sim A B -> sim A ([] :: B).
Proof.
  intros [H1 H2]. split.
  - apply incl_tl. exact H1.
  - intros b [<-|Hb]; [left; reflexivity|apply H2; exact Hb].
Qed.

Lemma sim_splits_eq U A B : sim A B -> splits_eq U A B.
Proof.
  intros [H1 H2]. split.
  - apply splits_incl_incl. exact H1.
  - intros c Hc Hnt. destruct (H2 c Hc) as [->|Hi].
    + rewrite trivial_nil in Hnt. discriminate.
    + apply cut_mem_self. exact Hi.
Qed.

(** the head of the first list is a trivial split: it can be dropped *)
Lemma sim_splits_eq_drop U u A B :
  nontrivial U u = false -> sim (u :: A) B -> splits_eq U B A.
Proof.
  intros Hu [H1 H2]. split.
  - intros c Hc Hnt. destruct (H2 c Hc) as [->|[<-|Hi]].
    + rewrite trivial_nil in Hnt. discriminate.
    + rewrite Hu in Hnt. discriminate.
    + apply cut_mem_self. exact Hi.
  - apply splits_incl_incl. intros c Hc. apply H1. right. exact Hc.
Qed.

(* ------------------------------------------------------------------ *)
(** * (1) child-level invariant *)

(** the cuts contributed by an optional surviving child: its own edge and the edges below *)
Definition kidcuts (o : option tree) : list (list name) :=
  match o with Some x => tips x :: cuts x | None => [] end.

Definition gst_topo_inv (S : list name) (c : tree) : Prop :=
  good c = true ->
  sim (kidcuts (gst S true c)) (map (restrict S) (tips c :: cuts c)).

Lemma cuts_of_single x : cuts_of [x] = tips x :: cuts x.
Proof. rewrite cuts_of_cons, cuts_of_nil, app_nil_r. reflexivity. Qed.

Lemma cuts_of_opt o :
  cuts_of (match o with Some x => [x] | None => [] end) = kidcuts o.
Proof. destruct o as [x|]; [apply cuts_of_single|reflexivity]. Qed.

Lemma gst_kids_topo S cs :
  Forall (gst_topo_inv S) cs -> forallb good cs = true ->
  sim (cuts_of (gst_kids S true cs)) (map (restrict S) (cuts_of cs)).
Proof.
  induction 1 as [|c cs Hc _ IH]; intros Hg.
  - apply sim_nil_nil.
  - cbn [forallb] in Hg. apply andb_true_iff in Hg. destruct Hg as [Hgc Hgcs].
    rewrite gst_kids_cons, cuts_of_app, cuts_of_opt.
    change (cuts_of (c :: cs)) with ((tips c :: cuts c) ++ cuts_of cs).
    rewrite map_app. apply sim_app; [apply Hc; exact Hgc|apply IH; exact Hgcs].
Qed.

Lemma cuts_rename n l c : cuts (Node n l (kids c)) = cuts c.
Proof. destruct c; reflexivity. Qed.

Lemma gst_topo_all S c : gst_topo_inv S c.
Proof.
  induction c as [n l cs IH] using tree_ind'. intros Hg.
  pose proof (gst_inv_all 0 S (Node n l cs) Hg) as Hinv.
  rewrite gst_unfold in *. destruct (selected S true (Node n l cs)) eqn:Esel.
  - unfold selected in Esel. cbn [tname negb orb] in Esel.
    apply andb_true_iff in Esel. destruct Esel as [Hn Htip].
    destruct cs as [|c0 cs]; [|discriminate].
    cbn [kidcuts tips cuts flat_map map]. unfold restrict. cbn [filter]. rewrite Hn.
    apply sim_refl.
  - destruct cs as [|c0 cs].
    + unfold selected in Esel. cbn in Esel. rewrite andb_true_r in Esel.
      cbn [gst_kids flat_map kidcuts tips cuts map]. unfold restrict. cbn [filter]. rewrite Esel.
      apply sim_cons_nil. apply sim_nil_nil.
    + clear Esel. set (cs' := c0 :: cs) in *.
      assert (Hne : cs' <> []) by (subst cs'; congruence).
      pose proof Hg as Hg'. unfold good in Hg'. cbn [tlen] in Hg'. apply andb_true_iff in Hg'.
      destruct Hg' as [_ Hp]. rewrite pos_lens_node in Hp.
      pose proof (gst_kids_topo S cs' IH Hp) as Hk.
      rewrite cuts_node. cbn [map].
      destruct (gst_kids S true cs') as [|x [|y sub]] eqn:Ek.
      * cbn [kidcuts]. change (restrict S (tips (Node n l cs'))) with
          (filter (fun n => memb n S) (tips (Node n l cs'))). rewrite Hinv.
        apply sim_cons_nil. exact Hk.
      * destruct Hinv as (Ht & _ & _). cbn [kidcuts].
        change (restrict S (tips (Node n l cs'))) with
          (filter (fun n => memb n S) (tips (Node n l cs'))).
        rewrite <- Ht. rewrite cuts_rename. rewrite tips_rename in *.
        rewrite cuts_of_single in Hk.
        apply sim_cons_r; [left; reflexivity|exact Hk].
      * destruct Hinv as (Ht & _ & _). cbn [kidcuts].
        change (restrict S (tips (Node n l cs'))) with
          (filter (fun n => memb n S) (tips (Node n l cs'))).
        rewrite <- Ht. rewrite cuts_node. apply sim_cons. exact Hk.
Qed.

Lemma gst_topo_Forall S cs : Forall (gst_topo_inv S) cs.
Proof. apply Forall_forall. intros c _. apply gst_topo_all. Qed.

(** the statement of the invariant without the auxiliary definitions *)
Theorem gst_child_topology_none : forall S c,
  good c = true -> gst S true c = None ->
  forall b, In b (map (restrict S) (tips c :: cuts c)) -> b = [].
Proof.
  intros S c Hg E b Hb. pose proof (gst_topo_all S c Hg) as [_ H]. rewrite E in H.
  destruct (H b Hb) as [Hn|[]]. exact Hn.
Qed.

Theorem gst_child_topology_some : forall S c x,
  good c = true -> gst S true c = Some x ->
  (forall a, In a (tips x :: cuts x) -> In a (map (restrict S) (tips c :: cuts c))) /\
  (forall b, In b (map (restrict S) (tips c :: cuts c)) -> b = [] \/ In b (tips x :: cuts x)).
Proof.
  intros S c x Hg E. pose proof (gst_topo_all S c Hg) as H. rewrite E in H. exact H.
Qed.

Theorem gst_child_splits_eq : forall U S c x,
  good c = true -> gst S true c = Some x ->
  splits_eq U (tips x :: cuts x) (map (restrict S) (tips c :: cuts c)).
Proof.
  intros U S c x Hg E. apply sim_splits_eq.
  pose proof (gst_topo_all S c Hg) as H. rewrite E in H. exact H.
Qed.

(* ------------------------------------------------------------------ *)
(** * (2) root level *)

Lemma sub_tree_core_topo_gen t S im kr r :
  pos_lens t = true ->
  get_sub_tree_core t S im kr true = Ok r ->
  tips r = filter (fun n => memb n S) (tips t) /\
  pos_lens r = true /\
  restricted_topology S t r.
Proof.
  intros Hp Hg. unfold get_sub_tree_core in Hg.
  destruct (negb im && negb (forallb (fun n => memb n (node_names true t)) S)); [discriminate|].
  destruct (gst_top S true kr t) as [r0|] eqn:Et; [|discriminate].
  destruct (is_tip r0) eqn:Etip; [discriminate|].
  injection Hg as <-. unfold gst_top in Et.
  destruct (selected S true t) eqn:Esel.
  { injection Et as <-. unfold selected in Esel. cbn [negb orb] in Esel.
    apply andb_true_iff in Esel. destruct Esel as [_ Esel]. congruence. }
  clear Esel. destruct t as [n l cs]. cbn [kids tname tlen] in Et.
  destruct cs as [|c0 cs]; [discriminate|].
  set (cs' := c0 :: cs) in *.
  assert (Hne : cs' <> []) by (subst cs'; congruence).
  rewrite pos_lens_node in Hp.
  destruct (gst_kids_inv 0 S cs' (gst_inv_Forall 0 S cs') Hp) as (Ht & Hgk & _).
  pose proof (gst_kids_topo S cs' (gst_topo_Forall S cs') Hp) as Hk.
  unfold restricted_topology. rewrite (tips_node n l cs' Hne), cuts_node.
  destruct (gst_kids S true cs') as [|x [|y sub]] eqn:Ek; [discriminate| |].
  - rewrite tips_of_cons in Ht. cbn [tips_of flat_map] in Ht. rewrite app_nil_r in Ht.
    destruct kr.
    + injection Et as <-. unfold set_name. cbn [tlen kids].
      split; [|split].
      * cbn [tips flat_map]. rewrite app_nil_r. exact Ht.
      * rewrite pos_lens_node. exact Hgk.
      * rewrite cuts_node. apply splits_eq_sym. apply sim_splits_eq. exact Hk.
    + injection Et as <-. unfold set_name. cbn [tlen kids]. cbn [is_tip kids] in Etip.
      destruct x as [nx lx kx]. cbn [kids tname tlen] in *.
      destruct kx as [|k0 kx]; [discriminate|].
      assert (Htr : tips (Node root_name (merge_len l lx) (k0 :: kx)) = tips (Node nx lx (k0 :: kx)))
        by reflexivity.
      split; [|split].
      * rewrite <- Ht. reflexivity.
      * cbn [forallb] in Hgk. rewrite andb_true_r in Hgk. unfold good in Hgk.
        apply andb_true_iff in Hgk. destruct Hgk as [_ Hgk].
        rewrite pos_lens_node in *. exact Hgk.
      * rewrite (cuts_relabel root_name (merge_len l lx) nx lx (k0 :: kx)).
        rewrite cuts_of_single in Hk.
        apply sim_splits_eq_drop with (tips (Node nx lx (k0 :: kx))); [|exact Hk].
        apply trivial_full. rewrite Htr. apply incl_refl.
  - assert (Hr : r0 = Node n l (x :: y :: sub)) by (destruct kr; congruence).
    subst r0. unfold set_name. cbn [tlen kids].
    split; [|split].
    + exact Ht.
    + rewrite pos_lens_node. exact Hgk.
    + rewrite cuts_node. apply splits_eq_sym. apply sim_splits_eq. exact Hk.
Qed.

Theorem sub_tree_core_topology : forall t S im kr r,
  pos_lens t = true -> get_sub_tree_core t S im kr true = Ok r -> restricted_topology S t r.
Proof.
  intros t S im kr r Hp Hg. apply (sub_tree_core_topo_gen t S im kr r Hp Hg).
Qed.

(* ------------------------------------------------------------------ *)
(** * (3) with the repaired final "keep unrooted" step *)

Lemma lens_ok_weaken_local (P Q : Z -> bool) t :
  (forall z, P z = true -> Q z = true) -> lens_ok P t = true -> lens_ok Q t = true.
Proof.
  intros HPQ. induction t as [n l cs IH] using tree_ind'.
  cbn [lens_ok]. rewrite !forallb_forall. intros H c Hc.
  specialize (H c Hc). rewrite Forall_forall in IH. specialize (IH c Hc).
  apply andb_true_iff in H. destruct H as [H1 H2].
  apply andb_true_iff. split; [|auto].
  destruct (tlen c); [auto|discriminate].
Qed.

Lemma pos_has_lens_local t : pos_lens t = true -> has_lens t = true.
Proof. apply lens_ok_weaken_local. reflexivity. Qed.

Lemma restrict_incl S c T : incl c T -> incl (restrict S c) (filter (fun n => memb n S) T).
Proof.
  intros Hc x Hx. unfold restrict in Hx. apply filter_In in Hx. destruct Hx as [Hx Hm].
  apply filter_In. split; [apply Hc; exact Hx|exact Hm].
Qed.

Lemma restricted_cuts_inU S t :
  inU (filter (fun n => memb n S) (tips t)) (map (restrict S) (cuts t)).
Proof.
  unfold inU. apply Forall_forall. intros c Hc. apply in_map_iff in Hc.
  destruct Hc as (c0 & <- & Hc0). apply restrict_incl.
  apply (inU_In (tips t) (cuts t)); [apply cuts_inU|exact Hc0].
Qed.

Lemma unrooted_fixed_tips_perm r0 :
  has_lens r0 = true -> NoDup (tips r0) -> Permutation (tips (unrooted_fixed r0)) (tips r0).
Proof.
  intros Hh Hnd. destruct (tips r0) as [|a rest] eqn:E; [exfalso; exact (tips_nonempty r0 E)|].
  assert (Ha : In a (tips r0)) by (rewrite E; left; reflexivity).
  rewrite <- E in Hnd. rewrite <- E.
  exact (proj1 (unrooted_fixed_preserves 0 r0 a a Hh Hnd Ha Ha)).
Qed.

Theorem sub_tree_fixed_topology : forall t S im kr r,
  (forall u, NoDup (tips u) -> same_topology u (unrooted_fixed u)) ->
  pos_lens t = true -> NoDup (tips t) ->
  get_sub_tree_v true t S im kr true = Ok r -> restricted_topology S t r.
Proof.
  intros t S im kr r Hun Hp Hnd Hg. unfold get_sub_tree_v in Hg.
  destruct (get_sub_tree_core t S im kr true) as [r0|e] eqn:Hc; [|discriminate].
  destruct (sub_tree_core_topo_gen t S im kr r0 Hp Hc) as (Ht & Hp0 & Hrt).
  destruct (Nat.ltb 2 (length (kids t))).
  - injection Hg as <-. cbn [unrooted_v].
    assert (Hnd0 : NoDup (tips r0)) by (rewrite Ht; apply NoDup_filter; exact Hnd).
    pose proof (unrooted_fixed_tips_perm r0 (pos_has_lens_local _ Hp0) Hnd0) as HP.
    pose proof (Hun r0 Hnd0) as Hsame. unfold same_topology in Hsame.
    unfold restricted_topology in *.
    apply splits_eq_seteq_U with (tips r0).
    { apply seteq_sym. apply perm_seteq. exact HP. }
    apply splits_eq_trans with (cuts r0).
    + rewrite Ht. apply restricted_cuts_inU.
    + apply cuts_inU.
    + apply inU_seteq_U with (tips (unrooted_fixed r0)); [apply perm_seteq; exact HP|apply cuts_inU].
    + exact Hrt.
    + exact Hsame.
  - injection Hg as <-. exact Hrt.
Qed.

(* ------------------------------------------------------------------ *)
(** * (4) keeping every tip keeps the topology *)

Lemma filter_all {A} (p : A -> bool) l : (forall x, In x l -> p x = true) -> filter p l = l.
Proof.
  induction l as [|x l IH]; intros H; [reflexivity|].
  cbn [filter]. rewrite (H x (or_introl eq_refl)). f_equal. apply IH.
  intros y Hy. apply H. right. exact Hy.
Qed.

Lemma restrict_all S c : (forall n, In n c -> In n S) -> restrict S c = c.
Proof.
  intros H. unfold restrict. apply filter_all. intros x Hx. apply memb_In. apply H. exact Hx.
Qed.

Theorem sub_tree_all_tips_topology : forall t S im kr r,
  pos_lens t = true -> get_sub_tree_core t S im kr true = Ok r ->
  (forall n, In n (tips t) -> In n S) -> same_topology t r.
Proof.
  intros t S im kr r Hp Hg Hall.
  destruct (sub_tree_core_topo_gen t S im kr r Hp Hg) as (Ht & _ & Hrt).
  unfold restricted_topology in Hrt. unfold same_topology.
  assert (Htips : tips r = tips t).
  { rewrite Ht. apply (restrict_all S (tips t)). exact Hall. }
  assert (Hmap : map (restrict S) (cuts t) = cuts t).
  { rewrite <- (map_id (cuts t)) at 2. apply map_ext_in. intros c Hc.
    apply restrict_all. intros x Hx. apply Hall.
    apply (inU_In (tips t) (cuts t) c (cuts_inU t) Hc). exact Hx. }
  rewrite Htips, Hmap in Hrt. exact Hrt.
Qed.

(* ------------------------------------------------------------------ *)
(** * (5) concrete instances *)

(** ((a:1,b:2)x:3,(c:4,(d:5,e:6)z:1)y:2)r keeping a,b,c,e: the node z is merged
    into e; the splits ab|ce of the result are the restrictions of ab|cde, de|abc *)
Definition topo_ex_t : tree :=
  Node [114] None
    [Node [120] (Some 3) [Node [97] (Some 1) []; Node [98] (Some 2) []];
     Node [121] (Some 2)
       [Node [99] (Some 4) [];
        Node [122] (Some 1) [Node [100] (Some 5) []; Node [101] (Some 6) []]]].

Definition topo_ex_S : list name := [[97]; [98]; [99]; [101]].

Definition topo_ex_r : tree :=
  Node root_name None
    [Node [120] (Some 3) [Node [97] (Some 1) []; Node [98] (Some 2) []];
     Node [121] (Some 2) [Node [99] (Some 4) []; Node [101] (Some 7) []]].

Example sub_tree_core_topology_ex : restricted_topology topo_ex_S topo_ex_t topo_ex_r.
Proof.
  apply (sub_tree_core_topology topo_ex_t topo_ex_S false false topo_ex_r).
  - vm_compute. reflexivity.
  - vm_compute. reflexivity.
Qed.

(** keeping c,d,e only (keep_root = false): the root is replaced by y *)
Example sub_tree_core_topology_ex_root :
  restricted_topology [[99]; [100]; [101]] topo_ex_t
    (Node root_name None
       [Node [99] (Some 4) [];
        Node [122] (Some 1) [Node [100] (Some 5) []; Node [101] (Some 6) []]]).
Proof.
  apply (sub_tree_core_topology topo_ex_t [[99]; [100]; [101]] false false).
  - vm_compute. reflexivity.
  - vm_compute. reflexivity.
Qed.
