(** C20, load side: printing a cell and reading the text back returns the cell.

    Model/TableLoad.v classifies the text of a field ([classify_text]) and
    infers the type of a column from the classes ([cast_str_to_array]).  Here:

      - [nat_str] / [z_str] print canonical decimals which the scanner reads
        back ([nat_str_roundtrip], [classify_z_str]);
      - the literals True / False / None and plain words ([classify_bool],
        [classify_none], [classify_plain]);
      - [float_str m e] (all four shapes of repr: 0.00ddd, ddd000.0, dd.dd,
        d.ddde+XX) is read back as [TFloat m e] for every normalised decimal of
        at most 15 digits and moderate exponent ([classify_float_str]);
      - a column of int64 ints, of such floats, of bools or of plain words is
        inferred back as it was ([column_roundtrip]);
      - Table.write then load_table returns the table ([table_typed_roundtrip]);
      - the conventions of the type inference on examples (end of file). *)
From Coq Require Import QArith.
From CG3 Require Import Lib.PyZ Lib.Chars Lib.StableSort Lib.Val Model.Csv Model.Table Model.TableLoad Model.TableRun
     Spec.TableSpec Proofs.TableBase Proofs.CsvProofs.
Import ListNotations.
Open Scope Z_scope.

Local Opaque Z.pow.

Lemma zlen_nil {A} : zlen (@nil A) = 0.
Proof. reflexivity. Qed.

Lemma zlen_cons {A} (x : A) l : zlen (x :: l) = zlen l + 1.
Proof. unfold zlen. cbn [length]. lia. Qed.

Lemma zlen_app {A} (a b : list A) : zlen (a ++ b) = zlen a + zlen b.
Proof. unfold zlen. rewrite app_length. lia. Qed.

Lemma zlen_nonneg {A} (l : list A) : 0 <= zlen l.
Proof. unfold zlen. lia. Qed.

Lemma digits_val_app a s t : digits_val a (s ++ t) = digits_val (digits_val a s) t.
Proof. revert a; induction s as [|c s IH]; intros a; [reflexivity|]. cbn [app digits_val]. apply IH. Qed.

Lemma digits_S f n acc :
  digits (S f) n acc = if n <? 10 then (48 + n mod 10) :: acc else digits f (n / 10) ((48 + n mod 10) :: acc).
Proof. reflexivity. Qed.

Lemma is_digit_iff c : is_digit c = true <-> 48 <= c <= 57.
Proof. unfold is_digit. lia. Qed.

Lemma digits_spec : forall f n acc, 0 <= n < 2 ^ Z.of_nat (S f) ->
  exists ds, digits (S f) n acc = ds ++ acc /\ ds <> [] /\ forallb is_digit ds = true /\
             (forall a, digits_val a ds = a * 10 ^ zlen ds + n) /\ (hd 0 ds = 48 -> n = 0).
Proof.
  induction f as [|f IH]; intros n acc Hn; rewrite digits_S.
  - assert (Hp : 2 ^ Z.of_nat 1 = 2) by reflexivity. rewrite Hp in Hn.
    destruct (n <? 10) eqn:E; [|lia].
    exists [48 + n mod 10]. split; [reflexivity|]. split; [discriminate|]. split.
    { cbn [forallb]. unfold is_digit. lia. }
    split.
    { intros a. cbn [digits_val]. change (zlen [48 + n mod 10]) with 1. change (10 ^ 1) with 10. lia. }
    cbn [hd]. lia.
  - destruct (n <? 10) eqn:E.
    + exists [48 + n mod 10]. split; [reflexivity|]. split; [discriminate|]. split.
      { cbn [forallb]. unfold is_digit. lia. }
      split.
      { intros a. cbn [digits_val]. change (zlen [48 + n mod 10]) with 1. change (10 ^ 1) with 10. lia. }
      cbn [hd]. lia.
    + assert (Hq : 0 <= n / 10 < 2 ^ Z.of_nat (S f)).
      { rewrite (Nat2Z.inj_succ (S f)) in Hn. rewrite Z.pow_succ_r in Hn by lia.
        set (p := 2 ^ Z.of_nat (S f)) in *. lia. }
      destruct (IH (n / 10) ((48 + n mod 10) :: acc) Hq) as [ds [H1 [H2 [H3 [H4 H5]]]]].
      exists (ds ++ [48 + n mod 10]). split; [rewrite H1, <- app_assoc; reflexivity|].
      split; [destruct ds; discriminate|]. split.
      { rewrite forallb_app, H3. cbn [forallb]. unfold is_digit. lia. }
      split.
      { intros a. rewrite digits_val_app, H4. cbn [digits_val]. rewrite zlen_app.
        change (zlen [48 + n mod 10]) with 1. rewrite Z.pow_add_r by (pose proof (zlen_nonneg ds); lia).
        change (10 ^ 1) with 10. set (p := 10 ^ zlen ds). lia. }
      destruct ds as [|d ds]; [congruence|]. cbn [app hd]. intros Hd. specialize (H5 Hd). lia.
Qed.

Lemma nat_str_spec n : 0 <= n ->
  nat_str n <> [] /\ forallb is_digit (nat_str n) = true /\
  (forall a, digits_val a (nat_str n) = a * 10 ^ zlen (nat_str n) + n) /\
  (hd 0 (nat_str n) = 48 -> n = 0).
Proof.
  intros Hn. unfold nat_str.
  assert (Hb : 0 <= n < 2 ^ Z.of_nat (S (Z.to_nat (Z.log2 n)))).
  { split; [exact Hn|]. rewrite Nat2Z.inj_succ, Z2Nat.id by apply Z.log2_nonneg.
    destruct (Z.eq_dec n 0) as [->|Hz]; [reflexivity|].
    apply Z.log2_spec. lia. }
  destruct (digits_spec _ n [] Hb) as [ds [H1 [H2 [H3 [H4 H5]]]]].
  rewrite app_nil_r in H1. rewrite H1. auto.
Qed.

Lemma nat_str_ne n : 0 <= n -> nat_str n <> [].
Proof. intros H. apply (nat_str_spec n H). Qed.

Lemma nat_str_digits n : 0 <= n -> forallb is_digit (nat_str n) = true.
Proof. intros H. apply (nat_str_spec n H). Qed.

Lemma nat_str_val n a : 0 <= n -> digits_val a (nat_str n) = a * 10 ^ zlen (nat_str n) + n.
Proof. intros H. apply (nat_str_spec n H). Qed.

Lemma nat_str_val0 n : 0 <= n -> digits_val 0 (nat_str n) = n.
Proof. intros H. rewrite nat_str_val by exact H. lia. Qed.

Lemma nat_str_head n : 0 <= n -> hd 0 (nat_str n) = 48 -> n = 0.
Proof. intros H. apply (nat_str_spec n H). Qed.

Lemma nat_str_0 : nat_str 0 = [48].
Proof. reflexivity. Qed.

(* item 1, as one statement *)
Theorem nat_str_roundtrip : forall n, 0 <= n ->
  nat_str n <> [] /\ Forall (fun c => 48 <= c <= 57) (nat_str n) /\ digits_val 0 (nat_str n) = n /\
  (hd 0 (nat_str n) = 48 -> n = 0 /\ nat_str n = [48]).
Proof.
  intros n Hn. split; [apply nat_str_ne; exact Hn|]. split.
  { apply Forall_forall. intros c Hc. apply is_digit_iff.
    pose proof (nat_str_digits n Hn) as H. rewrite forallb_forall in H. apply H. exact Hc. }
  split; [apply nat_str_val0; exact Hn|].
  intros Hh. pose proof (nat_str_head n Hn Hh) as ->. split; reflexivity.
Qed.

(* the first character of a digit string *)
Lemma nat_str_cons n : 0 <= n -> exists c t, nat_str n = c :: t /\ is_digit c = true.
Proof.
  intros Hn. pose proof (nat_str_ne n Hn) as Hne. pose proof (nat_str_digits n Hn) as Hd.
  destruct (nat_str n) as [|c t]; [congruence|]. exists c, t. split; [reflexivity|].
  cbn [forallb] in Hd. apply andb_prop in Hd. apply Hd.
Qed.

(* ------------------------------------------------------------------ span_digits *)

Definition stops (r : str) : Prop := match r with [] => True | c :: _ => is_digit c = false end.

Lemma span_digits_stop r : stops r -> span_digits r = ([], r).
Proof. destruct r as [|c r]; intros H; [reflexivity|]. cbn [span_digits]. cbn [stops] in H. rewrite H. reflexivity. Qed.

Lemma span_digits_app ds r : forallb is_digit ds = true -> stops r -> span_digits (ds ++ r) = (ds, r).
Proof.
  intros Hd Hr. induction ds as [|c ds IH]; [apply span_digits_stop; exact Hr|].
  cbn [forallb] in Hd. apply andb_prop in Hd. destruct Hd as [Hc Hd].
  cbn [app span_digits]. rewrite Hc, (IH Hd). reflexivity.
Qed.

Lemma span_digits_all ds : forallb is_digit ds = true -> span_digits ds = (ds, []).
Proof. intros Hd. rewrite <- (app_nil_r ds) at 1. apply span_digits_app; [exact Hd|exact I]. Qed.

Lemma split_sign_digit c t : is_digit c = true -> split_sign (c :: t) = (false, c :: t).
Proof.
  intros H. apply is_digit_iff in H. unfold split_sign.
  destruct (Z.eq_dec c 45) as [->|Hn]; [lia|].
  destruct c as [|p|p]; try reflexivity.
  do 6 (destruct p as [p|p|]; try reflexivity). congruence.
Qed.

(* ------------------------------------------------------------------ the scanner, in two steps *)

Definition scan_unsigned (neg : bool) (r : str) : option (bool * str * option str * option Z) :=
  let '(ip, r1) := span_digits r in
  let '(frac, r2) := match r1 with
                     | 46 :: t => let '(f, r') := span_digits t in (Some f, r')
                     | _ => (None, r1)
                     end in
  match parse_exponent r2 with
  | None => None
  | Some ex =>
      match ip, frac with
      | [], None => None
      | [], Some [] => None
      | _, _ => Some (neg, ip, frac, ex)
      end
  end.

Lemma scan_number_unfold s : scan_number s = scan_unsigned (fst (split_sign s)) (snd (split_sign s)).
Proof. unfold scan_number, scan_unsigned. destruct (split_sign s) as [neg r]. reflexivity. Qed.

Lemma scan_number_neg r : scan_number (45 :: r) = scan_unsigned true r.
Proof. rewrite scan_number_unfold. reflexivity. Qed.

Lemma scan_number_pos c t : is_digit c = true -> scan_number (c :: t) = scan_unsigned false (c :: t).
Proof. intros H. rewrite scan_number_unfold, (split_sign_digit c t H). reflexivity. Qed.

Lemma scan_unsigned_int neg ip :
  forallb is_digit ip = true -> ip <> [] -> scan_unsigned neg ip = Some (neg, ip, None, None).
Proof.
  intros Hd Hne. unfold scan_unsigned. rewrite (span_digits_all ip Hd). cbn [parse_exponent].
  destruct ip; [congruence|reflexivity].
Qed.

Lemma scan_unsigned_frac neg ip f r2 ex :
  forallb is_digit ip = true -> ip <> [] -> forallb is_digit f = true -> stops r2 ->
  parse_exponent r2 = Some ex ->
  scan_unsigned neg (ip ++ 46 :: f ++ r2) = Some (neg, ip, Some f, ex).
Proof.
  intros Hd Hne Hf Hs Hp. unfold scan_unsigned.
  rewrite (span_digits_app ip (46 :: f ++ r2) Hd) by reflexivity.
  rewrite (span_digits_app f r2 Hf Hs). rewrite Hp.
  destruct ip; [congruence|reflexivity].
Qed.

Lemma scan_unsigned_exp neg ip t ex :
  forallb is_digit ip = true -> ip <> [] ->
  parse_exponent (101 :: t) = Some ex ->
  scan_unsigned neg (ip ++ 101 :: t) = Some (neg, ip, None, ex).
Proof.
  intros Hd Hne Hp. unfold scan_unsigned.
  rewrite (span_digits_app ip (101 :: t) Hd) by reflexivity.
  rewrite Hp. destruct ip; [congruence|reflexivity].
Qed.

(* ------------------------------------------------------------------ classify_text, in two steps *)

Definition classify_scanned (o : option (bool * str * option str * option Z)) : tclass :=
  match o with
  | None => TUnknown
  | Some (neg, ip, None, None) =>
      let v := digits_val 0 ip in
      if neg && (v =? 0) then TUnknown
      else
        let z := if neg then - v else v in
        match ip with
        | 48 :: _ :: _ => TIntLead z
        | _ => TInt z
        end
  | Some (neg, ip, frac, ex) =>
      let f := match frac with Some f => f | None => [] end in
      let x := match ex with Some x => x | None => 0 end in
      let me := norm_dec (digits_val 0 (ip ++ f)) (x - zlen f) in
      let m := fst me in
      let e := snd me in
      if neg && (m =? 0) then TUnknown
      else if negb (m <? pow10 15) then TUnknown
      else if (e <? -290) || (290 <? e) then TUnknown
      else TFloat (if neg then - m else m) e
  end.

Lemma classify_text_unfold s :
  classify_text s =
  if str_eqb s s_True then TBool true
  else if str_eqb s s_False then TBool false
  else if str_eqb s s_None then TNone
  else if plain_textb s then TPlain
  else classify_scanned (scan_number s).
Proof. reflexivity. Qed.

Lemma classify_numeric c t :
  is_digit c = true \/ c = 45 -> classify_text (c :: t) = classify_scanned (scan_number (c :: t)).
Proof.
  intros Hc. rewrite classify_text_unfold.
  assert (Hr : 45 <= c <= 57) by (destruct Hc as [Hc|Hc]; [apply is_digit_iff in Hc|]; lia).
  assert (H1 : str_eqb (c :: t) s_True = false) by (apply str_eqb_neq; intros H; inversion H; lia).
  assert (H2 : str_eqb (c :: t) s_False = false) by (apply str_eqb_neq; intros H; inversion H; lia).
  assert (H3 : str_eqb (c :: t) s_None = false) by (apply str_eqb_neq; intros H; inversion H; lia).
  assert (H4 : plain_textb (c :: t) = false).
  { unfold plain_textb. assert (Hl : is_letter c = false) by (unfold is_letter; lia). rewrite Hl. reflexivity. }
  rewrite H1, H2, H3, H4. reflexivity.
Qed.

Lemma lead_match {A} (c : Z) (t : str) (a b : A) :
  (c = 48 -> t = []) -> match c :: t with 48 :: _ :: _ => a | _ => b end = b.
Proof.
  intros H. destruct t as [|x t].
  - destruct c as [|p|p]; try reflexivity. do 6 (destruct p as [p|p|]; try reflexivity).
  - destruct c as [|p|p]; try reflexivity. do 6 (destruct p as [p|p|]; try reflexivity).
    discriminate (H eq_refl).
Qed.

Lemma classify_scanned_int neg n :
  0 <= n -> (neg = true -> n <> 0) ->
  classify_scanned (Some (neg, nat_str n, None, None)) = TInt (if neg then - n else n).
Proof.
  intros Hn Hneg. cbn [classify_scanned]. rewrite (nat_str_val0 n Hn).
  assert (Hz : neg && (n =? 0) = false) by (destruct neg; [specialize (Hneg eq_refl); lia|reflexivity]).
  rewrite Hz. cbv zeta.
  pose proof (nat_str_head n Hn) as Hh. pose proof (nat_str_ne n Hn) as Hne.
  destruct (nat_str n) as [|c t] eqn:E; [congruence|].
  apply lead_match. intros Hc. cbn [hd] in Hh. specialize (Hh Hc). subst n.
  rewrite nat_str_0 in E. congruence.
Qed.

Theorem classify_z_str : forall z, classify_text (z_str z) = TInt z.
Proof.
  intros z. unfold z_str. destruct (z <? 0) eqn:E.
  - rewrite classify_numeric by (right; reflexivity). rewrite scan_number_neg.
    rewrite scan_unsigned_int; [|apply nat_str_digits; lia|apply nat_str_ne; lia].
    rewrite classify_scanned_int; [f_equal; lia|lia|lia].
  - destruct (nat_str_cons z) as [c [t [Hs Hc]]]; [lia|].
    rewrite Hs. rewrite classify_numeric by (left; exact Hc). rewrite (scan_number_pos c t Hc).
    rewrite <- Hs. rewrite scan_unsigned_int; [|apply nat_str_digits; lia|apply nat_str_ne; lia].
    rewrite classify_scanned_int; [reflexivity|lia|discriminate].
Qed.

(* ------------------------------------------------------------------ literals and plain text *)

Theorem classify_bool : forall b : bool, classify_text (if b then s_True else s_False) = TBool b.
Proof. intros [|]; vm_compute; reflexivity. Qed.

Theorem classify_none : classify_text s_None = TNone.
Proof. vm_compute. reflexivity. Qed.

Theorem classify_plain : forall s, plain_textb s = true -> classify_text s = TPlain.
Proof.
  intros s H. rewrite classify_text_unfold. destruct s as [|c t]; [reflexivity|].
  rewrite H. unfold plain_textb in H.
  repeat (apply andb_prop in H; destruct H as [H ?]).
  repeat match goal with Hx : negb ?b = true |- _ => apply negb_true_iff in Hx; rewrite Hx; clear Hx end.
  reflexivity.
Qed.

(* ------------------------------------------------------------------ floats: normalisation *)

Lemma strip10_S f m e :
  strip10 (S f) m e = if m =? 0 then (0, 0) else if m mod 10 =? 0 then strip10 f (m / 10) (e + 1) else (m, e).
Proof. reflexivity. Qed.

Lemma strip10_pow : forall k fuel a e, 0 < a -> a mod 10 <> 0 -> (k < fuel)%nat ->
  strip10 fuel (a * 10 ^ Z.of_nat k) e = (a, e + Z.of_nat k).
Proof.
  induction k as [|k IH]; intros fuel a e Ha Hm Hk; (destruct fuel as [|f]; [lia|]); rewrite strip10_S.
  - change (10 ^ Z.of_nat 0) with 1. rewrite Z.mul_1_r.
    destruct (a =? 0) eqn:E1; [lia|]. destruct (a mod 10 =? 0) eqn:E2; [lia|]. f_equal. lia.
  - rewrite Nat2Z.inj_succ, Z.pow_succ_r by lia.
    assert (Hp : 0 < 10 ^ Z.of_nat k) by (apply Z.pow_pos_nonneg; lia).
    set (p := 10 ^ Z.of_nat k) in *.
    destruct (a * (10 * p) =? 0) eqn:E1; [nia|].
    replace (a * (10 * p)) with ((a * p) * 10) by ring.
    rewrite Z.mod_mul by lia. change (0 =? 0) with true. cbv iota.
    rewrite Z.div_mul by lia. unfold p. rewrite IH by (try assumption; lia). f_equal. lia.
Qed.

Lemma norm_dec_pow a k e : 0 < a -> a mod 10 <> 0 ->
  norm_dec (a * 10 ^ Z.of_nat k) e = (a, e + Z.of_nat k).
Proof.
  intros Ha Hm. unfold norm_dec. apply strip10_pow; [exact Ha|exact Hm|].
  assert (Hp : 2 ^ Z.of_nat k <= a * 10 ^ Z.of_nat k).
  { assert (H1 : 2 ^ Z.of_nat k <= 10 ^ Z.of_nat k) by (apply Z.pow_le_mono_l; lia).
    assert (H2 : 0 < 2 ^ Z.of_nat k) by (apply Z.pow_pos_nonneg; lia). nia. }
  assert (H0 : 0 < 2 ^ Z.of_nat k) by (apply Z.pow_pos_nonneg; lia).
  rewrite Z.abs_eq by lia.
  pose proof (Z.log2_le_mono _ _ Hp) as Hl. rewrite Z.log2_pow2 in Hl by lia. lia.
Qed.

Lemma norm_dec_id a e : 0 < a -> a mod 10 <> 0 -> norm_dec a e = (a, e).
Proof.
  intros Ha Hm. pose proof (norm_dec_pow a 0 e Ha Hm) as H.
  change (10 ^ Z.of_nat 0) with 1 in H. rewrite Z.mul_1_r in H. rewrite H. f_equal. lia.
Qed.

(* ------------------------------------------------------------------ floats: zeros, prefixes *)

Lemma zeros_digits k : forallb is_digit (zeros k) = true.
Proof. unfold zeros. induction (Z.to_nat k) as [|n IH]; [reflexivity|]. cbn [repeat forallb]. rewrite IH. reflexivity. Qed.

Lemma zlen_zeros k : 0 <= k -> zlen (zeros k) = k.
Proof. intros H. unfold zeros, zlen. rewrite repeat_length. lia. Qed.

Lemma digits_val_repeat0 a n : digits_val a (repeat 48 n) = a * 10 ^ Z.of_nat n.
Proof.
  revert a. induction n as [|n IH]; intros a.
  - change (10 ^ Z.of_nat 0) with 1. cbn [repeat digits_val]. lia.
  - cbn [repeat digits_val]. rewrite IH. rewrite Nat2Z.inj_succ, Z.pow_succ_r by lia.
    set (p := 10 ^ Z.of_nat n). lia.
Qed.

Lemma forallb_firstn {A} (p : A -> bool) k l : forallb p l = true -> forallb p (firstn k l) = true.
Proof.
  intros H. rewrite <- (firstn_skipn k l), forallb_app in H. apply andb_prop in H. apply H.
Qed.

Lemma forallb_skipn {A} (p : A -> bool) k l : forallb p l = true -> forallb p (skipn k l) = true.
Proof.
  intros H. rewrite <- (firstn_skipn k l), forallb_app in H. apply andb_prop in H. apply H.
Qed.

Definition hd_digit (s : str) : Prop := exists c t, s = c :: t /\ is_digit c = true.

Lemma hd_digit_app s r : hd_digit s -> hd_digit (s ++ r).
Proof. intros [c [t [-> Hc]]]. exists c, (t ++ r). split; [reflexivity|exact Hc]. Qed.

Lemma hd_digit_nat_str n : 0 <= n -> hd_digit (nat_str n).
Proof. apply nat_str_cons. Qed.

(* ------------------------------------------------------------------ floats: the exponent *)

Lemma parse_exponent_minus d : forallb is_digit d = true -> d <> [] ->
  parse_exponent (101 :: 45 :: d) = Some (Some (- digits_val 0 d)).
Proof.
  intros Hd Hne. unfold parse_exponent. change ((101 =? 101) || (101 =? 69)) with true. cbv iota.
  rewrite (span_digits_all d Hd). destruct d; [congruence|reflexivity].
Qed.

Lemma parse_exponent_plus d : forallb is_digit d = true -> d <> [] ->
  parse_exponent (101 :: 43 :: d) = Some (Some (digits_val 0 d)).
Proof.
  intros Hd Hne. unfold parse_exponent. change ((101 =? 101) || (101 =? 69)) with true. cbv iota.
  rewrite (span_digits_all d Hd). destruct d; [congruence|reflexivity].
Qed.

Lemma parse_exp_str x : parse_exponent (101 :: exp_str x) = Some (Some x).
Proof.
  unfold exp_str.
  assert (Ha : 0 <= Z.abs x) by lia.
  set (d := if Z.abs x <? 10 then 48 :: nat_str (Z.abs x) else nat_str (Z.abs x)).
  assert (Hd : forallb is_digit d = true).
  { unfold d. destruct (Z.abs x <? 10); [cbn [forallb]|]; rewrite (nat_str_digits _ Ha); reflexivity. }
  assert (Hne : d <> []).
  { unfold d. destruct (Z.abs x <? 10); [discriminate|apply nat_str_ne; exact Ha]. }
  assert (Hv : digits_val 0 d = Z.abs x).
  { unfold d. destruct (Z.abs x <? 10); [cbn [digits_val]; change (0 * 10 + (48 - 48)) with 0|]; apply nat_str_val0; exact Ha. }
  destruct (x <? 0) eqn:E.
  - rewrite (parse_exponent_minus d Hd Hne), Hv. do 2 f_equal. lia.
  - rewrite (parse_exponent_plus d Hd Hne), Hv. do 2 f_equal. lia.
Qed.

(* ------------------------------------------------------------------ floats: the four shapes of repr *)

Definition float_body (a e : Z) : str :=
  let ds := nat_str a in
  let n := zlen ds in
  let decpt := n + e in
  if (-4 <? decpt) && (decpt <=? 16) then
    if decpt <=? 0 then [48; 46] ++ zeros (- decpt) ++ ds
    else if n <=? decpt then ds ++ zeros (decpt - n) ++ [46; 48]
    else firstn (Z.to_nat decpt) ds ++ 46 :: skipn (Z.to_nat decpt) ds
  else
    match ds with
    | d1 :: rest => d1 :: (match rest with [] => [] | _ => 46 :: rest end) ++ 101 :: exp_str (decpt - 1)
    | [] => []
    end.

Lemma float_str_body m e :
  float_str m e = if m <? 0 then 45 :: float_body (Z.abs m) e else float_body (Z.abs m) e.
Proof. reflexivity. Qed.

Definition frac_of (frac : option str) : str := match frac with Some f => f | None => [] end.
Definition exp_of (ex : option Z) : Z := match ex with Some x => x | None => 0 end.

(* what the scanner finds in [body], and the decimal it denotes *)
Definition float_scan (body : str) (a e : Z) : Prop :=
  hd_digit body /\
  exists ip frac ex,
    (forall neg, scan_unsigned neg body = Some (neg, ip, frac, ex)) /\
    (frac <> None \/ ex <> None) /\
    norm_dec (digits_val 0 (ip ++ frac_of frac)) (exp_of ex - zlen (frac_of frac)) = (a, e).

(* "0." zeros digits *)
Lemma shape_small a e k : 0 < a -> a mod 10 <> 0 -> 0 <= k -> e = - (k + zlen (nat_str a)) ->
  float_scan ([48; 46] ++ zeros k ++ nat_str a) a e.
Proof.
  intros Ha Hm Hk He. assert (Ha0 : 0 <= a) by lia. split.
  { exists 48, (46 :: zeros k ++ nat_str a). split; reflexivity. }
  exists [48], (Some (zeros k ++ nat_str a)), None. split; [|split].
  - intros neg. change ([48; 46] ++ zeros k ++ nat_str a) with ([48] ++ 46 :: (zeros k ++ nat_str a)).
    rewrite <- (app_nil_r (zeros k ++ nat_str a)) at 1.
    apply scan_unsigned_frac; try reflexivity; [discriminate|].
    rewrite forallb_app, zeros_digits, (nat_str_digits a Ha0). reflexivity.
  - left. discriminate.
  - cbn [frac_of exp_of]. rewrite !digits_val_app. unfold zeros at 1. rewrite digits_val_repeat0.
    rewrite nat_str_val by exact Ha0. rewrite zlen_app, (zlen_zeros k Hk).
    cbn [digits_val]. change (0 * 10 + (48 - 48)) with 0. rewrite !Z.mul_0_l, Z.add_0_l.
    rewrite (norm_dec_id a _ Ha Hm). f_equal. lia.
Qed.

(* digits zeros ".0" *)
Lemma shape_integral a e : 0 < a -> a mod 10 <> 0 -> 0 <= e ->
  float_scan (nat_str a ++ zeros e ++ [46; 48]) a e.
Proof.
  intros Ha Hm He. assert (Ha0 : 0 <= a) by lia. split.
  { apply hd_digit_app. apply hd_digit_nat_str. exact Ha0. }
  exists (nat_str a ++ zeros e), (Some [48]), None. split; [|split].
  - intros neg. rewrite app_assoc. change [46; 48] with (46 :: [48] ++ []).
    apply scan_unsigned_frac; try reflexivity.
    + rewrite forallb_app, zeros_digits, (nat_str_digits a Ha0). reflexivity.
    + pose proof (nat_str_ne a Ha0). destruct (nat_str a); [congruence|discriminate].
  - left. discriminate.
  - cbn [frac_of exp_of]. rewrite !digits_val_app. unfold zeros. rewrite digits_val_repeat0.
    rewrite nat_str_val0 by exact Ha0. cbn [digits_val]. change (zlen [48]) with 1.
    replace (a * 10 ^ Z.of_nat (Z.to_nat e) * 10 + (48 - 48)) with (a * 10 ^ Z.of_nat (S (Z.to_nat e))).
    2:{ rewrite Nat2Z.inj_succ, Z.pow_succ_r by lia. set (p := 10 ^ Z.of_nat (Z.to_nat e)). lia. }
    rewrite (norm_dec_pow a _ _ Ha Hm). f_equal. lia.
Qed.

(* digits with the point inside *)
Lemma shape_point a e d : 0 < a -> a mod 10 <> 0 -> (0 < d < length (nat_str a))%nat ->
  e = Z.of_nat d - zlen (nat_str a) ->
  float_scan (firstn d (nat_str a) ++ 46 :: skipn d (nat_str a)) a e.
Proof.
  intros Ha Hm Hd He. assert (Ha0 : 0 <= a) by lia.
  pose proof (nat_str_digits a Ha0) as Hds. split.
  { apply hd_digit_app. destruct (hd_digit_nat_str a Ha0) as [c [t [Hs Hc]]]. rewrite Hs.
    destruct d as [|d]; [lia|]. exists c, (firstn d t). split; [reflexivity|exact Hc]. }
  exists (firstn d (nat_str a)), (Some (skipn d (nat_str a))), None. split; [|split].
  - intros neg. rewrite <- (app_nil_r (skipn d (nat_str a))) at 1.
    apply scan_unsigned_frac; try reflexivity.
    + apply forallb_firstn. exact Hds.
    + intros H. apply (f_equal (@length Z)) in H. rewrite firstn_length in H. cbn [length] in H. lia.
    + apply forallb_skipn. exact Hds.
  - left. discriminate.
  - cbn [frac_of exp_of]. rewrite firstn_skipn, (nat_str_val0 a Ha0).
    rewrite (norm_dec_id a _ Ha Hm). f_equal. unfold zlen in *. rewrite skipn_length. lia.
Qed.

(* d[.ddd]e+XX *)
Lemma shape_sci a e d1 rest : 0 < a -> a mod 10 <> 0 -> nat_str a = d1 :: rest ->
  float_scan (d1 :: (match rest with [] => [] | _ => 46 :: rest end) ++ 101 :: exp_str (zlen (nat_str a) + e - 1)) a e.
Proof.
  intros Ha Hm Hs. assert (Ha0 : 0 <= a) by lia.
  pose proof (nat_str_digits a Ha0) as Hds. pose proof (nat_str_val0 a Ha0) as Hv. rewrite Hs in Hds, Hv.
  rewrite Hs. set (x := zlen (d1 :: rest) + e - 1).
  assert (Hd1 : is_digit d1 = true /\ forallb is_digit rest = true) by (cbn [forallb] in Hds; apply andb_prop in Hds; exact Hds).
  destruct Hd1 as [Hd1 Hrest]. split.
  { exists d1, ((match rest with [] => [] | _ => 46 :: rest end) ++ 101 :: exp_str x). split; [reflexivity|exact Hd1]. }
  destruct rest as [|r rest'].
  - exists [d1], None, (Some x). split; [|split].
    + intros neg. change (d1 :: [] ++ 101 :: exp_str x) with ([d1] ++ 101 :: exp_str x).
      apply scan_unsigned_exp; [cbn [forallb]; rewrite Hd1; reflexivity|discriminate|apply parse_exp_str].
    + right. discriminate.
    + cbn [frac_of exp_of]. rewrite app_nil_r, Hv. rewrite (norm_dec_id a _ Ha Hm). f_equal.
      unfold x. change (zlen [d1]) with 1. change (zlen []) with 0. lia.
  - set (rest := r :: rest') in *.
    exists [d1], (Some rest), (Some x). split; [|split].
    + intros neg. change (d1 :: (46 :: rest) ++ 101 :: exp_str x) with ([d1] ++ 46 :: rest ++ 101 :: exp_str x).
      apply scan_unsigned_frac; [cbn [forallb]; rewrite Hd1; reflexivity|discriminate|exact Hrest|reflexivity|apply parse_exp_str].
    + left. discriminate.
    + cbn [frac_of exp_of]. change ([d1] ++ rest) with (d1 :: rest). rewrite Hv.
      rewrite (norm_dec_id a _ Ha Hm). f_equal. unfold x. rewrite zlen_cons. lia.
Qed.

Lemma float_body_scan a e : 0 < a -> a mod 10 <> 0 -> float_scan (float_body a e) a e.
Proof.
  intros Ha Hm. assert (Ha0 : 0 <= a) by lia. unfold float_body. cbv zeta.
  pose proof (nat_str_ne a Ha0) as Hne.
  assert (Hlen : 0 < zlen (nat_str a)).
  { unfold zlen. destruct (nat_str a); [congruence|cbn [length]; lia]. }
  destruct ((-4 <? zlen (nat_str a) + e) && (zlen (nat_str a) + e <=? 16)) eqn:Efix.
  - destruct (zlen (nat_str a) + e <=? 0) eqn:E1.
    + apply shape_small; try assumption; lia.
    + destruct (zlen (nat_str a) <=? zlen (nat_str a) + e) eqn:E2.
      * replace (zlen (nat_str a) + e - zlen (nat_str a)) with e by lia.
        apply shape_integral; try assumption; lia.
      * apply shape_point; try assumption; unfold zlen in *; lia.
  - destruct (nat_str a) as [|d1 rest] eqn:Es; [congruence|].
    rewrite <- Es. apply shape_sci; assumption.
Qed.

(* ------------------------------------------------------------------ floats: the theorem *)

Lemma classify_float_gen (neg : bool) body a e :
  float_scan body a e -> 0 < a -> a < 10 ^ 15 -> -290 <= e <= 290 ->
  classify_text (if neg then 45 :: body else body) = TFloat (if neg then - a else a) e.
Proof.
  intros [[c [t [Hb Hc]]] [ip [frac [ex [Hscan [Hfe Hnorm]]]]]] Ha Hlt He.
  assert (Hcl : classify_scanned (Some (neg, ip, frac, ex)) = TFloat (if neg then - a else a) e).
  { assert (Hgen : classify_scanned (Some (neg, ip, frac, ex)) =
                   let me := norm_dec (digits_val 0 (ip ++ frac_of frac)) (exp_of ex - zlen (frac_of frac)) in
                   if neg && (fst me =? 0) then TUnknown
                   else if negb (fst me <? pow10 15) then TUnknown
                   else if (snd me <? -290) || (290 <? snd me) then TUnknown
                   else TFloat (if neg then - fst me else fst me) (snd me)).
    { destruct frac as [f|], ex as [x|]; try reflexivity. destruct Hfe; congruence. }
    rewrite Hgen, Hnorm. cbv zeta. cbn [fst snd]. unfold pow10.
    assert (H1 : neg && (a =? 0) = false) by (destruct neg; lia).
    assert (H2 : negb (a <? 10 ^ 15) = false) by lia.
    assert (H3 : (e <? -290) || (290 <? e) = false) by lia.
    rewrite H1, H2, H3. reflexivity. }
  destruct neg.
  - rewrite classify_numeric by (right; reflexivity). rewrite scan_number_neg, Hscan. exact Hcl.
  - rewrite Hb. rewrite classify_numeric by (left; exact Hc). rewrite (scan_number_pos c t Hc), <- Hb, Hscan.
    exact Hcl.
Qed.

Theorem classify_float_str : forall m e, dec_okb m e = true -> classify_text (float_str m e) = TFloat m e.
Proof.
  intros m e H. unfold dec_okb in H.
  apply andb_prop in H. destruct H as [H He2]. apply andb_prop in H. destruct H as [H He1].
  apply andb_prop in H. destruct H as [H Hlt].
  destruct (Z.eq_dec m 0) as [Hz|Hnz].
  - assert (e = 0) by lia. subst. vm_compute. reflexivity.
  - rewrite float_str_body.
    assert (Ha : 0 < Z.abs m) by lia.
    assert (Hm : Z.abs m mod 10 <> 0) by lia.
    rewrite (classify_float_gen (m <? 0) _ (Z.abs m) e (float_body_scan _ e Ha Hm) Ha); [|lia|lia].
    f_equal. destruct (m <? 0) eqn:E; lia.
Qed.

(* ------------------------------------------------------------------ columns *)

(* the class of the text written for a cell *)
Definition cls_of (c : cell) : tclass := classify_text (csv_cell_text c).

Lemma cast_nonempty c col :
  cast_str_to_array (map csv_cell_text (c :: col)) =
  let cls := map cls_of (c :: col) in
  if existsb is_unknown cls then Er E_NotModelled
  else if forallb int_like cls then
         (if forallb int64_ok cls then Ok (map int_of cls) else Er E_NotModelled)
  else if forallb float_like cls then
         (if forallb float_exact cls then Ok (map float_of cls) else Er E_NotModelled)
  else Ok (map (fun x => literal_cell (csv_cell_text x) (cls_of x)) (c :: col)).
Proof.
  unfold cast_str_to_array. rewrite map_map. cbn [map]. cbv zeta. fold (cls_of c).
  change (map (fun x => classify_text (csv_cell_text x)) col) with (map cls_of col).
  replace (map (fun sc : str * tclass => literal_cell (fst sc) (snd sc))
             (combine (csv_cell_text c :: map csv_cell_text col) (cls_of c :: map cls_of col)))
    with (map (fun x => literal_cell (csv_cell_text x) (cls_of x)) (c :: col)); [reflexivity|].
  change (csv_cell_text c :: map csv_cell_text col) with (map csv_cell_text (c :: col)).
  change (cls_of c :: map cls_of col) with (map cls_of (c :: col)).
  generalize (c :: col) as l. induction l as [|x l IH]; [reflexivity|].
  cbn [map combine fst snd]. rewrite IH. reflexivity.
Qed.

Lemma int_col_facts col : forallb int64_cellb col = true ->
  existsb is_unknown (map cls_of col) = false /\ forallb int_like (map cls_of col) = true /\
  forallb int64_ok (map cls_of col) = true /\ map int_of (map cls_of col) = col.
Proof.
  induction col as [|c col IH]; intros H; [repeat split|].
  cbn [forallb] in H. apply andb_prop in H. destruct H as [Hc H].
  destruct (IH H) as [I1 [I2 [I3 I4]]].
  destruct c as [z| | | |]; try discriminate. cbn [int64_cellb] in Hc.
  cbn [map]. unfold cls_of at 1 3 5 7. cbn [csv_cell_text cell_str]. rewrite classify_z_str.
  cbn [existsb forallb map is_unknown int_like int64_ok int_of orb andb].
  rewrite I1, I2, I3, I4, Hc. repeat split.
Qed.

Lemma float_col_facts col : forallb float_cellb col = true ->
  existsb is_unknown (map cls_of col) = false /\ forallb float_like (map cls_of col) = true /\
  forallb float_exact (map cls_of col) = true /\ map float_of (map cls_of col) = col /\
  (col <> [] -> forallb int_like (map cls_of col) = false).
Proof.
  induction col as [|c col IH]; intros H; [repeat split; congruence|].
  cbn [forallb] in H. apply andb_prop in H. destruct H as [Hc H].
  destruct (IH H) as [I1 [I2 [I3 [I4 _]]]].
  destruct c as [| | | |m e]; try discriminate. cbn [float_cellb] in Hc.
  cbn [map]. unfold cls_of at 1 3 5 7 9. cbn [csv_cell_text cell_str]. rewrite (classify_float_str m e Hc).
  cbn [existsb forallb map is_unknown int_like float_like float_exact float_of orb andb].
  rewrite I1, I2, I3, I4. repeat split.
Qed.

Lemma literal_col_facts col :
  (forall c, In c col -> is_unknown (cls_of c) = false /\ float_like (cls_of c) = false /\
                         literal_cell (csv_cell_text c) (cls_of c) = c) ->
  existsb is_unknown (map cls_of col) = false /\
  map (fun x => literal_cell (csv_cell_text x) (cls_of x)) col = col /\
  (col <> [] -> forallb int_like (map cls_of col) = false /\ forallb float_like (map cls_of col) = false).
Proof.
  induction col as [|c col IH]; intros H; [repeat split; congruence|].
  destruct (H c (or_introl eq_refl)) as [H1 [H2 H3]].
  destruct IH as [I1 [I2 _]]; [intros x Hx; apply H; right; exact Hx|].
  cbn [map existsb forallb]. rewrite H1, I1, H3, I2, H2.
  assert (Hi : int_like (cls_of c) = false) by (destruct (cls_of c); try reflexivity; discriminate).
  rewrite Hi. repeat split.
Qed.

Lemma bool_cell_literal c : bool_cellb c = true ->
  is_unknown (cls_of c) = false /\ float_like (cls_of c) = false /\ literal_cell (csv_cell_text c) (cls_of c) = c.
Proof.
  destruct c as [| |b| |]; try discriminate. intros _. unfold cls_of. cbn [csv_cell_text cell_str].
  rewrite classify_bool. repeat split.
Qed.

Lemma plain_cell_literal c : plain_cellb c = true ->
  is_unknown (cls_of c) = false /\ float_like (cls_of c) = false /\ literal_cell (csv_cell_text c) (cls_of c) = c.
Proof.
  destruct c as [|s| | |]; try discriminate. cbn [plain_cellb]. intros H. unfold cls_of. cbn [csv_cell_text cell_str].
  rewrite (classify_plain s H). repeat split.
Qed.

Theorem column_roundtrip : forall col, typed_col_okb col = true -> cast_str_to_array (map csv_cell_text col) = Ok col.
Proof.
  intros [|c col] H; [reflexivity|]. rewrite cast_nonempty. cbv zeta.
  assert (Hne : c :: col <> []) by discriminate. revert H Hne. generalize (c :: col) as l. clear c col.
  intros l H Hne. unfold typed_col_okb in H.
  apply orb_prop in H. destruct H as [H|H]; [apply orb_prop in H; destruct H as [H|H]; [apply orb_prop in H; destruct H as [H|H]|]|].
  - destruct (int_col_facts l H) as [I1 [I2 [I3 I4]]]. rewrite I1, I2, I3, I4. reflexivity.
  - destruct (float_col_facts l H) as [I1 [I2 [I3 [I4 I5]]]]. rewrite I1, (I5 Hne), I2, I3, I4. reflexivity.
  - destruct (literal_col_facts l) as [I1 [I2 I3]].
    { intros x Hx. apply bool_cell_literal. rewrite forallb_forall in H. apply H. exact Hx. }
    destruct (I3 Hne) as [I4 I5]. rewrite I1, I4, I5, I2. reflexivity.
  - destruct (literal_col_facts l) as [I1 [I2 I3]].
    { intros x Hx. apply plain_cell_literal. rewrite forallb_forall in H. apply H. exact Hx. }
    destruct (I3 Hne) as [I4 I5]. rewrite I1, I4, I5, I2. reflexivity.
Qed.

(* ------------------------------------------------------------------ written fields contain no carriage return *)

Definition nocr (s : str) : Prop := Forall (fun c => c <> 13) s.

Lemma field_okb_nocr s : nocr s -> field_okb s = true.
Proof.
  intros H. unfold field_okb. apply negb_true_iff.
  induction H as [|c s Hc _ IH]; [reflexivity|]. cbn [existsb]. rewrite IH. unfold ch_cr. lia.
Qed.

Lemma nocr_digits s : forallb is_digit s = true -> nocr s.
Proof.
  intros H. apply Forall_forall. intros c Hc. rewrite forallb_forall in H. specialize (H c Hc).
  apply is_digit_iff in H. lia.
Qed.

Lemma nocr_nat_str n : 0 <= n -> nocr (nat_str n).
Proof. intros H. apply nocr_digits, nat_str_digits, H. Qed.

Lemma nocr_z_str z : nocr (z_str z).
Proof.
  unfold z_str. destruct (z <? 0) eqn:E; [constructor; [lia|]|]; apply nocr_nat_str; lia.
Qed.

Lemma nocr_exp_str x : nocr (exp_str x).
Proof.
  unfold exp_str. constructor; [destruct (x <? 0); lia|].
  destruct (Z.abs x <? 10); [constructor; [lia|]|]; apply nocr_nat_str; lia.
Qed.

Lemma nocr_float_body a e : 0 <= a -> nocr (float_body a e).
Proof.
  intros Ha. pose proof (nocr_nat_str a Ha) as Hds. unfold float_body. cbv zeta.
  assert (Hz : forall k, nocr (zeros k)) by (intros k; apply nocr_digits, zeros_digits).
  assert (Hsplit : forall k, nocr (firstn k (nat_str a)) /\ nocr (skipn k (nat_str a))).
  { intros k. apply Forall_app. rewrite firstn_skipn. exact Hds. }
  destruct ((-4 <? zlen (nat_str a) + e) && (zlen (nat_str a) + e <=? 16)).
  - destruct (zlen (nat_str a) + e <=? 0); [|destruct (zlen (nat_str a) <=? zlen (nat_str a) + e)].
    + unfold nocr. rewrite !Forall_app. split; [repeat constructor; lia|]. split; [apply Hz|exact Hds].
    + unfold nocr. rewrite !Forall_app. split; [exact Hds|]. split; [apply Hz|repeat constructor; lia].
    + unfold nocr. rewrite Forall_app. split; [apply Hsplit|]. constructor; [lia|apply Hsplit].
  - destruct (nat_str a) as [|d1 rest]; [constructor|].
    inversion Hds as [|? ? Hd1 Hrest]; subst. constructor; [exact Hd1|].
    unfold nocr. rewrite Forall_app. split.
    + destruct rest; [constructor|]. constructor; [lia|exact Hrest].
    + constructor; [lia|apply nocr_exp_str].
Qed.

Lemma nocr_float_str m e : nocr (float_str m e).
Proof.
  rewrite float_str_body. destruct (m <? 0); [constructor; [lia|]|]; apply nocr_float_body; lia.
Qed.

Lemma nocr_plain s : plain_textb s = true -> nocr s.
Proof.
  destruct s as [|c t]; [constructor|]. intros H. unfold plain_textb in H.
  repeat (apply andb_prop in H; destruct H as [H ?]).
  match goal with Hw : forallb is_word_char _ = true |- _ => rename Hw into Hw' end.
  apply Forall_forall. intros x Hx. rewrite forallb_forall in Hw'. specialize (Hw' x Hx).
  unfold is_word_char, is_letter, is_digit in Hw'. lia.
Qed.

Lemma typed_cell_field_ok col x : typed_col_okb col = true -> In x col -> field_okb (csv_cell_text x) = true.
Proof.
  intros H Hx. apply field_okb_nocr. unfold typed_col_okb in H.
  assert (Hc : int64_cellb x = true \/ float_cellb x = true \/ bool_cellb x = true \/ plain_cellb x = true).
  { repeat (apply orb_prop in H; destruct H as [H|H]); rewrite forallb_forall in H; specialize (H x Hx); auto. }
  destruct x as [z|s|b| |m e]; cbn [csv_cell_text cell_str].
  - apply nocr_z_str.
  - destruct Hc as [Hc|[Hc|[Hc|Hc]]]; try discriminate. apply nocr_plain. exact Hc.
  - destruct b; repeat constructor; lia.
  - constructor.
  - apply nocr_float_str.
Qed.

(* ------------------------------------------------------------------ tables *)

Lemma cast_columns_roundtrip cs :
  forallb typed_col_okb cs = true -> cast_columns (map (map csv_cell_text) cs) = Ok cs.
Proof.
  induction cs as [|c cs IH]; intros H; [reflexivity|].
  cbn [forallb] in H. apply andb_prop in H. destruct H as [Hc H].
  cbn [map cast_columns]. rewrite (column_roundtrip c Hc). cbn [bind]. rewrite (IH H). reflexivity.
Qed.

Lemma nth_map_cell_text j (row : list cell) : nth j (map csv_cell_text row) [] = csv_cell_text (nth j row CN).
Proof. change (@nil Z) with (csv_cell_text CN). apply map_nth. Qed.

(* the columns of the written rows are the written columns *)
Lemma text_columns_rows cs n :
  Forall (fun c => length c = n) cs ->
  text_columns (length cs) (map (map csv_cell_text) (map (row_at cs) (seq 0 n))) = map (map csv_cell_text) cs.
Proof.
  intros Hf. unfold text_columns.
  transitivity (map (fun j => map csv_cell_text (nth j cs [])) (seq 0 (length cs))).
  - apply map_ext_in. intros j Hj. apply in_seq in Hj.
    assert (Hlen : length (nth j cs []) = n).
    { rewrite Forall_forall in Hf. apply Hf. apply nth_In. lia. }
    rewrite !map_map.
    transitivity (map (fun i => csv_cell_text (nth i (nth j cs []) CN)) (seq 0 n)).
    + apply map_ext. intros i. rewrite nth_map_cell_text, nth_row_at. reflexivity.
    + rewrite <- Hlen. rewrite <- (map_map (fun i => nth i (nth j cs []) CN) csv_cell_text).
      rewrite map_nth_seq. reflexivity.
  - rewrite <- (map_map (fun j => nth j cs []) (map csv_cell_text)). rewrite map_nth_seq. reflexivity.
Qed.

Lemma write_records_okb t :
  wf t -> hdr t <> [] -> forallb field_okb (hdr t) = true -> forallb typed_col_okb (cols t) = true ->
  rows_okb (write_records t) = true.
Proof.
  intros [Hl [Hf Hnd]] Hne Hh Hc. unfold rows_okb, write_records. cbn [forallb]. apply andb_true_intro. split.
  - unfold row_okb. rewrite Hh. destruct (hdr t); [congruence|reflexivity].
  - apply forallb_forall. intros r Hr. apply in_map_iff in Hr. destruct Hr as [row [<- Hrow]].
    unfold array in Hrow. apply in_map_iff in Hrow. destruct Hrow as [i [<- Hi]].
    unfold row_okb. apply andb_true_intro. split.
    + unfold row_at. destruct (cols t) as [|c cs]; [destruct (hdr t); [congruence|discriminate]|reflexivity].
    + apply forallb_forall. intros f Hfl. apply in_map_iff in Hfl. destruct Hfl as [x [<- Hx]].
      unfold row_at in Hx. apply in_map_iff in Hx. destruct Hx as [c [<- Hcin]].
      rewrite forallb_forall in Hc. specialize (Hc c Hcin).
      destruct (Nat.ltb i (length c)) eqn:E.
      * apply Nat.ltb_lt in E. apply (typed_cell_field_ok c); [exact Hc|apply nth_In; exact E].
      * apply Nat.ltb_ge in E. rewrite nth_overflow by exact E. reflexivity.
Qed.

Lemma load_written_records t :
  wf t -> hdr t <> [] -> forallb typed_col_okb (cols t) = true ->
  load_records (write_records t) = Ok t.
Proof.
  intros [Hl [Hf Hnd]] Hne Hc. unfold load_records, write_records.
  assert (Hlens : forallb (fun r => Nat.eqb (length r) (length (hdr t))) (map (map csv_cell_text) (array t)) = true).
  { apply forallb_forall. intros r Hr. apply in_map_iff in Hr. destruct Hr as [row [<- Hrow]].
    unfold array in Hrow. apply in_map_iff in Hrow. destruct Hrow as [i [<- Hi]].
    unfold row_at. rewrite !map_length. apply Nat.eqb_eq. lia. }
  rewrite Hlens. cbn [negb]. unfold array. rewrite Hl, (text_columns_rows (cols t) (nrows t) Hf).
  rewrite (cast_columns_roundtrip (cols t) Hc). cbn [bind].
  rewrite (set_cols_empty (hdr t) (cols t) (nrows t) Hl Hf Hnd).
  destruct t as [h cs n]. cbn [hdr cols nrows] in *. destruct h; [congruence|reflexivity].
Qed.

Theorem table_typed_roundtrip : forall d t,
  delim_okb d = true -> wf t -> hdr t <> [] ->
  forallb field_okb (hdr t) = true ->
  forallb typed_col_okb (cols t) = true ->
  write_then_load d (write_records t) = Ok t.
Proof.
  intros d t Hd Hwf Hne Hh Hc. unfold write_then_load.
  rewrite (csv_roundtrip d (write_records t) Hd (write_records_okb t Hwf Hne Hh Hc)).
  apply load_written_records; assumption.
Qed.

(* ------------------------------------------------------------------ conventions, on examples *)

(* "007", "010": text that looks like numbers is read as numbers *)
Example cast_leading_zeros : cast_str_to_array [[48;48;55]; [48;49;48]] = Ok [CI 7; CI 10].
Proof. vm_compute; reflexivity. Qed.

(* ... but stays text next to real text: "007", "x" *)
Example cast_leading_zeros_text : cast_str_to_array [[48;48;55]; [120]] = Ok [CS [48;48;55]; CS [120]].
Proof. vm_compute; reflexivity. Qed.

(* "1", "2.5": ints next to floats become floats *)
Example cast_int_float : cast_str_to_array [[49]; [50;46;53]] = Ok [CF 1 0; CF 25 (-1)].
Proof. vm_compute; reflexivity. Qed.

(* "True", "x", "None": literals inside a text column are evaluated *)
Example cast_literals_in_text : cast_str_to_array [s_True; [120]; s_None] = Ok [CB true; CS [120]; CN].
Proof. vm_compute; reflexivity. Qed.

Example typed_int_col : typed_col_okb [CI 0; CI (-17); CI 9223372036854775807; CI (-9223372036854775808)] = true.
Proof. vm_compute; reflexivity. Qed.

(* 1.5e-07, 1e+20, -2.5, 0.0, 1234.5678 *)
Example typed_float_col : typed_col_okb [CF 15 (-8); CF 1 20; CF (-25) (-1); CF 0 0; CF 12345678 (-4)] = true.
Proof. vm_compute; reflexivity. Qed.

Example typed_bool_col : typed_col_okb [CB true; CB false; CB true] = true.
Proof. vm_compute; reflexivity. Qed.

(* "a b", "", "x_1" *)
Example typed_plain_col : typed_col_okb [CS [97;32;98]; CS []; CS [120;95;49]] = true.
Proof. vm_compute; reflexivity. Qed.

Example float_texts :
  map csv_cell_text [CF 15 (-8); CF 1 20; CF (-25) (-1); CF 0 0; CF 12345678 (-4)] =
  [[49;46;53;101;45;48;55]; [49;101;43;50;48]; [45;50;46;53]; [48;46;48]; [49;50;51;52;46;53;54;55;56]].
Proof. vm_compute; reflexivity. Qed.

Definition example_table : table :=
  mkT [[105]; [102]; [98]; [115]]
      [[CI 1; CI (-20); CI 300];
       [CF 15 (-8); CF 1 20; CF (-25) (-1)];
       [CB true; CB false; CB true];
       [CS [97;32;98]; CS []; CS [120]]]
      3.

Example example_table_roundtrip :
  write_then_load 44 (write_records example_table) = Ok example_table /\
  write_then_load 9 (write_records example_table) = Ok example_table.
Proof. split; vm_compute; reflexivity. Qed.

(* the same instance through the theorem: its hypotheses hold for the example *)
Example example_table_wf : wf example_table.
Proof.
  split; [reflexivity|]. split; [repeat constructor|].
  repeat constructor; cbn [In]; intros H; repeat (destruct H as [H|H]; [discriminate H|]); exact H.
Qed.

Example example_table_by_theorem : write_then_load 44 (write_records example_table) = Ok example_table.
Proof. apply table_typed_roundtrip; [reflexivity|exact example_table_wf|discriminate|reflexivity|vm_compute; reflexivity]. Qed.


(* the "plain text" side condition on string columns is necessary: text that
   looks like numbers is read as numbers (the convention of the type inference) *)
Theorem numeric_text_not_preserved : exists col,
  Forall (fun c => exists s, c = CS s) col /\
  cast_str_to_array (map csv_cell_text col) = Ok [CI 7; CI 10] /\
  cast_str_to_array (map csv_cell_text col) <> Ok col.
Proof.
  exists [CS [48; 48; 55]; CS [48; 49; 48]].
  split; [repeat constructor; eexists; reflexivity|].
  split; [vm_compute; reflexivity|vm_compute; discriminate].
Qed.
