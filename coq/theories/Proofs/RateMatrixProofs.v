(** Proofs for C05: the rate-matrix model ([Model/RateMatrix.v]) meets the
    specification ([Spec/RateMatrixSpec.v]) over every field (laws are section
    hypotheses; instance [Qc] for the non-vacuity examples). *)
From Coq Require Import Arith Lia List Bool Ring.
From CG3 Require Import Lib.FieldAlg Lib.Mat Model.RateMatrix Spec.RateMatrixSpec.
Import ListNotations.

Set Implicit Arguments.

Section Proofs.
  Variable R : Type.
  Variable o : fld_ops R.
  Hypothesis L : fld_laws o.
  Add Ring fld_ring_p : (fld_ring_theory L).

  Local Notation "0" := (fzero o).
  Local Notation "1" := (fone o).
  Local Infix "+" := (fadd o).
  Local Infix "*" := (fmul o).
  Local Infix "-" := (fsub o).
  Local Infix "/" := (fdiv o).
  Local Notation sum := (sumn o).

  Implicit Types A B C D N M F Q Rm : fmat R.
  Implicit Types v p wp : nat -> R.

  Lemma fdiv_self a : a <> 0 -> a / a = 1.
  Proof. intros H. unfold fdiv. now apply (f_mul_inv_r L). Qed.

  Lemma one_div a : 1 / a = finv o a.
  Proof. unfold fdiv. ring. Qed.

  (* ================================================================ calcQ *)

  Lemma sum_diag_shift n i (f : nat -> R) c : (i < n)%nat ->
    sum n (fun j => if Nat.eqb i j then f j - c else f j) = sum n f - c.
  Proof.
    intros Hi.
    rewrite (@sumn_ext R o n _ (fun j => f j + (if Nat.eqb i j then fopp o c else 0))).
    - rewrite (sumn_add L), (sumn_delta' L (fun _ => fopp o c) Hi). unfold fsub. ring.
    - intros j _. destruct (Nat.eqb i j); unfold fsub; ring.
  Qed.

  (** rows of Q sum to zero — for every exchangeability matrix, every weighting, every scale *)
  Theorem calcQ_rows_zero n wp Rm : rate_rows_zero o n (calcQ_f o n wp Rm).
  Proof.
    intros i Hi. unfold calcQ_f.
    rewrite (sumn_mul_r L), (sum_diag_shift (fun j => Rm i j) (row_total o n Rm i) Hi).
    unfold row_total, fsub. ring.
  Qed.

  (** calibration: the expected rate at the word probabilities is one *)
  Theorem calcQ_calibrated n wp Rm :
    (forall i, (i < n)%nat -> Rm i i = 0) ->
    sum n (fun i => wp i * row_total o n Rm i) <> 0 ->
    calibrated o n wp (calcQ_f o n wp Rm).
  Proof.
    intros Hd Hs. unfold calibrated, calcQ_f.
    set (S := sum n (fun i => wp i * row_total o n Rm i)) in *.
    rewrite (@sumn_ext R o n _ (fun i => fopp o (wp i * row_total o n Rm i) * (1 / S))).
    - rewrite (sumn_mul_r L), (sumn_opp L). fold S.
      transitivity (S / S); [unfold fdiv; ring|]. now apply fdiv_self.
    - intros i Hi. rewrite Nat.eqb_refl, (Hd i Hi). unfold fsub. ring.
  Qed.

  (** off-diagonal entries are the exchangeabilities times the (common) scale *)
  Lemma calcQ_offdiag n wp Rm i j : i <> j ->
    calcQ_f o n wp Rm i j = Rm i j * (1 / sum n (fun i => wp i * row_total o n Rm i)).
  Proof. intros H. unfold calcQ_f. apply Nat.eqb_neq in H. now rewrite H. Qed.

  (** detailed balance is inherited from the (weighted) exchangeabilities *)
  Theorem calcQ_balanced n wp Rm : balanced o n wp Rm -> reversible o n wp (calcQ_f o n wp Rm).
  Proof.
    intros HB i j Hi Hj. unfold calcQ_f.
    destruct (Nat.eqb i j) eqn:E.
    - apply Nat.eqb_eq in E; subst j. now rewrite Nat.eqb_refl.
    - rewrite Nat.eqb_sym, E.
      transitivity (wp i * Rm i j * (1 / sum n (fun i0 => wp i0 * row_total o n Rm i0))); [ring|].
      rewrite (HB i j Hi Hj). ring.
  Qed.

  Lemma hadamard_balanced n wp Rm M :
    (forall i j, (i < n)%nat -> (j < n)%nat -> Rm i j = Rm j i) ->
    balanced o n wp M -> balanced o n wp (hadamard o Rm M).
  Proof.
    intros HS HM i j Hi Hj. unfold hadamard.
    transitivity (Rm i j * (wp i * M i j)); [ring|]. rewrite (HM i j Hi Hj), (HS i j Hi Hj). ring.
  Qed.

  (** detailed balance and zero row sums give stationarity *)
  Theorem balanced_stationary n wp Q :
    reversible o n wp Q -> rate_rows_zero o n Q -> stationary o n wp Q.
  Proof.
    intros HB HR j Hj.
    rewrite (balanced_rows_lfix L (c:=0) HB HR Hj). ring.
  Qed.

  (** symmetric exchangeabilities + balanced weights ⇒ πQ = 0 for StationaryQ.calcQ *)
  Theorem calcQ_stationary_stationary n wp Rm M :
    (forall i j, (i < n)%nat -> (j < n)%nat -> Rm i j = Rm j i) ->
    balanced o n wp M ->
    stationary o n wp (calcQ_f o n wp (hadamard o Rm M)).
  Proof.
    intros HS HM. apply balanced_stationary.
    - apply calcQ_balanced. now apply hadamard_balanced.
    - apply calcQ_rows_zero.
  Qed.

  (** StationaryQ.calcQ with "tuple"/nucleotide motif probabilities is the
      published generator q_ij = r_ij π_j / μ *)
  Theorem calcQ_is_published n wp Rm :
    (forall i, (i < n)%nat -> Rm i i = 0) ->
    meq n (calcQ_f o n wp (hadamard o Rm (fun _ j => wp j))) (spec_Q o n wp (reversible_rates o wp Rm)).
  Proof.
    intros Hd i j Hi Hj. unfold calcQ_f, spec_Q.
    assert (RT : forall k, (k < n)%nat ->
              row_total o n (hadamard o Rm (fun _ j0 => wp j0)) k = offdiag_total o n (reversible_rates o wp Rm) k).
    { intros k Hk. unfold row_total, offdiag_total, hadamard, reversible_rates.
      apply (sumn_ext o); intros l Hl. destruct (Nat.eqb l k) eqn:E; [|reflexivity].
      apply Nat.eqb_eq in E; subst l. rewrite (Hd k Hk). ring. }
    assert (ER : sum n (fun i0 => wp i0 * row_total o n (hadamard o Rm (fun _ j0 => wp j0)) i0)
                 = expected_rate o n wp (reversible_rates o wp Rm)).
    { unfold expected_rate. apply (sumn_ext o); intros k Hk. now rewrite RT. }
    rewrite ER. destruct (Nat.eqb i j) eqn:E.
    - apply Nat.eqb_eq in E; subst j. rewrite RT by assumption.
      unfold hadamard. rewrite (Hd i Hi). unfold fdiv, fsub. ring.
    - unfold hadamard, reversible_rates, fdiv. ring.
  Qed.


  (** on a zero-diagonal rate table, calcQ IS the published construction
      (diagonal = minus the off-diagonal row total, everything divided by the expected rate) *)
  Theorem calcQ_f_is_spec_Q n wp Rm :
    (forall i, (i < n)%nat -> Rm i i = 0) -> meq n (calcQ_f o n wp Rm) (spec_Q o n wp Rm).
  Proof.
    intros Hd i j Hi Hj. unfold calcQ_f, spec_Q.
    assert (RT : forall k, (k < n)%nat -> row_total o n Rm k = offdiag_total o n Rm k).
    { intros k Hk. unfold row_total, offdiag_total.
      apply (sumn_ext o); intros l Hl. destruct (Nat.eqb l k) eqn:E; [|reflexivity].
      apply Nat.eqb_eq in E; subst l. apply (Hd k Hk). }
    assert (ER : sum n (fun i0 => wp i0 * row_total o n Rm i0) = expected_rate o n wp Rm).
    { unfold expected_rate. apply (sumn_ext o); intros k Hk. now rewrite RT. }
    rewrite ER. destruct (Nat.eqb i j) eqn:E.
    - apply Nat.eqb_eq in E; subst j. rewrite RT by assumption. rewrite (Hd i Hi). unfold fdiv, fsub. ring.
    - unfold fdiv. ring.
  Qed.

  (** eigen form: rows sum to one when Q = U·diag(λ)·W has zero row sums, U·W = I, W·U = I and
      the scalar exponential is 1 at every zero eigenvalue *)
  Theorem eigen_row_stochastic n (evT evI : fmat R) (lam e : nat -> R) (Q : fmat R) :
    (forall k m, (k < n)%nat -> (m < n)%nat ->
       sum n (fun l => evI l k * evT l m) = if Nat.eqb k m then 1 else 0) ->
    (forall i j, (i < n)%nat -> (j < n)%nat ->
       sum n (fun k => evT i k * evI j k) = if Nat.eqb i j then 1 else 0) ->
    meq n Q (eigen_P o n evT evI lam) ->
    rate_rows_zero o n Q ->
    (forall k, (k < n)%nat -> lam k = 0 -> e k = 1) ->
    (forall k, (k < n)%nat -> lam k = 0 \/ lam k <> 0) ->
    row_stochastic o n (eigen_P o n evT evI e).
  Proof.
    intros HWU HUW HQ H0 He Hdec.
    (* w_k = Σ_j W_kj = Σ_j evI j k *)
    set (w := fun k => sum n (fun j => evI j k)).
    (* λ_k w_k = 0 : multiply Q 1 = 0 on the left by W *)
    assert (Hlw : forall k, (k < n)%nat -> lam k * w k = 0).
    { intros k Hk.
      assert (E : sum n (fun i => evI i k * sum n (fun j => Q i j)) = lam k * w k).
      { rewrite (@sumn_ext R o n _ (fun i => sum n (fun j => sum n (fun m => evI i k * evT i m * lam m * evI j m)))).
        2:{ intros i Hi. rewrite <- (sumn_mul_l L). apply (sumn_ext o); intros j Hj.
            rewrite (HQ i j Hi Hj). unfold eigen_P. rewrite <- (sumn_mul_l L).
            apply (sumn_ext o); intros m Hm. ring. }
        rewrite (@sumn_ext R o n _ (fun i => sum n (fun m => sum n (fun j => evI i k * evT i m * lam m * evI j m))))
          by (intros i Hi; apply (sumn_swap L)).
        rewrite (sumn_swap L).
        rewrite (@sumn_ext R o n _ (fun m => if Nat.eqb m k then lam m * w m else 0)).
        - exact (sumn_delta L (fun m => lam m * w m) Hk).
        - intros m Hm.
          rewrite (@sumn_ext R o n _ (fun i => (evI i k * evT i m) * (lam m * w m))).
          + rewrite (sumn_mul_r L), (HWU k m Hk Hm), (Nat.eqb_sym m k). destruct (Nat.eqb k m); ring.
          + intros i Hi. unfold w. rewrite <- (sumn_mul_l L), <- (sumn_mul_l L).
            apply (sumn_ext o); intros j Hj. ring. }
      rewrite <- E. rewrite (@sumn_ext R o n _ (fun _ => 0)); [apply (sumn_zero L)|].
      intros i Hi. rewrite (H0 i Hi). ring. }
    (* hence e_k w_k = w_k *)
    assert (Hew : forall k, (k < n)%nat -> e k * w k = w k).
    { intros k Hk. destruct (Hdec k Hk) as [Hz|Hnz].
      - rewrite (He k Hk Hz). ring.
      - rewrite (@f_integral R o L (lam k) (w k) (Hlw k Hk) Hnz). ring. }
    intros i Hi. unfold eigen_P.
    rewrite (sumn_swap L).
    rewrite (@sumn_ext R o n _ (fun k => evT i k * w k)).
    - (* Σ_k U_ik w_k = Σ_j (U W)_ij = Σ_j δ_ij = 1 *)
      unfold w. rewrite (@sumn_ext R o n _ (fun k => sum n (fun j => evT i k * evI j k)))
        by (intros k Hk; now rewrite (sumn_mul_l L)).
      rewrite (sumn_swap L).
      etransitivity; [apply (sumn_ext o); intros j Hj; apply (HUW i j Hi Hj)|].
      exact (sumn_delta' L (fun _ => 1) Hi).
    - intros k Hk.
      rewrite (sumn_mul_l L n (evT i k * e k) (fun j => evI j k)). fold (w k).
      transitivity (evT i k * (e k * w k)); [ring|]. now rewrite (Hew k Hk).
  Qed.

  (** the published generator is a calibrated rate matrix *)
  Lemma simple_weights_balanced n wp : balanced o n wp (fun _ j => wp j).
  Proof. intros i j _ _. ring. Qed.

  (* ---------------------------------------------------------------- list level *)
  Lemma calcQ_general_get n wpl Rl :
    meq n (get o (calcQ_general o n wpl Rl)) (calcQ_f o n (vget o wpl) (get o Rl)).
  Proof. apply (meq_get_mk o). Qed.

  Lemma calcQ_stationary_get n wpl mpml Rl :
    meq n (get o (calcQ_stationary o n wpl mpml Rl))
          (calcQ_f o n (vget o wpl) (hadamard o (get o Rl) (get o mpml))).
  Proof. apply (meq_get_mk o). Qed.

  Lemma rows_ext n A B c : meq n A B -> rows o n A c -> rows o n B c.
  Proof.
    intros E H i Hi. rewrite <- (H i Hi). apply (sumn_ext o); intros j Hj. symmetry. now apply E.
  Qed.

  (* ================================================================ exponentiators *)

  Lemma lmul_get n Al Bl : meq n (get o (lmul o n Al Bl)) (mmul o n (get o Al) (get o Bl)).
  Proof. apply (meq_get_mk o). Qed.
  Lemma ladd_get n Al Bl : meq n (get o (ladd o n Al Bl)) (madd o (get o Al) (get o Bl)).
  Proof. apply (meq_get_mk o). Qed.
  Lemma lscale_get n c Al : meq n (get o (lscale o n c Al)) (mscale o c (get o Al)).
  Proof. apply (meq_get_mk o). Qed.
  Lemma lsub_get n Al Bl : meq n (get o (lsub o n Al Bl)) (madd o (get o Al) (mopp o (get o Bl))).
  Proof. apply (meq_get_mk o). Qed.
  Lemma lI_get n : meq n (get o (lI o n)) (mI o).
  Proof. apply (meq_get_mk o). Qed.
  Arguments lmul_get : clear implicits.
  Arguments ladd_get : clear implicits.
  Arguments lscale_get : clear implicits.
  Arguments lsub_get : clear implicits.
  Arguments lI_get : clear implicits.

  Lemma mopp_scale n A : meq n (mopp o A) (mscale o (fopp o 1) A).
  Proof. intros i j _ _. unfold mopp, mscale. ring. Qed.
  Arguments mopp_scale : clear implicits.

  (** polynomial closure transported to the list operations *)
  Lemma pe_lI n A a : polyev o n A a (get o (lI o n)) 1.
  Proof. eapply pe_eq; [apply (meq_sym (lI_get n))|apply pe_I]. Qed.
  Lemma pe_lmul n A a Ml Nl c d :
    polyev o n A a (get o Ml) c -> polyev o n A a (get o Nl) d ->
    polyev o n A a (get o (lmul o n Ml Nl)) (c * d).
  Proof. intros HM HN. eapply pe_eq; [apply (meq_sym (lmul_get n Ml Nl))|now apply pe_mul]. Qed.
  Lemma pe_ladd n A a Ml Nl c d :
    polyev o n A a (get o Ml) c -> polyev o n A a (get o Nl) d ->
    polyev o n A a (get o (ladd o n Ml Nl)) (c + d).
  Proof. intros HM HN. eapply pe_eq; [apply (meq_sym (ladd_get n Ml Nl))|now apply pe_add]. Qed.
  Lemma pe_lscale n A a k Ml c :
    polyev o n A a (get o Ml) c -> polyev o n A a (get o (lscale o n k Ml)) (k * c).
  Proof. intros HM. eapply pe_eq; [apply (meq_sym (lscale_get n k Ml))|now apply pe_scale]. Qed.
  Lemma pe_lsub n A a Ml Nl c d :
    polyev o n A a (get o Ml) c -> polyev o n A a (get o Nl) d ->
    polyev o n A a (get o (lsub o n Ml Nl)) (c + fopp o 1 * d).
  Proof.
    intros HM HN. eapply pe_eq; [apply (meq_sym (lsub_get n Ml Nl))|].
    apply pe_add; [exact HM|]. eapply pe_eq; [apply (meq_sym (mopp_scale n (get o Nl)))|now apply pe_scale].
  Qed.

  (* ---------------------------------------------------------------- Taylor *)
  (** the same recurrence on scalars *)
  Fixpoint taylor_loop_s (a : R) (steps k : nat) (st : R * R) : R * R :=
    match steps with
    | O => st
    | S s => let trm := snd st * ((1 / nat_f o k) * a) in taylor_loop_s a s (S k) (fst st + trm, trm)
    end.
  Definition taylor_s (a : R) (terms : nat) : R := fst (taylor_loop_s a terms 1 (1, 1)).

  Lemma taylor_loop_polyev n Al a steps : forall k El Tl e t,
    polyev o n (get o Al) a (get o El) e -> polyev o n (get o Al) a (get o Tl) t ->
    polyev o n (get o Al) a (get o (fst (taylor_loop o n Al steps k (El, Tl)))) (fst (taylor_loop_s a steps k (e, t)))
    /\ polyev o n (get o Al) a (get o (snd (taylor_loop o n Al steps k (El, Tl)))) (snd (taylor_loop_s a steps k (e, t))).
  Proof.
    induction steps as [|s IH]; intros k El Tl e t HE HT; cbn [taylor_loop taylor_loop_s fst snd].
    - now split.
    - apply IH.
      + apply pe_ladd; [exact HE|]. apply pe_lmul; [exact HT|]. apply pe_lscale, pe_A.
      + apply pe_lmul; [exact HT|]. apply pe_lscale, pe_A.
  Qed.

  (** every Taylor partial sum is a polynomial in A, evaluated at a by the scalar recurrence *)
  Theorem taylor_polyev n Al a terms :
    polyev o n (get o Al) a (get o (taylor o n Al terms)) (taylor_s a terms).
  Proof. unfold taylor, taylor_s. apply taylor_loop_polyev; apply pe_lI. Qed.

  Lemma taylor_loop_s_zero steps : forall k e t, fst (taylor_loop_s 0 steps k (e, t)) = e.
  Proof.
    induction steps as [|s IH]; intros k e t; cbn [taylor_loop_s fst snd]; [reflexivity|].
    rewrite IH. ring.
  Qed.
  Lemma taylor_s_zero terms : taylor_s 0 terms = 1.
  Proof. apply taylor_loop_s_zero. Qed.

  (** rows of every Taylor partial sum of a zero-row-sum matrix sum to one *)
  Theorem taylor_row_stochastic n Al terms :
    rate_rows_zero o n (get o Al) -> row_stochastic o n (get o (taylor o n Al terms)).
  Proof.
    intros H0. apply (rows_rfix L).
    assert (H : rfix o n (get o (taylor o n Al terms)) (fun _ => 1) (taylor_s 0 terms)).
    { eapply (polyev_rfix L); [|apply taylor_polyev]. now apply (rows_rfix L). }
    now rewrite taylor_s_zero in H.
  Qed.

  Lemma stationary_lfix n p A : stationary o n p A <-> lfix o n p A 0.
  Proof.
    split; intros H j Hj.
    - rewrite (H j Hj). ring.
    - rewrite (H j Hj). ring.
  Qed.
  Lemma preserves_lfix n p A : preserves o n p A <-> lfix o n p A 1.
  Proof.
    split; intros H j Hj.
    - rewrite (H j Hj). ring.
    - rewrite (H j Hj). ring.
  Qed.

  (** πQ = 0 ⇒ π·taylor = π *)
  Theorem taylor_preserves n p Al terms :
    stationary o n p (get o Al) -> preserves o n p (get o (taylor o n Al terms)).
  Proof.
    intros H0. apply preserves_lfix.
    assert (H : lfix o n p (get o (taylor o n Al terms)) (taylor_s 0 terms)).
    { eapply (polyev_lfix L); [|apply taylor_polyev]. now apply stationary_lfix. }
    now rewrite taylor_s_zero in H.
  Qed.

  (** detailed balance of Q ⇒ detailed balance of every Taylor partial sum *)
  Theorem taylor_reversible n p Al terms :
    reversible o n p (get o Al) -> reversible o n p (get o (taylor o n Al terms)).
  Proof. intros HB. exact (polyev_balanced L HB (taylor_polyev n Al 0 terms)). Qed.

  (** any two Taylor partial sums of multiples of the same matrix commute
      (P(s)P(t) = P(t)P(s) for the truncated series) *)
  Theorem taylor_commute n Al s t k l :
    commute o n (get o (taylor o n (lscale o n s Al) k)) (get o (taylor o n (lscale o n t Al) l)).
  Proof.
    assert (G : forall c m, exists e, polyev o n (get o Al) 0 (get o (taylor o n (lscale o n c Al) m)) e).
    { intros c m. generalize (taylor_polyev n (lscale o n c Al) (c * 0) m). generalize (taylor_s (c * 0) m).
      unfold taylor. generalize (lI o n) at 1 3 as E0. intros E0.
      assert (HE0 : True) by exact I.
      (* transport a polynomial in c·A to a polynomial in A *)
      intros e H. exists e.
      remember (get o (fst (taylor_loop o n (lscale o n c Al) m 1 (E0, lI o n)))) as Mx.
      clear HeqMx. induction H.
      - apply pe_I.
      - eapply pe_eq; [apply (meq_sym (lscale_get n c Al))|apply pe_scale, pe_A].
      - now apply pe_add.
      - now apply pe_scale.
      - now apply pe_mul.
      - eapply pe_eq; eauto. }
    destruct (G s k) as [e1 H1]. destruct (G t l) as [e2 H2].
    eapply (polyev_commute L); eauto.
  Qed.

  (* ---------------------------------------------------------------- zero length *)
  Lemma taylor_loop_zero n Al steps : forall k El Tl E0,
    meq n (get o Al) (mzero o) -> meq n (get o El) E0 ->
    meq n (get o (fst (taylor_loop o n Al steps k (El, Tl)))) E0.
  Proof.
    induction steps as [|s IH]; intros k El Tl E0 HA HE; cbn [taylor_loop fst snd]; [exact HE|].
    apply IH; [exact HA|].
    eapply (meq_trans (ladd_get n El _)).
    intros i j Hi Hj. unfold madd. rewrite (HE i j Hi Hj).
    rewrite (lmul_get n Tl _ i j Hi Hj). unfold mmul.
    rewrite (@sumn_ext R o n _ (fun _ => 0)).
    - rewrite (sumn_zero L). ring.
    - intros l Hl. rewrite (lscale_get n _ Al l j Hl Hj). unfold mscale. rewrite (HA l j Hl Hj).
      unfold mzero. ring.
  Qed.

  (** at length zero (A = Q·0) every Taylor partial sum is the identity *)
  Theorem taylor_zero_identity n Ql terms :
    is_identity o n (get o (taylor o n (lscale o n 0 Ql) terms)).
  Proof.
    unfold taylor. intros i j Hi Hj.
    rewrite (@taylor_loop_zero n (lscale o n 0 Ql) terms 1%nat (lI o n) (lI o n) (mI o)); try assumption.
    - reflexivity.
    - intros a b Ha Hb. rewrite (lscale_get n 0 Ql a b Ha Hb). unfold mscale, mzero. ring.
    - apply lI_get.
  Qed.

  (* ---------------------------------------------------------------- squaring *)
  Lemma squarings_rfix n v j : forall Fl, rfix o n (get o Fl) v 1 -> rfix o n (get o (squarings o n Fl j)) v 1.
  Proof.
    induction j as [|j IH]; intros Fl H; cbn [squarings]; [exact H|].
    apply IH. eapply (rfix_ext (o:=o)); [apply (meq_sym (lmul_get n Fl Fl))|].
    replace 1 with (1 * 1) by ring. now apply (rfix_mul L).
  Qed.
  Lemma squarings_lfix n p j : forall Fl, lfix o n p (get o Fl) 1 -> lfix o n p (get o (squarings o n Fl j)) 1.
  Proof.
    induction j as [|j IH]; intros Fl H; cbn [squarings]; [exact H|].
    apply IH. eapply (lfix_ext (o:=o)); [apply (meq_sym (lmul_get n Fl Fl))|].
    replace 1 with (1 * 1) by ring. now apply (lfix_mul L).
  Qed.
  Lemma squarings_balanced n p j : forall Fl, balanced o n p (get o Fl) -> balanced o n p (get o (squarings o n Fl j)).
  Proof.
    induction j as [|j IH]; intros Fl H; cbn [squarings]; [exact H|].
    apply IH. eapply (balanced_ext (o:=o)); [apply (meq_sym (lmul_get n Fl Fl))|].
    apply (balanced_mul L); auto. unfold commute. apply meq_refl.
  Qed.
  Lemma squarings_identity n j : forall Fl, meq n (get o Fl) (mI o) -> meq n (get o (squarings o n Fl j)) (mI o).
  Proof.
    induction j as [|j IH]; intros Fl H; cbn [squarings]; [exact H|].
    apply IH. eapply meq_trans; [apply lmul_get|].
    eapply meq_trans; [apply mmul_ext; [exact H|exact H]|]. apply (mmul_I_l L).
  Qed.

  (** scaling and squaring around a Taylor core: still row-stochastic, π-preserving,
      reversible, and the identity at length zero — for every s and every number of terms *)
  Theorem expm_ss_row_stochastic n Al s terms :
    rate_rows_zero o n (get o Al) -> row_stochastic o n (get o (expm_ss o n Al s terms)).
  Proof.
    intros H0. apply (rows_rfix L). unfold expm_ss. apply squarings_rfix.
    apply (rows_rfix L). apply taylor_row_stochastic.
    intros i Hi. rewrite (@sumn_ext R o n _ (fun j => (1 / pow2 o s) * get o Al i j)).
    - rewrite (sumn_mul_l L n (1 / pow2 o s) (fun j => get o Al i j)), (H0 i Hi). ring.
    - intros j Hj. now rewrite (lscale_get n _ Al i j Hi Hj).
  Qed.

  Theorem expm_ss_preserves n p Al s terms :
    stationary o n p (get o Al) -> preserves o n p (get o (expm_ss o n Al s terms)).
  Proof.
    intros H0. apply preserves_lfix. unfold expm_ss. apply squarings_lfix.
    apply preserves_lfix. apply taylor_preserves.
    intros j Hj. rewrite (@sumn_ext R o n _ (fun i => (1 / pow2 o s) * (p i * get o Al i j))).
    - rewrite (sumn_mul_l L n (1 / pow2 o s) (fun i => p i * get o Al i j)), (H0 j Hj). ring.
    - intros i Hi. rewrite (lscale_get n _ Al i j Hi Hj). unfold mscale. ring.
  Qed.

  Theorem expm_ss_reversible n p Al s terms :
    reversible o n p (get o Al) -> reversible o n p (get o (expm_ss o n Al s terms)).
  Proof.
    intros HB. unfold expm_ss. apply squarings_balanced. apply taylor_reversible.
    eapply (balanced_ext (o:=o)); [apply (meq_sym (lscale_get n _ Al))|]. now apply (balanced_scale L).
  Qed.

  (* ---------------------------------------------------------------- Padé *)
  Definition pade_step_s (q : nat) (a : R) (k : nat) (st : R * R * R * R) : R * R * R * R :=
    let '(c, x, nn, dd) := st in
    let c' := c * nat_f o (q - k + 1) / (nat_f o k * nat_f o (2 * q - k + 1)) in
    let x' := a * x in
    (c', x', nn + c' * x', if Nat.even k then dd + c' * x' else dd + fopp o 1 * (c' * x')).
  Fixpoint pade_loop_s (q : nat) (a : R) (steps k : nat) (st : R * R * R * R) :=
    match steps with O => st | S s => pade_loop_s q a s (S k) (pade_step_s q a k st) end.

  Definition pade_inv n A a (stl : R * lmat R * lmat R * lmat R) (sts : R * R * R * R) : Prop :=
    let '(c, X, N, D) := stl in let '(c', x, nn, dd) := sts in
    c = c' /\ polyev o n A a (get o X) x /\ polyev o n A a (get o N) nn /\ polyev o n A a (get o D) dd.

  Lemma pade_loop_inv n q Al a steps : forall k stl sts,
    pade_inv n (get o Al) a stl sts ->
    pade_inv n (get o Al) a (pade_loop o n q Al steps k stl) (pade_loop_s q a steps k sts).
  Proof.
    induction steps as [|s IH]; intros k stl sts H; cbn [pade_loop pade_loop_s]; [exact H|].
    apply IH. destruct stl as [[[c X] N] D]. destruct sts as [[[c' x] nn] dd].
    destruct H as (Hc & HX & HN & HD). subst c'. unfold pade_step, pade_step_s.
    assert (HX' : polyev o n (get o Al) a (get o (lmul o n Al X)) (a * x)) by (apply pe_lmul; [apply pe_A|exact HX]).
    repeat split.
    - exact HX'.
    - apply pe_ladd; [exact HN|]. now apply pe_lscale.
    - destruct (Nat.even k).
      + apply pe_ladd; [exact HD|]. now apply pe_lscale.
      + apply pe_lsub; [exact HD|]. now apply pe_lscale.
  Qed.

  Definition pade_ND_s (q : nat) (a : R) : R * R :=
    let c := 1 / (1 + 1) in
    let '(_, _, nn, dd) := pade_loop_s q a (q - 1) 2 (c, a, 1 + c * a, 1 + fopp o 1 * (c * a)) in (nn, dd).

  (** numerator and denominator of the Padé approximant are polynomials in A *)
  Theorem pade_polyev n q Al a :
    polyev o n (get o Al) a (get o (fst (pade_ND o n q Al))) (fst (pade_ND_s q a)) /\
    polyev o n (get o Al) a (get o (snd (pade_ND o n q Al))) (snd (pade_ND_s q a)).
  Proof.
    unfold pade_ND, pade_ND_s.
    set (c := 1 / (1 + 1)).
    assert (H0 : pade_inv n (get o Al) a
                   (c, Al, ladd o n (lI o n) (lscale o n c Al), lsub o n (lI o n) (lscale o n c Al))
                   (c, a, 1 + c * a, 1 + fopp o 1 * (c * a))).
    { repeat split.
      - apply pe_A.
      - apply pe_ladd; [apply pe_lI|apply pe_lscale, pe_A].
      - apply pe_lsub; [apply pe_lI|apply pe_lscale, pe_A]. }
    generalize (@pade_loop_inv n q Al a (q - 1) 2 _ _ H0).
    destruct (pade_loop o n q Al (q - 1) 2 _) as [[[c1 X1] N1] D1].
    destruct (pade_loop_s q a (q - 1) 2 _) as [[[c2 x2] n2] d2].
    cbn [fst snd]. intros (_ & _ & HN & HD). now split.
  Qed.

  Lemma pade_loop_s_zero q steps : forall k c x nn dd,
    x = 0 -> exists c' , pade_loop_s q 0 steps k (c, x, nn, dd) = (c', 0, nn, dd).
  Proof.
    induction steps as [|s IH]; intros k c x nn dd Hx; cbn [pade_loop_s].
    - subst x. now exists c.
    - unfold pade_step_s. subst x.
      replace (0 * 0) with 0 by ring.
      set (c' := c * nat_f o (q - k + 1) / (nat_f o k * nat_f o (2 * q - k + 1))).
      replace (nn + c' * 0) with nn by ring.
      replace (if Nat.even k then dd + c' * 0 else dd + fopp o 1 * (c' * 0)) with dd
        by (destruct (Nat.even k); ring).
      now apply IH.
  Qed.

  Lemma pade_ND_s_zero q : pade_ND_s q 0 = (1, 1).
  Proof.
    unfold pade_ND_s.
    destruct (@pade_loop_s_zero q (q - 1) 2 (1 / (1 + 1)) 0 (1 + 1 / (1 + 1) * 0) (1 + fopp o 1 * (1 / (1 + 1) * 0)) eq_refl)
      as [c' E].
    rewrite E. f_equal; ring.
  Qed.

  (** Padé: whatever the order q and the number of squarings j, if the linear
      solve returned F with D·F = N and D is invertible, the result is
      row-stochastic when the rows of A sum to zero ... *)
  Theorem pade_row_stochastic n q j Al Fl Dinv :
    rate_rows_zero o n (get o Al) ->
    meq n (mmul o n Dinv (get o (snd (pade_ND o n q Al)))) (mI o) ->
    meq n (mmul o n (get o (snd (pade_ND o n q Al))) (get o Fl)) (get o (fst (pade_ND o n q Al))) ->
    row_stochastic o n (get o (squarings o n Fl j)).
  Proof.
    intros H0 Hinv HDF. apply (rows_rfix L). apply squarings_rfix.
    destruct (pade_polyev n q Al 0) as [HN HD]. rewrite pade_ND_s_zero in HN, HD. cbn [fst snd] in HN, HD.
    assert (HA : rfix o n (get o Al) (fun _ => 1) 0) by now apply (rows_rfix L).
    eapply (solve_rfix L Hinv HDF).
    - eapply (polyev_rfix L); eauto.
    - eapply (polyev_rfix L); eauto.
    - reflexivity.
  Qed.

  (** ... and preserves π when πA = 0 *)
  Theorem pade_preserves n q j p Al Fl Dinv :
    stationary o n p (get o Al) ->
    meq n (mmul o n Dinv (get o (snd (pade_ND o n q Al)))) (mI o) ->
    meq n (mmul o n (get o (snd (pade_ND o n q Al))) Dinv) (mI o) ->
    meq n (mmul o n (get o (snd (pade_ND o n q Al))) (get o Fl)) (get o (fst (pade_ND o n q Al))) ->
    preserves o n p (get o (squarings o n Fl j)).
  Proof.
    intros H0 Hinv Hinv' HDF. apply preserves_lfix. apply squarings_lfix.
    destruct (pade_polyev n q Al 0) as [HN HD]. rewrite pade_ND_s_zero in HN, HD. cbn [fst snd] in HN, HD.
    assert (HA : lfix o n p (get o Al) 0) by now apply stationary_lfix.
    eapply (solve_lfix L Hinv Hinv' HDF).
    - eapply (polyev_lfix L); eauto.
    - eapply (polyev_lfix L); eauto.
    - reflexivity.
  Qed.

  (** Padé at length zero (norm 0 gives q = 1, j = 0 in the code): D = N = I, so F = I *)
  Theorem pade_zero_identity n Ql Fl :
    meq n (mmul o n (get o (snd (pade_ND o n 1 (lscale o n 0 Ql)))) (get o Fl))
          (get o (fst (pade_ND o n 1 (lscale o n 0 Ql)))) ->
    is_identity o n (get o Fl).
  Proof.
    cbn [pade_ND pade_loop Nat.sub fst snd]. intros H.
    assert (Z : meq n (get o (lscale o n (1 / (1 + 1)) (lscale o n 0 Ql))) (mzero o)).
    { intros i j Hi Hj. rewrite (lscale_get n _ _ i j Hi Hj). unfold mscale.
      rewrite (lscale_get n _ _ i j Hi Hj). unfold mscale, mzero. ring. }
    assert (HN : meq n (get o (ladd o n (lI o n) (lscale o n (1 / (1 + 1)) (lscale o n 0 Ql)))) (mI o)).
    { intros i j Hi Hj. rewrite (ladd_get n _ _ i j Hi Hj). unfold madd.
      rewrite (Z i j Hi Hj), (lI_get n i j Hi Hj). unfold mzero. ring. }
    assert (HD : meq n (get o (lsub o n (lI o n) (lscale o n (1 / (1 + 1)) (lscale o n 0 Ql)))) (mI o)).
    { intros i j Hi Hj. rewrite (lsub_get n _ _ i j Hi Hj). unfold madd, mopp.
      rewrite (Z i j Hi Hj), (lI_get n i j Hi Hj). unfold mzero. ring. }
    intros i j Hi Hj.
    assert (E : meq n (get o Fl) (mI o)).
    { eapply meq_trans; [apply (meq_sym (mmul_I_l L (n:=n) (get o Fl)))|].
      eapply meq_trans; [apply mmul_ext; [apply (meq_sym HD)|apply meq_refl]|].
      eapply meq_trans; [exact H|exact HN]. }
    exact (E i j Hi Hj).
  Qed.

  (* ---------------------------------------------------------------- eigen form *)
  (** P(s)·P(t) = P(s+t) for the eigen-decomposition form whenever evIᵀ·evT = I
      and the scalar function is multiplicative — exact Chapman–Kolmogorov *)
  Theorem eigen_semigroup n (evT evI : fmat R) (ea eb eab : nat -> R) :
    (forall k m, (k < n)%nat -> (m < n)%nat ->
       sum n (fun l => evI l k * evT l m) = if Nat.eqb k m then 1 else 0) ->
    (forall k, (k < n)%nat -> eab k = ea k * eb k) ->
    meq n (mmul o n (eigen_P o n evT evI ea) (eigen_P o n evT evI eb)) (eigen_P o n evT evI eab).
  Proof.
    intros HWU Hexp i j Hi Hj. unfold mmul, eigen_P.
    (* Σ_l (Σ_k U_ik a_k W_lk)(Σ_m U_lm b_m W_jm) *)
    rewrite (@sumn_ext R o n _
               (fun l => sum n (fun k => sum n (fun m => evT i k * ea k * eb m * evI j m * (evI l k * evT l m))))).
    2:{ intros l Hl. rewrite <- (sumn_mul_r L). apply (sumn_ext o); intros k Hk.
        rewrite <- (sumn_mul_l L). apply (sumn_ext o); intros m Hm. ring. }
    rewrite (sumn_swap L).
    apply (sumn_ext o); intros k Hk.
    rewrite (sumn_swap L).
    rewrite (@sumn_ext R o n _ (fun m => if Nat.eqb m k then evT i k * ea k * eb m * evI j m else 0)).
    - rewrite (sumn_delta L (fun m => evT i k * ea k * eb m * evI j m) Hk). rewrite (Hexp k Hk). ring.
    - intros m Hm. rewrite (sumn_mul_l L), (HWU k m Hk Hm). rewrite (Nat.eqb_sym m k).
      destruct (Nat.eqb k m); ring.
  Qed.

  (** eigen form at length zero: exp(0·λ) = 1 and evT·evIᵀ = I give the identity *)
  Theorem eigen_zero_identity n (evT evI : fmat R) (e : nat -> R) :
    (forall i j, (i < n)%nat -> (j < n)%nat ->
       sum n (fun k => evT i k * evI j k) = if Nat.eqb i j then 1 else 0) ->
    (forall k, (k < n)%nat -> e k = 1) ->
    is_identity o n (eigen_P o n evT evI e).
  Proof.
    intros HUW He i j Hi Hj. unfold eigen_P. rewrite <- (HUW i j Hi Hj).
    apply (sumn_ext o); intros k Hk. rewrite (He k Hk). ring.
  Qed.

  (* ================================================================ rate classes *)
  Lemma suml_scale (l : list (R * R)) s :
    suml o (map (fun wv => fst wv * (snd wv / s)) l) = suml o (map (fun wv => fst wv * snd wv) l) / s.
  Proof. induction l as [|x l IH]; cbn; [unfold fdiv; ring|]. rewrite IH. unfold fdiv. ring. Qed.

  Lemma combine_map_r (f : R -> R) (w v : list R) :
    combine w (map f v) = map (fun wv => (fst wv, f (snd wv))) (combine w v).
  Proof.
    revert v; induction w as [|a w IH]; intros [|b v]; cbn; try reflexivity. now rewrite IH.
  Qed.

  (** Σ_b w_b · rate_b = 1 for WeightedPartitionDefn (and hence MonotonicDefn) *)
  Theorem weighted_partition_mean_one (w v : list R) :
    suml o (map (fun wv => fst wv * snd wv) (combine w v)) <> 0 ->
    suml o (map (fun wr => fst wr * snd wr) (combine w (weighted_partition o w v))) = 1.
  Proof.
    intros Hs. unfold weighted_partition.
    set (s := suml o (map (fun wv => fst wv * snd wv) (combine w v))) in *.
    rewrite combine_map_r, map_map. cbn [fst snd].
    rewrite (suml_scale (combine w v) s). fold s. now apply fdiv_self.
  Qed.

  Theorem monotonic_mean_one (w inc : list R) :
    suml o (map (fun wv => fst wv * snd wv) (combine w (accumulate o 0 inc))) <> 0 ->
    suml o (map (fun wr => fst wr * snd wr) (combine w (monotonic o w inc))) = 1.
  Proof. apply weighted_partition_mean_one. Qed.

  Lemma suml_combine_comm (a b : list R) :
    suml o (map (fun wv => fst wv * snd wv) (combine a b)) = suml o (map (fun wv => fst wv * snd wv) (combine b a)).
  Proof.
    revert b; induction a as [|x a IH]; intros [|y b]; cbn; try reflexivity. rewrite IH. ring.
  Qed.

  (** GammaDefn: the scaled medians average to one under the normalised bin weights *)
  Theorem gamma_mean_one (w med : list R) :
    let w' := map (fun x => x / suml o w) w in
    suml o (map (fun mw => fst mw * snd mw) (combine med w')) <> 0 ->
    suml o (map (fun wr => fst wr * snd wr) (combine w' (gamma_rates o w med))) = 1.
  Proof.
    intros w' Hs. unfold gamma_rates. fold w'.
    set (s := suml o (map (fun mw => fst mw * snd mw) (combine med w'))) in *.
    rewrite combine_map_r, map_map. cbn [fst snd].
    rewrite (suml_scale (combine w' med) s).
    assert (E : suml o (map (fun wv => fst wv * snd wv) (combine w' med)) = s).
    { unfold s. apply suml_combine_comm. }
    rewrite E. now apply fdiv_self.
  Qed.

  (** branch length = expected substitutions: with calibrated Q and mean-one
      rate classes the expected rate of the mixture Σ_b w_b·rate_b·(−Σπ_i Q_ii)·t is t *)
  Theorem mixture_expected_rate n p Q (w r : list R) t :
    calibrated o n p Q ->
    suml o (map (fun wr => fst wr * snd wr) (combine w r)) = 1 ->
    suml o (map (fun wr => fst wr * (snd wr * t * fopp o (sum n (fun i => p i * Q i i)))) (combine w r)) = t.
  Proof.
    intros HC HM. unfold calibrated in HC. rewrite HC.
    transitivity (suml o (map (fun wr => fst wr * snd wr) (combine w r)) * t).
    - clear HM HC. induction (combine w r) as [|x l IH]; cbn; [ring|]. rewrite IH. ring.
    - rewrite HM. ring.
  Qed.

  (* ================================================================ words, masks, motif-probability models *)

  Lemma diff_pos_sym x : forall y k, diff_pos k x y = diff_pos k y x.
  Proof.
    induction x as [|a x IH]; intros [|b y] k; cbn; try reflexivity.
    rewrite (Nat.eqb_sym b a). destruct (Nat.eqb a b); now rewrite IH.
  Qed.

  Lemma diff_pos_ge x : forall y k d, In d (diff_pos k x y) -> (k <= d)%nat.
  Proof.
    induction x as [|a x IH]; intros [|b y] k d; cbn; try tauto.
    destruct (Nat.eqb a b).
    - intros H. apply IH in H. lia.
    - intros [H|H]; [lia|]. apply IH in H. lia.
  Qed.

  Lemma diff_pos_nil x : forall y k, length x = length y -> diff_pos k x y = [] -> x = y.
  Proof.
    induction x as [|a x IH]; intros [|b y] k Hl; cbn in *; try discriminate; try reflexivity.
    destruct (Nat.eqb a b) eqn:E; [|discriminate].
    apply Nat.eqb_eq in E; subst b. intros H. f_equal. eapply IH; eauto.
  Qed.

  Lemma diff_pos_refl x : forall k, diff_pos k x x = [].
  Proof. induction x as [|a x IH]; intros k; cbn; [reflexivity|]. now rewrite Nat.eqb_refl. Qed.

  (** words differing at exactly one position [d]: same context at [d] *)
  Lemma diff_one_remove x : forall y k d, length x = length y -> diff_pos k x y = [d] ->
    remove_at (d - k) x = remove_at (d - k) y.
  Proof.
    induction x as [|a x IH]; intros [|b y] k d Hl; cbn in *; try discriminate.
    destruct (Nat.eqb a b) eqn:E.
    - apply Nat.eqb_eq in E; subst b. intros H.
      assert (Hd : (S k <= d)%nat) by (eapply diff_pos_ge; rewrite H; now left).
      replace (d - k)%nat with (S (d - S k)) by lia. cbn. f_equal. eapply IH; eauto.
    - intros H. injection H as Hk H. subst d. rewrite Nat.sub_diag. cbn.
      eapply diff_pos_nil; eauto.
  Qed.

  (** ... and the products over positions differ by exactly the two monomers at [d] *)
  Lemma diff_one_prod (f : nat -> R) x : forall y k d, length x = length y -> diff_pos k x y = [d] ->
    prodl o (map f x) * f (nth (d - k) y 0%nat) = prodl o (map f y) * f (nth (d - k) x 0%nat).
  Proof.
    induction x as [|a x IH]; intros [|b y] k d Hl; cbn [diff_pos]; try discriminate.
    cbn in Hl. destruct (Nat.eqb a b) eqn:E.
    - apply Nat.eqb_eq in E; subst b. intros H.
      assert (Hd : (S k <= d)%nat) by (eapply diff_pos_ge; rewrite H; now left).
      replace (d - k)%nat with (S (d - S k)) by lia. cbn [nth map prodl].
      assert (IH' := IH y (S k) d (eq_add_S _ _ Hl) H).
      transitivity (f a * (prodl o (map f x) * f (nth (d - S k) y 0%nat))); [ring|].
      rewrite IH'. ring.
    - intros H. injection H as Hk H. subst d. rewrite Nat.sub_diag. cbn [nth map prodl].
      rewrite (@diff_pos_nil x y (S k) (eq_add_S _ _ Hl) H). ring.
  Qed.

  Lemma bget_inst_mask words i j : (i < length words)%nat -> (j < length words)%nat ->
    bget (inst_mask words) i j = is_instantaneous (word words i) (word words j).
  Proof.
    intros Hi Hj. unfold bget, inst_mask, word.
    rewrite (nth_indep _ [] (map (fun y => is_instantaneous [] y) words)) by (now rewrite map_length).
    rewrite (map_nth (fun x => map (fun y => is_instantaneous x y) words) words [] i).
    rewrite (nth_indep _ false (is_instantaneous (nth i words []) [])) by (now rewrite map_length).
    now rewrite (map_nth (fun y => is_instantaneous (nth i words []) y) words [] j).
  Qed.

  Lemma is_instantaneous_sym x y : is_instantaneous x y = is_instantaneous y x.
  Proof. unfold is_instantaneous. now rewrite diff_pos_sym. Qed.

  Lemma is_instantaneous_irrefl x : is_instantaneous x x = false.
  Proof. unfold is_instantaneous. now rewrite diff_pos_refl. Qed.

  Lemma is_instantaneous_one x y : is_instantaneous x y = true -> exists d, diff_pos 0 x y = [d].
  Proof.
    unfold is_instantaneous. destruct (diff_pos 0 x y) as [|d [|e l]]; try discriminate. now exists d.
  Qed.

  Definition same_length (len : nat) (words : list (list nat)) : Prop :=
    forall i, (i < length words)%nat -> length (word words i) = len.

  Lemma vget_map (f : R -> R) (l : list R) i : (i < length l)%nat -> vget o (map f l) i = f (vget o l i).
  Proof.
    intros Hi. unfold vget. rewrite (nth_indep _ 0 (f 0)) by (now rewrite map_length). apply map_nth.
  Qed.

  Lemma vget_monomer_word_probs words mon i : (i < length words)%nat ->
    vget o (monomer_word_probs o words mon) i
    = prodl o (map (vget o mon) (word words i))
      / suml o (map (fun w => prodl o (map (vget o mon) w)) words).
  Proof.
    intros Hi. unfold monomer_word_probs. rewrite vget_map by (now rewrite map_length). f_equal.
    unfold vget, word.
    rewrite (nth_indep _ 0 (prodl o (map (vget o mon) []))) by (now rewrite map_length).
    apply (map_nth (fun w => prodl o (map (vget o mon) w)) words [] i).
  Qed.

  (** MonomerProbModel: word probabilities × weight matrix is symmetric
      (π_i · M_ij = π_j · M_ji), whatever the monomer probabilities *)
  Theorem monomer_balanced len words mon :
    same_length len words ->
    balanced o (length words) (vget o (monomer_word_probs o words mon))
             (get o (mpm_monomer o (length words) words (inst_mask words) mon)).
  Proof.
    intros HL i j Hi Hj. unfold mpm_monomer.
    rewrite !(get_mk o) by assumption. unfold mutant_motif.
    rewrite (@bget_inst_mask words i j Hi Hj), (@bget_inst_mask words j i Hj Hi).
    rewrite (is_instantaneous_sym (word words j) (word words i)).
    destruct (is_instantaneous (word words i) (word words j)) eqn:E; [|ring].
    destruct (is_instantaneous_one _ _ E) as [d Hd].
    rewrite (diff_pos_sym (word words j) (word words i)), Hd.
    rewrite !vget_monomer_word_probs by assumption.
    assert (Hlen : length (word words i) = length (word words j)) by (now rewrite !HL).
    assert (P := @diff_one_prod (vget o mon) (word words i) (word words j) 0 d Hlen Hd).
    rewrite Nat.sub_0_r in P. unfold fdiv.
    set (T := finv o (suml o (map (fun w => prodl o (map (vget o mon) w)) words))).
    transitivity (prodl o (map (vget o mon) (word words i)) * vget o mon (nth d (word words j) 0%nat) * T); [ring|].
    rewrite P. ring.
  Qed.

  (** ConditionalMotifProbModel: π_i · M_ij = π_j · M_ji because a word and its
      one-step mutant share the context they are conditioned on *)
  Theorem conditional_balanced (is_zero : R -> bool) k len words wpl :
    same_length len words ->
    balanced o (length words) (vget o wpl)
             (get o (mpm_conditional o is_zero (length words) k len words (inst_mask words) wpl)).
  Proof.
    intros HL i j Hi Hj. unfold mpm_conditional.
    rewrite !(get_mk o) by assumption. cbv zeta.
    assert (CI : context_index k len words (inst_mask words) i j = context_index k len words (inst_mask words) j i).
    { unfold context_index.
      rewrite (@bget_inst_mask words i j Hi Hj), (@bget_inst_mask words j i Hj Hi).
      rewrite (is_instantaneous_sym (word words j) (word words i)).
      destruct (is_instantaneous (word words i) (word words j)) eqn:E; [|reflexivity].
      destruct (is_instantaneous_one _ _ E) as [d Hd].
      rewrite (diff_pos_sym (word words j) (word words i)), Hd.
      assert (Hlen : length (word words i) = length (word words j)) by (now rewrite !HL).
      assert (P := @diff_one_remove (word words i) (word words j) 0 d Hlen Hd).
      rewrite Nat.sub_0_r in P. unfold ctx_index, ctx_code. now rewrite P. }
    rewrite CI.
    destruct (is_zero (context_prob o k len words wpl (context_index k len words (inst_mask words) j i))); [ring|].
    unfold fdiv. ring.
  Qed.

  (* ---------------------------------------------------------------- normalisation, position-specific monomer model *)
  Lemma suml_map_div (l : list R) t : suml o (map (fun x => x / t) l) = suml o l / t.
  Proof. induction l as [|x l IH]; cbn; [unfold fdiv; ring|]. rewrite IH. unfold fdiv. ring. Qed.

  (** a normalised vector sums to one *)
  Theorem normalise_sum_one (raw : list R) : suml o raw <> 0 -> suml o (normalise o raw) = 1.
  Proof. intros H. unfold normalise. rewrite suml_map_div. now apply fdiv_self. Qed.

  (** word probabilities of the monomer / position-specific monomer models sum to one over the
      model's OWN states (sense codons, motif subsets), whatever the monomer probabilities *)
  Theorem monomer_word_probs_sum_one words mon :
    suml o (map (fun w => prodl o (map (vget o mon) w)) words) <> 0 ->
    suml o (monomer_word_probs o words mon) = 1.
  Proof. intros H. unfold monomer_word_probs. rewrite suml_map_div. now apply fdiv_self. Qed.

  Theorem posn_word_probs_sum_one words mons :
    suml o (map (prod_pos o mons) words) <> 0 -> suml o (posn_word_probs o words mons) = 1.
  Proof. apply normalise_sum_one. Qed.

  Lemma diff_one_prod_pos ms : forall x y k d, length x = length y -> diff_pos k x y = [d] ->
    prod_pos o ms x * vget o (nth (d - k) ms []) (nth (d - k) y 0%nat)
    = prod_pos o ms y * vget o (nth (d - k) ms []) (nth (d - k) x 0%nat).
  Proof.
    induction ms as [|m ms IH]; intros x y k d Hl Hd.
    - assert (E : forall z, vget o (nth (d - k) (@nil (list R)) []) z = 0)
        by (intros z; unfold vget; destruct (d - k)%nat; destruct z; reflexivity).
      cbn [prod_pos]. rewrite !E. ring.
    - destruct x as [|a x], y as [|b y]; cbn [diff_pos] in Hd; try discriminate.
      cbn in Hl. destruct (Nat.eqb a b) eqn:E.
      + apply Nat.eqb_eq in E; subst b.
        assert (Hge : (S k <= d)%nat) by (eapply diff_pos_ge; rewrite Hd; now left).
        replace (d - k)%nat with (S (d - S k)) by lia. cbn [nth prod_pos].
        assert (IH' := IH x y (S k) d (eq_add_S _ _ Hl) Hd).
        transitivity (vget o m a * (prod_pos o ms x * vget o (nth (d - S k) ms []) (nth (d - S k) y 0%nat))); [ring|].
        rewrite IH'. ring.
      + injection Hd as Hk Hd. subst d. rewrite Nat.sub_diag. cbn [nth prod_pos].
        rewrite (@diff_pos_nil x y (S k) (eq_add_S _ _ Hl) Hd). ring.
  Qed.

  Lemma vget_posn_word_probs words mons i : (i < length words)%nat ->
    vget o (posn_word_probs o words mons) i
    = prod_pos o mons (word words i) / suml o (map (prod_pos o mons) words).
  Proof.
    intros Hi. unfold posn_word_probs, normalise. rewrite vget_map by (now rewrite map_length). f_equal.
    unfold vget, word.
    rewrite (nth_indep _ 0 (prod_pos o mons [])) by (now rewrite map_length).
    apply (map_nth (prod_pos o mons) words [] i).
  Qed.

  (** PosnSpecificMonomerProbModel: π_i · M_ij = π_j · M_ji *)
  Theorem posn_balanced len words mons :
    same_length len words ->
    balanced o (length words) (vget o (posn_word_probs o words mons))
             (get o (mpm_posn o (length words) words (inst_mask words) mons)).
  Proof.
    intros HL i j Hi Hj. unfold mpm_posn.
    rewrite !(get_mk o) by assumption. unfold mutant_motif, mutated_posn.
    rewrite (@bget_inst_mask words i j Hi Hj), (@bget_inst_mask words j i Hj Hi).
    rewrite (is_instantaneous_sym (word words j) (word words i)).
    destruct (is_instantaneous (word words i) (word words j)) eqn:E; [|ring].
    destruct (is_instantaneous_one _ _ E) as [d Hd].
    rewrite (diff_pos_sym (word words j) (word words i)), Hd.
    rewrite !vget_posn_word_probs by assumption.
    assert (Hlen : length (word words i) = length (word words j)) by (now rewrite !HL).
    assert (P := @diff_one_prod_pos mons (word words i) (word words j) 0 d Hlen Hd).
    rewrite Nat.sub_0_r in P. unfold fdiv.
    set (T := finv o (suml o (map (prod_pos o mons) words))).
    transitivity (prod_pos o mons (word words i) * vget o (nth d mons []) (nth d (word words j) 0%nat) * T); [ring|].
    rewrite P. ring.
  Qed.

  (* ---------------------------------------------------------------- exchangeabilities *)
  Definition mask_sym (n : nat) (m : bmask) : Prop :=
    forall i j, (i < n)%nat -> (j < n)%nat -> bget m i j = bget m j i.

  Lemma exchangeability_fold_sym n preds : forall Rl,
    Forall (fun mp => mask_sym n (fst mp)) preds ->
    (forall i j, (i < n)%nat -> (j < n)%nat -> get o Rl i j = get o Rl j i) ->
    forall i j, (i < n)%nat -> (j < n)%nat ->
      get o (fold_left (fun (X : lmat R) (mp : bmask * R) => apply_pred o n X (fst mp) (snd mp)) preds Rl) i j
      = get o (fold_left (fun (X : lmat R) (mp : bmask * R) => apply_pred o n X (fst mp) (snd mp)) preds Rl) j i.
  Proof.
    induction preds as [|mp preds IH]; intros Rl HF HS; cbn [fold_left]; [exact HS|].
    inversion HF as [|? ? Hm HF']; subst. apply IH; [exact HF'|].
    intros i j Hi Hj. unfold apply_pred. rewrite !(get_mk o) by assumption.
    rewrite (Hm i j Hi Hj), (HS i j Hi Hj). reflexivity.
  Qed.

  (** symmetric masks give a symmetric exchangeability matrix (TimeReversible models) *)
  Theorem exchangeability_symmetric n inst preds :
    mask_sym n inst -> Forall (fun mp => mask_sym n (fst mp)) preds ->
    forall i j, (i < n)%nat -> (j < n)%nat ->
      get o (exchangeability o n inst preds) i j = get o (exchangeability o n inst preds) j i.
  Proof.
    intros HI HF. unfold exchangeability. apply exchangeability_fold_sym; [exact HF|].
    intros i j Hi Hj. unfold mask_f. rewrite !(get_mk o) by assumption. now rewrite (HI i j Hi Hj).
  Qed.

  Lemma exchangeability_fold_diag n preds : forall Rl,
    (forall i, (i < n)%nat -> get o Rl i i = 0) ->
    forall i, (i < n)%nat ->
      get o (fold_left (fun (X : lmat R) (mp : bmask * R) => apply_pred o n X (fst mp) (snd mp)) preds Rl) i i = 0.
  Proof.
    induction preds as [|mp preds IH]; intros Rl HS; cbn [fold_left]; [exact HS|].
    apply IH. intros i Hi. unfold apply_pred. rewrite (get_mk o) by assumption.
    rewrite (HS i Hi). destruct (bget (fst mp) i i); ring.
  Qed.

  (** the diagonal of the exchangeability matrix is zero when no state is
      "instantaneously" its own neighbour *)
  Theorem exchangeability_diag_zero n inst preds :
    (forall i, (i < n)%nat -> bget inst i i = false) ->
    forall i, (i < n)%nat -> get o (exchangeability o n inst preds) i i = 0.
  Proof.
    intros HI. unfold exchangeability. apply exchangeability_fold_diag.
    intros i Hi. unfold mask_f. rewrite (get_mk o) by assumption. now rewrite (HI i Hi).
  Qed.

  Lemma inst_mask_sym words : mask_sym (length words) (inst_mask words).
  Proof.
    intros i j Hi Hj. rewrite !bget_inst_mask by assumption. apply is_instantaneous_sym.
  Qed.
  Lemma inst_mask_diag words i : (i < length words)%nat -> bget (inst_mask words) i i = false.
  Proof. intros Hi. rewrite bget_inst_mask by assumption. apply is_instantaneous_irrefl. Qed.

  Lemma hadamard_diag0 n A B : (forall i, (i < n)%nat -> A i i = 0) ->
    forall i, (i < n)%nat -> hadamard o A B i i = 0.
  Proof. intros H i Hi. unfold hadamard. rewrite (H i Hi). ring. Qed.

  (* ================================================================ the assembled models *)
  Lemma rate_rows_zero_ext n A B : meq n A B -> rate_rows_zero o n A -> rate_rows_zero o n B.
  Proof. apply rows_ext. Qed.
  Lemma calibrated_ext n p A B : meq n A B -> calibrated o n p A -> calibrated o n p B.
  Proof.
    intros E H. unfold calibrated in *. rewrite <- H. f_equal.
    apply (sumn_ext o); intros i Hi. now rewrite (E i i Hi Hi).
  Qed.
  Lemma stationary_ext n p A B : meq n A B -> stationary o n p A -> stationary o n p B.
  Proof.
    intros E H j Hj. rewrite <- (H j Hj). apply (sumn_ext o); intros i Hi. now rewrite (E i j Hi Hj).
  Qed.

  (** general (non-stationary) continuous model, [_ContinuousSubstitutionModel.calcQ]:
      a calibrated generator for every parameter vector *)
  Theorem general_model_Q n inst preds wpl :
    (forall i, (i < n)%nat -> bget inst i i = false) ->
    let Rl := exchangeability o n inst preds in
    let Q := get o (calcQ_general o n wpl Rl) in
    rate_rows_zero o n Q /\
    (sum n (fun i => vget o wpl i * row_total o n (get o Rl) i) <> 0 -> calibrated o n (vget o wpl) Q).
  Proof.
    intros HI Rl Q. split.
    - eapply rate_rows_zero_ext; [apply meq_sym, calcQ_general_get|apply calcQ_rows_zero].
    - intros Hs. eapply calibrated_ext; [apply meq_sym, calcQ_general_get|].
      apply calcQ_calibrated; [|exact Hs]. now apply exchangeability_diag_zero.
  Qed.

  (** stationary / time-reversible model, [StationaryQ.calcQ], for any weight
      matrix balanced against the word probabilities *)
  Theorem reversible_model_Q n inst preds wpl mpml :
    (forall i, (i < n)%nat -> bget inst i i = false) ->
    mask_sym n inst -> Forall (fun mp => mask_sym n (fst mp)) preds ->
    balanced o n (vget o wpl) (get o mpml) ->
    let Rl := exchangeability o n inst preds in
    let Q := get o (calcQ_stationary o n wpl mpml Rl) in
    rate_rows_zero o n Q /\ reversible o n (vget o wpl) Q /\ stationary o n (vget o wpl) Q /\
    (sum n (fun i => vget o wpl i * row_total o n (hadamard o (get o Rl) (get o mpml)) i) <> 0 ->
     calibrated o n (vget o wpl) Q).
  Proof.
    intros HI HS HF HB Rl Q.
    assert (HRs : forall i j, (i < n)%nat -> (j < n)%nat -> get o Rl i j = get o Rl j i)
      by (now apply exchangeability_symmetric).
    assert (HQb : reversible o n (vget o wpl) Q).
    { eapply (balanced_ext (o:=o)); [apply meq_sym, calcQ_stationary_get|].
      apply calcQ_balanced. now apply hadamard_balanced. }
    assert (HQr : rate_rows_zero o n Q).
    { eapply rate_rows_zero_ext; [apply meq_sym, calcQ_stationary_get|apply calcQ_rows_zero]. }
    repeat split; try assumption.
    - now apply balanced_stationary.
    - intros Hs. eapply calibrated_ext; [apply meq_sym, calcQ_stationary_get|].
      apply calcQ_calibrated; [|exact Hs]. apply hadamard_diag0. now apply exchangeability_diag_zero.
  Qed.

  Lemma simple_balanced n wpl : balanced o n (vget o wpl) (get o (mpm_simple o n wpl)).
  Proof.
    intros i j Hi Hj. unfold mpm_simple. rewrite !(get_mk o) by assumption. ring.
  Qed.
  (* ================================================================ discrete-time models *)
  Lemma suml_app (a b : list R) : suml o (a ++ b) = suml o a + suml o b.
  Proof. induction a as [|x a IH]; cbn; [ring|]. rewrite IH. ring. Qed.

  (** the proportions always add up to the total — for every ratio vector (and any fuel) *)
  Theorem ratios_to_proportions_sum fuel : forall total params,
    suml o (ratios_to_proportions o fuel total params) = total.
  Proof.
    induction fuel as [|f IH]; intros total params; cbn [ratios_to_proportions]; [cbn; ring|].
    destruct params as [|r0 rest]; [cbn; ring|].
    cbv zeta. rewrite suml_app, !IH. unfold fsub. ring.
  Qed.

  (** every row of a BH/DT transition matrix sums to one under the code's parameterisation *)
  Theorem psub_row_sums_to_one ratios : suml o (psub_row o ratios) = 1.
  Proof. apply ratios_to_proportions_sum. Qed.

  (* ================================================================ General (non-stationary, one rate per cell) *)
  Lemma take_pick_get n params pick a b : (a < n)%nat -> (b < n)%nat ->
    get o (take_pick o n params pick) a b = nth (nth b (nth a pick []) 0%nat) (0 :: params ++ [1]) 0.
  Proof. intros Ha Hb. unfold take_pick. now rewrite (get_mk o). Qed.

  Lemma lscale_rows_zero n t Ql : rate_rows_zero o n (get o Ql) -> rate_rows_zero o n (get o (lscale o n t Ql)).
  Proof.
    intros H0 i Hi. rewrite (@sumn_ext R o n _ (fun j => t * get o Ql i j)).
    - rewrite (sumn_mul_l L n t (fun j => get o Ql i j)), (H0 i Hi). ring.
    - intros j Hj. now rewrite (lscale_get n t Ql i j Hi Hj).
  Qed.

  (** ns_substitution_model.General: Q = calcQ(take(param_pick)) is a calibrated generator for every
      parameter vector, and every Taylor / scaling-and-squaring transition matrix of it is row-stochastic *)
  Theorem general_pick_model n params pick wpl :
    (forall a, (a < n)%nat -> nth a (nth a pick []) 0%nat = 0%nat) ->
    let Rl := take_pick o n params pick in
    let Ql := calcQ_general o n wpl Rl in
    rate_rows_zero o n (get o Ql) /\
    (sum n (fun i => vget o wpl i * row_total o n (get o Rl) i) <> 0 -> calibrated o n (vget o wpl) (get o Ql)) /\
    (forall t s terms, row_stochastic o n (get o (expm_ss o n (lscale o n t Ql) s terms))).
  Proof.
    intros Hd Rl Ql.
    assert (HR : rate_rows_zero o n (get o Ql)).
    { eapply rate_rows_zero_ext; [apply meq_sym, calcQ_general_get|apply calcQ_rows_zero]. }
    split; [exact HR|split].
    - intros Hs. eapply calibrated_ext; [apply meq_sym, calcQ_general_get|].
      apply calcQ_calibrated; [|exact Hs]. intros a Ha. unfold Rl. rewrite take_pick_get by assumption.
      now rewrite (Hd a Ha).
    - intros t s terms. apply expm_ss_row_stochastic. now apply lscale_rows_zero.
  Qed.

  (* ================================================================ GeneralStationary *)
  Variable neg : R -> bool.
  Variable near0 : R -> bool.
  (** the allclose-to-zero clause never flips a sign (true of exact arithmetic: near0 x -> x = 0) *)
  Hypothesis near0_neg : forall x, near0 x = true -> neg x = false.

  Lemma get_lset n Rl i j (x : R) a b : (a < n)%nat -> (b < n)%nat ->
    get o (lset o n Rl i j x) a b = if Nat.eqb a i && Nat.eqb b j then x else get o Rl a b.
  Proof. intros Ha Hb. unfold lset. now rewrite (get_mk o). Qed.

  Lemma gs_required_ext n mp A B j :
    (forall k, (k < n)%nat -> A j k = B j k) -> (forall k, (k < n)%nat -> A k j = B k j) ->
    gs_required o n mp A j = gs_required o n mp B j.
  Proof.
    intros E1 E2. unfold gs_required.
    rewrite (@sumn_ext R o n (fun k => mp k * A j k) (fun k => mp k * B j k)) by (intros k Hk; now rewrite E1).
    rewrite (@sumn_ext R o n (fun k => mp k * A k j) (fun k => mp k * B k j)) by (intros k Hk; now rewrite E2).
    reflexivity.
  Qed.

  Lemma gs_required_lset n mp Rl m j (x : R) b : (b < n)%nat -> b <> m -> b <> j ->
    gs_required o n mp (get o (lset o n Rl m j x)) b = gs_required o n mp (get o Rl) b.
  Proof.
    intros Hb Hm Hj. apply gs_required_ext; intros k Hk; rewrite get_lset by assumption.
    - apply Nat.eqb_neq in Hm. now rewrite Hm.
    - apply Nat.eqb_neq in Hj. now rewrite Hj, andb_false_r.
  Qed.

  Lemma gs_fold_none n mp lic : fold_left (gs_step o neg near0 n mp) lic None = None.
  Proof. induction lic as [|x l IH]; cbn; [reflexivity|exact IH]. Qed.

  Lemma gs_step_some n mp Rl m j :
    gs_step o neg near0 n mp (Some Rl) (m, j) =
    let req := gs_required o n (vget o mp) (get o Rl) j in
    if neg req then None else Some (lset o n Rl m j (req / vget o mp m)).
  Proof.
    cbn [gs_step fst snd]. cbv zeta.
    set (req := gs_required o n (vget o mp) (get o Rl) j).
    destruct (near0 req) eqn:E; [|reflexivity].
    assert (N := near0_neg E). rewrite !N. reflexivity.
  Qed.

  (** what the loop over last_in_column = [(m, j) | j in js] leaves behind when it does not refuse *)
  Lemma gs_loop_some n mp m js : forall Rl Rf,
    NoDup js -> ~ In m js -> (forall j, In j js -> (j < n)%nat) -> (m < n)%nat ->
    gs_loop o neg near0 n mp (map (pair m) js) Rl = Some Rf ->
    (forall b, In b js -> get o Rf m b = gs_required o n (vget o mp) (get o Rl) b / vget o mp m) /\
    (forall a b, (a < n)%nat -> (b < n)%nat -> ~ (a = m /\ In b js) -> get o Rf a b = get o Rl a b) /\
    (forall b, In b js -> neg (gs_required o n (vget o mp) (get o Rl) b) = false).
  Proof.
    unfold gs_loop. induction js as [|j js IH]; intros Rl Rf ND Hm Hlt Hmn H.
    - cbn in H. injection H as <-. repeat split; intros; try contradiction; reflexivity.
    - cbn [map fold_left] in H. rewrite gs_step_some in H. cbv zeta in H.
      set (req := gs_required o n (vget o mp) (get o Rl) j) in *.
      destruct (neg req) eqn:En; [rewrite gs_fold_none in H; discriminate|].
      set (Rl' := lset o n Rl m j (req / vget o mp m)) in *.
      inversion ND as [|? ? Hnj ND']; subst.
      assert (Hm' : ~ In m js) by (intro; apply Hm; now right).
      assert (Hjm : j <> m) by (intro; apply Hm; now left).
      assert (Hjn : (j < n)%nat) by (apply Hlt; now left).
      destruct (IH Rl' Rf ND' Hm' (fun b Hb => Hlt b (or_intror Hb)) Hmn H) as (I1 & I2 & I3).
      assert (Req : forall b, In b js -> gs_required o n (vget o mp) (get o Rl') b = gs_required o n (vget o mp) (get o Rl) b).
      { intros b Hb. apply gs_required_lset.
        - apply Hlt; now right.
        - intro; subst; contradiction.
        - intro; subst; contradiction. }
      repeat split.
      + intros b [Hb|Hb].
        * subst b. rewrite (I2 m j Hmn Hjn) by (intros [_ Hin]; contradiction).
          unfold Rl'. rewrite get_lset by assumption. now rewrite !Nat.eqb_refl.
        * rewrite (I1 b Hb). now rewrite Req.
      + intros a b Ha Hb Hnot.
        rewrite (I2 a b Ha Hb) by (intros [Ham Hin]; apply Hnot; split; [assumption|now right]).
        unfold Rl'. rewrite get_lset by assumption.
        destruct (Nat.eqb a m) eqn:E1; destruct (Nat.eqb b j) eqn:E2; cbn; try reflexivity.
        apply Nat.eqb_eq in E1, E2. exfalso. apply Hnot. split; [assumption|now left].
      + intros b [Hb|Hb]; [subst b; exact En|]. rewrite <- Req by assumption. now apply I3.
  Qed.

  (** ... and it refuses as soon as the requirement of SOME dependent column is negative *)
  Theorem gs_loop_refuses n mp m js : forall Rl,
    NoDup js -> ~ In m js -> (forall j, In j js -> (j < n)%nat) ->
    (exists b, In b js /\ neg (gs_required o n (vget o mp) (get o Rl) b) = true) ->
    gs_loop o neg near0 n mp (map (pair m) js) Rl = None.
  Proof.
    unfold gs_loop. induction js as [|j js IH]; intros Rl ND Hm Hlt (b & Hb & Hneg); [contradiction|].
    cbn [map fold_left]. rewrite gs_step_some. cbv zeta.
    destruct (neg (gs_required o n (vget o mp) (get o Rl) j)) eqn:En; [apply gs_fold_none|].
    inversion ND as [|? ? Hnj ND']; subst.
    destruct Hb as [Hb|Hb]; [subst b; congruence|].
    apply IH; try assumption.
    - intro; apply Hm; now right.
    - intros x Hx; apply Hlt; now right.
    - exists b. split; [assumption|]. rewrite gs_required_lset; try assumption.
      + apply Hlt; now right.
      + intro; subst; apply Hm; now right.
      + intro; subst; contradiction.
  Qed.

  (** Σ_b π_b (row_b - col_b) = 0 for every matrix *)
  Lemma gs_required_total n mp A : sum n (fun b => mp b * gs_required o n mp A b) = 0.
  Proof.
    unfold gs_required.
    assert (T1 : forall b, mp b * sum n (fun k => mp k * A b k) = sum n (fun k => mp b * mp k * A b k)).
    { intros b. rewrite <- (sumn_mul_l L). apply (sumn_ext o); intros; ring. }
    assert (T2 : forall b, mp b * sum n (fun k => mp k * A k b) = sum n (fun k => mp k * mp b * A k b)).
    { intros b. rewrite <- (sumn_mul_l L). apply (sumn_ext o); intros; ring. }
    rewrite (@sumn_ext R o n _ (fun b => sum n (fun k => mp b * mp k * A b k) + fopp o (sum n (fun k => mp k * mp b * A k b)))).
    2:{ intros b Hb. rewrite <- (T1 b), <- (T2 b). unfold fsub. ring. }
    rewrite (sumn_add L), (sumn_opp L), (sumn_swap L n n (fun b k => mp k * mp b * A k b)).
    ring.
  Qed.

  (** column balance (Σ_i π_i R_ij = Σ_k R_jk π_k for every j) is exactly what makes π stationary
      for StationaryQ.calcQ — no symmetry of R is needed *)
  Theorem column_balance_stationary n wp Rm :
    (forall j, (j < n)%nat -> gs_required o n wp Rm j = 0) ->
    stationary o n wp (calcQ_f o n wp (hadamard o Rm (fun _ j => wp j))).
  Proof.
    intros HB j Hj. unfold calcQ_f.
    set (X := hadamard o Rm (fun _ j0 => wp j0)).
    set (sc := 1 / sum n (fun i => wp i * row_total o n X i)).
    rewrite (@sumn_ext R o n _ (fun i => sc * (wp i * X i j) + (if Nat.eqb i j then fopp o (sc * (wp i * row_total o n X i)) else 0))).
    2:{ intros i Hi. destruct (Nat.eqb i j); unfold fsub; ring. }
    rewrite (sumn_add L), (sumn_mul_l L), (sumn_delta L (fun i => fopp o (sc * (wp i * row_total o n X i))) Hj).
    assert (E : sum n (fun i => wp i * X i j) = wp j * row_total o n X j).
    { unfold X, hadamard, row_total. specialize (HB j Hj). unfold gs_required in HB.
      assert (HB' : sum n (fun k => wp k * Rm k j) = sum n (fun k => wp k * Rm j k)).
      { transitivity (sum n (fun k => wp k * Rm k j) + 0); [ring|]. rewrite <- HB. unfold fsub. ring. }
      rewrite (@sumn_ext R o n _ (fun i => wp j * (wp i * Rm i j))) by (intros; ring).
      rewrite (sumn_mul_l L), HB'. f_equal. apply (sumn_ext o); intros; ring. }
    rewrite E. ring.
  Qed.

  Lemma sumn_split_eq n m (f g : nat -> R) : (m < n)%nat ->
    (forall k, (k < n)%nat -> k <> m -> f k = g k) -> sum n f + g m = sum n g + f m.
  Proof.
    intros Hm H. rewrite (sumn_split L f Hm), (sumn_split L g Hm).
    rewrite (@sumn_ext R o n (fun k => if Nat.eqb k m then 0 else f k) (fun k => if Nat.eqb k m then 0 else g k)).
    - ring.
    - intros k Hk. destruct (Nat.eqb k m) eqn:E; [reflexivity|]. apply Nat.eqb_neq in E. now apply H.
  Qed.

  (** GeneralStationary: when the guard passes for every dependent column, every column is balanced *)
  Theorem gs_column_balance n mp m js Rl Rf :
    NoDup js -> ~ In m js -> (forall j, In j js -> (j < n)%nat) -> (m < n)%nat ->
    (forall b, (b < n)%nat -> b <> m -> In b js) ->
    (forall b, In b js -> get o Rl m b = 0) ->
    vget o mp m <> 0 ->
    gs_loop o neg near0 n mp (map (pair m) js) Rl = Some Rf ->
    forall j, (j < n)%nat -> gs_required o n (vget o mp) (get o Rf) j = 0.
  Proof.
    intros ND Hm Hlt Hmn Hcov H0 Hpm H.
    destruct (gs_loop_some mp Rl ND Hm Hlt Hmn H) as (I1 & I2 & _).
    assert (Bal : forall b, In b js -> gs_required o n (vget o mp) (get o Rf) b = 0).
    { intros b Hb.
      assert (Hbn : (b < n)%nat) by now apply Hlt.
      assert (Hbm : b <> m) by (intro; subst; contradiction).
      unfold gs_required.
      assert (Row : sum n (fun k => vget o mp k * get o Rf b k) = sum n (fun k => vget o mp k * get o Rl b k)).
      { apply (sumn_ext o); intros k Hk. rewrite (I2 b k Hbn Hk) by (intros [E _]; contradiction). reflexivity. }
      assert (Col : sum n (fun k => vget o mp k * get o Rf k b)
                    = sum n (fun k => vget o mp k * get o Rl k b) + vget o mp m * get o Rf m b
                      + fopp o (vget o mp m * get o Rl m b)).
      { assert (C := @sumn_split_eq n m (fun k => vget o mp k * get o Rf k b) (fun k => vget o mp k * get o Rl k b) Hmn).
        cbv beta in C.
        assert (C' := C (fun k Hk Hkm => f_equal (fun z => vget o mp k * z)
                                           (I2 k b Hk Hbn (fun X : k = m /\ In b js => Hkm (proj1 X))))).
        transitivity (sum n (fun k => vget o mp k * get o Rf k b) + vget o mp m * get o Rl m b
                      + fopp o (vget o mp m * get o Rl m b)); [ring|].
        rewrite C'. ring. }
      rewrite Row, Col, (I1 b Hb), (H0 b Hb). unfold gs_required, fsub, fdiv.
      set (ro := sum n (fun k => vget o mp k * get o Rl b k)).
      set (co := sum n (fun k => vget o mp k * get o Rl k b)).
      transitivity (ro + fopp o (co + (ro + fopp o co) * (vget o mp m * finv o (vget o mp m)))); [ring|].
      rewrite (f_mul_inv_r L Hpm). ring. }
    intros j Hj. destruct (Nat.eq_dec j m) as [->|Hjm]; [|apply Bal; now apply Hcov].
    assert (T := gs_required_total n (vget o mp) (get o Rf)).
    rewrite (sumn_split L (fun b => vget o mp b * gs_required o n (vget o mp) (get o Rf) b) Hmn) in T.
    rewrite (@sumn_ext R o n _ (fun _ => 0)) in T.
    - rewrite (sumn_zero L) in T. apply (f_integral L (a := vget o mp m)); [|exact Hpm].
      rewrite <- T. ring.
    - intros k Hk. destruct (Nat.eqb k m) eqn:E; [reflexivity|]. apply Nat.eqb_neq in E.
      rewrite (Bal k (Hcov k Hk E)). ring.
  Qed.

  (** the assembled GeneralStationary model: zero rows, stationarity WITHOUT reversibility, calibration *)
  Theorem general_stationary_model n mp m js Rl Rf :
    NoDup js -> ~ In m js -> (forall j, In j js -> (j < n)%nat) -> (m < n)%nat ->
    (forall b, (b < n)%nat -> b <> m -> In b js) ->
    (forall b, In b js -> get o Rl m b = 0) ->
    (forall a, (a < n)%nat -> get o Rl a a = 0) ->
    vget o mp m <> 0 ->
    gs_loop o neg near0 n mp (map (pair m) js) Rl = Some Rf ->
    let Q := get o (calcQ_stationary o n mp (mpm_simple o n mp) Rf) in
    rate_rows_zero o n Q /\ stationary o n (vget o mp) Q /\
    (sum n (fun i => vget o mp i * row_total o n (hadamard o (get o Rf) (get o (mpm_simple o n mp))) i) <> 0 ->
     calibrated o n (vget o mp) Q).
  Proof.
    intros ND Hm Hlt Hmn Hcov H0 Hd Hpm H Q.
    assert (E : meq n (hadamard o (get o Rf) (get o (mpm_simple o n mp))) (hadamard o (get o Rf) (fun _ j => vget o mp j))).
    { intros a b Ha Hb. unfold hadamard, mpm_simple. now rewrite (get_mk o). }
    assert (EQ : meq n Q (calcQ_f o n (vget o mp) (hadamard o (get o Rf) (fun _ j => vget o mp j)))).
    { eapply meq_trans; [apply calcQ_stationary_get|].
      intros a b Ha Hb. unfold calcQ_f.
      assert (RT : forall k, (k < n)%nat -> row_total o n (hadamard o (get o Rf) (get o (mpm_simple o n mp))) k
                                       = row_total o n (hadamard o (get o Rf) (fun _ j => vget o mp j)) k).
      { intros k Hk. unfold row_total. apply (sumn_ext o); intros l Hl. now apply E. }
      rewrite (@sumn_ext R o n (fun i => vget o mp i * row_total o n (hadamard o (get o Rf) (get o (mpm_simple o n mp))) i)
                 (fun i => vget o mp i * row_total o n (hadamard o (get o Rf) (fun _ j => vget o mp j)) i))
        by (intros k Hk; now rewrite RT).
      rewrite (RT a Ha), (E a b Ha Hb). reflexivity. }
    destruct (gs_loop_some mp Rl ND Hm Hlt Hmn H) as (_ & I2 & _).
    split; [|split].
    - eapply rate_rows_zero_ext; [apply meq_sym, calcQ_stationary_get|apply calcQ_rows_zero].
    - eapply stationary_ext; [apply meq_sym, EQ|]. apply column_balance_stationary.
      exact (@gs_column_balance n mp m js Rl Rf ND Hm Hlt Hmn Hcov H0 Hpm H).
    - intros Hs. eapply calibrated_ext; [apply meq_sym, calcQ_stationary_get|].
      apply calcQ_calibrated; [|exact Hs]. apply hadamard_diag0. intros a Ha.
      rewrite (I2 a a Ha Ha) by (intros [-> Hin]; contradiction). now apply Hd.
  Qed.
End Proofs.

(* ==================================================================== ordered fields *)
Section Ordered.
  Variable R : Type.
  Variable o : fld_ops R.
  Hypothesis L : fld_laws o.
  Add Ring fld_ring_o : (fld_ring_theory L).
  Variable le : R -> R -> Prop.
  Local Notation "0" := (fzero o).
  Local Notation "1" := (fone o).
  Local Infix "+" := (fadd o).
  Local Infix "*" := (fmul o).
  Local Infix "/" := (fdiv o).
  Local Infix "<=" := le.
  Hypothesis le_0_0 : 0 <= 0.
  Hypothesis le_0_1 : 0 <= 1.
  Hypothesis le_add : forall a b, 0 <= a -> 0 <= b -> 0 <= a + b.
  Hypothesis le_mul : forall a b, 0 <= a -> 0 <= b -> 0 <= a * b.
  Hypothesis le_inv : forall a, 0 <= a -> 0 <= finv o a.

  Lemma sumn_nonneg n (f : nat -> R) : (forall k, (k < n)%nat -> 0 <= f k) -> 0 <= sumn o n f.
  Proof.
    induction n as [|n IH]; intros H; cbn; [exact le_0_0|].
    apply le_add; [apply IH; intros; apply H; lia|apply H; lia].
  Qed.

  Lemma exchangeability_fold_nonneg n preds : forall Rl,
    Forall (fun mp : bmask * R => 0 <= snd mp) preds ->
    (forall i j, (i < n)%nat -> (j < n)%nat -> 0 <= get o Rl i j) ->
    forall i j, (i < n)%nat -> (j < n)%nat ->
      0 <= get o (fold_left (fun (X : lmat R) (mp : bmask * R) => apply_pred o n X (fst mp) (snd mp)) preds Rl) i j.
  Proof.
    induction preds as [|mp preds IH]; intros Rl HF HS; cbn [fold_left]; [exact HS|].
    inversion HF as [|? ? Hm HF']; subst. apply IH; [exact HF'|].
    intros i j Hi Hj. unfold apply_pred. rewrite (get_mk o) by assumption.
    destruct (bget (fst mp) i j); [apply le_mul; [now apply HS|exact Hm]|now apply HS].
  Qed.

  (** non-negative parameters give non-negative exchangeabilities *)
  Theorem exchangeability_nonneg n inst preds :
    Forall (fun mp : bmask * R => 0 <= snd mp) preds ->
    forall i j, (i < n)%nat -> (j < n)%nat -> 0 <= get o (exchangeability o n inst preds) i j.
  Proof.
    intros HF. unfold exchangeability. apply exchangeability_fold_nonneg; [exact HF|].
    intros i j Hi Hj. unfold mask_f. rewrite (get_mk o) by assumption.
    destruct (bget inst i j); assumption.
  Qed.

  (** off-diagonal entries of Q are non-negative when the exchangeabilities,
      the weights and the word probabilities are *)
  Theorem calcQ_offdiag_nonneg n (wp : nat -> R) (Rm : fmat R) :
    (forall i j, (i < n)%nat -> (j < n)%nat -> 0 <= Rm i j) ->
    (forall i, (i < n)%nat -> 0 <= wp i) ->
    forall i j, (i < n)%nat -> (j < n)%nat -> i <> j -> 0 <= calcQ_f o n wp Rm i j.
  Proof.
    intros HR Hw i j Hi Hj Hne. rewrite (calcQ_offdiag o n wp Rm Hne).
    apply le_mul; [now apply HR|].
    replace (1 / sumn o n (fun i0 => wp i0 * row_total o n Rm i0))
      with (finv o (sumn o n (fun i0 => wp i0 * row_total o n Rm i0))) by (unfold fdiv; ring).
    apply le_inv. apply sumn_nonneg. intros k Hk. apply le_mul; [now apply Hw|].
    unfold row_total. apply sumn_nonneg. intros l Hl. now apply HR.
  Qed.

  Lemma hadamard_nonneg n (A B : fmat R) :
    (forall i j, (i < n)%nat -> (j < n)%nat -> 0 <= A i j) ->
    (forall i j, (i < n)%nat -> (j < n)%nat -> 0 <= B i j) ->
    forall i j, (i < n)%nat -> (j < n)%nat -> 0 <= hadamard o A B i j.
  Proof. intros HA HB i j Hi Hj. unfold hadamard. apply le_mul; auto. Qed.
  Lemma Forall_firstn_c05 (A : Type) (P : A -> Prop) k : forall l : list A, Forall P l -> Forall P (firstn k l).
  Proof. induction k as [|k IH]; intros [|x l] H; cbn; try constructor; inversion H; subst; auto. Qed.
  Lemma Forall_skipn_c05 (A : Type) (P : A -> Prop) k : forall l : list A, Forall P l -> Forall P (skipn k l).
  Proof. induction k as [|k IH]; intros [|x l] H; cbn; try assumption; try constructor. inversion H; subst; auto. Qed.

  (** ... and its entries are non-negative for non-negative ratios *)
  Theorem ratios_to_proportions_nonneg fuel : forall total params,
    0 <= total -> Forall (fun r => 0 <= r /\ r + 1 <> 0) params ->
    Forall (fun x => 0 <= x) (ratios_to_proportions o fuel total params).
  Proof.
    induction fuel as [|f IH]; intros total params Ht HF; cbn [ratios_to_proportions]; [now repeat constructor|].
    destruct params as [|r0 rest]; [now repeat constructor|].
    cbv zeta. inversion HF as [|? ? [Hr Hne] HF']; subst.
    assert (Hp : 0 <= 1 / (r0 + 1)).
    { replace (1 / (r0 + 1)) with (finv o (r0 + 1)) by (unfold fdiv; ring). apply le_inv. apply le_add; assumption. }
    assert (Hq : 0 <= fsub o 1 (1 / (r0 + 1))).
    { replace (fsub o 1 (1 / (r0 + 1))) with (r0 * finv o (r0 + 1)).
      - apply le_mul; [assumption|]. apply le_inv. apply le_add; assumption.
      - unfold fsub, fdiv. transitivity ((r0 + 1) * finv o (r0 + 1) + fopp o (1 * finv o (r0 + 1))); [ring|].
        rewrite (f_mul_inv_r L Hne). reflexivity. }
    apply Forall_app. split; apply IH.
    - now apply le_mul.
    - now apply Forall_firstn_c05.
    - now apply le_mul.
    - now apply Forall_skipn_c05.
  Qed.

  (* ---------------------------------------------------------------- GeneralStationary: signs *)
  Variable neg : R -> bool.
  Variable near0 : R -> bool.
  Hypothesis near0_neg : forall x, near0 x = true -> neg x = false.
  Hypothesis neg_sound : forall x, neg x = false -> 0 <= x.

  (** when the guard passes for every dependent column, the completed exchangeability matrix is non-negative *)
  Theorem gs_exchangeabilities_nonneg n mp m js Rl Rf :
    NoDup js -> ~ In m js -> (forall j, In j js -> (j < n)%nat) -> (m < n)%nat ->
    (forall a b, (a < n)%nat -> (b < n)%nat -> 0 <= get o Rl a b) ->
    0 <= vget o mp m ->
    gs_loop o neg near0 n mp (map (pair m) js) Rl = Some Rf ->
    forall a b, (a < n)%nat -> (b < n)%nat -> 0 <= get o Rf a b.
  Proof.
    intros ND Hm Hlt Hmn H0 Hpm H a b Ha Hb.
    destruct (@gs_loop_some R o neg near0 near0_neg n mp m js Rl Rf ND Hm Hlt Hmn H) as (I1 & I2 & I3).
    destruct (Nat.eq_dec a m) as [->|Ham].
    - destruct (in_dec Nat.eq_dec b js) as [Hin|Hnin].
      + rewrite (I1 b Hin). unfold fdiv. apply le_mul; [apply neg_sound, I3, Hin|now apply le_inv].
      + rewrite (I2 m b Ha Hb) by (intros [_ X]; contradiction). now apply H0.
    - rewrite (I2 a b Ha Hb) by (intros [X _]; contradiction). now apply H0.
  Qed.
End Ordered.

(* ==================================================================== non-vacuity: a concrete instance over Qc *)
From Coq Require Import QArith Qcanon.

Module Examples.
  Definition Fq := Qc_fld.
  Definition q (a b : Z) : Qc := Q2Qc (a # Z.to_pos b).

  Ltac qc_eq := apply Qc_is_canon; vm_compute; reflexivity.
  Ltac qc_neq := let H := fresh in intro H; apply (f_equal (fun x : Qc => Qnum (this x))) in H; vm_compute in H; discriminate.
  Ltac idx2 i Hi := destruct i as [|[|i]]; [| |exfalso; lia].
  Ltac idx4 i Hi := destruct i as [|[|[|[|i]]]]; [| | | |exfalso; lia].

  (** HKY85-like: 4 one-letter words, transition mask, π = (2/5,1/5,1/10,3/10), κ = 5/2 *)
  Definition words1 : list (list nat) := [[0%nat]; [1%nat]; [2%nat]; [3%nat]].
  Definition kappa_mask : bmask :=
    [[false; true; false; false]; [true; false; false; false]; [false; false; false; true]; [false; false; true; false]].
  Definition pi4 : list Qc := [q 2 5; q 1 5; q 1 10; q 3 10].
  Definition preds1 : list (bmask * Qc) := [(kappa_mask, q 5 2)].

  Example kappa_mask_sym : Forall (fun mp : bmask * Qc => mask_sym 4 (fst mp)) preds1.
  Proof.
    constructor; [|constructor]. intros i j Hi Hj. idx4 i Hi; idx4 j Hj; reflexivity.
  Qed.

  Example denominator_nonzero :
    sumn Fq 4 (fun i => fmul Fq (vget Fq pi4 i)
       (row_total Fq 4 (hadamard Fq (get Fq (exchangeability Fq 4 (inst_mask words1) preds1))
                                    (get Fq (mpm_simple Fq 4 pi4))) i)) <> fzero Fq.
  Proof. qc_neq. Qed.

  (** all hypotheses of [reversible_model_Q] are met by this instance, so its
      conclusions hold of a concrete, non-trivial rate matrix *)
  Example hky_instance :
    let Q := get Fq (calcQ_stationary Fq 4 pi4 (mpm_simple Fq 4 pi4) (exchangeability Fq 4 (inst_mask words1) preds1)) in
    rate_rows_zero Fq 4 Q /\ reversible Fq 4 (vget Fq pi4) Q /\ stationary Fq 4 (vget Fq pi4) Q /\
    calibrated Fq 4 (vget Fq pi4) Q.
  Proof.
    destruct (@reversible_model_Q Qc Fq Qc_fld_laws 4 (inst_mask words1) preds1 pi4 (mpm_simple Fq 4 pi4)
                (fun i Hi => @inst_mask_diag words1 i Hi) (inst_mask_sym words1) kappa_mask_sym
                (@simple_balanced Qc Fq Qc_fld_laws 4%nat pi4))
      as (H1 & H2 & H3 & H4).
    split; [exact H1|split; [exact H2|split; [exact H3|]]]. apply H4. apply denominator_nonzero.
  Qed.

  (** dinucleotide words over 2 monomers: the word-length hypothesis *)
  Definition words2 : list (list nat) := [[0%nat; 0%nat]; [0%nat; 1%nat]; [1%nat; 0%nat]; [1%nat; 1%nat]].
  Example words2_same_length : same_length 2 words2.
  Proof. intros i Hi. cbn in Hi. idx4 i Hi; reflexivity. Qed.

  (** Padé hypotheses: A = [[-1,1],[1,-1]], q = 1: D = I - A/2 is invertible and D·F = N is solvable *)
  Definition A2 : lmat Qc := [[q (-1) 1; q 1 1]; [q 1 1; q (-1) 1]].
  Definition Dinv2 : lmat Qc := [[q 3 4; q 1 4]; [q 1 4; q 3 4]].
  Definition F2 : lmat Qc := [[q 1 2; q 1 2]; [q 1 2; q 1 2]].
  Example A2_rows_zero : rate_rows_zero Fq 2 (get Fq A2).
  Proof. intros i Hi. idx2 i Hi; qc_eq. Qed.
  Example pade_left_inverse : meq 2 (mmul Fq 2 (get Fq Dinv2) (get Fq (snd (pade_ND Fq 2 1 A2)))) (mI Fq).
  Proof. intros i j Hi Hj. idx2 i Hi; idx2 j Hj; qc_eq. Qed.
  Example pade_right_inverse : meq 2 (mmul Fq 2 (get Fq (snd (pade_ND Fq 2 1 A2))) (get Fq Dinv2)) (mI Fq).
  Proof. intros i j Hi Hj. idx2 i Hi; idx2 j Hj; qc_eq. Qed.
  Example pade_solved : meq 2 (mmul Fq 2 (get Fq (snd (pade_ND Fq 2 1 A2))) (get Fq F2)) (get Fq (fst (pade_ND Fq 2 1 A2))).
  Proof. intros i j Hi Hj. idx2 i Hi; idx2 j Hj; qc_eq. Qed.
  Example pade_instance : row_stochastic Fq 2 (get Fq (squarings Fq 2 F2 3)).
  Proof. exact (@pade_row_stochastic Qc Fq Qc_fld_laws 2 1 3 A2 F2 (get Fq Dinv2) A2_rows_zero pade_left_inverse pade_solved). Qed.

  (** eigen form: U = [[1,1],[1,-1]], U^-1 = U/2 *)
  Definition evT2 : fmat Qc := get Fq [[q 1 1; q 1 1]; [q 1 1; q (-1) 1]].
  Definition evI2 : fmat Qc := get Fq [[q 1 2; q 1 2]; [q 1 2; q (-1) 2]].
  Example eigen_inverse : forall k m, (k < 2)%nat -> (m < 2)%nat ->
    sumn Fq 2 (fun l => fmul Fq (evI2 l k) (evT2 l m)) = if Nat.eqb k m then fone Fq else fzero Fq.
  Proof. intros k m Hk Hm. idx2 k Hk; idx2 m Hm; qc_eq. Qed.
  Example eigen_instance :
    meq 2 (mmul Fq 2 (eigen_P Fq 2 evT2 evI2 (vget Fq [q 1 1; q 1 2])) (eigen_P Fq 2 evT2 evI2 (vget Fq [q 1 1; q 1 3])))
          (eigen_P Fq 2 evT2 evI2 (vget Fq [q 1 1; q 1 6])).
  Proof.
    apply (eigen_semigroup Qc_fld_laws); [exact eigen_inverse|].
    intros k Hk. idx2 k Hk; qc_eq.
  Qed.

  (** rate classes *)
  Example rate_class_instance :
    suml Fq (map (fun wr => fmul Fq (fst wr) (snd wr))
               (combine [q 1 4; q 3 4] (monotonic Fq [q 1 4; q 3 4] [q 1 2; q 3 2]))) = fone Fq.
  Proof. apply (monotonic_mean_one Qc_fld_laws). qc_neq. Qed.

  (** GeneralStationary over 4 states: rows T, C, A are free, row G is solved for (param_pick and
      last_in_column as cogent3 builds them) *)
  Definition gs_pick : list (list nat) :=
    [[0; 1; 2; 3]; [4; 0; 6; 7]; [5; 8; 0; 9]; [0; 0; 0; 0]]%nat.
  Definition gs_lic : list (nat * nat) := map (pair 3%nat) [0; 1; 2]%nat.
  Definition pi_eq : list Qc := [q 1 4; q 1 4; q 1 4; q 1 4].
  Definition ones9 : list Qc := repeat (q 1 1) 9.

  Example gs_feasible_instance :
    exists Rf, gs_loop Fq Qc_neg Qc_is0 4 pi_eq gs_lic (take_pick Fq 4 ones9 gs_pick) = Some Rf.
  Proof.
    destruct (gs_loop Fq Qc_neg Qc_is0 4 pi_eq gs_lic (take_pick Fq 4 ones9 gs_pick)) eqn:E; [now eexists|].
    vm_compute in E. discriminate.
  Qed.

  (** every hypothesis of [general_stationary_model] is met by this instance *)
  Example gs_instance_is_stationary :
    forall Rf, gs_loop Fq Qc_neg Qc_is0 4 pi_eq gs_lic (take_pick Fq 4 ones9 gs_pick) = Some Rf ->
    stationary Fq 4 (vget Fq pi_eq) (get Fq (calcQ_stationary Fq 4 pi_eq (mpm_simple Fq 4 pi_eq) Rf)).
  Proof.
    intros Rf H.
    refine (proj1 (proj2 (@general_stationary_model Qc Fq Qc_fld_laws Qc_neg Qc_is0 Qc_is0_not_neg 4%nat pi_eq 3%nat [0; 1; 2]%nat
                            (take_pick Fq 4 ones9 gs_pick) Rf _ _ _ _ _ _ _ _ H))).
    - repeat constructor; cbn; intuition lia.
    - cbn; intuition lia.
    - cbn; intuition lia.
    - lia.
    - intros b Hb Hb3. cbn. lia.
    - intros b Hb. destruct Hb as [<-|[<-|[<-|[]]]]; qc_eq.
    - intros a Ha. idx4 a Ha; qc_eq.
    - qc_neq.
  Qed.

  (** the seeded variant "feasibility guard after the loop" accepts a parameter vector the faithful model
      refuses, and returns a NEGATIVE exchangeability (C>T = 10 makes column T infeasible, column A is fine) *)
  Definition bad9 : list Qc := [q 1 1; q 1 1; q 1 1; q 10 1; q 1 1; q 1 1; q 1 1; q 1 1; q 1 1].
  Example gs_guard_after_loop_unsound :
    gs_exchangeability Fq Qc_neg Qc_is0 4 pi_eq bad9 gs_pick gs_lic = None /\
    exists Rf, gs_exchangeability_guard_after_loop Fq Qc_neg Qc_is0 4 pi_eq bad9 gs_pick gs_lic = Some Rf /\
               Qc_neg (get Fq Rf 3%nat 0%nat) = true.
  Proof.
    split; [vm_compute; reflexivity|].
    eexists. split; [vm_compute; reflexivity|vm_compute; reflexivity].
  Qed.

  (** the ordered-field hypotheses of the non-negativity theorems hold in Qc *)
  Example Qc_order_laws :
    Qcle (fzero Fq) (fzero Fq) /\ Qcle (fzero Fq) (fone Fq) /\
    (forall a b, Qcle (fzero Fq) a -> Qcle (fzero Fq) b -> Qcle (fzero Fq) (fadd Fq a b)) /\
    (forall a b, Qcle (fzero Fq) a -> Qcle (fzero Fq) b -> Qcle (fzero Fq) (fmul Fq a b)) /\
    (forall a, Qcle (fzero Fq) a -> Qcle (fzero Fq) (finv Fq a)).
  Proof.
    assert (Z0 : forall a : Qc, Qcle (fzero Fq) a -> (0 <= this a)%Q).
    { intros a Ha. change (Qred 0 <= this a)%Q in Ha. now rewrite Qred_correct in Ha. }
    split; [apply Qcle_refl|]. split; [unfold Qcle; cbn; discriminate|].
    split; [|split].
    - intros a b Ha Hb. apply Z0 in Ha. apply Z0 in Hb.
      change (Qred 0 <= Qred (this a + this b))%Q. rewrite !Qred_correct.
      replace 0%Q with (0 + 0)%Q by reflexivity. now apply Qplus_le_compat.
    - intros a b Ha Hb. apply Z0 in Ha. apply Z0 in Hb.
      change (Qred 0 <= Qred (this a * this b))%Q. rewrite !Qred_correct.
      now apply Qmult_le_0_compat.
    - intros a Ha. apply Z0 in Ha.
      change (Qred 0 <= Qred (/ this a))%Q. rewrite !Qred_correct.
      now apply Qinv_le_0_compat.
  Qed.
End Examples.
