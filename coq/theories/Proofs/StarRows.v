(** C18 — gapped rows as (residues, gap-run lengths), insertion of gap columns,
    and projection: the row-level half of the star-merge proof.  Nothing here
    depends on the dictionaries of the model. *)
From CG3 Require Import Lib.PyZ Lib.Val Model.PairAlign Spec.AlignSpec Model.StarMerge.

Definition isres (a : Z) : Prop := a <> GAP.

(** ------------------------------------------------------------------ build / counts *)

Fixpoint build (seq : list Z) (l : list Z) : list Z :=
  match l with
  | [] => []
  | c :: l' => repeat GAP (Z.to_nat c) ++
               match seq with [] => [] | s :: seq' => s :: build seq' l' end
  end.

Lemma build_cons seq c l' :
  build seq (c :: l') = repeat GAP (Z.to_nat c) ++ match seq with [] => [] | s :: seq' => s :: build seq' l' end.
Proof. destruct seq; reflexivity. Qed.

Lemma build_unfold_gap seq g0 l' :
  0 < g0 -> build seq (g0 :: l') = GAP :: build seq ((g0 - 1) :: l').
Proof.
  intros H. rewrite !build_cons. replace (Z.to_nat g0) with (S (Z.to_nat (g0 - 1))) by lia. reflexivity.
Qed.

Lemma build_unfold_res s seq l' : build (s :: seq) (0 :: l') = s :: build seq l'.
Proof. reflexivity. Qed.

Lemma build_nil_seq g0 l' : build [] (g0 :: l') = repeat GAP (Z.to_nat g0).
Proof. rewrite build_cons. apply app_nil_r. Qed.

Lemma counts_cons row : exists c cs, counts row = c :: cs.
Proof.
  induction row as [|x row (c & cs & IH)]; cbn [counts]; [eauto|].
  rewrite IH. destruct (x =? GAP); eauto.
Qed.

Lemma counts_length row : length (counts row) = S (length (degap row)).
Proof.
  induction row as [|x row IH]; [reflexivity|].
  cbn [counts]. destruct (counts_cons row) as (c & cs & E). rewrite E in *.
  unfold degap in *. cbn [filter]. destruct (x =? GAP); cbn [negb length] in *; lia.
Qed.

Lemma counts_nonneg row : Forall (fun c => 0 <= c) (counts row).
Proof.
  induction row as [|x row IH]; [repeat constructor; lia|].
  cbn [counts]. destruct (counts_cons row) as (c & cs & E). rewrite E in *.
  inversion IH; subst. destruct (x =? GAP); repeat constructor; auto; lia.
Qed.

Lemma degap_res row : Forall isres (degap row).
Proof.
  unfold degap, isres. apply Forall_forall. intros a Ha. apply filter_In in Ha. destruct Ha as (_ & Ha).
  apply negb_true_iff in Ha. apply Z.eqb_neq in Ha. exact Ha.
Qed.

Lemma build_counts row : build (degap row) (counts row) = row.
Proof.
  induction row as [|x row IH]; [reflexivity|].
  cbn [counts]. destruct (counts_cons row) as (c & cs & E). rewrite E in *.
  pose proof (counts_nonneg row) as N. rewrite E in N. inversion N; subst.
  unfold degap in *. cbn [filter]. destruct (x =? GAP) eqn:Ex; cbn [negb].
  - apply Z.eqb_eq in Ex. subst x. rewrite (build_unfold_gap _ (c + 1) cs) by lia.
    replace (c + 1 - 1) with c by lia. f_equal. exact IH.
  - cbn [build repeat app Z.to_nat]. f_equal. exact IH.
Qed.

(** rows produced by [expand] *)
Fixpoint fcounts (f : Z -> Z) (p : Z) (n : nat) : list Z :=
  match n with O => [] | S n' => f p :: fcounts f (p + 1) n' end.

Lemma fcounts_length f p n : length (fcounts f p n) = n.
Proof. revert p. induction n; intros p; cbn; auto. Qed.

Lemma fcounts_nth f : forall n p q, (q < n)%nat -> nth q (fcounts f p n) 0 = f (p + Z.of_nat q).
Proof.
  induction n as [|n IH]; intros p q Hq; [lia|].
  destruct q as [|q]; cbn [fcounts nth].
  - f_equal. lia.
  - rewrite IH by lia. f_equal. lia.
Qed.

Lemma expand_build seq : forall p d,
  expand_aux seq p d = build seq (fcounts (dget0 d) p (S (length seq))).
Proof.
  induction seq as [|s seq IH]; intros p d.
  - reflexivity.
  - cbn [expand_aux length fcounts build]. f_equal. f_equal. rewrite IH. reflexivity.
Qed.

(** ------------------------------------------------------------------ inserting gap columns *)

Fixpoint insert_at (row : list Z) (c L : nat) {struct c} : list Z :=
  match c, row with
  | O, _ => repeat GAP L ++ row
  | S c', x :: row' => x :: insert_at row' c' L
  | S _, [] => repeat GAP L
  end.

(** [items]: (column, number of gap columns), columns ascending, relative to the ORIGINAL row *)
Fixpoint ins_many (row : list Z) (items : list (Z * Z)) : list Z :=
  match items with
  | [] => row
  | (c, L) :: rest => insert_at (ins_many row rest) (Z.to_nat c) (Z.to_nat L)
  end.

Definition resbefore (row : list Z) (c : nat) : nat := length (degap (firstn c row)).

Fixpoint bump (l : list Z) (k : nat) (L : Z) : list Z :=
  match l, k with
  | [], _ => []
  | c :: l', O => (c + L) :: l'
  | c :: l', S k' => c :: bump l' k' L
  end.

Lemma bump_length l : forall k L, length (bump l k L) = length l.
Proof. induction l as [|c l IH]; intros [|k] L; cbn; auto. Qed.

Lemma bump_nonneg l : forall k L, 0 <= L -> Forall (fun c => 0 <= c) l -> Forall (fun c => 0 <= c) (bump l k L).
Proof.
  induction l as [|c l IH]; intros [|k] L HL H; cbn; auto; inversion H; subst; constructor; auto; lia.
Qed.

Lemma bump_nth l : forall k L q, (k < length l)%nat ->
  nth q (bump l k L) 0 = nth q l 0 + (if Nat.eqb q k then L else 0).
Proof.
  induction l as [|c l IH]; intros k L q Hk; [cbn in Hk; lia|].
  destruct k as [|k]; cbn [bump].
  - destruct q as [|q]; cbn; lia.
  - destruct q as [|q]; cbn [nth Nat.eqb]; [lia|]. apply IH. cbn in Hk. lia.
Qed.

Lemma degap_repeat n : degap (repeat GAP n) = [].
Proof. induction n; cbn; auto. Qed.

Lemma degap_app a b : degap (a ++ b) = degap a ++ degap b.
Proof. unfold degap. apply filter_app. Qed.

Lemma firstn_repeat_app {A} (x : A) n l c : (c <= n)%nat -> firstn c (repeat x n ++ l) = repeat x c.
Proof.
  revert c. induction n as [|n IH]; intros c Hc.
  - assert (c = 0)%nat by lia. subst. reflexivity.
  - destruct c as [|c]; [reflexivity|]. cbn. f_equal. apply IH. lia.
Qed.

Lemma resbefore_cons_res s T c : isres s -> resbefore (s :: T) (S c) = S (resbefore T c).
Proof.
  intros Hs. unfold resbefore. cbn [firstn]. unfold degap. cbn [filter].
  assert (Es : (s =? GAP) = false) by (apply Z.eqb_neq; exact Hs). rewrite Es. reflexivity.
Qed.

Lemma resbefore_cons_gap T c : resbefore (GAP :: T) (S c) = resbefore T c.
Proof. reflexivity. Qed.

(** inserting L gap columns at column c = lengthening the gap run in front of
    the residue that follows the first c columns *)
Lemma insert_build L : 0 <= L -> forall c seq l,
  Forall isres seq -> Forall (fun x => 0 <= x) l -> length l = S (length seq) ->
  (c <= length (build seq l))%nat ->
  insert_at (build seq l) c (Z.to_nat L) = build seq (bump l (resbefore (build seq l) c) L).
Proof.
  intros HL. induction c as [|c IH]; intros seq l Hres Hl Hlen Hc.
  - destruct l as [|g0 l']; [discriminate|]. inversion Hl; subst.
    unfold resbefore. cbn [firstn degap filter length bump insert_at]. rewrite !build_cons. cbn [insert_at].
    rewrite app_assoc, <- repeat_app. f_equal. f_equal. lia.
  - destruct l as [|g0 l']; [discriminate|]. inversion Hl as [|? ? Hg0 Hl']; subst.
    destruct (Z.eq_dec g0 0) as [E | E].
    + subst g0. destruct seq as [|s seq].
      * cbn in Hc. lia.
      * rewrite build_unfold_res in *. cbn [insert_at].
        inversion Hres as [|? ? Hs Hres']; subst.
        cbn [length] in Hlen, Hc.
        rewrite (IH seq l' Hres' Hl' ltac:(lia) ltac:(lia)).
        rewrite (resbefore_cons_res s _ c Hs). cbn [bump]. rewrite build_unfold_res. reflexivity.
    + assert (Hpos : 0 < g0) by lia.
      rewrite build_unfold_gap in * by exact Hpos. cbn [insert_at].
      cbn [length] in Hc.
      rewrite (IH seq ((g0 - 1) :: l') Hres ltac:(constructor; [lia | exact Hl']) Hlen ltac:(lia)).
      rewrite resbefore_cons_gap.
      destruct (resbefore (build seq ((g0 - 1) :: l')) c) as [|k]; cbn [bump].
      * rewrite (build_unfold_gap seq (g0 + L) l') by lia. f_equal. f_equal. f_equal. lia.
      * rewrite (build_unfold_gap seq g0) by exact Hpos. reflexivity.
Qed.

Lemma insert_at_length : forall c row L, length (insert_at row c L) = (length row + L)%nat.
Proof.
  induction c as [|c IH]; intros row L; cbn [insert_at].
  - rewrite app_length, repeat_length. lia.
  - destruct row as [|x row]; cbn [length].
    + rewrite repeat_length. lia.
    + rewrite IH. lia.
Qed.

Lemma insert_at_degap : forall c row L, degap (insert_at row c L) = degap row.
Proof.
  induction c as [|c IH]; intros row L; cbn [insert_at].
  - rewrite degap_app, degap_repeat. reflexivity.
  - destruct row as [|x row].
    + apply degap_repeat.
    + unfold degap in *. cbn [filter]. rewrite IH. reflexivity.
Qed.

Lemma insert_at_firstn : forall c' row c L, (c <= c')%nat -> (c' <= length row)%nat ->
  firstn c (insert_at row c' L) = firstn c row.
Proof.
  induction c' as [|c' IH]; intros row c L Hc Hl.
  - assert (c = 0)%nat by lia. subst. reflexivity.
  - destruct c as [|c]; [reflexivity|]. cbn [insert_at]. destruct row as [|x row]; [cbn in Hl; lia|].
    cbn [firstn]. f_equal. apply IH; [lia | cbn in Hl; lia].
Qed.

(** all items: valid columns of [row], non-negative lengths, columns strictly ascending *)
Fixpoint items_ok (n : nat) (lo : Z) (items : list (Z * Z)) : Prop :=
  match items with
  | [] => True
  | (c, L) :: rest => (0 <= c /\ lo <= c) /\ c <= Z.of_nat n /\ 0 <= L /\ items_ok n (c + 1) rest
  end.

Lemma items_ok_weaken n items : forall lo lo', lo' <= lo -> items_ok n lo items -> items_ok n lo' items.
Proof. induction items as [|[c L] rest IH]; intros lo lo' H Hok; cbn in *; auto. intuition lia. Qed.

Lemma ins_many_length row items :
  length (ins_many row items) = (length row + fold_right (fun cl acc => Z.to_nat (snd cl) + acc) 0 items)%nat.
Proof.
  induction items as [|[c L] rest IH]; cbn [ins_many fold_right snd]; [lia|].
  rewrite insert_at_length, IH. lia.
Qed.

Lemma ins_many_degap row items : degap (ins_many row items) = degap row.
Proof. induction items as [|[c L] rest IH]; cbn [ins_many]; auto. rewrite insert_at_degap. exact IH. Qed.

Lemma ins_many_firstn row : forall items lo c, items_ok (length row) lo items -> (Z.of_nat c <= lo) ->
  firstn c (ins_many row items) = firstn c row.
Proof.
  induction items as [|[c' L] rest IH]; intros lo c Hok Hc; cbn [ins_many]; [reflexivity|].
  cbn [items_ok] in Hok. destruct Hok as (H1 & H2 & H3 & H4).
  rewrite insert_at_firstn; [| lia | rewrite ins_many_length; lia].
  apply (IH (c' + 1)); [exact H4 | lia].
Qed.

Fixpoint bump_all (l : list Z) (row : list Z) (items : list (Z * Z)) : list Z :=
  match items with
  | [] => l
  | (c, L) :: rest => bump (bump_all l row rest) (resbefore row (Z.to_nat c)) L
  end.

Lemma bump_all_length l row items : length (bump_all l row items) = length l.
Proof. induction items as [|[c L] rest IH]; cbn [bump_all]; auto. rewrite bump_length. exact IH. Qed.

Lemma bump_all_nonneg l row : forall items lo, items_ok (length row) lo items ->
  Forall (fun c => 0 <= c) l -> Forall (fun c => 0 <= c) (bump_all l row items).
Proof.
  induction items as [|[c L] rest IH]; intros lo Hok Hl; cbn [bump_all]; auto.
  cbn [items_ok] in Hok. destruct Hok as (H1 & H2 & H3 & H4).
  apply bump_nonneg; [exact H3 | eapply IH; eauto].
Qed.

(** the row after all insertions, in (residues, run lengths) form *)
Lemma ins_many_build row : forall items lo,
  items_ok (length row) lo items ->
  ins_many row items = build (degap row) (bump_all (counts row) row items).
Proof.
  induction items as [|[c L] rest IH]; intros lo Hok; cbn [ins_many bump_all].
  - symmetry. apply build_counts.
  - cbn [items_ok] in Hok. destruct Hok as (H1 & H2 & H3 & H4).
    rewrite (IH _ H4).
    rewrite (insert_build L H3 (Z.to_nat c) (degap row) (bump_all (counts row) row rest)).
    + f_equal. f_equal. rewrite <- (IH _ H4). unfold resbefore.
      rewrite (ins_many_firstn row rest (c + 1) (Z.to_nat c) H4) by lia. reflexivity.
    + apply degap_res.
    + eapply bump_all_nonneg; [exact H4 | apply counts_nonneg].
    + rewrite bump_all_length. apply counts_length.
    + rewrite <- (IH _ H4), ins_many_length. lia.
Qed.

(** ------------------------------------------------------------------ projection *)

Lemma project_repeat_gap n a b : project (repeat GAP n ++ a) (repeat GAP n ++ b) = project a b.
Proof. induction n as [|n IH]; [reflexivity|]. cbn [repeat app project]. rewrite IH. destruct (project a b). reflexivity. Qed.

Lemma project_insert : forall c a b L, length a = length b -> (c <= length a)%nat ->
  project (insert_at a c L) (insert_at b c L) = project a b.
Proof.
  induction c as [|c IH]; intros a b L Hl Hc; cbn [insert_at].
  - apply project_repeat_gap.
  - destruct a as [|x a], b as [|y b]; try discriminate; [cbn in Hc; lia|].
    cbn [project]. rewrite IH; [reflexivity | cbn in Hl; lia | cbn in Hc; lia].
Qed.

Lemma project_ins_many a b : forall items lo, length a = length b -> items_ok (length a) lo items ->
  project (ins_many a items) (ins_many b items) = project a b.
Proof.
  induction items as [|[c L] rest IH]; intros lo Hl Hok; cbn [ins_many]; [reflexivity|].
  cbn [items_ok] in Hok. destruct Hok as (H1 & H2 & H3 & H4).
  rewrite project_insert.
  - eapply IH; eauto.
  - rewrite !ins_many_length. lia.
  - rewrite ins_many_length. lia.
Qed.

(** a pairwise alignment without all-gap column is its own projection *)
Lemma project_self : forall a b, length a = length b -> ~ In SB (path_of_rows a b) -> project a b = (a, b).
Proof.
  induction a as [|x a IH]; intros [|y b] Hl Hn; try discriminate; [reflexivity|].
  cbn [project path_of_rows] in *. rewrite IH; [| cbn in Hl; lia | intros H; apply Hn; right; exact H].
  destruct ((x =? GAP) && (y =? GAP)) eqn:E; [|reflexivity].
  exfalso. apply Hn. left. unfold state_of_col. apply andb_true_iff in E. destruct E as [-> ->]. reflexivity.
Qed.
