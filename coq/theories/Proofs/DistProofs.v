(** C15 — proofs about the distance-calculator model. *)
From CG3 Require Import Lib.PyZ Model.Dist Spec.DistSpec.
From Coq Require Import QArith Permutation.
Open Scope Z_scope.

(** ------------------------------------------------------------------ the kernel counts columns *)

Lemma fill_diversity_cell : forall s1 s2 m a b,
  fill_diversity m s1 s2 a b = m a b + count_cols s1 s2 a b.
Proof.
  induction s1 as [|x r1 IH]; intros [|y r2] m a b; cbn [fill_diversity count_cols]; try lia.
  destruct (x <? 0) eqn:Hx; destruct (y <? 0) eqn:Hy; cbn [orb].
  - rewrite IH. destruct (0 <=? x) eqn:E; [lia|]. cbn [andb]. lia.
  - rewrite IH. destruct (0 <=? x) eqn:E; [lia|]. cbn [andb]. lia.
  - rewrite IH. destruct (0 <=? y) eqn:E; [lia|]. destruct (0 <=? x); cbn [andb]; lia.
  - rewrite IH. unfold incr.
    destruct (0 <=? x) eqn:E1; [|lia]. destruct (0 <=? y) eqn:E2; [|lia]. cbn [andb].
    rewrite (Z.eqb_sym a x), (Z.eqb_sym b y).
    destruct ((x =? a) && (y =? b)); lia.
Qed.

Lemma diversity_is_count : forall s1 s2 a b, diversity s1 s2 a b = count_cols s1 s2 a b.
Proof. intros. unfold diversity. rewrite fill_diversity_cell. reflexivity. Qed.

Lemma count_cols_combine : forall s1 s2 a b, count_cols s1 s2 a b = count_pairs (combine s1 s2) a b.
Proof.
  induction s1 as [|x r1 IH]; intros [|y r2] a b; cbn [count_cols combine count_pairs]; try reflexivity.
  rewrite IH. reflexivity.
Qed.

Lemma count_pairs_app : forall l1 l2 a b, count_pairs (l1 ++ l2) a b = count_pairs l1 a b + count_pairs l2 a b.
Proof.
  induction l1 as [|[x y] l1 IH]; intros; cbn [app count_pairs]; [reflexivity|]. rewrite IH. lia.
Qed.

Lemma count_pairs_perm : forall l1 l2 a b, Permutation l1 l2 -> count_pairs l1 a b = count_pairs l2 a b.
Proof.
  intros l1 l2 a b H. induction H as [|[x y] l l' H IH|[x y] [x' y'] l|l l' l'' H1 IH1 H2 IH2]; cbn [count_pairs]; lia.
Qed.

(** the matrix does not depend on the order of the alignment columns *)
Lemma diversity_perm_columns : forall s1 s2 t1 t2 a b,
  Permutation (combine s1 s2) (combine t1 t2) -> diversity s1 s2 a b = diversity t1 t2 a b.
Proof.
  intros. rewrite !diversity_is_count, !count_cols_combine. apply count_pairs_perm. assumption.
Qed.

Lemma count_cols_swap : forall s1 s2 a b, count_cols s2 s1 b a = count_cols s1 s2 a b.
Proof.
  induction s1 as [|x r1 IH]; intros [|y r2] a b; cbn [count_cols]; try reflexivity.
  rewrite IH. f_equal.
  destruct (0 <=? x); destruct (0 <=? y); destruct (x =? a); destruct (y =? b); reflexivity.
Qed.

(** swapping the two sequences transposes the matrix *)
Lemma diversity_transpose : forall s1 s2 a b, diversity s2 s1 a b = mtranspose (diversity s1 s2) a b.
Proof. intros. unfold mtranspose. rewrite !diversity_is_count. apply count_cols_swap. Qed.

Lemma combine_app_eq {A B} : forall (l1 : list A) (l2 : list B) r1 r2,
  length l1 = length l2 -> combine (l1 ++ r1) (l2 ++ r2) = combine l1 l2 ++ combine r1 r2.
Proof.
  induction l1 as [|x l1 IH]; intros [|y l2] r1 r2 H; cbn in *; try discriminate; [reflexivity|].
  rewrite IH by congruence. reflexivity.
Qed.

(** a column with a non-canonical state in either sequence contributes nothing, wherever it is *)
Lemma noncanonical_column_ignored : forall l1 l2 r1 r2 x y a b,
  length l1 = length l2 -> x < 0 \/ y < 0 ->
  diversity (l1 ++ x :: r1) (l2 ++ y :: r2) a b = diversity (l1 ++ r1) (l2 ++ r2) a b.
Proof.
  intros l1 l2 r1 r2 x y a b Hlen Hxy.
  rewrite !diversity_is_count, !count_cols_combine, !combine_app_eq by assumption.
  rewrite !count_pairs_app. cbn [combine count_pairs].
  destruct (0 <=? x) eqn:E1; destruct (0 <=? y) eqn:E2; cbn [andb]; lia.
Qed.

(** ------------------------------------------------------------------ sums *)

Lemma zsum_map_ext : forall (f g : Z -> Z) l, (forall x, f x = g x) -> zsum (map f l) = zsum (map g l).
Proof. intros f g l H. induction l as [|x l IH]; cbn [map zsum fold_right]; [reflexivity|]. unfold zsum in IH. rewrite IH, H. reflexivity. Qed.

Lemma zsum_map_add : forall (f g : Z -> Z) l, zsum (map (fun x => f x + g x) l) = zsum (map f l) + zsum (map g l).
Proof. intros f g l. induction l as [|x l IH]; cbn [map zsum fold_right]; [reflexivity|]. unfold zsum in IH. rewrite IH. lia. Qed.

Lemma zsum_map_zero : forall (l : list Z), zsum (map (fun _ => 0) l) = 0.
Proof. induction l as [|x l IH]; cbn [map zsum fold_right]; [reflexivity|]. unfold zsum in IH. rewrite IH. reflexivity. Qed.

Lemma zsum_swap : forall (f : Z -> Z -> Z) l1 l2,
  zsum (map (fun a => zsum (map (fun b => f a b) l2)) l1) = zsum (map (fun b => zsum (map (fun a => f a b) l1)) l2).
Proof.
  intros f l1 l2. induction l1 as [|x l1 IH].
  - cbn [map zsum fold_right]. symmetry. apply zsum_map_zero.
  - cbn [map]. change (zsum (?h :: ?t)) with (h + zsum t). rewrite IH.
    rewrite <- zsum_map_add. apply zsum_map_ext. intros b. reflexivity.
Qed.

Lemma msum_transpose : forall dim m, msum dim (mtranspose m) = msum dim m.
Proof. intros. unfold msum, row_sum, mtranspose. apply zsum_swap. Qed.

Lemma mdiag_transpose : forall dim m, mdiag dim (mtranspose m) = mdiag dim m.
Proof. reflexivity. Qed.

Lemma msum_ext : forall dim m1 m2, (forall a b, m1 a b = m2 a b) -> msum dim m1 = msum dim m2.
Proof. intros dim m1 m2 H. unfold msum, row_sum. apply zsum_map_ext. intros a. apply zsum_map_ext. intros b. apply H. Qed.

Lemma mdiag_ext : forall dim m1 m2, (forall a b, m1 a b = m2 a b) -> mdiag dim m1 = mdiag dim m2.
Proof. intros dim m1 m2 H. unfold mdiag. apply zsum_map_ext. intros a. apply H. Qed.

Lemma take_sum_ext : forall m1 m2 cs, (forall a b, m1 a b = m2 a b) -> take_sum m1 cs = take_sum m2 cs.
Proof.
  intros m1 m2 cs H. unfold take_sum. induction cs as [|c cs IH]; cbn [map zsum fold_right]; [reflexivity|].
  unfold zsum in IH. rewrite IH, H. reflexivity.
Qed.

(** ------------------------------------------------------------------ total and diagonal as column counts *)

Lemma zsum_cons : forall x l, zsum (x :: l) = x + zsum l.
Proof. reflexivity. Qed.

Lemma zsum_indicator_aux : forall y n s,
  zsum (map (fun b => if y =? b then 1 else 0) (zrange_aux s n)) =
  if (s <=? y) && (y <? s + Z.of_nat n) then 1 else 0.
Proof.
  intros y n. induction n as [|n IH]; intros s.
  - cbn [zrange_aux map]. unfold zsum; cbn [fold_right]. destruct ((s <=? y) && (y <? s + Z.of_nat 0)) eqn:E; lia.
  - cbn [zrange_aux map]. rewrite zsum_cons, IH.
    destruct (y =? s) eqn:E1; destruct ((s + 1 <=? y) && (y <? s + 1 + Z.of_nat n)) eqn:E2;
      destruct ((s <=? y) && (y <? s + Z.of_nat (S n))) eqn:E3; lia.
Qed.

Lemma zsum_indicator : forall (c : bool) y dim,
  zsum (map (fun b => if c && (y =? b) then 1 else 0) (states dim)) =
  if c && (0 <=? y) && (y <? dim) then 1 else 0.
Proof.
  intros c y dim. destruct c; cbn [andb].
  - unfold states, zrange. rewrite zsum_indicator_aux.
    destruct ((0 <=? y) && (y <? 0 + Z.of_nat (Z.to_nat (dim - 0)))) eqn:E1; destruct ((0 <=? y) && (y <? dim)) eqn:E2; lia.
  - apply zsum_map_zero.
Qed.

Lemma msum_count_pairs : forall dim cols,
  zsum (map (fun a => zsum (map (fun b => count_pairs cols a b) (states dim))) (states dim)) = valid_columns dim cols.
Proof.
  intros dim cols. induction cols as [|[x y] r IH].
  - cbn [count_pairs valid_columns].
    rewrite (zsum_map_ext _ (fun _ => 0)) by (intros; apply zsum_map_zero). apply zsum_map_zero.
  - cbn [count_pairs valid_columns].
    rewrite (zsum_map_ext _ (fun a => zsum (map (fun b => if (0 <=? x) && (0 <=? y) && (x =? a) && (y =? b) then 1 else 0) (states dim))
                                      + zsum (map (fun b => count_pairs r a b) (states dim))))
      by (intros a; apply zsum_map_add).
    rewrite zsum_map_add, IH. f_equal.
    rewrite (zsum_map_ext _ (fun a => if ((0 <=? x) && (0 <=? y) && (y <? dim)) && (x =? a) then 1 else 0)).
    + rewrite zsum_indicator.
      destruct (0 <=? x); destruct (0 <=? y); destruct (y <? dim); destruct (x <? dim); reflexivity.
    + intros a. rewrite zsum_indicator.
      destruct (0 <=? x); destruct (0 <=? y); destruct (y <? dim); destruct (x =? a); reflexivity.
Qed.

(** matrix.sum() = number of columns in which both sequences show a canonical state *)
Lemma msum_diversity_total : forall dim s1 s2,
  msum dim (diversity s1 s2) = valid_columns dim (combine s1 s2).
Proof.
  intros dim s1 s2. rewrite <- msum_count_pairs. unfold msum, row_sum.
  apply zsum_map_ext. intros a. apply zsum_map_ext. intros b.
  rewrite diversity_is_count. apply count_cols_combine.
Qed.

Lemma mdiag_count_pairs : forall dim cols,
  zsum (map (fun a => count_pairs cols a a) (states dim)) = matching_columns dim cols.
Proof.
  intros dim cols. induction cols as [|[x y] r IH].
  - cbn [count_pairs matching_columns]. apply zsum_map_zero.
  - cbn [count_pairs matching_columns]. rewrite zsum_map_add, IH. f_equal.
    rewrite (zsum_map_ext _ (fun a => if ((0 <=? x) && (0 <=? y) && (x =? y)) && (x =? a) then 1 else 0)).
    + rewrite zsum_indicator.
      destruct (0 <=? x); destruct (0 <=? y); destruct (x =? y); destruct (x <? dim); reflexivity.
    + intros a. destruct (Z.eqb_spec x a) as [E|Hn].
      * subst a. rewrite (Z.eqb_sym y x). destruct (0 <=? x); destruct (0 <=? y); destruct (x =? y); reflexivity.
      * rewrite !andb_false_r. destruct (0 <=? x); destruct (0 <=? y); reflexivity.
Qed.

(** diag(matrix).sum() = number of compared columns in which the two states agree *)
Lemma mdiag_diversity_matches : forall dim s1 s2,
  mdiag dim (diversity s1 s2) = matching_columns dim (combine s1 s2).
Proof.
  intros dim s1 s2. rewrite <- mdiag_count_pairs. unfold mdiag.
  apply zsum_map_ext. intros a. rewrite diversity_is_count. apply count_cols_combine.
Qed.

(** ------------------------------------------------------------------ estimators: symmetry and extensionality *)

Lemma hamming_symmetric : forall dim m, hamming dim (mtranspose m) = hamming dim m.
Proof. intros. unfold hamming. rewrite msum_transpose, mdiag_transpose. reflexivity. Qed.

Lemma pdist_symmetric : forall dim m, pdist dim (mtranspose m) = pdist dim m.
Proof. intros. unfold pdist. rewrite hamming_symmetric. reflexivity. Qed.

Lemma jc69_symmetric : forall dim m, jc69 dim (mtranspose m) = jc69 dim m.
Proof. intros. unfold jc69. rewrite msum_transpose, mdiag_transpose. reflexivity. Qed.

Lemma hamming_ext : forall dim m1 m2, (forall a b, m1 a b = m2 a b) -> hamming dim m1 = hamming dim m2.
Proof. intros dim m1 m2 H. unfold hamming. rewrite (msum_ext dim m1 m2 H), (mdiag_ext dim m1 m2 H). reflexivity. Qed.

Lemma pdist_ext : forall dim m1 m2, (forall a b, m1 a b = m2 a b) -> pdist dim m1 = pdist dim m2.
Proof. intros dim m1 m2 H. unfold pdist. rewrite (hamming_ext dim m1 m2 H). reflexivity. Qed.

Lemma jc69_ext : forall dim m1 m2, (forall a b, m1 a b = m2 a b) -> jc69 dim m1 = jc69 dim m2.
Proof. intros dim m1 m2 H. unfold jc69. rewrite (msum_ext dim m1 m2 H), (mdiag_ext dim m1 m2 H). reflexivity. Qed.

Lemma tn93_ext : forall dim pur pyr m1 m2, (forall a b, m1 a b = m2 a b) -> tn93 dim pur pyr m1 = tn93 dim pur pyr m2.
Proof.
  intros dim pur pyr m1 m2 H. unfold tn93. cbv zeta.
  rewrite (msum_ext dim m1 m2 H).
  rewrite !(take_sum_ext m1 m2 _ H).
  f_equal. apply map_ext. intros a. unfold col_sum, row_sum.
  f_equal; apply zsum_map_ext; intros b; apply H.
Qed.

(** cogent3's nucleotide layout: list(DNA) = T, C, A, G (RNA: U, C, A, G): purines at 2, 3, pyrimidines at 1, 0 *)
Definition nuc_pur : list Z := [2; 3].
Definition nuc_pyr : list Z := [1; 0].

Lemma tn93_symmetric : forall m, tn93 4 nuc_pur nuc_pyr (mtranspose m) = tn93 4 nuc_pur nuc_pyr m.
Proof.
  intros m. unfold tn93. cbv zeta. rewrite msum_transpose.
  let l := eval vm_compute in (tv_coords 4 nuc_pur nuc_pyr) in change (tv_coords 4 nuc_pur nuc_pyr) with l.
  let l := eval vm_compute in (diff_coords nuc_pur) in change (diff_coords nuc_pur) with l.
  let l := eval vm_compute in (diff_coords nuc_pyr) in change (diff_coords nuc_pyr) with l.
  f_equal.
  - apply map_ext. intros a. unfold col_sum, row_sum, mtranspose. apply Z.add_comm.
  - unfold take_sum, mtranspose. cbn. lia.
  - unfold take_sum, mtranspose. cbn. lia.
  - unfold take_sum, mtranspose. cbn. lia.
  - unfold take_sum, mtranspose. cbn. lia.
Qed.

(** ------------------------------------------------------------------ paralinear / LogDet (4 states) *)

Lemma fsum_transpose m : (fsum 4 (mtranspose m) == fsum 4 m)%Q.
Proof.
  unfold fsum. change (states 4) with [0; 1; 2; 3]. unfold fraw, mtranspose. cbn [map qsumq fold_right Z.eqb Pos.eqb andb].
  ring.
Qed.

Lemma fdet_transpose m : (fdet 4 (mtranspose m) == fdet 4 m)%Q.
Proof.
  unfold fdet, qlists, frequency. change (states 4) with [0; 1; 2; 3]. change (Z.to_nat 4) with 4%nat.
  cbn [map det drop_nth].
  rewrite (fsum_transpose m).
  unfold fraw, mtranspose. cbn [Z.eqb Pos.eqb andb].
  unfold Qdiv. set (si := (/ fsum 4 m)%Q).
  ring.
Qed.

Lemma fcol_transpose m k : (fcol 4 (mtranspose m) k == frow 4 m k)%Q.
Proof.
  unfold fcol, frow, frequency. change (states 4) with [0; 1; 2; 3]. cbn [map qsumq fold_right].
  rewrite (fsum_transpose m). unfold fraw, mtranspose.
  rewrite !(Z.eqb_sym k). reflexivity.
Qed.

Lemma frow_transpose m k : (frow 4 (mtranspose m) k == fcol 4 m k)%Q.
Proof.
  unfold fcol, frow, frequency. change (states 4) with [0; 1; 2; 3]. cbn [map qsumq fold_right].
  rewrite (fsum_transpose m). unfold fraw, mtranspose.
  rewrite !(Z.eqb_sym k). reflexivity.
Qed.

Lemma fprod_transpose m : (fprod 4 (mtranspose m) == fprod 4 m)%Q.
Proof.
  unfold fprod. change (states 4) with [0; 1; 2; 3]. cbn [map qprod fold_right].
  rewrite !fcol_transpose, !frow_transpose. ring.
Qed.


Lemma Qle_bool_ext (a b : Q) : (a == b)%Q -> Qle_bool a 0 = Qle_bool b 0.
Proof.
  intros E. destruct (Qle_bool a 0) eqn:A; destruct (Qle_bool b 0) eqn:B; try reflexivity.
  - apply Qle_bool_iff in A. rewrite E in A. apply Qle_bool_iff in A. congruence.
  - apply Qle_bool_iff in B. rewrite <- E in B. apply Qle_bool_iff in B. congruence.
Qed.

Lemma rq_ext (a b : Q) : (a == b)%Q -> rq a = rq b.
Proof. intros E. unfold rq. f_equal. apply Qred_complete. exact E. Qed.

Lemma logdet_common_ok_transpose m : logdet_common_ok 4 (mtranspose m) = logdet_common_ok 4 m.
Proof.
  unfold logdet_common_ok. rewrite msum_transpose, mdiag_transpose, (Qle_bool_ext _ _ (fdet_transpose m)). reflexivity.
Qed.

Lemma ld_p_transpose m : ld_p 4 (mtranspose m) = ld_p 4 m.
Proof. unfold ld_p. rewrite msum_transpose, mdiag_transpose. reflexivity. Qed.

Lemma paralinear_symmetric m : paralinear 4 (mtranspose m) = paralinear 4 m.
Proof.
  unfold paralinear. rewrite logdet_common_ok_transpose, ld_p_transpose, msum_transpose.
  rewrite (rq_ext _ _ (fdet_transpose m)), (rq_ext _ _ (fprod_transpose m)). reflexivity.
Qed.

Lemma logdet_symmetric tk m : logdet tk 4 (mtranspose m) = logdet tk 4 m.
Proof.
  unfold logdet. rewrite logdet_common_ok_transpose, ld_p_transpose, msum_transpose.
  rewrite (rq_ext _ _ (fdet_transpose m)), (rq_ext _ _ (fprod_transpose m)).
  destruct (logdet_common_ok 4 m); [|reflexivity]. destruct tk; [|reflexivity].
  f_equal. f_equal. apply rq_ext.
  unfold Qdiv, Qminus. apply Qmult_comp; [|reflexivity]. apply Qplus_comp; [|reflexivity].
  apply Qmult_comp; [|reflexivity].
  change (states 4) with [0; 1; 2; 3]. cbn [map qsumq fold_right].
  rewrite !fcol_transpose, !frow_transpose. ring.
Qed.

Ltac unfold_ld :=
  unfold paralinear, logdet, logdet_common_ok, ld_p, fdet, fprod, fcol, frow, frequency, fsum, fraw, qlists, msum, mdiag, row_sum;
  change (states 4) with [0; 1; 2; 3]; cbn [map].

Lemma paralinear_ext m1 m2 : (forall a b, m1 a b = m2 a b) -> paralinear 4 m1 = paralinear 4 m2.
Proof. intros H. unfold_ld. rewrite !H. reflexivity. Qed.

Lemma logdet_ext tk m1 m2 : (forall a b, m1 a b = m2 a b) -> logdet tk 4 m1 = logdet tk 4 m2.
Proof. intros H. unfold_ld. rewrite !H. reflexivity. Qed.

(** ------------------------------------------------------------------ p is exact *)

Lemma DVal_inj : forall t1 p1 e1 t2 p2 e2, DVal t1 p1 e1 = DVal t2 p2 e2 -> t1 = t2 /\ p1 = p2 /\ e1 = e2.
Proof. intros t1 p1 e1 t2 p2 e2 H. inversion H. auto. Qed.

Lemma hamming_p_exact : forall dim m total p e,
  hamming dim m = DVal total p e ->
  total = msum dim m /\ total <> 0 /\ (p == inject_Z (msum dim m - mdiag dim m) / inject_Z (msum dim m))%Q
  /\ e = RQ (Qred (inject_Z (msum dim m - mdiag dim m))).
Proof.
  intros dim m total p e H. unfold hamming in H.
  destruct (msum dim m =? 0) eqn:E; [discriminate|]. apply DVal_inj in H. destruct H as (Ht & Hp & He).
  split; [symmetry; exact Ht|]. split; [lia|]. split; [|symmetry; exact He].
  rewrite <- Hp. apply Qred_correct.
Qed.

(** ------------------------------------------------------------------ the duplicate shortcut *)

(** AC-- / A-GT / AGGT as index arrays (T,C,A,G -> 0..3, everything else -9) *)
Definition wit_seqs : list (list Z) := [[2; 1; -9; -9]; [2; -9; 3; 0]; [2; 3; 3; 0]].

Lemma duplicate_shortcut_wrong :
  exists seqs i j r,
    aget (pairwise false (hamming 4) 4 seqs) (i, j) = Some (CRes r) /\
    r <> hamming 4 (diversity (znth [] seqs i) (znth [] seqs j)).
Proof.
  exists wit_seqs, 1, 2. eexists. split; [vm_compute; reflexivity|]. vm_compute. discriminate.
Qed.

(** ------------------------------------------------------------------ the four closed-form nucleotide estimators together *)

Inductive estimator := EHamming | EPdist | EJC69 | ETN93 | EParalinear | ELogDet (use_tk : bool).
Definition estimate (e : estimator) (m : zmat) : dist_result :=
  match e with
  | EHamming => hamming 4 m
  | EPdist => pdist 4 m
  | EJC69 => jc69 4 m
  | ETN93 => tn93 4 nuc_pur nuc_pyr m
  | EParalinear => paralinear 4 m
  | ELogDet tk => logdet tk 4 m
  end.

Lemma estimate_symmetric : forall e m, estimate e (mtranspose m) = estimate e m.
Proof.
  intros [| | | | |tk] m; cbn [estimate].
  - apply hamming_symmetric. - apply pdist_symmetric. - apply jc69_symmetric. - apply tn93_symmetric.
  - apply paralinear_symmetric. - apply logdet_symmetric.
Qed.

Lemma estimate_ext : forall e m1 m2, (forall a b, m1 a b = m2 a b) -> estimate e m1 = estimate e m2.
Proof.
  intros [| | | | |tk] m1 m2 H; cbn [estimate].
  - apply hamming_ext, H. - apply pdist_ext, H. - apply jc69_ext, H. - apply tn93_ext, H.
  - apply paralinear_ext, H. - apply logdet_ext, H.
Qed.

Lemma estimate_sequence_order : forall e s1 s2, estimate e (diversity s2 s1) = estimate e (diversity s1 s2).
Proof.
  intros e s1 s2. rewrite (estimate_ext e _ (mtranspose (diversity s1 s2))) by (intros; apply diversity_transpose).
  apply estimate_symmetric.
Qed.

Lemma estimate_column_order : forall e s1 s2 t1 t2,
  Permutation (combine s1 s2) (combine t1 t2) -> estimate e (diversity s1 s2) = estimate e (diversity t1 t2).
Proof. intros e s1 s2 t1 t2 H. apply estimate_ext. intros a b. apply diversity_perm_columns, H. Qed.

Lemma estimate_noncanonical : forall e l1 l2 r1 r2 x y,
  length l1 = length l2 -> x < 0 \/ y < 0 ->
  estimate e (diversity (l1 ++ x :: r1) (l2 ++ y :: r2)) = estimate e (diversity (l1 ++ r1) (l2 ++ r2)).
Proof. intros. apply estimate_ext. intros a b. apply noncanonical_column_ignored; assumption. Qed.

(** a sequence compared with itself has no off-diagonal count: the zero diagonal *)
Lemma self_count_offdiag : forall s a b, a <> b -> count_cols s s a b = 0.
Proof.
  induction s as [|x s IH]; intros a b H; cbn [count_cols]; [reflexivity|]. rewrite IH by assumption.
  destruct (x =? a) eqn:E1; destruct (x =? b) eqn:E2; destruct (0 <=? x); cbn [andb]; lia.
Qed.

Lemma any_offdiag_self : forall dim s, any_offdiag dim (diversity s s) = false.
Proof.
  intros dim s. unfold any_offdiag.
  apply not_true_is_false. intros H. apply existsb_exists in H. destruct H as (a & _ & H).
  apply existsb_exists in H. destruct H as (b & _ & H).
  apply andb_true_iff in H. destruct H as [H1 H2].
  rewrite diversity_is_count in H2. rewrite self_count_offdiag in H2; lia.
Qed.

Lemma list_eqb_refl : forall s, list_eqb s s = true.
Proof. induction s as [|x s IH]; cbn [list_eqb]; [reflexivity|]. rewrite Z.eqb_refl, IH. reflexivity. Qed.

(** an exact duplicate is reported at distance 0 from its original (2-sequence alignment, any
    calculator, either variant of the duplicate rule) *)
Lemma identical_pair_zero : forall strict f dim s,
  pairwise strict f dim [s; s] = [((0, 1), CZero); ((1, 0), CZero)].
Proof.
  intros strict f dim s. unfold pairwise, expand, run.
  change (zlen [s; s]) with 2.
  change (zrange 0 (2 - 1)) with [0]. change (zrange 0 2) with [0; 1].
  cbn [fold_left]. unfold run_row. cbn [rs_dupes zmem existsb].
  change (zrange (0 + 1) 2) with [1]. cbn [fold_left]. unfold run_pair. cbn [rs_dupes zmem existsb].
  change (znth [] [s; s] 0) with s. change (znth [] [s; s] 1) with s.
  rewrite any_offdiag_self, list_eqb_refl, orb_true_r. cbn. reflexivity.
Qed.
