(** C16 — proofs about the optimiser wrapper: for EVERY adversary script the
    best-so-far bookkeeping is an invariant of the run. *)
From CG3 Require Import Lib.PyZ Model.Optim Spec.OptimSpec.

(** * facts about Python's [>] on extended values *)

Lemma fgt_irrefl v : fgt v v = false.
Proof. destruct v; simpl; auto. lia. Qed.

Lemma fgt_trans_false a b v : fgt v b = true -> fgt a b = false -> fgt a v = false.
Proof. destruct a, b, v; simpl; intros H1 H2; try discriminate; auto; lia. Qed.

Lemma at_least_up v bf v0 : fgt v bf = true -> at_least bf v0 -> at_least v v0.
Proof.
  intros G [H | [z [H Hz]]]; subst bf.
  - destruct v; discriminate.
  - destruct v; simpl in G; try discriminate.
    + right. exists z0. split; [reflexivity | lia].
    + left; reflexivity.
Qed.

Lemma fgt_true_shape v bf : fgt v bf = true -> v = PInf \/ exists z, v = Fin z.
Proof. destruct v, bf; simpl; intros; try discriminate; eauto. Qed.

Section Run.
  Variable f : point -> fv.
  Variable maxev : option Z.
  Variable b : bounds.
  Variable x0 : point.
  Variable v0 : Z.

  (** the invariant of the closure state after the initial evaluation *)
  Record Inv (s : st) : Prop := {
    inv_best : exists bx, best_x s = Some bx /\ In bx (calls s) /\ f bx = best_f s /\ in_bounds b bx = true;
    inv_max : forall q, In q (calls s) -> fgt (f q) (best_f s) = false;
    inv_start : at_least (best_f s) v0;
    inv_x0 : In x0 (calls s);
    inv_inb : forall q, In q (calls s) -> in_bounds b q = true;
    inv_evals : evals s = zlen (calls s);
    inv_cap : forall m, maxev = Some m -> evals s <= Z.max m 0
  }.

  Lemma zlen_cons {A} (a : A) l : zlen (a :: l) = zlen l + 1.
  Proof. unfold zlen. simpl length. lia. Qed.

  (** an evaluation that does not touch the best point *)
  Lemma inv_keep s x :
    Inv s -> in_bounds b x = true -> fgt (f x) (best_f s) = false ->
    (match maxev with Some m => m <=? evals s | None => false end) = false ->
    Inv (mkst (evals s + 1) (best_f s) (best_x s) (x :: calls s)).
  Proof.
    intros [[bx [B1 [B2 [B3 B4]]]] Hmax Hst Hx0 Hinb Hev Hcap] Hb G L.
    constructor; cbn [evals best_f best_x calls].
    - exists bx. repeat split; auto. right; auto.
    - intros q [<- | Hq]; auto.
    - auto.
    - right; auto.
    - intros q [<- | Hq]; auto.
    - rewrite zlen_cons. lia.
    - intros m Hm. rewrite Hm in L. specialize (Hcap m Hm). lia.
  Qed.

  (** an evaluation that becomes the best point *)
  Lemma inv_update s x :
    Inv s -> in_bounds b x = true -> fgt (f x) (best_f s) = true ->
    (match maxev with Some m => m <=? evals s | None => false end) = false ->
    Inv (mkst (evals s + 1) (f x) (Some x) (x :: calls s)).
  Proof.
    intros [[bx [B1 [B2 [B3 B4]]]] Hmax Hst Hx0 Hinb Hev Hcap] Hb G L.
    constructor; cbn [evals best_f best_x calls].
    - exists x. repeat split; auto. left; auto.
    - intros q [<- | Hq].
      + apply fgt_irrefl.
      + eapply fgt_trans_false; eauto.
    - eapply at_least_up; eauto.
    - right; auto.
    - intros q [<- | Hq]; auto.
    - rewrite zlen_cons. lia.
    - intros m Hm. rewrite Hm in L. specialize (Hcap m Hm). lia.
  Qed.

  Lemma wrapped_f_inv s x s' r :
    Inv s -> in_bounds b x = true -> wrapped_f f maxev s x = (s', r) -> Inv s'.
  Proof.
    intros HI Hb. unfold wrapped_f.
    destruct (match maxev with Some m => m <=? evals s | None => false end) eqn:L.
    - intros E; inversion E; subst; auto.
    - destruct (f x) eqn:Fx.
      + destruct (fgt (Fin z) (best_f s)) eqn:G; intros E; inversion E; subst; clear E.
        * rewrite <- Fx. apply inv_update; auto. rewrite Fx; auto.
        * apply inv_keep; auto. rewrite Fx; auto.
      + destruct (fgt PInf (best_f s)) eqn:G; intros E; inversion E; subst; clear E.
        * rewrite <- Fx. apply inv_update; auto. rewrite Fx; auto.
        * apply inv_keep; auto. rewrite Fx; auto.
      + destruct (fgt NInf (best_f s)) eqn:G; intros E; inversion E; subst; clear E.
        * rewrite <- Fx. apply inv_update; auto. rewrite Fx; auto.
        * apply inv_keep; auto. rewrite Fx; auto.
      + destruct (fgt NaN (best_f s)) eqn:G; intros E; inversion E; subst; clear E.
        * rewrite <- Fx. apply inv_update; auto. rewrite Fx; auto.
        * apply inv_keep; auto. rewrite Fx; auto.
      + intros E; inversion E; subst; clear E. apply inv_keep; auto. rewrite Fx; reflexivity.
      + intros E; inversion E; subst; clear E. apply inv_keep; auto. rewrite Fx; reflexivity.
  Qed.

  Lemma bounded_inv s x s' r : Inv s -> bounded f maxev b s x = (s', r) -> Inv s'.
  Proof.
    intros HI. unfold bounded. destruct (in_bounds b x) eqn:Hb.
    - apply wrapped_f_inv; auto.
    - intros E; inversion E; subst; auto.
  Qed.

  Lemma catching_inv s x s' r : Inv s -> catching f maxev b s x = (s', r) -> Inv s'.
  Proof.
    intros HI. unfold catching. destruct (bounded f maxev b s x) as [s1 r1] eqn:E1.
    pose proof (bounded_inv _ _ _ _ HI E1) as H1.
    destruct r1; intros E; inversion E; subst; auto.
  Qed.

  Lemma run_phase_inv script : forall s seen s' o seen',
    Inv s -> run_phase f maxev b s script seen = (s', o, seen') -> Inv s'.
  Proof.
    induction script as [|a rest IH]; intros s seen s' o seen' HI; cbn [run_phase].
    - intros E; inversion E; subst; auto.
    - destruct a as [x|].
      + destruct (catching f maxev b s x) as [s1 r1] eqn:E1.
        pose proof (catching_inv _ _ _ _ HI E1) as H1.
        destruct r1; try (intros E; inversion E; subst; auto; fail).
        apply IH; auto.
      + intros E; inversion E; subst; auto.
  Qed.

  (** a phase only reports the evaluation limit when the limit is reached *)
  Lemma wrapped_f_max s x s' n :
    wrapped_f f maxev s x = (s', RMax n) -> s' = s /\ n = evals s /\ exists m, maxev = Some m /\ m <= n.
  Proof.
    unfold wrapped_f.
    destruct maxev as [m|].
    - destruct (m <=? evals s) eqn:L.
      + intros E; inversion E; subst. repeat split; auto. exists m; split; auto; lia.
      + destruct (f x); try destruct (fgt _ (best_f s)); intros E; inversion E.
    - destruct (f x); try destruct (fgt _ (best_f s)); intros E; inversion E.
  Qed.

  Lemma catching_max s x s' n :
    catching f maxev b s x = (s', RMax n) -> s' = s /\ n = evals s /\ exists m, maxev = Some m /\ m <= n.
  Proof.
    unfold catching, bounded. destruct (in_bounds b x).
    - destruct (wrapped_f f maxev s x) as [s1 r1] eqn:E1.
      destruct r1; intros E; inversion E; subst. eapply wrapped_f_max; eauto.
    - intros E; inversion E.
  Qed.

  Lemma run_phase_limit script : forall s seen s' n seen',
    run_phase f maxev b s script seen = (s', Limit n, seen') ->
    n = evals s' /\ exists m, maxev = Some m /\ m <= n.
  Proof.
    induction script as [|a rest IH]; intros s seen s' n seen'; cbn [run_phase].
    - intros E; inversion E.
    - destruct a as [x|].
      + destruct (catching f maxev b s x) as [s1 r1] eqn:E1.
        destruct r1; try (intros E; inversion E; fail).
        * apply IH.
        * intros E; inversion E; subst.
          destruct (catching_max _ _ _ _ E1) as [-> [-> Hm]]. auto.
      + intros E; inversion E.
  Qed.

  (** the initial evaluation *)
  Lemma init_inv s1 v :
    bounded f maxev b init_st x0 = (s1, ROk v) -> isfinite v = true ->
    f x0 = Fin v0 -> Inv s1.
  Proof.
    unfold bounded. destruct (in_bounds b x0) eqn:Hb; [|intros E; inversion E].
    unfold wrapped_f. cbn [evals best_f best_x calls init_st].
    destruct (match maxev with Some m => m <=? 0 | None => false end) eqn:L; [intros E; inversion E|].
    intros E Hfin Fx. rewrite Fx in E. cbn [fgt] in E. inversion E; subst; clear E.
    constructor; cbn [evals best_f best_x calls].
    - exists x0. repeat split; auto. left; auto.
    - intros q [<- | []]. rewrite Fx. apply fgt_irrefl.
    - right. exists v0. split; auto. lia.
    - left; auto.
    - intros q [<- | []]; auto.
    - reflexivity.
    - intros m Hm. rewrite Hm in L. lia.
  Qed.

  Lemma init_value s1 v :
    bounded f maxev b init_st x0 = (s1, ROk v) -> f x0 = v.
  Proof.
    unfold bounded. destruct (in_bounds b x0); [|intros E; inversion E].
    unfold wrapped_f. cbn [evals best_f best_x calls init_st].
    destruct (match maxev with Some m => m <=? 0 | None => false end); [intros E; inversion E|].
    destruct (f x0); try destruct (fgt _ NInf); intros E; inversion E; auto.
  Qed.
End Run.

(** * the main lemma: whenever the try/finally block of maximise ran, the
    state handed to get_best satisfies the invariant *)
Lemma maximise_ran f maxev b local x0 g l o bf bx n seen s4 :
  maximise f maxev b local x0 g l = (Ran o bf bx n seen, s4) ->
  exists v0 s3, f x0 = Fin v0 /\ Inv f maxev b x0 v0 s3 /\ get_best s3 = Some (s4, bf, bx, n)
                /\ (forall k, o = Limit k -> k = evals s3 /\ exists m, maxev = Some m /\ m <= k).
Proof.
  unfold maximise.
  destruct (half_bounds b); [intros E; inversion E|].
  destruct (bounded f maxev b init_st x0) as [s1 r] eqn:E0.
  destruct r; try (intros E; inversion E; fail).
  destruct (isfinite v) eqn:Hfin; cbn [negb]; [|intros E; inversion E].
  pose proof (init_value _ _ _ _ _ _ E0) as Fx.
  destruct v; try discriminate. rename z into v0.
  pose proof (init_inv f maxev b x0 v0 _ _ E0 Hfin Fx) as H1.
  set (dg := match local with Some true => false | _ => true end).
  set (dl := match local with Some false => false | _ => true end).
  destruct (if dg then run_phase f maxev b s1 g [] else (s1, Done, [])) as [[s2 o2] seen2] eqn:E2.
  assert (H2 : Inv f maxev b x0 v0 s2).
  { destruct dg; [eapply run_phase_inv; eauto | inversion E2; subst; auto]. }
  assert (L2 : forall k, o2 = Limit k -> k = evals s2 /\ exists m, maxev = Some m /\ m <= k).
  { intros k ->. destruct dg; [eapply run_phase_limit; eauto | inversion E2]. }
  destruct (match o2 with
            | Done => if dl then run_phase f maxev b s2 l seen2 else (s2, Done, seen2)
            | _ => (s2, o2, seen2) end) as [[s3 o3] seen3] eqn:E3.
  assert (H3 : Inv f maxev b x0 v0 s3 /\
               (forall k, o3 = Limit k -> k = evals s3 /\ exists m, maxev = Some m /\ m <= k)).
  { destruct o2.
    - destruct dl.
      + split; [eapply run_phase_inv; eauto | intros k ->; eapply run_phase_limit; eauto].
      + inversion E3; subst; split; auto; intros k Hk; inversion Hk.
    - inversion E3; subst; split; auto.
    - inversion E3; subst; split; auto. }
  destruct H3 as [H3 L3].
  destruct (get_best s3) as [[[[s4' bf'] bx'] n']|] eqn:EG; intros E; inversion E; subst.
  exists v0, s3. split; [exact Fx|]. split; [exact H3|]. split; [exact EG|exact L3].
Qed.

Lemma get_best_some s s4 bf bx n :
  get_best s = Some (s4, bf, bx, n) ->
  best_x s = Some bx /\ bf = best_f s /\ n = evals s /\ calls s4 = bx :: calls s.
Proof.
  unfold get_best. destruct (best_x s) as [x|]; intros E; inversion E; subst; auto.
Qed.

(** * the property theorems *)

(** never loses: the value at the returned point is not lower than the (finite) start value *)
Lemma never_worse_lemma f maxev b local x0 g l o bf bx n seen s :
  maximise f maxev b local x0 g l = (Ran o bf bx n seen, s) ->
  exists v0, f x0 = Fin v0 /\ f bx = bf /\ at_least bf v0.
Proof.
  intros H. destruct (maximise_ran _ _ _ _ _ _ _ _ _ _ _ _ _ H) as [v0 [s3 [Fx [HI [HG _]]]]].
  destruct (get_best_some _ _ _ _ _ HG) as [Bx [-> [-> _]]].
  destruct HI as [[bx' [B1 [B2 [B3 B4]]]] _ Hst _ _ _ _].
  rewrite Bx in B1; inversion B1; subst bx'.
  exists v0. auto.
Qed.

Lemma within_bounds_lemma f maxev b local x0 g l o bf bx n seen s :
  maximise f maxev b local x0 g l = (Ran o bf bx n seen, s) -> in_bounds b bx = true.
Proof.
  intros H. destruct (maximise_ran _ _ _ _ _ _ _ _ _ _ _ _ _ H) as [v0 [s3 [Fx [HI [HG _]]]]].
  destruct (get_best_some _ _ _ _ _ HG) as [Bx _].
  destruct HI as [[bx' [B1 [B2 [B3 B4]]]] _ _ _ _ _ _].
  rewrite Bx in B1; inversion B1; subst; auto.
Qed.

(** whatever way the run ended (normal return, evaluation limit, crash of the
    optimiser), the last evaluation of the raw function is at the returned
    best point *)
Lemma left_at_best_lemma f maxev b local x0 g l o bf bx n seen s :
  maximise f maxev b local x0 g l = (Ran o bf bx n seen, s) -> lf_state_after s = Some bx.
Proof.
  intros H. destruct (maximise_ran _ _ _ _ _ _ _ _ _ _ _ _ _ H) as [v0 [s3 [Fx [HI [HG _]]]]].
  destruct (get_best_some _ _ _ _ _ HG) as [_ [_ [_ HC]]].
  unfold lf_state_after. rewrite HC. reflexivity.
Qed.

(** the returned point maximises f over every point at which the raw function
    was evaluated, start point included; all of them are within bounds *)
Lemma best_is_max_lemma f maxev b local x0 g l o bf bx n seen s :
  maximise f maxev b local x0 g l = (Ran o bf bx n seen, s) ->
  is_argmax f (calls s) bx /\ In x0 (calls s) /\ (forall q, In q (calls s) -> in_bounds b q = true).
Proof.
  intros H. destruct (maximise_ran _ _ _ _ _ _ _ _ _ _ _ _ _ H) as [v0 [s3 [Fx [HI [HG _]]]]].
  destruct (get_best_some _ _ _ _ _ HG) as [Bx [-> [-> HC]]].
  destruct HI as [[bx' [B1 [B2 [B3 B4]]]] Hmax _ Hx0 Hinb _ _].
  rewrite Bx in B1; inversion B1; subst bx'. rewrite HC.
  split; [split|split].
  - left; auto.
  - intros q [<- | Hq]; rewrite B3; [rewrite <- B3; apply fgt_irrefl | auto].
  - right; auto.
  - intros q [<- | Hq]; auto.
Qed.

(** evaluation accounting: the wrapper never evaluates more than
    max_evaluations times (+1 for the final re-evaluation at the best point),
    and reports the limit only when it was reached *)
Lemma evals_lemma f maxev b local x0 g l o bf bx n seen s :
  maximise f maxev b local x0 g l = (Ran o bf bx n seen, s) ->
  zlen (calls s) = n + 1 /\ 1 <= n /\
  (forall m, maxev = Some m -> n <= m) /\
  (forall k, o = Limit k -> k = n /\ maxev = Some n).
Proof.
  intros H. destruct (maximise_ran _ _ _ _ _ _ _ _ _ _ _ _ _ H) as [v0 [s3 [Fx [HI [HG HL]]]]].
  destruct (get_best_some _ _ _ _ _ HG) as [Bx [_ [-> HC]]].
  destruct HI as [_ _ _ Hx0 _ Hev Hcap].
  assert (1 <= evals s3).
  { rewrite Hev. destruct (calls s3); [destruct Hx0|]. unfold zlen; simpl length; lia. }
  rewrite HC. unfold zlen in *. simpl length.
  split; [lia|]. split; [lia|]. split.
  - intros m Hm. specialize (Hcap m Hm). lia.
  - intros k Hk. destruct (HL k Hk) as [-> [m [Hm Hle]]]. specialize (Hcap m Hm).
    split; [reflexivity|]. rewrite Hm. f_equal. lia.
Qed.

(** get_best is never called without a best point *)
Lemma never_broken_lemma f maxev b local x0 g l s :
  maximise f maxev b local x0 g l <> (Broken, s).
Proof.
  unfold maximise.
  destruct (half_bounds b); [intros E; inversion E|].
  destruct (bounded f maxev b init_st x0) as [s1 r] eqn:E0.
  destruct r; try (intros E; inversion E; fail).
  destruct (isfinite v) eqn:Hfin; cbn [negb]; [|intros E; inversion E].
  pose proof (init_value _ _ _ _ _ _ E0) as Fx.
  destruct v; try discriminate. rename z into v0.
  pose proof (init_inv f maxev b x0 v0 _ _ E0 Hfin Fx) as H1.
  set (dg := match local with Some true => false | _ => true end).
  set (dl := match local with Some false => false | _ => true end).
  destruct (if dg then run_phase f maxev b s1 g [] else (s1, Done, [])) as [[s2 o2] seen2] eqn:E2.
  assert (H2 : Inv f maxev b x0 v0 s2).
  { destruct dg; [eapply run_phase_inv; eauto | inversion E2; subst; auto]. }
  destruct (match o2 with
            | Done => if dl then run_phase f maxev b s2 l seen2 else (s2, Done, seen2)
            | _ => (s2, o2, seen2) end) as [[s3 o3] seen3] eqn:E3.
  assert (H3 : Inv f maxev b x0 v0 s3).
  { destruct o2; [destruct dl; [eapply run_phase_inv; eauto | inversion E3; subst; auto] | | ];
      inversion E3; subst; auto. }
  destruct H3 as [[bx [B1 _]] _ _ _ _ _ _].
  unfold get_best. rewrite B1. intros E; inversion E.
Qed.

(** the try/finally block runs whenever the start point is valid (non-vacuity of
    the theorems above: their hypothesis is satisfiable for every script) *)
Lemma bounded_init_valid f maxev b x0 v0 :
  f x0 = Fin v0 -> in_bounds b x0 = true -> (forall m, maxev = Some m -> 1 <= m) ->
  bounded f maxev b init_st x0 = (mkst 1 (Fin v0) (Some x0) [x0], ROk (Fin v0)).
Proof.
  intros Fx Hb Hm. unfold bounded, wrapped_f. rewrite Hb.
  cbn [evals best_f best_x calls init_st].
  assert (L : (match maxev with Some m => m <=? 0 | None => false end) = false).
  { destruct maxev as [m|]; auto. specialize (Hm m eq_refl). lia. }
  rewrite L, Fx. reflexivity.
Qed.

Lemma runs_if_valid_start_lemma f maxev b local x0 g l v0 :
  f x0 = Fin v0 -> in_bounds b x0 = true -> (forall m, maxev = Some m -> 1 <= m) ->
  exists o bf bx n seen s, maximise f maxev b local x0 g l = (Ran o bf bx n seen, s).
Proof.
  intros Fx Hb Hm.
  destruct (maximise f maxev b local x0 g l) as [fin s] eqn:E.
  destruct fin; eauto 8; exfalso.
  5: { eapply never_broken_lemma; eauto. }
  all: assert (HB : half_bounds b = false)
    by (destruct b as [|[lo|] [hi|]]; auto; discriminate Hb);
    revert E; unfold maximise; rewrite HB, (bounded_init_valid _ _ _ _ _ Fx Hb Hm);
    cbn [isfinite negb];
    destruct (if match local with Some true => false | _ => true end
              then run_phase f maxev b _ g [] else _) as [[s2 o2] seen2];
    destruct (match o2 with Done => _ | _ => _ end) as [[s3 o3] seen3];
    destruct (get_best s3) as [[[[? ?] ?] ?]|]; intros E; inversion E.
Qed.

(** minimise: dual statement *)
Lemma fneg_at_least v v0 : at_least (fneg v) (- v0) -> at_most v v0.
Proof.
  intros [H | [z [H Hz]]].
  - destruct v; simpl in H; try discriminate. left; auto.
  - destruct v; simpl in H; try discriminate. inversion H; subst. right. exists z0. split; auto. lia.
Qed.

Lemma never_worse_min_lemma f maxev b local x0 g l o bf bx n seen s :
  minimise f maxev b local x0 g l = (Ran o bf bx n seen, s) ->
  exists v0, f x0 = Fin v0 /\ at_most (f bx) v0 /\ in_bounds b bx = true /\ lf_state_after s = Some bx.
Proof.
  unfold minimise. intros H.
  pose proof (within_bounds_lemma _ _ _ _ _ _ _ _ _ _ _ _ _ H) as Hb.
  pose proof (left_at_best_lemma _ _ _ _ _ _ _ _ _ _ _ _ _ H) as Hl.
  destruct (never_worse_lemma _ _ _ _ _ _ _ _ _ _ _ _ _ H) as [w0 [Fx [Fb Hal]]].
  cbn beta in Fx, Fb.
  destruct (f x0) eqn:E0; simpl in Fx; try discriminate. inversion Fx; subst w0.
  exists z. repeat split; auto. apply fneg_at_least. rewrite Fb. auto.
Qed.

(** likelihood ratio: alternate started at a point whose lnL equals the null's lnL *)
Lemma LR_nonneg_lemma f maxev b local x0 g l o bx n seen s lnl_null lnl_alt :
  f x0 = Fin lnl_null ->
  maximise f maxev b local x0 g l = (Ran o (Fin lnl_alt) bx n seen, s) ->
  0 <= LR lnl_alt lnl_null.
Proof.
  intros Fx H. destruct (never_worse_lemma _ _ _ _ _ _ _ _ _ _ _ _ _ H) as [v0 [Fx' [_ Hal]]].
  rewrite Fx in Fx'. inversion Fx'; subst v0.
  destruct Hal as [Hal | [z [Hz Hle]]]; [discriminate|]. inversion Hz; subst. unfold LR. lia.
Qed.
