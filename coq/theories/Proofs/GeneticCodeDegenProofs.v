(** C12 — old Sequence.get_translation on codons of IUPAC symbols = the set-based specification. *)
From CG3 Require Import Lib.PyZ Lib.Val Model.GeneticCode Spec.GeneticCodeSpec Proofs.GeneticCodeProofs
  Proofs.GeneticCodeDegenDefs Proofs.GeneticCodeCollProofs Proofs.GeneticCodeDegenA Proofs.GeneticCodeDegenB.
From CG3gen Require Import GCTables.

Lemma domain_no_gap w : In w (degen_domain ++ product3 iupac_syms) -> has_gap w = false.
Proof.
  assert (E : forallb (fun u => negb (has_gap u)) (degen_domain ++ product3 iupac_syms) = true) by (vm_compute; reflexivity).
  rewrite forallb_forall in E. intros H. specialize (E w H). destruct (has_gap w); [discriminate|reflexivity].
Qed.

Lemma ok_false aa ok inc w : has_gap w = false -> old_codon aa ok inc w = old_codon aa false inc w.
Proof. intros H. destruct ok; [|reflexivity]. apply old_codon_ok_irrelevant, H. Qed.

Lemma degenerate_codon_lemma id aa st w ok inc :
  In (id, aa, st) new_codes -> In w degen_domain ->
  ropt (old_codon aa ok inc w) = degenerate_codon_spec (ncbi_tbl id) inc w.
Proof.
  intros Hin Hw. rewrite (ok_false aa ok inc w) by (apply domain_no_gap, in_or_app; left; exact Hw).
  assert (H : forallb (degenerate_check inc) new_codes = true)
    by (destruct inc; [exact degenerate_checked_true|exact degenerate_checked_false]).
  rewrite forallb_forall in H. specialize (H _ Hin). unfold degenerate_check, degenerate_check_on in H.
  cbn [fst snd] in H. rewrite forallb_forall in H. apply option_Z_eqb_sound, (H w Hw).
Qed.

(** the first code of the table (the standard code): all 15^3 codons *)
Lemma degenerate_codon_first_code_lemma a b c ok inc :
  In a iupac_syms -> In b iupac_syms -> In c iupac_syms ->
  ropt (old_codon (snd (fst first_code)) ok inc [a; b; c])
  = degenerate_codon_spec (ncbi_tbl (fst (fst first_code))) inc [a; b; c].
Proof.
  intros Ha Hb Hc. pose proof (In_product3 _ a b c Ha Hb Hc) as Hw.
  rewrite (ok_false _ ok inc [a; b; c]) by (apply domain_no_gap, in_or_app; right; exact Hw).
  assert (H : degenerate_check_on (product3 iupac_syms) inc first_code = true)
    by (destruct inc; [exact degenerate_first_code_checked_true|exact degenerate_first_code_checked_false]).
  unfold degenerate_check_on in H. rewrite forallb_forall in H. apply option_Z_eqb_sound, (H _ Hw).
Qed.

Lemma In_by_eqb (w : str) l : existsb (str_eqb w) l = true -> In w l.
Proof.
  intros H. apply existsb_exists in H. destruct H as (u & Hu & E). apply str_eqb_eq in E. subst u. exact Hu.
Qed.

Example degen_domain_instances :
  In [82; 65; 89] degen_domain /\ In [65; 65; 66] degen_domain /\ In [78; 78; 78] degen_domain
  /\ In first_code new_codes /\ length degen_domain = 1063%nat.
Proof.
  split; [apply In_by_eqb; reflexivity|]. split; [apply In_by_eqb; reflexivity|].
  split; [apply In_by_eqb; reflexivity|]. split; [apply hd_In; reflexivity|reflexivity].
Qed.
