(** C12 — old Sequence.get_translation on codons of IUPAC symbols = the set-based specification. *)
From CG3 Require Import Lib.PyZ Lib.Val Model.GeneticCode Spec.GeneticCodeSpec Proofs.GeneticCodeProofs
  Proofs.GeneticCodeDegenDefs Proofs.GeneticCodeCollProofs Proofs.GeneticCodeDegenA Proofs.GeneticCodeDegenB.
From CG3gen Require Import GCTables.

Lemma degenerate_codon_lemma id aa st a b c ok inc :
  In (id, aa, st) new_codes -> In a iupac_syms -> In b iupac_syms -> In c iupac_syms ->
  ropt (old_codon aa ok inc [a; b; c]) = degenerate_codon_spec (ncbi_tbl id) inc [a; b; c].
Proof.
  intros Hin Ha Hb Hc.
  assert (E : old_codon aa ok inc [a; b; c] = old_codon aa false inc [a; b; c]).
  { destruct ok; [|reflexivity]. apply old_codon_ok_irrelevant, iupac_syms_no_gap; assumption. }
  rewrite E.
  assert (H : forallb (degenerate_check inc) new_codes = true)
    by (destruct inc; [exact degenerate_checked_true|exact degenerate_checked_false]).
  rewrite forallb_forall in H. specialize (H _ Hin). unfold degenerate_check in H. cbn [fst snd] in H.
  rewrite forallb_forall in H. specialize (H [a; b; c] (In_product3 _ a b c Ha Hb Hc)).
  apply option_Z_eqb_sound, H.
Qed.
