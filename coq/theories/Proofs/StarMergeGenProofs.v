(** C18 — star merge, general theorems: for EVERY reference and EVERY list of
    pairwise alignments to it, the model of [pairwise_to_multiple] with the
    repaired [_GapOffset] rule returns rows of equal length in which every
    pairwise alignment is the projection of (reference row, its row); the pinned
    rule does the same whenever no new reference gap falls strictly inside a gap
    of the other sequence. *)
From CG3 Require Import Lib.PyZ Lib.Val Model.PairAlign Spec.AlignSpec Model.StarMerge
  Proofs.StarRows Proofs.StarDict Proofs.StarMergeProofs.

(** ------------------------------------------------------------------ folds that set keys *)

Lemma fold_left_ext_in {A B} (f g : A -> B -> A) l : forall a,
  (forall a b, In b l -> f a b = g a b) -> fold_left f l a = fold_left g l a.
Proof.
  induction l as [|b l IH]; intros a H; [reflexivity|]. cbn [fold_left].
  rewrite (H a b (or_introl eq_refl)). apply IH. intros; apply H; right; assumption.
Qed.

Lemma foldset (kf vf : Z * Z -> Z) : forall items acc,
  ksorted acc ->
  let res := fold_left (fun acc kv => dset acc (kf kv) (vf kv)) items acc in
  ksorted res /\
  (forall k, (forall kv, In kv items -> kf kv <> k) -> dget res k = dget acc k) /\
  (NoDup (map kf items) -> forall kv, In kv items -> dget res (kf kv) = Some (vf kv)).
Proof.
  induction items as [|kv0 items IH]; intros acc Hs; cbn [fold_left].
  - split; [exact Hs|]. split; [reflexivity | intros _ kv []].
  - pose proof (dset_sorted acc (kf kv0) (vf kv0) Hs) as Hs'.
    destruct (IH _ Hs') as (H1 & H2 & H3). split; [exact H1|]. split.
    + intros k Hk. rewrite H2 by (intros kv Hin; apply Hk; right; exact Hin).
      rewrite dget_dset by exact Hs. destruct (k =? kf kv0) eqn:E; [|reflexivity].
      apply Z.eqb_eq in E. exfalso. apply (Hk kv0); [left; reflexivity | congruence].
    + intros Hnd kv [<- | Hin]; cbn [map] in Hnd; inversion Hnd as [|? ? Hnotin Hnd']; subst.
      * rewrite H2.
        -- rewrite dget_dset by exact Hs. rewrite Z.eqb_refl. reflexivity.
        -- intros kv Hin E. apply Hnotin. rewrite <- E. apply in_map. exact Hin.
      * apply H3; assumption.
Qed.

(** ------------------------------------------------------------------ the union of the reference's gaps *)

(** a gap dict over a sequence of m residues *)
Definition Uok (m : Z) (d : gdict) : Prop :=
  ksorted d /\ forall k v, dget d k = Some v -> 0 <= k <= m /\ 0 <= v.

Lemma dget0_nonneg m d k : Uok m d -> 0 <= dget0 d k.
Proof. intros (_ & H). unfold dget0. destruct (dget d k) eqn:E; [apply (H _ _ E) | lia]. Qed.

Lemma existsb_key_dget d k : ksorted d -> existsb (fun kv => k =? fst kv) d = match dget d k with Some _ => true | None => false end.
Proof.
  induction d as [|[k1 v1] d IH]; intros Hs; [reflexivity|]. destruct Hs as (_ & Hs).
  cbn [existsb dget fst]. rewrite (Z.eqb_sym k k1). destruct (k1 =? k); [reflexivity|]. apply IH. exact Hs.
Qed.

Lemma merged_spec m a b : Uok m a -> Uok m b ->
  Uok m (merged_gaps a b) /\ forall k, dget0 (merged_gaps a b) k = Z.max (dget0 a k) (dget0 b k).
Proof.
  intros Ha Hb.
  destruct a as [|a0 a'] eqn:Ea.
  { cbn [merged_gaps]. split; [exact Hb|]. intros k. pose proof (dget0_nonneg m b k Hb). unfold dget0 at 2. cbn [dget]. lia. }
  destruct b as [|b0 b'] eqn:Eb.
  { cbn [merged_gaps]. split; [exact Ha|]. intros k. pose proof (dget0_nonneg m _ k Ha). unfold dget0 at 3. cbn [dget]. lia. }
  rewrite <- Ea, <- Eb in *. 
  assert (Em : merged_gaps a b =
               fold_left (fun acc kv => dset acc (fst kv) (Z.max (dget0 a (fst kv)) (dget0 b (fst kv)))) (a ++ b) []).
  { rewrite Ea, Eb. reflexivity. }
  rewrite Em. clear Em.
  set (F := fun k => Z.max (dget0 a k) (dget0 b k)).
  assert (G : forall (items : gdict) (acc : gdict), ksorted acc ->
              let res := fold_left (fun (acc : gdict) (kv : Z * Z) => dset acc (fst kv) (F (fst kv))) items acc in
              ksorted res /\ forall k, dget res k = if existsb (fun kv : Z * Z => k =? fst kv) items then Some (F k) else dget acc k).
  { induction items as [|kv0 items IH]; intros acc Hs; cbn [fold_left existsb]; [split; auto|].
    pose proof (dset_sorted acc (fst kv0) (F (fst kv0)) Hs) as Hs'.
    destruct (IH _ Hs') as (H1 & H2). split; [exact H1|]. intros k. rewrite H2.
    destruct (existsb (fun kv => k =? fst kv) items); [rewrite orb_true_r; reflexivity|]. rewrite orb_false_r.
    rewrite dget_dset by exact Hs. destruct (k =? fst kv0) eqn:E; [|reflexivity].
    apply Z.eqb_eq in E. rewrite E. reflexivity. }
  destruct (G (a ++ b) [] I) as (G1 & G2). fold F.
  destruct Ha as (Hsa & Hra). destruct Hb as (Hsb & Hrb).
  assert (Hex : forall k, existsb (fun kv => k =? fst kv) (a ++ b) =
                          match dget a k, dget b k with None, None => false | _, _ => true end).
  { intros k. rewrite existsb_app, !existsb_key_dget by assumption. destruct (dget a k), (dget b k); reflexivity. }
  split.
  - split; [exact G1|]. intros k v Hk. rewrite G2, Hex in Hk.
    destruct (dget a k) eqn:E1; [|destruct (dget b k) eqn:E2; [|discriminate]].
    + destruct (Hra _ _ E1). injection Hk as <-. unfold F. pose proof (dget0_nonneg m b k (conj Hsb Hrb)).
      unfold dget0 at 1. rewrite E1. lia.
    + destruct (Hrb _ _ E2). injection Hk as <-. unfold F. unfold dget0. rewrite E1, E2. lia.
  - intros k. unfold dget0 at 1. rewrite G2, Hex. unfold F.
    destruct (dget a k) eqn:E1; [reflexivity|]. destruct (dget b k) eqn:E2; [reflexivity|].
    unfold dget0. rewrite E1, E2. reflexivity.
Qed.

Lemma gaps_of_row_Uok r : Uok (zlen (degap r)) (gaps_of_row r).
Proof.
  unfold gaps_of_row. split; [apply sparse_sorted|]. intros k v Hk.
  apply dget_In in Hk.
  pose proof (sparse_keys_range (counts r) 0) as Hr. rewrite Forall_forall in Hr. specialize (Hr _ Hk). cbn [fst] in Hr.
  pose proof (sparse_pos (counts r) 0) as Hp. rewrite Forall_forall in Hp. specialize (Hp _ Hk). cbn [snd] in Hp.
  rewrite counts_length in Hr. unfold zlen. lia.
Qed.

Lemma union_spec m : forall (pw : list (list Z * list Z)) acc,
  Uok m acc -> (forall ro, In ro pw -> zlen (degap (fst ro)) = m) ->
  let U := fold_left (fun acc (ro : list Z * list Z) => merged_gaps acc (gaps_of_row (fst ro))) pw acc in
  Uok m U /\ (forall k, dget0 acc k <= dget0 U k) /\
  (forall ro, In ro pw -> forall k, dget0 (gaps_of_row (fst ro)) k <= dget0 U k).
Proof.
  induction pw as [|ro pw IH]; intros acc Hacc Hm; cbn [fold_left].
  - split; [exact Hacc|]. split; [intros; lia | intros ro []].
  - assert (Hg : Uok m (gaps_of_row (fst ro))).
    { rewrite <- (Hm ro (or_introl eq_refl)). apply gaps_of_row_Uok. }
    destruct (merged_spec m acc _ Hacc Hg) as (Hok & Hmax).
    destruct (IH _ Hok (fun ro' H => Hm ro' (or_intror H))) as (H1 & H2 & H3).
    split; [exact H1|]. split.
    + intros k. specialize (H2 k). rewrite Hmax in H2. lia.
    + intros ro' [<- | Hin] k.
      * specialize (H2 k). rewrite Hmax in H2. lia.
      * apply H3. exact Hin.
Qed.

(** ------------------------------------------------------------------ the new reference gaps, in alignment coordinates *)

Definition miss_of (g U : gdict) : gdict :=
  filter (fun kv => match dget g (fst kv) with None => true | Some _ => false end) U.

Definition over_of (g U : gdict) : gdict :=
  flat_map (fun kv => match dget g (fst kv) with
                      | Some l0 => if l0 =? snd kv then [] else [(fst kv, snd kv - l0)]
                      | None => [] end) U.

Lemma gap_difference_gen g : forall U m0 o0,
  ksorted U -> (forall kv, In kv m0 -> kabove (fst kv) U) -> (forall kv, In kv o0 -> kabove (fst kv) U) ->
  fold_left (fun (acc : gdict * gdict) (kv : Z * Z) =>
               let '(missing, over) := acc in
               let '(p, L) := kv in
               match dget g p with
               | None => (dset missing p L, over)
               | Some l0 => if l0 =? L then (missing, over) else (missing, dset over p (L - l0))
               end) U (m0, o0) = (m0 ++ miss_of g U, o0 ++ over_of g U).
Proof.
  induction U as [|[p L] U IH]; intros m0 o0 Hs Hm Ho.
  - cbn. rewrite !app_nil_r. reflexivity.
  - destruct Hs as (Ha & Hs). cbn [fst] in Ha.
    assert (Hlt : forall l : gdict, (forall kv, In kv l -> kabove (fst kv) ((p, L) :: U)) -> Forall (fun kv : Z * Z => fst kv < p) l).
    { intros l H. apply Forall_forall. intros kv Hin. specialize (H _ Hin). inversion H; subst. cbn [fst] in *. lia. }
    assert (Htl : forall l : gdict, (forall kv, In kv l -> kabove (fst kv) ((p, L) :: U)) -> forall kv, In kv l -> kabove (fst kv) U).
    { intros l H kv Hin. specialize (H _ Hin). inversion H; subst. assumption. }
    cbn [fold_left miss_of over_of filter flat_map fst snd].
    destruct (dget g p) as [l0|] eqn:Eg.
    + destruct (l0 =? L) eqn:El.
      * cbn [app]. apply IH; eauto.
      * rewrite (dset_append o0) by (apply Hlt; exact Ho).
        rewrite IH; [rewrite <- app_assoc; reflexivity | exact Hs | eauto |].
        intros kv Hin. apply in_app_or in Hin. destruct Hin as [Hin | [<- | []]]; [eauto | exact Ha].
    + rewrite (dset_append m0) by (apply Hlt; exact Hm).
      rewrite IH; [rewrite <- app_assoc; reflexivity | exact Hs | | eauto].
      intros kv Hin. apply in_app_or in Hin. destruct Hin as [Hin | [<- | []]]; [eauto | exact Ha].
Qed.

Lemma gap_difference_eq g U : ksorted U -> gap_difference g U = (miss_of g U, over_of g U).
Proof. intros Hs. unfold gap_difference. rewrite (gap_difference_gen g U [] [] Hs); [reflexivity | intros ? [] | intros ? []]. Qed.

Lemma miss_of_sorted g U : ksorted U -> ksorted (miss_of g U).
Proof.
  induction U as [|kv U IH]; intros Hs; [exact I|]. destruct Hs as (Ha & Hs). cbn [miss_of filter].
  fold (miss_of g U). destruct (dget g (fst kv)); [apply IH; exact Hs|].
  cbn [ksorted]. split; [|apply IH; exact Hs].
  unfold kabove in *. rewrite Forall_forall in *. intros x Hx. apply Ha. unfold miss_of in Hx. apply filter_In in Hx. tauto.
Qed.

Lemma over_of_In g U p L' : In (p, L') (over_of g U) <->
  exists u l0, In (p, u) U /\ dget g p = Some l0 /\ l0 <> u /\ L' = u - l0.
Proof.
  unfold over_of. rewrite in_flat_map. split.
  - intros ([p0 u] & Hin & H). cbn [fst snd] in H. destruct (dget g p0) as [l0|] eqn:Eg; [|destruct H].
    destruct (l0 =? u) eqn:El; [destruct H|]. apply Z.eqb_neq in El. destruct H as [H | []]. inversion H; subst.
    exists u, l0. auto.
  - intros (u & l0 & Hin & Eg & Hne & ->). exists (p, u). split; [exact Hin|]. cbn [fst snd]. rewrite Eg.
    destruct (l0 =? u) eqn:El; [apply Z.eqb_eq in El; congruence|]. left. reflexivity.
Qed.

Lemma over_of_sorted g U : ksorted U -> ksorted (over_of g U).
Proof.
  induction U as [|[p u] U IH]; intros Hs; [exact I|]. destruct Hs as (Ha & Hs). cbn [fst] in Ha.
  cbn [over_of flat_map fst snd]. fold (over_of g U).
  destruct (dget g p) as [l0|]; [|apply IH; exact Hs]. destruct (l0 =? u); [apply IH; exact Hs|].
  cbn [app ksorted fst]. split; [|apply IH; exact Hs].
  unfold kabove. rewrite Forall_forall. intros [p' L'] Hx. apply over_of_In in Hx.
  destruct Hx as (u' & l0' & Hin & _). unfold kabove in Ha. rewrite Forall_forall in Ha. apply (Ha _ Hin).
Qed.

Definition colZ (g : gdict) (p : Z) : Z := p + sumlt g p + dget0 g p.

Lemma sumlt_nonneg g p : Forall (fun kv => 0 < snd kv) g -> 0 <= sumlt g p.
Proof. induction 1 as [|[k L] g HL _ IH]; cbn [sumlt snd] in *; [lia|]. destruct (k <? p); lia. Qed.

Lemma sumlt_step g : forall p p', ksorted g -> Forall (fun kv => 0 < snd kv) g -> p < p' ->
  sumlt g p + dget0 g p <= sumlt g p'.
Proof.
  induction g as [|[k L] g IH]; intros p p' Hs Hpos Hp; [cbn; unfold dget0; cbn; lia|].
  destruct Hs as (Ha & Hs). cbn [fst] in Ha. inversion Hpos as [|? ? HL Hpos']; subst. cbn [snd] in HL.
  specialize (IH p p' Hs Hpos' Hp). pose proof (sumlt_nonneg g p' Hpos').
  cbn [sumlt]. unfold dget0 in *. cbn [dget].
  destruct (k =? p) eqn:E1.
  - apply Z.eqb_eq in E1. subst k. rewrite Z.ltb_irrefl.
    replace (p <? p') with true by (symmetry; apply Z.ltb_lt; lia).
    rewrite (sumlt_above g p p Ha) by lia. lia.
  - apply Z.eqb_neq in E1. destruct (k <? p) eqn:E2.
    + apply Z.ltb_lt in E2. replace (k <? p') with true by (symmetry; apply Z.ltb_lt; lia). lia.
    + apply Z.ltb_ge in E2. rewrite (dget_above g k p Ha) in * by lia.
      rewrite (sumlt_above g k p Ha) in * by lia. destruct (k <? p'); lia.
Qed.

Lemma colZ_mono g p p' : gwf g -> 0 <= p < p' -> colZ g p < colZ g p'.
Proof.
  intros (Hs & Hpos & _) Hp. unfold colZ. pose proof (sumlt_step g p p' Hs Hpos ltac:(lia)).
  assert (0 <= dget0 g p').
  { unfold dget0. destruct (dget g p') eqn:E; [|lia]. apply dget_In in E. rewrite Forall_forall in Hpos. specialize (Hpos _ E). cbn in Hpos. lia. }
  lia.
Qed.

Lemma colZ_inj g p p' : gwf g -> 0 <= p -> 0 <= p' -> colZ g p = colZ g p' -> p = p'.
Proof.
  intros Hg Hp Hp' E. destruct (Z.lt_trichotomy p p') as [H | [H | H]]; [|exact H|].
  - pose proof (colZ_mono g p p' Hg ltac:(lia)). lia.
  - pose proof (colZ_mono g p' p Hg ltac:(lia)). lia.
Qed.

Lemma NoDup_colZ g l : gwf g -> ksorted l -> (forall kv, In kv l -> 0 <= fst kv) ->
  NoDup (map (fun kv : Z * Z => colZ g (fst kv)) l).
Proof.
  intros Hg. induction l as [|kv l IH]; intros Hs Hnn; cbn [map]; [constructor|].
  destruct Hs as (Ha & Hs). constructor; [|apply IH; [exact Hs | intros; apply Hnn; right; assumption]].
  intros Hin. apply in_map_iff in Hin. destruct Hin as (kv' & E & Hin').
  unfold kabove in Ha. rewrite Forall_forall in Ha. specialize (Ha _ Hin').
  pose proof (Hnn kv (or_introl eq_refl)). pose proof (colZ_mono g (fst kv) (fst kv') Hg ltac:(lia)). lia.
Qed.

(** what [_combined_refseq_gaps] returns *)
Lemma combined_spec m g U :
  gwf g -> Uok m U ->
  let C := combined_refseq_gaps g U in
  ksorted C /\
  (forall c L, dget C c = Some L -> exists p u, dget U p = Some u /\ c = colZ g p /\ L = u - dget0 g p) /\
  (forall p u, dget U p = Some u -> u <> dget0 g p -> dget C (colZ g p) = Some (u - dget0 g p)).
Proof.
  intros Hg (HsU & HrU).
  unfold combined_refseq_gaps. rewrite (gap_difference_eq g U HsU).
  set (kf := fun kv : Z * Z => colZ g (fst kv)).
  (* both loops set the key colZ (fst kv) *)
  rewrite (fold_left_ext_in _ (fun (acc : gdict) (kv : Z * Z) => dset acc (kf kv) (snd kv)) (over_of g U)).
  2:{ intros acc [p L'] Hin. cbn [fst snd]. unfold kf, colZ. cbn [fst]. rewrite (go_get_fwd false g p Hg). f_equal. lia. }
  rewrite (fold_left_ext_in _ (fun (acc : gdict) (kv : Z * Z) => dset acc (kf kv) (snd kv)) (miss_of g U)).
  2:{ intros acc [p L'] Hin. cbn [fst snd]. unfold kf, colZ. cbn [fst]. rewrite (go_get_fwd false g p Hg).
      unfold miss_of in Hin. apply filter_In in Hin. destruct Hin as (_ & Hin). cbn [fst] in Hin.
      unfold dget0. destruct (dget g p); [discriminate|]. f_equal. lia. }
  destruct (foldset kf snd (over_of g U) [] I) as (S1 & A1 & B1).
  set (R1 := fold_left (fun (acc : gdict) (kv : Z * Z) => dset acc (kf kv) (snd kv)) (over_of g U) []) in *.
  destruct (foldset kf snd (miss_of g U) R1 S1) as (S2 & A2 & B2).
  set (C := fold_left (fun (acc : gdict) (kv : Z * Z) => dset acc (kf kv) (snd kv)) (miss_of g U) R1) in *.
  assert (Hnn_over : forall kv, In kv (over_of g U) -> 0 <= fst kv).
  { intros [p L'] Hin. apply over_of_In in Hin. destruct Hin as (u & l0 & Hin & _).
    apply (In_dget U p u HsU) in Hin. apply (HrU _ _ Hin). }
  assert (Hnn_miss : forall kv, In kv (miss_of g U) -> 0 <= fst kv).
  { intros [p L'] Hin. unfold miss_of in Hin. apply filter_In in Hin. destruct Hin as (Hin & _).
    apply (In_dget U p L' HsU) in Hin. apply (HrU _ _ Hin). }
  specialize (B1 (NoDup_colZ g _ Hg (over_of_sorted g U HsU) Hnn_over)).
  specialize (B2 (NoDup_colZ g _ Hg (miss_of_sorted g U HsU) Hnn_miss)).
  split; [exact S2|]. split.
  - intros c L' Hc.
    destruct (in_dec Z.eq_dec c (map kf (miss_of g U))) as [Hin | Hnin].
    + apply in_map_iff in Hin. destruct Hin as ([p u] & Ekf & Hin). rewrite <- Ekf in Hc.
      rewrite (B2 _ Hin) in Hc. injection Hc as <-. cbn [snd].
      unfold miss_of in Hin. apply filter_In in Hin. destruct Hin as (Hin & Hg0). cbn [fst] in Hg0.
      exists p, u. split; [apply In_dget; assumption|]. split; [rewrite <- Ekf; reflexivity|].
      unfold dget0. destruct (dget g p); [discriminate | lia].
    + rewrite A2 in Hc by (intros kv Hin E; apply Hnin; rewrite <- E; apply in_map; exact Hin).
      destruct (in_dec Z.eq_dec c (map kf (over_of g U))) as [Hin | Hnin2].
      * apply in_map_iff in Hin. destruct Hin as ([p L2] & Ekf & Hin). rewrite <- Ekf in Hc.
        rewrite (B1 _ Hin) in Hc. injection Hc as <-. cbn [snd].
        apply over_of_In in Hin. destruct Hin as (u & l0 & Hin & Eg & Hne & ->).
        exists p, u. split; [apply In_dget; assumption|]. split; [rewrite <- Ekf; reflexivity|].
        unfold dget0. rewrite Eg. reflexivity.
      * rewrite A1 in Hc by (intros kv Hin E; apply Hnin2; rewrite <- E; apply in_map; exact Hin). discriminate.
  - intros p u Hu Hne. apply dget_In in Hu as Hin.
    destruct (dget g p) as [l0|] eqn:Eg.
    + assert (Ho : In (p, u - l0) (over_of g U)).
      { apply over_of_In. exists u, l0. unfold dget0 in Hne. rewrite Eg in Hne. auto. }
      change (colZ g p) with (kf (p, u - l0)).
      rewrite A2.
      * rewrite (B1 _ Ho). unfold dget0. rewrite Eg. reflexivity.
      * intros [p' L'] Hin' E. unfold kf in E. cbn [fst] in E.
        pose proof (Hnn_miss _ Hin') as Hp'. cbn [fst] in Hp'. destruct (HrU _ _ Hu) as (Hp & _).
        apply (colZ_inj g p' p Hg Hp' ltac:(lia)) in E. subst p'.
        unfold miss_of in Hin'. apply filter_In in Hin'. destruct Hin' as (_ & Hx). cbn [fst] in Hx. rewrite Eg in Hx. discriminate.
    + assert (Hm : In (p, u) (miss_of g U)).
      { unfold miss_of. apply filter_In. split; [exact Hin|]. cbn [fst]. rewrite Eg. reflexivity. }
      change (colZ g p) with (kf (p, u)). rewrite (B2 _ Hm). unfold dget0. rewrite Eg. cbn [snd]. f_equal. lia.
Qed.

(** ------------------------------------------------------------------ injecting the new gaps into the other sequence *)

Fixpoint addat (items : gdict) (key : Z -> Z) (q : Z) : Z :=
  match items with [] => 0 | (c, L) :: rest => (if key c =? q then L else 0) + addat rest key q end.

Lemma addat_ext items key key' q :
  (forall kv, In kv items -> key (fst kv) = key' (fst kv)) -> addat items key q = addat items key' q.
Proof.
  induction items as [|[c L] rest IH]; intros H; [reflexivity|]. cbn [addat].
  pose proof (H (c, L) (or_introl eq_refl)) as Hc. cbn [fst] in Hc. rewrite Hc.
  rewrite IH; [reflexivity|]. intros; apply H; right; assumption.
Qed.

Lemma addat_none items key q : (forall kv, In kv items -> key (fst kv) <> q) -> addat items key q = 0.
Proof.
  induction items as [|[c L] rest IH]; intros H; [reflexivity|]. cbn [addat].
  pose proof (H (c, L) (or_introl eq_refl)) as Hc. cbn [fst] in Hc.
  destruct (key c =? q) eqn:E; [apply Z.eqb_eq in E; congruence|]. rewrite IH; [lia|]. intros; apply H; right; assumption.
Qed.

(** SUM1: when exactly the key c0 is sent to q, the sum is the entry of c0 *)
Lemma addat_unique items key q c0 :
  ksorted items -> (forall kv, In kv items -> (key (fst kv) = q <-> fst kv = c0)) ->
  addat items key q = dget0 items c0.
Proof.
  induction items as [|[c L] rest IH]; intros Hs H; [reflexivity|].
  destruct Hs as (Ha & Hs). cbn [fst] in Ha. cbn [addat]. unfold dget0. cbn [dget].
  pose proof (H (c, L) (or_introl eq_refl)) as Hc. cbn [fst] in Hc.
  destruct (c =? c0) eqn:E.
  - apply Z.eqb_eq in E. subst c0. replace (key c =? q) with true by (symmetry; apply Z.eqb_eq; tauto).
    rewrite addat_none; [lia|]. intros kv Hin Hk. apply (H kv (or_intror Hin)) in Hk.
    unfold kabove in Ha. rewrite Forall_forall in Ha. specialize (Ha _ Hin). lia.
  - apply Z.eqb_neq in E. replace (key c =? q) with false by (symmetry; apply Z.eqb_neq; tauto).
    fold (dget0 rest c0). rewrite <- IH; [lia | exact Hs |]. intros; apply H; right; assumption.
Qed.

Definition inj_step (key : Z -> Z) (acc : option gdict) (kv : Z * Z) : option gdict :=
  match acc with
  | None => None
  | Some allg =>
      let '(gp, gl) := kv in
      let gp := key gp in
      if gp <? 0 then None
      else Some (dset allg gp (match dget allg gp with Some l0 => gl + l0 | None => gl end))
  end.

Lemma inj_fold key : forall items allg,
  ksorted allg -> (forall kv, In kv items -> 0 <= key (fst kv)) ->
  exists res, fold_left (inj_step key) items (Some allg) = Some res /\ ksorted res /\
              (forall q, dget0 res q = dget0 allg q + addat items key q) /\
              (items <> [] -> res <> []).
Proof.
  induction items as [|[c L] rest IH]; intros allg Hs Hk.
  - exists allg. cbn. repeat split; auto. intros; lia.
  - cbn [fold_left inj_step].
    pose proof (Hk (c, L) (or_introl eq_refl)) as Hc. cbn [fst] in Hc.
    replace (key c <? 0) with false by (symmetry; apply Z.ltb_ge; lia).
    set (allg' := dset allg (key c) (match dget allg (key c) with Some l0 => L + l0 | None => L end)).
    destruct (IH allg' (dset_sorted _ _ _ Hs) (fun kv H => Hk kv (or_intror H))) as (res & E & Hsr & Hq & Hne).
    exists res. split; [exact E|]. split; [exact Hsr|]. split.
    + intros q. rewrite Hq. unfold allg'. rewrite dget0_dset by exact Hs. cbn [addat].
      rewrite (Z.eqb_sym (key c) q). destruct (q =? key c) eqn:E2; [|lia].
      apply Z.eqb_eq in E2. subst q. unfold dget0. destruct (dget allg (key c)); lia.
    + intros _. destruct rest as [|kv rest'].
      * cbn in E. injection E as <-. apply dset_nonempty.
      * apply Hne. discriminate.
Qed.

Lemma gaps_for_injection_unfold fixed og C seqlen :
  gaps_for_injection fixed og C seqlen =
  fold_left (inj_step (fun c => Z.min seqlen (c - go_get fixed (mk_gap_offset og true) c))) C (Some og).
Proof. reflexivity. Qed.

Lemma bump_all_nth row l : forall items n,
  (forall kv, In kv items -> (resbefore row (Z.to_nat (fst kv)) < length l)%nat) -> (n < length l)%nat ->
  nth n (bump_all l row items) 0 =
  nth n l 0 + addat items (fun c => Z.of_nat (resbefore row (Z.to_nat c))) (Z.of_nat n).
Proof.
  induction items as [|[c L] rest IH]; intros n Hk Hn; cbn [bump_all addat]; [lia|].
  pose proof (Hk (c, L) (or_introl eq_refl)) as Hc. cbn [fst] in Hc.
  rewrite bump_nth by (rewrite bump_all_length; exact Hc).
  rewrite IH by (auto; intros; apply Hk; right; assumption).
  destruct (Nat.eqb n (resbefore row (Z.to_nat c))) eqn:E.
  - apply Nat.eqb_eq in E. replace (Z.of_nat (resbefore row (Z.to_nat c)) =? Z.of_nat n) with true by (symmetry; apply Z.eqb_eq; lia). lia.
  - apply Nat.eqb_neq in E. replace (Z.of_nat (resbefore row (Z.to_nat c)) =? Z.of_nat n) with false by (symmetry; apply Z.eqb_neq; lia). lia.
Qed.

Lemma resbefore_le row c : (resbefore row c <= length (degap row))%nat.
Proof.
  unfold resbefore. rewrite <- (firstn_skipn c row) at 2. rewrite degap_app, app_length. lia.
Qed.

Lemma items_ok_of_sorted n : forall C lo,
  ksorted C -> (forall kv, In kv C -> lo <= fst kv /\ 0 <= fst kv <= Z.of_nat n /\ 0 <= snd kv) -> items_ok n lo C.
Proof.
  induction C as [|[c L] rest IH]; intros lo Hs H; cbn [items_ok]; [exact I|].
  destruct Hs as (Ha & Hs). cbn [fst] in Ha.
  pose proof (H (c, L) (or_introl eq_refl)) as Hc. cbn [fst snd] in Hc.
  repeat split; try lia. apply IH; [exact Hs|]. intros kv Hin.
  unfold kabove in Ha. rewrite Forall_forall in Ha. specialize (Ha _ Hin).
  destruct (H kv (or_intror Hin)) as (_ & H2 & H3). repeat split; lia.
Qed.

Lemma zsum_firstn_S l : forall n, (n < length l)%nat -> zsum (firstn (S n) l) = zsum (firstn n l) + nth n l 0.
Proof.
  induction l as [|c l IH]; intros n Hn; [cbn in Hn; lia|].
  destruct n as [|n]; [cbn; lia|]. rewrite !firstn_cons. cbn [zsum nth].
  rewrite IH by (cbn in Hn; lia). lia.
Qed.

(** the alignment column of reference residue n in the row r *)
Lemma colZ_row r n : (n <= length (degap r))%nat ->
  colZ (gaps_of_row r) (Z.of_nat n) = Z.of_nat (n + Z.to_nat (zsum (firstn (S n) (counts r)))).
Proof.
  intros Hn. unfold colZ, gaps_of_row.
  pose proof (counts_nonneg r) as Hnn. pose proof (counts_length r) as Hlen.
  replace (Z.of_nat n) with (0 + Z.of_nat n) by lia.
  rewrite sumlt_sparse by exact Hnn. rewrite sparse_get by (auto; lia).
  rewrite zsum_firstn_S by lia.
  pose proof (zsum_nonneg _ (@firstn_nonneg n _ Hnn)).
  assert (0 <= nth n (counts r) 0).
  { rewrite Forall_forall in Hnn. apply Hnn. apply nth_In. lia. }
  lia.
Qed.

(** ------------------------------------------------------------------ one pairwise alignment *)

Definition newgaps (r : list Z) (U : gdict) : gdict := combined_refseq_gaps (gaps_of_row r) U.

Lemma dget0_some d k v : dget d k = Some v -> dget0 d k = v.
Proof. unfold dget0. intros ->. reflexivity. Qed.
Lemma dget0_none d k : dget d k = None -> dget0 d k = 0.
Proof. unfold dget0. intros ->. reflexivity. Qed.

Lemma colpos r n : (n <= length (degap r))%nat ->
  let cn := (n + Z.to_nat (zsum (firstn (S n) (counts r))))%nat in
  colZ (gaps_of_row r) (Z.of_nat n) = Z.of_nat cn /\ (cn <= length r)%nat /\ resbefore r cn = n.
Proof.
  intros Hn cn. split; [apply colZ_row; exact Hn|].
  pose proof (rescol n (degap r) (counts r) (degap_res r) (counts_nonneg r) (counts_length r) Hn) as H.
  rewrite build_counts in H. exact H.
Qed.

Lemma newgaps_facts ref r U :
  degap r = ref -> Uok (zlen ref) U -> (forall k, dget0 (gaps_of_row r) k <= dget0 U k) ->
  let g := gaps_of_row r in let C := newgaps r U in
  ksorted C /\
  (forall kv, In kv C -> exists n, (n <= length ref)%nat /\ fst kv = colZ g (Z.of_nat n) /\
                                   snd kv = dget0 U (Z.of_nat n) - dget0 g (Z.of_nat n)) /\
  (forall n, dget0 C (colZ g (Z.of_nat n)) = dget0 U (Z.of_nat n) - dget0 g (Z.of_nat n)).
Proof.
  intros Hr HU Hge g C.
  pose proof (gaps_of_row_gwf r) as Hg. fold g in Hg.
  destruct (combined_spec (zlen ref) g U Hg HU) as (HsC & C2 & C3).
  change (combined_refseq_gaps g U) with C in HsC, C2, C3.
  destruct HU as (HsU & HrU).
  split; [exact HsC|]. split.
  - intros [c L] Hin. apply (In_dget C c L HsC) in Hin. destruct (C2 _ _ Hin) as (p & u & Hu & -> & ->).
    destruct (HrU _ _ Hu) as (Hp & _). exists (Z.to_nat p). unfold zlen in Hp.
    replace (Z.of_nat (Z.to_nat p)) with p by lia. cbn [fst snd]. repeat split; try lia.
    rewrite (dget0_some _ _ _ Hu). reflexivity.
  - intros n. set (p := Z.of_nat n).
    assert (H0 : 0 <= dget0 g p).
    { unfold dget0. destruct (dget g p) eqn:E; [|lia]. apply dget_In in E. destruct Hg as (_ & Hpos & _).
      rewrite Forall_forall in Hpos. specialize (Hpos _ E). cbn in Hpos. lia. }
    destruct (dget U p) as [u|] eqn:Eu.
    + rewrite (dget0_some U p u Eu).
      destruct (Z.eq_dec u (dget0 g p)) as [E | E].
      * destruct (dget C (colZ g p)) as [L|] eqn:Ec; [|rewrite (dget0_none _ _ Ec); lia].
        rewrite (dget0_some _ _ _ Ec).
        destruct (C2 _ _ Ec) as (p' & u' & Hu' & Hcol & ->).
        destruct (HrU _ _ Hu') as (Hp' & _).
        apply (colZ_inj g p p' Hg ltac:(unfold p; lia) ltac:(lia)) in Hcol. subst p'. rewrite Eu in Hu'. injection Hu' as <-. lia.
      * rewrite (dget0_some _ _ _ (C3 _ _ Eu E)). reflexivity.
    + rewrite (dget0_none U p Eu). pose proof (Hge p) as H1. rewrite (dget0_none U p Eu) in H1. fold g in H1.
      destruct (dget C (colZ g p)) as [L|] eqn:Ec; [|rewrite (dget0_none _ _ Ec); lia].
      destruct (C2 _ _ Ec) as (p' & u' & Hu' & Hcol & ->).
      destruct (HrU _ _ Hu') as (Hp' & _).
      apply (colZ_inj g p p' Hg ltac:(unfold p; lia) ltac:(lia)) in Hcol. subst p'. rewrite Eu in Hu'. discriminate.
Qed.

Lemma newgaps_items_ok ref r U :
  degap r = ref -> Uok (zlen ref) U -> (forall k, dget0 (gaps_of_row r) k <= dget0 U k) ->
  items_ok (length r) 0 (newgaps r U).
Proof.
  intros Hr HU Hge. destruct (newgaps_facts ref r U Hr HU Hge) as (HsC & Hmem & _).
  apply items_ok_of_sorted; [exact HsC|]. intros kv Hin.
  destruct (Hmem _ Hin) as (n & Hn & Hc & HL). rewrite <- Hr in Hn.
  destruct (colpos r n Hn) as (E & Hle & _). rewrite E in Hc. specialize (Hge (Z.of_nat n)). lia.
Qed.

(** alpha: the reference row of the multiple alignment is the pairwise reference row with the new gap columns inserted *)
Lemma ref_row_ins ref r U :
  degap r = ref -> Uok (zlen ref) U -> (forall k, dget0 (gaps_of_row r) k <= dget0 U k) ->
  expand ref U = ins_many r (newgaps r U).
Proof.
  intros Hr HU Hge.
  destruct (newgaps_facts ref r U Hr HU Hge) as (HsC & Hmem & Hval).
  pose proof (newgaps_items_ok ref r U Hr HU Hge) as Hok.
  rewrite (ins_many_build r _ 0 Hok). rewrite Hr. unfold expand. rewrite expand_build. f_equal.
  assert (Hl : length (counts r) = S (length ref)) by (rewrite counts_length, Hr; reflexivity).
  apply (nth_ext _ _ 0 0).
  - rewrite fcounts_length, bump_all_length. symmetry. exact Hl.
  - rewrite fcounts_length. intros n Hn. rewrite fcounts_nth by exact Hn.
    assert (Hn' : (n <= length (degap r))%nat) by (rewrite Hr; lia).
    rewrite bump_all_nth.
    + rewrite (addat_unique _ _ (Z.of_nat n) (colZ (gaps_of_row r) (Z.of_nat n)) HsC).
      * rewrite Hval.
        assert (Hgn : dget0 (gaps_of_row r) (Z.of_nat n) = nth n (counts r) 0).
        { unfold gaps_of_row. replace (Z.of_nat n) with (0 + Z.of_nat n) by lia.
          apply sparse_get; [apply counts_nonneg | lia]. }
        replace (0 + Z.of_nat n) with (Z.of_nat n) by lia. cbv zeta. rewrite Hgn. lia.
      * intros kv Hin. destruct (Hmem _ Hin) as (n' & Hn'le & Hc & _). rewrite <- Hr in Hn'le.
        destruct (colpos r n' Hn'le) as (E & _ & Hrb). rewrite Hc, E, Nat2Z.id, Hrb. split.
        -- intros H. assert (n' = n) by lia. subst n'. symmetry. exact E.
        -- intros H. rewrite <- E in H.
           apply (colZ_inj _ _ _ (gaps_of_row_gwf r)) in H; lia.
    + intros kv Hin. destruct (Hmem _ Hin) as (n' & Hn'le & Hc & _). rewrite <- Hr in Hn'le.
      destruct (colpos r n' Hn'le) as (E & _ & Hrb). rewrite Hc, E, Nat2Z.id, Hrb. rewrite Hr in Hn'le. lia.
    + lia.
Qed.


Lemma items_ok_members n : forall C lo, items_ok n lo C -> forall kv, In kv C -> 0 <= fst kv <= Z.of_nat n /\ 0 <= snd kv.
Proof.
  induction C as [|[c L] rest IH]; intros lo H kv Hin; [destruct Hin|].
  cbn [items_ok] in H. destruct H as ((H0 & H1) & H2 & H3 & H4). destruct Hin as [<- | Hin]; [cbn; lia | eapply IH; eauto].
Qed.

(** the repaired rule turns an alignment column into the number of residues in front of it *)
Lemma key_fixed o c : 0 <= c <= Z.of_nat (length o) ->
  Z.min (zlen (degap_row o)) (c - go_get true (mk_gap_offset (gaps_of_row o) true) c) =
  Z.of_nat (resbefore o (Z.to_nat c)).
Proof.
  intros Hc. rewrite (go_get_inv true _ c (gaps_of_row_gwf o)) by lia.
  unfold gaps_of_row.
  pose proof (nbx_sparse (counts o) 0 0 (Z.to_nat c) (degap o) (degap_res o) (counts_nonneg o) (counts_length o) ltac:(lia)) as H.
  rewrite build_counts in H. specialize (H ltac:(lia)).
  replace (0 + 0 + Z.of_nat (Z.to_nat c)) with c in H by lia. rewrite H.
  pose proof (resbefore_le o (Z.to_nat c)). unfold zlen, degap_row. fold (degap o). lia.
Qed.

(** beta: with the repaired rule, the other sequence's row is its pairwise row with the same gap columns inserted *)
Lemma other_row_ins o C :
  ksorted C -> items_ok (length o) 0 C ->
  exists inj, gaps_for_injection true (gaps_of_row o) C (zlen (degap_row o)) = Some inj /\
              (match inj with [] => o | _ :: _ => expand (degap_row o) inj end) = ins_many o C.
Proof.
  intros HsC Hok. rewrite gaps_for_injection_unfold.
  set (key := fun c => Z.min (zlen (degap_row o)) (c - go_get true (mk_gap_offset (gaps_of_row o) true) c)).
  pose proof (items_ok_members _ _ _ Hok) as Hmem.
  assert (Hkey : forall kv, In kv C -> key (fst kv) = Z.of_nat (resbefore o (Z.to_nat (fst kv)))).
  { intros kv Hin. apply key_fixed. apply (Hmem _ Hin). }
  destruct (inj_fold key C (gaps_of_row o)) as (res & E & Hsr & Hq & Hne).
  { apply sparse_sorted. }
  { intros kv Hin. rewrite (Hkey _ Hin). lia. }
  exists res. split; [exact E|].
  destruct res as [|kv0 res'].
  - destruct C as [|kv C']; [reflexivity|]. exfalso. apply Hne; [discriminate | reflexivity].
  - rewrite (ins_many_build o C 0 Hok). unfold expand, degap_row. fold (degap o). rewrite expand_build. f_equal.
    pose proof (counts_length o) as Hl.
    apply (nth_ext _ _ 0 0).
    + rewrite fcounts_length, bump_all_length. symmetry. exact Hl.
    + rewrite fcounts_length. intros n Hn. rewrite fcounts_nth by exact Hn.
      replace (0 + Z.of_nat n) with (Z.of_nat n) by lia. rewrite Hq.
      rewrite bump_all_nth.
      * f_equal.
        -- unfold gaps_of_row. replace (Z.of_nat n) with (0 + Z.of_nat n) by lia.
           apply sparse_get; [apply counts_nonneg | lia].
        -- apply addat_ext. exact Hkey.
      * intros kv Hin. pose proof (resbefore_le o (Z.to_nat (fst kv))). lia.
      * lia.
Qed.

(** ------------------------------------------------------------------ the theorem for the repaired rule *)

Lemma ref_union_spec ref pw :
  Forall (pairwise_ok ref) pw ->
  Uok (zlen ref) (ref_union pw) /\
  forall ro, In ro pw -> forall k, dget0 (gaps_of_row (fst ro)) k <= dget0 (ref_union pw) k.
Proof.
  intros Hpw. unfold ref_union.
  destruct (union_spec (zlen ref) pw []) as (H1 & _ & H3).
  - split; [exact I | intros k v H; discriminate].
  - intros ro Hin. rewrite Forall_forall in Hpw. destruct (Hpw _ Hin) as (_ & Hd & _). rewrite Hd. reflexivity.
  - split; assumption.
Qed.

Lemma merge_row_fixed ref U r o :
  pairwise_ok ref (r, o) -> Uok (zlen ref) U -> (forall k, dget0 (gaps_of_row r) k <= dget0 U k) ->
  merge_row true U (r, o) = Some (ins_many o (newgaps r U)).
Proof.
  intros (Hlen & Hd & _) HU Hge. cbn [fst snd] in *.
  destruct (newgaps_facts ref r U Hd HU Hge) as (HsC & _ & _).
  pose proof (newgaps_items_ok ref r U Hd HU Hge) as Hok. rewrite Hlen in Hok.
  destruct (other_row_ins o (newgaps r U) HsC Hok) as (inj & E & Hrow).
  unfold merge_row. fold (newgaps r U). rewrite E. destruct inj; rewrite <- Hrow; reflexivity.
Qed.

Lemma Forall2_map_r {A B} (P : A -> B -> Prop) (f : A -> B) l :
  (forall x, In x l -> P x (f x)) -> Forall2 P l (map f l).
Proof. induction l as [|x l IH]; intros H; cbn [map]; constructor; [apply H; left; reflexivity | apply IH; intros; apply H; right; assumption]. Qed.

Theorem star_merge_fixed_correct ref pw :
  Forall isres ref -> Forall (pairwise_ok ref) pw ->
  exists rows,
    star_merge true ref pw = Some rows /\
    Forall2 (fun ro row => project (hd [] rows) row = ro) pw (tl rows) /\
    Forall (fun row => length row = length (hd [] rows)) rows.
Proof.
  intros Hres Hpw.
  destruct (ref_union_spec ref pw Hpw) as (HU & Hge).
  set (U := ref_union pw) in *.
  rewrite Forall_forall in Hpw.
  assert (Hrows : map (merge_row true U) pw = map (fun ro => Some (ins_many (snd ro) (newgaps (fst ro) U))) pw).
  { apply map_ext_in. intros [r o] Hin.
    apply (merge_row_fixed ref U r o (Hpw _ Hin) HU (Hge _ Hin)). }
  assert (Hone : forall r o, In (r, o) pw ->
            project (expand ref U) (ins_many o (newgaps r U)) = (r, o) /\
            length (ins_many o (newgaps r U)) = length (expand ref U)).
  { intros r o Hin. pose proof (Hpw _ Hin) as (Hlen & Hd & Hcol). cbn [fst snd] in *.
    pose proof (Hge _ Hin) as Hge0. cbn [fst] in Hge0.
    rewrite (ref_row_ins ref r U Hd HU Hge0). split.
    - rewrite (project_ins_many r o (newgaps r U) 0 Hlen (newgaps_items_ok ref r U Hd HU Hge0)).
      apply project_self; assumption.
    - rewrite !ins_many_length. lia. }
  exists (expand ref U :: map (fun ro => ins_many (snd ro) (newgaps (fst ro) U)) pw).
  split; [|split].
  - unfold star_merge. fold U. rewrite Hrows.
    replace (forallb is_some (map (fun ro : list Z * list Z => Some (ins_many (snd ro) (newgaps (fst ro) U))) pw)) with true.
    + rewrite map_map. reflexivity.
    + symmetry. apply forallb_forall. intros x Hx. apply in_map_iff in Hx. destruct Hx as (ro & <- & _). reflexivity.
  - cbn [hd tl]. apply Forall2_map_r. intros [r o] Hin. cbn [fst snd]. apply (Hone r o Hin).
  - cbn [hd]. constructor; [reflexivity|]. apply Forall_forall. intros row Hrow.
    apply in_map_iff in Hrow. destruct Hrow as ([r o] & <- & Hin). cbn [fst snd]. apply (Hone r o Hin).
Qed.

(** ------------------------------------------------------------------ the pinned rule: where it is right *)

(** column c of the row lies strictly inside a run of gaps *)
Definition inside_gap (row : list Z) (c : nat) : Prop :=
  (0 < c)%nat /\ nth (c - 1) row 0 = GAP /\ nth c row 0 = GAP.

Lemma nth_repeat_app_lt {A} (x d : A) n X k : (k < n)%nat -> nth k (repeat x n ++ X) d = x.
Proof.
  intros H. rewrite app_nth1 by (rewrite repeat_length; exact H).
  revert k H. induction n as [|n IH]; intros k H; [lia|]. destruct k as [|k]; cbn; [reflexivity | apply IH; lia].
Qed.

Lemma nth_repeat_app_ge {A} (x d : A) n X k : nth (n + k) (repeat x n ++ X) d = nth k X d.
Proof. rewrite app_nth2 by (rewrite repeat_length; lia). rewrite repeat_length. f_equal. lia. Qed.

(** outside the strict interior of a gap the pinned rule and the repaired rule agree *)
Lemma nbx_same : forall l p cum c' seq,
  Forall isres seq -> Forall (fun c => 0 <= c) l -> length l = S (length seq) -> 0 <= cum ->
  (c' <= length (build seq l))%nat -> ~ inside_gap (build seq l) c' ->
  nbx false (sparse p l) cum (p + cum + Z.of_nat c') = nbx true (sparse p l) cum (p + cum + Z.of_nat c').
Proof.
  induction l as [|l0 l' IH]; intros p cum c' seq Hres Hl Hlen Hcum Hc Hin; [discriminate|].
  inversion Hl as [|? ? Hl0 Hl']; subst.
  rewrite build_cons in *. cbn [sparse].
  destruct (Nat.le_gt_cases c' (Z.to_nat l0)) as [Hle | Hgt].
  - (* within / at the end of the first run *)
    destruct (0 <? l0) eqn:E.
    + apply Z.ltb_lt in E. cbn [nbx].
      destruct (p + cum + Z.of_nat c' <=? p + cum) eqn:E1; [reflexivity|]. apply Z.leb_gt in E1.
      destruct (p + cum + Z.of_nat c' <? p + cum + l0) eqn:E2.
      * apply Z.ltb_lt in E2.
        exfalso. apply Hin. unfold inside_gap. split; [lia|]. split; apply nth_repeat_app_lt; lia.
      * apply Z.ltb_ge in E2.
        assert (Hnext : forall f, nbx f (sparse (p + 1) l') (cum + l0) (p + cum + Z.of_nat c') = cum + l0).
        { intros f. apply nbx_le. pose proof (sparse_above l' (p + 1)) as Hab.
          destruct (sparse (p + 1) l') as [|[g2 L2] rr]; [exact I|]. inversion Hab; subst. cbn [fst] in *. lia. }
        rewrite !Hnext. reflexivity.
    + apply Z.ltb_ge in E. assert (c' = 0)%nat by lia. subst c'.
      assert (Hnext : forall f, nbx f (sparse (p + 1) l') cum (p + cum + Z.of_nat 0) = cum).
      { intros f. apply nbx_le. pose proof (sparse_above l' (p + 1)) as Hab.
        destruct (sparse (p + 1) l') as [|[g2 L2] rr]; [exact I|]. inversion Hab; subst. cbn [fst] in *. lia. }
      rewrite !Hnext. reflexivity.
  - destruct seq as [|s seq].
    { rewrite app_nil_r, repeat_length in Hc. lia. }
    inversion Hres as [|? ? Hs Hres']; subst. cbn [length] in Hlen.
    rewrite app_length, repeat_length in Hc. cbn [length] in Hc.
    set (c'' := (c' - Z.to_nat l0 - 1)%nat).
    assert (Ec : c' = (Z.to_nat l0 + S c'')%nat) by (unfold c''; lia).
    assert (Hin' : ~ inside_gap (build seq l') c'').
    { intros (H1 & H2 & H3). apply Hin. unfold inside_gap. rewrite Ec. split; [lia|]. split.
      - replace (Z.to_nat l0 + S c'' - 1)%nat with (Z.to_nat l0 + S (c'' - 1))%nat by lia.
        rewrite nth_repeat_app_ge. cbn [nth]. exact H2.
      - rewrite nth_repeat_app_ge. cbn [nth]. exact H3. }
    specialize (IH (p + 1) (cum + l0) c'' seq Hres' Hl' ltac:(lia) ltac:(lia) ltac:(unfold c''; lia) Hin').
    replace (p + cum + Z.of_nat c') with (p + 1 + (cum + l0) + Z.of_nat c'') by lia.
    destruct (0 <? l0) eqn:E.
    + apply Z.ltb_lt in E. cbn [nbx].
      replace (p + 1 + (cum + l0) + Z.of_nat c'' <=? p + cum) with false by (symmetry; apply Z.leb_gt; lia).
      replace (p + 1 + (cum + l0) + Z.of_nat c'' <? p + cum + l0) with false by (symmetry; apply Z.ltb_ge; lia).
      exact IH.
    + apply Z.ltb_ge in E. assert (l0 = 0) by lia. subst l0. replace (cum + 0) with cum in * by lia. exact IH.
Qed.

Lemma key_pinned_eq o c : 0 <= c <= Z.of_nat (length o) -> ~ inside_gap o (Z.to_nat c) ->
  go_get false (mk_gap_offset (gaps_of_row o) true) c = go_get true (mk_gap_offset (gaps_of_row o) true) c.
Proof.
  intros Hc Hin. rewrite !(go_get_inv _ _ c (gaps_of_row_gwf o)) by lia. unfold gaps_of_row.
  pose proof (nbx_same (counts o) 0 0 (Z.to_nat c) (degap o) (degap_res o) (counts_nonneg o) (counts_length o) ltac:(lia)) as H.
  rewrite build_counts in H. specialize (H ltac:(lia) Hin).
  replace (0 + 0 + Z.of_nat (Z.to_nat c)) with c in H by lia. exact H.
Qed.

(** no new reference gap of any pairwise alignment falls strictly inside a gap of its other sequence *)
Definition no_new_gap_inside (pw : list (list Z * list Z)) : Prop :=
  forall r o, In (r, o) pw -> forall kv, In kv (newgaps r (ref_union pw)) -> ~ inside_gap o (Z.to_nat (fst kv)).

Theorem star_merge_pinned_correct ref pw :
  Forall isres ref -> Forall (pairwise_ok ref) pw -> no_new_gap_inside pw ->
  exists rows,
    star_merge false ref pw = Some rows /\
    Forall2 (fun ro row => project (hd [] rows) row = ro) pw (tl rows) /\
    Forall (fun row => length row = length (hd [] rows)) rows.
Proof.
  intros Hres Hpw Hno.
  destruct (star_merge_fixed_correct ref pw Hres Hpw) as (rows & E & H1 & H2).
  exists rows. split; [|split; assumption]. rewrite <- E.
  unfold star_merge. 
  assert (Hm : map (merge_row false (ref_union pw)) pw = map (merge_row true (ref_union pw)) pw).
  { apply map_ext_in. intros [r o] Hin. unfold merge_row.
    assert (Hg : gaps_for_injection false (gaps_of_row o) (combined_refseq_gaps (gaps_of_row r) (ref_union pw)) (zlen (degap_row o)) =
                 gaps_for_injection true (gaps_of_row o) (combined_refseq_gaps (gaps_of_row r) (ref_union pw)) (zlen (degap_row o))).
    { rewrite !gaps_for_injection_unfold. apply fold_left_ext_in. intros acc [c L] Hkv.
      unfold inj_step. destruct acc as [allg|]; [|reflexivity].
      destruct (ref_union_spec ref pw Hpw) as (HU & Hge).
      rewrite Forall_forall in Hpw. pose proof (Hpw _ Hin) as (Hlen & Hd & _). cbn [fst snd] in *.
      pose proof (Hge _ Hin) as Hge0. cbn [fst] in Hge0.
      pose proof (newgaps_items_ok ref r _ Hd HU Hge0) as Hok.
      pose proof (items_ok_members _ _ _ Hok (c, L) Hkv) as (Hc & _). cbn [fst] in Hc. rewrite Hlen in Hc.
      rewrite (key_pinned_eq o c Hc (Hno r o Hin (c, L) Hkv)). reflexivity. }
    rewrite Hg. reflexivity. }
  rewrite Hm. reflexivity.
Qed.

(** ------------------------------------------------------------------ equal row lengths, for BOTH rules *)

Lemma build_length : forall seq l, Forall (fun c => 0 <= c) l -> length l = S (length seq) ->
  Z.of_nat (length (build seq l)) = Z.of_nat (length seq) + zsum l.
Proof.
  induction seq as [|s seq IH]; intros l Hl Hlen; destruct l as [|l0 l']; try discriminate; inversion Hl; subst.
  - destruct l'; [|discriminate]. rewrite build_cons, app_nil_r, repeat_length. cbn. lia.
  - rewrite build_cons, app_length, repeat_length. cbn [length zsum]. cbn [length] in Hlen.
    specialize (IH l' ltac:(assumption) ltac:(lia)). lia.
Qed.

Definition zsumf (f : Z -> Z) (p : Z) (n : nat) : Z := zsum (fcounts f p n).

Lemma zsumf_add f g : forall n p, zsumf (fun q => f q + g q) p n = zsumf f p n + zsumf g p n.
Proof. unfold zsumf. induction n as [|n IH]; intros p; cbn [fcounts zsum]; [lia|]. rewrite IH. lia. Qed.

Lemma zsumf_ind k L : forall n p, zsumf (fun q => if k =? q then L else 0) p n = if (p <=? k) && (k <? p + Z.of_nat n) then L else 0.
Proof.
  unfold zsumf. induction n as [|n IH]; intros p; cbn [fcounts zsum].
  - destruct (p <=? k) eqn:E1; destruct (k <? p + Z.of_nat 0) eqn:E2; cbn; try reflexivity.
    apply Z.leb_le in E1. apply Z.ltb_lt in E2. lia.
  - rewrite IH. destruct (Z.eq_dec k p) as [-> | Hne].
    + rewrite Z.eqb_refl.
      replace (p + 1 <=? p) with false by (symmetry; apply Z.leb_gt; lia).
      replace (p <=? p) with true by (symmetry; apply Z.leb_le; lia).
      replace (p <? p + Z.of_nat (S n)) with true by (symmetry; apply Z.ltb_lt; lia). cbn [andb]. lia.
    + replace (k =? p) with false by (symmetry; apply Z.eqb_neq; exact Hne).
      replace ((p + 1 <=? k) && (k <? p + 1 + Z.of_nat n)) with ((p <=? k) && (k <? p + Z.of_nat (S n))); [lia|].
      apply Bool.eq_iff_eq_true. rewrite !andb_true_iff, !Z.leb_le, !Z.ltb_lt. lia.
Qed.

Lemma zsumf_addat C key p n :
  (forall kv, In kv C -> p <= key (fst kv) < p + Z.of_nat n) -> zsumf (addat C key) p n = total C.
Proof.
  induction C as [|[c L] rest IH]; intros H.
  - cbn [addat total]. unfold zsumf. clear H. revert p. induction n as [|n IHn]; intros p; cbn; [reflexivity|]. rewrite IHn. reflexivity.
  - cbn [total].
    assert (E : forall q, addat ((c, L) :: rest) key q = (if key c =? q then L else 0) + addat rest key q) by reflexivity.
    unfold zsumf in *.
    replace (fcounts (addat ((c, L) :: rest) key) p n) with (fcounts (fun q => (if key c =? q then L else 0) + addat rest key q) p n).
    2:{ clear. revert p. induction n as [|n IHn]; intros p; cbn [fcounts]; [reflexivity|]. rewrite IHn. reflexivity. }
    fold (zsumf (fun q => (if key c =? q then L else 0) + addat rest key q) p n).
    rewrite (zsumf_add (fun q => if key c =? q then L else 0) (addat rest key)).
    rewrite zsumf_ind. pose proof (H (c, L) (or_introl eq_refl)) as Hc. cbn [fst] in Hc.
    replace (p <=? key c) with true by (symmetry; apply Z.leb_le; lia).
    replace (key c <? p + Z.of_nat n) with true by (symmetry; apply Z.ltb_lt; lia). cbn [andb].
    unfold zsumf. rewrite IH; [reflexivity|]. intros; apply H; right; assumption.
Qed.

Lemma zsumf_ext f g : forall n p, (forall q, p <= q < p + Z.of_nat n -> f q = g q) -> zsumf f p n = zsumf g p n.
Proof.
  unfold zsumf. induction n as [|n IH]; intros p H; cbn [fcounts zsum]; [reflexivity|].
  rewrite (H p) by lia. rewrite (IH (p + 1)); [reflexivity|]. intros; apply H; lia.
Qed.

Lemma fcounts_sparse l : Forall (fun c => 0 <= c) l -> fcounts (dget0 (sparse 0 l)) 0 (length l) = l.
Proof.
  intros Hl. apply (nth_ext _ _ 0 0); [apply fcounts_length|]. rewrite fcounts_length. intros n Hn.
  rewrite fcounts_nth by exact Hn. apply sparse_get; assumption.
Qed.

Lemma row_length_counts o : Z.of_nat (length o) = Z.of_nat (length (degap o)) + zsum (counts o).
Proof. rewrite <- (build_counts o) at 1. apply build_length; [apply counts_nonneg | apply counts_length]. Qed.

Lemma total_items C : (forall kv, In kv C -> 0 <= snd kv) ->
  Z.of_nat (fold_right (fun (cl : Z * Z) acc => (Z.to_nat (snd cl) + acc)%nat) 0%nat C) = total C.
Proof.
  induction C as [|[c L] rest IH]; intros H; [reflexivity|]. cbn [fold_right total snd].
  pose proof (H (c, L) (or_introl eq_refl)) as HL. cbn [snd] in HL.
  rewrite Nat2Z.inj_add, IH by (intros; apply H; right; assumption). lia.
Qed.

Lemma fold_inj_none key items : fold_left (inj_step key) items None = None.
Proof. induction items as [|kv items IH]; [reflexivity | exact IH]. Qed.

Lemma inj_fold_keys key : forall items allg res,
  fold_left (inj_step key) items (Some allg) = Some res -> forall kv, In kv items -> 0 <= key (fst kv).
Proof.
  induction items as [|[c L] rest IH]; intros allg res E kv Hin; [destruct Hin|].
  cbn [fold_left inj_step] in E. destruct (key c <? 0) eqn:Ek.
  - rewrite fold_inj_none in E. discriminate.
  - apply Z.ltb_ge in Ek. destruct Hin as [<- | Hin]; [exact Ek | eapply IH; eauto].
Qed.

(** whatever the rule answers, the injected gaps are all counted: the row keeps the common length *)
Lemma merge_row_length fixed ref U r o row :
  pairwise_ok ref (r, o) -> Uok (zlen ref) U -> (forall k, dget0 (gaps_of_row r) k <= dget0 U k) ->
  merge_row fixed U (r, o) = Some row -> length row = length (expand ref U).
Proof.
  intros (Hlen & Hd & _) HU Hge Hm. cbn [fst snd] in *.
  destruct (newgaps_facts ref r U Hd HU Hge) as (HsC & _ & _).
  pose proof (newgaps_items_ok ref r U Hd HU Hge) as Hok.
  pose proof (items_ok_members _ _ _ Hok) as Hmem.
  rewrite (ref_row_ins ref r U Hd HU Hge), ins_many_length.
  unfold merge_row in Hm. fold (newgaps r U) in Hm. rewrite gaps_for_injection_unfold in Hm.
  set (key := fun c => Z.min (zlen (degap_row o)) (c - go_get fixed (mk_gap_offset (gaps_of_row o) true) c)) in *.
  destruct (fold_left (inj_step key) (newgaps r U) (Some (gaps_of_row o))) as [inj|] eqn:E; [|discriminate].
  pose proof (inj_fold_keys key _ _ _ E) as Hk.
  destruct (inj_fold key (newgaps r U) (gaps_of_row o) (sparse_sorted _ _) Hk) as (res & E' & Hsr & Hq & Hne).
  rewrite E in E'. injection E' as <-.
  assert (Htot : Z.of_nat (length row) = Z.of_nat (length o) + total (newgaps r U)).
  { destruct inj as [|kv0 inj'].
    - injection Hm as <-. destruct (newgaps r U) as [|kv C']; [cbn; lia|]. exfalso. apply Hne; [discriminate | reflexivity].
    - injection Hm as <-. unfold expand, degap_row. fold (degap o). rewrite expand_build.
      set (n := S (length (degap o))).
      assert (Hnn : Forall (fun c => 0 <= c) (fcounts (dget0 (kv0 :: inj')) 0 n)).
      { apply Forall_forall. intros x Hx. apply (In_nth _ _ 0) in Hx. destruct Hx as (i & Hi & <-).
        rewrite fcounts_length in Hi. rewrite fcounts_nth by exact Hi. rewrite Hq.
        assert (0 <= dget0 (gaps_of_row o) (0 + Z.of_nat i)).
        { pose proof (gaps_of_row_Uok o) as HUo. apply (dget0_nonneg _ _ _ HUo). }
        assert (0 <= addat (newgaps r U) key (0 + Z.of_nat i)).
        { clear -Hmem. induction (newgaps r U) as [|[c L] rest IH]; cbn [addat]; [lia|].
          pose proof (Hmem (c, L) (or_introl eq_refl)) as (_ & HL). cbn [snd] in HL.
          assert (0 <= addat rest key (0 + Z.of_nat i)) by (apply IH; intros; apply Hmem; right; assumption).
          destruct (key c =? 0 + Z.of_nat i); lia. }
        lia. }
      rewrite (build_length (degap o) _ Hnn) by (rewrite fcounts_length; reflexivity).
      fold (zsumf (dget0 (kv0 :: inj')) 0 n).
      rewrite (zsumf_ext _ (fun q => dget0 (gaps_of_row o) q + addat (newgaps r U) key q)) by (intros; apply Hq).
      rewrite zsumf_add.
      rewrite (zsumf_addat (newgaps r U) key 0 n).
      2:{ intros kv Hin. specialize (Hk _ Hin). unfold key, n, zlen, degap_row in *. fold (degap o) in *. lia. }
      unfold zsumf, gaps_of_row, n. rewrite <- (counts_length o), (fcounts_sparse _ (counts_nonneg o)).
      rewrite (row_length_counts o). lia. }
  rewrite <- (total_items (newgaps r U)) in Htot by (intros kv Hin; apply (Hmem _ Hin)). lia.
Qed.

Theorem star_merge_equal_lengths fixed ref pw rows :
  Forall (pairwise_ok ref) pw -> star_merge fixed ref pw = Some rows ->
  Forall (fun row => length row = length (hd [] rows)) rows.
Proof.
  intros Hpw. unfold star_merge.
  destruct (forallb is_some (map (merge_row fixed (ref_union pw)) pw)) eqn:Hall; [|discriminate].
  intros H. injection H as <-. cbn [hd].
  destruct (ref_union_spec ref pw Hpw) as (HU & Hge).
  constructor; [reflexivity|]. apply Forall_forall. intros row Hrow.
  apply in_map_iff in Hrow. destruct Hrow as (orow & <- & Hin).
  apply in_map_iff in Hin. destruct Hin as ([r o] & Em & Hin).
  rewrite forallb_forall in Hall. specialize (Hall orow). rewrite <- Em in Hall.
  specialize (Hall (in_map _ _ _ Hin)).
  destruct (merge_row fixed (ref_union pw) (r, o)) as [row|] eqn:E; [|discriminate].
  rewrite <- Em. cbn [unwrap]. rewrite Forall_forall in Hpw.
  apply (merge_row_length fixed ref _ r o row (Hpw _ Hin) HU (Hge _ Hin) E).
Qed.

(** the statement of [Properties/C18.v], for the repaired rule *)
Lemma star_merge_keeps_pairwise_fixed : star_merge_keeps_pairwise true.
Proof.
  intros ref pw rows Hres Hpw E.
  destruct (star_merge_fixed_correct ref pw Hres Hpw) as (rows' & E' & H & _).
  rewrite E in E'. injection E' as <-. exact H.
Qed.

(** ------------------------------------------------------------------ non-vacuity *)

(** ACGT with A-CGT/ATCGT and ACG-T/ACGGT (A=0 C=1 G=2 T=3): a new reference gap
    is added to each pairwise alignment, none falls inside a gap *)
Definition ex_ref : list Z := [0; 1; 2; 3].
Definition ex_pw : list (list Z * list Z) :=
  [([0; -1; 1; 2; 3], [0; 3; 1; 2; 3]); ([0; 1; 2; -1; 3], [0; 1; 2; 2; 3])].

Lemma ex_hyps : Forall isres ex_ref /\ Forall (pairwise_ok ex_ref) ex_pw /\ no_new_gap_inside ex_pw.
Proof.
  split; [repeat constructor; discriminate|]. split.
  - unfold pairwise_ok, ex_pw, ex_ref. repeat constructor; cbn; intuition discriminate.
  - intros r o Hin kv Hkv. unfold ex_pw in Hin. cbn [In] in Hin.
    destruct Hin as [E | [E | []]]; injection E as <- <-; vm_compute in Hkv;
      (destruct Hkv as [<- | []]); unfold inside_gap; cbn; intros (_ & H & _); discriminate.
Qed.

Lemma ex_result :
  star_merge false ex_ref ex_pw = Some [[0; -1; 1; 2; -1; 3]; [0; 3; 1; 2; -1; 3]; [0; -1; 1; 2; 2; 3]].
Proof. vm_compute. reflexivity. Qed.
