(** C17 — proofs about the chunked GFF load (Model/AnnotDbGff.v): by induction
    over the blocks, the database is independent of [lines_per_block] whenever
    no two rows share an ID; the counter naming ID-less rows is carried across
    blocks, which is what keeps their names apart. *)
From CG3 Require Import Lib.PyZ Model.AnnotDb Model.AnnotDbGff.

Lemma str_eqb_true a : forall b, str_eqb a b = true <-> a = b.
Proof.
  induction a as [|x a IH]; intros [|y b]; simpl; split; intros H; try congruence; try discriminate.
  - apply andb_true_iff in H. destruct H as [H1 H2]. apply IH in H2. assert (x = y) by lia. congruence.
  - inversion H; subst. apply andb_true_iff. split; [lia|]. apply IH. reflexivity.
Qed.

Lemma gname_eqb_eq a b : gname_eqb a b = true <-> a = b.
Proof.
  destruct a as [x|x], b as [y|y]; simpl; split; intros H; try discriminate; try congruence.
  - apply str_eqb_true in H. congruence.
  - inversion H; subst. apply str_eqb_true. reflexivity.
  - assert (x = y) by lia. congruence.
  - inversion H; subst. lia.
Qed.

Lemma gname_eqb_false a b : gname_eqb a b = false <-> a <> b.
Proof.
  split; intros H.
  - intros E. apply gname_eqb_eq in E. congruence.
  - destruct (gname_eqb a b) eqn:E; [|reflexivity]. apply gname_eqb_eq in E. contradiction.
Qed.

Lemma gmem_In n l : gmem n l = true <-> In n l.
Proof.
  unfold gmem. rewrite existsb_exists. split.
  - intros [x [Hx E]]. apply gname_eqb_eq in E. subst. exact Hx.
  - intros H. exists n. split; [exact H|]. apply gname_eqb_eq. reflexivity.
Qed.

Lemma gmem_not_In n l : gmem n l = false <-> ~ In n l.
Proof.
  split; intros H.
  - intros Hin. apply gmem_In in Hin. congruence.
  - destruct (gmem n l) eqn:E; [|reflexivity]. apply gmem_In in E. contradiction.
Qed.

(** the names [merged_gff_records] gives to the rows, one after the other *)
Fixpoint assign (k : Z) (ls : list gline) : list (gname * gline) :=
  match ls with
  | [] => []
  | l :: t =>
      match gl_id l with
      | Some s => (GReal s, l) :: assign k t
      | None => (GFake k, l) :: assign (k + 1) t
      end
  end.

Fixpoint nfake (ls : list gline) : Z :=
  match ls with
  | [] => 0
  | l :: t => match gl_id l with Some _ => nfake t | None => 1 + nfake t end
  end.

Definition names (k : Z) (ls : list gline) : list gname := map fst (assign k ls).

Definition real_ids (ls : list gline) : list str :=
  flat_map (fun l => match gl_id l with Some s => [s] | None => [] end) ls.

Definition single_p (p : gname * gline) : grec := single (fst p) (snd p).

(** the database the text describes when no two rows share an ID: one record per row *)
Definition rows_of_lines (ls : list gline) : list grow := map (fun p => mk_grow (single_p p)) (assign 0 ls).

Lemma nfake_nonneg ls : 0 <= nfake ls.
Proof. induction ls as [|l t IH]; cbn [nfake]; [lia|]. destruct (gl_id l); lia. Qed.

Lemma nfake_app a b : nfake (a ++ b) = nfake a + nfake b.
Proof.
  induction a as [|l a IH]; cbn [nfake app]; [lia|]. destruct (gl_id l); lia.
Qed.

Lemma assign_app a : forall k b, assign k (a ++ b) = assign k a ++ assign (k + nfake a) b.
Proof.
  induction a as [|l a IH]; intros k b; cbn [assign nfake app].
  - replace (k + 0) with k by lia. reflexivity.
  - destruct (gl_id l); cbn [app]; rewrite IH; [reflexivity|].
    replace (k + 1 + nfake a) with (k + (1 + nfake a)) by lia. reflexivity.
Qed.

Lemma names_app k a b : names k (a ++ b) = names k a ++ names (k + nfake a) b.
Proof. unfold names. rewrite assign_app, map_app. reflexivity. Qed.

Lemma data_lines_app a b : data_lines (a ++ b) = data_lines a ++ data_lines b.
Proof.
  induction a as [|[l|] a IH]; simpl; [reflexivity| |exact IH]. rewrite IH. reflexivity.
Qed.

Lemma fake_name_ge ls : forall k j, In (GFake j) (names k ls) -> k <= j.
Proof.
  induction ls as [|l t IH]; intros k j H; simpl in H; [contradiction|].
  unfold names in *. simpl in H. destruct (gl_id l); simpl in H; destruct H as [H|H]; try discriminate.
  - apply IH; exact H.
  - inversion H; lia.
  - apply IH in H. lia.
Qed.

Lemma real_name_id ls : forall k s, In (GReal s) (names k ls) -> In s (real_ids ls).
Proof.
  induction ls as [|l t IH]; intros k s H; [contradiction|].
  unfold names in *. simpl in *. destruct (gl_id l); simpl in *; destruct H as [H|H]; try discriminate.
  - inversion H; left; reflexivity.
  - right. eapply IH; exact H.
  - eapply IH; exact H.
Qed.

(** distinct IDs => distinct names, thanks to the running counter *)
Lemma names_nodup ls : forall k, NoDup (real_ids ls) -> NoDup (names k ls).
Proof.
  induction ls as [|l t IH]; intros k H; [constructor|].
  unfold names in *. simpl in *. destruct (gl_id l) as [s|]; simpl in *.
  - inversion H as [|? ? Hn Ht]; subst. constructor; [|apply IH; exact Ht].
    intros Hin. apply Hn. eapply real_name_id. exact Hin.
  - constructor; [|apply IH; exact H].
    intros Hin. apply (fake_name_ge t (k + 1) k) in Hin. lia.
Qed.

Lemma add_to_fresh n l acc : ~ In n (map g_name acc) -> add_to n l acc = acc ++ [single n l].
Proof.
  induction acc as [|r t IH]; simpl; intros H; [reflexivity|].
  destruct (gname_eqb (g_name r) n) eqn:E.
  - apply gname_eqb_eq in E. exfalso. apply H. left. exact E.
  - rewrite IH; [reflexivity|]. intros Hin. apply H. right. exact Hin.
Qed.

Lemma merged_distinct ls : forall k acc,
  NoDup (map g_name acc ++ names k ls) ->
  merged ls k acc = (acc ++ map single_p (assign k ls), k + nfake ls).
Proof.
  induction ls as [|l t IH]; intros k acc H; cbn [merged assign nfake map].
  - rewrite app_nil_r. replace (k + 0) with k by lia. reflexivity.
  - unfold names in H. cbn [assign] in H. destruct (gl_id l) as [s|]; cbn [map fst] in H.
    + assert (Hn : ~ In (GReal s) (map g_name acc)).
      { apply NoDup_remove_2 in H. intros Hin. apply H. apply in_or_app. left. exact Hin. }
      rewrite (add_to_fresh _ _ _ Hn). rewrite IH.
      * rewrite <- app_assoc. reflexivity.
      * rewrite map_app. cbn [map app single g_name]. rewrite <- app_assoc. exact H.
    + assert (Hn : ~ In (GFake k) (map g_name acc)).
      { apply NoDup_remove_2 in H. intros Hin. apply H. apply in_or_app. left. exact Hin. }
      rewrite (add_to_fresh _ _ _ Hn). rewrite IH.
      * rewrite <- app_assoc. cbn [map app].
        replace (k + 1 + nfake t) with (k + (1 + nfake t)) by lia. reflexivity.
      * rewrite map_app. cbn [map app single g_name]. rewrite <- app_assoc. exact H.
Qed.

Lemma filter_none {A} (f : A -> bool) l : (forall x, In x l -> f x = false) -> filter f l = [].
Proof.
  induction l as [|a l IH]; simpl; intros H; [reflexivity|].
  rewrite (H a (or_introl eq_refl)). apply IH. intros x Hx. apply H. right. exact Hx.
Qed.

Lemma filter_all {A} (f : A -> bool) l : (forall x, In x l -> f x = true) -> filter f l = l.
Proof.
  induction l as [|a l IH]; simpl; intros H; [reflexivity|].
  rewrite (H a (or_introl eq_refl)). f_equal. apply IH. intros x Hx. apply H. right. exact Hx.
Qed.

Lemma NoDup_app_disjoint {A} (a b : list A) x : NoDup (a ++ b) -> In x a -> In x b -> False.
Proof.
  induction a as [|y a IH]; simpl; intros H Ha Hb; [contradiction|].
  inversion H as [|? ? Hn Hd]; subst. destruct Ha as [->|Ha].
  - apply Hn. apply in_or_app. right. exact Hb.
  - exact (IH Hd Ha Hb).
Qed.

Lemma NoDup_app_l {A} (a b : list A) : NoDup (a ++ b) -> NoDup a.
Proof.
  induction a as [|y a IH]; simpl; intros H; [constructor|].
  inversion H as [|? ? Hn Hd]; subst. constructor; [|exact (IH Hd)].
  intros Hin. apply Hn. apply in_or_app. left. exact Hin.
Qed.

Lemma NoDup_app_r {A} (a b : list A) : NoDup (a ++ b) -> NoDup b.
Proof.
  induction a as [|y a IH]; simpl; intros H; [exact H|].
  inversion H; subst. apply IH. assumption.
Qed.

Lemma map_name_single ps : map g_name (map single_p ps) = map fst ps.
Proof. rewrite map_map. apply map_ext. intros [n l]. reflexivity. Qed.

(** the loop invariant: after the rows [p] the counter, the set of seen names
    and the table are those of a single pass over [p] *)
Definition Inv (p : list gline) (st : gstate) : Prop :=
  st_k st = nfake p /\ st_seen st = names 0 p /\ st_db st = rows_of_lines p.

Lemma step_inv fixed p b st :
  Inv p st -> NoDup (names 0 (p ++ data_lines b)) ->
  Inv (p ++ data_lines b) (block_step fixed st b).
Proof.
  intros [Hk [Hseen Hdb]] Hnd.
  rewrite names_app in Hnd. simpl in Hnd.
  unfold block_step. rewrite Hk.
  rewrite (merged_distinct (data_lines b) (nfake p) []).
  2:{ simpl. eapply NoDup_app_r. exact Hnd. }
  cbn [app].
  set (data := map single_p (assign (nfake p) (data_lines b))).
  assert (Hnew : forall r, In r data -> gmem (g_name r) (st_seen st) = false).
  { intros r Hr. apply gmem_not_In. rewrite Hseen. intros Hin.
    apply (NoDup_app_disjoint _ _ (g_name r) Hnd Hin).
    unfold names. rewrite <- map_name_single. apply in_map. exact Hr. }
  rewrite (filter_none _ data Hnew). cbn [fold_left].
  assert (Hfresh : (if fixed then filter (fun r => negb (gmem (g_name r) (st_seen st))) data else data) = data).
  { destruct fixed; [|reflexivity]. apply filter_all. intros r Hr. rewrite (Hnew r Hr). reflexivity. }
  rewrite Hfresh. unfold Inv; cbn [st_k st_seen st_db]. split; [|split].
  - symmetry. apply nfake_app.
  - rewrite names_app, Hseen. simpl. f_equal. unfold data. apply map_name_single.
  - rewrite Hdb. unfold rows_of_lines. rewrite assign_app, map_app. simpl. f_equal.
    unfold data. rewrite map_map. reflexivity.
Qed.

Lemma fold_inv fixed bs : forall p st,
  Inv p st -> NoDup (names 0 (p ++ data_lines (concat bs))) ->
  Inv (p ++ data_lines (concat bs)) (fold_left (block_step fixed) bs st).
Proof.
  induction bs as [|b bs IH]; intros p st Hinv Hnd; cbn [concat fold_left data_lines] in *.
  - rewrite app_nil_r. exact Hinv.
  - rewrite data_lines_app, app_assoc. rewrite data_lines_app, app_assoc in Hnd.
    apply IH; [|exact Hnd].
    apply step_inv; [exact Hinv|].
    rewrite names_app in Hnd. eapply NoDup_app_l. exact Hnd.
Qed.

Lemma concat_chunks {A} fuel : forall n (l : list A),
  (length l <= fuel)%nat -> (1 <= n)%nat -> concat (chunks fuel n l) = l.
Proof.
  induction fuel as [|f IH]; intros n l Hl Hn; simpl.
  - destruct l; [reflexivity|simpl in Hl; lia].
  - destruct l as [|x t]; [reflexivity|]. simpl concat.
    rewrite IH; [apply firstn_skipn| |exact Hn].
    rewrite skipn_length. cbn [length] in *. lia.
Qed.

Lemma concat_blocks {A} N (l : list A) : concat (blocks N l) = l.
Proof.
  unfold blocks. destruct (N <=? 0) eqn:E.
  - destruct l; [reflexivity|]. simpl. rewrite app_nil_r. reflexivity.
  - apply concat_chunks; [lia|]. lia.
Qed.

(** the result of a chunked load is the one-record-per-row table, whatever the block size *)
Lemma load_distinct_ids fixed N lines :
  NoDup (real_ids (data_lines lines)) ->
  st_db (load fixed N lines) = rows_of_lines (data_lines lines).
Proof.
  intros H. unfold load.
  assert (Hinv : Inv ([] ++ data_lines (concat (blocks N lines)))
                     (fold_left (block_step fixed) (blocks N lines) st_init)).
  { apply fold_inv.
    - unfold Inv, st_init, rows_of_lines, names; simpl. auto.
    - simpl. rewrite concat_blocks. apply names_nodup. exact H. }
  simpl in Hinv. rewrite concat_blocks in Hinv. destruct Hinv as [_ [_ Hdb]]. exact Hdb.
Qed.

Lemma load_independent_of_block_size fixed fixed' N N' lines :
  NoDup (real_ids (data_lines lines)) ->
  st_db (load fixed N lines) = st_db (load fixed' N' lines).
Proof. intros H. rewrite !load_distinct_ids by exact H. reflexivity. Qed.

(** the fake-id counter after the load = number of ID-less rows in the file *)
Lemma load_counter fixed N lines :
  NoDup (real_ids (data_lines lines)) -> st_k (load fixed N lines) = nfake (data_lines lines).
Proof.
  intros H. unfold load.
  assert (Hinv : Inv ([] ++ data_lines (concat (blocks N lines)))
                     (fold_left (block_step fixed) (blocks N lines) st_init)).
  { apply fold_inv.
    - unfold Inv, st_init, rows_of_lines, names; simpl. auto.
    - simpl. rewrite concat_blocks. apply names_nodup. exact H. }
  simpl in Hinv. rewrite concat_blocks in Hinv. destruct Hinv as [Hk _]. exact Hk.
Qed.

(** what one record of that table holds: the row's own columns, its span converted, start/stop its ends *)
Lemma row_of_line n l :
  1 <= gl_s l <= gl_e l ->
  let r := mk_grow (single n l) in
  gr_name r = n /\ gr_line r = l /\ gr_spans r = [(gl_s l - 1, gl_e l)] /\
  gr_start r = gl_s l - 1 /\ gr_stop r = gl_e l.
Proof.
  intros H. unfold mk_grow, single, gl_span; cbn [g_name g_first g_spans gr_name gr_line gr_spans gr_start gr_stop].
  unfold gff_coord.
  destruct ((gl_s l - 1 <? 0) || (gl_e l <? 0)) eqn:E1; [lia|].
  destruct (gl_s l - 1 >? gl_e l) eqn:E2; [lia|].
  unfold norm_spans, sort_spans, norm_span, spans_min, spans_max, coords; simpl.
  repeat split; try reflexivity; try (f_equal; f_equal; lia); lia.
Qed.

(** ---------- the rule as first read is NOT independent of the block size ---------- *)
Definition split_file : list (option gline) :=
  [mkgl (Some [99]) [115] [67] [43] [] 11 20; mkgl (Some [99]) [115] [67] [43] [] 31 40;
   mkgl (Some [99]) [115] [67] [43] [] 41 50].

Lemma split_feature_depends_on_block_size :
  exists N N' lines, 0 < N /\ 0 < N' /\ st_db (load false N lines) <> st_db (load false N' lines).
Proof.
  exists 2, 3, split_file. split; [lia|]. split; [lia|].
  intros H. apply (f_equal (@length grow)) in H. vm_compute in H. discriminate.
Qed.

(** ... and the stored start/stop of the first record are no longer the extremes of its spans *)
Lemma split_feature_stale_extent :
  exists r, In r (st_db (load false 2 split_file)) /\ gr_stop r <> spans_max (gr_spans r).
Proof.
  eexists. split; [vm_compute; left; reflexivity|]. vm_compute. discriminate.
Qed.

(** the repaired rule on the same file *)
Lemma split_feature_repaired :
  st_db (load true 2 split_file) = st_db (load true 3 split_file) /\
  Forall (fun r => gr_start r = spans_min (gr_spans r) /\ gr_stop r = spans_max (gr_spans r)) (st_db (load true 2 split_file)).
Proof. split; [vm_compute; reflexivity|]. vm_compute. repeat constructor. Qed.

(** non-vacuity of the hypothesis: a file with two ID-less rows around a comment and one ID'd row *)
Definition ex_file : list (option gline) :=
  [None; mkgl None [115] [103] [43] [] 1 10; None; mkgl (Some [97]) [116] [103] [45] [] 5 9; mkgl None [116] [101] [45] [] 50 90].
Example ex_file_ok : NoDup (real_ids (data_lines ex_file)) /\ length (st_db (load false 2 ex_file)) = 3%nat.
Proof. split; [vm_compute; repeat constructor; simpl; tauto|vm_compute; reflexivity]. Qed.

(** ---------- the repaired rule keeps start/stop = extremes of spans, for every file and block size ---------- *)
Definition extent_ok (r : grow) : Prop :=
  gr_start r = spans_min (gr_spans r) /\ gr_stop r = spans_max (gr_spans r).

Lemma mk_grow_extent r : extent_ok (mk_grow r).
Proof. unfold extent_ok, mk_grow; simpl. split; reflexivity. Qed.

Lemma update_spans_extent db n new :
  Forall extent_ok db -> Forall extent_ok (update_spans true db n new).
Proof.
  intros H. unfold update_spans. destruct new as [|s new]; [exact H|].
  destruct (find (fun r => gname_eqb (gr_name r) n) db) as [r0|]; [|exact H].
  apply Forall_forall. intros r Hr. apply in_map_iff in Hr. destruct Hr as [r' [<- Hr']].
  destruct (gname_eqb (gr_name r') n).
  - unfold extent_ok; simpl. split; reflexivity.
  - rewrite Forall_forall in H. apply H. exact Hr'.
Qed.

Lemma fold_update_extent (again : list grec) : forall db,
  Forall extent_ok db ->
  Forall extent_ok (fold_left (fun db r => update_spans true db (g_name r) (g_spans r)) again db).
Proof.
  induction again as [|r again IH]; intros db H; simpl; [exact H|].
  apply IH. apply update_spans_extent. exact H.
Qed.

Lemma block_step_extent st b :
  Forall extent_ok (st_db st) -> Forall extent_ok (st_db (block_step true st b)).
Proof.
  intros H. unfold block_step. destruct (merged (data_lines b) (st_k st) []) as [data k'].
  cbn [st_db]. apply Forall_app. split.
  - apply fold_update_extent. exact H.
  - apply Forall_forall. intros r Hr. apply in_map_iff in Hr. destruct Hr as [g [<- _]]. apply mk_grow_extent.
Qed.

Lemma load_fixed_extent N lines : Forall extent_ok (st_db (load true N lines)).
Proof.
  unfold load. generalize (blocks N lines). intros bs.
  assert (H : Forall extent_ok (st_db st_init)) by constructor.
  revert H. generalize st_init. induction bs as [|b bs IH]; intros st H; simpl; [exact H|].
  apply IH. apply block_step_extent. exact H.
Qed.
