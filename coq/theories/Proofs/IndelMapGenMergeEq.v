(** C08 — translator tie for [_update_lengths] / [merge_maps]: the functions generated
    from the CURRENT source text (coq/gen/IndelMapGen.v: [g_update_lengths],
    [g_merge_maps], built from the numpy idioms of Model/NumpyPrims.v) equal the
    hand-written model of Model/IndelMap.v ([length_at] / [merge_maps]).

    The proofs go through [np_add_at_step] / [np_upd_app]: they use that every update of
    [np_add_at] is [np_upd (fun x => x + v)], i.e. an ADDITION to the old content.  With
    an assignment ([np_set_at], a fold of [np_set]) the statements are false (a position
    present in both maps would lose the length of the first map) and the scripts below
    do not go through: nothing here is proved from vacuous or contradictory hypotheses. *)
From CG3 Require Import Lib.PyZ Lib.Val Model.IndelMap Model.IndelMapFixed Model.NumpyPrims Spec.IndelMapSpec.
From CG3 Require Import Proofs.IndelMapProofs Proofs.IndelMapOps Proofs.IndelMapMerge Proofs.IndelMapGenEq.
From CG3gen Require Import IndelMapGen.
Import G.

Local Open Scope Z_scope.

(** * [np_index_of] finds the entry that [lookup] / [length_at] reads *)

Lemma np_index_of_ge p gp : forall i0 j, np_index_of p i0 gp = Some j -> i0 <= j.
Proof.
  induction gp as [|y t IH]; intros i0 j Hj; cbn [np_index_of] in Hj.
  - discriminate Hj.
  - destruct (y =? p).
    + injection Hj as Hj. lia.
    + apply IH in Hj. lia.
Qed.

(** [L[j - i0]] for the first [j] (counted from [i0]) with [gp[j - i0] = p]; [0] if there is none
    (also when [L] is too short: [znth] out of range is [0], [lookup] runs out of values) *)
Lemma index_of_length_at p gp : forall L i0,
  match np_index_of p i0 gp with Some j => znth 0 L (j - i0) | None => 0 end = length_at gp L p.
Proof.
  induction gp as [|y t IH]; intros L i0.
  - reflexivity.
  - cbn [np_index_of]. destruct L as [|v vs].
    + rewrite length_at_cons_nil. destruct (y =? p).
      * apply znth_nil.
      * destruct (np_index_of p (i0 + 1) t); [apply znth_nil|reflexivity].
    + rewrite length_at_cons. destruct (y =? p) eqn:Ey.
      * replace (i0 - i0) with 0 by lia. apply znth_0.
      * rewrite <- (IH vs (i0 + 1)).
        destruct (np_index_of p (i0 + 1) t) as [j|] eqn:Ej; [|reflexivity].
        apply np_index_of_ge in Ej. rewrite znth_pos by lia. f_equal. lia.
Qed.

Lemma index_of_pyget p gp L :
  match np_index_of p 0 gp with Some j => pyget L j | None => 0 end = length_at gp L p.
Proof.
  rewrite <- (index_of_length_at p gp L 0).
  destruct (np_index_of p 0 gp) as [j|] eqn:Ej; [|reflexivity].
  apply np_index_of_ge in Ej. rewrite pyget_nonneg by lia. f_equal. lia.
Qed.

(** * one update of [np_add_at]: the entry at the index gets the value ADDED *)

Lemma np_upd_app f a r : forall pre i, zlen pre = i ->
  np_upd f (pre ++ a :: r) i = pre ++ f a :: r.
Proof.
  induction pre as [|x pre IH]; intros i Hi.
  - change (zlen (@nil Z)) with 0 in Hi. subst i. reflexivity.
  - rewrite zlen_cons in Hi. pose proof (zlen_nonneg pre) as Hn.
    cbn [app np_upd]. destruct (i =? 0) eqn:Ei; [lia|].
    f_equal. apply IH. lia.
Qed.

Lemma np_add_at_step r i v idx vals :
  np_add_at r (i :: idx) (v :: vals) = np_add_at (np_upd (fun x => x + v) r i) idx vals.
Proof. reflexivity. Qed.

(** * [_update_lengths] *)

(** what [_update_lengths] computes, entry by entry *)
Definition add_lengths (U r gp L : list Z) : list Z :=
  map (fun xp => fst xp + length_at gp L (snd xp)) (combine r U).

Lemma add_lengths_cons p U a r gp L :
  add_lengths (p :: U) (a :: r) gp L = (a + length_at gp L p) :: add_lengths U r gp L.
Proof. reflexivity. Qed.

(** the positions [i0 ..] of the result are visited one after the other; [pre] is the part already done *)
Lemma update_lengths_from gp L : forall U r pre i0,
  zlen pre = i0 -> zlen r = zlen U ->
  np_add_at (pre ++ r) (map fst (np_isect_pairs i0 U gp))
            (np_take L (map snd (np_isect_pairs i0 U gp)))
  = pre ++ add_lengths U r gp L.
Proof.
  induction U as [|p U IH]; intros r pre i0 Hpre Hlen.
  - change (zlen (@nil Z)) with 0 in Hlen. apply zlen_0_nil in Hlen. subst r. reflexivity.
  - destruct r as [|a r].
    + rewrite zlen_cons in Hlen. change (zlen (@nil Z)) with 0 in Hlen.
      pose proof (zlen_nonneg U) as Hn. lia.
    + rewrite !zlen_cons in Hlen.
      rewrite add_lengths_cons. rewrite <- (index_of_pyget p gp L).
      cbn [np_isect_pairs].
      assert (Hpre' : forall a', zlen (pre ++ [a']) = i0 + 1).
      { intros a'. rewrite zlen_app, zlen_cons. change (zlen (@nil Z)) with 0. lia. }
      destruct (np_index_of p 0 gp) as [j|].
      * cbn [app map fst snd np_take]. rewrite np_add_at_step.
        rewrite (np_upd_app (fun x => x + pyget L j) a r pre i0 Hpre).
        change (pre ++ (a + pyget L j) :: r) with (pre ++ [a + pyget L j] ++ r).
        rewrite app_assoc.
        change (map (fun i => pyget L i) (map snd (np_isect_pairs (i0 + 1) U gp)))
          with (np_take L (map snd (np_isect_pairs (i0 + 1) U gp))).
        rewrite (IH r (pre ++ [a + pyget L j]) (i0 + 1) (Hpre' _)) by lia.
        rewrite <- app_assoc. reflexivity.
      * cbn [app].
        change (pre ++ a :: r) with (pre ++ [a] ++ r).
        rewrite app_assoc.
        rewrite (IH r (pre ++ [a]) (i0 + 1) (Hpre' _)) by lia.
        rewrite <- app_assoc. cbn [app]. do 2 f_equal. lia.
Qed.

(** [U]: the result positions, [r]: the lengths accumulated so far, [gp] / [L]: the gap positions and
    the gap lengths of one of the two maps.  No sortedness / uniqueness is needed: each position of
    [U] is visited once, [np_index_of] and [lookup] both use the first occurrence in [gp]. *)
Lemma update_lengths_eq U r gp L : zlen r = zlen U ->
  g_update_lengths U r gp L = map (fun '(x, p) => x + length_at gp L p) (combine r U).
Proof.
  intros Hlen. unfold g_update_lengths, np_isect_a, np_isect_b. norm.
  pose proof (update_lengths_from gp L U r [] 0 eq_refl Hlen) as H. cbn [app] in H. rewrite H.
  unfold add_lengths. apply map_ext. intros [x p]. reflexivity.
Qed.

Lemma zlen_update_lengths U r gp L : zlen r = zlen U -> zlen (g_update_lengths U r gp L) = zlen U.
Proof.
  intros Hlen. rewrite update_lengths_eq by exact Hlen. rewrite zlen_map.
  unfold zlen in *. rewrite combine_length. lia.
Qed.

(** * [merge_maps] *)

(** two rounds of [_update_lengths] from zeros: the sum of the two maps' lengths at every position *)
Lemma update_twice U gp1 L1 gp2 L2 :
  g_update_lengths U (g_update_lengths U (np_zeros_like U) gp1 L1) gp2 L2
  = map (fun p => length_at gp1 L1 p + length_at gp2 L2 p) U.
Proof.
  assert (Hz : zlen (np_zeros_like U) = zlen U) by (unfold np_zeros_like; apply zlen_map).
  rewrite (update_lengths_eq U _ gp2 L2) by (apply zlen_update_lengths; exact Hz).
  rewrite (update_lengths_eq U _ gp1 L1) by exact Hz.
  unfold np_zeros_like. clear Hz.
  induction U as [|p U IH]; [reflexivity|].
  cbn [map combine]. rewrite IH. f_equal.
Qed.

(** holds for all maps (the arrays need not even be equally long / sorted) *)
Theorem merge_maps_eq_all m other plen : g_merge_maps m other plen = merge_maps m other plen.
Proof.
  unfold g_merge_maps, merge_maps. norm.
  rewrite !get_gap_lengths_eq. rewrite update_twice. rewrite post_init_len_eq. reflexivity.
Qed.

Theorem merge_maps_eq m other plen : WF m -> WF other ->
  g_merge_maps m other plen = merge_maps m other plen.
Proof. intros _ _. apply merge_maps_eq_all. Qed.
