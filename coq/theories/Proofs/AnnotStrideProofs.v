(** C04 phase 3 (3) - strided views (|step| > 1): what get_features computes.
    Depends only on the C01 view lemmas and Proofs/AnnotProofs.v. *)
From CG3 Require Import Lib.PyZ Lib.Val Lib.PySlice Model.View Spec.ViewSpec Proofs.ViewProofs Proofs.ViewSeqProofs.
From CG3 Require Import Model.Annot Spec.AnnotSpec Proofs.AnnotProofs.

(** absolute coordinate of the residue at plus-oriented index [k] of a view
    (index 0 = leftmost displayed residue on the plus strand) *)
Definition dabs (v : view) (k : Z) : Z :=
  if is_reversed v then offset v + seq_len v + start v - (vlen v - 1 - k) * Z.abs (step v)
  else offset v + start v + k * step v.

(** ceiling division as the code computes it: [tmp // c] or [tmp // c + 1] *)
Lemma ceil_char tmp c k : 0 < c ->
  ((if tmp mod c =? 0 then tmp / c else tmp / c + 1) <= k <-> tmp <= k * c).
Proof.
  intros Hc. pose proof (Z.div_mod tmp c ltac:(lia)) as Hd. pose proof (Z.mod_pos_bound tmp c Hc) as Hm.
  destruct (tmp mod c =? 0) eqn:E; split; intros H; nia.
Qed.

(** the relative coordinate (plus orientation) of an absolute coordinate [x] is
    the least plus-index whose residue lies at or after [x] - for EVERY [x], on
    or off the stride grid, either orientation: the code does not round wrongly *)
Lemma rel_coord_stride v x : WF v -> 0 < vlen v -> 0 <= x ->
  exists r, rel_coord v x = Ok r /\ forall k, r <= k <-> x <= dabs v k.
Proof.
  intros Hwf Hlen Hx. unfold rel_coord, relative_position, bind, dabs.
  replace (vlen v =? 0) with false by lia. replace (x <? 0) with false by lia.
  unfold is_reversed. destruct (Z_lt_le_dec (step v) 0) as [Hneg|Hpos].
  - replace (step v <? 0) with true by lia.
    destruct (wf_rev_facts v Hwf Hneg) as (Hn & Hb & Hs & _).
    set (tmp := seq_len v - x + offset v + start v + 1). set (c := - step v).
    assert (Hc : 0 < c) by (subst c; lia).
    assert (Ea : Z.abs (step v) = c) by (subst c; lia). rewrite Ea.
    assert (Em : (tmp mod step v =? 0) = (tmp mod c =? 0)).
    { assert (Hiff : tmp mod step v = 0 <-> tmp mod c = 0).
      { rewrite !Z.mod_divide by lia. subst c. symmetry. apply Z.divide_opp_l. }
      destruct (tmp mod step v =? 0) eqn:E1; destruct (tmp mod c =? 0) eqn:E2; try reflexivity; exfalso.
      - apply Z.eqb_eq in E1. apply Hiff in E1. lia.
      - apply Z.eqb_eq in E2. apply Hiff in E2. lia. }
    rewrite Em, orb_false_r. eexists. split; [reflexivity|]. intros k.
    pose proof (ceil_char tmp c (vlen v - 1 - k + 1 - 1 + 1) Hc) as Hk0.
    pose proof (ceil_char tmp c (vlen v - k) Hc) as Hk.
    (* n - ceil <= k  <->  ceil >= n - k  <->  not (ceil <= n - k - 1) *)
    pose proof (ceil_char tmp c (vlen v - k - 1) Hc) as Hk1.
    subst tmp. split; intros H.
    + assert (Hn' : ~ (if (seq_len v - x + offset v + start v + 1) mod c =? 0
                       then (seq_len v - x + offset v + start v + 1) / c
                       else (seq_len v - x + offset v + start v + 1) / c + 1) <= vlen v - k - 1) by lia.
      rewrite Hk1 in Hn'. nia.
    + assert (Hn' : ~ (seq_len v - x + offset v + start v + 1 <= (vlen v - k - 1) * c)) by nia.
      rewrite <- Hk1 in Hn'. lia.
  - assert (Hp : 0 < step v) by (pose proof (wf_step_nz v Hwf); lia).
    replace (step v <? 0) with false by lia. rewrite orb_false_r.
    eexists. split; [reflexivity|]. intros k.
    rewrite (ceil_char (x - (offset v + start v)) (step v) k Hp). lia.
Qed.

(** * the query window of a strided view *)

Lemma abs_pos_first v : WF v -> 0 < vlen v ->
  absolute_position v 0 false = Ok (if is_reversed v then parent_stop v else parent_start v).
Proof.
  intros Hwf Hlen. unfold absolute_position, bind. rewrite get_index_false.
  replace (vlen v =? 0) with false by lia. cbn [Z.ltb Z.gtb Z.compare andb].
  unfold parent_start, parent_stop, is_reversed. pose proof (wf_step_nz v Hwf).
  destruct (Z_lt_le_dec (step v) 0) as [Hneg|Hpos].
  - replace (step v >? 0) with false by lia. replace (step v <? 0) with true by lia. cbn [Z.geb Z.compare].
    f_equal. lia.
  - replace (step v >? 0) with true by lia. replace (step v <? 0) with false by lia. cbn [Z.geb Z.compare].
    f_equal. lia.
Qed.

Lemma abs_pos_last v : WF v -> 0 < vlen v ->
  absolute_position v (vlen v) true =
    Ok (if is_reversed v then parent_stop v - vlen v * Z.abs (step v) else parent_start v + vlen v * step v).
Proof.
  intros Hwf Hlen. unfold absolute_position, get_index, bind.
  replace (vlen v =? 0) with false by lia. replace (vlen v <? 0) with false by lia.
  replace (vlen v >? 0) with true by lia. replace (vlen v >? vlen v) with false by lia.
  cbn [andb negb]. replace (vlen v >=? 0) with true by lia.
  unfold parent_start, parent_stop, is_reversed. pose proof (wf_step_nz v Hwf).
  destruct (Z_lt_le_dec (step v) 0) as [Hneg|Hpos].
  - replace (step v >? 0) with false by lia. replace (step v <? 0) with true by lia. f_equal. lia.
  - replace (step v >? 0) with true by lia. replace (step v <? 0) with false by lia. f_equal. lia.
Qed.

(** [get_features()] on a strided view queries the db with the segment
    [first displayed residue, first + len * |step|) (mirrored on a reversed
    view): it extends past the last displayed residue by [|step| - 1] positions *)
Lemma strided_window v : WF v -> 0 <= offset v -> 0 < vlen v ->
  query_window v None None =
    Ok (if is_reversed v then (Z.max (parent_stop v - vlen v * Z.abs (step v)) 0, parent_stop v)
        else (parent_start v, parent_start v + vlen v * step v)).
Proof.
  intros Hwf Hoff Hlen. unfold query_window. cbn [py_or]. replace (0 <? 0) with false by lia.
  replace (vlen v <? 0) with false by lia. replace (0 <? vlen v) with true by lia.
  rewrite (abs_pos_first v Hwf Hlen), (abs_pos_last v Hwf Hlen). cbn [bind].
  pose proof (seg_bounds v Hwf) as Hb. unfold seg_lo in Hb.
  destruct (is_reversed v); [reflexivity|]. f_equal. f_equal. lia.
Qed.

(** the overshoot is less than one stride (C01 [parent_segment_strided]) *)
Lemma strided_window_overshoot v : WF v -> 0 < vlen v ->
  parent_stop v <= parent_start v + vlen v * Z.abs (step v) < parent_stop v + Z.abs (step v) /\
  parent_start v - Z.abs (step v) < parent_stop v - vlen v * Z.abs (step v) <= parent_start v.
Proof.
  intros Hwf Hlen. pose proof (parent_segment_tight v Hwf Hlen) as H. unfold seg_lo, seg_hi in H. nia.
Qed.

(** * make_feature on spans that may be empty after rounding to the stride grid *)


Definition properw (sp : list (Z * Z)) : Prop := Forall (fun ab => fst ab <= snd ab) sp.


Lemma sfl_step_w fx n s e rest m : s <= e -> 0 <= n ->
  sfl_loop n (match clamp_span fx n (s, e) with Some q => q :: rest | None => rest end) = Ok m ->
  exists m1 m2, m = m1 ++ m2 /\ sfl_loop n rest = Ok m2 /\
    mpos m1 = zr (Z.max s 0) (Z.min e n) /\ Forall (span_in n) m1.
Proof.
  intros Hse Hn. unfold clamp_span.
  replace (Z.min s e) with s by lia. replace (Z.max s e) with e by lia.
  assert (Hdrop : sfl_loop n rest = Ok m -> Z.min e n <= Z.max s 0 ->
     exists m1 m2, m = m1 ++ m2 /\ sfl_loop n rest = Ok m2 /\
       mpos m1 = zr (Z.max s 0) (Z.min e n) /\ Forall (span_in n) m1).
  { intros H Hle. exists [], m. repeat split; [assumption| |constructor].
    cbn. symmetry. apply zr_empty. lia. }
  assert (Hkeep : forall s' e', 0 <= s' <= e' -> s' <= n -> s' = Z.max s 0 \/ Z.min e' n <= s' /\ Z.min e n <= Z.max s 0 ->
     Z.min e' n = Z.min e n \/ Z.min e' n <= s' /\ Z.min e n <= Z.max s 0 ->
     sfl_loop n ((s', e') :: rest) = Ok m ->
     exists m1 m2, m = m1 ++ m2 /\ sfl_loop n rest = Ok m2 /\
       mpos m1 = zr (Z.max s 0) (Z.min e n) /\ Forall (span_in n) m1).
  { intros s' e' Hs' Hsn Hs'' He''. cbn [sfl_loop].
    replace (s' >? e') with false by lia. replace (Z.min s' e' <? 0) with false by lia.
    replace (s' >? n) with false by lia. cbn [orb].
    destruct (sfl_loop n rest) as [m2|c] eqn:E2; cbn [bind]; [|discriminate].
    assert (Hz : zr s' (Z.min e' n) = zr (Z.max s 0) (Z.min e n)).
    { destruct Hs'' as [->|[H1 H2]].
      - destruct He'' as [->|[H3 H4]]; [reflexivity|]. rewrite !zr_empty by lia. reflexivity.
      - rewrite !zr_empty by lia. reflexivity. }
    destruct (e' >? n) eqn:E3; intros [= <-].
    - exists [SSpan s' (Z.min e' n); SLost (Z.abs (e' - n))], m2. repeat split.
      + cbn. rewrite app_nil_r. exact Hz.
      + repeat constructor; lia.
    - exists [SSpan s' e'], m2. repeat split.
      + cbn. rewrite app_nil_r. replace (Z.min e' n) with e' in Hz by lia. exact Hz.
      + repeat constructor; lia. }
  destruct ((s <? 0) && (0 <? e)) eqn:C1.
  { apply Hkeep; lia. }
  destruct ((s <? n) && (n <? e)) eqn:C2.
  { apply Hkeep; lia. }
  destruct (fx_bound fx).
  - destruct ((s =? e) || (s >=? n) || (e <=? 0)) eqn:C3.
    + intros H. apply Hdrop; [assumption|lia].
    + apply Hkeep; lia.
  - destruct ((s =? e) || (s >? n) || (e <? 0)) eqn:C3.
    + intros H. apply Hdrop; [assumption|lia].
    + destruct (Z_lt_le_dec s 0) as [Hneg|Hpos].
      * (* the span ends exactly at the view start: the loop raises *)
        cbn [sfl_loop]. replace (Z.min s e <? 0) with true by lia. rewrite orb_true_r. discriminate.
      * apply Hkeep; lia.
Qed.

Lemma sfl_clamp_w fx n sp : 0 <= n -> properw sp -> forall m,
  sfl_loop n (clamp_spans fx n sp) = Ok m -> mpos m = rpositions n sp /\ Forall (span_in n) m.
Proof.
  intros Hn. induction sp as [|[s e] r IH]; intros Hp m.
  - cbn. intros [= <-]. split; [reflexivity|constructor].
  - inversion Hp as [|x y Hse Hr]; subst. cbn [fst snd] in Hse.
    cbn [clamp_spans]. intros H.
    assert (H' : sfl_loop n (match clamp_span fx n (s, e) with
                             | Some q => q :: clamp_spans fx n r | None => clamp_spans fx n r end) = Ok m).
    { destruct (clamp_span fx n (s, e)); exact H. }
    destruct (sfl_step_w fx n s e _ m Hse Hn H') as (m1 & m2 & -> & E2 & Hpos & Hin).
    destruct (IH Hr m2 E2) as (IH1 & IH2). split.
    + rewrite mpos_app, Hpos, IH1. reflexivity.
    + apply Forall_app. split; assumption.
Qed.

Lemma make_feature_pos_w fx n rced sp minus fv : 0 <= n -> properw sp ->
  make_feature fx n rced sp minus = Ok fv ->
  fv_minus fv = negb (Bool.eqb minus rced) /\
  exists m, Forall (span_in n) m /\ no_lost m /\ mpos m = rpositions n sp /\
    without_gaps (fv_map fv) = if rced then rev (map (nrev_span n) m) else m.
Proof.
  intros Hn Hp. unfold make_feature.
  destruct (all_coords sp) as [|x r]; [discriminate|].
  set (pre := if fold_right Z.min x r <? 0 then _ else 0).
  set (post := if fold_right Z.max x r >? n then _ else 0).
  destruct (spans_from_locations n (clamp_spans fx n sp)) as [m0|c] eqn:E; [|discriminate].
  cbn [bind]. intros [= <-]. cbn [fv_minus fv_map]. split; [reflexivity|].
  assert (E0 : sfl_loop n (clamp_spans fx n sp) = Ok m0).
  { unfold spans_from_locations in E. destruct (clamp_spans fx n sp) as [|[s0 e0] l0] eqn:El.
    - injection E as <-. reflexivity.
    - destruct (s0 >? _); [discriminate|exact E]. }
  destruct (sfl_clamp_w fx n sp Hn Hp m0 E0) as (Hpos & Hin).
  exists (without_gaps m0). split; [now apply Forall_without_gaps|]. split; [apply without_gaps_no_lost|].
  split; [rewrite mpos_without_gaps; exact Hpos|].
  assert (Hwg : without_gaps (if negb (pre =? 0) || negb (post =? 0)
                 then (if negb (pre =? 0) then [SLost pre] else []) ++ m0 ++ (if negb (post =? 0) then [SLost post] else [])
                 else m0) = without_gaps m0).
  { destruct (negb (pre =? 0) || negb (post =? 0)); [|reflexivity].
    rewrite !without_gaps_app.
    destruct (negb (pre =? 0)); destruct (negb (post =? 0)); cbn; rewrite ?app_nil_r; reflexivity. }
  destruct rced.
  - rewrite without_gaps_nrev, Hwg. reflexivity.
  - exact Hwg.
Qed.

(** * the slice of a feature on a strided view *)

(** parent index of plus-index 0, and the displayed residues in plus orientation *)
Definition dstart (v : view) : Z :=
  if is_reversed v then seq_len v + start v + (vlen v - 1) * step v else start v.

Definition dplus_s (v : view) (p : list Z) : list Z :=
  gather p (prog (dstart v) (Z.abs (step v)) (Z.to_nat (vlen v))).

Lemma dplus_s_in_range v : WF v ->
  forall i, In i (prog (dstart v) (Z.abs (step v)) (Z.to_nat (vlen v))) -> 0 <= i < seq_len v.
Proof.
  intros Hwf i Hi. pose proof (vlen_nonneg v) as Hn. pose proof (wf_step_nz v Hwf) as Hnz.
  unfold dstart, is_reversed in Hi. destruct (Z_lt_le_dec (step v) 0) as [Hneg|Hpos].
  - replace (step v <? 0) with true in Hi by lia. apply prog_In in Hi. destruct Hi as (k & Hk & ->).
    rewrite Z2Nat.id in Hk by lia.
    apply (value_rev_in_range v Hwf Hneg). apply prog_In. exists (vlen v - 1 - k). rewrite Z2Nat.id by lia. split; [lia|].
    replace (Z.abs (step v)) with (- step v) by lia. ring.
  - replace (step v <? 0) with false in Hi by lia. replace (Z.abs (step v)) with (step v) in Hi by lia.
    exact (value_fwd_in_range v Hwf ltac:(lia) i Hi).
Qed.

Lemma value_stride v p : WF v -> zlen p = seq_len v ->
  value v p = if is_reversed v then rev (dplus_s v p) else dplus_s v p.
Proof.
  intros Hwf Hp. pose proof (vlen_nonneg v) as Hn. pose proof (wf_step_nz v Hwf) as Hnz.
  unfold dplus_s, dstart, is_reversed. destruct (Z_lt_le_dec (step v) 0) as [Hneg|Hpos].
  - replace (step v <? 0) with true by lia. rewrite (value_rev v p Hwf Hneg Hp).
    rewrite <- gather_rev, prog_rev. f_equal. rewrite Z2Nat.id by lia.
    replace (Z.abs (step v)) with (- step v) by lia. f_equal; ring.
  - replace (step v <? 0) with false by lia. rewrite (value_fwd v p Hwf ltac:(lia) Hp).
    replace (Z.abs (step v)) with (step v) by lia. reflexivity.
Qed.

Lemma zlen_dplus_s v p : WF v -> zlen p = seq_len v -> zlen (dplus_s v p) = vlen v.
Proof.
  intros Hwf Hp. unfold dplus_s, zlen. rewrite gather_length, prog_length.
  - pose proof (vlen_nonneg v). lia.
  - intros i Hi. fold (zlen p). rewrite Hp. exact (dplus_s_in_range v Hwf i Hi).
Qed.

Lemma zget_gather_prog {A} (p : list A) f st n i :
  (forall j, In j (prog f st n) -> 0 <= j < zlen p) -> 0 <= i < Z.of_nat n ->
  zget (gather p (prog f st n)) i = zget p (f + i * st).
Proof.
  intros Hin Hi. rewrite <- !gather_single. change [i] with (prog i 1 1). rewrite gather_prog_prog.
  - cbn; try reflexivity; repeat f_equal; lia.
  - exact Hin.
  - intros j Hj. apply prog_In in Hj. destruct Hj as (k & Hk & ->). lia.
Qed.

Lemma gather_dplus_s v p idx : WF v -> zlen p = seq_len v ->
  (forall x, In x idx -> 0 <= x < vlen v) ->
  gather (dplus_s v p) idx = flat_map (residue p (offset v)) (map (dabs v) idx).
Proof.
  intros Hwf Hp Hin. rewrite flat_map_map. unfold gather. apply flat_map_ext_in.
  intros x Hx. specialize (Hin x Hx). unfold dplus_s, residue.
  rewrite zget_gather_prog; [|rewrite Hp; exact (dplus_s_in_range v Hwf)|lia].
  f_equal. unfold dstart, dabs, is_reversed. pose proof (wf_step_nz v Hwf).
  destruct (Z_lt_le_dec (step v) 0) as [Hneg|Hpos].
  - replace (step v <? 0) with true by lia. replace (Z.abs (step v)) with (- step v) by lia. ring.
  - replace (step v <? 0) with false by lia. replace (Z.abs (step v)) with (step v) by lia. ring.
Qed.

(** HEADLINE (strided): whatever the stride, the slice of the Feature built
    from relative spans [rs] is the parent residues at the absolute coordinates
    of the displayed plus-indices the spans cover, read on the feature's strand *)
Lemma strided_feature_slice fx v p rs minus fv :
  WF v -> 0 < vlen v -> zlen p = seq_len v -> properw rs ->
  make_feature fx (vlen v) (is_reversed v) rs minus = Ok fv ->
  fv_minus fv = xorb minus (is_reversed v) /\
  get_slice_str v p fv =
    Ok (let plus := flat_map (residue p (offset v)) (map (dabs v) (rpositions (vlen v) rs)) in
        if minus then cmpl (rev plus) else plus).
Proof.
  intros Hwf Hlen Hp Hpr Hmf. pose proof (vlen_nonneg v) as Hn.
  destruct (make_feature_pos_w fx (vlen v) (is_reversed v) rs minus fv Hn Hpr Hmf) as (Hminus & m & Hin & Hnl & Hpos & Hmap).
  split; [rewrite Hminus; destruct minus, (is_reversed v); reflexivity|].
  assert (Hplus : gather (dplus_s v p) (mpos m) =
                  flat_map (residue p (offset v)) (map (dabs v) (rpositions (vlen v) rs))).
  { rewrite (gather_dplus_s v p (mpos m) Hwf Hp) by (intros x Hx; exact (mpos_in_range _ m x Hin Hx)).
    rewrite Hpos. reflexivity. }
  unfold get_slice_str. cbv zeta. rewrite Hmap, Hminus, <- Hplus.
  destruct (is_reversed v) eqn:Er.
  - rewrite segments_spec; [|assumption|assumption|now apply Forall_nrev|now apply no_lost_nrev].
    cbn [bind]. unfold orient. rewrite Er. rewrite (value_stride v p Hwf Hp), Er.
    rewrite (gather_rev_dplus (dplus_s v p) (vlen v) m (zlen_dplus_s v p Hwf Hp) Hin Hnl).
    destruct minus; cbn [Bool.eqb negb].
    + reflexivity.
    + rewrite cmpl_rev, cmpl_cmpl, rev_involutive. reflexivity.
  - rewrite segments_spec by assumption. cbn [bind]. unfold orient. rewrite Er.
    rewrite (value_stride v p Hwf Hp), Er. destruct minus; reflexivity.
Qed.

(** the relative spans [get_features] computes on any view: each end is the
    least plus-index at or after the absolute coordinate - so plus-index [k] is
    covered by the relative span exactly when its residue lies inside the
    absolute span: no rounding error for ends on or off the stride grid *)
Definition end_ok (v : view) (x r : Z) : Prop := forall k, r <= k <-> x <= dabs v k.

Lemma rel_spans_stride v sp : WF v -> 0 < vlen v -> forall lo, 0 <= lo -> spans_ok lo sp ->
  exists rs, rel_spans v sp = Ok rs /\ properw rs /\
    Forall2 (fun ab r => end_ok v (fst ab) (fst r) /\ end_ok v (snd ab) (snd r)) sp rs.
Proof.
  intros Hwf Hlen. induction sp as [|[a b] t IH]; intros lo Hlo Hok.
  - exists []. split; [reflexivity|]. split; constructor.
  - cbn in Hok. destruct Hok as (H1 & H2 & H3).
    destruct (rel_coord_stride v a Hwf Hlen ltac:(lia)) as (ra & Ea & Ha).
    destruct (rel_coord_stride v b Hwf Hlen ltac:(lia)) as (rb & Eb & Hb).
    destruct (IH b ltac:(lia) H3) as (rs & Ers & Hpr & Hall).
    exists ((ra, rb) :: rs). cbn [rel_spans]. rewrite Ea, Eb. cbn [bind]. rewrite Ers. cbn [bind].
    split; [reflexivity|]. split.
    + constructor; [|exact Hpr]. cbn [fst snd].
      pose proof (proj1 (Hb rb) (Z.le_refl rb)) as Hbb. apply (Ha rb). lia.
    + constructor; [|exact Hall]. split; assumption.
Qed.

Lemma covered_iff v a b ra rb n k : end_ok v a ra -> end_ok v b rb -> 0 <= k < n ->
  (In k (zr (Z.max ra 0) (Z.min rb n)) <-> a <= dabs v k < b).
Proof.
  intros Ha Hb Hk. rewrite zr_In. specialize (Ha k). specialize (Hb k). split; intros H.
  - split; [apply Ha; lia|]. destruct (Z_lt_le_dec (dabs v k) b) as [L|L]; [exact L|]. apply Hb in L. lia.
  - destruct H as (H1 & H2). apply Ha in H1. assert (~ rb <= k) by (intros C; apply Hb in C; lia). lia.
Qed.

Lemma rpositions_In v n sp rs k :
  Forall2 (fun ab r => end_ok v (fst ab) (fst r) /\ end_ok v (snd ab) (snd r)) sp rs ->
  (In k (rpositions n rs) <-> 0 <= k < n /\ exists ab, In ab sp /\ fst ab <= dabs v k < snd ab).
Proof.
  intros H. unfold rpositions. induction H as [|ab r sp rs (Ha & Hb) _ IH]; cbn [flat_map].
  - split; [intros []|intros (_ & ab & [] & _)].
  - rewrite in_app_iff, IH. split.
    + intros [Hk|(Hr & ab' & Hin & Hc)].
      * assert (Hkr : 0 <= k < n) by (apply zr_In in Hk; lia).
        split; [exact Hkr|]. exists ab. split; [now left|]. exact (proj1 (covered_iff v _ _ _ _ n k Ha Hb Hkr) Hk).
      * split; [exact Hr|]. exists ab'. split; [now right|exact Hc].
    + intros (Hr & ab' & [->|Hin] & Hc).
      * left. exact (proj2 (covered_iff v _ _ _ _ n k Ha Hb Hr) Hc).
      * right. split; [exact Hr|]. exists ab'. split; assumption.
Qed.

(** HEADLINE (strided, whole path): on ANY well-formed view - any stride,
    either orientation - the Feature get_features builds reads exactly the
    displayed residues whose absolute coordinate lies inside a span of the
    feature, in plus order, on the feature's strand *)
Lemma strided_get_features_slice fx v p f fv :
  WF v -> 0 < vlen v -> zlen p = seq_len v -> spans_ok 0 (f_spans f) ->
  feature_on_view fx v f = Ok fv ->
  exists rs,
    (forall k, In k (rpositions (vlen v) rs) <->
       0 <= k < vlen v /\ exists ab, In ab (f_spans f) /\ fst ab <= dabs v k < snd ab) /\
    fv_minus fv = xorb (f_minus f) (is_reversed v) /\
    get_slice_str v p fv =
      Ok (let plus := flat_map (residue p (offset v)) (map (dabs v) (rpositions (vlen v) rs)) in
          if f_minus f then cmpl (rev plus) else plus).
Proof.
  intros Hwf Hlen Hp Hok Hfv.
  destruct (rel_spans_stride v (f_spans f) Hwf Hlen 0 (Z.le_refl 0) Hok) as (rs & Ers & Hpr & Hall).
  unfold feature_on_view in Hfv. rewrite Ers in Hfv. cbn [bind] in Hfv.
  exists rs. split; [intros k; exact (rpositions_In v (vlen v) _ rs k Hall)|].
  exact (strided_feature_slice fx v p rs (f_minus f) fv Hwf Hlen Hp Hpr Hfv).
Qed.

(* "ACGTACGTAC"[1:10:3] displays C(1) A(4) T(7); rc of it; the feature [3,8) off the grid reads A T *)
Definition ws_parent : list Z := [65; 67; 71; 84; 65; 67; 71; 84; 65; 67].
Definition ws_view : view := mkV 1 10 3 10 0.
Definition ws_feat : feat := mkF [(3, 8)] false.

Example strided_instance :
  WF ws_view /\ vlen ws_view = 3 /\ spans_ok 0 (f_spans ws_feat) /\
  query_window ws_view None None = Ok (1, 10) /\
  exists fv, feature_on_view pinned ws_view ws_feat = Ok fv /\
    get_slice_str ws_view ws_parent fv = Ok [65; 84].
Proof.
  split; [unfold WF; cbn; lia|]. split; [reflexivity|]. split; [cbn; lia|]. split; [vm_compute; reflexivity|].
  eexists. split; [vm_compute; reflexivity|vm_compute; reflexivity].
Qed.

(** * query windows with negative, swapped or out-of-range bounds (contiguous views) *)

(** the bounds after [x or default], the negative wrap and the swap *)
Definition win_lo (n : Z) (ws we : option Z) : Z :=
  let s := py_or ws 0 in let e := py_or we n in
  let s := if s <? 0 then s + n else s in let e := if e <? 0 then e + n else e in Z.min s e.
Definition win_hi (n : Z) (ws we : option Z) : Z :=
  let s := py_or ws 0 in let e := py_or we n in
  let s := if s <? 0 then s + n else s in let e := if e <? 0 then e + n else e in Z.max s e.

Lemma query_window_unfold v ws we :
  query_window v ws we =
  bind (absolute_position v (win_lo (vlen v) ws we) false) (fun qs =>
  bind (absolute_position v (win_hi (vlen v) ws we) true) (fun qe =>
  let '(qs, qe) := if is_reversed v then (qe, qs) else (qs, qe) in Ok (Z.max qs 0, qe))).
Proof.
  unfold query_window, win_lo, win_hi. cbv zeta.
  set (s := if py_or ws 0 <? 0 then _ else _). set (e := if py_or we (vlen v) <? 0 then _ else _).
  destruct (s <? e) eqn:E.
  - replace (Z.min s e) with s by lia. replace (Z.max s e) with e by lia. reflexivity.
  - replace (Z.min s e) with e by lia. replace (Z.max s e) with s by lia. reflexivity.
Qed.

(** any pair of bounds - omitted, 0 (= omitted), negative (counted from the
    end), in either order - that lands inside the view selects the absolute
    segment of the displayed indices [lo, hi) ... *)
Lemma query_window_any v ws we : contig v -> 0 < vlen v ->
  0 <= win_lo (vlen v) ws we < vlen v -> win_hi (vlen v) ws we <= vlen v ->
  query_window v ws we =
    Ok (if is_reversed v
        then (parent_stop v - win_hi (vlen v) ws we, parent_stop v - win_lo (vlen v) ws we)
        else (parent_start v + win_lo (vlen v) ws we, parent_start v + win_hi (vlen v) ws we)).
Proof.
  intros Hc Hlen Hlo Hhi. rewrite query_window_unfold.
  assert (Hle : win_lo (vlen v) ws we <= win_hi (vlen v) ws we) by (unfold win_lo, win_hi; cbv zeta; lia).
  rewrite (abs_pos_contig v _ false Hc Hlen) by lia.
  rewrite (abs_pos_contig v _ true Hc Hlen) by lia. cbn [bind].
  destruct (contig_cases v Hc) as [(Es & Er & H1 & H2 & H3 & H4 & H5)|(Es & Er & H1 & H2 & H3 & H4 & H5)];
    rewrite Er; destruct Hc as (_ & _ & Hoff); f_equal; f_equal; lia.
Qed.

(** ... and bounds that fall outside raise IndexError (an empty window at the
    very end, [start = len], included) *)
Lemma query_window_raises v ws we : contig v -> 0 < vlen v ->
  win_lo (vlen v) ws we < 0 \/ vlen v <= win_lo (vlen v) ws we \/ vlen v < win_hi (vlen v) ws we ->
  query_window v ws we = Err E_Index.
Proof.
  intros Hc Hlen H. rewrite query_window_unfold.
  assert (Hle : win_lo (vlen v) ws we <= win_hi (vlen v) ws we) by (unfold win_lo, win_hi; cbv zeta; lia).
  set (lo := win_lo (vlen v) ws we) in *. set (hi := win_hi (vlen v) ws we) in *.
  destruct (Z_lt_le_dec lo 0) as [L0|L0].
  { unfold absolute_position. replace (vlen v =? 0) with false by lia. replace (lo <? 0) with true by lia. reflexivity. }
  destruct (Z_lt_le_dec lo (vlen v)) as [L1|L1].
  - (* lo inside, hi beyond the end *)
    assert (Hhi : vlen v < hi) by lia.
    rewrite (abs_pos_contig v lo false Hc Hlen) by lia. cbn [bind].
    unfold absolute_position, get_index. replace (vlen v =? 0) with false by lia. replace (hi <? 0) with false by lia.
    replace ((hi >? 0) && true && (hi >? vlen v)) with true by lia. reflexivity.
  - unfold absolute_position, get_index. replace (vlen v =? 0) with false by lia. replace (lo <? 0) with false by lia.
    replace ((lo >? 0) && false && (lo >? vlen v)) with false by lia.
    replace ((lo >? 0) && negb false && (lo >=? vlen v)) with true by lia. reflexivity.
Qed.

Lemma query_membership_any fx v db ws we partial l : contig v -> 0 < vlen v ->
  let lo := win_lo (vlen v) ws we in let hi := win_hi (vlen v) ws we in
  0 <= lo < hi -> hi <= vlen v -> Forall feat_ok db ->
  get_features fx v db ws we partial = Ok l ->
  forall k, In k (map fst l) <->
    exists f, 0 <= k /\ nth_error db (Z.to_nat k) = Some f /\ box_matches partial (abs_window v lo hi) f.
Proof.
  intros Hc Hlen lo hi Hlo Hhi Hdb Hl k.
  pose proof (query_window_any v ws we Hc Hlen ltac:(fold lo; lia) Hhi) as Hw. fold lo hi in Hw.
  assert (Hw' : query_window v ws we = Ok (fst (abs_window v lo hi), snd (abs_window v lo hi))).
  { rewrite Hw. unfold abs_window. destruct (is_reversed v); reflexivity. }
  rewrite (get_features_member fx v db ws we partial _ _ l Hw' Hl k).
  assert (Hq : fst (abs_window v lo hi) < snd (abs_window v lo hi)).
  { unfold abs_window. destruct (is_reversed v); cbn; lia. }
  split; intros (f & H0 & Hn & Hm); exists f; (split; [assumption|]); (split; [assumption|]).
  - assert (Hf : feat_ok f) by (apply (proj1 (Forall_forall _ _) Hdb); eapply nth_error_In; eassumption).
    apply (db_match_spec partial _ _ f Hf Hq) in Hm. unfold box_matches. destruct partial; exact Hm.
  - assert (Hf : feat_ok f) by (apply (proj1 (Forall_forall _ _) Hdb); eapply nth_error_In; eassumption).
    apply (db_match_spec partial _ _ f Hf Hq). unfold box_matches in Hm. destruct partial; exact Hm.
Qed.
