(** C08 — translator tie for the two generator methods of [IndelMap] whose
    [for i, pos in enumerate(self.gap_pos)] loop the translator turns into a
    LOCAL [fix] over the array: [nongap] and [spans] (coq/gen/IndelMapGen.v,
    [g_nongap], [g_spans]).  The generated loop reads [gap_pos[i]],
    [cum_gap_lengths[i - 1]] ... by INDEX; the hand-written model
    (Model/IndelMap.v [nongap_loop], [spans_loop]) walks both arrays in
    parallel and carries the previous entries.

    Method: [ng_loop] / [sp_loop] below are the bodies of the generated local
    fixes, written once more with a fixed choice of names; the generated
    functions unfold to them by CONVERSION ([g_nongap_unfold],
    [g_spans_unfold], proved by [reflexivity]: insensitive to the names and to
    the let-structure of the generated code, but any change of behaviour such
    as [i' - 1] -> [i'] breaks them).  The loop invariant is: at iteration [i]
    the arrays split as [pre ++ xs] / [cpre ++ cs] with [zlen pre = zlen cpre
    = i], and the model's carried values are what the code reads at index
    [i - 1] ([0] for [i = 0]). *)
From CG3 Require Import Lib.PyZ Lib.Val Model.IndelMap Model.IndelMapFixed Model.NumpyPrims Spec.IndelMapSpec.
From CG3 Require Import Proofs.IndelMapProofs Proofs.IndelMapGenEq.
From CG3gen Require Import IndelMapGen.
Import G.

Local Open Scope Z_scope.

(** * reading an array at the split point *)

Lemma znth_mid {A} (d : A) pre x post i : zlen pre = i -> znth d (pre ++ x :: post) i = x.
Proof.
  intros Hi. rewrite znth_app_r by lia. replace (i - zlen pre) with 0 by lia. apply znth_0.
Qed.

Lemma pyget_mid l pre x post i : l = pre ++ x :: post -> zlen pre = i -> pyget l i = x.
Proof.
  intros -> Hi. pose proof (zlen_nonneg pre) as Hn. rewrite pyget_nonneg by lia. now apply znth_mid.
Qed.

(* the value carried for index [i + 1] is the entry at the split point *)
Lemma prev_read l pre x post i : l = pre ++ x :: post -> zlen pre = i ->
  x = (if i + 1 =? 0 then 0 else pyget l (i + 1 - 1)).
Proof.
  intros Hl Hi. pose proof (zlen_nonneg pre) as Hn.
  destruct (i + 1 =? 0) eqn:E; [lia|]. replace (i + 1 - 1) with i by lia.
  symmetry. now apply (pyget_mid l pre x post).
Qed.

Lemma split_snoc {A} (l pre : list A) x post : l = pre ++ x :: post -> l = (pre ++ [x]) ++ post.
Proof. intros ->. now rewrite <- app_assoc. Qed.

Lemma zlen_snoc {A} (pre : list A) x i : zlen pre = i -> zlen (pre ++ [x]) = i + 1.
Proof. intros <-. rewrite zlen_app, zlen_cons. change (zlen (@nil A)) with 0. lia. Qed.

(** * [nongap] *)

(** what follows the loop *)
Definition ng_tail (m : imap) : list (Z * Z) :=
  if negb (num_gaps m =? 0) && (pyget (gap_pos m) (-1) + pyget (cum_gap_lengths m) (-1) <? g_len m)
  then [(pyget (gap_pos m) (-1) + pyget (cum_gap_lengths m) (-1), g_len m)]
  else [].

(** the loop of the generated code *)
Definition ng_loop (m : imap) : Z -> list Z -> Z -> list (Z * Z) :=
  fix loop (i : Z) (xs : list Z) (prev_pos : Z) {struct xs} : list (Z * Z) :=
    match xs with
    | [] => ng_tail m
    | pos :: xs' =>
        if pos =? 0 then loop (i + 1) xs' pos
        else
          let c := if i =? 0 then 0 else pyget (cum_gap_lengths m) (i - 1) in
          ((if i =? 0 then 0 else prev_pos) + c, pyget (gap_pos m) i + c) :: loop (i + 1) xs' pos
    end.

Lemma g_nongap_unfold m :
  g_nongap m = if negb (negb (num_gaps m =? 0)) then [(0, parent_length m)]
               else ng_loop m 0 (gap_pos m) 0.
Proof. reflexivity. Qed.

Lemma ng_loop_nil m i pp : ng_loop m i [] pp = ng_tail m.
Proof. reflexivity. Qed.

Lemma ng_loop_cons m i p xs pp :
  ng_loop m i (p :: xs) pp =
  if p =? 0 then ng_loop m (i + 1) xs p
  else ((if i =? 0 then 0 else pp) + (if i =? 0 then 0 else pyget (cum_gap_lengths m) (i - 1)),
        pyget (gap_pos m) i + (if i =? 0 then 0 else pyget (cum_gap_lengths m) (i - 1)))
       :: ng_loop m (i + 1) xs p.
Proof. reflexivity. Qed.

Lemma ng_loop_inv m : forall xs cs pre cpre i pp pc,
  gap_pos m = pre ++ xs -> cum_gap_lengths m = cpre ++ cs ->
  zlen pre = i -> zlen cpre = i -> zlen xs = zlen cs ->
  (i = 0 -> pp = 0) ->
  pc = (if i =? 0 then 0 else pyget (cum_gap_lengths m) (i - 1)) ->
  ng_loop m i xs pp = nongap_loop pp pc xs cs ++ ng_tail m.
Proof.
  induction xs as [|p xs IH]; intros cs pre cpre i pp pc Hgp Hcl Hpre Hcpre Hlen Hpp Hpc.
  - rewrite ng_loop_nil. reflexivity.
  - destruct cs as [|c cs].
    { rewrite zlen_cons in Hlen. change (zlen (@nil Z)) with 0 in Hlen. pose proof (zlen_nonneg xs). lia. }
    rewrite !zlen_cons in Hlen. pose proof (zlen_nonneg pre) as Hn.
    assert (Hrec : ng_loop m (i + 1) xs p = nongap_loop p c xs cs ++ ng_tail m).
    { apply (IH cs (pre ++ [p]) (cpre ++ [c]) (i + 1) p c).
      - now apply split_snoc.
      - now apply split_snoc.
      - now apply zlen_snoc.
      - now apply zlen_snoc.
      - lia.
      - lia.
      - now apply (prev_read _ cpre c cs). }
    rewrite ng_loop_cons. cbn [nongap_loop].
    destruct (p =? 0) eqn:Ep.
    + exact Hrec.
    + rewrite Hrec, <- Hpc, (pyget_mid _ pre p xs i Hgp Hpre). cbn [app].
      f_equal. f_equal. destruct (i =? 0) eqn:Ei; [rewrite Hpp by lia|]; reflexivity.
Qed.

Theorem nongap_eq m : LenOK m -> g_nongap m = nongap_v2 m.
Proof.
  intros Hl. rewrite g_nongap_unfold. unfold nongap_v2.
  destruct (num_gaps m =? 0) eqn:En; cbn [negb]; [reflexivity|].
  unfold nongap.
  rewrite (ng_loop_inv m (gap_pos m) (cum_gap_lengths m) [] [] 0 0 0);
    try reflexivity; [|exact Hl].
  f_equal. unfold ng_tail, zlast. rewrite len_eq. reflexivity.
Qed.

(** * [spans] *)

Definition sp_tail (m : imap) : list ispan :=
  if negb (num_gaps m =? 0) && (pyget (gap_pos m) (-1) <? parent_length m)
  then [ISpan (pyget (gap_pos m) (-1)) (parent_length m)]
  else [].

Definition sp_loop (m : imap) : Z -> list Z -> list ispan :=
  fix loop (i : Z) (xs : list Z) {struct xs} : list ispan :=
    match xs with
    | [] => sp_tail m
    | pos :: xs' =>
        let c := pyget (cum_gap_lengths m) i in
        if pos =? 0 then ILost c :: loop (i + 1) xs'
        else
          let '(prev_length, start) :=
            if i =? 0 then (0, 0)
            else (pyget (cum_gap_lengths m) (i - 1), pyget (gap_pos m) (i - 1)) in
          ISpan start pos :: ILost (c - prev_length) :: loop (i + 1) xs'
    end.

Lemma g_spans_unfold m :
  g_spans m = if negb (negb (num_gaps m =? 0)) then [ISpan 0 (parent_length m)]
              else sp_loop m 0 (gap_pos m).
Proof. reflexivity. Qed.

Lemma sp_loop_nil m i : sp_loop m i [] = sp_tail m.
Proof. reflexivity. Qed.

Lemma sp_loop_cons m i p xs :
  sp_loop m i (p :: xs) =
  if p =? 0 then ILost (pyget (cum_gap_lengths m) i) :: sp_loop m (i + 1) xs
  else ISpan (if i =? 0 then 0 else pyget (gap_pos m) (i - 1)) p
       :: ILost (pyget (cum_gap_lengths m) i - (if i =? 0 then 0 else pyget (cum_gap_lengths m) (i - 1)))
       :: sp_loop m (i + 1) xs.
Proof. unfold sp_loop. destruct (p =? 0); [reflexivity|]. destruct (i =? 0); reflexivity. Qed.

Lemma sp_loop_inv m : forall xs cs pre cpre i pp pc,
  gap_pos m = pre ++ xs -> cum_gap_lengths m = cpre ++ cs ->
  zlen pre = i -> zlen cpre = i -> zlen xs = zlen cs ->
  pp = (if i =? 0 then 0 else pyget (gap_pos m) (i - 1)) ->
  pc = (if i =? 0 then 0 else pyget (cum_gap_lengths m) (i - 1)) ->
  sp_loop m i xs = spans_loop pp pc xs cs ++ sp_tail m.
Proof.
  induction xs as [|p xs IH]; intros cs pre cpre i pp pc Hgp Hcl Hpre Hcpre Hlen Hpp Hpc.
  - rewrite sp_loop_nil. reflexivity.
  - destruct cs as [|c cs].
    { rewrite zlen_cons in Hlen. change (zlen (@nil Z)) with 0 in Hlen. pose proof (zlen_nonneg xs). lia. }
    rewrite !zlen_cons in Hlen.
    assert (Hrec : sp_loop m (i + 1) xs = spans_loop p c xs cs ++ sp_tail m).
    { apply (IH cs (pre ++ [p]) (cpre ++ [c]) (i + 1) p c).
      - now apply split_snoc.
      - now apply split_snoc.
      - now apply zlen_snoc.
      - now apply zlen_snoc.
      - lia.
      - now apply (prev_read _ pre p xs).
      - now apply (prev_read _ cpre c cs). }
    rewrite sp_loop_cons. cbn [spans_loop].
    rewrite Hrec, <- Hpp, <- Hpc, (pyget_mid _ cpre c cs i Hcl Hcpre).
    destruct (p =? 0) eqn:Ep; reflexivity.
Qed.

Theorem spans_eq m : LenOK m -> g_spans m = spans m.
Proof.
  intros Hl. rewrite g_spans_unfold. unfold spans.
  destruct (num_gaps m =? 0) eqn:En; cbn [negb]; [reflexivity|].
  rewrite (sp_loop_inv m (gap_pos m) (cum_gap_lengths m) [] [] 0 0 0);
    try reflexivity; [|exact Hl].
  f_equal. unfold sp_tail, zlast. rewrite En. reflexivity.
Qed.
