(** C08 — the corrected methods of Model/IndelMapFixed.v satisfy the
    UNGUARDED statements their pinned versions violate. *)
From CG3 Require Import Lib.PyZ Lib.Val Model.IndelMap Model.IndelMapFixed Spec.IndelMapSpec Spec.IndelMapStringOps.
From CG3 Require Import Proofs.IndelMapProofs Proofs.IndelMapOps Proofs.IndelMapSlice Proofs.IndelMapBounded.

Local Open Scope Z_scope.

(** [msub] already has Python's clamping of a stop beyond the end *)
Lemma msub_clamp {A} (k : list A) a b : 0 <= a -> msub k a b = msub k a (Z.min b (zlen k)).
Proof.
  intros Ha. destruct (Z_le_dec b (zlen k)) as [Le|Gt].
  - replace (Z.min b (zlen k)) with b by lia. reflexivity.
  - replace (Z.min b (zlen k)) with (zlen k) by lia. unfold msub.
    rewrite !firstn_all2; auto; rewrite skipn_length; unfold zlen in *; lia.
Qed.

Theorem slice_v2_spec m oa ob :
  WF m ->
  let a := py_bound (len m) 0 oa in
  let b := py_bound (len m) (len m) ob in
  0 <= a -> 0 <= b ->
  exists m', getitem_slice_v2 m oa ob = Ok m' /\ WF m' /\ abs m' = msub (abs m) a (Z.max a b).
Proof.
  intros Hwf a b Ha Hb.
  assert (Hlen : 0 <= len m) by (rewrite <- zlen_abs by auto; apply zlen_nonneg).
  assert (E : getitem_slice_v2 m oa ob = getitem_slice m (Some a) (Some (Z.min b (len m)))).
  { unfold getitem_slice_v2.
    assert (Ea : (let s := match oa with Some s => s | None => 0 end in if s >=? 0 then s else len m + s) = a).
    { unfold a, py_bound. destruct oa as [v|]; cbv zeta; [|reflexivity].
      destruct (v >=? 0) eqn:E1; destruct (v <? 0) eqn:E2; lia. }
    assert (Eb : (let s := match ob with Some s => s | None => len m end in if s >=? 0 then s else len m + s) = b).
    { unfold b, py_bound. destruct ob as [v|]; cbv zeta.
      - destruct (v >=? 0) eqn:E1; destruct (v <? 0) eqn:E2; lia.
      - destruct (len m >=? 0) eqn:E1; lia. }
    cbv zeta in Ea, Eb. cbv zeta. rewrite Ea, Eb.
    destruct (Z.min a b <? 0) eqn:E3; [lia|]. reflexivity. }
  rewrite E.
  pose proof (slice_spec_python m (Some a) (Some (Z.min b (len m))) Hwf) as H. cbv zeta in H.
  unfold py_bound in H.
  destruct (a <? 0) eqn:E1; [lia|]. destruct (Z.min b (len m) <? 0) eqn:E2; [lia|].
  destruct (H Ha ltac:(lia)) as (m' & Em & Hwf' & Habs). exists m'. split; [exact Em|]. split; [exact Hwf'|].
  rewrite Habs. rewrite (msub_clamp (abs m) a (Z.max a b)) by lia. rewrite (zlen_abs m Hwf).
  destruct (Z_le_dec a (len m)) as [L1|L1].
  - f_equal. lia.
  - (* start beyond the end: both empty *)
    assert (S1 : skipn (Z.to_nat a) (abs m) = []).
    { apply skipn_all2. pose proof (zlen_abs m Hwf). unfold zlen in *. lia. }
    unfold msub. rewrite S1. now rewrite !firstn_nil.
Qed.

(** literal form, any stop *)
Theorem slice_v2_from_mask (k : list bool) (a b : Z) :
  0 <= a -> 0 <= b ->
  getitem_slice_v2 (from_mask k) (Some a) (Some b) = Ok (from_mask (msub k a (Z.max a b))).
Proof.
  intros Ha Hb. pose proof (wf_from_mask k) as Hwf.
  pose proof (slice_v2_spec (from_mask k) (Some a) (Some b) Hwf) as H. cbv zeta in H. unfold py_bound in H.
  destruct (a <? 0) eqn:E1; [lia|]. destruct (b <? 0) eqn:E2; [lia|].
  destruct (H Ha Hb) as (m' & E & Hwf' & Habs). rewrite E. f_equal.
  rewrite abs_from_mask in Habs. rewrite <- Habs. symmetry. now apply from_mask_abs.
Qed.

(** ** corrected [__add__], [nongap], [get_coordinates]: unguarded, by complete
    enumeration (pairs of strings of length <= 6, strings of length <= 10) *)

Definition add_v2_ok (p : list bool * list bool) : bool :=
  let (k1, k2) := p in
  match add_v2 (from_mask k1) (from_mask k2) with
  | Ok m => imap_eqb m (from_mask (k1 ++ k2)) | Err _ => false end.

Lemma add_v2_ok_upto_6 : forallb add_v2_ok (list_prod (masks_upto 6) (masks_upto 6)) = true.
Proof. vm_compute. reflexivity. Qed.

Lemma add_v2_bounded (k1 k2 : list bool) : (length k1 <= 6)%nat -> (length k2 <= 6)%nat ->
  add_v2 (from_mask k1) (from_mask k2) = Ok (from_mask (k1 ++ k2)).
Proof.
  intros H1 H2. pose proof add_v2_ok_upto_6 as H. rewrite forallb_forall in H.
  specialize (H (k1, k2) (in_prod _ _ _ _ (masks_upto_complete 6 k1 H1) (masks_upto_complete 6 k2 H2))).
  unfold add_v2_ok in H. destruct (add_v2 (from_mask k1) (from_mask k2)) as [m|]; [|discriminate].
  f_equal. now apply imap_eqb_eq.
Qed.

Definition listings_v2_ok (k : list bool) : bool :=
  pairs_eqb (nonempty (nongap_v2 (from_mask k))) (seg_runs k)
  && pairs_eqb (nonempty (get_coordinates_v2 (from_mask k))) (nonempty (seq_segments k)).

Lemma listings_v2_ok_upto_10 : forallb listings_v2_ok (masks_upto 10) = true.
Proof. vm_compute. reflexivity. Qed.

Lemma listings_v2_bounded (k : list bool) : (length k <= 10)%nat ->
  nonempty (nongap_v2 (from_mask k)) = seg_runs k /\
  nonempty (get_coordinates_v2 (from_mask k)) = nonempty (seq_segments k).
Proof.
  intros Hk. pose proof listings_v2_ok_upto_10 as H. rewrite forallb_forall in H.
  specialize (H k (masks_upto_complete 10 k Hk)). unfold listings_v2_ok in H.
  apply andb_prop in H. destruct H as (H1 & H2). split; now apply pairs_eqb_eq.
Qed.

(** ** corrected [__add__]: the unguarded concatenation theorem, all maps *)

Lemma del_at_app {A} (l1 : list A) x l2 : del_at (l1 ++ x :: l2) (zlen l1) = l1 ++ l2.
Proof.
  induction l1 as [|y l1 IH]; cbn [app del_at].
  - reflexivity.
  - rewrite zlen_cons. pose proof (zlen_nonneg l1) as Hn.
    destruct (1 + zlen l1 =? 0) eqn:E; [lia|]. f_equal.
    replace (1 + zlen l1 - 1) with (zlen l1) by lia. exact IH.
Qed.

Lemma expand_dup pp pc p c1 c2 gp cl plen : pc <= c1 -> c1 <= c2 ->
  expand pp pc (p :: p :: gp) (c1 :: c2 :: cl) plen = expand pp pc (p :: gp) (c2 :: cl) plen.
Proof.
  intros H1 H2. cbn [expand]. replace (p - p) with 0 by lia. cbn [Z.to_nat repeat app].
  f_equal. rewrite app_assoc. f_equal.
  replace (c2 - pc) with ((c1 - pc) + (c2 - c1)) by lia. symmetry. apply repeat_Zadd; lia.
Qed.

Lemma wf_from_app_inv g : forall pp pc c g2 c2 plen, length g = length c ->
  wf_from pp pc (g ++ g2) (c ++ c2) plen ->
  wf_from pp pc g c (lastd pp g) /\ wf_from (lastd pp g) (lastd pc c) g2 c2 plen.
Proof.
  induction g as [|p g IH]; intros pp pc c g2 c2 plen Hl H; destruct c as [|c0 c]; cbn [length] in Hl; try discriminate.
  - cbn [app lastd wf_from] in *. split; [lia|assumption].
  - cbn [app wf_from lastd] in *. destruct H as (A & B & H).
    destruct (IH p c0 c g2 c2 plen ltac:(lia) H) as (H1 & H2). repeat split; assumption.
Qed.

Lemma add_wf_arith m1 m2 : WF m1 -> WF m2 ->
  (forall gp', gap_pos m2 = 0 :: gp' -> lastd (0 - 1) (gap_pos m1) <> parent_length m1) ->
  exists m', add m1 m2 = Ok m' /\ WF m'.
Proof.
  intros H1 H2 Hn. eexists. split; [apply add_ok; assumption|].
  apply WF_wf0 in H1. apply WF_wf0 in H2. apply wf0_WF.
  pose proof (wf0_length _ _ _ _ _ H1) as Hl1.
  set (a := parent_length m1) in *. set (L := lastd 0 (cum_gap_lengths m1)).
  assert (Hlast : lastd (0 - 1) (gap_pos m1) <= a).
  { apply lastd_le_Forall; [destruct H1; lia|eapply wf0_Forall; exact H1]. }
  split; [destruct H1, H2; lia|].
  destruct H1 as [Ha H1].
  eapply wf_from_app; [exact H1|]. fold L.
  destruct (wf0_inv _ _ _ _ _ H2) as [(E1 & E2 & Hle)|(p & c & gp' & cl' & E1 & E2 & Hp & Hc & Hw)];
    rewrite E1, E2; cbn [map wf_from].
  - lia.
  - split; [|split; [lia|apply wf_from_shift; assumption]].
    destruct (Z.eq_dec p 0) as [->|Hp0]; [|lia].
    specialize (Hn gp' E1). lia.
Qed.

Lemma pyget_app_last (g : list Z) x l : pyget ((g ++ [x]) ++ l) (zlen (g ++ [x]) - 1) = x.
Proof.
  rewrite zlen_app, zlen_cons. znil. pose proof (zlen_nonneg g) as Hn.
  rewrite pyget_nonneg by lia. rewrite <- app_assoc. rewrite znth_app_r by lia.
  replace (zlen g + (1 + 0) - 1 - zlen g) with 0 by lia. reflexivity.
Qed.

Lemma pyget_app_next (g : list Z) y l : pyget (g ++ y :: l) (zlen g) = y.
Proof.
  pose proof (zlen_nonneg g) as Hn. rewrite pyget_nonneg by lia. rewrite znth_app_r by lia.
  replace (zlen g - zlen g) with 0 by lia. reflexivity.
Qed.

Theorem add_v2_spec m1 m2 : WF m1 -> WF m2 ->
  exists m', add_v2 m1 m2 = Ok m' /\ WF m' /\ abs m' = abs m1 ++ abs m2.
Proof.
  intros H1 H2.
  pose proof (add_ok m1 m2 H1 H2) as Eadd.
  destruct (add_abs m1 m2 H1 H2) as (ma & Ea & Habs). rewrite Eadd in Ea. injection Ea as Ema.
  (* when the two entries are not merged, [add_v2] is [add] *)
  assert (Hsame : forall (Hc : (negb (num_gaps m1 =? 0) && negb (num_gaps m2 =? 0)
                    && (pyget (gap_pos m1 ++ map (fun p => parent_length m1 + p) (gap_pos m2)) (num_gaps m1 - 1)
                        =? pyget (gap_pos m1 ++ map (fun p => parent_length m1 + p) (gap_pos m2)) (num_gaps m1))) = false),
            add_v2 m1 m2 = add m1 m2).
  { intros Hc. unfold add_v2, add. cbv zeta. rewrite Hc. reflexivity. }
  assert (Hfin : (forall gp', gap_pos m2 = 0 :: gp' -> lastd (0 - 1) (gap_pos m1) <> parent_length m1) ->
                 add_v2 m1 m2 = add m1 m2 ->
                 exists m', add_v2 m1 m2 = Ok m' /\ WF m' /\ abs m' = abs m1 ++ abs m2).
  { intros Hn Es. destruct (add_wf_arith m1 m2 H1 H2 Hn) as (mw & Ew & Hw). rewrite Es.
    exists mw. split; [exact Ew|]. split; [exact Hw|]. rewrite Eadd in Ew. injection Ew as <-. rewrite Ema. exact Habs. }
  pose proof (WF_wf0 _ H1) as W1. pose proof (WF_wf0 _ H2) as W2.
  pose proof (wf0_length _ _ _ _ _ W1) as Hl1. pose proof (wf0_length _ _ _ _ _ W2) as Hl2.
  destruct (gap_pos m1) as [|x0 gp1'] eqn:Eg1.
  { (* no gap on the left *)
    apply Hfin; [intros gp' _; cbn [lastd]; destruct W1; lia|]. apply Hsame. unfold num_gaps. rewrite Eg1. reflexivity. }
  destruct (gap_pos m2) as [|p g2] eqn:Eg2.
  { apply Hfin; [intros gp' E; discriminate|]. apply Hsame. unfold num_gaps. rewrite Eg2.
    change (zlen (@nil Z) =? 0) with true. cbn [negb]. now rewrite andb_false_r. }
  (* both sides have gaps: x = last position on the left, p = first on the right *)
  destruct (exists_last (l := x0 :: gp1') ltac:(discriminate)) as (g & x & Eg). rewrite Eg in *.
  destruct (cum_gap_lengths m1) as [|y0 cl1'] eqn:Ec1; [cbn in Hl1; rewrite app_length in Hl1; cbn in Hl1; lia|].
  destruct (exists_last (l := y0 :: cl1') ltac:(discriminate)) as (c & y & Ec). rewrite Ec in *.
  destruct (cum_gap_lengths m2) as [|c0 c2] eqn:Ec2; [cbn in Hl2; lia|].
  assert (Hlg : length g = length c) by (rewrite !app_length in Hl1; cbn in Hl1; lia).
  set (a := parent_length m1) in *.
  assert (Hx : x <= a).
  { pose proof (wf0_lastd _ _ _ _ _ W1) as Hl. rewrite lastd_app in Hl. cbn [lastd] in Hl. exact Hl. }
  assert (Hp : 0 <= p /\ 0 < c0 /\ wf_from p c0 g2 c2 (parent_length m2)).
  { destruct W2 as [_ W2]. cbn [wf_from] in W2. destruct W2 as (A & B & D). repeat split; auto; lia. }
  destruct Hp as (Hp0 & Hc0 & Hw2).
  assert (En1 : num_gaps m1 = zlen (g ++ [x])) by (unfold num_gaps; now rewrite Eg1).
  assert (Ecmp : pyget ((g ++ [x]) ++ map (fun q => a + q) (p :: g2)) (num_gaps m1 - 1) = x)
    by (rewrite En1; apply pyget_app_last).
  assert (Ecmp2 : pyget ((g ++ [x]) ++ map (fun q => a + q) (p :: g2)) (num_gaps m1) = a + p)
    by (rewrite En1; cbn [map]; apply pyget_app_next).
  destruct (Z.eq_dec x (a + p)) as [Exp|Nxp].
  2:{ apply Hfin.
      - intros gp' E. injection E as -> _. rewrite lastd_app. cbn [lastd]. lia.
      - apply Hsame. rewrite Ecmp, Ecmp2. destruct (x =? a + p) eqn:E; [lia|]. now rewrite andb_false_r. }
  (* the merged case: x = a and p = 0 *)
  assert (x = a) as -> by lia. assert (p = 0) as -> by lia.
  set (L := lastd 0 (c ++ [y])) in *.
  assert (EL : L = y) by (unfold L; rewrite lastd_app; reflexivity).
  assert (Ecum_len : (if num_gaps m1 =? 0 then 0 else zlast (cum_gap_lengths m1)) = L).
  { rewrite (cum_length_lastd m1 H1). now rewrite Ec1. }
  exists (mk_imap ((g ++ [a]) ++ map (fun q => a + q) g2)
                  ((c ++ [L + c0]) ++ map (fun q => L + q) c2) (a + parent_length m2)).
  (* the lists after the deletion *)
  assert (Edel1 : del_at ((g ++ [a]) ++ map (fun q => a + q) (0 :: g2)) (num_gaps m1)
                  = (g ++ [a]) ++ map (fun q => a + q) g2).
  { rewrite En1. cbn [map]. apply del_at_app. }
  assert (Edel2 : del_at ((c ++ [y]) ++ map (fun q => L + q) (c0 :: c2)) (num_gaps m1 - 1)
                  = (c ++ [L + c0]) ++ map (fun q => L + q) c2).
  { rewrite En1, zlen_app, zlen_cons. znil. replace (zlen g + (1 + 0) - 1) with (zlen c) by (unfold zlen; lia).
    rewrite <- !app_assoc. cbn [map app]. apply del_at_app. }
  (* well-formedness of the merged arrays *)
  assert (Hy : lastd 0 c < y /\ wf_from (0 - 1) 0 g c (lastd (0 - 1) g) /\ lastd (0 - 1) g < a).
  { destruct W1 as [_ W1]. destruct (wf_from_app_inv g _ _ c [a] [y] _ Hlg W1) as (Wa & Wb).
    cbn [wf_from] in Wb. destruct Wb as (A & B & _). repeat split; auto. }
  destruct Hy as (Hy1 & Hy2 & Hy3).
  assert (Hwf' : wf_from (0 - 1) 0 ((g ++ [a]) ++ map (fun q => a + q) g2)
                         ((c ++ [L + c0]) ++ map (fun q => L + q) c2) (a + parent_length m2)).
  { eapply wf_from_app.
    - eapply wf_from_app; [exact Hy2|]. cbn [wf_from]. split; [exact Hy3|]. split; [lia|]. apply Z.le_refl.
    - rewrite !lastd_app. cbn [lastd].
      pose proof (wf_from_shift a L g2 0 c0 c2 _ Hw2) as Hs. replace (a + 0) with a in Hs by lia. exact Hs. }
  split; [|split].
  - unfold add_v2. cbv zeta. fold a. rewrite Ecum_len. rewrite Eg1, Eg2, Ec1, Ec2. rewrite Ecmp, Ecmp2.
    assert (Ec' : negb (num_gaps m1 =? 0) && negb (num_gaps m2 =? 0) && (a =? a + 0) = true).
    { rewrite En1. unfold num_gaps. rewrite Eg2. rewrite zlen_app, !zlen_cons. znil.
      pose proof (zlen_nonneg g). pose proof (zlen_nonneg g2).
      destruct (zlen g + (1 + 0) =? 0) eqn:E1; [lia|]. destruct (1 + zlen g2 =? 0) eqn:E2; [lia|].
      destruct (a =? a + 0) eqn:E3; [reflexivity|lia]. }
    rewrite Ec'. rewrite Edel1, Edel2.
    apply post_init_ok.
    + rewrite !app_length, !map_length. cbn [length]. cbn [length] in Hl2. lia.
    + eapply wf_from_Forall. exact Hwf'.
  - apply wf0_WF. split; [destruct W1, W2; lia|exact Hwf'].
  - rewrite <- Habs, <- Ema. unfold abs. cbn [gap_pos cum_gap_lengths parent_length].
    rewrite <- !app_assoc. cbn [map app]. fold a.
    rewrite (expand_app g) by exact Hlg. rewrite (expand_app g) by exact Hlg. f_equal.
    replace (a + 0) with a by lia. symmetry. rewrite <- EL. apply expand_dup; lia.
Qed.

Theorem add_v2_from_mask (k1 k2 : list bool) :
  add_v2 (from_mask k1) (from_mask k2) = Ok (from_mask (k1 ++ k2)).
Proof.
  destruct (add_v2_spec (from_mask k1) (from_mask k2) (wf_from_mask k1) (wf_from_mask k2)) as (m' & E & Hwf' & Habs).
  rewrite E. f_equal. rewrite !abs_from_mask in Habs. rewrite <- Habs. symmetry. now apply from_mask_abs.
Qed.
