(** C16 — the stationary -> non-stationary projection reproduces the nested
    rate matrix up to the common factor rho (motif probability of the target
    state of the rich model's reference cell) *)
From Coq Require Import Permutation.
From CG3 Require Import Lib.PyZ Lib.Semiring Model.Nested Model.NestedNS Spec.NestedSpec Spec.NestedNSSpec
  Proofs.NestedProofs.

Lemma qcmul_laws : cm_laws qcmul.
Proof.
  constructor; simpl; intros.
  - apply Qcmult_comm.
  - apply Qcmult_assoc.
  - apply Qcmult_1_l.
Qed.

Lemma big_op_names_of_pick_x (theta : name -> Qc) s :
  big_op qcmul theta (names_of_pick (PChosen s)) = theta_x theta s.
Proof.
  unfold names_of_pick, theta_x. destruct (name_eqb s ref_cell); simpl; auto. apply Qcmult_1_r.
Qed.

Lemma is_perm_nil_l l : is_perm [] l = true -> l = [].
Proof. destruct l; simpl; auto; discriminate. Qed.

Theorem projection_exact_not_same_lemma ex pi rho rich simple :
  NoDup (map fst rich) ->
  nested_ok_ns ex rich simple = true ->
  rho <> 0%Qc ->
  (forall c, In c (coords_of ref_cell rich) -> pi (snd c) = rho) ->
  forall (theta : name -> Qc) c, In c (universe rich simple) ->
    (Q_nonstationary rich (theta_ns ex pi rho rich simple theta) c * rho
     = Q_stationary pi simple theta c)%Qc.
Proof.
  intros ND OK Hrho Href theta c Hc.
  unfold nested_ok_ns in OK. apply andb_prop in OK. destruct OK as [OK1 OK2].
  unfold nested_ok in OK1. apply andb_prop in OK1. destruct OK1 as [_ OKp].
  rewrite forallb_forall in OKp, OK2. specialize (OKp c Hc). specialize (OK2 c Hc).
  rewrite mapped_names_tbl_eq in OKp.
  unfold Q_nonstationary, Q_stationary, rate, covering. unfold mapped_names in OKp. unfold cell_ok_ns in OK2.
  destruct (filter (covers c) rich) as [|p [|p2 t]] eqn:F; [| |discriminate].
  - (* a reference cell of the rich model *)
    cbn [flat_map] in OKp. apply is_perm_nil_l in OKp. unfold covering in OKp. rewrite OKp. simpl.
    apply mem_cell_In in OK2. rewrite (Href c OK2). ring.
  - (* exactly one rich parameter *)
    assert (Hp : In p rich).
    { assert (In p (filter (covers c) rich)) by (rewrite F; left; auto). apply filter_In in H. tauto. }
    apply andb_prop in OK2. destruct OK2 as [Hcol Hch].
    destruct (last_col (snd p)) as [j|] eqn:L; [|discriminate]. apply Z.eqb_eq in Hcol. subst j.
    destruct (pick_simple ex rich simple (snd p)) as [| |s] eqn:P; try discriminate.
    cbn [flat_map] in OKp. rewrite app_nil_r, P in OKp. apply is_perm_sound in OKp.
    unfold covering in OKp.
    rewrite <- (big_op_perm qcmul_laws theta OKp).
    rewrite big_op_names_of_pick_x.
    simpl. unfold theta_ns. rewrite (coords_of_In rich p ND Hp).
    unfold projected_ns. rewrite P, L. field. exact Hrho.
Qed.

(** the reference value computed by the code is the motif probability of the
    target state of a reference cell of the rich model *)
Lemma ref_val_is_ref_col pi rich rho :
  ref_val pi rich = MOk rho -> exists c, In c (coords_of ref_cell rich) /\ rho = pi (snd c).
Proof.
  unfold ref_val. destruct (coords_of ref_cell rich) as [|c t]; [discriminate|].
  intros E; inversion E. exists c. split; [left|]; auto.
Qed.

(** non-vacuity: HKY85 within GN (coordinates as cogent3 reports them; the
    eleven GN parameter names abbreviated to numbers) *)
Definition gn_coords : coords :=
  [([1], [(2,1)]); ([2], [(2,0)]); ([3], [(2,3)]); ([4], [(1,2)]); ([5], [(1,0)]); ([6], [(1,3)]);
   ([7], [(0,2)]); ([8], [(0,1)]); ([9], [(3,2)]); ([10], [(3,1)]); ([11], [(3,0)]); (ref_cell, [(0,3)])].

Example hky_in_gn_nested_ok_ns :
  nested_ok_ns false gn_coords hky_coords = true /\ nested_ok_ns true gn_coords hky_coords = true /\
  nested_ok_ns false gn_coords gtr_coords = true /\ NoDup (map fst gn_coords).
Proof.
  split; [vm_compute; reflexivity|]. split; [vm_compute; reflexivity|]. split; [vm_compute; reflexivity|].
  repeat constructor; simpl; intuition discriminate.
Qed.

(** * update_param_rules (same = False) assigns exactly [theta_ns] *)

Lemma lookup_qrule_app n a b :
  lookup_qrule n (a ++ b) = match lookup_qrule n a with Some v => Some v | None => lookup_qrule n b end.
Proof. induction a as [|r a IH]; simpl; auto. destruct (name_eqb (q_par r) n); auto. Qed.

(** the rules one nested rule (value [mle], scope [e]) is replaced by *)
Lemma lookup_qrule_rate_not_same pi rho rich e mle n :
  name_eqb n ref_cell = false -> forall L,
  lookup_qrule n (map (fun nv => mkqrule (fst nv) e (snd nv))
                      (flat_map (fun rp => if name_eqb rp ref_cell then []
                                           else match last_col (coords_of rp rich) with
                                                | None => []
                                                | Some j => [(rp, (pi j * mle / rho)%Qc)]
                                                end) L))
  = if mem_name n L
    then match last_col (coords_of n rich) with Some j => Some (pi j * mle / rho)%Qc | None => None end
    else None.
Proof.
  intros Hn. induction L as [|x L IH]; [reflexivity|].
  cbn [flat_map]. rewrite map_app, lookup_qrule_app, IH. clear IH.
  unfold mem_name. cbn [existsb]. fold (mem_name n L).
  destruct (name_eqb n x) eqn:E.
  - apply name_eqb_eq in E. subst x. rewrite Hn.
    destruct (last_col (coords_of n rich)) as [j|]; simpl.
    + rewrite name_eqb_refl. reflexivity.
    + destruct (mem_name n L); reflexivity.
  - destruct (name_eqb x ref_cell); simpl; [reflexivity|].
    destruct (last_col (coords_of x rich)) as [j|]; simpl; [|reflexivity].
    rewrite (name_eqb_sym x n), E. reflexivity.
Qed.

Theorem projected_rules_assign_ns_lemma ex pi rho rich simple pm rules n rc :
  param_mapping ex rich simple = MOk pm ->
  NoDup (map fst rich) ->
  (forall r, In r rules -> In (q_par r) (map fst simple) /\
                           name_eqb (q_par r) n_mprobs || name_eqb (q_par r) n_length = false) ->
  In ref_cell (map fst simple) ->
  In (n, rc) rich -> name_eqb n ref_cell = false ->
  lookup_qrule n (update_param_rules_not_same pi rho rich pm rules)
  = match pick_simple ex rich simple rc, last_col rc with
    | PChosen s, Some j =>
        match lookup_qrule s (rules ++ [mkqrule ref_cell None 1%Qc]) with
        | Some v => Some (pi j * v / rho)%Qc
        | None => None
        end
    | _, _ => None
    end.
Proof.
  intros Hpm ND Hrules Hrefin Hin Hnref.
  apply param_mapping_shape in Hpm. subst pm.
  pose proof (coords_of_In rich (n, rc) ND Hin) as Hco. simpl in Hco.
  unfold update_param_rules_not_same.
  set (all := rules ++ [mkqrule ref_cell None 1%Qc]).
  assert (Hall : forall r, In r all -> In (q_par r) (map fst simple) /\
                                      name_eqb (q_par r) n_mprobs || name_eqb (q_par r) n_length = false).
  { intros r Hr. unfold all in Hr. apply in_app_or in Hr. destruct Hr as [Hr | [<- | []]]; auto. }
  clearbody all. induction all as [|r t IH].
  - simpl. destruct (pick_simple ex rich simple rc); [| |destruct (last_col rc)]; reflexivity.
  - destruct (Hall r (or_introl eq_refl)) as [Hsim Hnot].
    assert (IH' := IH (fun r' H' => Hall r' (or_intror H'))). clear IH.
    cbn [flat_map]. rewrite Hnot, lookup_qrule_app, IH'. clear IH'.
    unfold rate_not_same. rewrite (lookup_qrule_rate_not_same pi rho rich (q_edges r) (q_val r) n Hnref).
    rewrite lookup_map_chosen by auto.
    rewrite (chosen_names_mem ex rich simple (q_par r) n rc ND Hin), Hco.
    cbn [lookup_qrule].
    destruct (pick_simple ex rich simple rc) as [| |s]; cbn [chosen_is]; auto.
    rewrite (name_eqb_sym s (q_par r)).
    destruct (name_eqb (q_par r) s); destruct (last_col rc); reflexivity.
Qed.

Lemma pick_chosen_in_simple ex rich simple rc s :
  pick_simple ex rich simple rc = PChosen s -> In s (map fst simple).
Proof.
  unfold pick_simple.
  assert (Hsub : forall p, In p (supersets ex rich simple rc) -> In p simple).
  { intros p Hp. unfold supersets in Hp. apply filter_In in Hp. tauto. }
  destruct (supersets ex rich simple rc) as [|p [|p2 t]] eqn:S.
  - discriminate.
  - intros E; inversion E; subst. apply in_map. apply Hsub. left; auto.
  - destruct (filter _ (p :: p2 :: t)) as [|q [|q2 t2]] eqn:F; try discriminate.
    intros E; inversion E; subst. apply in_map. apply Hsub.
    assert (In q (filter (fun q0 => zlen (snd q0) =? min_size (p2 :: t) (zlen (snd p))) (p :: p2 :: t))) by (rewrite F; left; auto).
    apply filter_In in H. tauto.
Qed.

(** end to end on the transcribed functions: the rules produced for a fresh
    non-stationary alternate give, on every cell, the nested (stationary) rate
    matrix divided by rho *)
Theorem init_rates_exact_ns_lemma ex pi rho rich simple pm rules :
  param_mapping ex rich simple = MOk pm ->
  nested_ok_ns ex rich simple = true ->
  NoDup (map fst rich) ->
  (forall r, In r rules -> In (q_par r) (map fst simple) /\
                           name_eqb (q_par r) n_mprobs || name_eqb (q_par r) n_length = false) ->
  In ref_cell (map fst simple) ->
  lookup_qrule ref_cell rules = None ->
  (forall s, In s (map fst simple) -> name_eqb s ref_cell = false -> lookup_qrule s rules <> None) ->
  rho <> 0%Qc ->
  (forall c, In c (coords_of ref_cell rich) -> pi (snd c) = rho) ->
  forall c, In c (universe rich simple) ->
    (Q_nonstationary rich (theta_from_q (update_param_rules_not_same pi rho rich pm rules)) c * rho
     = Q_stationary pi simple (theta_from_q rules) c)%Qc.
Proof.
  intros Hpm OK ND Hrules Hrefin Hnoref Hcover Hrho Href c Hc.
  rewrite <- (projection_exact_not_same_lemma ex pi rho rich simple ND OK Hrho Href (theta_from_q rules) c Hc).
  f_equal. unfold Q_nonstationary, rate. apply big_op_ext. intros n Hn.
  unfold covering in Hn. apply in_map_iff in Hn. destruct Hn as [[n' rc] [<- Hp]].
  apply filter_In in Hp. destruct Hp as [Hin Hcv]. unfold covers in Hcv. simpl in Hcv.
  apply andb_prop in Hcv. destruct Hcv as [Hnr _]. apply negb_true_iff in Hnr.
  simpl. unfold theta_from_q at 1.
  rewrite (projected_rules_assign_ns_lemma ex pi rho rich simple pm rules n' rc Hpm ND Hrules Hrefin Hin Hnr).
  pose proof (coords_of_In rich (n', rc) ND Hin) as Hco. simpl in Hco.
  unfold theta_ns, projected_ns. rewrite Hco.
  destruct (pick_simple ex rich simple rc) as [| |s] eqn:P; auto.
  destruct (last_col rc) as [j|]; auto.
  rewrite lookup_qrule_app. unfold theta_x.
  destruct (name_eqb s ref_cell) eqn:E.
  - apply name_eqb_eq in E. subst s. rewrite Hnoref. simpl. reflexivity.
  - pose proof (Hcover s (pick_chosen_in_simple _ _ _ _ _ P) E) as Hs.
    unfold theta_from_q. destruct (lookup_qrule s rules) as [v|]; [reflexivity | congruence].
Qed.

(** * constant terms are projected like free ones *)

Lemma project_prule_value_lemma pi rho rich pm r mle r' :
  name_eqb (p_par r) n_mprobs || name_eqb (p_par r) n_length = false ->
  p_mle r = Some mle -> In r' (project_prule pi rho rich pm r) ->
  exists v, In (p_par r', v) (rate_not_same pi rho rich pm (p_par r) mle) /\
            null_rule_value r' = Some v /\ p_edges r' = p_edges r.
Proof.
  intros Hn Hm Hin. unfold project_prule in Hin. rewrite Hn, Hm in Hin.
  apply in_map_iff in Hin. destruct Hin as [[n v] [<- Hnv]]. exists v. simpl. auto.
Qed.

(** what reaches the rich rule is what the value-only model (qrule) computes *)
Lemma project_prule_agrees_lemma pi rho rich pm r mle :
  name_eqb (p_par r) n_mprobs || name_eqb (p_par r) n_length = false ->
  p_mle r = Some mle ->
  map (fun r' => (p_par r', null_rule_value r')) (project_prule pi rho rich pm r)
  = map (fun nv => (fst nv, Some (snd nv))) (rate_not_same pi rho rich pm (p_par r) mle).
Proof.
  intros Hn Hm. unfold project_prule. rewrite Hn, Hm, map_map. reflexivity.
Qed.

(** the "value first" reading hands over the un-projected constant *)
Lemma value_first_unprojected_witness :
  let pi := fun j : Z => if j =? 1 then Q2Qc (1 # 2) else Q2Qc (1 # 4) in
  let rich := [([1], [(0, 1)]); (ref_cell, [(1, 0)])] in
  let pm := [([9], [[1]])] in
  let r := mkprule [9] None true (Some (Q2Qc 2)) None in
  map null_rule_value (project_prule pi (Q2Qc (1 # 4)) rich pm r) = [Some (Q2Qc 4)] /\
  map null_rule_value_value_first (project_prule pi (Q2Qc (1 # 4)) rich pm r) = [Some (Q2Qc 2)].
Proof. split; vm_compute; reflexivity. Qed.
